(** Proofs about the slice-level model of the validators (Model/ValidatorsHeap.v):
    what validating a log does to the memory behind the log.

    Main result ([vap_keeps], [vfc_keeps]): if the range slices of the log lie
    inside their arrays, two of them are either the same window or disjoint
    ([WFheap]), and no slice with fewer than two ranges has spare capacity
    ([NoSmallSpare]), then ValidatorActorsAreProtected and
    ValidatorFinalCoverageIsComplete change the backing arrays only by sorting
    windows in place: afterwards every slice of the log holds a permutation of
    the ranges it held before ([kept]), hence every reference of the log denotes
    the same bytes ([kept_den]) and any later pass is given the same flow.
    Without [NoSmallSpare] this fails ([keeps_refuted]; finding
    C10-shared-backing-append). *)
From Coq Require Import Permutation.
From CSS Require Import Lib.Base Model.Ranges Model.Refs Model.Validators Model.ValidatorsHeap
  Proofs.Ranges Proofs.Refs.

(** ** Vocabulary *)

(** the window lies inside its array *)
Definition inb (h : heap) (w : sl) : Prop := (sl_off w + sl_len w <= length (nth (sl_arr w) h []))%nat.
Definition same_win (w w' : sl) : Prop :=
  sl_arr w = sl_arr w' /\ sl_off w = sl_off w' /\ sl_len w = sl_len w'.
Definition sep (w w' : sl) : Prop :=
  sl_arr w <> sl_arr w' \/ (sl_off w + sl_len w <= sl_off w')%nat \/ (sl_off w' + sl_len w' <= sl_off w)%nat.

Definition WFheap (h : heap) (W : list sl) : Prop :=
  Forall (inb h) W /\ forall w w', In w W -> In w' W -> same_win w w' \/ sep w w'.

Definition NoSmallSpare (W : list sl) : Prop :=
  forall w, In w W -> (sl_len w < 2)%nat -> sl_cap w = sl_len w.

(** [h] is [h0] up to the order of the ranges inside each window of [W] *)
Definition kept (h0 : heap) (W : list sl) (h : heap) : Prop :=
  (forall a, length (nth a h []) = length (nth a h0 [])) /\
  forall w, In w W -> Permutation (rd h0 w) (rd h w).

Lemma kept_refl h W : kept h W h.
Proof. split; intros; reflexivity. Qed.

Lemma no_small_spare_spec l : no_small_spare l = true <-> NoSmallSpare (windows l).
Proof.
  unfold no_small_spare, NoSmallSpare. rewrite forallb_forall. split; intros H w I.
  - intros Lt. specialize (H w I). unfold small_ok in H. apply Bool.orb_true_iff in H.
    destruct H as [H | H]; [apply Nat.leb_le in H; lia | apply Nat.eqb_eq in H; exact H].
  - unfold small_ok. destruct (2 <=? sl_len w)%nat eqn:E; [reflexivity|]. apply Nat.leb_gt in E.
    cbn [orb]. apply Nat.eqb_eq. apply H; assumption.
Qed.

(** ** Reading and writing windows *)

Lemma upd_nth_length {A} (f : A -> A) : forall n l, length (upd_nth n f l) = length l.
Proof. induction n; destruct l; cbn; auto. Qed.

Lemma nth_upd_nth_same {A} (f : A -> A) d : forall n l, (n < length l)%nat -> nth n (upd_nth n f l) d = f (nth n l d).
Proof. induction n; destruct l; cbn; intros; try lia; auto. apply IHn. lia. Qed.

Lemma nth_upd_nth_other {A} (f : A -> A) d : forall n m l, n <> m -> nth m (upd_nth n f l) d = nth m l d.
Proof. induction n; destruct l, m; cbn; intros; try congruence; auto. Qed.

Lemma upd_nth_beyond {A} (f : A -> A) : forall n l, (length l <= n)%nat -> upd_nth n f l = l.
Proof. induction n; destruct l; cbn; intros; try lia; auto. f_equal. apply IHn. lia. Qed.

Lemma splice_length off vals arr :
  (off + length vals <= length arr)%nat -> length (splice off vals arr) = length arr.
Proof. intros H. unfold splice. rewrite !app_length, firstn_length, skipn_length. lia. Qed.

(** reading the window just written *)
Lemma rd_splice_same off vals arr :
  (off + length vals <= length arr)%nat ->
  firstn (length vals) (skipn off (splice off vals arr)) = vals.
Proof.
  intros H. unfold splice.
  rewrite skipn_app, skipn_firstn_comm, Nat.sub_diag. cbn [firstn app].
  rewrite firstn_length, Nat.min_l by lia. rewrite Nat.sub_diag. cbn [skipn].
  rewrite firstn_app, Nat.sub_diag, firstn_all. cbn [firstn]. apply app_nil_r.
Qed.

Lemma nth_splice_out off vals arr i (d : range) :
  (off + length vals <= length arr)%nat -> (i < off \/ off + length vals <= i)%nat ->
  nth i (splice off vals arr) d = nth i arr d.
Proof.
  intros H O. unfold splice. destruct O as [O | O].
  - rewrite app_nth1 by (rewrite firstn_length; lia). rewrite nth_firstn_lt by lia. reflexivity.
  - rewrite app_nth2 by (rewrite firstn_length; lia). rewrite firstn_length, Nat.min_l by lia.
    rewrite app_nth2 by lia. rewrite nth_skipn. f_equal. lia.
Qed.
