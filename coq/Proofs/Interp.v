(** Proofs about Model/Interp.v: the code-shaped machine refines the
    specification, failures are contained, the log has one entry per executed
    step, measured data is partitioned by the log, a flow switch skips the rest
    of the step. *)
From CSS Require Import Lib.Base Model.Interp.
From Coq Require Import Lia.

(** * Lists *)

Lemma skipn_cons_nth {A} : forall (l : list A) k x more,
  skipn k l = x :: more ->
  nth_error l k = Some x /\ skipn (S k) l = more /\ (k < length l)%nat.
Proof.
  induction l as [|y l IH]; intros k x more H.
  - destruct k; discriminate.
  - destruct k as [|k].
    + cbn in H. inversion H; subst. cbn. repeat split; lia.
    + cbn in H. destruct (IH _ _ _ H) as (H1 & H2 & H3). cbn [nth_error length]. repeat split; auto; lia.
Qed.

Lemma skipn_nil_len {A} : forall (l : list A) k, skipn k l = [] -> (length l <= k)%nat.
Proof.
  induction l as [|y l IH]; intros k H; cbn; [lia|].
  destruct k; [discriminate|]. cbn in H. apply IH in H. lia.
Qed.

Lemma slice_new {A} (old m : list A) :
  (if Nat.ltb (length old) (length (old ++ m)) then skipn (length old) (old ++ m) else []) = m.
Proof.
  rewrite app_length.
  destruct (Nat.ltb (length old) (length old + length m)) eqn:E.
  - rewrite skipn_app, skipn_all, Nat.sub_diag. reflexivity.
  - apply Nat.ltb_ge in E. destruct m; [reflexivity | cbn in E; lia].
Qed.

Lemma zmem_In x l : zmem x l = true <-> In x l.
Proof.
  induction l as [|y l IH]; cbn; [split; [discriminate|tauto]|].
  rewrite orb_true_iff, IH, Z.eqb_eq. split; intros [H|H]; auto.
Qed.

(** * MaxUint arithmetic *)

Lemma wrap64_range z : 0 <= wrap64 z < W64.
Proof. rewrite wrap64_mod. apply Z.mod_pos_bound. reflexivity. Qed.

Lemma wrap64_small z : 0 <= z < W64 -> wrap64 z = z.
Proof. intros H. rewrite wrap64_mod. apply Z.mod_small. exact H. Qed.

Lemma wrap64_maxuint_succ : wrap64 (MAXUINT + 1) = 0.
Proof. reflexivity. Qed.

Lemma maxuint_lt : MAXUINT < W64.
Proof. reflexivity. Qed.

(** * Actions *)

Lemma core_apply_measured a c c' m r :
  core_apply a c = (c', m, r) -> c_measured c' = c_measured c ++ m.
Proof.
  destruct a; cbn; intros H.
  - inversion H; subst. now rewrite app_nil_r.
  - inversion H; subst. cbn. now rewrite app_nil_r.
  - inversion H; subst. now rewrite app_nil_r.
  - destruct (c_tpm c) as [[|]|]; inversion H; subst; cbn; now rewrite app_nil_r.
  - destruct (c_tpm c) as [?|]; inversion H; subst; cbn; now rewrite app_nil_r.
  - destruct r0; [destruct (c_tpm c) as [[|]|]| |]; inversion H; subst; cbn;
      try reflexivity; now rewrite app_nil_r.
  - destruct m0; inversion H; subst; cbn; try reflexivity; now rewrite app_nil_r.
  - destruct (eval_ffun fn c); inversion H; subst; now rewrite app_nil_r.
Qed.

Lemma spec_actions_measured : forall acts idx c iss m c' sw,
  spec_actions acts idx c = (iss, m, c', sw) -> c_measured c' = c_measured c ++ m.
Proof.
  induction acts as [|a rest IH]; intros idx c iss m c' sw H; cbn in H.
  - inversion H; subst. now rewrite app_nil_r.
  - destruct (core_apply a c) as [[c1 m1] r] eqn:Ea.
    apply core_apply_measured in Ea.
    destruct (sets_flow a c).
    + inversion H; subst. exact Ea.
    + destruct (spec_actions rest (idx + 1) c1) as [[[iss2 m2] c2] sw2] eqn:Er.
      inversion H; subst. apply IH in Er. rewrite Er, Ea, app_assoc. reflexivity.
Qed.

(** The loop of [stateNextStep] computes [spec_actions]; the carriage either
    stays on the step or sits before the first step of the new flow. *)
Lemma loop_actions_spec : forall acts idx st iss iss' m c' sw,
  ms_step st <> MAXUINT ->
  spec_actions acts idx (ms_core st) = (iss', m, c', sw) ->
  exists st', loop_actions acts idx st iss = (st', iss ++ iss') /\ ms_core st' = c' /\
    match sw with
    | Some g => ms_flow st' = g /\ ms_step st' = MAXUINT
    | None => ms_flow st' = ms_flow st /\ ms_step st' = ms_step st
    end.
Proof.
  induction acts as [|a rest IH]; intros idx st iss iss' m c' sw Hne H; cbn in H.
  - inversion H; subst. exists st. cbn. rewrite app_nil_r. auto.
  - cbn [loop_actions]. unfold apply_action. cbn [ms_core ms_flow ms_step ms_act].
    destruct (core_apply a (ms_core st)) as [[c1 m1] r] eqn:Ea.
    destruct (sets_flow a (ms_core st)) as [g|] eqn:Es.
    + inversion H; subst. cbn [set_flow ms_step]. rewrite Z.eqb_refl.
      eexists. split; [reflexivity|]. cbn. auto.
    + cbn [ms_step].
      destruct (ms_step st =? MAXUINT) eqn:E; [apply Z.eqb_eq in E; contradiction|].
      destruct (spec_actions rest (idx + 1) c1) as [[[iss2 m2] c2] sw2] eqn:Er.
      inversion H; subst.
      destruct (IH (idx + 1) (mkM (ms_flow st) (ms_step st) idx c1) (iss ++ apply_issues idx r)
                  iss2 m2 c' sw Hne Er) as (st' & Hl & Hc & Hp).
      exists st'. rewrite Hl, app_assoc. cbn in Hp. auto.
Qed.

(** * One NextStep *)

Definition uint_ok (st : mstate) : Prop := 0 <= ms_step st <= MAXUINT.

(** the steps the machine has still to execute in the current flow *)
Definition remaining (fam : family) (st : mstate) : list tstep :=
  match lookup fam (ms_flow st) with
  | None => []
  | Some steps => skipn (Z.to_nat (wrap64 (ms_step st + 1))) steps
  end.

Lemma remaining_init fam root c : remaining fam (init_state root c) = flow_steps fam root.
Proof.
  unfold remaining, flow_steps, init_state. cbn [ms_flow ms_step].
  rewrite wrap64_maxuint_succ. destruct (lookup fam root); reflexivity.
Qed.

Lemma uint_ok_init root c : uint_ok (init_state root c).
Proof. unfold uint_ok, init_state. cbn. unfold MAXUINT, W64. lia. Qed.

Lemma next_step_end fam st log :
  remaining fam st = [] ->
  exists st', next_step fam st log = Ok (st', log, false) /\
              ms_core st' = ms_core st /\ ms_flow st' = ms_flow st.
Proof.
  unfold remaining, next_step, state_next_step. intros H.
  destruct (lookup fam (ms_flow st)) as [steps|].
  - cbn [ms_step].
    apply skipn_nil_len in H.
    pose proof (wrap64_range (ms_step st + 1)) as Hr.
    destruct (wrap64 (ms_step st + 1) >=? Z.of_nat (length steps)) eqn:E.
    + eexists. split; [reflexivity|]. cbn. auto.
    + rewrite Z.geb_leb in E. apply Z.leb_gt in E. lia.
  - exists st. auto.
Qed.

Lemma actions_of_not_ok_entry (o : outcome (list action)) :
  (forall a, o <> Ok a) ->
  (match o with Ok a => (a, @nil icoord) | _ => ([], [ICActions]) end) = ([], [ICActions]).
Proof. destruct o; intros H; try reflexivity. exfalso. eapply H. reflexivity. Qed.

Lemma next_step_exec fam st log ts more e c' sw :
  sized fam -> uint_ok st ->
  remaining fam st = ts :: more ->
  exec_step ts (ms_core st) = (e, c', sw) ->
  exists st', next_step fam st log = Ok (st', log ++ [e], true) /\
              ms_core st' = c' /\ uint_ok st' /\
              remaining fam st' = match sw with Some g => flow_steps fam g | None => more end.
Proof.
  intros Hsz Hu Hrem Hex.
  unfold remaining in Hrem.
  destruct (lookup fam (ms_flow st)) as [steps|] eqn:El; [|discriminate].
  pose proof (Hsz _ _ El) as Hlen.
  pose proof (wrap64_range (ms_step st + 1)) as Hr.
  set (idx := wrap64 (ms_step st + 1)) in *.
  destruct (skipn_cons_nth _ _ _ _ Hrem) as (Hnth & Hsk & Hlt).
  assert (Hidx : idx < Z.of_nat (length steps)) by lia.
  assert (Hne : idx <> MAXUINT) by lia.
  unfold next_step, state_next_step. rewrite El. cbn [ms_step ms_core ms_flow ms_act].
  fold idx.
  destruct (idx >=? Z.of_nat (length steps)) eqn:E; [rewrite Z.geb_leb in E; apply Z.leb_le in E; lia|].
  rewrite Hnth. destruct ts as [sid body]. unfold exec_step in Hex.
  assert (Hnext : forall stp, ms_flow stp = ms_flow st -> ms_step stp = idx ->
            remaining fam stp = more).
  { intros stp Hf Hs. unfold remaining. rewrite Hf, El, Hs.
    rewrite wrap64_small by (pose proof maxuint_lt; lia).
    replace (Z.to_nat (idx + 1)) with (S (Z.to_nat idx)) by lia. exact Hsk. }
  destruct (actions_of body (ms_core st)) as [acts|ec| |] eqn:Ea.
  - destruct (spec_actions acts 0 (ms_core st)) as [[[iss m] c1] sw1] eqn:Es.
    destruct (actor_part c1) as [code aiss] eqn:Eact.
    inversion Hex; subst e c' sw. clear Hex.
    destruct (loop_actions_spec acts 0 (mkM (ms_flow st) idx (ms_act st) (ms_core st)) [] iss m c1 sw1 Hne Es)
      as (st2 & Hl & Hc & Hp).
    rewrite Hl. rewrite Hc, Eact. cbn [app].
    exists st2. rewrite Hc.
    rewrite (spec_actions_measured _ _ _ _ _ _ _ Es), slice_new.
    split; [reflexivity|]. split; [reflexivity|].
    destruct sw1 as [g|]; cbn [ms_flow ms_step] in Hp; destruct Hp as [Hf Hs].
    + split; [unfold uint_ok; rewrite Hs; unfold MAXUINT, W64; lia|].
      unfold remaining, flow_steps. rewrite Hf, Hs, wrap64_maxuint_succ.
      destruct (lookup fam g); reflexivity.
    + split; [unfold uint_ok; rewrite Hs; lia|]. apply Hnext; assumption.
  - (* Err: not produced by actions_of, handled like a panic *)
    destruct (actor_part (ms_core st)) as [code aiss] eqn:Eact.
    inversion Hex; subst e c' sw. clear Hex.
    cbn [loop_actions ms_core]. rewrite Eact. cbn [app ms_core]. rewrite Nat.ltb_irrefl.
    eexists. split; [reflexivity|].
    split; [reflexivity|]. split; [unfold uint_ok; cbn [ms_step]; lia|]. apply Hnext; reflexivity.
  - destruct (actor_part (ms_core st)) as [code aiss] eqn:Eact.
    inversion Hex; subst e c' sw. clear Hex.
    cbn [loop_actions ms_core]. rewrite Eact. cbn [app ms_core]. rewrite Nat.ltb_irrefl.
    eexists. split; [reflexivity|].
    split; [reflexivity|]. split; [unfold uint_ok; cbn [ms_step]; lia|]. apply Hnext; reflexivity.
  - destruct (actor_part (ms_core st)) as [code aiss] eqn:Eact.
    inversion Hex; subst e c' sw. clear Hex.
    cbn [loop_actions ms_core]. rewrite Eact. cbn [app ms_core]. rewrite Nat.ltb_irrefl.
    eexists. split; [reflexivity|].
    split; [reflexivity|]. split; [unfold uint_ok; cbn [ms_step]; lia|]. apply Hnext; reflexivity.
Qed.

(** * The machine computes [spec_run] (any family, any fuel) *)

Lemma run_spec fam : sized fam -> forall n st log,
  uint_ok st ->
  exists st',
    run n fam st log =
      Ok (st', log ++ fst (fst (spec_run n fam (remaining fam st) (ms_core st))),
          snd (spec_run n fam (remaining fam st) (ms_core st))) /\
    ms_core st' = snd (fst (spec_run n fam (remaining fam st) (ms_core st))).
Proof.
  intros Hsz. induction n as [|n IH]; intros st log Hu.
  - exists st. cbn. rewrite app_nil_r. auto.
  - cbn [run spec_run].
    destruct (remaining fam st) as [|ts more] eqn:Hrem.
    + destruct (next_step_end fam st log Hrem) as (st' & Hn & Hc & _).
      rewrite Hn. exists st'. cbn. rewrite app_nil_r. auto.
    + destruct (exec_step ts (ms_core st)) as [[e c'] sw] eqn:Hex.
      destruct (next_step_exec fam st log ts more e c' sw Hsz Hu Hrem Hex) as (st' & Hn & Hc & Hu' & Hr').
      rewrite Hn.
      destruct (IH st' (log ++ [e]) Hu') as (st'' & Hrun & Hc'').
      rewrite Hr', Hc in Hrun, Hc''.
      exists st''. rewrite Hrun.
      destruct (spec_run n fam match sw with Some g => flow_steps fam g | None => more end c')
        as [[l c''] d] eqn:Esr.
      cbn [fst snd] in *. rewrite <- app_assoc. cbn [app]. auto.
Qed.

(** * Targets of flow switches *)

Lemma eval_ffun_target : forall fn c g, eval_ffun fn c = Ok g -> In g (ffun_targets fn).
Proof.
  induction fn as [g0|cd t IHt e IHe|]; intros c g H; cbn in *.
  - inversion H; subst. left; reflexivity.
  - apply in_or_app. destruct (eval_cond cd c) as [[|]| | |]; try discriminate; eauto.
  - discriminate.
Qed.

(** whatever the state, an action only switches to one of its static targets *)
Lemma sets_flow_target a c g : sets_flow a c = Some g -> In g (action_targets a).
Proof.
  destruct a; cbn; try discriminate.
  - intros H; inversion H; subst. left; reflexivity.
  - destruct g0; [|discriminate]. intros H; inversion H; subst. left; reflexivity.
  - destruct (eval_ffun fn c) eqn:E; try discriminate. intros H; inversion H; subst.
    eapply eval_ffun_target; eauto.
Qed.

Lemma spec_actions_sw : forall acts idx c iss m c' g,
  spec_actions acts idx c = (iss, m, c', Some g) ->
  exists a, In a acts /\ In g (action_targets a).
Proof.
  induction acts as [|a rest IH]; intros idx c iss m c' g H; cbn in H; [discriminate|].
  destruct (core_apply a c) as [[c1 m1] r].
  destruct (sets_flow a c) as [g'|] eqn:Es.
  - inversion H; subst. exists a. split; [left; reflexivity | eapply sets_flow_target; eauto].
  - destruct (spec_actions rest (idx + 1) c1) as [[[iss2 m2] c2] sw2] eqn:Er.
    inversion H; subst. destruct (IH _ _ _ _ _ _ Er) as (a' & Hin & Hs).
    exists a'. split; [right; exact Hin | exact Hs].
Qed.

Lemma action_targets_in acts a g :
  In a acts -> In g (action_targets a) -> In g (flat_map action_targets acts).
Proof.
  intros Hin Hs. apply in_flat_map. exists a. split; [exact Hin|exact Hs].
Qed.

Lemma actions_of_targets : forall s c acts a g,
  actions_of s c = Ok acts -> In a acts -> In g (action_targets a) -> In g (step_targets s).
Proof.
  fix IH 1. intros s c acts a g H Hin Hs. destruct s; cbn in H.
  - inversion H; subst. cbn. eapply action_targets_in; eauto.
  - cbn [step_targets]. apply in_or_app.
    destruct (eval_cond c0 c) as [[|]| | |]; try discriminate.
    + left. destruct t as [s'|]; [eapply IH; eauto|]. inversion H; subst. destruct Hin.
    + right. destruct e as [s'|]; [eapply IH; eauto|]. inversion H; subst. destruct Hin.
  - cbn [step_targets]. revert acts H Hin.
    induction ss as [|[s'|] t IHt]; intros acts H Hin.
    + inversion H; subst. destruct Hin.
    + destruct (actions_of s' c) as [a1| | |] eqn:E1; try discriminate.
      match type of H with match ?X with _ => _ end = _ => destruct X as [a2| | |] eqn:E2; try discriminate end.
      inversion H; subst. apply in_or_app. apply in_app_or in Hin. destruct Hin as [Hin|Hin].
      * left. eapply IH; eauto.
      * right. eapply IHt; eauto.
    + discriminate.
  - inversion H; subst. destruct Hin as [<-|[]]. exact Hs.
  - inversion H; subst. destruct Hin as [<-|[]]. destruct Hs.
  - inversion H; subst. destruct Hin as [<-|[]]. destruct Hs.
  - inversion H; subst. destruct Hin as [<-|Hin]; [destruct Hs|].
    destruct withLog; [|destruct Hin].
    destruct (c_tpm c); cbn in Hin; intuition (subst; destruct Hs).
  - destruct panics; [discriminate|]. inversion H; subst. cbn. eapply action_targets_in; eauto.
  - inversion H; subst. destruct Hin as [<-|[]]. exact Hs.
  - inversion H; subst. destruct (c_tpm c); cbn in Hin; intuition (subst; destruct Hs).
  - discriminate.
Qed.

Lemma exec_step_sw_target ts c e c' g :
  exec_step ts c = (e, c', Some g) -> In g (step_targets (snd ts)).
Proof.
  destruct ts as [sid body]. unfold exec_step. cbn [snd].
  destruct (actions_of body c) as [acts| | |] eqn:Ea;
    try (destruct (actor_part c); intros H; inversion H; fail).
  destruct (spec_actions acts 0 c) as [[[iss m] c1] sw] eqn:Es.
  destruct (actor_part c1). intros H. inversion H; subst.
  destruct (spec_actions_sw _ _ _ _ _ _ _ Es) as (a & Hin & Hs).
  eapply actions_of_targets; eauto.
Qed.

(** [Step.Actions] either returns or panics *)
Lemma actions_of_shape : forall s c, (exists a, actions_of s c = Ok a) \/ actions_of s c = Panic.
Proof.
  assert (Hc : forall cd c, (exists b, eval_cond cd c = Ok b) \/ eval_cond cd c = Panic).
  { induction cd; intros c; cbn; eauto. destruct (IHcd c) as [[b ->]| ->]; eauto. }
  fix IH 1. intros s c. destruct s; cbn; eauto.
  - destruct (Hc c0 c) as [[[|] ->]| ->]; auto.
    + destruct t; eauto.
    + destruct e; eauto.
  - induction ss as [|[s'|] t IHt]; eauto.
    destruct (IH s' c) as [[a1 ->]| ->]; auto.
    destruct IHt as [[a2 ->]| ->]; eauto.
  - destruct panics; eauto.
Qed.

(** * Stratified families: [spec_run] with enough fuel is [exec_flow] *)

Lemma lookup_app_skip pre suf g :
  ~ In g (map fst pre) -> lookup (pre ++ suf) g = lookup suf g.
Proof.
  induction pre as [|[n s] pre IH]; intros H; [reflexivity|].
  cbn in *. destruct (n =? g) eqn:E.
  - apply Z.eqb_eq in E. tauto.
  - apply IH. tauto.
Qed.

Lemma stratified_spec : forall suf pre seen,
  (forall x, In x (map fst pre) -> In x seen) ->
  stratified_from seen suf = true ->
  forall g c n, ~ In g seen -> (total_steps suf < n)%nat ->
    spec_run n (pre ++ suf) (flow_steps (pre ++ suf) g) c =
      (fst (exec_flow suf g c), snd (exec_flow suf g c), true).
Proof.
  induction suf as [|[m steps] rest IH]; intros pre seen Hpre Hstr g c n Hg Hn.
  - unfold flow_steps. rewrite lookup_app_skip by (intros H; apply Hg, Hpre, H).
    cbn. destruct n; [cbn in Hn; lia|]. reflexivity.
  - cbn [stratified_from] in Hstr. apply andb_true_iff in Hstr. destruct Hstr as [Htg Hstr].
    rewrite forallb_forall in Htg.
    assert (Hpre' : forall x, In x (map fst (pre ++ [(m, steps)])) -> In x (m :: seen)).
    { intros x Hx. rewrite map_app in Hx. apply in_app_or in Hx. destruct Hx as [Hx|Hx].
      - right. apply Hpre, Hx.
      - cbn in Hx. destruct Hx as [<-|[]]. left; reflexivity. }
    assert (Hfam : pre ++ (m, steps) :: rest = (pre ++ [(m, steps)]) ++ rest)
      by (rewrite <- app_assoc; reflexivity).
    cbn [exec_flow total_steps] in *.
    destruct (m =? g) eqn:Emg.
    + (* this is the flow: run its steps *)
      unfold flow_steps at 1. rewrite lookup_app_skip by (intros H; apply Hg, Hpre, H).
      cbn [lookup]. rewrite Emg.
      assert (Hin : forall ss c n,
                 (forall x, In x (flow_targets ss) -> ~ In x (m :: seen)) ->
                 (length ss + total_steps rest < n)%nat ->
                 spec_run n (pre ++ (m, steps) :: rest) ss c =
                   (fst (exec_steps (exec_flow rest) ss c), snd (exec_steps (exec_flow rest) ss c), true)).
      { induction ss as [|ts more IHs]; intros c0 n0 Ht Hn0.
        - destruct n0; [lia|]. reflexivity.
        - destruct n0; [lia|]. cbn [spec_run exec_steps].
          destruct (exec_step ts c0) as [[e c1] sw] eqn:Hex.
          destruct sw as [g'|].
          + assert (Hg' : ~ In g' (m :: seen)).
            { apply Ht. unfold flow_targets. cbn [flat_map]. apply in_or_app. left.
              eapply exec_step_sw_target; eauto. }
            rewrite Hfam.
            rewrite (IH (pre ++ [(m, steps)]) (m :: seen) Hpre' Hstr g' c1 n0 Hg') by (cbn [length] in Hn0; lia).
            destruct (exec_flow rest g' c1). reflexivity.
          + rewrite IHs.
            * destruct (exec_steps (exec_flow rest) more c1). reflexivity.
            * intros x Hx. apply Ht. unfold flow_targets in *. cbn [flat_map]. apply in_or_app. right. exact Hx.
            * cbn [length] in Hn0. lia. }
      apply Hin; [|lia].
      intros x Hx Hbad. apply Htg in Hx. apply negb_true_iff in Hx.
      apply zmem_In in Hbad. congruence.
    + rewrite Hfam. apply IH with (seen := m :: seen); auto; [|lia].
      intros [<-|H]; [rewrite Z.eqb_refl in Emg; discriminate | exact (Hg H)].
Qed.

(** * Measured data *)

Lemma exec_step_measured ts c e c' sw :
  exec_step ts c = (e, c', sw) -> c_measured c' = c_measured c ++ e_measured e.
Proof.
  destruct ts as [sid body]. unfold exec_step.
  destruct (actions_of body c) as [acts| | |];
    try (destruct (actor_part c); intros H; inversion H; subst; cbn; now rewrite app_nil_r).
  destruct (spec_actions acts 0 c) as [[[iss m] c1] sw1] eqn:Es.
  destruct (actor_part c1). intros H. inversion H; subst. cbn.
  eapply spec_actions_measured; eauto.
Qed.

Lemma spec_run_measured fam : forall n rest c,
  c_measured (snd (fst (spec_run n fam rest c))) =
  c_measured c ++ concat (map e_measured (fst (fst (spec_run n fam rest c)))).
Proof.
  induction n as [|n IH]; intros rest c; cbn [spec_run].
  - cbn. now rewrite app_nil_r.
  - destruct rest as [|ts more]; [cbn; now rewrite app_nil_r|].
    destruct (exec_step ts c) as [[e c'] sw] eqn:Hex.
    specialize (IH (match sw with Some g => flow_steps fam g | None => more end) c').
    destruct (spec_run n fam match sw with Some g => flow_steps fam g | None => more end c') as [[l c''] d].
    cbn [fst snd map concat] in *. rewrite IH, (exec_step_measured _ _ _ _ _ Hex), app_assoc. reflexivity.
Qed.

(** * A flow without switches *)

Lemma spec_run_linear fam : forall rest n c,
  flow_targets rest = [] -> (length rest < n)%nat ->
  map e_sid (fst (fst (spec_run n fam rest c))) = map fst rest /\
  snd (spec_run n fam rest c) = true.
Proof.
  induction rest as [|ts more IH]; intros n c Ht Hn.
  - destruct n; [lia|]. cbn. auto.
  - destruct n; [lia|]. cbn [spec_run].
    destruct (exec_step ts c) as [[e c'] sw] eqn:Hex.
    unfold flow_targets in Ht. cbn [flat_map] in Ht. apply app_eq_nil in Ht. destruct Ht as [Ht1 Ht2].
    destruct sw as [g|].
    + apply exec_step_sw_target in Hex. rewrite Ht1 in Hex. destruct Hex.
    + destruct (IH n c' Ht2) as [H1 H2]; [cbn [length] in Hn; lia|].
      destruct (spec_run n fam more c') as [[l c''] d]. cbn [fst snd map] in *.
      split; [|exact H2]. f_equal; [|exact H1].
      destruct ts as [sid body]. unfold exec_step in Hex.
      destruct (actions_of body c) as [acts0| | |]; try (destruct (actor_part c); inversion Hex; reflexivity).
      destruct (spec_actions acts0 0 c) as [[[? ?] c1] ?]. destruct (actor_part c1). inversion Hex. reflexivity.
Qed.

(** * Failure containment inside a step *)

Definition core_after (a : action) (c : core) : core := fst (fst (core_apply a c)).
Definition result_of (a : action) (c : core) : outcome unit := snd (core_apply a c).

(** the actions that are applied when the step starts in [c]: all up to and
    including the first one that sets the flow — whether or not they fail.
    Whether an action sets the flow is decided on the state left by its
    predecessors (a function-based set-flow looks at that state). *)
Fixpoint executed (acts : list action) (c : core) : list action :=
  match acts with
  | [] => []
  | a :: rest =>
      match sets_flow a c with
      | Some _ => [a]
      | None => a :: executed rest (core_after a c)
      end
  end.

Definition apply_all (l : list action) (c : core) : core :=
  fold_left (fun c a => core_after a c) l c.

(** the flow the action list switches to when run from [c], if any *)
Fixpoint first_switch (acts : list action) (c : core) : option Z :=
  match acts with
  | [] => None
  | a :: rest =>
      match sets_flow a c with
      | Some g => Some g
      | None => first_switch rest (core_after a c)
      end
  end.

Lemma core_after_eq a c c1 m1 r : core_apply a c = (c1, m1, r) -> core_after a c = c1.
Proof. unfold core_after. intros ->. reflexivity. Qed.

Lemma spec_actions_switch : forall acts idx c,
  snd (spec_actions acts idx c) = first_switch acts c.
Proof.
  induction acts as [|a rest IH]; intros idx c; cbn [spec_actions first_switch]; [reflexivity|].
  destruct (core_apply a c) as [[c1 m1] r] eqn:Ea.
  rewrite (core_after_eq _ _ _ _ _ Ea).
  destruct (sets_flow a c); [reflexivity|].
  specialize (IH (idx + 1) c1).
  destruct (spec_actions rest (idx + 1) c1) as [[[iss2 m2] c2] sw2]. exact IH.
Qed.

Lemma spec_actions_core : forall acts idx c,
  snd (fst (spec_actions acts idx c)) = apply_all (executed acts c) c.
Proof.
  induction acts as [|a rest IH]; intros idx c; cbn [spec_actions executed]; [reflexivity|].
  destruct (core_apply a c) as [[c1 m1] r] eqn:Ea.
  rewrite (core_after_eq _ _ _ _ _ Ea).
  destruct (sets_flow a c).
  - unfold apply_all. cbn. rewrite (core_after_eq _ _ _ _ _ Ea). reflexivity.
  - specialize (IH (idx + 1) c1).
    destruct (spec_actions rest (idx + 1) c1) as [[[iss2 m2] c2] sw2].
    cbn [fst snd] in *. rewrite IH. unfold apply_all. cbn [fold_left].
    rewrite (core_after_eq _ _ _ _ _ Ea). reflexivity.
Qed.

Lemma spec_actions_issue_iff : forall acts idx c k,
  In (ICAction k) (fst (fst (fst (spec_actions acts idx c)))) <->
  exists n a, k = idx + Z.of_nat n /\ nth_error (executed acts c) n = Some a /\
              result_of a (apply_all (firstn n (executed acts c)) c) <> Ok tt.
Proof.
  induction acts as [|a rest IH]; intros idx c k; cbn [spec_actions executed].
  - cbn. split; [tauto|]. intros (n & a & _ & H & _). destruct n; discriminate.
  - destruct (core_apply a c) as [[c1 m1] r] eqn:Ea.
    pose proof (core_after_eq _ _ _ _ _ Ea) as Hc1. rewrite Hc1.
    assert (Hhead : In (ICAction k) (apply_issues idx r) <-> k = idx /\ result_of a c <> Ok tt).
    { unfold result_of. rewrite Ea. cbn [snd]. destruct r as [[]| | |]; cbn; split;
        try tauto; try (intros [H|[]]; inversion H; split; [reflexivity|discriminate]);
        try (intros [-> _]; left; reflexivity). }
    destruct (sets_flow a c) eqn:Es.
    + cbn [fst]. rewrite Hhead. split.
      * intros [-> Hr]. exists O, a. cbn. rewrite Z.add_0_r. auto.
      * intros (n & a' & Hk & Hn & Hr). destruct n as [|n].
        -- cbn in Hn, Hr. inversion Hn; subst. rewrite Z.add_0_r. auto.
        -- cbn in Hn. destruct n; discriminate.
    + specialize (IH (idx + 1) c1 k).
      destruct (spec_actions rest (idx + 1) c1) as [[[iss2 m2] c2] sw2].
      cbn [fst] in *. rewrite in_app_iff, Hhead, IH. split.
      * intros [[-> Hr]|(n & a' & Hk & Hn & Hr)].
        -- exists O, a. cbn. rewrite Z.add_0_r. auto.
        -- exists (S n), a'. split; [lia|]. split; [exact Hn|].
           cbn [firstn]. unfold apply_all in *. cbn [fold_left]. rewrite Hc1. exact Hr.
      * intros (n & a' & Hk & Hn & Hr). destruct n as [|n].
        -- left. cbn in Hn, Hr. inversion Hn; subst. rewrite Z.add_0_r. auto.
        -- right. exists n, a'. split; [lia|]. split; [exact Hn|].
           cbn [firstn] in Hr. unfold apply_all in *. cbn [fold_left] in Hr.
           rewrite Hc1 in Hr. exact Hr.
Qed.

(** * A switch makes the rest of the step irrelevant *)

Lemma first_switch_none_cons x pre c :
  first_switch (x :: pre) c = None ->
  sets_flow x c = None /\ first_switch pre (core_after x c) = None.
Proof. cbn. destruct (sets_flow x c); [discriminate|auto]. Qed.

Lemma spec_actions_skip : forall pre a post g idx c,
  first_switch pre c = None -> sets_flow a (apply_all pre c) = Some g ->
  spec_actions (pre ++ a :: post) idx c = spec_actions (pre ++ [a]) idx c /\
  snd (spec_actions (pre ++ a :: post) idx c) = Some g.
Proof.
  induction pre as [|x pre IH]; intros a post g idx c Hpre Ha; cbn [app spec_actions].
  - cbn in Ha. destruct (core_apply a c) as [[c1 m1] r]. rewrite Ha. auto.
  - apply first_switch_none_cons in Hpre. destruct Hpre as [H1 H2].
    unfold apply_all in Ha. cbn [fold_left] in Ha. fold (apply_all pre (core_after x c)) in Ha.
    unfold core_after in H2, Ha.
    destruct (core_apply x c) as [[c1 m1] r]. cbn [fst] in H2, Ha. rewrite H1.
    destruct (IH a post g (idx + 1) c1 H2 Ha) as [E1 E2]. rewrite E1.
    destruct (spec_actions (pre ++ [a]) (idx + 1) c1) as [[[iss2 m2] c2] sw2] eqn:E.
    split; [reflexivity|]. rewrite E1 in E2. exact E2.
Qed.

(** * A function-based set-flow is resolved when it is applied *)

Lemma first_switch_app : forall pre rest c,
  first_switch pre c = None ->
  first_switch (pre ++ rest) c = first_switch rest (apply_all pre c).
Proof.
  induction pre as [|x pre IH]; intros rest c H; [reflexivity|].
  apply first_switch_none_cons in H. destruct H as [H1 H2].
  cbn [app first_switch]. rewrite H1. rewrite IH by exact H2. reflexivity.
Qed.

(** the step built by [SetFlowFromFunc] hands the function on without calling
    it — in particular a function that would panic does not make [Actions]
    panic *)
Lemma set_flow_func_step_lazy id fn c :
  actions_of (SSetFlowFunc id fn) c = Ok [ASetFlowFunc id fn].
Proof. reflexivity. Qed.

(** the flow is chosen on the state left by ALL actions applied before it in
    the same step; a function that panics switches nothing (the action fails,
    the state is untouched) and the remaining actions decide *)
Lemma set_flow_func_late pre id fn post idx c :
  first_switch pre c = None ->
  snd (spec_actions (pre ++ ASetFlowFunc id fn :: post) idx c) =
    match eval_ffun fn (apply_all pre c) with
    | Ok g => Some g
    | _ => first_switch post (apply_all pre c)
    end.
Proof.
  intros H. rewrite spec_actions_switch, first_switch_app by exact H.
  cbn [first_switch sets_flow]. unfold core_after. cbn [core_apply].
  destruct (eval_ffun fn (apply_all pre c)); reflexivity.
Qed.

Lemma set_flow_func_issue id fn c :
  result_of (ASetFlowFunc id fn) c <> Ok tt <-> (forall g, eval_ffun fn c <> Ok g).
Proof.
  unfold result_of. cbn [core_apply]. destruct (eval_ffun fn c) as [g| | |]; cbn [snd]; split; intros H;
    try discriminate; try (intros g' ?; discriminate).
  - exfalso. apply H. reflexivity.
  - exfalso. eapply H. reflexivity.
Qed.

(** * Statements used by Props/C09.v *)

Definition sized_b (fam : family) : bool :=
  forallb (fun p : Z * list tstep => Z.of_nat (length (snd p)) <=? MAXUINT) fam.

Lemma sized_b_sound fam : sized_b fam = true -> sized fam.
Proof.
  unfold sized_b, sized. induction fam as [|[n s] fam IH]; intros H g steps Hl; [discriminate|].
  cbn [forallb snd] in H. cbn [lookup] in Hl. apply andb_true_iff in H. destruct H as [H1 H2].
  destruct (n =? g).
  - inversion Hl; subst. apply Z.leb_le. exact H1.
  - eapply IH; eauto.
Qed.

Lemma refines_spec_fuel fam root c fuel :
  sized fam ->
  exists st,
    run fuel fam (init_state root c) [] =
      Ok (st, fst (fst (spec_run fuel fam (flow_steps fam root) c)),
          snd (spec_run fuel fam (flow_steps fam root) c)) /\
    ms_core st = snd (fst (spec_run fuel fam (flow_steps fam root) c)).
Proof.
  intros Hsz.
  destruct (run_spec fam Hsz fuel (init_state root c) [] (uint_ok_init root c)) as (st & H1 & H2).
  rewrite remaining_init in H1, H2. cbn [app ms_core init_state] in H1, H2. exists st. auto.
Qed.

Lemma refines_spec fam root c fuel :
  sized fam -> stratified fam = true -> (fuel_bound fam <= fuel)%nat ->
  exists st,
    run fuel fam (init_state root c) [] = Ok (st, fst (exec_flow fam root c), true) /\
    ms_core st = snd (exec_flow fam root c).
Proof.
  intros Hsz Hstr Hf.
  destruct (refines_spec_fuel fam root c fuel Hsz) as (st & H1 & H2).
  pose proof (stratified_spec fam [] [] (fun x H => H) Hstr root c fuel (fun H => H)) as Hs.
  cbn [app] in Hs. rewrite Hs in H1, H2 by (unfold fuel_bound in Hf; lia).
  exists st. auto.
Qed.

Lemma never_aborts fam root c fuel :
  sized fam -> exists st log d, run fuel fam (init_state root c) [] = Ok (st, log, d).
Proof.
  intros Hsz. destruct (refines_spec_fuel fam root c fuel Hsz) as (st & H1 & _). eauto.
Qed.

Lemma never_panics fam root c fuel :
  sized fam -> run fuel fam (init_state root c) [] <> Panic.
Proof.
  intros Hsz. destruct (never_aborts fam root c fuel Hsz) as (st & log & d & H). rewrite H. discriminate.
Qed.

Lemma step_panic_contained sid body c :
  actions_of body c = Panic ->
  exec_step (sid, body) c =
    (mkEntry sid [] (ICActions :: snd (actor_part c)) [] (c_actor c) (fst (actor_part c)), c, None).
Proof. intros H. unfold exec_step. rewrite H. destruct (actor_part c). reflexivity. Qed.

Lemma action_failure_contained acts c :
  snd (fst (spec_actions acts 0 c)) = apply_all (executed acts c) c /\
  forall n, In (ICAction (Z.of_nat n)) (fst (fst (fst (spec_actions acts 0 c)))) <->
            exists a, nth_error (executed acts c) n = Some a /\
                      result_of a (apply_all (firstn n (executed acts c)) c) <> Ok tt.
Proof.
  split; [apply spec_actions_core|]. intros n. rewrite spec_actions_issue_iff. split.
  - intros (n' & a & Hk & Hn & Hr). assert (n = n') by lia. subst. eauto.
  - intros (a & Hn & Hr). exists n, a. auto.
Qed.

Lemma log_one_per_step fam st log :
  sized fam -> uint_ok st ->
  match remaining fam st with
  | [] => exists st', next_step fam st log = Ok (st', log, false)
  | ts :: _ =>
      exists st', next_step fam st log = Ok (st', log ++ [fst (fst (exec_step ts (ms_core st)))], true) /\
                  e_sid (fst (fst (exec_step ts (ms_core st)))) = fst ts
  end.
Proof.
  intros Hsz Hu. destruct (remaining fam st) as [|ts more] eqn:Hrem.
  - destruct (next_step_end fam st log Hrem) as (st' & H & _). eauto.
  - destruct (exec_step ts (ms_core st)) as [[e c'] sw] eqn:Hex.
    destruct (next_step_exec fam st log ts more e c' sw Hsz Hu Hrem Hex) as (st' & H & _).
    exists st'. split; [exact H|]. cbn [fst].
    destruct ts as [sid body]. unfold exec_step in Hex.
    destruct (actions_of body (ms_core st)) as [acts0| | |];
      try (destruct (actor_part (ms_core st)); inversion Hex; reflexivity).
    destruct (spec_actions acts0 0 (ms_core st)) as [[[? ?] c1] ?]. destruct (actor_part c1).
    inversion Hex. reflexivity.
Qed.

Lemma linear_flow_log fam root steps c fuel :
  sized fam -> lookup fam root = Some steps -> flow_targets steps = [] -> (length steps < fuel)%nat ->
  exists st log, run fuel fam (init_state root c) [] = Ok (st, log, true) /\ map e_sid log = map fst steps.
Proof.
  intros Hsz Hl Ht Hf.
  destruct (refines_spec_fuel fam root c fuel Hsz) as (st & H1 & _).
  unfold flow_steps in H1. rewrite Hl in H1.
  destruct (spec_run_linear fam steps fuel c Ht Hf) as [Ha Hb]. rewrite Hb in H1. eauto.
Qed.

Lemma measured_concat fam root c fuel st log d :
  sized fam -> run fuel fam (init_state root c) [] = Ok (st, log, d) ->
  c_measured (ms_core st) = c_measured c ++ concat (map e_measured log).
Proof.
  intros Hsz H. destruct (refines_spec_fuel fam root c fuel Hsz) as (st' & H1 & H2).
  rewrite H in H1. inversion H1; subst. rewrite H2. apply spec_run_measured.
Qed.

Lemma switch_skips_rest fam st log sid body pre a post g more :
  sized fam -> uint_ok st ->
  remaining fam st = (sid, body) :: more ->
  actions_of body (ms_core st) = Ok (pre ++ a :: post) ->
  first_switch pre (ms_core st) = None -> sets_flow a (apply_all pre (ms_core st)) = Some g ->
  exists st' e, next_step fam st log = Ok (st', log ++ [e], true) /\
    remaining fam st' = flow_steps fam g /\
    e_actions e = pre ++ a :: post /\
    ms_core st' = snd (fst (spec_actions (pre ++ [a]) 0 (ms_core st))) /\
    e_measured e = snd (fst (fst (spec_actions (pre ++ [a]) 0 (ms_core st)))) /\
    e_issues e = fst (fst (fst (spec_actions (pre ++ [a]) 0 (ms_core st)))) ++ snd (actor_part (ms_core st')).
Proof.
  intros Hsz Hu Hrem Hact Hpre Ha.
  destruct (spec_actions_skip pre a post g 0 (ms_core st) Hpre Ha) as [E1 E2].
  destruct (exec_step (sid, body) (ms_core st)) as [[e c'] sw] eqn:Hex.
  destruct (next_step_exec fam st log _ more e c' sw Hsz Hu Hrem Hex) as (st' & H & Hc & _ & Hr).
  unfold exec_step in Hex. rewrite Hact in Hex. rewrite E1 in Hex. rewrite E1 in E2.
  destruct (spec_actions (pre ++ [a]) 0 (ms_core st)) as [[[iss m] c1] sw1].
  destruct (actor_part c1) as [code aiss] eqn:Eact. injection Hex as He Hc1 Hsw.
  subst e. rewrite <- Hc1 in Hc. rewrite <- Hsw in Hr. cbn [snd] in E2. rewrite E2 in Hr.
  exists st', {| e_sid := sid; e_actions := pre ++ a :: post; e_issues := iss ++ aiss; e_measured := m;
                 e_actor := c_actor c1; e_code := code |}.
  cbn [fst snd e_actions e_measured e_issues]. rewrite Hc, Eact. cbn [snd].
  repeat split; auto.
Qed.

(** machine level: NextStep on a step whose action list contains a
    function-based set-flow continues at the first step of the flow the
    function returns FOR THE STATE LEFT BY THE PRECEDING ACTIONS *)
Lemma set_flow_func_machine fam st log sid body pre id fn post g more :
  sized fam -> uint_ok st ->
  remaining fam st = (sid, body) :: more ->
  actions_of body (ms_core st) = Ok (pre ++ ASetFlowFunc id fn :: post) ->
  first_switch pre (ms_core st) = None ->
  eval_ffun fn (apply_all pre (ms_core st)) = Ok g ->
  exists st' e, next_step fam st log = Ok (st', log ++ [e], true) /\
    remaining fam st' = flow_steps fam g /\
    ms_core st' = apply_all pre (ms_core st).
Proof.
  intros Hsz Hu Hrem Hact Hpre Hg.
  assert (Ha : sets_flow (ASetFlowFunc id fn) (apply_all pre (ms_core st)) = Some g)
    by (cbn [sets_flow]; rewrite Hg; reflexivity).
  destruct (switch_skips_rest fam st log sid body pre _ post g more Hsz Hu Hrem Hact Hpre Ha)
    as (st' & e & H1 & H2 & _ & H4 & _).
  exists st', e. split; [exact H1|]. split; [exact H2|]. rewrite H4.
  rewrite spec_actions_core.
  assert (Hex : forall l c, first_switch l c = None -> sets_flow (ASetFlowFunc id fn) (apply_all l c) = Some g ->
            apply_all (executed (l ++ [ASetFlowFunc id fn]) c) c = apply_all l c).
  { induction l as [|x l IH]; intros c Hn Hs.
    - cbn [app executed]. cbn [apply_all fold_left] in Hs. rewrite Hs. unfold apply_all. cbn [fold_left].
      unfold core_after. cbn [core_apply sets_flow] in *. destruct (eval_ffun fn c); try discriminate. reflexivity.
    - apply first_switch_none_cons in Hn. destruct Hn as [Hn1 Hn2].
      cbn [app executed]. rewrite Hn1. unfold apply_all in *. cbn [fold_left] in *. apply IH; assumption. }
  apply Hex; assumption.
Qed.

(** * Steps whose [Actions] panics, at machine level (nil steps) *)

(** NextStep on a step whose [Actions] panics — a nil [types.Step] in
    [Flow.Steps], a merged step with a nil element, a panicking condition ... —
    appends the entry with the step->actions issue and reports that a step was
    executed ([true]: Finish goes on); the state is untouched and the steps
    still to be executed are the FOLLOWING steps of the same flow. *)
Lemma step_panic_machine fam st log sid body more :
  sized fam -> uint_ok st ->
  remaining fam st = (sid, body) :: more ->
  actions_of body (ms_core st) = Panic ->
  exists st',
    next_step fam st log =
      Ok (st', log ++ [mkEntry sid [] (ICActions :: snd (actor_part (ms_core st))) []
                               (c_actor (ms_core st)) (fst (actor_part (ms_core st)))], true) /\
    ms_core st' = ms_core st /\ uint_ok st' /\ remaining fam st' = more.
Proof.
  intros Hsz Hu Hrem Hp.
  pose proof (step_panic_contained sid body (ms_core st) Hp) as Hex.
  destruct (next_step_exec fam st log _ more _ _ _ Hsz Hu Hrem Hex) as (st' & H & Hc & Hu' & Hr).
  exists st'. auto.
Qed.

Lemma nil_step_machine fam st log sid more :
  sized fam -> uint_ok st ->
  remaining fam st = (sid, SNil) :: more ->
  exists st',
    next_step fam st log =
      Ok (st', log ++ [mkEntry sid [] (ICActions :: snd (actor_part (ms_core st))) []
                               (c_actor (ms_core st)) (fst (actor_part (ms_core st)))], true) /\
    ms_core st' = ms_core st /\ uint_ok st' /\ remaining fam st' = more.
Proof. intros Hsz Hu Hrem. exact (step_panic_machine fam st log sid SNil more Hsz Hu Hrem eq_refl). Qed.

(** a flow consisting of holes only is still executed hole by hole *)
Lemma spec_run_all_nil fam : forall (sids : list Z) n c,
  (length sids < n)%nat ->
  spec_run n fam (map (fun sid => (sid, SNil)) sids) c =
    (map (fun sid => mkEntry sid [] (ICActions :: snd (actor_part c)) [] (c_actor c) (fst (actor_part c))) sids,
     c, true).
Proof.
  induction sids as [|sid t IH]; intros n c Hn; (destruct n as [|n]; [cbn in Hn; lia|]).
  - reflexivity.
  - cbn [map spec_run]. rewrite (step_panic_contained sid SNil c eq_refl).
    cbn [length] in Hn. rewrite IH by lia. reflexivity.
Qed.

(** * Negated conditions ([commonconds.Not]) *)

(** [n] times [commonconds.Not] around a condition *)
Fixpoint nots (n : nat) (cd : cond) : cond :=
  match n with O => cd | S k => CNot (nots k cd) end.

Lemma eval_cond_not cd c :
  eval_cond (CNot cd) c = match eval_cond cd c with Ok b => Ok (negb b) | o => o end.
Proof. reflexivity. Qed.

Lemma eval_cond_nots : forall n cd c,
  eval_cond (nots n cd) c =
    match eval_cond cd c with Ok b => Ok (if Nat.even n then b else negb b) | o => o end.
Proof.
  induction n as [|n IH]; intros cd c.
  - cbn. destruct (eval_cond cd c); reflexivity.
  - cbn [nots]. rewrite eval_cond_not, IH. rewrite Nat.even_succ, <- Nat.negb_even.
    destruct (eval_cond cd c) as [b| | |]; try reflexivity.
    destruct (Nat.even n), b; reflexivity.
Qed.

(** a conditional step on a negated condition is the conditional with its
    branches exchanged ... *)
Lemma if_not_swaps cd t e c :
  actions_of (SIf (CNot cd) t e) c = actions_of (SIf cd e t) c.
Proof.
  cbn [actions_of]. rewrite eval_cond_not.
  destruct (eval_cond cd c) as [[|]| | |]; reflexivity.
Qed.

(** ... so [n] negations exchange them iff [n] is odd *)
Lemma if_nots n cd t e c :
  actions_of (SIf (nots n cd) t e) c =
    if Nat.even n then actions_of (SIf cd t e) c else actions_of (SIf cd e t) c.
Proof.
  cbn [actions_of]. rewrite eval_cond_nots.
  destruct (eval_cond cd c) as [[|]| | |]; destruct (Nat.even n); reflexivity.
Qed.

(** the same for the function handed to SetFlowFunc / SetFlowFromFunc *)
Lemma ffun_nots n cd t e c :
  eval_ffun (FIf (nots n cd) t e) c =
    if Nat.even n then eval_ffun (FIf cd t e) c else eval_ffun (FIf cd e t) c.
Proof.
  cbn [eval_ffun]. rewrite eval_cond_nots.
  destruct (eval_cond cd c) as [[|]| | |]; destruct (Nat.even n); reflexivity.
Qed.

Lemma nil_flow_log fam root sids c fuel :
  sized fam -> lookup fam root = Some (map (fun sid => (sid, SNil)) sids) -> (length sids < fuel)%nat ->
  exists st,
    run fuel fam (init_state root c) [] =
      Ok (st, map (fun sid => mkEntry sid [] (ICActions :: snd (actor_part c)) [] (c_actor c) (fst (actor_part c))) sids,
          true) /\
    ms_core st = c.
Proof.
  intros Hsz Hl Hf.
  destruct (refines_spec_fuel fam root c fuel Hsz) as (st & H1 & H2).
  unfold flow_steps in H1, H2. rewrite Hl in H1, H2.
  rewrite (spec_run_all_nil fam sids fuel c Hf) in H1, H2. cbn [fst snd] in H1, H2. eauto.
Qed.
