(** Proofs about Model/Marshal.v (pkg/registers serialisation). *)
From Coq Require Import ZArith NArith List String Ascii Bool Lia Permutation Sorting.Sorted.
From Coq Require Import ZifyN ZifyNat ZifyBool.
From CSS Require Import Model.Marshal.
Import ListNotations.
Open Scope N_scope.
Ltac Zify.zify_post_hook ::= Z.div_mod_to_equations.

(** * Vocabulary *)

(** a register value is valid: its ID is registered and its raw value fits the Go type *)
Definition valid (r : reg) : Prop :=
  exists i, lookup (fst r) registry = Some i /\ snd r < 2 ^ r_bits i.

Definition validb (r : reg) : bool :=
  match lookup (fst r) registry with
  | Some i => snd r <? 2 ^ r_bits i
  | None => false
  end.

Definition ids (l : list reg) : list string := map fst l.

Lemma validb_iff r : validb r = true <-> valid r.
Proof.
  unfold validb, valid. split.
  - destruct (lookup (fst r) registry) as [i|]; [|discriminate].
    intro H. exists i. split; [reflexivity|]. apply N.ltb_lt. exact H.
  - intros [i [Hl Hx]]. rewrite Hl. apply N.ltb_lt. exact Hx.
Qed.

(** * 1. little-endian bytes *)

Lemma le_bytes_length n x : List.length (le_bytes n x) = n.
Proof. revert x. induction n; intro x; cbn [le_bytes List.length]; [reflexivity|]. now rewrite IHn. Qed.

Lemma le_bytes_range n x : Forall (fun b => b < 256) (le_bytes n x).
Proof.
  revert x. induction n; intro x; cbn [le_bytes]; constructor.
  - apply N.mod_lt. discriminate.
  - apply IHn.
Qed.

Lemma le_value_le_bytes_mod n x : le_value (le_bytes n x) = x mod 256 ^ N.of_nat n.
Proof.
  revert x. induction n; intro x.
  - cbn [le_bytes le_value]. change (N.of_nat 0) with 0. rewrite N.pow_0_r, N.mod_1_r. reflexivity.
  - cbn [le_bytes le_value]. rewrite IHn, Nat2N.inj_succ, N.pow_succ_r'.
    rewrite N.mod_mul_r; [reflexivity|discriminate|].
    apply N.pow_nonzero. discriminate.
Qed.

Lemma le_roundtrip n x : x < 256 ^ N.of_nat n -> le_value (le_bytes n x) = x.
Proof. intro H. rewrite le_value_le_bytes_mod. apply N.mod_small. exact H. Qed.

Lemma firstn_le_bytes p s x : (p <= s)%nat -> firstn p (le_bytes s x) = le_bytes p x.
Proof.
  revert s x. induction p; intros s x H; [reflexivity|].
  destruct s; [lia|]. cbn [le_bytes firstn]. f_equal. apply IHp. lia.
Qed.

(** * the registry *)

Lemma lookup_In id l i : lookup id l = Some i -> In i l /\ r_id i = id.
Proof.
  induction l as [|r t IH]; cbn [lookup]; [discriminate|].
  destruct (String.eqb id (r_id r)) eqn:E.
  - intro H. injection H as <-. apply String.eqb_eq in E. split; [left; reflexivity|now symmetry].
  - intro H. destruct (IH H). split; [right; assumption|assumption].
Qed.

(** per-entry well-formedness, checked for all 26 entries by computation *)
Definition entry_ok (i : rinfo) : bool :=
  (r_parser i <=? r_ser i)%nat &&
  (r_bits i <=? 8 * N.of_nat (r_parser i)) &&
  (if String.eqb (r_id i) key_id then (r_ser i =? 32)%nat && (r_bits i =? 256) else true).

Lemma registry_ok : forallb entry_ok registry = true.
Proof. vm_compute. reflexivity. Qed.

Lemma registry_length : List.length registry = 26%nat.
Proof. reflexivity. Qed.

Lemma lookup_ok id i : lookup id registry = Some i ->
  r_id i = id /\ (r_parser i <= r_ser i)%nat /\ r_bits i <= 8 * N.of_nat (r_parser i) /\
  (id = key_id -> r_ser i = 32%nat /\ r_bits i = 256).
Proof.
  intro H. apply lookup_In in H. destruct H as [Hin Hid].
  pose proof registry_ok as Hok. rewrite forallb_forall in Hok. specialize (Hok i Hin).
  unfold entry_ok in Hok. apply andb_prop in Hok. destruct Hok as [Hok H3].
  apply andb_prop in Hok. destruct Hok as [H1 H2].
  apply Nat.leb_le in H1. apply N.leb_le in H2.
  repeat split; try assumption.
  - rewrite Hid in H3. rewrite H, String.eqb_refl in H3. apply andb_prop in H3.
    destruct H3 as [H3 _]. now apply Nat.eqb_eq in H3.
  - rewrite Hid in H3. rewrite H, String.eqb_refl in H3. apply andb_prop in H3.
    destruct H3 as [_ H3]. now apply N.eqb_eq in H3.
Qed.

Lemma pow2_8 n : 2 ^ (8 * n) = 256 ^ n.
Proof. rewrite N.pow_mul_r. reflexivity. Qed.

Lemma pow256_32 : 256 ^ N.of_nat 32 = 2 ^ 256.
Proof. vm_compute. reflexivity. Qed.

Lemma bits_le_pow b p : b <= 8 * N.of_nat p -> 2 ^ b <= 256 ^ N.of_nat p.
Proof. intro H. rewrite <- pow2_8. apply N.pow_le_mono_r; [discriminate|exact H]. Qed.

(** a register value travels as a byte string of ONE length: the bytes ValueBytes writes are
    the bytes the parser table of ValueFromBytes reads, and there is at least one *)
Definition width_ok (i : rinfo) : bool := Nat.eqb (r_parser i) (r_ser i) && Nat.ltb 0 (r_parser i).

Lemma registry_width_ok : forallb width_ok registry = true.
Proof. vm_compute. reflexivity. Qed.

Lemma lookup_width id i : lookup id registry = Some i ->
  r_parser i = r_ser i /\ (0 < r_parser i)%nat /\ (id = key_id -> r_parser i = 32%nat).
Proof.
  intro H. destruct (lookup_ok _ _ H) as [_ [_ [_ Hkey]]].
  apply lookup_In in H. destruct H as [Hin _].
  pose proof registry_width_ok as Hok. rewrite forallb_forall in Hok. specialize (Hok i Hin).
  unfold width_ok in Hok. apply andb_prop in Hok. destruct Hok as [H1 H2].
  apply Nat.eqb_eq in H1. apply Nat.ltb_lt in H2.
  repeat split; try assumption. intro E. rewrite H1. exact (proj1 (Hkey E)).
Qed.

(** * 2. ValueBytes / ValueFromBytes *)

Lemma bytes_roundtrip r : valid r ->
  exists b, value_bytes r = ROk b /\ value_from_bytes (fst r) b = ROk r.
Proof.
  destruct r as [id x]. intros [i [Hl Hx]]. cbn [fst snd] in *.
  unfold value_bytes, value_from_bytes. cbn [fst snd]. rewrite Hl.
  eexists. split; [reflexivity|].
  destruct (lookup_ok _ _ Hl) as [Hid [Hps [Hbits Hkey]]].
  destruct (lookup_width _ _ Hl) as [Hw _].
  rewrite le_bytes_length.
  destruct (String.eqb id key_id) eqn:E.
  - apply String.eqb_eq in E. destruct (Hkey E) as [Hser Hb].
    rewrite Hser, Nat.eqb_refl. rewrite le_roundtrip; [reflexivity|].
    rewrite pow256_32, <- Hb. exact Hx.
  - rewrite <- Hw, Nat.eqb_refl.
    pose proof (bits_le_pow _ _ Hbits) as Hpow.
    rewrite le_roundtrip by (eapply N.lt_le_trans; eassumption).
    rewrite N.mod_small by exact Hx. reflexivity.
Qed.

Lemma from_bytes_never_panics id b : value_from_bytes id b <> RPanic.
Proof.
  unfold value_from_bytes. destruct (lookup id registry); [|discriminate].
  destruct (String.eqb id key_id); destruct (Nat.eqb _ _); discriminate.
Qed.

Lemma value_bytes_never_panics r : value_bytes r <> RPanic.
Proof. unfold value_bytes. destruct (lookup (fst r) registry); discriminate. Qed.

(** * 3. registers.New *)

Lemma new_own r : valid r -> new (fst r) (own_value r) = ROk r.
Proof.
  destruct r as [id x]. intros [i [Hl Hx]]. cbn [fst snd] in *.
  unfold new, own_value. cbn [fst snd]. rewrite Hl.
  destruct (lookup_ok _ _ Hl) as [Hid [Hps [Hbits Hkey]]].
  destruct (String.eqb id key_id) eqn:E.
  - apply String.eqb_eq in E. destruct (Hkey E) as [Hser Hb].
    rewrite le_bytes_length, Nat.eqb_refl. rewrite le_roundtrip; [reflexivity|].
    rewrite pow256_32, <- Hb. exact Hx.
  - rewrite N.mod_small by exact Hx. reflexivity.
Qed.

Lemma new_unknown id v : lookup id registry = None -> new id v = RErr.
Proof. intro H. unfold new. rewrite H. reflexivity. Qed.

Lemma new_never_panics id v : new id v <> RPanic.
Proof.
  unfold new. destruct (lookup id registry); [|discriminate].
  destruct v; try discriminate.
  - destruct (String.eqb id key_id); discriminate.
  - destruct (String.eqb id key_id); [|discriminate]. destruct (Nat.eqb _ _); discriminate.
  - destruct (lookup (fst _) registry); [|discriminate].
    destruct (String.eqb id key_id); destruct (String.eqb (fst _) key_id); discriminate.
Qed.

(** * mapM *)

Lemma mapM_ok {A} (f : A -> res A) l :
  Forall (fun r => f r = ROk r) l -> mapM f l = ROk l.
Proof.
  induction 1 as [|a t Ha _ IH]; cbn [mapM]; [reflexivity|].
  rewrite Ha, IH. reflexivity.
Qed.

Lemma mapM_ok_or_err {A} (f : A -> res A) l :
  Forall (fun r => f r = ROk r \/ f r = RErr) l ->
  (Forall (fun r => f r = ROk r) l /\ mapM f l = ROk l) \/
  (Exists (fun r => f r = RErr) l /\ mapM f l = RErr).
Proof.
  induction 1 as [|a t Ha _ IH]; cbn [mapM].
  - left. split; [constructor|reflexivity].
  - destruct Ha as [Ha|Ha]; rewrite Ha; cbn [bind].
    + destruct IH as [[Hf He]|[Hx He]]; rewrite He; cbn [bind].
      * left. split; [constructor; assumption|reflexivity].
      * right. split; [apply Exists_cons_tl; assumption|reflexivity].
    + right. split; [apply Exists_cons_hd; assumption|reflexivity].
Qed.

(** * 4. legacy JSON *)

Definition json_elem (r : reg) : res reg :=
  bind (value_bytes r) (fun b =>
  bind (value_from_bytes (fst r) b) (fun r' => new (fst r') (own_value r'))).

Lemma json_elem_ok r : valid r -> json_elem r = ROk r.
Proof.
  intro V. destruct (bytes_roundtrip r V) as [b [H1 H2]].
  unfold json_elem. rewrite H1. cbn [bind]. rewrite H2. cbn [bind].
  apply new_own. exact V.
Qed.

Lemma json_roundtrip_ok regs : Forall valid regs -> json_roundtrip regs = ROk regs.
Proof.
  intro H. unfold json_roundtrip. change (mapM json_elem regs = ROk regs).
  apply mapM_ok. eapply Forall_impl; [|exact H]. exact json_elem_ok.
Qed.

(** * 5. hexadecimal *)

Lemma digit_val_hex_digit d : d < 16 -> digit_val (hex_digit d) = Some d.
Proof.
  intro H. rewrite <- (N2Nat.id d).
  assert (Hn : (N.to_nat d < 16)%nat) by lia.
  revert Hn. generalize (N.to_nat d). intros n Hn.
  do 16 (destruct n as [|n]; [reflexivity|]). lia.
Qed.

Lemma of_hex_to_hex_aux f : forall x acc, x < 16 ^ N.of_nat f ->
  of_hex_aux (to_hex_aux f x acc) 0 = of_hex_aux acc x.
Proof.
  induction f as [|f IH]; intros x acc H.
  - change (N.of_nat 0) with 0 in H. rewrite N.pow_0_r in H.
    cbn [to_hex_aux]. f_equal. lia.
  - rewrite Nat2N.inj_succ, N.pow_succ_r' in H.
    remember (16 ^ N.of_nat f) as P eqn:HP.
    assert (Hm : x mod 16 < 16) by (apply N.mod_lt; discriminate).
    cbn [to_hex_aux]. destruct (x / 16 =? 0) eqn:E.
    + cbn [of_hex_aux]. rewrite digit_val_hex_digit by exact Hm.
      f_equal. apply N.eqb_eq in E. lia.
    + rewrite IH.
      * cbn [of_hex_aux]. rewrite digit_val_hex_digit by exact Hm. f_equal. lia.
      * apply N.div_lt_upper_bound; [discriminate|exact H].
Qed.

Lemma to_hex_aux_nonempty f : forall x acc, acc <> EmptyString -> to_hex_aux f x acc <> EmptyString.
Proof.
  induction f as [|f IH]; intros x acc H; cbn [to_hex_aux]; [exact H|].
  destruct (x / 16 =? 0); [discriminate|]. apply IH. discriminate.
Qed.

Lemma to_hex_nonempty x : to_hex x <> EmptyString.
Proof.
  unfold to_hex. cbn [to_hex_aux]. destruct (x / 16 =? 0); [discriminate|].
  apply to_hex_aux_nonempty. discriminate.
Qed.

(** the fuel of [to_hex] suffices *)
Lemma to_hex_fuel x : x < 16 ^ N.of_nat (S (N.to_nat (N.size x))).
Proof.
  rewrite Nat2N.inj_succ, N2Nat.id.
  eapply N.lt_le_trans; [apply N.size_gt|].
  eapply N.le_trans; [apply (N.pow_le_mono_l 2 16 (N.size x)); discriminate|].
  apply N.pow_le_mono_r; [discriminate|]. apply N.le_succ_diag_r.
Qed.

Lemma of_hex_to_hex x : of_hex_aux (to_hex x) 0 = Some x.
Proof. unfold to_hex. rewrite of_hex_to_hex_aux by apply to_hex_fuel. reflexivity. Qed.

Lemma hex_roundtrip bits x : x < 2 ^ bits -> parse_hex bits (to_hex x) = Some x.
Proof.
  intro H. unfold parse_hex. pose proof (to_hex_nonempty x) as Hne. pose proof (of_hex_to_hex x) as Hv.
  destruct (to_hex x) as [|c s]; [congruence|].
  rewrite Hv. apply N.ltb_lt in H. rewrite H. reflexivity.
Qed.

Lemma hex_bytes_roundtrip b : Forall (fun x => x < 256) b -> hex_to_bytes (bytes_to_hex b) = Some b.
Proof.
  induction 1 as [|x t Hx _ IH]; [reflexivity|].
  cbn [bytes_to_hex hex_to_bytes].
  rewrite digit_val_hex_digit by (apply N.div_lt_upper_bound; [discriminate|exact Hx]).
  rewrite digit_val_hex_digit by (apply N.mod_lt; discriminate).
  rewrite IH. f_equal. f_equal. lia.
Qed.

(** * 6. YAML, element by element *)

Definition yaml_elem (r : reg) : res reg :=
  bind (yaml_value r) (fun h => yaml_unvalue (fst r) h).

Lemma yaml_elem_nonkey r : valid r -> fst r <> key_id -> yaml_elem r = ROk r.
Proof.
  destruct r as [id x]. intros [i [Hl Hx]] Hk. cbn [fst snd] in *.
  unfold yaml_elem, yaml_value, yaml_unvalue. cbn [fst snd]. rewrite Hl.
  destruct (lookup_ok _ _ Hl) as [Hid [Hps [Hbits Hkey]]].
  apply String.eqb_neq in Hk. rewrite Hk. cbn [bind].
  rewrite hex_roundtrip.
  - unfold new. rewrite Hl, Hk. rewrite N.mod_small by exact Hx. reflexivity.
  - eapply N.lt_le_trans; [exact Hx|]. apply N.pow_le_mono_r; [discriminate|]. lia.
Qed.

Lemma yaml_elem_key r : valid r -> fst r = key_id ->
  yaml_elem r = if be_value (le_bytes 32 (snd r)) <? 2 ^ 64 then RErr else ROk r.
Proof.
  destruct r as [id x]. intros [i [Hl Hx]] Hk. cbn [fst snd] in *.
  unfold yaml_elem, yaml_value, yaml_unvalue. cbn [fst snd]. rewrite Hl.
  destruct (lookup_ok _ _ Hl) as [Hid [Hps [Hbits Hkey]]].
  destruct (Hkey Hk) as [Hser Hb].
  pose proof Hk as Hk'. apply String.eqb_eq in Hk'. rewrite Hk'. cbn [bind].
  rewrite hex_bytes_roundtrip by apply le_bytes_range.
  destruct (be_value (le_bytes 32 x) <? 2 ^ 64); [reflexivity|].
  unfold new. rewrite Hl, Hk'. rewrite le_bytes_length, Nat.eqb_refl.
  rewrite le_roundtrip; [reflexivity|]. rewrite pow256_32, <- Hb. exact Hx.
Qed.

Lemma yaml_elem_ok r : valid r ->
  (fst r = key_id -> 2 ^ 64 <= be_value (le_bytes 32 (snd r))) -> yaml_elem r = ROk r.
Proof.
  intros V H. destruct (String.eqb_spec (fst r) key_id) as [E|E].
  - rewrite yaml_elem_key by assumption. specialize (H E).
    apply N.ltb_ge in H. rewrite H. reflexivity.
  - apply yaml_elem_nonkey; assumption.
Qed.

Lemma yaml_elem_cases r : valid r -> yaml_elem r = ROk r \/ yaml_elem r = RErr.
Proof.
  intro V. destruct (String.eqb_spec (fst r) key_id) as [E|E].
  - rewrite yaml_elem_key by assumption. destruct (_ <? _); auto.
  - left. apply yaml_elem_nonkey; assumption.
Qed.

Lemma dedup_last_nodup l : NoDup (ids l) -> dedup_last l = l.
Proof.
  induction l as [|r t IH]; intro H; [reflexivity|].
  cbn [ids map] in H. inversion H as [|? ? Hnin Hnd]; subst.
  cbn [dedup_last]. destruct (existsb (fun r' => String.eqb (fst r') (fst r)) t) eqn:E.
  - apply existsb_exists in E. destruct E as [r' [Hin He]]. apply String.eqb_eq in He.
    exfalso. apply Hnin. rewrite <- He. apply in_map. exact Hin.
  - f_equal. apply IH. exact Hnd.
Qed.

(** * Registers.Sort *)

Definition reg_le (a b : reg) : Prop := reg_leb a b = true.

Lemma ascii_compare_refl c : Ascii.compare c c = Eq.
Proof. unfold Ascii.compare. apply N.compare_refl. Qed.

Lemma ascii_compare_lt_trans a b c :
  Ascii.compare a b = Lt -> Ascii.compare b c = Lt -> Ascii.compare a c = Lt.
Proof.
  unfold Ascii.compare. rewrite !N.compare_lt_iff. apply N.lt_trans.
Qed.

Lemma string_compare_lt_trans a : forall b c,
  String.compare a b = Lt -> String.compare b c = Lt -> String.compare a c = Lt.
Proof.
  induction a as [|x a IH]; intros [|y b] [|z c]; cbn [String.compare];
    try discriminate; try reflexivity.
  destruct (Ascii.compare x y) eqn:E1; destruct (Ascii.compare y z) eqn:E2;
    try discriminate; intros H1 H2.
  - apply Ascii.compare_eq_iff in E1. apply Ascii.compare_eq_iff in E2. subst.
    rewrite ascii_compare_refl. eapply IH; eassumption.
  - apply Ascii.compare_eq_iff in E1. subst. rewrite E2. reflexivity.
  - apply Ascii.compare_eq_iff in E2. subst. rewrite E1. reflexivity.
  - rewrite (ascii_compare_lt_trans _ _ _ E1 E2). reflexivity.
Qed.

Lemma string_leb_trans a b c :
  String.leb a b = true -> String.leb b c = true -> String.leb a c = true.
Proof.
  unfold String.leb.
  destruct (String.compare a b) eqn:E1; [| |discriminate]; intros _.
  - apply String.compare_eq_iff in E1. subst. auto.
  - destruct (String.compare b c) eqn:E2; [| |discriminate]; intros _.
    + apply String.compare_eq_iff in E2. subst. rewrite E1. reflexivity.
    + rewrite (string_compare_lt_trans _ _ _ E1 E2). reflexivity.
Qed.

Lemma reg_leb_total a b : reg_leb a b = true \/ reg_leb b a = true.
Proof.
  unfold reg_leb. generalize (addr_of a) (addr_of b). intros p q.
  destruct (N.eqb_spec p q) as [E|E].
  - subst. rewrite N.eqb_refl. apply String.leb_total.
  - destruct (N.eqb_spec q p) as [E'|E']; [congruence|].
    destruct (N.ltb_spec p q); [left; reflexivity|]. right. apply N.ltb_lt. lia.
Qed.

Lemma reg_leb_trans a b c : reg_leb a b = true -> reg_leb b c = true -> reg_leb a c = true.
Proof.
  unfold reg_leb. generalize (addr_of a) (addr_of b) (addr_of c). intros p q r.
  destruct (N.eqb_spec p q) as [E1|E1]; destruct (N.eqb_spec q r) as [E2|E2];
    destruct (N.eqb_spec p r) as [E3|E3]; try lia.
  intros H1 H2. eapply string_leb_trans; eassumption.
Qed.

Lemma reg_leb_antisym a b : reg_leb a b = true -> reg_leb b a = true -> fst a = fst b.
Proof.
  unfold reg_leb. generalize (addr_of a) (addr_of b). intros p q.
  destruct (N.eqb_spec p q) as [E|E].
  - subst. rewrite N.eqb_refl. apply String.leb_antisym.
  - destruct (N.eqb_spec q p) as [E'|E']; [congruence|].
    intros H1 H2. apply N.ltb_lt in H1. apply N.ltb_lt in H2. lia.
Qed.

Lemma insert_perm r l : Permutation (insert r l) (r :: l).
Proof.
  induction l as [|h t IH]; cbn [insert]; [reflexivity|].
  destruct (reg_leb r h); [reflexivity|].
  rewrite IH. apply perm_swap.
Qed.

Lemma sort_perm l : Permutation (sort_regs l) l.
Proof.
  unfold sort_regs. induction l as [|r t IH]; cbn [fold_right]; [reflexivity|].
  rewrite insert_perm. constructor. exact IH.
Qed.

Lemma insert_sorted r l : StronglySorted reg_le l -> StronglySorted reg_le (insert r l).
Proof.
  induction 1 as [|h t Hs IH Hf]; cbn [insert].
  - constructor; constructor.
  - destruct (reg_leb r h) eqn:E.
    + constructor; [constructor; assumption|].
      constructor; [exact E|].
      eapply Forall_impl; [|exact Hf]. intros x Hx. eapply reg_leb_trans; eassumption.
    + constructor; [exact IH|].
      eapply Permutation_Forall; [symmetry; apply insert_perm|].
      constructor; [|exact Hf].
      destruct (reg_leb_total h r) as [T|T]; [exact T|congruence].
Qed.

Lemma sort_sorted l : StronglySorted reg_le (sort_regs l).
Proof.
  unfold sort_regs. induction l as [|r t IH]; cbn [fold_right]; [constructor|].
  apply insert_sorted. exact IH.
Qed.

Lemma sorted_perm_eq (a : list reg) : forall b,
  StronglySorted reg_le a -> StronglySorted reg_le b -> Permutation a b ->
  (forall x y, In x a -> In y a -> reg_le x y -> reg_le y x -> x = y) -> a = b.
Proof.
  induction a as [|x a IH]; intros b Sa Sb P Hanti.
  - apply Permutation_nil in P. now subst.
  - destruct b as [|y b]; [symmetry in P; apply Permutation_nil_cons in P; contradiction|].
    inversion Sa as [|? ? Sa' Fa]; subst. inversion Sb as [|? ? Sb' Fb]; subst.
    rewrite Forall_forall in Fa, Fb.
    assert (Hxy : x = y).
    { assert (Hx : In x (y :: b)) by (eapply Permutation_in; [exact P|left; reflexivity]).
      assert (Hy : In y (x :: a)) by (eapply Permutation_in; [symmetry; exact P|left; reflexivity]).
      destruct Hx as [Hx|Hx]; [now symmetry|].
      destruct Hy as [Hy|Hy]; [assumption|].
      apply Hanti; [left; reflexivity|right; exact Hy|apply Fa; exact Hy|apply Fb; exact Hx]. }
    subst y. f_equal. apply IH; try assumption.
    + eapply Permutation_cons_inv. exact P.
    + intros u v Hu Hv. apply Hanti; right; assumption.
Qed.

Lemma nodup_ids_inj l : NoDup (ids l) ->
  forall x y, In x l -> In y l -> fst x = fst y -> x = y.
Proof.
  induction l as [|r t IH]; intros H x y Hx Hy E; [contradiction|].
  cbn [ids map] in H. inversion H as [|? ? Hnin Hnd]; subst.
  destruct Hx as [Hx|Hx]; destruct Hy as [Hy|Hy].
  - congruence.
  - subst x. exfalso. apply Hnin. rewrite E. apply in_map. exact Hy.
  - subst y. exfalso. apply Hnin. rewrite <- E. apply in_map. exact Hx.
  - apply IH; assumption.
Qed.

Lemma sort_perm_unique a b : Permutation a b -> NoDup (ids a) -> sort_regs a = sort_regs b.
Proof.
  intros P N. apply sorted_perm_eq; try apply sort_sorted.
  - rewrite (sort_perm a), P. symmetry. apply sort_perm.
  - intros x y Hx Hy H1 H2. apply (nodup_ids_inj a N).
    + eapply Permutation_in; [apply sort_perm|exact Hx].
    + eapply Permutation_in; [apply sort_perm|exact Hy].
    + apply reg_leb_antisym; assumption.
Qed.

(** * 6./7. YAML collections *)

Lemma yaml_roundtrip_unfold regs :
  yaml_roundtrip regs = bind (mapM yaml_elem (dedup_last regs)) (fun l => ROk (sort_regs l)).
Proof. reflexivity. Qed.

Lemma yaml_roundtrip_partial regs :
  Forall valid regs -> NoDup (ids regs) ->
  (forall r, In r regs -> fst r = key_id -> 2 ^ 64 <= be_value (le_bytes 32 (snd r))) ->
  yaml_roundtrip regs = ROk (sort_regs regs).
Proof.
  intros V N K. rewrite yaml_roundtrip_unfold, dedup_last_nodup by exact N.
  rewrite mapM_ok; [reflexivity|].
  rewrite Forall_forall in *. intros r Hr. apply yaml_elem_ok; [apply V; exact Hr|apply K; exact Hr].
Qed.

Lemma yaml_small_key_refuted :
  exists regs, Forall valid regs /\ NoDup (ids regs) /\ yaml_roundtrip regs = RErr.
Proof.
  exists [(key_id, 0)]. split; [|split].
  - constructor; [|constructor]. apply validb_iff. vm_compute. reflexivity.
  - constructor; [intros []|constructor].
  - vm_compute. reflexivity.
Qed.

Lemma order_independent a b :
  Permutation a b -> Forall valid a -> NoDup (ids a) -> yaml_roundtrip a = yaml_roundtrip b.
Proof.
  intros P Va Na.
  assert (Vb : Forall valid b) by (eapply Permutation_Forall; eassumption).
  assert (Nb : NoDup (ids b)).
  { eapply Permutation_NoDup; [|exact Na]. apply Permutation_map. exact P. }
  rewrite !yaml_roundtrip_unfold, !dedup_last_nodup by assumption.
  assert (Ca : Forall (fun r => yaml_elem r = ROk r \/ yaml_elem r = RErr) a)
    by (eapply Forall_impl; [|exact Va]; exact yaml_elem_cases).
  assert (Cb : Forall (fun r => yaml_elem r = ROk r \/ yaml_elem r = RErr) b)
    by (eapply Forall_impl; [|exact Vb]; exact yaml_elem_cases).
  destruct (mapM_ok_or_err _ _ Ca) as [[Fa Ea]|[Xa Ea]];
    destruct (mapM_ok_or_err _ _ Cb) as [[Fb Eb]|[Xb Eb]]; rewrite Ea, Eb; cbn [bind].
  - f_equal. apply sort_perm_unique; assumption.
  - exfalso. apply Exists_exists in Xb. destruct Xb as [r [Hr He]].
    rewrite Forall_forall in Fa. rewrite Fa in He; [discriminate|].
    eapply Permutation_in; [symmetry; exact P|exact Hr].
  - exfalso. apply Exists_exists in Xa. destruct Xa as [r [Hr He]].
    rewrite Forall_forall in Fb. rewrite Fb in He; [discriminate|].
    eapply Permutation_in; [exact P|exact Hr].
  - reflexivity.
Qed.

(** never a panic on valid collections, whatever the key *)
Lemma yaml_roundtrip_total regs : Forall valid regs -> NoDup (ids regs) ->
  yaml_roundtrip regs = ROk (sort_regs regs) \/ yaml_roundtrip regs = RErr.
Proof.
  intros V N. rewrite yaml_roundtrip_unfold, dedup_last_nodup by exact N.
  assert (C : Forall (fun r => yaml_elem r = ROk r \/ yaml_elem r = RErr) regs)
    by (eapply Forall_impl; [|exact V]; exact yaml_elem_cases).
  destruct (mapM_ok_or_err _ _ C) as [[_ E]|[_ E]]; rewrite E; cbn [bind]; auto.
Qed.

(** * Examples *)

Open Scope string_scope.
Definition ex_key : N := 0xf0e0d0c0b0a090807060504030201000ffeeddccbbaa99887766554433221100.
Definition ex_regs : list reg :=
  [("TXT.PUBLIC.KEY", ex_key); ("ACM_STATUS", 0x4f857010); ("TXT.ESTS", 0xff)].

Lemma ex_hyps :
  Forall valid ex_regs /\ NoDup (ids ex_regs) /\
  (forall r, In r ex_regs -> fst r = key_id -> 2 ^ 64 <= be_value (le_bytes 32 (snd r))).
Proof.
  split; [|split].
  - repeat constructor; apply validb_iff; vm_compute; reflexivity.
  - repeat constructor; cbn; intuition discriminate.
  - intros r [H|[H|[H|[]]]]; subst r; cbn [fst snd]; intro E; try discriminate E.
    vm_compute. discriminate.
Qed.

Lemma ex_results :
  ex_regs = [("TXT.PUBLIC.KEY", ex_key); ("ACM_STATUS", 0x4f857010%N); ("TXT.ESTS", 0xff%N)] /\
  json_roundtrip ex_regs = ROk ex_regs /\
  yaml_roundtrip ex_regs =
    ROk [("TXT.ESTS", 0xff%N); ("ACM_STATUS", 0x4f857010%N); ("TXT.PUBLIC.KEY", ex_key)] /\
  value_bytes ("ACM_STATUS", 0x4f857010%N) = ROk [0x10; 0x70; 0x85; 0x4f; 0; 0; 0; 0]%N /\
  yaml_value ("ACM_STATUS", 0x4f857010%N) = ROk "4f857010" /\
  value_bytes ("TXT.ESTS", 0xff%N) = ROk [0xff]%N /\
  yaml_value ("TXT.ESTS", 0xff%N) = ROk "ff".
Proof. vm_compute. repeat split; reflexivity. Qed.

(** a duplicated ID: JSON keeps both entries, YAML keeps the last one *)
Lemma ex_dup :
  json_roundtrip [("TXT.ESTS", 1); ("TXT.ESTS", 2)] = ROk [("TXT.ESTS", 1); ("TXT.ESTS", 2)] /\
  yaml_roundtrip [("TXT.ESTS", 1); ("TXT.ESTS", 2)] = ROk [("TXT.ESTS", 2)].
Proof. vm_compute. split; reflexivity. Qed.

Lemma ex_small_key :
  valid (key_id, 2 ^ 255)%N /\ yaml_roundtrip [(key_id, 2 ^ 255)%N] = RErr.
Proof. split; [apply validb_iff|]; vm_compute; reflexivity. Qed.
Close Scope string_scope.

(** * 8. base64 *)

Lemma b64_val_char d : d < 64 -> b64_val (b64_char d) = Some d.
Proof.
  intro H. rewrite <- (N2Nat.id d).
  assert (Hn : (N.to_nat d < 64)%nat) by lia.
  revert Hn. generalize (N.to_nat d). intros n Hn.
  do 64 (destruct n as [|n]; [reflexivity|]). lia.
Qed.

Lemma b64_char_not_pad d : d < 64 -> Ascii.eqb (b64_char d) b64_pad = false.
Proof.
  intro H. rewrite <- (N2Nat.id d).
  assert (Hn : (N.to_nat d < 64)%nat) by lia.
  revert Hn. generalize (N.to_nat d). intros n Hn.
  do 64 (destruct n as [|n]; [reflexivity|]). lia.
Qed.

Lemma b64_dec_last a b c d :
  b64_dec (String a (String b (String c (String d EmptyString)))) =
  match b64_val a, b64_val b with
  | Some p, Some q =>
      if Ascii.eqb c b64_pad then
        if Ascii.eqb d b64_pad then Some [p * 4 + q / 16] else None
      else match b64_val c with
           | None => None
           | Some u =>
               if Ascii.eqb d b64_pad then Some [p * 4 + q / 16; (q mod 16) * 16 + u / 4]
               else match b64_val d with
                    | None => None
                    | Some v => Some [p * 4 + q / 16; (q mod 16) * 16 + u / 4; (u mod 4) * 64 + v]
                    end
           end
  | _, _ => None
  end.
Proof. reflexivity. Qed.

Lemma b64_dec_step a b c d c0 s0 :
  b64_dec (String a (String b (String c (String d (String c0 s0))))) =
  match b64_val a, b64_val b with
  | Some p, Some q =>
      match b64_val c, b64_val d, b64_dec (String c0 s0) with
      | Some u, Some v, Some t =>
          Some ((p * 4 + q / 16) :: ((q mod 16) * 16 + u / 4) :: ((u mod 4) * 64 + v) :: t)
      | _, _, _ => None
      end
  | _, _ => None
  end.
Proof. reflexivity. Qed.

Lemma b64_enc_cons w t : exists c s, b64_enc (w :: t) = String c s.
Proof. destruct t as [|y [|z t]]; eexists; eexists; reflexivity. Qed.

Lemma b64_enc_3 x y z t :
  b64_enc (x :: y :: z :: t) =
  String (b64_char (x / 4)) (String (b64_char ((x mod 4) * 16 + y / 16))
  (String (b64_char ((y mod 16) * 4 + z / 64)) (String (b64_char (z mod 64)) (b64_enc t)))).
Proof. reflexivity. Qed.

Lemma b64_roundtrip_aux n : forall b, (List.length b <= n)%nat ->
  Forall (fun x => x < 256) b -> b64_dec (b64_enc b) = Some b.
Proof.
  induction n as [|n IH]; intros b Hl Hb.
  - destruct b; [reflexivity|cbn in Hl; lia].
  - destruct b as [|x [|y [|z t]]]; [reflexivity| | |].
    + inversion Hb as [|? ? Hx _]; subst.
      cbn [b64_enc]. rewrite b64_dec_last.
      rewrite !b64_val_char by lia. rewrite Ascii.eqb_refl.
      f_equal. f_equal. lia.
    + inversion Hb as [|? ? Hx Hb']; subst. inversion Hb' as [|? ? Hy _]; subst.
      cbn [b64_enc]. rewrite b64_dec_last.
      rewrite !b64_val_char by lia. rewrite b64_char_not_pad by lia. rewrite Ascii.eqb_refl.
      f_equal. f_equal; [lia|]. f_equal. lia.
    + inversion Hb as [|? ? Hx Hb']; subst. inversion Hb' as [|? ? Hy Hb'']; subst.
      inversion Hb'' as [|? ? Hz Ht]; subst.
      rewrite b64_enc_3. destruct t as [|w t].
      * cbn [b64_enc]. rewrite b64_dec_last.
        rewrite !b64_val_char by lia. rewrite !b64_char_not_pad by lia.
        f_equal. f_equal; [lia|]. f_equal; [lia|]. f_equal. lia.
      * assert (IHt : b64_dec (b64_enc (w :: t)) = Some (w :: t)).
        { apply IH; [cbn [List.length] in *; lia|exact Ht]. }
        destruct (b64_enc_cons w t) as [c0 [s0 E]]. rewrite E in *.
        rewrite b64_dec_step. rewrite !b64_val_char by lia. rewrite IHt.
        f_equal. f_equal; [lia|]. f_equal; [lia|]. f_equal. lia.
Qed.

Lemma b64_roundtrip b : Forall (fun x => x < 256) b -> b64_dec (b64_enc b) = Some b.
Proof. apply (b64_roundtrip_aux (List.length b)). apply Nat.le_refl. Qed.

Lemma b64_enc_injective a b :
  Forall (fun x => x < 256) a -> Forall (fun x => x < 256) b -> b64_enc a = b64_enc b -> a = b.
Proof.
  intros Ha Hb E. apply b64_roundtrip in Ha. apply b64_roundtrip in Hb.
  rewrite E in Ha. congruence.
Qed.

(** * 9. spellings of a hexadecimal number *)

(** the upper-case form of a hexadecimal letter (other characters stay) *)
Definition hex_upper (c : ascii) : ascii :=
  let n := N_of_ascii c in if (97 <=? n) && (n <=? 102) then ascii_of_N (n - 32) else c.

(** [respelled s s']: s' is s with any of its letters a-f written in upper case *)
Inductive respelled : string -> string -> Prop :=
| rs_nil : respelled EmptyString EmptyString
| rs_same c s s' : respelled s s' -> respelled (String c s) (String c s')
| rs_upper c s s' : respelled s s' -> respelled (String c s) (String (hex_upper c) s').

Lemma respelled_refl s : respelled s s.
Proof. induction s; constructor; assumption. Qed.

Fixpoint zeros (k : nat) : string :=
  match k with O => EmptyString | S k' => String "0"%char (zeros k') end.

Lemma digit_val_upper c : digit_val (hex_upper c) = digit_val c.
Proof. destruct c as [[] [] [] [] [] [] [] []]; vm_compute; reflexivity. Qed.

Lemma is_alnum_upper c : is_alnum (hex_upper c) = is_alnum c.
Proof. destruct c as [[] [] [] [] [] [] [] []]; vm_compute; reflexivity. Qed.

Lemma of_hex_respelled s s' : respelled s s' -> forall acc, of_hex_aux s' acc = of_hex_aux s acc.
Proof.
  induction 1 as [|c s s' _ IH|c s s' _ IH]; intro acc; cbn [of_hex_aux]; [reflexivity| |].
  - destruct (digit_val c); [apply IH|reflexivity].
  - rewrite digit_val_upper. destruct (digit_val c); [apply IH|reflexivity].
Qed.

Lemma of_hex_zeros k s acc : of_hex_aux (zeros k ++ s) acc = of_hex_aux s (16 ^ N.of_nat k * acc).
Proof.
  revert acc. induction k as [|k IH]; intro acc.
  - cbn [zeros append]. f_equal. change (N.of_nat 0) with 0. rewrite N.pow_0_r. lia.
  - cbn [zeros append of_hex_aux]. change (digit_val "0") with (Some 0). cbv iota.
    rewrite IH. f_equal. rewrite Nat2N.inj_succ, N.pow_succ_r'. lia.
Qed.

Lemma respelled_nonempty s s' : respelled s s' -> s <> EmptyString -> s' <> EmptyString.
Proof. destruct 1; intro Hne; [congruence|discriminate|discriminate]. Qed.

Lemma append_nonempty a b : b <> EmptyString -> (a ++ b)%string <> EmptyString.
Proof. destruct a; [trivial|discriminate]. Qed.

Lemma hex_any_spelling bits x k s' : x < 2 ^ bits -> respelled (to_hex x) s' ->
  parse_hex bits (zeros k ++ s') = Some x.
Proof.
  intros Hx R. unfold parse_hex.
  assert (Hne : (zeros k ++ s')%string <> EmptyString).
  { apply append_nonempty. eapply respelled_nonempty; [exact R|apply to_hex_nonempty]. }
  assert (Hv : of_hex_aux (zeros k ++ s') 0 = Some x).
  { rewrite of_hex_zeros, N.mul_0_r, (of_hex_respelled _ _ R). apply of_hex_to_hex. }
  destruct (zeros k ++ s')%string; [congruence|].
  rewrite Hv. apply N.ltb_lt in Hx. rewrite Hx. reflexivity.
Qed.

(** the two-digits-per-byte decoder reads every spelling alike *)
Lemma hex_to_bytes_respelled s :
  (forall s', respelled s s' -> hex_to_bytes s' = hex_to_bytes s) /\
  (forall c c' s', (c' = c \/ c' = hex_upper c) -> respelled s s' ->
     hex_to_bytes (String c' s') = hex_to_bytes (String c s)).
Proof.
  induction s as [|a t [IHA IHB]].
  - split.
    + intros s' R. inversion R. reflexivity.
    + intros c c' s' _ R. inversion R. reflexivity.
  - split.
    + intros s' R. inversion R; subst.
      * apply IHB; [left; reflexivity|assumption].
      * apply IHB; [right; reflexivity|assumption].
    + intros c c' s' Hc R.
      assert (Hd : digit_val c' = digit_val c).
      { destruct Hc as [->| ->]; [reflexivity|apply digit_val_upper]. }
      inversion R as [|? ? t' Rt|? ? t' Rt]; subst; cbn [hex_to_bytes];
        rewrite Hd, ?digit_val_upper, (IHA _ Rt); reflexivity.
Qed.

Lemma all_alnum_respelled s s' : respelled s s' -> all_chars is_alnum s' = all_chars is_alnum s.
Proof.
  induction 1 as [|c s s' _ IH|c s s' _ IH]; cbn [all_chars]; [reflexivity| |].
  - rewrite IH. reflexivity.
  - rewrite is_alnum_upper, IH. reflexivity.
Qed.

Lemma is_alnum_hex_digit d : d < 16 -> is_alnum (hex_digit d) = true.
Proof.
  intro H. rewrite <- (N2Nat.id d).
  assert (Hn : (N.to_nat d < 16)%nat) by lia.
  revert Hn. generalize (N.to_nat d). intros n Hn.
  do 16 (destruct n as [|n]; [reflexivity|]). lia.
Qed.

Lemma all_alnum_to_hex_aux f : forall x acc,
  all_chars is_alnum acc = true -> all_chars is_alnum (to_hex_aux f x acc) = true.
Proof.
  induction f as [|f IH]; intros x acc H; cbn [to_hex_aux]; [exact H|].
  assert (Hd : all_chars is_alnum (String (hex_digit (x mod 16)) acc) = true).
  { cbn [all_chars]. rewrite is_alnum_hex_digit by (apply N.mod_lt; discriminate). exact H. }
  destruct (x / 16 =? 0); [exact Hd|]. apply IH. exact Hd.
Qed.

Lemma all_alnum_to_hex x : all_chars is_alnum (to_hex x) = true.
Proof. unfold to_hex. apply all_alnum_to_hex_aux. reflexivity. Qed.

Lemma all_alnum_bytes_to_hex b : Forall (fun x => x < 256) b -> all_chars is_alnum (bytes_to_hex b) = true.
Proof.
  induction 1 as [|x t Hx _ IH]; [reflexivity|].
  cbn [bytes_to_hex all_chars].
  rewrite is_alnum_hex_digit by (apply N.div_lt_upper_bound; [discriminate|exact Hx]).
  rewrite is_alnum_hex_digit by (apply N.mod_lt; discriminate).
  exact IH.
Qed.

Lemma all_alnum_zeros k s : all_chars is_alnum (zeros k ++ s) = all_chars is_alnum s.
Proof. induction k as [|k IH]; [reflexivity|]. cbn [zeros append all_chars]. rewrite IH. reflexivity. Qed.

(** the hexadecimal text of a byte string, read as one number, is its big-endian value *)
Lemma le_value_app a b : le_value (a ++ b) = le_value a + 256 ^ N.of_nat (List.length a) * le_value b.
Proof.
  induction a as [|x a IH].
  - cbn [app le_value List.length]. change (N.of_nat 0) with 0. rewrite N.pow_0_r. lia.
  - cbn [app le_value List.length]. rewrite IH, Nat2N.inj_succ, N.pow_succ_r'. lia.
Qed.

Lemma of_hex_bytes_to_hex b : Forall (fun x => x < 256) b -> forall acc,
  of_hex_aux (bytes_to_hex b) acc = Some (256 ^ N.of_nat (List.length b) * acc + be_value b).
Proof.
  induction 1 as [|x t Hx Ht IH]; intro acc.
  - cbn [bytes_to_hex of_hex_aux List.length]. unfold be_value. cbn [rev le_value].
    change (N.of_nat 0) with 0. rewrite N.pow_0_r. f_equal. lia.
  - cbn [bytes_to_hex of_hex_aux].
    rewrite digit_val_hex_digit by (apply N.div_lt_upper_bound; [discriminate|exact Hx]).
    rewrite digit_val_hex_digit by (apply N.mod_lt; discriminate).
    rewrite IH. f_equal. unfold be_value. cbn [rev List.length]. rewrite le_value_app, rev_length.
    cbn [le_value]. rewrite Nat2N.inj_succ, N.pow_succ_r'.
    remember (256 ^ N.of_nat (List.length t)) as P. remember (le_value (rev t)) as V.
    assert (E : 16 * (16 * acc + x / 16) + x mod 16 = 256 * acc + x) by lia.
    rewrite E. lia.
Qed.

(** * 10. every textual form of a value decodes to the value it denotes *)

Definition pfx_hex : string := "0x"%string.
Definition pfx_b64 : string := "base64:"%string.

(** the YAML values that denote register [r]:
    - the integer itself (a plain scalar yaml.v3 resolved as a number);
    - "0x" + any spelling of its hexadecimal digits, with any number of leading zeros
      (the key: the hexadecimal text of its 32 bytes, no padding);
    - "base64:" + std base64 of the bytes ValueBytes renders. *)
Inductive denotes (r : reg) : yval -> Prop :=
| D_int : fst r <> key_id -> denotes r (YInt (snd r))
| D_hex k s' : fst r <> key_id -> respelled (to_hex (snd r)) s' ->
    denotes r (YStr (pfx_hex ++ zeros k ++ s'))
| D_hex_key s' : fst r = key_id -> respelled (bytes_to_hex (le_bytes 32 (snd r))) s' ->
    denotes r (YStr (pfx_hex ++ s'))
| D_b64 b : value_bytes r = ROk b -> denotes r (YStr (pfx_b64 ++ b64_enc b)).

Lemma drop_hex_hex t : drop_prefix "0x" (pfx_hex ++ t) = Some t.
Proof. reflexivity. Qed.
Lemma drop_hex_b64 t : drop_prefix "0x" (pfx_b64 ++ t) = None.
Proof. reflexivity. Qed.
Lemma drop_b64_b64 t : drop_prefix "base64:" (pfx_b64 ++ t) = Some t.
Proof. reflexivity. Qed.

Lemma new_reg_own r : valid r -> new (fst r) (VReg r) = ROk r.
Proof.
  destruct r as [id x]. intros [i [Hl Hx]]. cbn [fst snd] in *.
  unfold new. cbn [fst snd]. rewrite Hl.
  destruct (String.eqb id key_id); [reflexivity|].
  rewrite N.mod_small by exact Hx. reflexivity.
Qed.

Lemma entry_forms r v : valid r -> denotes r v -> yaml_entry (fst r) v = ROk r.
Proof.
  intros V D. pose proof V as V'. destruct r as [id x]. destruct V' as [i [Hl Hx]]. cbn [fst snd] in *.
  destruct (lookup_ok _ _ Hl) as [Hid [Hps [Hbits Hkey]]].
  unfold yaml_entry.
  destruct D as [Hk|k s' Hk R|s' Hk R|b Hb]; cbn [fst snd] in *.
  - apply String.eqb_neq in Hk. cbn [value_unpack bind]. unfold new. rewrite Hl, Hk.
    rewrite N.mod_small by exact Hx. reflexivity.
  - apply String.eqb_neq in Hk. cbn [value_unpack]. unfold value_unpack_string.
    rewrite drop_hex_hex. unfold value_from_hex. rewrite Hl, Hk.
    rewrite (hex_any_spelling _ x k s'); [|
      eapply N.lt_le_trans; [exact Hx|apply N.pow_le_mono_r; [discriminate|lia]] | exact R].
    cbn [bind]. unfold new. rewrite Hl, Hk. rewrite N.mod_small by exact Hx. reflexivity.
  - destruct (Hkey Hk) as [Hser Hb]. pose proof Hk as Hk'. apply String.eqb_eq in Hk'.
    cbn [value_unpack]. unfold value_unpack_string.
    rewrite drop_hex_hex. unfold value_from_hex. rewrite Hl, Hk'.
    rewrite (proj1 (hex_to_bytes_respelled _) _ R).
    rewrite hex_bytes_roundtrip by apply le_bytes_range.
    cbn [bind]. unfold new. rewrite Hl, Hk'. rewrite le_bytes_length, Nat.eqb_refl.
    rewrite le_roundtrip; [reflexivity|]. rewrite pow256_32, <- Hb. exact Hx.
  - cbn [value_unpack]. unfold value_unpack_string.
    rewrite drop_hex_b64, drop_b64_b64. unfold value_from_base64.
    destruct (bytes_roundtrip (id, x) V) as [b' [H1 H2]]. cbn [fst] in H2.
    rewrite Hb in H1. injection H1 as <-.
    rewrite b64_roundtrip.
    + rewrite H2. cbn [bind]. apply (new_reg_own (id, x) V).
    + unfold value_bytes in Hb. cbn [fst snd] in Hb. rewrite Hl in Hb. injection Hb as <-.
      apply le_bytes_range.
Qed.

(** the forms are all there: for every valid register each constructor applies *)
Lemma denotes_b64_exists r : valid r -> exists b, value_bytes r = ROk b /\ denotes r (YStr (pfx_b64 ++ b64_enc b)).
Proof.
  intro V. destruct (bytes_roundtrip r V) as [b [H _]]. exists b. split; [exact H|]. constructor. exact H.
Qed.

(** * 11. plain scalars: what yaml.v3 makes of a hexadecimal text *)

Definition pfx_of (upper_x : bool) : string := if upper_x then "0X"%string else "0x"%string.

Lemma hex_prefixed_pfx u t : hex_prefixed (pfx_of u ++ t) = Some t.
Proof. destruct u; reflexivity. Qed.

Lemma is_empty_false s : s <> EmptyString -> is_empty s = false.
Proof. destruct s; [congruence|reflexivity]. Qed.

(** a number in any spelling, "0x" or "0X": an integer below 2^64, the text itself from there on *)
Lemma plain_hex_scalar u x k s' : respelled (to_hex x) s' ->
  yaml_plain (pfx_of u ++ zeros k ++ s') =
  Some (if x <? 2 ^ 64 then YInt x else YStr (pfx_of u ++ zeros k ++ s')).
Proof.
  intro R. unfold yaml_plain. rewrite hex_prefixed_pfx.
  rewrite all_alnum_zeros, (all_alnum_respelled _ _ R), all_alnum_to_hex.
  rewrite of_hex_zeros, N.mul_0_r, (of_hex_respelled _ _ R), of_hex_to_hex.
  rewrite is_empty_false; [reflexivity|].
  apply append_nonempty. eapply respelled_nonempty; [exact R|apply to_hex_nonempty].
Qed.

(** the hexadecimal text of a non-empty byte string: the same rule on its big-endian value *)
Lemma plain_hex_bytes_scalar u b s' : Forall (fun x => x < 256) b -> b <> [] ->
  respelled (bytes_to_hex b) s' ->
  yaml_plain (pfx_of u ++ s') =
  Some (if be_value b <? 2 ^ 64 then YInt (be_value b) else YStr (pfx_of u ++ s')).
Proof.
  intros Hb Hne R. unfold yaml_plain. rewrite hex_prefixed_pfx.
  rewrite (all_alnum_respelled _ _ R), all_alnum_bytes_to_hex by exact Hb.
  rewrite (of_hex_respelled _ _ R), of_hex_bytes_to_hex by exact Hb. rewrite N.mul_0_r, N.add_0_l.
  rewrite is_empty_false; [reflexivity|].
  eapply respelled_nonempty; [exact R|]. destruct b; [congruence|discriminate].
Qed.

(** * 12. whole documents *)

Lemma has_dup_nodup l : NoDup l -> has_dup l = false.
Proof.
  induction 1 as [|a t Hn _ IH]; [reflexivity|]. cbn [has_dup]. rewrite IH, orb_false_r.
  destruct (existsb (String.eqb a) t) eqn:E; [|reflexivity].
  apply existsb_exists in E. destruct E as [y [Hy He]]. apply String.eqb_eq in He. subst. contradiction.
Qed.

(** a document whose entries denote the registers of a collection parses to that collection, sorted *)
Lemma yaml_doc_forms regs es :
  Forall valid regs -> NoDup (ids regs) ->
  Forall2 (fun r e => fst e = fst r /\ denotes r (snd e)) regs es ->
  yaml_doc es = ROk (sort_regs regs).
Proof.
  intros V N F. unfold yaml_doc.
  assert (Hids : map fst es = ids regs).
  { clear V N. induction F as [|r e regs es [He _] _ IH]; [reflexivity|]. cbn [map ids]. rewrite He. f_equal. exact IH. }
  rewrite Hids, has_dup_nodup by exact N.
  assert (Hm : mapM (fun e => yaml_entry (fst e) (snd e)) es = ROk regs).
  { clear N Hids. induction F as [|r e regs es [He Hd] _ IH]; [reflexivity|].
    inversion V as [|? ? Vr Vt]; subst. cbn [mapM]. rewrite He, (entry_forms r _ Vr Hd). cbn [bind].
    rewrite (IH Vt). reflexivity. }
  rewrite Hm. reflexivity.
Qed.

(** * 13. the destination is replaced *)

Lemma unmarshal_replaces dst d l : parse_doc d = Some (ROk l) -> unmarshal dst d = Some (l, true).
Proof. intro H. unfold unmarshal. rewrite H. reflexivity. Qed.

Lemma unmarshal_error_keeps dst d : parse_doc d = Some RErr -> unmarshal dst d = Some (dst, false).
Proof. intro H. unfold unmarshal. rewrite H. reflexivity. Qed.

(** the outcome of a call depends on the document only *)
Lemma unmarshal_independent dst1 dst2 d l ok :
  unmarshal dst1 d = Some (l, ok) -> ok = true -> unmarshal dst2 d = Some (l, true).
Proof.
  unfold unmarshal. destruct (parse_doc d) as [[l'| |]|]; cbn [assign]; intros H E; try congruence.
  all: injection H as _ H; congruence.
Qed.

(** after any number of earlier calls, successful or not, a successful call leaves exactly
    its own collection *)
Lemma unmarshal_seq_last docs : forall dst d l,
  (forall d', In d' docs -> parse_doc d' <> None) -> parse_doc d = Some (ROk l) ->
  exists pre, unmarshal_seq dst (docs ++ [d]) = Some (pre ++ [(l, true)]) /\ List.length pre = List.length docs.
Proof.
  induction docs as [|d0 docs IH]; intros dst d l Hall Hd.
  - exists []. cbn [app unmarshal_seq]. rewrite (unmarshal_replaces _ _ _ Hd). split; reflexivity.
  - assert (H0 : parse_doc d0 <> None) by (apply Hall; left; reflexivity).
    cbn [app unmarshal_seq]. unfold unmarshal at 1.
    destruct (parse_doc d0) as [p|]; [|congruence].
    destruct (assign dst p) as [dst' ok] eqn:Ea.
    destruct (IH dst' d l) as [pre [Hs Hl]]; [intros d' Hin; apply Hall; right; exact Hin|exact Hd|].
    rewrite Hs. exists ((dst', ok) :: pre). split; [reflexivity|]. cbn [List.length]. rewrite Hl. reflexivity.
Qed.

(** legacy JSON: what Marshal writes for a valid collection parses back to it, whatever the
    destination held *)
Lemma json_entry_ok r : valid r ->
  exists b, value_bytes r = ROk b /\
            bind (value_from_bytes (fst r) b) (fun r' => new (fst r) (VReg r')) = ROk r.
Proof.
  intro V. destruct (bytes_roundtrip r V) as [b [H1 H2]]. exists b. split; [exact H1|].
  rewrite H2. cbn [bind]. apply new_reg_own. exact V.
Qed.

Lemma json_marshal_doc regs : Forall valid regs ->
  exists e, json_marshal regs = ROk e /\ json_doc e = ROk regs.
Proof.
  induction 1 as [|r t Vr _ [e [He Hd]]].
  - exists []. split; reflexivity.
  - destruct (json_entry_ok r Vr) as [b [Hb Hn]].
    exists ((fst r, b) :: e). unfold json_marshal, json_doc in *. cbn [mapM].
    rewrite Hb. cbn [bind]. rewrite He. cbn [bind fst snd]. split; [reflexivity|].
    rewrite Hn. cbn [bind]. rewrite Hd. reflexivity.
Qed.

Lemma unmarshal_json_marshalled dst regs : Forall valid regs ->
  exists e, json_marshal regs = ROk e /\ unmarshal dst (DJson e) = Some (regs, true).
Proof.
  intro V. destruct (json_marshal_doc regs V) as [e [He Hd]]. exists e. split; [exact He|].
  apply unmarshal_replaces. cbn [parse_doc]. rewrite Hd. reflexivity.
Qed.

(** YAML: what MarshalYAML writes, read back through the scalar resolution of yaml.v3, is
    exactly [yaml_roundtrip] (sections 6 and 7 speak about it) *)
Lemma yaml_written_entry r : valid r ->
  exists h, yaml_value r = ROk h /\
  exists v, yaml_scalar false (String "0" (String "x" h)) = Some v /\ yaml_entry (fst r) v = yaml_elem r.
Proof.
  intro V. pose proof V as V'. destruct r as [id x]. destruct V' as [i [Hl Hx]]. cbn [fst snd] in *.
  destruct (lookup_ok _ _ Hl) as [Hid [Hps [Hbits Hkey]]].
  unfold yaml_value. cbn [fst snd]. rewrite Hl.
  destruct (String.eqb_spec id key_id) as [Hk|Hk].
  - eexists. split; [reflexivity|]. cbn [yaml_scalar].
    assert (Hne : le_bytes 32 x <> []) by (cbn [le_bytes]; discriminate).
    pose proof (plain_hex_bytes_scalar false (le_bytes 32 x) _ (le_bytes_range 32 x) Hne (respelled_refl _)) as P.
    change (pfx_of false ++ bytes_to_hex (le_bytes 32 x))%string
      with (String "0" (String "x" (bytes_to_hex (le_bytes 32 x)))) in P.
    rewrite P. eexists. split; [reflexivity|].
    rewrite (yaml_elem_key (id, x) V Hk). cbn [snd].
    destruct (be_value (le_bytes 32 x) <? 2 ^ 64) eqn:E.
    + unfold yaml_entry. cbn [value_unpack bind]. unfold new. rewrite Hl.
      apply String.eqb_eq in Hk. rewrite Hk. reflexivity.
    + apply (entry_forms (id, x) _ V). apply (D_hex_key (id, x) _ Hk). apply respelled_refl.
  - eexists. split; [reflexivity|]. cbn [yaml_scalar].
    pose proof (plain_hex_scalar false x 0 _ (respelled_refl (to_hex x))) as P.
    change (pfx_of false ++ zeros 0 ++ to_hex x)%string with (String "0" (String "x" (to_hex x))) in P.
    rewrite P. eexists. split; [reflexivity|].
    rewrite (yaml_elem_nonkey (id, x) V Hk).
    destruct (x <? 2 ^ 64).
    + apply (entry_forms (id, x) _ V). constructor. exact Hk.
    + apply (entry_forms (id, x) _ V). apply (D_hex (id, x) 0 _ Hk). apply respelled_refl.
Qed.

Lemma yaml_marshal_entries l : Forall valid l ->
  exists e, mapM (fun r => bind (yaml_value r) (fun h => ROk (fst r, (false, String "0" (String "x" h))))) l = ROk e /\
  map fst e = ids l /\
  exists e', resolve_entries e = Some e' /\ map fst e' = ids l /\
             mapM (fun x => yaml_entry (fst x) (snd x)) e' = mapM yaml_elem l.
Proof.
  induction 1 as [|r t Vr _ [e [He [Hi [e' [Hr [Hi' Hm]]]]]]].
  - exists []. split; [reflexivity|]. split; [reflexivity|]. exists []. repeat split; reflexivity.
  - destruct (yaml_written_entry r Vr) as [h [Hh [v [Hv Hy]]]].
    exists ((fst r, (false, String "0" (String "x" h))) :: e). cbn [mapM]. rewrite Hh. cbn [bind]. rewrite He. cbn [bind].
    split; [reflexivity|]. split; [cbn [map ids fst]; f_equal; exact Hi|].
    exists ((fst r, v) :: e'). cbn [resolve_entries]. rewrite Hv, Hr.
    split; [reflexivity|]. split; [cbn [map ids fst]; f_equal; exact Hi'|].
    cbn [mapM fst snd]. rewrite Hy, Hm. reflexivity.
Qed.

Lemma yaml_marshal_parse regs : Forall valid regs -> NoDup (ids regs) ->
  exists e, yaml_marshal regs = ROk e /\ parse_doc (DYaml e) = Some (yaml_roundtrip regs).
Proof.
  intros V N. unfold yaml_marshal. rewrite dedup_last_nodup by exact N.
  destruct (yaml_marshal_entries regs V) as [e [He [Hi [e' [Hr [Hi' Hm]]]]]].
  exists e. split; [exact He|]. cbn [parse_doc]. rewrite Hr. f_equal.
  unfold yaml_doc. rewrite Hi', has_dup_nodup by exact N. rewrite Hm.
  rewrite yaml_roundtrip_unfold, dedup_last_nodup by exact N. reflexivity.
Qed.

Lemma unmarshal_yaml_marshalled_partial dst regs : Forall valid regs -> NoDup (ids regs) ->
  (forall r, In r regs -> fst r = key_id -> 2 ^ 64 <= be_value (le_bytes 32 (snd r))) ->
  exists e, yaml_marshal regs = ROk e /\ unmarshal dst (DYaml e) = Some (sort_regs regs, true).
Proof.
  intros V N K. destruct (yaml_marshal_parse regs V N) as [e [He Hp]]. exists e. split; [exact He|].
  apply unmarshal_replaces. rewrite Hp, (yaml_roundtrip_partial regs V N K). reflexivity.
Qed.

(** * Examples for sections 8-13 *)
Open Scope string_scope.
Lemma ex_forms :
  b64_enc [0x10; 0x70; 0x85; 0x4f; 0; 0; 0; 0] = "EHCFTwAAAAA=" /\
  yaml_entry "ACM_STATUS" (YStr "base64:EHCFTwAAAAA=") = ROk ("ACM_STATUS", 0x4f857010) /\
  (* lower-casing the text (what a case-insensitive prefix test would do) denotes another value *)
  yaml_entry "ACM_STATUS" (YStr "base64:ehcftwaaaaa=") = ROk ("ACM_STATUS", 0xb71f177a) /\
  respelled "4f857010" "4F857010" /\
  yaml_scalar false "0x4F857010" = Some (YInt 0x4f857010) /\
  yaml_entry "ACM_STATUS" (YStr "0x004F857010") = ROk ("ACM_STATUS", 0x4f857010) /\
  yaml_entry "ACM_STATUS" (YStr "0X4f857010") = RErr /\
  yaml_entry "TXT.ESTS" (YStr "base64:/w==") = ROk ("TXT.ESTS", 0xff).
Proof.
  repeat split; try (vm_compute; reflexivity).
  change "4F857010" with (String "4" (String (hex_upper "f") (String "8" (String "5" (String "7" (String "0" (String "1" (String "0" EmptyString)))))))).
  repeat constructor.
Qed.

Lemma ex_seq :
  unmarshal_seq [("TXT.ESTS", 7)]
    [DJson [("TXT.STS", [1; 2; 3; 4; 5; 6; 7; 8])];
     DYaml [("BOGUS", (false, "0x1"))];
     DYaml [("TXT.ESTS", (true, "base64:/w==")); ("ACM_STATUS", (false, "0x12"))]]
  = Some [([("TXT.STS", 0x0807060504030201)], true);
          ([("TXT.STS", 0x0807060504030201)], false);
          ([("TXT.ESTS", 0xff); ("ACM_STATUS", 0x12)], true)].
Proof. vm_compute. reflexivity. Qed.
Close Scope string_scope.

(** * 14. inputs that do not denote a value of the register's width

    A register value travels as a byte string of ONE length, the register's serialised width
    ([width_ok]: r_parser = r_ser > 0 for each of the 26 entries).  A byte string of another
    length denotes no value of the register; one of that length denotes the little-endian
    number it spells. *)

Lemma le_value_bound b : Forall (fun x => x < 256) b -> le_value b < 256 ^ N.of_nat (List.length b).
Proof.
  induction 1 as [|x t Hx _ IH]; cbn [le_value List.length].
  - cbn. lia.
  - rewrite Nat2N.inj_succ, N.pow_succ_r'. lia.
Qed.

Lemma from_bytes_unknown id b : lookup id registry = None -> value_from_bytes id b = RErr.
Proof. intro H. unfold value_from_bytes. rewrite H. reflexivity. Qed.

(** any other length than the register's width - shorter, down to no bytes at all, or longer -
    is refused *)
Lemma from_bytes_wrong_width_refused id i b : lookup id registry = Some i ->
  List.length b <> r_parser i -> value_from_bytes id b = RErr.
Proof.
  intros Hl Hlen. destruct (lookup_width _ _ Hl) as [_ [_ Hkey]].
  unfold value_from_bytes. rewrite Hl.
  destruct (String.eqb id key_id) eqn:E.
  - apply String.eqb_eq in E. specialize (Hkey E).
    destruct (Nat.eqb (List.length b) 32) eqn:E2; [|reflexivity].
    apply Nat.eqb_eq in E2. lia.
  - apply Nat.eqb_neq in Hlen. rewrite Hlen. reflexivity.
Qed.

Lemma from_bytes_short_refused id i b : lookup id registry = Some i ->
  (List.length b < r_parser i)%nat -> value_from_bytes id b = RErr.
Proof. intros Hl Hlen. apply (from_bytes_wrong_width_refused id i b Hl). lia. Qed.

Lemma from_bytes_long_refused id i b : lookup id registry = Some i ->
  (r_parser i < List.length b)%nat -> value_from_bytes id b = RErr.
Proof. intros Hl Hlen. apply (from_bytes_wrong_width_refused id i b Hl). lia. Qed.

Lemma from_bytes_empty_refused id : value_from_bytes id [] = RErr.
Proof.
  destruct (lookup id registry) as [i|] eqn:Hl; [|apply from_bytes_unknown; exact Hl].
  apply (from_bytes_short_refused id i); [exact Hl|].
  destruct (lookup_width _ _ Hl) as [_ [Hpos _]]. exact Hpos.
Qed.

(** exactly the register's width: the little-endian number (cut to the Go type) *)
Lemma from_bytes_own_width id i b : lookup id registry = Some i ->
  List.length b = r_parser i -> Forall (fun x => x < 256) b ->
  value_from_bytes id b = ROk (id, le_value b mod 2 ^ r_bits i).
Proof.
  intros Hl Hlen Hb. destruct (lookup_width _ _ Hl) as [_ [_ Hkey]].
  destruct (lookup_ok _ _ Hl) as [_ [_ [_ Hkey2]]].
  unfold value_from_bytes. rewrite Hl.
  destruct (String.eqb id key_id) eqn:E.
  - apply String.eqb_eq in E. specialize (Hkey E). destruct (Hkey2 E) as [_ Hbits].
    rewrite Hlen, Hkey, Nat.eqb_refl. rewrite N.mod_small; [reflexivity|].
    rewrite Hbits, <- pow256_32, <- Hkey, <- Hlen. apply le_value_bound. exact Hb.
  - rewrite Hlen, Nat.eqb_refl. reflexivity.
Qed.

(** a register whose Go type is as wide as its serialisation (all but ACM_STATUS): the number itself *)
Lemma from_bytes_own_width_full id i b : lookup id registry = Some i ->
  List.length b = r_parser i -> Forall (fun x => x < 256) b ->
  r_bits i = 8 * N.of_nat (r_parser i) ->
  value_from_bytes id b = ROk (id, le_value b).
Proof.
  intros Hl Hlen Hb Hfull. rewrite (from_bytes_own_width id i b Hl Hlen Hb).
  rewrite N.mod_small; [reflexivity|].
  rewrite Hfull, pow2_8, <- Hlen. apply le_value_bound. exact Hb.
Qed.

Definition full_width (i : rinfo) : bool := N.eqb (r_bits i) (8 * N.of_nat (r_parser i)).
Lemma full_width_count : List.length (filter full_width registry) = 25%nat.
Proof. vm_compute. reflexivity. Qed.

(** a value iff the length is the register's width, and then the little-endian number *)
Lemma from_bytes_value_iff_width id i b r : lookup id registry = Some i ->
  Forall (fun x => x < 256) b ->
  (value_from_bytes id b = ROk r <->
   List.length b = r_parser i /\ r = (id, le_value b mod 2 ^ r_bits i)).
Proof.
  intros Hl Hb. split.
  - intro H. destruct (Nat.eq_dec (List.length b) (r_parser i)) as [E|E].
    + split; [exact E|]. rewrite (from_bytes_own_width id i b Hl E Hb) in H. congruence.
    + rewrite (from_bytes_wrong_width_refused id i b Hl E) in H. discriminate.
  - intros [E ->]. apply from_bytes_own_width; assumption.
Qed.

(** the same without naming the registry entry: all identifiers, all lengths *)
Lemma from_bytes_characterised id b r : Forall (fun x => x < 256) b ->
  (value_from_bytes id b = ROk r <->
   exists i, lookup id registry = Some i /\ List.length b = r_parser i /\
             r = (id, le_value b mod 2 ^ r_bits i)).
Proof.
  intro Hb. split.
  - intro H. destruct (lookup id registry) as [i|] eqn:Hl.
    + exists i. split; [reflexivity|]. apply (from_bytes_value_iff_width id i b r Hl Hb). exact H.
    + rewrite (from_bytes_unknown id b Hl) in H. discriminate.
  - intros [i [Hl HH]]. apply (from_bytes_value_iff_width id i b r Hl Hb). exact HH.
Qed.

Lemma from_bytes_key_iff b r : Forall (fun x => x < 256) b ->
  (value_from_bytes key_id b = ROk r <-> List.length b = 32%nat /\ r = (key_id, le_value b)).
Proof.
  intro Hb. unfold value_from_bytes.
  change (lookup key_id registry) with (Some {| r_id := key_id; r_bits := 256; r_ser := 32; r_parser := 32; r_addr := 4275241984 |}).
  rewrite String.eqb_refl.
  destruct (Nat.eqb (List.length b) 32) eqn:E.
  - apply Nat.eqb_eq in E. split.
    + intro H. injection H as <-. split; [exact E|reflexivity].
    + intros [_ ->]. reflexivity.
  - apply Nat.eqb_neq in E. split; [discriminate|]. intros [E2 _]. contradiction.
Qed.

(** ** the code before 4a8d65e (former finding C16-from-bytes-trailing-bytes-accepted) *)

(** it agreed with the repaired code on every input not longer than the width ... *)
Lemma from_bytes_legacy_agrees id i b : lookup id registry = Some i ->
  (List.length b <= r_parser i)%nat -> value_from_bytes_legacy id b = value_from_bytes id b.
Proof.
  intros Hl Hle. unfold value_from_bytes_legacy, value_from_bytes. rewrite Hl.
  destruct (String.eqb id key_id); [reflexivity|].
  destruct (Nat.eqb (List.length b) (r_parser i)) eqn:E.
  - apply Nat.eqb_eq in E. assert (H : (List.length b <? r_parser i)%nat = false) by (apply Nat.ltb_ge; lia).
    rewrite H, <- E, firstn_all. reflexivity.
  - apply Nat.eqb_neq in E. assert (H : (List.length b <? r_parser i)%nat = true) by (apply Nat.ltb_lt; lia).
    rewrite H. reflexivity.
Qed.

(** ... and on longer ones ignored whatever followed the first [r_parser] bytes *)
Lemma from_bytes_legacy_trailing_ignored id i b : lookup id registry = Some i -> id <> key_id ->
  (r_parser i <= List.length b)%nat ->
  value_from_bytes_legacy id b = value_from_bytes id (firstn (r_parser i) b).
Proof.
  intros Hl Hk Hlen. unfold value_from_bytes_legacy, value_from_bytes. rewrite Hl.
  apply String.eqb_neq in Hk. rewrite Hk.
  rewrite firstn_length_le by exact Hlen.
  assert (H1 : (List.length b <? r_parser i)%nat = false) by (apply Nat.ltb_ge; exact Hlen).
  rewrite H1, Nat.eqb_refl. reflexivity.
Qed.

Open Scope string_scope.
(** the former witness: one byte too many for the one-byte register was a value, is an error *)
Lemma from_bytes_legacy_witness :
  exists id i b r, lookup id registry = Some i /\ Forall (fun x => x < 256) b /\
    List.length b <> r_parser i /\ value_from_bytes_legacy id b = ROk r /\
    value_from_bytes id b = RErr.
Proof.
  exists "TXT.ESTS", {| r_id := "TXT.ESTS"; r_bits := 8; r_ser := 1; r_parser := 1; r_addr := 4275240968 |},
         [1; 255], ("TXT.ESTS", 1).
  split; [reflexivity|]. split; [repeat constructor|]. split; [discriminate|]. split; reflexivity.
Qed.
Close Scope string_scope.

(** * 15. a damaged entry makes the whole document fail *)

Lemma mapM_err {A B} (f : A -> res B) l : (forall a, f a <> RPanic) ->
  Exists (fun a => f a = RErr) l -> mapM f l = RErr.
Proof.
  intros Hnp. induction 1 as [a t Ha|a t _ IH]; cbn [mapM].
  - rewrite Ha. reflexivity.
  - specialize (Hnp a). destruct (f a); cbn [bind]; try congruence.
    rewrite IH. reflexivity.
Qed.

Definition json_entry (e : string * list N) : res reg :=
  bind (value_from_bytes (fst e) (snd e)) (fun r => new (fst e) (VReg r)).

Lemma json_entry_never_panics e : json_entry e <> RPanic.
Proof.
  unfold json_entry. pose proof (from_bytes_never_panics (fst e) (snd e)).
  destruct (value_from_bytes (fst e) (snd e)); cbn [bind]; try congruence.
  apply new_never_panics.
Qed.

Lemma json_doc_bad_entry_refused es :
  Exists (fun e => value_from_bytes (fst e) (snd e) = RErr) es -> json_doc es = RErr.
Proof.
  intro H. unfold json_doc. apply (mapM_err json_entry); [exact json_entry_never_panics|].
  apply Exists_exists in H. destruct H as [e [Hin He]]. apply Exists_exists. exists e.
  split; [exact Hin|]. unfold json_entry. rewrite He. reflexivity.
Qed.

(** a legacy JSON document holding, anywhere, an entry whose value has another length than the
    register's width (no bytes at all: "value":"", null, no value field; too few; too many) is
    refused, and the variable it was unmarshalled into keeps what it held *)
Lemma json_doc_wrong_width_entry_refused dst es id i b : In (id, b) es ->
  lookup id registry = Some i -> List.length b <> r_parser i ->
  json_doc es = RErr /\ unmarshal dst (DJson es) = Some (dst, false).
Proof.
  intros Hin Hl Hlen. assert (H : json_doc es = RErr).
  { apply json_doc_bad_entry_refused. apply Exists_exists. exists (id, b). split; [exact Hin|].
    cbn [fst snd]. eapply from_bytes_wrong_width_refused; eassumption. }
  split; [exact H|]. apply unmarshal_error_keeps. cbn [parse_doc]. rewrite H. reflexivity.
Qed.

(** YAML *)
Lemma value_unpack_never_panics id v : value_unpack id v <> RPanic.
Proof.
  destruct v as [n|s|]; cbn [value_unpack]; try discriminate.
  unfold value_unpack_string. destruct (drop_prefix "0x" s) as [h|].
  - unfold value_from_hex. destruct (lookup id registry); [|discriminate].
    destruct (String.eqb id key_id).
    + destruct (hex_to_bytes h); discriminate.
    + destruct (parse_hex _ h); discriminate.
  - destruct (drop_prefix "base64:" s) as [t|]; [|discriminate].
    unfold value_from_base64. destruct (b64_dec t) as [b|]; [|discriminate].
    pose proof (from_bytes_never_panics id b).
    destruct (value_from_bytes id b); cbn [bind]; congruence.
Qed.

Lemma yaml_entry_never_panics id v : yaml_entry id v <> RPanic.
Proof.
  unfold yaml_entry. pose proof (value_unpack_never_panics id v).
  destruct (value_unpack id v); cbn [bind]; try congruence. apply new_never_panics.
Qed.

Lemma yaml_doc_bad_entry_refused es :
  Exists (fun e => yaml_entry (fst e) (snd e) = RErr) es -> yaml_doc es = RErr.
Proof.
  intro H. unfold yaml_doc. destruct (has_dup (map fst es)); [reflexivity|].
  rewrite (mapM_err (fun e => yaml_entry (fst e) (snd e))); [reflexivity| |exact H].
  intro a. apply yaml_entry_never_panics.
Qed.

(** the obsolete "base64:" value: text that is no base64, or base64 of another number of bytes
    than the register's width (none at all: "base64:") is refused *)
Lemma b64_entry_wrong_width_refused id t :
  (b64_dec t = None \/
   exists b i, b64_dec t = Some b /\ lookup id registry = Some i /\ List.length b <> r_parser i) ->
  yaml_entry id (YStr (pfx_b64 ++ t)) = RErr.
Proof.
  intro H. unfold yaml_entry. cbn [value_unpack]. unfold value_unpack_string.
  rewrite drop_hex_b64, drop_b64_b64. unfold value_from_base64.
  destruct H as [H|[b [i [H [Hl Hlen]]]]]; rewrite H; [reflexivity|].
  rewrite (from_bytes_wrong_width_refused id i b Hl Hlen). reflexivity.
Qed.

Lemma b64_entry_empty_refused id : yaml_entry id (YStr pfx_b64) = RErr.
Proof.
  unfold yaml_entry. cbn [value_unpack]. unfold value_unpack_string.
  change (drop_prefix "0x" pfx_b64) with (@None string).
  change (drop_prefix "base64:" pfx_b64) with (Some EmptyString).
  unfold value_from_base64. cbn [b64_dec]. rewrite from_bytes_empty_refused. reflexivity.
Qed.

(** the hexadecimal value without a single digit, "0x" *)
Lemma hex_entry_empty_refused id : yaml_entry id (YStr pfx_hex) = RErr.
Proof.
  unfold yaml_entry. cbn [value_unpack]. unfold value_unpack_string.
  change (drop_prefix "0x" pfx_hex) with (Some EmptyString).
  unfold value_from_hex. destruct (lookup id registry) as [i|] eqn:Hl; [|reflexivity].
  destruct (String.eqb id key_id) eqn:E.
  - cbn [hex_to_bytes bind]. unfold new. rewrite Hl, E. reflexivity.
  - reflexivity.
Qed.

(** the key written in hexadecimal: any number of bytes other than 32 is refused *)
Lemma hex_key_wrong_length_refused h b : hex_to_bytes h = Some b -> List.length b <> 32%nat ->
  yaml_entry key_id (YStr (pfx_hex ++ h)) = RErr.
Proof.
  intros Hh Hlen. unfold yaml_entry. cbn [value_unpack]. unfold value_unpack_string.
  rewrite drop_hex_hex. unfold value_from_hex.
  change (lookup key_id registry) with (Some {| r_id := key_id; r_bits := 256; r_ser := 32; r_parser := 32; r_addr := 4275241984 |}).
  rewrite String.eqb_refl, Hh. cbn [bind]. unfold new.
  change (lookup key_id registry) with (Some {| r_id := key_id; r_bits := 256; r_ser := 32; r_parser := 32; r_addr := 4275241984 |}).
  rewrite String.eqb_refl. apply Nat.eqb_neq in Hlen. rewrite Hlen. reflexivity.
Qed.

Open Scope string_scope.
Lemma ex_widths :
  value_from_bytes "TXT.ERRORCODE" [] = RErr /\
  value_from_bytes "TXT.ERRORCODE" [1; 0; 0] = RErr /\
  value_from_bytes "TXT.ERRORCODE" [1; 0; 0; 0xc0] = ROk ("TXT.ERRORCODE", 0xc0000001) /\
  value_from_bytes "TXT.ERRORCODE" [1; 0; 0; 0xc0; 7] = RErr /\
  value_from_bytes_legacy "TXT.ERRORCODE" [1; 0; 0; 0xc0; 7] = ROk ("TXT.ERRORCODE", 0xc0000001) /\
  value_from_bytes key_id (repeat 1 31) = RErr /\ value_from_bytes key_id (repeat 1 33) = RErr /\
  json_doc [("ACM_POLICY_STATUS", [0x42; 0; 0; 0; 0; 0; 0; 0]); ("TXT.ERRORCODE", [])] = RErr /\
  json_doc [("TXT.ESTS", [1; 255])] = RErr /\
  yaml_entry "TXT.ESTS" (YStr "base64:") = RErr /\ yaml_entry "TXT.ESTS" (YStr "0x") = RErr /\
  yaml_entry "TXT.ESTS" (YStr "base64:Af8=") = RErr /\
  yaml_entry "ACM_STATUS" (YStr "base64:EHCFTw==") = RErr.
Proof. vm_compute. repeat split. Qed.
Close Scope string_scope.
