(** Refinement: the buffer-level model (Model/TPMSlices.v) behaves, step by
    step, like the value-level model (Model/TPM.v).  The only thing that could
    make them differ is stale content of recycled backing arrays becoming
    visible; the invariant [swf] says where stale content may sit. *)
From CSS Require Import Lib.Base Model.TPM Proofs.TPM Model.TPMSlices.
From Coq Require Import ZifyBool ZifyNat.

(** * 1. Lists *)

Lemma firstn_updZ {A} (l : list A) : forall n i x, firstn n (updZ i x l) = updZ i x (firstn n l).
Proof.
  induction l as [|y t IH]; intros n i x.
  - destruct n; reflexivity.
  - destruct n as [|n']; [reflexivity|]. cbn [updZ firstn].
    destruct (i =? 0); cbn [firstn]; [reflexivity|]. rewrite IH. reflexivity.
Qed.

Lemma map_updZ {A B} (f : A -> B) (l : list A) : forall i x, map f (updZ i x l) = updZ i (f x) (map f l).
Proof.
  induction l as [|y t IH]; intros i x; cbn [updZ map]; [reflexivity|].
  destruct (i =? 0); cbn [map]; [reflexivity|]. rewrite IH. reflexivity.
Qed.

Lemma nthZ_map {A B} (f : A -> B) (l : list A) : forall i, nthZ (map f l) i = option_map f (nthZ l i).
Proof.
  induction l as [|y t IH]; intros i; cbn [nthZ map]; [reflexivity|].
  destruct (i =? 0); [reflexivity|]. apply IH.
Qed.

Lemma nthZ_firstn_Some {A} (l : list A) : forall n i x, nthZ (firstn n l) i = Some x -> nthZ l i = Some x.
Proof.
  induction l as [|y t IH]; intros n i x Hn.
  - destruct n; discriminate.
  - destruct n as [|n']; [discriminate|]. cbn [firstn nthZ] in *.
    destruct (i =? 0); [assumption|]. eapply IH. eassumption.
Qed.

Lemma nthZ_firstn_lt {A} (l : list A) : forall n i, i < Z.of_nat n -> nthZ (firstn n l) i = nthZ l i.
Proof.
  induction l as [|y t IH]; intros n i Hi.
  - destruct n; reflexivity.
  - destruct n as [|n']; [cbn [firstn nthZ]; destruct (i =? 0) eqn:E; [lia|]; symmetry; apply nthZ_neg; lia|].
    cbn [firstn nthZ]. destruct (i =? 0) eqn:E; [reflexivity|]. apply IH. lia.
Qed.

Lemma nthZ_repeat {A} (x y : A) : forall n i, nthZ (repeat x n) i = Some y -> y = x.
Proof.
  induction n as [|n IH]; intros i Hn; cbn [repeat nthZ] in Hn; [discriminate|].
  destruct (i =? 0); [inversion Hn; reflexivity|]. eapply IH. eassumption.
Qed.

Lemma firstn_snoc_updZ {A} (l : list A) : forall n x,
  (n < length l)%nat -> firstn (S n) (updZ (Z.of_nat n) x l) = firstn n l ++ [x].
Proof.
  induction l as [|y t IH]; intros n x Hn; cbn [length] in Hn; [lia|].
  destruct n as [|n'].
  - reflexivity.
  - cbn [updZ]. replace (Z.of_nat (S n') =? 0) with false by lia.
    replace (Z.of_nat (S n') - 1) with (Z.of_nat n') by lia.
    change (firstn (S (S n')) (y :: updZ (Z.of_nat n') x t)) with (y :: firstn (S n') (updZ (Z.of_nat n') x t)).
    rewrite IH by lia. reflexivity.
Qed.

Lemma list12 {A} (l : list A) : length l = 12%nat ->
  exists x0 x1 x2 x3 x4 x5 x6 x7 x8 x9 x10 x11, l = [x0; x1; x2; x3; x4; x5; x6; x7; x8; x9; x10; x11].
Proof.
  intros Hl. do 12 (destruct l as [|? l]; [discriminate|]). destruct l; [|discriminate].
  repeat eexists.
Qed.

(** * 2. Buffers *)

Definition buf_ok {A} (b : buf A) : Prop := (blen b <= bcap b)%nat.

Lemma vis_bsetZ {A} i (x : A) b : vis (bsetZ i x b) = updZ i x (vis b).
Proof. unfold vis, bsetZ. cbn [blen bmem]. apply firstn_updZ. Qed.

Lemma buf_ok_bsetZ {A} i (x : A) b : buf_ok b -> buf_ok (bsetZ i x b).
Proof. unfold buf_ok, bcap, bsetZ. cbn [blen bmem]. rewrite length_updZ. auto. Qed.

Lemma vis_length_ok {A} (b : buf A) : buf_ok b -> length (vis b) = blen b.
Proof. unfold buf_ok, bcap, vis. intros Hb. apply firstn_length_le. exact Hb. Qed.

Lemma vis_bappend {A} grow (z : A) b x : buf_ok b -> vis (bappend grow z b x) = vis b ++ [x].
Proof.
  intros Hb. unfold bappend. destruct (Nat.ltb (blen b) (bcap b)) eqn:E.
  - apply Nat.ltb_lt in E. unfold vis. cbn [blen bmem]. apply firstn_snoc_updZ. exact E.
  - apply Nat.ltb_ge in E. unfold vis at 1. cbn [blen bmem].
    rewrite firstn_app, (vis_length_ok b Hb).
    rewrite firstn_all2 by (rewrite (vis_length_ok b Hb); lia).
    replace (S (blen b) - blen b)%nat with 1%nat by lia. reflexivity.
Qed.

Lemma buf_ok_bappend {A} grow (z : A) b x : buf_ok b -> buf_ok (bappend grow z b x).
Proof.
  intros Hb. unfold bappend. destruct (Nat.ltb (blen b) (bcap b)) eqn:E.
  - apply Nat.ltb_lt in E. unfold buf_ok, bcap. cbn [blen bmem]. rewrite length_updZ. exact E.
  - unfold buf_ok, bcap. cbn [blen bmem]. rewrite app_length, (vis_length_ok b Hb). cbn [length]. lia.
Qed.

Lemma abs_banks_bsetZ a x banks : abs_banks (bsetZ a x banks) = updZ a (vis x) (abs_banks banks).
Proof. unfold abs_banks. rewrite vis_bsetZ, map_updZ. reflexivity. Qed.

Lemma abs_pv_bsetZ p x pv : abs_pv (bsetZ p x pv) = updZ p (abs_banks x) (abs_pv pv).
Proof. unfold abs_pv. rewrite vis_bsetZ, map_updZ. reflexivity. Qed.

(** * 3. The invariant *)

(** bank slots of algorithms that CommandInit never allocates are empty, also in
    the part of a backing array that is currently not visible *)
Definition stale_banks_ok (banks : buf (buf Z)) : Prop :=
  forall a bank, nthZ (bmem banks) a = Some bank -> is_supported a = false -> blen bank = 0%nat.
Definition stale_ok (pv : buf (buf (buf Z))) : Prop :=
  forall p banks, nthZ (bmem pv) p = Some banks -> stale_banks_ok banks.

Definition swf (s : sstate) : Prop :=
  buf_ok (s_cmdlog s) /\ buf_ok (s_evlog s) /\ buf_ok (s_pcrs s) /\ stale_ok (s_pcrs s).

Lemma swf_snew : swf snew.
Proof.
  unfold swf, snew, buf_ok, bcap. cbn. repeat split; try lia. intros p banks Hn. discriminate.
Qed.

(** * 4. CommandInit.Apply on recycled buffers *)

(** the result of one iteration on the banks of one PCR *)
Definition fill (l a p : Z) (banks : buf (buf Z)) : buf (buf Z) :=
  let b1 := prep_banks banks in
  bsetZ a (prep_bank l a p (match nthZ (vis b1) a with Some b => b | None => bnil end)) b1.

Lemma blen_prep_banks banks : blen (prep_banks banks) = BANKS.
Proof. unfold prep_banks. destruct (Nat.leb BANKS (bcap banks)); reflexivity. Qed.

Lemma bcap_prep_banks banks : (BANKS <= bcap (prep_banks banks))%nat.
Proof.
  unfold prep_banks. destruct (Nat.leb BANKS (bcap banks)) eqn:E.
  - apply Nat.leb_le in E. exact E.
  - unfold bcap, bmake. cbn [bmem]. rewrite repeat_length. lia.
Qed.

Lemma vis_prep_banks_length banks : length (vis (prep_banks banks)) = BANKS.
Proof.
  rewrite vis_length_ok; [apply blen_prep_banks|].
  unfold buf_ok. rewrite blen_prep_banks. apply bcap_prep_banks.
Qed.

Lemma prep_banks_fill l a p banks : prep_banks (fill l a p banks) = fill l a p banks.
Proof.
  unfold fill. cbv zeta. set (b1 := prep_banks banks). set (x := prep_bank _ _ _ _).
  unfold prep_banks at 1.
  assert (Nat.leb BANKS (bcap (bsetZ a x b1)) = true) as ->.
  { apply Nat.leb_le. unfold bcap, bsetZ. cbn [bmem]. rewrite length_updZ. apply bcap_prep_banks. }
  unfold breslice, bsetZ. cbn [bmem]. subst b1. rewrite blen_prep_banks. reflexivity.
Qed.

Lemma init_one_ok l a p pv banks :
  is_supported a = true -> nthZ (vis pv) p = Some banks ->
  init_one l a p pv = Ok (bsetZ p (fill l a p banks) pv).
Proof.
  intros Hs Hp. unfold init_one, fill. rewrite Hp. cbv zeta.
  destruct (nthZ_lt (vis (prep_banks banks)) a) as [bank Hb].
  { rewrite vis_prep_banks_length. unfold BANKS, is_supported, ALG_SHA1, ALG_SHA256 in *. lia. }
  rewrite Hb.
  assert (Nat.eqb (hsize a) 0 = false) as ->.
  { unfold is_supported, ALG_SHA1, ALG_SHA256 in Hs. assert (a = 4 \/ a = 11) as [-> | ->] by lia; reflexivity. }
  reflexivity.
Qed.

(** both loops, on an outer slice of length 2 *)
Lemma init_loops l B0 B1 rest :
  init_alg_loop l supported (mkBuf 2 (B0 :: B1 :: rest)) =
  Ok (mkBuf 2 (fill l 11 0 (fill l 4 0 B0) :: fill l 11 1 (fill l 4 1 B1) :: rest)).
Proof.
  unfold supported, ALG_SHA1, ALG_SHA256. cbn [init_alg_loop].
  change (seqZ 0 PCR_AMOUNT) with [0; 1]. cbn [init_pcr_loop].
  rewrite (init_one_ok l 4 0 _ B0) by reflexivity. cbn [bind].
  rewrite (init_one_ok l 4 1 _ B1) by reflexivity. cbn [bind].
  rewrite (init_one_ok l 11 0 _ (fill l 4 0 B0)) by reflexivity. cbn [bind].
  rewrite (init_one_ok l 11 1 _ (fill l 4 1 B1)) by reflexivity. cbn [bind].
  reflexivity.
Qed.

Lemma vis_prep_bank l a p bank :
  is_supported a = true -> p = 0 \/ p = 1 ->
  vis (prep_bank l a p bank) = init_val a (Z.to_nat p) l.
Proof.
  intros Hs Hp. unfold prep_bank. cbv zeta.
  set (n := hsize a).
  set (bank1 := if Nat.leb n (bcap bank) then bzero (breslice n bank) else bmake n 0).
  assert (vis bank1 = repeat 0 n) as Hv.
  { subst bank1. destruct (Nat.leb n (bcap bank)).
    - unfold vis, bzero, breslice. cbn [blen bmem].
      rewrite firstn_app, repeat_length, Nat.sub_diag. cbn [firstn]. rewrite app_nil_r.
      apply firstn_all2. rewrite repeat_length. lia.
    - unfold vis, bmake. cbn [blen bmem]. apply firstn_all2. rewrite repeat_length. lia. }
  destruct Hp as [-> | ->]; cbn [Z.eqb Z.to_nat Pos.to_nat Pos.iter_op Nat.add init_val].
  - rewrite vis_bsetZ, Hv. subst n.
    unfold is_supported, ALG_SHA1, ALG_SHA256 in Hs. assert (a = 4 \/ a = 11) as [-> | ->] by lia; reflexivity.
  - exact Hv.
Qed.

(** the visible banks after re-slicing: 12 slots, the never-allocated ones empty *)
Lemma abs_prep_banks banks :
  stale_banks_ok banks ->
  length (abs_banks (prep_banks banks)) = 12%nat /\
  forall a v, nthZ (abs_banks (prep_banks banks)) a = Some v -> is_supported a = false -> v = [].
Proof.
  intros Hst. split.
  - unfold abs_banks. rewrite map_length. apply vis_prep_banks_length.
  - intros a v Hn Hs. unfold abs_banks in Hn. rewrite nthZ_map in Hn.
    destruct (nthZ (vis (prep_banks banks)) a) as [bank|] eqn:Eb; [|discriminate].
    cbn [option_map] in Hn. inversion Hn; subst v; clear Hn.
    unfold prep_banks in Eb. destruct (Nat.leb BANKS (bcap banks)).
    + unfold vis, breslice in Eb. cbn [blen bmem] in Eb. apply nthZ_firstn_Some in Eb.
      unfold vis. rewrite (Hst a bank Eb Hs). reflexivity.
    + unfold vis, bmake in Eb. cbn [blen bmem] in Eb. apply nthZ_firstn_Some in Eb.
      apply nthZ_repeat in Eb. subst bank. reflexivity.
Qed.

Lemma abs_fill2 l p B :
  p = 0 \/ p = 1 -> stale_banks_ok B ->
  abs_banks (fill l 11 p (fill l 4 p B)) = init_banks (Z.to_nat p) l.
Proof.
  intros Hp Hst.
  unfold fill at 1. cbv zeta. rewrite prep_banks_fill.
  rewrite abs_banks_bsetZ, (vis_prep_bank l 11 p _ eq_refl Hp).
  unfold fill. cbv zeta. rewrite abs_banks_bsetZ, (vis_prep_bank l 4 p _ eq_refl Hp).
  destruct (abs_prep_banks B Hst) as [Hlen Hnil].
  destruct (list12 _ Hlen) as (x0 & x1 & x2 & x3 & x4 & x5 & x6 & x7 & x8 & x9 & x10 & x11 & HX).
  rewrite HX in Hnil |- *.
  rewrite (Hnil 0 x0 eq_refl eq_refl), (Hnil 1 x1 eq_refl eq_refl), (Hnil 2 x2 eq_refl eq_refl),
          (Hnil 3 x3 eq_refl eq_refl), (Hnil 5 x5 eq_refl eq_refl), (Hnil 6 x6 eq_refl eq_refl),
          (Hnil 7 x7 eq_refl eq_refl), (Hnil 8 x8 eq_refl eq_refl), (Hnil 9 x9 eq_refl eq_refl),
          (Hnil 10 x10 eq_refl eq_refl).
  rewrite init_banks_eq. reflexivity.
Qed.

Lemma stale_fill l a p B :
  is_supported a = true -> stale_banks_ok B -> stale_banks_ok (fill l a p B).
Proof.
  intros Hs Hst a' bank Hn Hs'. unfold fill in Hn. cbv zeta in Hn. unfold bsetZ in Hn. cbn [bmem] in Hn.
  rewrite nthZ_updZ_other in Hn by (intros ->; congruence).
  unfold prep_banks in Hn. destruct (Nat.leb BANKS (bcap B)).
  - cbn [breslice bmem] in Hn. eapply Hst; eassumption.
  - unfold bmake in Hn. cbn [bmem] in Hn. apply nthZ_repeat in Hn. subst bank. reflexivity.
Qed.

Lemma stale_banks_nil : stale_banks_ok (@bnil (buf Z)).
Proof. intros a bank Hn. discriminate. Qed.

(** CommandInit.Apply on a not-started TPM: whatever the recycled arrays hold
    (within the invariant), the visible result is [init_pcrs l] *)
Lemma sstartup_fresh l s :
  blen (s_pcrs s) = 0%nat -> stale_ok (s_pcrs s) ->
  exists pv, sstartup l s = (set_spcrs s pv, Ok tt) /\
             abs_pv pv = init_pcrs l /\ buf_ok pv /\ stale_ok pv.
Proof.
  intros Hl Hst. unfold sstartup. rewrite Hl. cbn [Nat.ltb Nat.leb].
  set (pv0 := if Nat.leb PCR_AMOUNT (bcap (s_pcrs s)) then _ else _).
  assert (exists B0 B1 rest, pv0 = mkBuf 2 (B0 :: B1 :: rest) /\ stale_banks_ok B0 /\ stale_banks_ok B1 /\
                             forall p banks, nthZ rest p = Some banks -> stale_banks_ok banks)
    as (B0 & B1 & rest & -> & H0 & H1 & Hr).
  { subst pv0. destruct (Nat.leb PCR_AMOUNT (bcap (s_pcrs s))) eqn:E.
    - apply Nat.leb_le in E. unfold bcap, PCR_AMOUNT in E.
      destruct (bmem (s_pcrs s)) as [|B0 [|B1 rest]] eqn:Em; cbn [length] in E; try lia.
      exists B0, B1, rest. unfold breslice. rewrite Em. split; [reflexivity|].
      split; [apply (Hst 0); rewrite Em; reflexivity|].
      split; [apply (Hst 1); rewrite Em; reflexivity|].
      intros p banks Hn. apply (Hst (p + 2)). rewrite Em. cbn [nthZ].
      pose proof (nthZ_Some_range _ _ _ Hn) as Hrange.
      replace (p + 2 =? 0) with false by lia. replace (p + 2 - 1 =? 0) with false by lia.
      replace (p + 2 - 1 - 1) with p by lia. exact Hn.
    - exists bnil, bnil, []. split; [reflexivity|].
      split; [apply stale_banks_nil|]. split; [apply stale_banks_nil|]. intros p banks Hn. discriminate. }
  rewrite init_loops. eexists. split; [reflexivity|]. split; [|split].
  - unfold abs_pv, vis. cbn [blen bmem firstn map].
    rewrite (abs_fill2 l 0 B0 (or_introl eq_refl) H0), (abs_fill2 l 1 B1 (or_intror eq_refl) H1). reflexivity.
  - unfold buf_ok, bcap. cbn [blen bmem length]. lia.
  - intros p banks Hn. cbn [bmem nthZ] in Hn.
    destruct (p =? 0); [inversion Hn; subst; apply stale_fill; [reflexivity|]; apply stale_fill; [reflexivity|assumption]|].
    destruct (p - 1 =? 0); [inversion Hn; subst; apply stale_fill; [reflexivity|]; apply stale_fill; [reflexivity|assumption]|].
    eapply Hr. eassumption.
Qed.

Lemma get_abs pv p a :
  get (abs_pv pv) p a =
  match nthZ (vis pv) p with
  | None => Err ERR_NO_PCR
  | Some banks => match nthZ (vis banks) a with
                  | None => Err ERR_NO_BANK
                  | Some bank => Ok (vis bank)
                  end
  end.
Proof.
  unfold get, abs_pv. rewrite nthZ_map. destruct (nthZ (vis pv) p) as [banks|]; cbn [option_map]; [|reflexivity].
  unfold abs_banks. rewrite nthZ_map. destruct (nthZ (vis banks) a); reflexivity.
Qed.

(** * 5. Step refinement *)

Section WithHash.
Variable H : Z -> list Z -> list Z.
Variable grow : nat -> nat.
Hypothesis H_length : forall a x, length (H a x) = hsize a.

Lemma abs_slog_cmd s c :
  buf_ok (s_cmdlog s) -> abs (slog_cmd grow s c) = log_cmd (abs s) c.
Proof.
  intros Hb. unfold abs, slog_cmd, log_cmd. cbn [s_algos s_pcrs s_cmdlog s_evlog algos pcrs cmdlog evlog].
  rewrite vis_bappend by exact Hb. reflexivity.
Qed.

Lemma swf_slog_cmd s c : swf s -> swf (slog_cmd grow s c).
Proof.
  intros (Hc & He & Hp & Hst). unfold swf, slog_cmd. cbn [s_pcrs s_cmdlog s_evlog].
  repeat split; try assumption. apply buf_ok_bappend. exact Hc.
Qed.

Lemma initialized_abs s :
  buf_ok (s_pcrs s) -> initialized (abs s) = Nat.ltb 0 (blen (s_pcrs s)).
Proof.
  intros Hb. unfold initialized, abs, abs_pv. cbn [pcrs].
  pose proof (vis_length_ok _ Hb) as Hl.
  destruct (vis (s_pcrs s)) as [|x t]; cbn [length map] in *.
  - rewrite <- Hl. reflexivity.
  - rewrite <- Hl. reflexivity.
Qed.

(** the in-place [Sum]: the visible part of the bank is the new digest *)
Lemma vis_sum (bank : buf Z) (v : list Z) :
  length (vis bank) = length v ->
  vis (mkBuf (blen bank) (v ++ skipn (length v) (bmem bank))) = v.
Proof.
  unfold vis. cbn [blen bmem]. intros Hl. rewrite firstn_length in Hl.
  rewrite firstn_app.
  destruct (Nat.le_ge_cases (blen bank) (length (bmem bank))) as [Hle|Hge].
  - rewrite Nat.min_l in Hl by exact Hle. rewrite Hl, Nat.sub_diag, firstn_all. cbn [firstn].
    apply app_nil_r.
  - rewrite Nat.min_r in Hl by exact Hge. rewrite <- Hl, skipn_all. rewrite firstn_nil, app_nil_r.
    apply firstn_all2. lia.
Qed.

Lemma sstep_refines s c :
  swf s ->
  swf (fst (sstep H grow s c)) /\
  abs (fst (sstep H grow s c)) = fst (step H (abs s) c) /\
  snd (sstep H grow s c) = snd (step H (abs s) c).
Proof.
  intros Hw. destruct c as [l|p a d|p a d ty data| |].
  - (* Startup *)
    cbn [sstep sapply]. rewrite step_startup.
    pose proof (swf_slog_cmd s (Startup l) Hw) as Hw'.
    destruct Hw as (Hc & _).
    pose proof (abs_slog_cmd s (Startup l) Hc) as Habs.
    assert (initialized (abs s) = initialized (abs (slog_cmd grow s (Startup l)))) as Hi
      by (rewrite Habs; reflexivity).
    rewrite Hi, <- Habs. clear Hi Habs.
    set (s' := slog_cmd grow s (Startup l)) in *.
    destruct Hw' as (Hc' & He' & Hp' & Hst').
    rewrite (initialized_abs s' Hp').
    destruct (Nat.ltb 0 (blen (s_pcrs s'))) eqn:E.
    + unfold sstartup. rewrite E. cbn [fst snd]. repeat split; assumption.
    + apply Nat.ltb_ge in E. assert (blen (s_pcrs s') = 0%nat) as E0 by lia.
      destruct (sstartup_fresh l s' E0 Hst') as (pv & -> & Ha & Hb & Hs). cbn [fst snd].
      split; [|split; [|reflexivity]].
      * unfold swf, set_spcrs. cbn [s_cmdlog s_evlog s_pcrs]. repeat split; assumption.
      * unfold abs, set_spcrs, set_pcrs. cbn [s_algos s_pcrs s_cmdlog s_evlog algos pcrs cmdlog evlog].
        rewrite Ha. reflexivity.
  - (* Extend *)
    cbn [sstep sapply step apply].
    pose proof (swf_slog_cmd s (Extend p a d) Hw) as Hw'.
    destruct Hw as (Hc & _). rewrite <- (abs_slog_cmd s (Extend p a d) Hc).
    set (s' := slog_cmd grow s (Extend p a d)) in *.
    unfold sextend.
    destruct ((a <? 0) || (POOL_SIZE <=? a)); [cbn [fst snd]; auto|].
    destruct (negb (is_hash a)); [cbn [fst snd]; auto|].
    change (pcrs (abs s')) with (abs_pv (s_pcrs s')). rewrite get_abs.
    destruct (nthZ (vis (s_pcrs s')) p) as [banks|] eqn:Ep; [|cbn [fst snd]; auto].
    destruct (nthZ (vis banks) a) as [bank|] eqn:Ea; [|cbn [fst snd]; auto].
    destruct (Nat.eqb (length (vis bank)) (hsize a)) eqn:El; [|cbn [fst snd]; auto].
    apply Nat.eqb_eq in El. cbn [fst snd].
    set (v := H a (vis bank ++ d)).
    assert (vis (mkBuf (blen bank) (v ++ skipn (hsize a) (bmem bank))) = v) as Hv.
    { rewrite <- (H_length a (vis bank ++ d)). fold v. apply vis_sum. subst v. rewrite H_length. exact El. }
    destruct Hw' as (Hc' & He' & Hp' & Hst').
    split; [|split; [|reflexivity]].
    + unfold swf, set_spcrs. cbn [s_cmdlog s_evlog s_pcrs]. repeat split; try assumption.
      * apply buf_ok_bsetZ. exact Hp'.
      * intros p' banks' Hn. unfold bsetZ in Hn. cbn [bmem] in Hn.
        pose proof (nthZ_firstn_Some _ _ _ _ Ep) as Ep'.
        destruct (Z.eq_dec p p') as [<-|Hne].
        -- rewrite (nthZ_updZ_same _ _ _ _ Ep') in Hn. inversion Hn; subst banks'; clear Hn.
           intros a' bank' Hn' Hs'. cbn [bmem] in Hn'.
           pose proof (nthZ_firstn_Some _ _ _ _ Ea) as Ea'.
           destruct (Z.eq_dec a a') as [<-|Hne'].
           ++ rewrite (nthZ_updZ_same _ _ _ _ Ea') in Hn'. inversion Hn'; subst bank'. cbn [blen].
              eapply (Hst' p banks Ep'); eassumption.
           ++ rewrite nthZ_updZ_other in Hn' by exact Hne'. eapply (Hst' p banks Ep'); eassumption.
        -- rewrite nthZ_updZ_other in Hn by exact Hne. eapply Hst'. eassumption.
    + unfold abs at 1, set_spcrs, set_pcrs. cbn [s_algos s_pcrs s_cmdlog s_evlog].
      rewrite abs_pv_bsetZ, abs_banks_bsetZ, Hv.
      unfold set_bank. cbn [abs pcrs algos cmdlog evlog]. unfold abs_pv at 2. rewrite nthZ_map, Ep. cbn [option_map].
      reflexivity.
  - (* LogAdd *)
    cbn [sstep sapply]. rewrite step_logadd. cbn [fst snd].
    pose proof (swf_slog_cmd s (LogAdd p a d ty data) Hw) as Hw'.
    destruct Hw as (Hc & _). rewrite <- (abs_slog_cmd s (LogAdd p a d ty data) Hc).
    set (s' := slog_cmd grow s (LogAdd p a d ty data)) in *.
    destruct Hw' as (Hc' & He' & Hp' & Hst').
    split; [|split; [|reflexivity]].
    + unfold swf, slog_event. cbn [s_cmdlog s_evlog s_pcrs]. repeat split; try assumption.
      apply buf_ok_bappend. exact He'.
    + unfold abs, slog_event, log_event. cbn [s_algos s_pcrs s_cmdlog s_evlog algos pcrs cmdlog evlog].
      rewrite vis_bappend by exact He'. reflexivity.
  - (* Reset *)
    destruct Hw as (Hc & He & Hp & Hst). cbn [sstep sapply step apply fst snd].
    split; [|split; [|reflexivity]].
    + unfold swf, sreset, sinit, sreset_noinit, buf_ok, bcap. cbn [s_cmdlog s_evlog s_pcrs blen bmem breslice].
      repeat split; try lia. exact Hst.
    + unfold abs, sreset, sinit, sreset_noinit, fresh, abs_pv, vis.
      cbn [s_algos s_pcrs s_cmdlog s_evlog blen bmem breslice firstn map].
      destruct (Nat.ltb (bcap (breslice 0 (s_algos s))) (length supported)); reflexivity.
  - (* ResetNoInit *)
    destruct Hw as (Hc & He & Hp & Hst). cbn [sstep sapply step apply fst snd].
    split; [|split; [|reflexivity]].
    + unfold swf, sreset_noinit, buf_ok, bcap. cbn [s_cmdlog s_evlog s_pcrs blen bmem breslice].
      repeat split; try lia. exact Hst.
    + reflexivity.
Qed.

Lemma abs_snew : abs snew = fresh.
Proof. reflexivity. Qed.

Lemma srun_refines_from s h :
  swf s ->
  abs (srun H grow s h) = run H (abs s) h /\ sresults H grow s h = results H (abs s) h.
Proof.
  revert s. induction h as [|c t IH]; intros s Hw; cbn [srun run sresults results]; [auto|].
  destruct (sstep_refines s c Hw) as (Hw' & Ha & Hr).
  destruct (IH _ Hw') as [IH1 IH2]. rewrite IH1, IH2, Ha, Hr. auto.
Qed.

Lemma swf_srun s h : swf s -> swf (srun H grow s h).
Proof.
  revert s. induction h as [|c t IH]; intros s Hw; cbn [srun]; [exact Hw|].
  apply IH. apply sstep_refines. exact Hw.
Qed.

Lemma srun_refines h :
  abs (srun H grow snew h) = run H fresh h /\ sresults H grow snew h = results H fresh h.
Proof. rewrite <- abs_snew. apply srun_refines_from. apply swf_snew. Qed.

End WithHash.
