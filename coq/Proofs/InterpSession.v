(** Proofs about sessions (Model/InterpSession.v): several calls — NextStep,
    Finish, State.SetFlow — on one BootProcess whose Log is already there. *)
From CSS Require Import Lib.Base Model.Interp Proofs.Interp Model.InterpHeap Proofs.InterpHeap Model.InterpSession.
From Coq Require Import Lia.

(** * Value level *)

(** a bounded stepwise run that has not reached the end, followed by any
    further run, is the longer run *)
Lemma run_split fam : forall k m st log st1 log1,
  run k fam st log = Ok (st1, log1, false) ->
  run (k + m) fam st log = run m fam st1 log1.
Proof.
  induction k as [|k IH]; intros m st log st1 log1 H.
  - cbn in H. inversion H; subst. reflexivity.
  - cbn [run Nat.add] in *.
    destruct (next_step fam st log) as [[[st' log'] [|]]| | |]; try discriminate.
    apply IH. exact H.
Qed.

(** ... and one that has reached the end stays what it is *)
Lemma run_ended_mono fam : forall k m st log st1 log1,
  run k fam st log = Ok (st1, log1, true) ->
  run (k + m) fam st log = Ok (st1, log1, true).
Proof.
  induction k as [|k IH]; intros m st log st1 log1 H.
  - cbn in H. discriminate.
  - cbn [run Nat.add] in *.
    destruct (next_step fam st log) as [[[st' log'] [|]]| | |]; try discriminate.
    + apply IH. exact H.
    + exact H.
Qed.

Lemma uint_ok_set_flow g st : uint_ok (set_flow g st).
Proof. unfold uint_ok, set_flow. cbn. unfold MAXUINT, W64. lia. Qed.

Lemma remaining_set_flow fam g st : remaining fam (set_flow g st) = flow_steps fam g.
Proof. exact (remaining_init fam g (ms_core st)). Qed.

(** one NextStep call on any state of a sized family: returns normally, only
    appends *)
Lemma next_step_total fam st log :
  sized fam -> uint_ok st ->
  exists st' new d, next_step fam st log = Ok (st', log ++ new, d) /\ uint_ok st'.
Proof.
  intros Hsz Hu. destruct (remaining fam st) as [|ts more] eqn:Hrem.
  - exists (match lookup fam (ms_flow st) with
            | Some _ => mkM (ms_flow st) (wrap64 (ms_step st + 1)) (ms_act st) (ms_core st)
            | None => st end), [], false.
    rewrite app_nil_r.
    unfold remaining in Hrem. unfold next_step, state_next_step.
    destruct (lookup fam (ms_flow st)) as [steps|].
    + cbn [ms_step].
      apply skipn_nil_len in Hrem.
      pose proof (wrap64_range (ms_step st + 1)) as Hr.
      destruct (wrap64 (ms_step st + 1) >=? Z.of_nat (length steps)) eqn:E.
      * split; [reflexivity|]. unfold uint_ok. cbn [ms_step]. pose proof maxuint_lt. unfold MAXUINT, W64 in *. lia.
      * rewrite Z.geb_leb in E. apply Z.leb_gt in E. lia.
    + split; [reflexivity|exact Hu].
  - destruct (exec_step ts (ms_core st)) as [[e c'] sw] eqn:Hex.
    destruct (next_step_exec fam st log ts more e c' sw Hsz Hu Hrem Hex) as (st' & Hn & _ & Hu' & _).
    exists st', [e], true. auto.
Qed.

Lemma calls_total fam : sized fam -> forall n st log e,
  uint_ok st ->
  exists st' new d, calls n fam st log e = Ok (st', log ++ new, d) /\ uint_ok st'.
Proof.
  intros Hsz. induction n as [|n IH]; intros st log e Hu.
  - exists st, [], e. rewrite app_nil_r. auto.
  - cbn [calls]. destruct (next_step_total fam st log Hsz Hu) as (st1 & new1 & d1 & Hn & Hu1).
    rewrite Hn. destruct (IH st1 (log ++ new1) (negb d1) Hu1) as (st2 & new2 & d2 & Hc & Hu2).
    exists st2, (new1 ++ new2), d2. rewrite app_assoc. auto.
Qed.

Lemma run_total fam : sized fam -> forall n st log,
  uint_ok st ->
  exists st' new d, run n fam st log = Ok (st', log ++ new, d) /\ uint_ok st'.
Proof.
  intros Hsz. induction n as [|n IH]; intros st log Hu.
  - exists st, [], false. rewrite app_nil_r. auto.
  - cbn [run]. destruct (next_step_total fam st log Hsz Hu) as (st1 & new1 & d1 & Hn & Hu1).
    rewrite Hn. destruct d1.
    + destruct (IH st1 (log ++ new1) Hu1) as (st2 & new2 & d2 & Hc & Hu2).
      exists st2, (new1 ++ new2), d2. rewrite app_assoc. auto.
    + exists st1, new1, true. auto.
Qed.

Lemma do_op_total fuel fam o st log :
  sized fam -> uint_ok st ->
  exists st' new d, do_op fuel fam o st log = Ok (st', log ++ new, d) /\ uint_ok st'.
Proof.
  intros Hsz Hu. destruct o as [n| |g]; cbn [do_op].
  - apply calls_total; assumption.
  - apply run_total; assumption.
  - exists (set_flow g st), [], false. rewrite app_nil_r. split; [reflexivity|apply uint_ok_set_flow].
Qed.

(** a session never aborts and only appends to the log *)
Lemma session_total fuel fam : sized fam -> forall ops st log tr,
  uint_ok st ->
  exists st' new tr', session fuel fam ops st log tr = Ok (st', log ++ new, tr') /\ uint_ok st'.
Proof.
  intros Hsz. induction ops as [|o ops IH]; intros st log tr Hu.
  - exists st, [], tr. rewrite app_nil_r. auto.
  - cbn [session]. destruct (do_op_total fuel fam o st log Hsz Hu) as (st1 & new1 & d1 & Ho & Hu1).
    rewrite Ho. destruct (IH st1 (log ++ new1) (tr ++ [(length (log ++ new1), d1)]) Hu1) as (st2 & new2 & tr2 & Hs & Hu2).
    exists st2, (new1 ++ new2), tr2. rewrite app_assoc. auto.
Qed.

(** Finish (any sufficient fuel) after State.SetFlow(g) on ANY state and log
    of a stratified family: the log that was there, then the big-step run of g *)
Lemma rerun_refines_spec fam st log g fuel :
  sized fam -> stratified fam = true -> (fuel_bound fam <= fuel)%nat ->
  exists st',
    run fuel fam (set_flow g st) log = Ok (st', log ++ fst (exec_flow fam g (ms_core st)), true) /\
    ms_core st' = snd (exec_flow fam g (ms_core st)).
Proof.
  intros Hsz Hstr Hf.
  destruct (run_spec fam Hsz fuel (set_flow g st) log (uint_ok_set_flow g st)) as (st' & H1 & H2).
  rewrite remaining_set_flow in H1, H2. cbn [set_flow ms_core] in H1, H2.
  pose proof (stratified_spec fam [] [] (fun x H => H) Hstr g (ms_core st) fuel (fun H => H)) as Hs.
  cbn [app] in Hs. rewrite Hs in H1, H2 by (unfold fuel_bound in Hf; lia).
  exists st'. auto.
Qed.

(** * Slice level *)

Section Grow.
Variable grow : nat -> nat -> nat.

Lemma calls_sim fam : forall n st h log e,
  wf_family (length h) fam = true -> wf_log h log ->
  match calls_h grow n fam st h log e with
  | Ok (st', h', log', d) =>
      ext h h' /\ wf_log h' log' /\ (exists new, log' = log ++ new) /\
      calls n (resolve_family h fam) st (map (read_entry h) log) e = Ok (st', map (read_entry h') log', d)
  | Panic => calls n (resolve_family h fam) st (map (read_entry h) log) e = Panic
  | _ => False
  end.
Proof.
  induction n as [|n IH]; intros st h log e Hwf Hlog.
  - cbn. split; [apply ext_refl|]. split; [exact Hlog|]. split; [exists []; rewrite app_nil_r|]; reflexivity.
  - cbn [calls_h calls]. pose proof (next_step_sim grow fam st h log Hwf Hlog) as Hn.
    destruct (next_step_h grow fam st h log) as [[[[st1 h1] log1] d1]| | |]; try contradiction.
    + destruct Hn as (He & Hl1 & [new1 ->] & Hv). rewrite Hv.
      assert (Hwf1 : wf_family (length h1) fam = true).
      { eapply wf_family_mono; [|exact Hwf]. apply ext_length. exact He. }
      specialize (IH st1 h1 (log ++ new1) (negb d1) Hwf1 Hl1).
      assert (Hfam : resolve_family h1 fam = resolve_family h fam).
      { destruct He as [x ->]. apply resolve_family_ext. exact Hwf. }
      rewrite Hfam in IH.
      destruct (calls_h grow n fam st1 h1 (log ++ new1) (negb d1)) as [[[[st2 h2] log2] d2]| | |]; try contradiction.
      * destruct IH as (He2 & Hl2 & [new2 ->] & Hv2). split; [eapply ext_trans; eauto|].
        split; [exact Hl2|]. split; [exists (new1 ++ new2); rewrite app_assoc; reflexivity|exact Hv2].
      * exact IH.
    + rewrite Hn. reflexivity.
Qed.

Lemma do_op_sim fuel fam o st h log :
  wf_family (length h) fam = true -> wf_log h log ->
  match do_op_h grow fuel fam o st h log with
  | Ok (st', h', log', d) =>
      ext h h' /\ wf_log h' log' /\ (exists new, log' = log ++ new) /\
      do_op fuel (resolve_family h fam) o st (map (read_entry h) log) = Ok (st', map (read_entry h') log', d)
  | Panic => do_op fuel (resolve_family h fam) o st (map (read_entry h) log) = Panic
  | _ => False
  end.
Proof.
  intros Hwf Hlog. destruct o as [n| |g]; cbn [do_op_h do_op].
  - apply calls_sim; assumption.
  - apply run_sim; assumption.
  - split; [apply ext_refl|]. split; [exact Hlog|]. split; [exists []; rewrite app_nil_r|]; reflexivity.
Qed.

Lemma session_sim fuel fam : forall ops st h log tr,
  wf_family (length h) fam = true -> wf_log h log ->
  match session_h grow fuel fam ops st h log tr with
  | Ok (st', h', log', tr') =>
      ext h h' /\ wf_log h' log' /\ (exists new, log' = log ++ new) /\
      session fuel (resolve_family h fam) ops st (map (read_entry h) log) tr = Ok (st', map (read_entry h') log', tr')
  | Panic => session fuel (resolve_family h fam) ops st (map (read_entry h) log) tr = Panic
  | _ => False
  end.
Proof.
  induction ops as [|o ops IH]; intros st h log tr Hwf Hlog.
  - cbn. split; [apply ext_refl|]. split; [exact Hlog|]. split; [exists []; rewrite app_nil_r|]; reflexivity.
  - cbn [session_h session]. pose proof (do_op_sim fuel fam o st h log Hwf Hlog) as Ho.
    destruct (do_op_h grow fuel fam o st h log) as [[[[st1 h1] log1] d1]| | |]; try contradiction.
    + destruct Ho as (He & Hl1 & [new1 ->] & Hv). rewrite Hv. rewrite map_length.
      assert (Hwf1 : wf_family (length h1) fam = true).
      { eapply wf_family_mono; [|exact Hwf]. apply ext_length. exact He. }
      specialize (IH st1 h1 (log ++ new1) (tr ++ [(length (log ++ new1), d1)]) Hwf1 Hl1).
      assert (Hfam : resolve_family h1 fam = resolve_family h fam).
      { destruct He as [x ->]. apply resolve_family_ext. exact Hwf. }
      rewrite Hfam in IH.
      destruct (session_h grow fuel fam ops st1 h1 (log ++ new1) (tr ++ [(length (log ++ new1), d1)]))
        as [[[[st2 h2] log2] tr2]| | |]; try contradiction.
      * destruct IH as (He2 & Hl2 & [new2 ->] & Hv2). split; [eapply ext_trans; eauto|].
        split; [exact Hl2|]. split; [exists (new1 ++ new2); rewrite app_assoc; reflexivity|exact Hv2].
      * exact IH.
    + rewrite Ho. reflexivity.
Qed.

(** * Statements used by Props/C09.v *)

Lemma session_keeps_log fuel fam ops st h log tr st' h' log' tr' :
  wf_family (length h) fam = true -> wf_log h log ->
  session_h grow fuel fam ops st h log tr = Ok (st', h', log', tr') ->
  (exists new, log' = log ++ new) /\ map (read_entry h') log = map (read_entry h) log /\
  firstn (length h) h' = h /\ resolve_family h' fam = resolve_family h fam /\
  session fuel (resolve_family h fam) ops st (map (read_entry h) log) tr = Ok (st', map (read_entry h') log', tr').
Proof.
  intros Hwf Hlog Hr. pose proof (session_sim fuel fam ops st h log tr Hwf Hlog) as H. rewrite Hr in H.
  destruct H as (He & _ & Hnew & Hv). split; [exact Hnew|].
  split; [apply read_log_ext; assumption|]. split; [apply ext_firstn; exact He|]. split; [|exact Hv].
  destruct He as [x ->]. apply resolve_family_ext. exact Hwf.
Qed.

Lemma session_runs fuel fam ops h root c :
  wf_family (length h) fam = true -> sized (resolve_family h fam) ->
  exists st h' log tr,
    session_h grow fuel fam ops (init_state root c) h [] [] = Ok (st, h', log, tr) /\
    firstn (length h) h' = h /\ resolve_family h' fam = resolve_family h fam /\
    session fuel (resolve_family h fam) ops (init_state root c) [] [] = Ok (st, map (read_entry h') log, tr).
Proof.
  intros Hwf Hsz.
  pose proof (session_sim fuel fam ops (init_state root c) h [] [] Hwf (Forall_nil _)) as H. cbn [map] in H.
  destruct (session_total fuel (resolve_family h fam) Hsz ops (init_state root c) [] [] (uint_ok_init root c))
    as (sv & newv & trv & Hs & _).
  destruct (session_h grow fuel fam ops (init_state root c) h [] []) as [[[[st h'] log] tr]| | |]; try contradiction.
  - destruct H as (He & _ & _ & Hv). exists st, h', log, tr. split; [reflexivity|].
    split; [apply ext_firstn; exact He|]. split; [|exact Hv].
    destruct He as [x ->]. apply resolve_family_ext. exact Hwf.
  - rewrite Hs in H. discriminate.
Qed.

End Grow.
