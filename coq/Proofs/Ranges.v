(** Proofs about Model/Ranges.v: set semantics of MergeRanges / SortAndMerge /
    Range.Exclude / Range.Intersect for ranges that do not wrap around 2^64. *)
From Coq Require Import Permutation.
From CSS Require Import Lib.Base Model.Ranges.

(** ** Vocabulary *)

(** the range fits in the uint64 address space *)
Definition okr (r : range) : Prop := 0 <= roff r /\ 0 <= rlen r /\ roff r + rlen r < W64.
(** offset [k] belongs to [r] *)
Definition inr (r : range) (k : Z) : Prop := roff r <= k < roff r + rlen r.
(** offset [k] belongs to some range of the list *)
Definition in_ranges (l : list range) (k : Z) : Prop := Exists (fun r => inr r k) l.

(** sorted by offset (non-strictly), all offsets at least [lb] *)
Fixpoint sorted_lb (lb : Z) (l : list range) : Prop :=
  match l with
  | [] => True
  | a :: t => lb <= roff a /\ sorted_lb (roff a) t
  end.
Definition sorted_off (l : list range) : Prop :=
  match l with [] => True | a :: t => sorted_lb (roff a) t end.

(** every range starts strictly after [lb] and strictly after the end of its
    predecessor: sorted, pairwise disjoint and non-adjacent.  Zero-length
    ranges are allowed (they denote nothing) but obey the same spacing. *)
Fixpoint sep_lb (lb : Z) (l : list range) : Prop :=
  match l with
  | [] => True
  | a :: t => lb < roff a /\ sep_lb (roff a + rlen a) t
  end.
Definition separated (l : list range) : Prop :=
  match l with [] => True | a :: t => sep_lb (roff a + rlen a) t end.

Lemma W64_pos : 0 < W64. Proof. reflexivity. Qed.

Lemma wrap64_small z : 0 <= z < W64 -> wrap64 z = z.
Proof. intros. rewrite wrap64_mod. apply Z.mod_small. assumption. Qed.

Lemma rend_ok r : okr r -> rend r = roff r + rlen r.
Proof. intros (A & B & C). unfold rend. apply wrap64_small. lia. Qed.

Lemma in_ranges_nil k : in_ranges [] k <-> False.
Proof. unfold in_ranges. split; [intros H; inversion H | tauto]. Qed.
Lemma in_ranges_cons a l k : in_ranges (a :: l) k <-> inr a k \/ in_ranges l k.
Proof. unfold in_ranges. apply Exists_cons. Qed.
Lemma in_ranges_app l1 l2 k : in_ranges (l1 ++ l2) k <-> in_ranges l1 k \/ in_ranges l2 k.
Proof. unfold in_ranges. apply Exists_app. Qed.
Lemma in_ranges_perm l l' k : Permutation l l' -> in_ranges l k -> in_ranges l' k.
Proof.
  unfold in_ranges. intros P H. apply Exists_exists in H. destruct H as (x & I & J).
  apply Exists_exists. exists x. split; [eapply Permutation_in; eauto | assumption].
Qed.
Lemma in_ranges_perm_iff l l' k : Permutation l l' -> in_ranges l k <-> in_ranges l' k.
Proof. intros P. split; apply in_ranges_perm; [assumption | apply Permutation_sym; assumption]. Qed.

Lemma sorted_lb_weaken lb lb' l : lb' <= lb -> sorted_lb lb l -> sorted_lb lb' l.
Proof. destruct l; cbn [sorted_lb]; intros; [trivial | intuition lia]. Qed.
Lemma sorted_lb_off lb l : sorted_lb lb l -> sorted_off l.
Proof. destruct l; cbn [sorted_lb sorted_off]; tauto. Qed.

Lemma sep_lb_weaken lb lb' l : lb' <= lb -> sep_lb lb l -> sep_lb lb' l.
Proof. destruct l; cbn [sep_lb]; intros; [trivial | intuition lia]. Qed.
Lemma sep_lb_separated lb l : sep_lb lb l -> separated l.
Proof. destruct l; cbn [sep_lb separated]; tauto. Qed.
Lemma sep_lb_in lb l k : Forall okr l -> sep_lb lb l -> in_ranges l k -> lb < k.
Proof.
  revert lb. induction l as [|a t IH]; intros lb F S I.
  - apply in_ranges_nil in I. tauto.
  - inversion F as [|? ? Oa Ft]; subst. cbn [sep_lb] in S. destruct S as (S1 & S2).
    apply in_ranges_cons in I. destruct I as [I | I].
    + unfold inr in I. lia.
    + specialize (IH _ Ft S2 I). destruct Oa as (? & ? & ?). lia.
Qed.

(** ** Insertion sort *)

Lemma ins_off_perm x l : Permutation (ins_off x l) (x :: l).
Proof.
  induction l as [|y t IH]; cbn [ins_off]; [reflexivity|].
  destruct (roff x <=? roff y); [reflexivity|].
  rewrite IH. apply perm_swap.
Qed.
Lemma sort_off_perm l : Permutation (sort_off l) l.
Proof.
  induction l as [|x t IH]; cbn [sort_off fold_right]; [reflexivity|].
  fold (sort_off t). rewrite ins_off_perm. apply perm_skip. assumption.
Qed.
Lemma ins_off_sorted x l lb : lb <= roff x -> sorted_lb lb l -> sorted_lb lb (ins_off x l).
Proof.
  revert lb. induction l as [|y t IH]; intros lb Hx S; cbn [ins_off].
  - cbn [sorted_lb]. tauto.
  - cbn [sorted_lb] in S. destruct S as (S1 & S2).
    destruct (roff x <=? roff y) eqn:E.
    + apply Z.leb_le in E. cbn [sorted_lb]. tauto.
    + apply Z.leb_gt in E. cbn [sorted_lb]. split; [assumption|]. apply IH; [lia | assumption].
Qed.
Lemma sort_off_sorted_lb l lb : Forall (fun r => lb <= roff r) l -> sorted_lb lb (sort_off l).
Proof.
  induction 1 as [|x t Hx Ht IH]; cbn [sort_off fold_right]; [exact I|].
  fold (sort_off t). apply ins_off_sorted; assumption.
Qed.
Lemma sort_off_sorted l : sorted_off (sort_off l).
Proof.
  destruct (sort_off l) as [|a t] eqn:E; [exact I|].
  (* lower bound: the minimum exists; use a bound below every offset *)
  assert (B : exists lb, Forall (fun r => lb <= roff r) l).
  { clear. induction l as [|x t (lb & IH)]; [exists 0; constructor|].
    exists (Z.min lb (roff x)). constructor; [lia|].
    eapply Forall_impl; [|exact IH]. cbn. intros; lia. }
  destruct B as (lb & B). pose proof (sort_off_sorted_lb l lb B) as S. rewrite E in S.
  eapply sorted_lb_off. exact S.
Qed.

(** ** MergeRanges *)

Lemma merge_go_den l : forall e, okr e -> Forall okr l -> sorted_lb (roff e) l ->
  forall k, in_ranges (merge_go e l) k <-> inr e k \/ in_ranges l k.
Proof.
  induction l as [|n t IH]; intros e Oe F S k; cbn [merge_go].
  - rewrite in_ranges_cons, !in_ranges_nil. tauto.
  - inversion F as [|? ? On Ft]; subst. cbn [sorted_lb] in S. destruct S as (S1 & S2).
    rewrite (rend_ok e Oe), (rend_ok n On).
    pose proof Oe as (e0 & e1 & e2). pose proof On as (n0 & n1 & n2).
    destruct (roff n <=? roff e + rlen e) eqn:E.
    + apply Z.leb_le in E.
      set (e' := mkR (roff e) (wrap64 (Z.max (roff n + rlen n) (roff e + rlen e) - roff e))).
      assert (L : rlen e' = Z.max (roff n + rlen n) (roff e + rlen e) - roff e).
      { unfold e'. cbn [rlen]. apply wrap64_small. lia. }
      assert (Oe' : okr e'). { unfold okr. rewrite L. unfold e'. cbn [roff]. lia. }
      rewrite (IH e' Oe' Ft).
      2:{ unfold e'. cbn [roff]. eapply sorted_lb_weaken; [|exact S2]. lia. }
      assert (X : inr e' k <-> inr e k \/ inr n k).
      { unfold inr. rewrite L. unfold e'. cbn [roff]. lia. }
      rewrite in_ranges_cons. tauto.
    + apply Z.leb_gt in E. rewrite in_ranges_cons, (IH n On Ft S2), in_ranges_cons. tauto.
Qed.

Lemma merge_go_sep l : forall e lb, okr e -> Forall okr l -> sorted_lb (roff e) l -> lb < roff e ->
  sep_lb lb (merge_go e l) /\ Forall okr (merge_go e l).
Proof.
  induction l as [|n t IH]; intros e lb Oe F S Hlb; cbn [merge_go].
  - cbn [sep_lb]. repeat split; auto.
  - inversion F as [|? ? On Ft]; subst. cbn [sorted_lb] in S. destruct S as (S1 & S2).
    rewrite (rend_ok e Oe), (rend_ok n On).
    pose proof Oe as (e0 & e1 & e2). pose proof On as (n0 & n1 & n2).
    destruct (roff n <=? roff e + rlen e) eqn:E.
    + apply Z.leb_le in E.
      set (e' := mkR (roff e) (wrap64 (Z.max (roff n + rlen n) (roff e + rlen e) - roff e))).
      assert (L : rlen e' = Z.max (roff n + rlen n) (roff e + rlen e) - roff e).
      { unfold e'. cbn [rlen]. apply wrap64_small. lia. }
      assert (Oe' : okr e'). { unfold okr. rewrite L. unfold e'. cbn [roff]. lia. }
      apply IH; try assumption.
      eapply sorted_lb_weaken; [|exact S2]. unfold e'. cbn [roff]. lia.
    + apply Z.leb_gt in E.
      destruct (IH n (roff e + rlen e) On Ft S2 ltac:(lia)) as (A & B).
      split; [cbn [sep_lb]; tauto | constructor; assumption].
Qed.

Lemma merge_ranges_den l k : Forall okr l -> sorted_off l ->
  in_ranges (merge_ranges l) k <-> in_ranges l k.
Proof.
  destruct l as [|e t]; intros F S; cbn [merge_ranges]; [tauto|].
  inversion F; subst. rewrite merge_go_den by assumption. rewrite in_ranges_cons. tauto.
Qed.

Lemma merge_ranges_sep l : Forall okr l -> sorted_off l ->
  separated (merge_ranges l) /\ Forall okr (merge_ranges l).
Proof.
  destruct l as [|e t]; intros F S; cbn [merge_ranges]; [split; [exact I | constructor]|].
  inversion F; subst.
  destruct (merge_go_sep t e (roff e - 1)) as (A & B); try assumption; try lia.
  split; [eapply sep_lb_separated; exact A | exact B].
Qed.

(** For EVERY order the unstable sort may produce. *)
Lemma ranges_merge_den_any l l' k : Permutation l l' -> sorted_off l' -> Forall okr l ->
  in_ranges (merge_ranges l') k <-> in_ranges l k.
Proof.
  intros P S F. rewrite merge_ranges_den; [| | assumption].
  - symmetry. apply in_ranges_perm_iff. assumption.
  - eapply Permutation_Forall; eassumption.
Qed.
Lemma ranges_merge_normal_any l l' : Permutation l l' -> sorted_off l' -> Forall okr l ->
  separated (merge_ranges l') /\ Forall okr (merge_ranges l').
Proof. intros P S F. apply merge_ranges_sep; [eapply Permutation_Forall; eassumption | assumption]. Qed.

(** the executable instance *)
Lemma ranges_sm_den l k : Forall okr l -> in_ranges (ranges_sm l) k <-> in_ranges l k.
Proof. intros F. apply ranges_merge_den_any; [symmetry; apply sort_off_perm | apply sort_off_sorted | assumption]. Qed.
Lemma ranges_sm_sep l : Forall okr l -> separated (ranges_sm l) /\ Forall okr (ranges_sm l).
Proof. intros F. apply (ranges_merge_normal_any l); [symmetry; apply sort_off_perm | apply sort_off_sorted | assumption]. Qed.

(** a zero-length range survives merging only in isolation: every range of the
    result is an input range or covers at least one byte *)
Lemma merge_go_zero l : forall e, okr e -> Forall okr l ->
  Forall (fun r => In r (e :: l) \/ 0 < rlen r \/ rlen r = rlen e /\ roff r = roff e) (merge_go e l).
Proof.
  induction l as [|n t IH]; intros e Oe F; cbn [merge_go].
  - constructor; [left; left; reflexivity | constructor].
  - inversion F as [|? ? On Ft]; subst.
    rewrite (rend_ok e Oe), (rend_ok n On).
    pose proof Oe as (e0 & e1 & e2). pose proof On as (n0 & n1 & n2).
    destruct (roff n <=? roff e + rlen e) eqn:E.
    + apply Z.leb_le in E.
      set (e' := mkR (roff e) (wrap64 (Z.max (roff n + rlen n) (roff e + rlen e) - roff e))).
      assert (L : rlen e' = Z.max (roff n + rlen n) (roff e + rlen e) - roff e).
      { unfold e'. cbn [rlen]. apply wrap64_small. lia. }
      assert (Oe' : okr e'). { unfold okr. rewrite L. unfold e'. cbn [roff]. lia. }
      specialize (IH e' Oe' Ft). eapply Forall_impl; [|exact IH]. cbn beta.
      intros r [[<- | I] | [P | (P1 & P2)]].
      * destruct (Z.eq_dec (rlen e') 0) as [Z0|NZ]; [|right; left; lia].
        right. right. unfold e' in *. cbn [roff rlen] in *. lia.
      * left. right. right. assumption.
      * right. left. assumption.
      * destruct (Z.eq_dec (rlen e') 0) as [Z0|NZ]; [|right; left; lia].
        right. right. unfold e' in *. cbn [roff rlen] in *. lia.
    + specialize (IH n On Ft). constructor; [left; left; reflexivity|].
      eapply Forall_impl; [|exact IH]. cbn beta.
      intros r [I | [P | (P1 & P2)]]; [left; right; assumption | right; left; assumption |].
      destruct (Z.eq_dec (rlen n) 0) as [Z0|NZ]; [|right; left; lia].
      left. right. left. destruct r, n; cbn in *; subst; f_equal; lia.
Qed.

(** ** Range.Exclude *)

Lemma excl_go_den tes : forall cs ce, 0 <= cs -> cs <= ce -> ce < W64 ->
  Forall okr tes -> separated tes ->
  forall k, in_ranges (excl_go cs ce tes) k <-> (cs <= k < ce /\ ~ in_ranges tes k).
Proof.
  induction tes as [|te t IH]; intros cs ce H0 H1 H2 F S k; cbn [excl_go].
  - rewrite in_ranges_cons, !in_ranges_nil. unfold inr. cbn [roff rlen].
    rewrite wrap64_small by lia. lia.
  - inversion F as [|? ? Ote Ft]; subst. cbn [separated] in S.
    pose proof (sep_lb_separated _ _ S) as St.
    assert (After : in_ranges t k -> roff te + rlen te < k) by (apply sep_lb_in; assumption).
    rewrite (rend_ok te Ote). pose proof Ote as (t0 & t1 & t2).
    rewrite in_ranges_cons.
    destruct (roff te + rlen te <=? cs) eqn:E1.
    { apply Z.leb_le in E1. rewrite (IH cs ce) by assumption. unfold inr. intuition lia. }
    apply Z.leb_gt in E1.
    destruct (ce <=? roff te) eqn:E2.
    { apply Z.leb_le in E2. rewrite (IH cs ce) by assumption. unfold inr. intuition lia. }
    apply Z.leb_gt in E2.
    assert (Pre : in_ranges (if cs <? roff te then [mkR cs (wrap64 (roff te - cs))] else []) k
                  <-> cs <= k < roff te).
    { destruct (cs <? roff te) eqn:E3.
      - apply Z.ltb_lt in E3. rewrite in_ranges_cons, in_ranges_nil. unfold inr. cbn [roff rlen].
        rewrite wrap64_small by lia. lia.
      - apply Z.ltb_ge in E3. rewrite in_ranges_nil. lia. }
    destruct (ce <=? roff te + rlen te) eqn:E3.
    + apply Z.leb_le in E3. rewrite Pre. unfold inr. intuition lia.
    + apply Z.leb_gt in E3. rewrite in_ranges_app, Pre.
      rewrite (IH (roff te + rlen te) ce) by (try assumption; lia).
      split.
      * intros [A | (A & B)].
        -- split; [lia|]. intros [C | C]; [unfold inr in C; lia | apply After in C; lia].
        -- split; [lia|]. intros [C | C]; [unfold inr in C; lia | tauto].
      * intros (A & B). destruct (Z_lt_dec k (roff te)); [left; lia|]. right.
        split; [|tauto]. assert (N : ~ inr te k) by tauto. unfold inr in N. lia.
Qed.

Lemma range_exclude_den r tes k : okr r -> Forall okr tes ->
  in_ranges (range_exclude r tes) k <-> (inr r k /\ ~ in_ranges tes k).
Proof.
  intros Or F. unfold range_exclude. rewrite (rend_ok r Or).
  destruct (ranges_sm_sep tes F) as (S & F').
  destruct Or as (r0 & r1 & r2).
  rewrite excl_go_den by (try assumption; lia).
  rewrite (ranges_sm_den tes k F). unfold inr. tauto.
Qed.

(** ** Range.Intersect *)

Lemma intersect_spec r c : okr r -> okr c ->
  intersect r c = true <-> exists k, inr r k /\ inr c k.
Proof.
  intros Or Oc. unfold intersect. rewrite (rend_ok r Or), (rend_ok c Oc).
  destruct Or as (r0 & r1 & r2), Oc as (c0 & c1 & c2). unfold inr.
  destruct (rlen r =? 0) eqn:E1; [apply Z.eqb_eq in E1|apply Z.eqb_neq in E1]; cbn [orb].
  { split; [discriminate | intros (k & ? & ?); lia]. }
  destruct (rlen c =? 0) eqn:E2; [apply Z.eqb_eq in E2|apply Z.eqb_neq in E2].
  { split; [discriminate | intros (k & ? & ?); lia]. }
  destruct (roff r + rlen r <=? roff c) eqn:E3; [apply Z.leb_le in E3|apply Z.leb_gt in E3].
  { split; [discriminate | intros (k & ? & ?); lia]. }
  destruct (roff c + rlen c <=? roff r) eqn:E4; [apply Z.leb_le in E4|apply Z.leb_gt in E4].
  { split; [discriminate | intros (k & ? & ?); lia]. }
  split; [intros _|reflexivity]. exists (Z.max (roff r) (roff c)). lia.
Qed.

(** ** The merged result does not depend on the order the unstable sort chooses

    Closed intervals in doubled coordinates: [r] covers [2*off, 2*(off+len)].
    Two ranges are merged by MergeRanges iff these closed intervals meet, and a
    separated list is determined by the union of its closed intervals. *)

Definition inr2 (r : range) (k : Z) : Prop := 2 * roff r <= k <= 2 * (roff r + rlen r).
Definition den2 (l : list range) (k : Z) : Prop := Exists (fun r => inr2 r k) l.

Lemma den2_nil k : den2 [] k <-> False.
Proof. unfold den2. split; [intros H; inversion H | tauto]. Qed.
Lemma den2_cons a l k : den2 (a :: l) k <-> inr2 a k \/ den2 l k.
Proof. unfold den2. apply Exists_cons. Qed.
Lemma den2_perm l l' k : Permutation l l' -> den2 l k <-> den2 l' k.
Proof.
  intros P. unfold den2. rewrite !Exists_exists. split; intros (x & I & J); exists x; split; try assumption.
  - eapply Permutation_in; eauto.
  - eapply Permutation_in; [apply Permutation_sym|]; eauto.
Qed.

Lemma merge_go_den2 l : forall e, okr e -> Forall okr l -> sorted_lb (roff e) l ->
  forall k, den2 (merge_go e l) k <-> inr2 e k \/ den2 l k.
Proof.
  induction l as [|n t IH]; intros e Oe F S k; cbn [merge_go].
  - rewrite den2_cons, !den2_nil. tauto.
  - inversion F as [|? ? On Ft]; subst. cbn [sorted_lb] in S. destruct S as (S1 & S2).
    rewrite (rend_ok e Oe), (rend_ok n On).
    pose proof Oe as (e0 & e1 & e2). pose proof On as (n0 & n1 & n2).
    destruct (roff n <=? roff e + rlen e) eqn:E.
    + apply Z.leb_le in E.
      set (e' := mkR (roff e) (wrap64 (Z.max (roff n + rlen n) (roff e + rlen e) - roff e))).
      assert (L : rlen e' = Z.max (roff n + rlen n) (roff e + rlen e) - roff e).
      { unfold e'. cbn [rlen]. apply wrap64_small. lia. }
      assert (Oe' : okr e'). { unfold okr. rewrite L. unfold e'. cbn [roff]. lia. }
      rewrite (IH e' Oe' Ft).
      2:{ unfold e'. cbn [roff]. eapply sorted_lb_weaken; [|exact S2]. lia. }
      assert (X : inr2 e' k <-> inr2 e k \/ inr2 n k).
      { unfold inr2. rewrite L. unfold e'. cbn [roff]. lia. }
      rewrite den2_cons. tauto.
    + apply Z.leb_gt in E. rewrite den2_cons, (IH n On Ft S2), den2_cons. tauto.
Qed.

Lemma sep_lb_den2 lb l k : Forall okr l -> sep_lb lb l -> den2 l k -> 2 * lb + 2 <= k.
Proof.
  revert lb. induction l as [|a t IH]; intros lb F S I.
  - apply den2_nil in I. tauto.
  - inversion F as [|? ? Oa Ft]; subst. cbn [sep_lb] in S. destruct S as (S1 & S2).
    apply den2_cons in I. destruct I as [I | I].
    + unfold inr2 in I. lia.
    + specialize (IH _ Ft S2 I). destruct Oa as (? & ? & ?). lia.
Qed.

Lemma separated_unique l1 : forall l2 lb, sep_lb lb l1 -> sep_lb lb l2 -> Forall okr l1 -> Forall okr l2 ->
  (forall k, den2 l1 k <-> den2 l2 k) -> l1 = l2.
Proof.
  induction l1 as [|a t1 IH]; intros l2 lb S1 S2 F1 F2 H.
  - destruct l2 as [|b t2]; [reflexivity|]. exfalso.
    apply (proj1 (den2_nil (2 * roff b))). apply H. apply den2_cons. left.
    inversion F2 as [|? ? (? & ? & ?) _]; subst. unfold inr2. lia.
  - destruct l2 as [|b t2].
    { exfalso. apply (proj1 (den2_nil (2 * roff a))). apply H. apply den2_cons. left.
      inversion F1 as [|? ? (? & ? & ?) _]; subst. unfold inr2. lia. }
    inversion F1 as [|? ? Oa Ft1]; subst. inversion F2 as [|? ? Ob Ft2]; subst.
    cbn [sep_lb] in S1, S2. destruct S1 as (S1a & S1b), S2 as (S2a & S2b).
    pose proof Oa as (a0 & a1 & a2). pose proof Ob as (b0 & b1 & b2).
    assert (Eo : roff a = roff b).
    { destruct (Z.lt_total (roff a) (roff b)) as [Lt | [E | Gt]]; [exfalso | exact E | exfalso].
      - assert (D : den2 (b :: t2) (2 * roff a)) by (apply H, den2_cons; left; unfold inr2; lia).
        apply den2_cons in D. destruct D as [D | D]; [unfold inr2 in D; lia|].
        pose proof (sep_lb_den2 _ _ _ Ft2 S2b D). lia.
      - assert (D : den2 (a :: t1) (2 * roff b)) by (apply H, den2_cons; left; unfold inr2; lia).
        apply den2_cons in D. destruct D as [D | D]; [unfold inr2 in D; lia|].
        pose proof (sep_lb_den2 _ _ _ Ft1 S1b D). lia. }
    assert (El : rlen a = rlen b).
    { destruct (Z.lt_total (rlen a) (rlen b)) as [Lt | [E | Gt]]; [exfalso | exact E | exfalso].
      - assert (D : den2 (a :: t1) (2 * (roff a + rlen a) + 1)) by (apply H, den2_cons; left; unfold inr2; lia).
        apply den2_cons in D. destruct D as [D | D]; [unfold inr2 in D; lia|].
        pose proof (sep_lb_den2 _ _ _ Ft1 S1b D). lia.
      - assert (D : den2 (b :: t2) (2 * (roff b + rlen b) + 1)) by (apply H, den2_cons; left; unfold inr2; lia).
        apply den2_cons in D. destruct D as [D | D]; [unfold inr2 in D; lia|].
        pose proof (sep_lb_den2 _ _ _ Ft2 S2b D). lia. }
    assert (Eab : a = b) by (destruct a as [ao al], b as [bo bl]; cbn [roff rlen] in Eo, El; subst; reflexivity).
    subst b. f_equal. apply (IH t2 (roff a + rlen a)); try assumption.
    intros k. split; intros D.
    + assert (D' : den2 (a :: t2) k) by (apply H, den2_cons; right; exact D).
      apply den2_cons in D'. destruct D' as [D' | D']; [|exact D'].
      pose proof (sep_lb_den2 _ _ _ Ft1 S1b D). unfold inr2 in D'. lia.
    + assert (D' : den2 (a :: t1) k) by (apply H, den2_cons; right; exact D).
      apply den2_cons in D'. destruct D' as [D' | D']; [|exact D'].
      pose proof (sep_lb_den2 _ _ _ Ft2 S2b D). unfold inr2 in D'. lia.
Qed.

Lemma merge_ranges_den2 l k : Forall okr l -> sorted_off l -> den2 (merge_ranges l) k <-> den2 l k.
Proof.
  destruct l as [|e t]; intros F S; cbn [merge_ranges]; [tauto|].
  inversion F; subst. rewrite merge_go_den2 by assumption. rewrite den2_cons. tauto.
Qed.
Lemma merge_ranges_sep_lb l : Forall okr l -> sorted_off l -> sep_lb (-1) (merge_ranges l).
Proof.
  destruct l as [|e t]; intros F S; cbn [merge_ranges]; [exact I|].
  inversion F as [|? ? (? & ? & ?) Ft]; subst.
  apply merge_go_sep; try assumption; [repeat split; assumption | lia].
Qed.

(** Whatever sorted order Ranges.Sort produces, MergeRanges returns the same list. *)
Lemma merge_sorted_perm_indep l1 l2 : Permutation l1 l2 -> sorted_off l1 -> sorted_off l2 ->
  Forall okr l1 -> merge_ranges l1 = merge_ranges l2.
Proof.
  intros P S1 S2 F1. assert (F2 : Forall okr l2) by (eapply Permutation_Forall; eassumption).
  apply (separated_unique _ _ (-1)).
  - apply merge_ranges_sep_lb; assumption.
  - apply merge_ranges_sep_lb; assumption.
  - apply merge_ranges_sep; assumption.
  - apply merge_ranges_sep; assumption.
  - intros k. rewrite !merge_ranges_den2 by assumption. apply den2_perm. assumption.
Qed.
