(** C03: the hypothesis [acm_unique] of the soundness / completeness / parallelism
    theorems follows from collision-freeness of the abstract hash (an injective
    [extend] and a [pcr0data] that is injective in the 64-bit register), for every
    log, target, settings (MaxACMPolicyLinearDistance a Go int) and GOMAXPROCS; the
    candidates of the two ACM_POLICY_STATUS strategies are pairwise different
    registers; and a closed counter-example: with ONE collision of the extend
    function the model reports a result that does not replay to the target. *)
From CSS Require Import Lib.Base Lib.Cases Model.Comb Proofs.Comb Model.PCR0Search Model.PCR0SearchCases Proofs.PCR0Search.
From Coq Require Import Arith ZifyBool ZifyNat Permutation Sorted.

Definition extend_injective {D} (extend : D -> D -> D) : Prop :=
  forall a b a' b', extend a b = extend a' b' -> a = a' /\ b = b'.
Definition pcr0data_injective {D} (pcr0data : Z -> Z -> D) : Prop :=
  forall tail v1 v2, 0 <= v1 < 2 ^ 64 -> 0 <= v2 < 2 ^ 64 ->
    pcr0data tail v1 = pcr0data tail v2 -> v1 = v2.

(** * Swaps permute *)

Lemma swap_nth_Permutation {A} a b (l : list A) : Permutation l (swap_nth a b l).
Proof.
  destruct (Nat.lt_ge_cases a (length l)) as [Ha|Ha];
    [|rewrite swap_nth_oob by (left; exact Ha); apply Permutation_refl].
  destruct (Nat.lt_ge_cases b (length l)) as [Hb|Hb];
    [|rewrite swap_nth_oob by (right; exact Hb); apply Permutation_refl].
  apply Permutation_nth_error. split; [now rewrite length_swap_nth|].
  exists (fun j => if Nat.eqb j a then b else if Nat.eqb j b then a else j). split.
  - intros x y. 
    destruct (Nat.eqb_spec x a), (Nat.eqb_spec y a), (Nat.eqb_spec x b), (Nat.eqb_spec y b); lia.
  - intro j. rewrite nth_error_swap_nth by assumption.
    destruct (Nat.eqb j a); [reflexivity|]. destruct (Nat.eqb j b); reflexivity.
Qed.

Lemma apply_swaps_Permutation {A} s : forall l : list A, Permutation l (apply_swaps s l).
Proof.
  induction s as [|p s IH]; intro l; [apply Permutation_refl|].
  unfold apply_swaps. cbn [fold_left]. eapply Permutation_trans; [apply swap_nth_Permutation|].
  apply IH.
Qed.

(** * A collision-free extend makes the replay injective on lists of one length *)

Lemma fold_extend_inj {D} (extend : D -> D -> D) : extend_injective extend ->
  forall l1 l2 a1 a2, length l1 = length l2 ->
    fold_left extend l1 a1 = fold_left extend l2 a2 -> a1 = a2 /\ l1 = l2.
Proof.
  intro Hinj. induction l1 as [|x l1 IH]; intros [|y l2] a1 a2 Hlen H; try discriminate.
  - now split.
  - cbn [fold_left] in H. apply IH in H; [|now inversion Hlen].
    destruct H as (Ha & ->). apply Hinj in Ha as (-> & ->). now split.
Qed.

Lemma replay_inj D (pcr_init : Z -> D) (extend : D -> D -> D) loc l1 l2 :
  extend_injective extend -> length l1 = length l2 ->
  replay D pcr_init extend loc l1 = replay D pcr_init extend loc l2 -> l1 = l2.
Proof. intros Hinj Hlen H. now apply (fold_extend_inj extend Hinj l1 l2 _ _ Hlen) in H. Qed.

Lemma perm_cons_same_tail {A} (eq_dec : forall x y : A, {x = y} + {x <> y}) x y (l : list A) :
  Permutation (x :: l) (y :: l) -> x = y.
Proof.
  intro P. rewrite (Permutation_count_occ eq_dec) in P. specialize (P x).
  cbn [count_occ] in P. destruct (eq_dec x x) as [_|N]; [|now elim N].
  destruct (eq_dec y x) as [E|N]; [now symmetry|]. lia.
Qed.


(** * The bit-flip candidates are pairwise different *)

Lemma in_subsets : forall n k lo bs, In bs (subsets k lo n) ->
  length bs = k /\ Inc (lo - 1) (lo + Z.of_nat n - 1) bs.
Proof.
  induction n as [|n IHn]; intros [|k] lo bs H; cbn [subsets In] in H.
  - destruct H as [<-|[]]. split; [reflexivity|exact I].
  - destruct H.
  - destruct H as [<-|[]]. split; [reflexivity|exact I].
  - apply in_app_or in H as [H|H].
    + apply in_map_iff in H as (t & <- & Ht). apply IHn in Ht as (Hl & Hi).
      split; [cbn [length]; now rewrite Hl|]. cbn [Inc]. split; [lia|].
      replace (lo + Z.of_nat (S n) - 1) with (lo + 1 + Z.of_nat n - 1) by lia.
      replace lo with (lo + 1 - 1) at 1 by lia. exact Hi.
    + apply IHn in H as (Hl & Hi). split; [exact Hl|].
      replace (lo + Z.of_nat (S n) - 1) with (lo + 1 + Z.of_nat n - 1) by lia.
      destruct bs as [|x t]; [exact I|]. cbn [Inc] in Hi |- *. destruct Hi as (Hx & Ht).
      split; [lia|exact Ht].
Qed.

Lemma sorted_same_elements_eq : forall l1 l2 : list Z,
  StronglySorted Z.lt l1 -> StronglySorted Z.lt l2 ->
  (forall x, In x l1 <-> In x l2) -> l1 = l2.
Proof.
  induction l1 as [|x1 t1 IH]; intros [|x2 t2] S1 S2 E.
  - reflexivity.
  - exfalso. apply (E x2). now left.
  - exfalso. apply (E x1). now left.
  - inversion S1 as [|? ? S1' F1]; subst. inversion S2 as [|? ? S2' F2]; subst.
    rewrite Forall_forall in F1, F2.
    assert (Ex : x1 = x2).
    { destruct (proj1 (E x1) (or_introl eq_refl)) as [H|H]; [now symmetry|].
      destruct (proj2 (E x2) (or_introl eq_refl)) as [H'|H']; [exact H'|].
      specialize (F1 _ H'). specialize (F2 _ H). lia. }
    subst x2. f_equal. apply IH; try assumption.
    intro x. split; intro H.
    + destruct (proj1 (E x) (or_intror H)) as [H'|H']; [|exact H'].
      specialize (F1 _ H). lia.
    + destruct (proj2 (E x) (or_intror H)) as [H'|H']; [|exact H'].
      specialize (F2 _ H). lia.
Qed.

Lemma length_le_bytes : forall n v, length (le_bytes n v) = n.
Proof. induction n as [|n IH]; intro v; [reflexivity|]. cbn [le_bytes length]. now rewrite IH. Qed.

Lemma le_bytes_is_byte : forall n v, Forall is_byte (le_bytes n v).
Proof.
  induction n as [|n IH]; intro v; [constructor|].
  rewrite le_bytes_div_mod. constructor; [|apply IH].
  unfold is_byte. apply Z.mod_pos_bound. lia.
Qed.

Lemma of_le_inj : forall l1 l2, Forall is_byte l1 -> Forall is_byte l2 ->
  length l1 = length l2 -> of_le l1 = of_le l2 -> l1 = l2.
Proof.
  induction l1 as [|a t1 IH]; intros [|b t2] F1 F2 Hl H; try discriminate; [reflexivity|].
  inversion F1 as [|? ? Ha F1']; subst. inversion F2 as [|? ? Hb F2']; subst.
  cbn [of_le] in H. unfold is_byte in Ha, Hb.
  assert (a = b /\ of_le t1 = of_le t2) as (-> & Ht) by lia.
  f_equal. apply IH; try assumption. now inversion Hl.
Qed.

Lemma of_le_bound : forall l, Forall is_byte l -> 0 <= of_le l < 256 ^ Z.of_nat (length l).
Proof.
  induction l as [|a t IH]; intro F; [cbn; lia|].
  inversion F as [|? ? Ha F']; subst. specialize (IH F'). unfold is_byte in Ha.
  cbn [of_le length]. rewrite Nat2Z.inj_succ, Z.pow_succ_r by lia. lia.
Qed.

Lemma pow256_8 : 256 ^ Z.of_nat 8 = 2 ^ 64.
Proof. reflexivity. Qed.

(** the flips of a candidate succeed on the eight register bytes *)
Lemma flip_reg_bytes reg k bs : In bs (subsets k 0 64) ->
  exists w, flip_bytes bs (le_bytes 8 reg) = Ok w /\ flip_reg reg bs = of_le w /\
    length w = 8%nat /\ Forall is_byte w /\
    forall p, 0 <= p < 64 ->
      Z.testbit (nth (Z.to_nat (p / 8)) w 0) (p mod 8)
      = xorb (Z.testbit (nth (Z.to_nat (p / 8)) (le_bytes 8 reg) 0) (p mod 8)) (memZ p bs).
Proof.
  intro H. apply in_subsets in H as (_ & Hi).
  destruct (Inc_lt_all _ _ _ Hi) as (F & ND).
  destruct (flip_bytes_spec bs (le_bytes 8 reg) ND) as (w & Fw & Lw & Bw & Nw).
  { rewrite length_le_bytes. eapply Forall_impl; [|exact F]. cbn. lia. }
  exists w. split; [exact Fw|]. split; [unfold flip_reg; now rewrite Fw|].
  split; [now rewrite Lw, length_le_bytes|]. split; [apply Bw, le_bytes_is_byte|].
  intros p Hp.
  pose proof (Z.div_mod p 8 ltac:(lia)) as DM. pose proof (Z.mod_pos_bound p 8 ltac:(lia)) as MB.
  rewrite Nw; [|rewrite length_le_bytes; lia|lia].
  replace (p mod 8 <? 8) with true by lia. cbn [andb].
  replace (8 * Z.of_nat (Z.to_nat (p / 8)) + p mod 8) with p by lia. reflexivity.
Qed.

Lemma flip_reg_range reg k bs : In bs (subsets k 0 64) -> 0 <= flip_reg reg bs < 2 ^ 64.
Proof.
  intro H. destruct (flip_reg_bytes reg k bs H) as (w & _ & -> & Lw & Bw & _).
  rewrite <- pow256_8, <- Lw. now apply of_le_bound.
Qed.

Lemma xorb_cancel_l : forall t a b, xorb t a = xorb t b -> a = b.
Proof. intros [|] [|] [|]; cbn; congruence. Qed.

Lemma flip_reg_inj reg k1 b1 k2 b2 :
  In b1 (subsets k1 0 64) -> In b2 (subsets k2 0 64) ->
  flip_reg reg b1 = flip_reg reg b2 -> b1 = b2.
Proof.
  intros H1 H2 E.
  destruct (flip_reg_bytes reg k1 b1 H1) as (w1 & _ & E1 & L1 & B1 & N1).
  destruct (flip_reg_bytes reg k2 b2 H2) as (w2 & _ & E2 & L2 & B2 & N2).
  rewrite E1, E2 in E. apply of_le_inj in E; try assumption; [|congruence]. subst w2.
  apply in_subsets in H1 as (_ & I1). apply in_subsets in H2 as (_ & I2).
  pose proof (proj1 (Inc_iff _ _ _) I1) as (S1 & R1).
  pose proof (proj1 (Inc_iff _ _ _) I2) as (S2 & R2).
  apply sorted_same_elements_eq; try assumption.
  rewrite Forall_forall in R1, R2.
  assert (M : forall p, 0 <= p < 64 -> memZ p b1 = memZ p b2).
  { intros p Hp. specialize (N1 p Hp). specialize (N2 p Hp). rewrite N1 in N2.
    exact (xorb_cancel_l _ _ _ N2). }
  intro x. split; intro Hx.
  - specialize (R1 _ Hx). apply memZ_In. rewrite <- M by lia. now apply memZ_In.
  - specialize (R2 _ Hx). apply memZ_In. rewrite M by lia. now apply memZ_In.
Qed.


(** * The linear candidates are pairwise different *)

Lemma mod_sub_inj M a d1 d2 : 0 < M -> 0 <= d1 < M -> 0 <= d2 < M ->
  (a - d1) mod M = (a - d2) mod M -> d1 = d2.
Proof.
  intros HM H1 H2 E.
  pose proof (Z.div_mod (a - d1) M ltac:(lia)) as D1.
  pose proof (Z.div_mod (a - d2) M ltac:(lia)) as D2.
  rewrite E in D1.
  assert (K : d2 - d1 = M * ((a - d1) / M - (a - d2) / M)) by lia.
  set (k := (a - d1) / M - (a - d2) / M) in *.
  assert (k = 0) by nia. lia.
Qed.

Lemma W64_pow : W64 = 2 ^ 64.
Proof. reflexivity. Qed.

Lemma wrap64_range z : 0 <= wrap64 z < 2 ^ 64.
Proof.
  rewrite wrap64_mod, <- W64_pow. apply Z.mod_pos_bound. unfold W64. lia.
Qed.

Lemma wrap64_sub_inj reg d1 d2 L : L <= 2 ^ 64 -> 0 <= d1 < L -> 0 <= d2 < L ->
  wrap64 (reg - d1) = wrap64 (reg - d2) -> d1 = d2.
Proof.
  rewrite <- W64_pow, !wrap64_mod. intros HL H1 H2 E.
  apply (mod_sub_inj W64 reg); try lia; try exact E.
Qed.

(** * [acm_unique] follows from collision-freeness *)

Section Unique.
  Variable D : Type.
  Variable deqb : D -> D -> bool.
  Hypothesis deqb_spec : forall a b, deqb a b = true <-> a = b.
  Variable pcr_init : Z -> D.
  Variable extend : D -> D -> D.
  Variable pcr0data : Z -> Z -> D.
  Variable st : settings.
  Variable target : D.
  Hypothesis ext_inj : extend_injective extend.
  Hypothesis data_inj : pcr0data_injective pcr0data.

  Lemma D_eq_dec : forall x y : D, {x = y} + {x <> y}.
  Proof.
    intros x y. destruct (deqb x y) eqn:E.
    - left. now apply deqb_spec.
    - right. intro H. apply deqb_spec in H. congruence.
  Qed.

  (** two register values that verify for the same measurements are equal *)
  Lemma acm_try_unique loc tail m ms v1 v2 :
    0 <= v1 < 2 ^ 64 -> 0 <= v2 < 2 ^ 64 ->
    acm_try D deqb pcr_init extend pcr0data st target loc tail (m :: ms) v1 <> None ->
    acm_try D deqb pcr_init extend pcr0data st target loc tail (m :: ms) v2 <> None ->
    v1 = v2.
  Proof.
    intros R1 R2 H1 H2. unfold acm_try in H1, H2. cbn [with_head] in H1, H2.
    destruct (order_search D deqb pcr_init extend st target loc (pcr0data tail v1 :: ms)) as [s1|] eqn:E1;
      [|now elim H1].
    destruct (order_search D deqb pcr_init extend st target loc (pcr0data tail v2 :: ms)) as [s2|] eqn:E2;
      [|now elim H2].
    apply (order_sound D deqb pcr_init extend st target deqb_spec) in E1 as (_ & _ & P1).
    apply (order_sound D deqb pcr_init extend st target deqb_spec) in E2 as (_ & _ & P2).
    rewrite <- P2 in P1. apply replay_inj in P1; [|exact ext_inj|].
    2:{ rewrite !length_apply_swaps. reflexivity. }
    assert (P : Permutation (pcr0data tail v1 :: ms) (pcr0data tail v2 :: ms)).
    { eapply Permutation_trans; [apply (apply_swaps_Permutation s1)|]. rewrite P1.
      apply Permutation_sym, apply_swaps_Permutation. }
    apply (perm_cons_same_tail D_eq_dec) in P. now apply data_inj in P.
  Qed.

  Theorem acm_unique_cf (log : list (meas D)) cf :
    lin_limit st <= 2 ^ 64 ->
    acm_unique D deqb pcr_init extend pcr0data st log target cf.
  Proof.
    intros HL loc comb m en tail reg _ _. cbv zeta. cbn [map]. split.
    - intros d1 d2 Hd1 Hd2 H1 H2.
      apply lin_decs_exact in Hd1. apply lin_decs_exact in Hd2.
      apply (wrap64_sub_inj reg d1 d2 (lin_limit st)); try assumption.
      eapply acm_try_unique; try eassumption; apply wrap64_range.
    - intros k1 b1 k2 b2 _ _ Hb1 Hb2 H1 H2.
      apply (flip_reg_inj reg k1 b1 k2 b2 Hb1 Hb2).
      eapply acm_try_unique; try eassumption; eapply flip_reg_range; eassumption.
  Qed.
End Unique.


(** closed form for Props/C03.v *)
Theorem acm_unique_collision_free D (deqb : D -> D -> bool) :
  (forall a b, deqb a b = true <-> a = b) ->
  forall (pcr_init : Z -> D) (extend : D -> D -> D) (pcr0data : Z -> Z -> D) st
         (log : list (meas D)) (target : D) cf,
  extend_injective extend -> pcr0data_injective pcr0data -> lin_limit st <= 2 ^ 64 ->
  acm_unique D deqb pcr_init extend pcr0data st log target cf.
Proof.
  intros Hd pcr_init extend pcr0data st log target cf He Hp HL.
  exact (acm_unique_cf D deqb Hd pcr_init extend pcr0data st target He Hp log cf HL).
Qed.

Theorem sound_cf D (deqb : D -> D -> bool) :
  (forall a b, deqb a b = true <-> a = b) ->
  forall (pcr_init : Z -> D) (extend : D -> D -> D) (pcr0data : Z -> Z -> D) st
         (log : list (meas D)) (target : D) cf r,
  extend_injective extend -> pcr0data_injective pcr0data -> lin_limit st <= 2 ^ 64 ->
  In (FSome r) (outcomes D deqb pcr_init extend pcr0data st log target cf) ->
  replay_result D pcr_init extend pcr0data log r = target /\ (r_loc r = 0 \/ r_loc r = 3).
Proof.
  intros Hd pcr_init extend pcr0data st log target cf r He Hp HL.
  apply (sound D deqb Hd). now apply acm_unique_collision_free.
Qed.

Theorem complete_cf D (deqb : D -> D -> bool) :
  (forall a b, deqb a b = true <-> a = b) ->
  forall (pcr_init : Z -> D) (extend : D -> D -> D) (pcr0data : Z -> Z -> D) st
         (log : list (meas D)) (target : D) cf,
  extend_injective extend -> pcr0data_injective pcr0data -> lin_limit st <= 2 ^ 64 ->
  1 <= cf -> no_overflow D st log ->
  reachable D pcr_init extend pcr0data st log target (prop_decs st) ->
  forall o, In o (outcomes D deqb pcr_init extend pcr0data st log target cf) ->
    exists r, o = FSome r.
Proof.
  intros Hd pcr_init extend pcr0data st log target cf He Hp HL Hcf Hno.
  apply (complete D deqb Hd); try assumption. now apply acm_unique_collision_free.
Qed.

Theorem parallelism_cf D (deqb : D -> D -> bool) :
  (forall a b, deqb a b = true <-> a = b) ->
  forall (pcr_init : Z -> D) (extend : D -> D -> D) (pcr0data : Z -> Z -> D) st
         (log : list (meas D)) (target : D) cf1 cf2 r,
  extend_injective extend -> pcr0data_injective pcr0data -> lin_limit st <= 2 ^ 64 ->
  1 <= cf1 -> 1 <= cf2 -> no_overflow D st log ->
  In (FSome r) (outcomes D deqb pcr_init extend pcr0data st log target cf1) ->
  forall o, In o (outcomes D deqb pcr_init extend pcr0data st log target cf2) ->
    exists r', o = FSome r'.
Proof.
  intros Hd pcr_init extend pcr0data st log target cf1 cf2 r He Hp HL H1 H2 Hno.
  apply (parallelism D deqb Hd); try assumption. now apply acm_unique_collision_free.
Qed.

Theorem parallelism_none_cf D (deqb : D -> D -> bool) :
  (forall a b, deqb a b = true <-> a = b) ->
  forall (pcr_init : Z -> D) (extend : D -> D -> D) (pcr0data : Z -> Z -> D) st
         (log : list (meas D)) (target : D) cf1 cf2,
  extend_injective extend -> pcr0data_injective pcr0data -> lin_limit st <= 2 ^ 64 ->
  1 <= cf1 -> 1 <= cf2 -> no_overflow D st log ->
  outcomes D deqb pcr_init extend pcr0data st log target cf1 = [FNone] ->
  outcomes D deqb pcr_init extend pcr0data st log target cf2 = [FNone].
Proof.
  intros Hd pcr_init extend pcr0data st log target cf1 cf2 He Hp HL H1 H2 Hno.
  apply (parallelism_none D deqb Hd); try assumption. now apply acm_unique_collision_free.
Qed.

(** the free-term instance of the correspondence check is collision-free *)
Lemma term_extend_injective : extend_injective Ext.
Proof. intros a b a' b' H. inversion H. now split. Qed.

Lemma term_pcr0data_injective : pcr0data_injective DataH.
Proof. intros tail v1 v2 _ _ H. inversion H. reflexivity. Qed.

(** * One collision is enough to make a reported result unsound *)
Definition P_cw (i : Z) : term := Ext (Ext (Init 0) (DataH 1 (R0 - i))) (Atom 2).
Definition tgt_cw : term := Ext (Ext (Ext (Init 0) (DataH 1 R0)) (Atom 1)) (Atom 2).
Definition ext_cw (p d : term) : term :=
  if term_eqb d (Atom 1) && (term_eqb p (P_cw 1) || term_eqb p (P_cw 2)) then tgt_cw else Ext p d.
Definition st_cw := mkSettings 1 1 false 0 3.
Definition log_cw : list tmeas := [MD 1 R0; MP (Atom 1); MP (Atom 2)].
Definition r_cw : result := mkResult 0 (Some (R0 - 1)) [] [].


Lemma sound_collision_witness :
  In (FSome r_cw) (outcomes term term_eqb Init ext_cw DataH st_cw log_cw tgt_cw 3) /\
  replay_result term Init ext_cw DataH log_cw r_cw <> tgt_cw /\
  ~ extend_injective ext_cw /\
  (exists sw', replay_result term Init ext_cw DataH log_cw (mkResult 0 (Some (R0 - 1)) [] sw') = tgt_cw) /\
  In FNone (outcomes term term_eqb Init ext_cw DataH st_cw log_cw tgt_cw 3).
Proof.
  split.
  { assert (E : existsb (fres_eqb (FSome r_cw))
                  (outcomes term term_eqb Init ext_cw DataH st_cw log_cw tgt_cw 3) = true)
      by (vm_compute; reflexivity).
    apply existsb_exists in E as (x & Hin & Hx).
    destruct x as [|r| |]; try discriminate.
    assert (r = r_cw); [|now subst].
    destruct r as [l rg ds sw]. unfold fres_eqb, result_eqb, r_cw in Hx. cbn [r_loc r_reg r_disabled r_swaps] in Hx.
    apply andb_prop in Hx as (Hx & Hsw). apply andb_prop in Hx as (Hx & Hds). apply andb_prop in Hx as (Hl & Hrg).
    apply Z.eqb_eq in Hl. subst l.
    destruct ds; [|discriminate]. destruct sw; [|discriminate].
    destruct rg as [v|]; [|discriminate]. cbn [optZ_eqb] in Hrg. apply Z.eqb_eq in Hrg. now subst v. }
  split.
  { intro H. apply term_eqb_spec in H. revert H. vm_compute. discriminate. }
  split.
  { intro Hinj. assert (E : ext_cw (P_cw 1) (Atom 1) = ext_cw (P_cw 2) (Atom 1)) by (vm_compute; reflexivity).
    apply Hinj in E as (E & _). revert E. vm_compute. discriminate. }
  split.
  { exists [(1, 2)%nat]. vm_compute. reflexivity. }
  { assert (E : existsb (fres_eqb FNone)
                  (outcomes term term_eqb Init ext_cw DataH st_cw log_cw tgt_cw 3) = true)
      by (vm_compute; reflexivity).
    apply existsb_exists in E as (x & Hin & Hx). destruct x; try discriminate. exact Hin. }
Qed.

(** completeness at the strength of the property text ("fewer than the configured
    number of measurements dropped") for every log that has at least
    MaxDisabledMeasurements PCR0 measurements: there [in_reach] is no restriction *)
Theorem complete_long_log D (deqb : D -> D -> bool) :
  (forall a b, deqb a b = true <-> a = b) ->
  forall (pcr_init : Z -> D) (extend : D -> D -> D) (pcr0data : Z -> Z -> D) st
         (log : list (meas D)) (target : D) cf,
  extend_injective extend -> pcr0data_injective pcr0data -> lin_limit st <= 2 ^ 64 ->
  1 <= cf -> no_overflow D st log ->
  max_disabled st <= Z.of_nat (length log) ->
  (exists loc c reg s, (loc = 0 \/ loc = 3) /\
     Valid (Z.of_nat (length log)) c /\ Z.of_nat (length c) < max_disabled st /\
     space D pcr_init extend pcr0data st log target (prop_decs st) loc c reg s) ->
  forall o, In o (outcomes D deqb pcr_init extend pcr0data st log target cf) ->
    exists r, o = FSome r.
Proof.
  intros Hd pcr_init extend pcr0data st log target cf He Hp HL Hcf Hno Hlen (loc & c & reg & s & Hloc & Hv & Hk & Hs).
  apply (complete_cf D deqb Hd pcr_init extend pcr0data st log target cf He Hp HL Hcf Hno).
  exists loc, c, reg, s. split; [exact Hloc|]. split; [|exact Hs].
  split; [exact Hv|]. unfold kmax, nlog. lia.
Qed.

Print Assumptions acm_unique_collision_free.
Print Assumptions sound_cf.
Print Assumptions complete_cf.
Print Assumptions parallelism_cf.
Print Assumptions parallelism_none_cf.
Print Assumptions flip_reg_inj.
Print Assumptions sound_collision_witness.

Print Assumptions complete_long_log.
