(** Proofs about Model/PCR0Search.v (property C03). *)
From CSS Require Import Lib.Base Model.Comb Proofs.Comb Model.PCR0Search.
From Coq Require Import Arith ZifyBool ZifyNat.


(** * Lists *)

Lemma nth_error_ext {A} (l1 l2 : list A) :
  (forall i, nth_error l1 i = nth_error l2 i) -> l1 = l2.
Proof.
  revert l2. induction l1 as [|x l1 IH]; intros [|y l2] H; try reflexivity.
  - specialize (H O). discriminate.
  - specialize (H O). discriminate.
  - pose proof (H O) as H0. cbn in H0. inversion H0; subst. f_equal.
    apply IH. intro i. exact (H (S i)).
Qed.

Lemma length_set_nth {A} (l : list A) : forall i x, length (set_nth i x l) = length l.
Proof. induction l as [|y l IH]; intros [|i] x; cbn; auto. Qed.

Lemma nth_error_set_nth {A} (l : list A) : forall i x j,
  nth_error (set_nth i x l) j =
  if Nat.eqb j i then (if (i <? length l)%nat then Some x else None) else nth_error l j.
Proof.
  induction l as [|y l IH]; intros [|i] x [|j]; cbn; try reflexivity.
  - destruct (Nat.eqb j i); reflexivity.
  - rewrite IH. destruct (Nat.eqb j i); [|reflexivity].
    change (S i <? S (length l))%nat with (i <? length l)%nat. reflexivity.
Qed.

Lemma set_nth_same {A} (l : list A) : forall i x, nth_error l i = Some x -> set_nth i x l = l.
Proof.
  induction l as [|y l IH]; intros [|i] x H; cbn in *; try discriminate.
  - inversion H; reflexivity.
  - f_equal. auto.
Qed.

Lemma map_set_nth {A B} (f : A -> B) (l : list A) : forall i x,
  map f (set_nth i x l) = set_nth i (f x) (map f l).
Proof. induction l as [|y l IH]; intros [|i] x; cbn; try reflexivity. f_equal. apply IH. Qed.

Lemma length_swap_nth {A} a b (l : list A) : length (swap_nth a b l) = length l.
Proof.
  unfold swap_nth. destruct (nth_error l a); [|reflexivity]. destruct (nth_error l b); [|reflexivity].
  now rewrite !length_set_nth.
Qed.

Lemma nth_error_swap_nth {A} a b (l : list A) j :
  (a < length l)%nat -> (b < length l)%nat ->
  nth_error (swap_nth a b l) j =
  if Nat.eqb j a then nth_error l b else if Nat.eqb j b then nth_error l a else nth_error l j.
Proof.
  intros Ha Hb. unfold swap_nth.
  destruct (nth_error l a) as [x|] eqn:Ea; [|apply nth_error_None in Ea; lia].
  destruct (nth_error l b) as [y|] eqn:Eb; [|apply nth_error_None in Eb; lia].
  rewrite !nth_error_set_nth, length_set_nth.
  destruct (Nat.eqb j a) eqn:Eja.
  - apply Nat.ltb_lt in Ha. now rewrite Ha.
  - destruct (Nat.eqb j b) eqn:Ejb; [|reflexivity].
    apply Nat.ltb_lt in Hb. now rewrite Hb.
Qed.

Lemma swap_nth_oob {A} a b (l : list A) :
  (length l <= a)%nat \/ (length l <= b)%nat -> swap_nth a b l = l.
Proof.
  intros [H|H]; unfold swap_nth.
  - apply nth_error_None in H. now rewrite H.
  - apply nth_error_None in H. rewrite H. now destruct (nth_error l a).
Qed.

Lemma map_swap_nth {A B} (f : A -> B) a b (l : list A) :
  map f (swap_nth a b l) = swap_nth a b (map f l).
Proof.
  unfold swap_nth. rewrite !nth_error_map.
  destruct (nth_error l a); cbn; [|reflexivity]. destruct (nth_error l b); cbn; [|reflexivity].
  now rewrite !map_set_nth.
Qed.

Lemma swap_nth_comm {A} a b c d (l : list A) :
  (a < length l)%nat -> (b < length l)%nat -> (c < length l)%nat -> (d < length l)%nat ->
  a <> c -> a <> d -> b <> c -> b <> d ->
  swap_nth a b (swap_nth c d l) = swap_nth c d (swap_nth a b l).
Proof.
  intros. apply nth_error_ext. intro j.
  rewrite !nth_error_swap_nth by (rewrite ?length_swap_nth; assumption).
  destruct (Nat.eqb_spec j a), (Nat.eqb_spec j b), (Nat.eqb_spec j c), (Nat.eqb_spec j d);
    subst; try congruence;
    repeat match goal with
           | |- context [Nat.eqb ?x ?y] => destruct (Nat.eqb_spec x y); try congruence
           end.
Qed.

Lemma apply_swaps_app {A} s1 s2 (l : list A) :
  apply_swaps (s1 ++ s2) l = apply_swaps s2 (apply_swaps s1 l).
Proof. unfold apply_swaps. apply fold_left_app. Qed.

Lemma length_apply_swaps {A} s : forall l : list A, length (apply_swaps s l) = length l.
Proof.
  induction s as [|p s IH]; intro l; [reflexivity|].
  cbn. change (fold_left _ s ?x) with (apply_swaps s x). now rewrite IH, length_swap_nth.
Qed.

Lemma map_apply_swaps {A B} (f : A -> B) s : forall l : list A,
  map f (apply_swaps s l) = apply_swaps s (map f l).
Proof.
  induction s as [|p s IH]; intro l; [reflexivity|].
  cbn. change (fold_left _ s ?x) with (apply_swaps s x). now rewrite IH, map_swap_nth.
Qed.

(** the positions a list of swaps touches *)
Definition swap_idx (s : swaps) : list nat := flat_map (fun p => [fst p; snd p]) s.

Lemma swap_apply_comm {A} a b s : forall l : list A,
  (a < length l)%nat -> (b < length l)%nat ->
  Forall (fun i => (i < length l)%nat) (swap_idx s) ->
  ~ In a (swap_idx s) -> ~ In b (swap_idx s) ->
  swap_nth a b (apply_swaps s l) = apply_swaps s (swap_nth a b l).
Proof.
  induction s as [|[c d] s IH]; intros l Ha Hb Hr Hna Hnb; [reflexivity|].
  cbn [apply_swaps fold_left fst snd]. change (fold_left _ s ?x) with (apply_swaps s x).
  cbn [swap_idx flat_map app] in *. change (flat_map _ s) with (swap_idx s) in *.
  inversion Hr as [|? ? Hc Hr']; subst. inversion Hr' as [|? ? Hd Hr'']; subst.
  rewrite IH.
  - f_equal. apply swap_nth_comm; auto; intro; subst; cbn in *; tauto.
  - now rewrite length_swap_nth.
  - now rewrite length_swap_nth.
  - rewrite length_swap_nth. exact Hr''.
  - cbn in Hna. tauto.
  - cbn in Hnb. tauto.
Qed.

Lemma first_some_Some {A B} (f : A -> option B) l y :
  first_some f l = Some y -> exists x, In x l /\ f x = Some y.
Proof.
  induction l as [|x l IH]; cbn; [discriminate|].
  destruct (f x) eqn:E.
  - intro H; inversion H; subst. eauto.
  - intro H. destruct (IH H) as (x' & Hi & Hf). eauto.
Qed.

Lemma first_some_None {A B} (f : A -> option B) l :
  first_some f l = None <-> forall x, In x l -> f x = None.
Proof.
  induction l as [|x l IH]; cbn; [tauto|].
  destruct (f x) eqn:E.
  - split; [discriminate|]. intro H. rewrite <- E. apply H. now left.
  - rewrite IH. split; [intros H y [->|Hy]; auto|intros H y Hy; apply H; now right].
Qed.

Lemma first_some_not_None {A B} (f : A -> option B) l x :
  In x l -> f x <> None -> first_some f l <> None.
Proof. intros Hi Hf H. rewrite first_some_None in H. now apply Hf, H. Qed.

Lemma in_all_pairs n a b : In (a, b) (all_pairs n) <-> (a < b < n)%nat.
Proof.
  unfold all_pairs. rewrite in_flat_map. split.
  - intros (x & Hx & Hp). apply in_map_iff in Hp as (y & E & Hy). inversion E; subst.
    apply in_seq in Hx. apply in_seq in Hy. lia.
  - intros H. exists a. split; [apply in_seq; lia|].
    apply in_map_iff. exists b. split; [reflexivity|]. apply in_seq. lia.
Qed.

(** the 2-combination iterator with maxValue n-1 walks [all_pairs n] *)
Lemma next_pair m a b : 0 <= a -> a < b -> b <= m ->
  next m [a; b] = if b + 1 <=? m then (true, [a; b + 1])
                  else if a + 1 <=? m - 1 then (true, [a + 1; a + 2])
                  else (false, [a + 1; b + 1]).
Proof.
  intros. unfold next. cbn [rev app next_rev hd].
  replace (m - 0) with m by lia.
  destruct (b + 1 <=? m) eqn:E1; [reflexivity|].
  replace (0 + 1) with 1 by lia.
  destruct (a + 1 <=? m - 1) eqn:E2; cbn; [|reflexivity].
  replace (a + 1 + 1) with (a + 2) by lia. reflexivity.
Qed.

(** * The index translation of executeRecursive *)

(** position of the [r]-th (0-based) not-yet-swapped element *)
Fixpoint nth_unset (r : nat) (sw : list bool) : nat :=
  match sw with
  | [] => O
  | true :: t => S (nth_unset r t)
  | false :: t => match r with O => O | S r' => S (nth_unset r' t) end
  end.

Lemma shift_idx_lt sw : forall idx a, (a < idx)%nat -> shift_idx sw idx a = a.
Proof.
  induction sw as [|s t IH]; intros idx a H; cbn; [reflexivity|].
  replace (idx <=? a)%nat with false by (symmetry; apply Nat.leb_gt; lia).
  rewrite andb_false_r. apply IH. lia.
Qed.

Lemma shift_idx_spec sw : forall idx a, (idx <= a)%nat -> (a - idx < count_false sw)%nat ->
  shift_idx sw idx a = (idx + nth_unset (a - idx) sw)%nat.
Proof.
  unfold count_false. induction sw as [|s t IH]; intros idx a Hle Hc; cbn in *; [lia|].
  replace (idx <=? a)%nat with true by (symmetry; apply Nat.leb_le; lia).
  destruct s; cbn in *.
  - rewrite IH by lia. replace (S a - S idx)%nat with (a - idx)%nat by lia. lia.
  - destruct (a - idx)%nat as [|r] eqn:E.
    + rewrite shift_idx_lt by lia. lia.
    + rewrite IH by lia. replace (a - S idx)%nat with r by lia. lia.
Qed.

Lemma shift_idx_0 sw a : (a < count_false sw)%nat -> shift_idx sw 0 a = nth_unset a sw.
Proof. intro H. rewrite shift_idx_spec by lia. now rewrite Nat.sub_0_r. Qed.

Lemma nth_unset_spec sw : forall r, (r < count_false sw)%nat ->
  (nth_unset r sw < length sw)%nat /\ nth_error sw (nth_unset r sw) = Some false /\
  count_false (firstn (nth_unset r sw) sw) = r.
Proof.
  unfold count_false. induction sw as [|s t IH]; intros r H; cbn in *; [lia|].
  destruct s; cbn in *.
  - destruct (IH r H) as (H1 & H2 & H3). repeat split; [lia|exact H2|exact H3].
  - destruct r as [|r]; cbn; [repeat split; lia|].
    destruct (IH r ltac:(lia)) as (H1 & H2 & H3). repeat split; [lia|exact H2|cbn; lia].
Qed.

Lemma nth_unset_mono sw : forall r1 r2, (r1 < r2)%nat -> (r2 < count_false sw)%nat ->
  (nth_unset r1 sw < nth_unset r2 sw)%nat.
Proof.
  unfold count_false. induction sw as [|s t IH]; intros r1 r2 H12 H; cbn in *; [lia|].
  destruct s; cbn in *.
  - apply -> Nat.succ_lt_mono. now apply IH.
  - destruct r2 as [|r2]; [lia|]. destruct r1 as [|r1]; [lia|].
    apply -> Nat.succ_lt_mono. apply IH; lia.
Qed.

(** every unset position is the [r]-th unset one for its rank [r] *)
Lemma nth_unset_rank sw : forall x, nth_error sw x = Some false ->
  (count_false (firstn x sw) < count_false sw)%nat /\
  nth_unset (count_false (firstn x sw)) sw = x.
Proof.
  unfold count_false. induction sw as [|s t IH]; intros [|x] H; cbn in *; try discriminate.
  - inversion H; subst. cbn. split; [lia|reflexivity].
  - destruct (IH x H) as (H1 & H2). destruct s; cbn; split; try lia; now rewrite H2.
Qed.

Lemma count_false_firstn_mono sw : forall x y, (x < y)%nat -> nth_error sw x = Some false ->
  (count_false (firstn x sw) < count_false (firstn y sw))%nat.
Proof.
  unfold count_false. induction sw as [|s t IH]; intros [|x] [|y] Hxy H; cbn in *; try discriminate; try lia.
  - inversion H; subst. cbn. lia.
  - specialize (IH x y ltac:(lia) H). destruct s; cbn; lia.
Qed.

Lemma count_false_firstn_le sw x : (count_false (firstn x sw) <= count_false sw)%nat.
Proof.
  unfold count_false. revert x. induction sw as [|s t IH]; intros [|x]; cbn; try lia.
  specialize (IH x). destruct s; cbn; lia.
Qed.

Lemma count_false_set_true sw : forall x, nth_error sw x = Some false ->
  count_false (set_nth x true sw) = (count_false sw - 1)%nat /\ (1 <= count_false sw)%nat.
Proof.
  unfold count_false. induction sw as [|s t IH]; intros [|x] H; cbn in *; try discriminate.
  - inversion H; subst. cbn. lia.
  - destruct (IH x H). destruct s; cbn; lia.
Qed.

Lemma count_false_repeat n : count_false (repeat false n) = n.
Proof. unfold count_false. induction n; cbn; lia. Qed.

Lemma nth_error_repeat {A} (x : A) n i : (i < n)%nat -> nth_error (repeat x n) i = Some x.
Proof. revert i; induction n; intros [|i] H; cbn; try lia; auto. apply IHn. lia. Qed.

Lemma NoDup_app_intro {A} (l1 l2 : list A) :
  NoDup l1 -> NoDup l2 -> (forall x, In x l1 -> In x l2 -> False) -> NoDup (l1 ++ l2).
Proof.
  induction l1 as [|x l1 IH]; intros H1 H2 H; cbn; [exact H2|].
  inversion H1; subst. constructor.
  - rewrite in_app_iff. intros [Hx|Hx]; [tauto|]. apply (H x); [now left|exact Hx].
  - apply IH; auto. intros y Hy. apply H. now right.
Qed.

Lemma swap_idx_app s1 s2 : swap_idx (s1 ++ s2) = swap_idx s1 ++ swap_idx s2.
Proof. unfold swap_idx. apply flat_map_app. Qed.

(** [s] is a list of swaps on positions below [n] that are all distinct and
    not marked in [sw]; every pair is written (smaller, larger) *)
Definition swaps_wf (n : nat) (sw : list bool) (s : swaps) : Prop :=
  NoDup (swap_idx s) /\
  Forall (fun i => (i < n)%nat /\ nth_error sw i = Some false) (swap_idx s) /\
  Forall (fun p => (fst p < snd p)%nat) s.

Lemma swaps_wf_nil n sw : swaps_wf n sw [].
Proof. repeat split; constructor. Qed.

(** * select / positions / idxShifts *)

Fixpoint positions_from (i : nat) (fl : list bool) : list nat :=
  match fl with
  | [] => []
  | b :: t => if b then i :: positions_from (S i) t else positions_from (S i) t
  end.
Definition positions (fl : list bool) : list nat := positions_from 0 fl.

Lemma positions_from_spec fl : forall i p, In p (positions_from i fl) ->
  (i <= p)%nat /\ nth_error fl (p - i) = Some true.
Proof.
  induction fl as [|b t IH]; intros i p H; cbn in H; [tauto|].
  destruct b.
  - destruct H as [<-|H].
    + split; [lia|]. now rewrite Nat.sub_diag.
    + destruct (IH _ _ H) as (H1 & H2). split; [lia|].
      replace (p - i)%nat with (S (p - S i)) by lia. exact H2.
  - destruct (IH _ _ H) as (H1 & H2). split; [lia|].
    replace (p - i)%nat with (S (p - S i)) by lia. exact H2.
Qed.

Lemma positions_from_NoDup fl : forall i, NoDup (positions_from i fl).
Proof.
  induction fl as [|b t IH]; intro i; cbn; [constructor|].
  destruct b; [|apply IH]. constructor; [|apply IH].
  intro H. apply positions_from_spec in H. lia.
Qed.

Lemma length_select {A} fl : forall (l : list A), length fl = length l ->
  length (select fl l) = length (positions_from 0 fl).
Proof.
  assert (G : forall (l : list A) i, length fl = length l ->
              length (select fl l) = length (positions_from i fl)).
  { induction fl as [|b t IH]; intros [|x l] i H; cbn in *; try discriminate; [reflexivity|].
    destruct b; cbn; [f_equal|]; apply IH; lia. }
  intros l H. now apply G.
Qed.

Lemma nth_error_select {A} fl : forall (l : list A) i j, length fl = length l ->
  nth_error (select fl l) j =
  match nth_error (positions_from i fl) j with
  | Some p => nth_error l (p - i)
  | None => None
  end.
Proof.
  induction fl as [|b t IH]; intros [|x l] i j H; cbn in *; try discriminate.
  - now destruct j.
  - destruct b.
    + destruct j as [|j]; cbn.
      * now rewrite Nat.sub_diag.
      * rewrite (IH l (S i) j) by lia.
        destruct (nth_error (positions_from (S i) t) j) as [p|] eqn:E; [|reflexivity].
        apply nth_error_In, positions_from_spec in E.
        replace (p - i)%nat with (S (p - S i)) by lia. reflexivity.
    + rewrite (IH l (S i) j) by lia.
      destruct (nth_error (positions_from (S i) t) j) as [p|] eqn:E; [|reflexivity].
      apply nth_error_In, positions_from_spec in E.
      replace (p - i)%nat with (S (p - S i)) by lia. reflexivity.
Qed.

Lemma map_select {A B} (f : A -> B) fl : forall l, map f (select fl l) = select fl (map f l).
Proof.
  induction fl as [|b t IH]; intros [|x l]; cbn; try reflexivity.
  destruct b; cbn; [f_equal|]; apply IH.
Qed.

Lemma filter_select {A} (f : A -> bool) (l : list A) : filter f l = select (map f l) l.
Proof. induction l as [|x l IH]; cbn; [reflexivity|]. destruct (f x); [f_equal|]; exact IH. Qed.

(** idxShifts: enabled index + shift = position in the full list *)
Lemma idx_shifts_spec fl : forall i dc e, (e < length (positions_from i fl))%nat ->
  (nth e (positions_from i fl) 0 + dc = i + e + nth e (idx_shifts fl dc) 0)%nat.
Proof.
  induction fl as [|b t IH]; intros i dc e H; cbn in *; [lia|].
  destruct b; cbn in *.
  - destruct e as [|e]; [lia|]. specialize (IH (S i) dc e ltac:(lia)). lia.
  - specialize (IH (S i) (S dc) e H). lia.
Qed.

Definition lift_swaps (fl : list bool) (s : swaps) : swaps :=
  map (fun p => (nth (fst p) (positions fl) 0, nth (snd p) (positions fl) 0)%nat) s.

Lemma shift_swaps_lift fl s :
  Forall (fun i => (i < length (positions fl))%nat) (swap_idx s) ->
  shift_swaps (idx_shifts fl 0) s = lift_swaps fl s.
Proof.
  unfold shift_swaps, lift_swaps. induction s as [|[a b] s IH]; intro H; [reflexivity|].
  cbn [swap_idx flat_map app fst snd] in H. change (flat_map _ s) with (swap_idx s) in H.
  inversion H as [|? ? Ha H']; subst. inversion H' as [|? ? Hb H'']; subst.
  cbn [map fst snd]. rewrite IH by exact H''. f_equal.
  pose proof (idx_shifts_spec fl 0 0 a Ha). pose proof (idx_shifts_spec fl 0 0 b Hb).
  unfold positions. f_equal; lia.
Qed.

(** swapping two enabled positions of the full list = swapping in the enabled sublist *)
Lemma select_swap {A} fl (l : list A) a b :
  length fl = length l ->
  (a < length (positions fl))%nat -> (b < length (positions fl))%nat ->
  select fl (swap_nth (nth a (positions fl) 0%nat) (nth b (positions fl) 0%nat) l)
  = swap_nth a b (select fl l).
Proof.
  intros Hlen Ha Hb. unfold positions in *.
  set (P := positions_from 0 fl) in *.
  assert (HPa : nth_error P a = Some (nth a P 0%nat)) by (apply nth_error_nth'; exact Ha).
  assert (HPb : nth_error P b = Some (nth b P 0%nat)) by (apply nth_error_nth'; exact Hb).
  set (pa := nth a P 0%nat) in *. set (pb := nth b P 0%nat) in *.
  assert (Hra : (pa < length l)%nat).
  { apply nth_error_In, positions_from_spec in HPa. destruct HPa as (_ & H).
    rewrite Nat.sub_0_r in H. rewrite <- Hlen. apply nth_error_Some. congruence. }
  assert (Hrb : (pb < length l)%nat).
  { apply nth_error_In, positions_from_spec in HPb. destruct HPb as (_ & H).
    rewrite Nat.sub_0_r in H. rewrite <- Hlen. apply nth_error_Some. congruence. }
  assert (Hsl : length (select fl l) = length P) by (now apply length_select).
  apply nth_error_ext. intro j.
  rewrite (nth_error_select fl (swap_nth pa pb l) 0 j) by (now rewrite length_swap_nth).
  rewrite nth_error_swap_nth by lia.
  fold P. destruct (nth_error P j) as [p|] eqn:Ej.
  - rewrite Nat.sub_0_r. rewrite nth_error_swap_nth by assumption.
    rewrite !(nth_error_select fl l 0) by assumption. fold P.
    rewrite HPa, HPb, Ej, !Nat.sub_0_r.
    pose proof (positions_from_NoDup fl 0) as Hnd. fold P in Hnd.
    assert (Hj : (j < length P)%nat) by (apply nth_error_Some; congruence).
    destruct (Nat.eqb_spec j a) as [->|Hja].
    + assert (p = pa) by congruence. subst p. now rewrite Nat.eqb_refl.
    + destruct (Nat.eqb_spec p pa) as [->|Hpa].
      * exfalso. apply Hja. eapply (proj1 (NoDup_nth_error P) Hnd); [exact Hj|congruence].
      * destruct (Nat.eqb_spec j b) as [->|Hjb].
        -- assert (p = pb) by congruence. subst p. now rewrite Nat.eqb_refl.
        -- destruct (Nat.eqb_spec p pb) as [->|Hpb]; [|reflexivity].
           exfalso. apply Hjb. eapply (proj1 (NoDup_nth_error P) Hnd); [exact Hj|congruence].
  - assert (Hj : (length P <= j)%nat) by (now apply nth_error_None).
    destruct (Nat.eqb_spec j a); [lia|]. destruct (Nat.eqb_spec j b); [lia|].
    symmetry. apply nth_error_None. lia.
Qed.

Lemma select_apply_swaps {A} fl s : forall (l : list A),
  length fl = length l ->
  Forall (fun i => (i < length (positions fl))%nat) (swap_idx s) ->
  select fl (apply_swaps (lift_swaps fl s) l) = apply_swaps s (select fl l).
Proof.
  induction s as [|[a b] s IH]; intros l Hlen H; [reflexivity|].
  cbn [swap_idx flat_map app fst snd] in H. change (flat_map _ s) with (swap_idx s) in H.
  inversion H as [|? ? Ha H']; subst. inversion H' as [|? ? Hb H'']; subst.
  cbn [lift_swaps map apply_swaps fold_left fst snd].
  change (fold_left _ ?s ?x) with (apply_swaps s x).
  change (map _ s) with (lift_swaps fl s).
  rewrite IH by (rewrite ?length_swap_nth; assumption).
  now rewrite select_swap.
Qed.

Lemma swap_nth_same_val {A} a b (l : list A) x :
  nth_error l a = Some x -> nth_error l b = Some x -> swap_nth a b l = l.
Proof.
  intros Ha Hb. unfold swap_nth. rewrite Ha, Hb.
  rewrite (set_nth_same l b x Hb). now apply set_nth_same.
Qed.

(** swaps between positions that carry the same flag do not change the flags *)
Lemma flags_apply_swaps {A} (g : A -> bool) fl s : forall (l : list A),
  map g l = fl ->
  Forall (fun i => nth_error fl i = Some true) (swap_idx s) ->
  map g (apply_swaps s l) = fl.
Proof.
  induction s as [|[a b] s IH]; intros l Hg H; [exact Hg|].
  cbn [swap_idx flat_map app fst snd] in H. change (flat_map _ s) with (swap_idx s) in H.
  inversion H as [|? ? Ha H']; subst. inversion H' as [|? ? Hb H'']; subst.
  cbn [apply_swaps fold_left fst snd]. change (fold_left _ ?s ?x) with (apply_swaps s x).
  apply IH; [|exact H'']. rewrite map_swap_nth. now apply swap_nth_same_val with (x := true).
Qed.

Lemma map_fst_combine {A B} (l1 : list A) : forall (l2 : list B), length l1 = length l2 ->
  map fst (combine l1 l2) = l1.
Proof. induction l1; intros [|y l2] H; cbn in *; try discriminate; [reflexivity|]. f_equal. apply IHl1. lia. Qed.
Lemma map_snd_combine {A B} (l1 : list A) : forall (l2 : list B), length l1 = length l2 ->
  map snd (combine l1 l2) = l2.
Proof. induction l1; intros [|y l2] H; cbn in *; try discriminate; [reflexivity|]. f_equal. apply IHl1. lia. Qed.

Lemma lift_swaps_idx fl s :
  Forall (fun i => (i < length (positions fl))%nat) (swap_idx s) ->
  Forall (fun i => nth_error fl i = Some true) (swap_idx (lift_swaps fl s)).
Proof.
  induction s as [|[a b] s IH]; intro H; [constructor|].
  cbn [swap_idx flat_map app fst snd] in H. change (flat_map _ s) with (swap_idx s) in H.
  inversion H as [|? ? Ha H']; subst. inversion H' as [|? ? Hb H'']; subst.
  cbn [lift_swaps map swap_idx flat_map app fst snd].
  assert (G : forall e, (e < length (positions fl))%nat -> nth_error fl (nth e (positions fl) 0%nat) = Some true).
  { intros e He. pose proof (nth_In (positions fl) 0%nat He) as Hi.
    apply positions_from_spec in Hi. now rewrite Nat.sub_0_r in Hi. }
  constructor; [now apply G|]. constructor; [now apply G|]. apply IH. exact H''.
Qed.

Lemma select_set_first {A} (d : A) fl : forall (l : list A) i p,
  length fl = length l -> first_true fl i = Some p ->
  (i <= p)%nat /\ select fl (set_nth (p - i) d l) = with_head A d (select fl l).
Proof.
  induction fl as [|b t IH]; intros [|x l] i p Hlen H; cbn in *; try discriminate.
  destruct b.
  - inversion H; subst. rewrite Nat.sub_diag. cbn. split; [lia|reflexivity].
  - destruct (IH l (S i) p ltac:(lia) H) as (H1 & H2). split; [lia|].
    replace (p - i)%nat with (S (p - S i)) by lia. cbn. exact H2.
Qed.

Lemma first_true_None fl : forall i, first_true fl i = None -> forall {A} (l : list A), select fl l = [].
Proof.
  induction fl as [|b t IH]; intros i H A [|x l]; cbn in *; try reflexivity.
  destruct b; [discriminate|]. eapply IH; eauto.
Qed.

Lemma first_true_nth {A} fl : forall (l : list A) i p, length fl = length l ->
  first_true fl i = Some p -> nth_error l (p - i) = hd_error (select fl l).
Proof.
  induction fl as [|b t IH]; intros [|x l] i p Hlen H; cbn in *; try discriminate.
  destruct b.
  - inversion H; subst. now rewrite Nat.sub_diag.
  - pose proof (IH l (S i) p ltac:(lia) H) as H2.
    assert (S i <= p)%nat.
    { clear -H. revert i p H. induction t as [|b t IH]; intros i p H; cbn in H; [discriminate|].
      destruct b; [inversion H; lia|]. apply IH in H. lia. }
    replace (p - i)%nat with (S (p - S i)) by lia. exact H2.
Qed.

(** * The two partitions of the work among goroutines *)

Lemma in_seqZ : forall n a x, In x (seqZ a n) <-> a <= x < a + Z.of_nat n.
Proof.
  induction n as [|n IH]; intros a x; cbn [seqZ In].
  - lia.
  - rewrite IH. lia.
Qed.

Lemma NoDup_seqZ : forall n a, NoDup (seqZ a n).
Proof.
  induction n as [|n IH]; intro a; cbn [seqZ]; constructor.
  - rewrite in_seqZ. lia.
  - apply IH.
Qed.

(** ** linearSearch.Process: the blocks of decrements *)

Lemma lin_bs_pos limit cf : 1 <= lin_bs limit cf.
Proof. unfold lin_bs. destruct (Z.quot limit cf <? 1) eqn:E; lia. Qed.

Definition in_block (limit cf i d : Z) : Prop :=
  i * lin_bs limit cf <= d <
  (if (i =? cf - 1) || (limit <? (i + 1) * lin_bs limit cf) then limit else (i + 1) * lin_bs limit cf).

Lemma in_block_decs limit cf i d :
  In d (block_decs (lin_block limit cf i)) <-> in_block limit cf i d.
Proof.
  unfold block_decs, lin_block, in_block. cbn [fst snd]. rewrite in_seqZ.
  set (a := i * lin_bs limit cf).
  set (b := if (i =? cf - 1) || (limit <? (i + 1) * lin_bs limit cf) then limit else (i + 1) * lin_bs limit cf).
  lia.
Qed.

Lemma in_lin_decs limit cf d :
  In d (lin_decs limit cf) <-> exists i, 0 <= i < cf /\ in_block limit cf i d.
Proof.
  unfold lin_decs, lin_blocks. rewrite in_flat_map. split.
  - intros (se & Hse & Hd). apply in_map_iff in Hse as (i & <- & Hi).
    apply in_seqZ in Hi. apply in_block_decs in Hd. exists i. split; [lia|exact Hd].
  - intros (i & Hi & Hd). exists (lin_block limit cf i). split.
    + apply in_map. apply in_seqZ. lia.
    + now apply in_block_decs.
Qed.

(** every decrement below the limit is tried by some goroutine, whatever GOMAXPROCS *)
Lemma lin_decs_cover limit cf d : 1 <= cf -> 0 <= d < limit -> In d (lin_decs limit cf).
Proof.
  intros Hcf Hd. apply in_lin_decs. pose proof (lin_bs_pos limit cf) as Hbs.
  set (bs := lin_bs limit cf) in *.
  pose proof (Z.div_mod d bs ltac:(lia)) as Hdm.
  pose proof (Z.mod_pos_bound d bs ltac:(lia)) as Hmb.
  assert (Hq : 0 <= d / bs) by (apply Z.div_pos; lia).
  destruct (Z_lt_le_dec (d / bs) (cf - 1)) as [Hlt|Hge].
  - exists (d / bs). split; [lia|]. unfold in_block. fold bs.
    replace (d / bs =? cf - 1) with false by lia. cbn [orb].
    destruct (Z.ltb_spec limit ((d / bs + 1) * bs)); nia.
  - exists (cf - 1). split; [lia|]. unfold in_block. fold bs.
    replace (cf - 1 =? cf - 1) with true by lia. cbn [orb]. nia.
Qed.

(** no decrement is tried twice *)
Lemma in_block_inj limit cf i j d :
  0 <= i < cf -> 0 <= j < cf -> in_block limit cf i d -> in_block limit cf j d -> i = j.
Proof.
  unfold in_block. pose proof (lin_bs_pos limit cf) as Hbs. set (bs := lin_bs limit cf) in *.
  intros Hi Hj H1 H2.
  destruct (Z.eqb_spec i (cf - 1)), (Z.eqb_spec j (cf - 1)),
           (Z.ltb_spec limit ((i + 1) * bs)), (Z.ltb_spec limit ((j + 1) * bs));
    cbn [orb] in H1, H2; try lia; nia.
Qed.

(** the decrements tried are exactly 0 .. limit-1, whatever GOMAXPROCS
    (before the repair of finding C03-D21 this needed GOMAXPROCS - 1 <= limit) *)
Lemma lin_decs_exact limit cf d : In d (lin_decs limit cf) -> 0 <= d < limit.
Proof.
  intro H. apply in_lin_decs in H as (i & Hi & H). unfold in_block in H.
  pose proof (lin_bs_pos limit cf) as Hbs.
  set (bs := lin_bs limit cf) in *.
  destruct (Z.eqb_spec i (cf - 1)), (Z.ltb_spec limit ((i + 1) * bs)); cbn [orb] in H; nia.
Qed.

Lemma lin_decs_iff limit cf d : 1 <= cf -> (In d (lin_decs limit cf) <-> 0 <= d < limit).
Proof. intro Hcf. split; [apply lin_decs_exact|now apply lin_decs_cover]. Qed.

(** the set of decrements tried does not depend on GOMAXPROCS *)
Lemma lin_decs_parallel limit cf1 cf2 d : 1 <= cf1 -> 1 <= cf2 ->
  (In d (lin_decs limit cf1) <-> In d (lin_decs limit cf2)).
Proof. intros H1 H2. now rewrite !lin_decs_iff. Qed.

(** the witness of the repaired finding C03-D21: limit 2 is searched alike under 1 and 4 goroutines *)
Lemma lin_decs_d21_fixed : lin_decs 2 4 = [0; 1] /\ lin_decs 2 1 = [0; 1].
Proof. split; vm_compute; reflexivity. Qed.

(** ** Job.Execute: the slices of combination IDs *)

Lemma comb_cpr_pos amount cf : 1 <= comb_cpr amount cf.
Proof. unfold comb_cpr. destruct (amount / cf <? 1) eqn:E; lia. Qed.

Lemma comb_slices_cover amount cf id : 0 <= id < amount ->
  exists se, In se (comb_slices amount cf) /\ fst se <= id < snd se.
Proof.
  intros Hid. unfold comb_slices. pose proof (comb_cpr_pos amount cf) as Hc.
  set (cpr := comb_cpr amount cf) in *.
  pose proof (Z.div_mod id cpr ltac:(lia)) as Hdm.
  pose proof (Z.mod_pos_bound id cpr ltac:(lia)) as Hmb.
  assert (Hq : 0 <= id / cpr) by (apply Z.div_pos; lia).
  exists ((id / cpr) * cpr, Z.min ((id / cpr + 1) * cpr) amount). split.
  - apply in_map_iff. exists (id / cpr). split; [reflexivity|]. apply in_seqZ.
    assert (id / cpr + 1 <= (amount + cpr - 1) / cpr) by (apply Z.div_le_lower_bound; nia).
    lia.
  - cbn [fst snd]. nia.
Qed.

Lemma comb_slices_range amount cf se : In se (comb_slices amount cf) ->
  0 <= fst se < amount /\ fst se <= snd se <= amount.
Proof.
  unfold comb_slices. pose proof (comb_cpr_pos amount cf) as Hc.
  set (cpr := comb_cpr amount cf) in *.
  intro H. apply in_map_iff in H as (i & <- & Hi). apply in_seqZ in Hi. cbn [fst snd].
  destruct (Z_le_gt_dec ((amount + cpr - 1) / cpr) 0) as [Hz|Hz]; [lia|].
  pose proof (Z.mul_div_le (amount + cpr - 1) cpr ltac:(lia)) as Hm.
  assert (i + 1 <= (amount + cpr - 1) / cpr) by lia.
  nia.
Qed.

(** ** The combinations one worker visits *)

Lemma scan_combs_valid m : forall fuel s c, Valid m s -> In c (scan_combs fuel m s) ->
  Valid m c /\ length c = length s.
Proof.
  induction fuel as [|f IH]; intros s c V H; cbn [scan_combs] in H; [destruct H|].
  destruct H as [<-|H]; [tauto|].
  destruct (next m s) as [[|] s'] eqn:N; [|destruct H].
  destruct (next_true _ _ _ V N) as (V' & L' & _).
  destruct (IH _ _ V' H) as (H1 & H2). split; [exact H1|congruence].
Qed.

Lemma scan_combs_cover m : forall fuel s c, Valid m s -> Valid m c -> length c = length s ->
  rank m s <= rank m c < rank m s + Z.of_nat fuel -> In c (scan_combs fuel m s).
Proof.
  induction fuel as [|f IH]; intros s c V Vc L R; [lia|].
  cbn [scan_combs]. destruct (Z.eq_dec (rank m c) (rank m s)) as [E|NE].
  - left. symmetry. apply (rank_inj m); auto.
  - right. pose proof (rank_bounds m c Vc) as Bc.
    destruct (next_step_rank m s V) as (s' & N & V' & L' & R'); [rewrite <- L; lia|].
    rewrite N. apply IH; auto; try congruence; lia.
Qed.

Lemma bz_pos m k : Z.of_nat k <= m + 1 -> 1 <= bz (m + 1) k.
Proof.
  intro H. unfold bz. pose proof (binom_pos (Z.to_nat (m + 1)) k ltac:(lia)). lia.
Qed.

Lemma worker_combs_ok m k se : Z.of_nat k <= m + 1 -> m + 1 < I63 -> bz (m + 1) k < W64 ->
  0 <= fst se < bz (m + 1) k ->
  exists cs, worker_combs m k se = Ok cs /\
    (forall c, In c cs -> Valid m c /\ length c = k) /\
    (forall c, Valid m c -> length c = k -> fst se <= rank m c < snd se -> In c cs).
Proof.
  intros Hk Hm Bk Hs. unfold worker_combs.
  destruct (Z.eqb_spec (fst se) 0) as [E|NE].
  - eexists. split; [reflexivity|]. pose proof (first_comb_valid m k Hk) as V.
    assert (Lf : length (first_comb k) = k) by apply seqZ_length. split.
    + intros c Hc. apply scan_combs_valid in Hc; [|exact V]. rewrite Lf in Hc. exact Hc.
    + intros c Vc Lc Rc. apply scan_combs_cover; auto; [congruence|]. rewrite rank_first. lia.
  - destruct (seek_total m k (fst se) Hk Hm Bk Hs) as (s & Es & V & Ls & Rs).
    rewrite Es. cbn [bind]. eexists. split; [reflexivity|]. split.
    + intros c Hc. apply scan_combs_valid in Hc; [|exact V]. rewrite Ls in Hc. exact Hc.
    + intros c Vc Lc Rc. apply scan_combs_cover; auto; [congruence|]. rewrite Rs. lia.
Qed.

Lemma collect_map_ok {X Y} (f : X -> outcome Y) : forall l,
  (forall x, In x l -> exists y, f x = Ok y) ->
  exists ws, collect (map f l) = Ok ws /\ Forall2 (fun x y => f x = Ok y) l ws.
Proof.
  induction l as [|x l IH]; intro H.
  - exists []. split; [reflexivity|constructor].
  - destruct (H x (or_introl eq_refl)) as (y & Ey).
    destruct IH as (ws & Ews & F); [intros z Hz; apply H; now right|].
    exists (y :: ws). split; [|constructor; assumption].
    cbn [map collect]. rewrite Ey. cbn [bind]. rewrite Ews. reflexivity.
Qed.

Lemma Forall2_in_l {X Y} (R : X -> Y -> Prop) l1 l2 x :
  Forall2 R l1 l2 -> In x l1 -> exists y, In y l2 /\ R x y.
Proof.
  induction 1 as [|a b l1 l2 Hab F IH]; intro H; [destruct H|].
  destruct H as [<-|H]; [exists b; split; [now left|exact Hab]|].
  destruct (IH H) as (y & Hy & Hr). exists y. split; [now right|exact Hr].
Qed.

Lemma Forall2_in_r {X Y} (R : X -> Y -> Prop) l1 l2 y :
  Forall2 R l1 l2 -> In y l2 -> exists x, In x l1 /\ R x y.
Proof.
  induction 1 as [|a b l1 l2 Hab F IH]; intro H; [destruct H|].
  destruct H as [<-|H]; [exists a; split; [now left|exact Hab]|].
  destruct (IH H) as (x & Hx & Hr). exists x. split; [now right|exact Hr].
Qed.

Lemma binom_le_pow2 : forall n k, binom n k <= 2 ^ Z.of_nat n.
Proof.
  induction n as [|n IH]; intros [|k].
  - cbn. lia.
  - rewrite binom_0_S. cbn. lia.
  - rewrite binom_n_0. pose proof (Z.pow_pos_nonneg 2 (Z.of_nat (S n)) ltac:(lia) ltac:(lia)). lia.
  - rewrite binom_S_S. pose proof (IH k). pose proof (IH (S k)).
    rewrite Nat2Z.inj_succ, Z.pow_succ_r by lia. lia.
Qed.

(** somes *)
Lemma somes_map_one {A B} (f : A -> option B) : forall l,
  (1 <= length (somes (map f l)))%nat -> exists y, In y l /\ f y <> None.
Proof.
  induction l as [|a t IH]; cbn [map somes length]; [lia|].
  destruct (f a) eqn:E.
  - intros _. exists a. split; [now left|congruence].
  - intro H. destruct (IH H) as (y & Hy & Hf). exists y. split; [now right|exact Hf].
Qed.

Lemma somes_map_two {A B} (f : A -> option B) : forall l,
  (2 <= length (somes (map f l)))%nat ->
  exists l1 x l2 y l3, l = l1 ++ x :: l2 ++ y :: l3 /\ f x <> None /\ f y <> None.
Proof.
  induction l as [|a t IH]; cbn [map somes length]; [lia|].
  destruct (f a) eqn:E.
  - cbn [length]. intro H. destruct (somes_map_one f t ltac:(lia)) as (y & Hy & Hf).
    apply in_split in Hy as (l2 & l3 & ->).
    exists [], a, l2, y, l3. split; [reflexivity|]. split; [congruence|exact Hf].
  - intro H. destruct (IH H) as (l1 & x & l2 & y & l3 & -> & Hx & Hy).
    exists (a :: l1), x, l2, y, l3. split; [reflexivity|]. tauto.
Qed.

Lemma somes_map_nil {A B} (f : A -> option B) : forall l,
  somes (map f l) = [] -> forall x, In x l -> f x = None.
Proof.
  induction l as [|a t IH]; cbn [map somes]; intros H x Hx; [destruct Hx|].
  destruct (f a) eqn:E; [discriminate|]. destruct Hx as [<-|Hx]; [exact E|]. now apply IH.
Qed.

Section Proofs.
  Variable D : Type.
  Variable deqb : D -> D -> bool.
  Hypothesis deqb_spec : forall a b, deqb a b = true <-> a = b.
  Variable pcr_init : Z -> D.
  Variable extend : D -> D -> D.
  Variable pcr0data : Z -> Z -> D.
  Variable st : settings.
  Variable log : list (meas D).
  Variable target : D.

  Notation replay := (replay D pcr_init extend).
  Notation hit := (hit D deqb pcr_init extend target).
  Notation order_rec := (order_rec D deqb pcr_init extend target).
  Notation order_search := (order_search D deqb pcr_init extend st target).

  Lemma hit_iff loc ms : hit loc ms = true <-> replay loc ms = target.
  Proof. unfold PCR0Search.hit. apply deqb_spec. Qed.

  (** ** Order brute force: sound *)

  Lemma order_rec_sound : forall limit loc ms sw s,
    length sw = length ms -> order_rec limit loc ms sw = Some s ->
    swaps_wf (length ms) sw s /\ (length s <= limit)%nat /\
    replay loc (apply_swaps s ms) = target.
  Proof.
    induction limit as [|l IH]; intros loc ms sw s Hlen H; cbn [PCR0Search.order_rec] in H.
    - destruct (hit loc ms) eqn:Eh; [|discriminate]. inversion H; subst.
      split; [apply swaps_wf_nil|]. split; [cbn; lia|]. now apply hit_iff.
    - destruct (count_false sw <? 2)%nat eqn:Ea.
      + destruct (hit loc ms) eqn:Eh; [|discriminate]. inversion H; subst.
        split; [apply swaps_wf_nil|]. split; [cbn; lia|]. now apply hit_iff.
      + apply Nat.ltb_ge in Ea.
        apply first_some_Some in H as ([a b] & Hin & Hf). cbn [fst snd] in Hf.
        apply in_all_pairs in Hin.
        rewrite !shift_idx_0 in Hf by lia.
        set (A := nth_unset a sw) in *. set (B := nth_unset b sw) in *.
        destruct (nth_unset_spec sw a ltac:(lia)) as (HA1 & HA2 & _).
        destruct (nth_unset_spec sw b ltac:(lia)) as (HB1 & HB2 & _).
        assert (HAB : (A < B)%nat) by (apply nth_unset_mono; lia).
        fold A in HA1, HA2. fold B in HB1, HB2.
        destruct (order_rec l loc (swap_nth A B ms) (set_nth A true (set_nth B true sw))) as [s'|] eqn:Er;
          [|discriminate].
        inversion Hf; subst s. clear Hf.
        apply IH in Er; [|now rewrite !length_set_nth, length_swap_nth].
        rewrite length_swap_nth in Er. destruct Er as ((Hnd & Hfa & Hlt) & Hl & Hr).
        assert (Hunset : forall i, In i (swap_idx s') ->
                   (i < length ms)%nat /\ nth_error sw i = Some false /\ i <> A /\ i <> B).
        { intros i Hi. rewrite Forall_forall in Hfa. destruct (Hfa i Hi) as (H1 & H2).
          rewrite !nth_error_set_nth, !length_set_nth in H2.
          destruct (Nat.eqb_spec i A).
          - destruct (A <? length sw)%nat; discriminate.
          - destruct (Nat.eqb_spec i B).
            + destruct (B <? length sw)%nat; discriminate.
            + auto. }
        split; [|split].
        * repeat split.
          -- rewrite swap_idx_app. cbn. apply NoDup_app_intro; [exact Hnd| |].
             ++ constructor; [cbn; lia|]. constructor; [tauto|constructor].
             ++ intros i Hi [<-|[<-|[]]]; destruct (Hunset _ Hi); tauto.
          -- rewrite swap_idx_app. apply Forall_app. split.
             ++ apply Forall_forall. intros i Hi. destruct (Hunset _ Hi); tauto.
             ++ cbn. repeat constructor; lia || assumption.
          -- apply Forall_app. split; [exact Hlt|]. repeat constructor. exact HAB.
        * rewrite app_length. cbn. lia.
        * rewrite apply_swaps_app. cbn [apply_swaps fold_left fst snd].
          rewrite swap_apply_comm; [exact Hr|lia|lia| | |].
          -- apply Forall_forall. intros i Hi. destruct (Hunset _ Hi); tauto.
          -- intro Hi. destruct (Hunset _ Hi); tauto.
          -- intro Hi. destruct (Hunset _ Hi); tauto.
  Qed.
  (** ** Order brute force: complete *)

  Lemma order_rec_complete : forall limit loc ms sw s,
    length sw = length ms -> swaps_wf (length ms) sw s -> length s = limit ->
    replay loc (apply_swaps s ms) = target ->
    order_rec limit loc ms sw <> None.
  Proof.
    induction limit as [|l IH]; intros loc ms sw s Hlen Hwf Hl Hr; cbn [PCR0Search.order_rec].
    - destruct s; [|discriminate]. cbn in Hr. apply hit_iff in Hr. now rewrite Hr.
    - destruct s as [|[x y] s']; [discriminate|]. cbn in Hl.
      destruct Hwf as (Hnd & Hfa & Hlt). cbn [swap_idx flat_map app fst snd] in Hnd, Hfa.
      change (flat_map _ s') with (swap_idx s') in *. revert Hr.
      inversion Hfa as [|? ? (Hx1 & Hx2) Hfa1]; subst.
      inversion Hfa1 as [|? ? (Hy1 & Hy2) Hfa2]; subst.
      inversion Hlt as [|? ? Hxy Hlt']; subst. cbn [fst snd] in Hxy.
      inversion Hnd as [|? ? Hnx Hnd1]; subst. inversion Hnd1 as [|? ? Hny Hnd2]; subst.
      destruct (nth_unset_rank sw x Hx2) as (Hrx & Ex).
      destruct (nth_unset_rank sw y Hy2) as (Hry & Ey).
      pose proof (count_false_firstn_mono sw x y Hxy Hx2) as Hrxy. intro Hr.
      set (a := count_false (firstn x sw)) in *. set (b := count_false (firstn y sw)) in *.
      replace (count_false sw <? 2)%nat with false by (symmetry; apply Nat.ltb_ge; lia).
      apply first_some_not_None with (x := (a, b)); [apply in_all_pairs; lia|].
      cbn [fst snd]. rewrite !shift_idx_0 by lia. rewrite Ex, Ey.
      assert (Hrec : order_rec l loc (swap_nth x y ms) (set_nth x true (set_nth y true sw)) <> None).
      { apply IH with (s := s').
        - now rewrite !length_set_nth, length_swap_nth.
        - rewrite length_swap_nth. split; [exact Hnd2|]. split; [|exact Hlt'].
          apply Forall_forall. intros i Hi. rewrite Forall_forall in Hfa2.
          destruct (Hfa2 i Hi) as (H1 & H2). split; [exact H1|].
          rewrite !nth_error_set_nth, !length_set_nth.
          destruct (Nat.eqb_spec i x); [subst i; cbn in Hnx; tauto|].
          destruct (Nat.eqb_spec i y); [subst i; tauto|]. exact H2.
        - lia.
        - exact Hr. }
      destruct (order_rec l loc (swap_nth x y ms) (set_nth x true (set_nth y true sw)));
        [discriminate|congruence].
  Qed.

  Definition fresh (n : nat) : list bool := repeat false n.

  Lemma order_search_sound loc ms s :
    order_search loc ms = Some s ->
    swaps_wf (length ms) (fresh (length ms)) s /\
    Z.of_nat (length s) <= max_reorders st /\
    replay loc (apply_swaps s ms) = target.
  Proof.
    unfold PCR0Search.order_search. destruct (max_reorders st <? 0) eqn:E; [discriminate|].
    intro H. apply first_some_Some in H as (l & Hl & H). apply in_seq in Hl.
    apply order_rec_sound in H; [|apply repeat_length].
    destruct H as (H1 & H2 & H3). repeat split; try apply H1; [lia|exact H3].
  Qed.

  Lemma order_search_complete loc ms s :
    swaps_wf (length ms) (fresh (length ms)) s -> Z.of_nat (length s) <= max_reorders st ->
    replay loc (apply_swaps s ms) = target ->
    order_search loc ms <> None.
  Proof.
    intros Hwf Hl Hr. unfold PCR0Search.order_search.
    replace (max_reorders st <? 0) with false by lia.
    apply first_some_not_None with (x := length s); [apply in_seq; lia|].
    eapply order_rec_complete; eauto. apply repeat_length.
  Qed.

  Lemma order_search_None loc ms :
    order_search loc ms = None ->
    forall s, swaps_wf (length ms) (fresh (length ms)) s -> Z.of_nat (length s) <= max_reorders st ->
              replay loc (apply_swaps s ms) <> target.
  Proof.
    intros H s Hwf Hl Hr. now apply (order_search_complete loc ms s Hwf Hl Hr).
  Qed.

  (** ** Applying a result *)

  Notation nlog := (nlog D log).
  Notation enabled_flags := (enabled_flags D log).
  Notation disabled_of := (disabled_of D log).
  Notation apply_result := (apply_result D pcr0data log).
  Notation replay_result := (replay_result D pcr_init extend pcr0data log).

  Lemma length_enabled_flags comb : length (enabled_flags comb) = length log.
  Proof. unfold PCR0Search.enabled_flags. now rewrite map_length, seq_length. Qed.

  Lemma mem_disabled_of comb i : (i < nlog)%nat ->
    mem_nat i (disabled_of comb) = zmem (Z.of_nat i) comb.
  Proof.
    unfold PCR0Search.disabled_of. induction comb as [|z c IH]; intros Hi; [reflexivity|].
    cbn [filter zmem].
    destruct ((0 <=? z) && (z <? Z.of_nat nlog)) eqn:E.
    - cbn [map mem_nat]. rewrite IH by assumption.
      destruct (Nat.eqb_spec i (Z.to_nat z)); destruct (Z.eqb_spec (Z.of_nat i) z); try reflexivity; lia.
    - rewrite IH by assumption. destruct (Z.eqb_spec (Z.of_nat i) z); [lia|reflexivity].
  Qed.

  Lemma disabled_flags comb :
    map (fun i => negb (mem_nat i (disabled_of comb))) (seq 0 nlog) = enabled_flags comb.
  Proof.
    unfold PCR0Search.enabled_flags. apply map_ext_in. intros i Hi. apply in_seq in Hi.
    now rewrite mem_disabled_of by lia.
  Qed.

  (** the digests of the enabled measurements, PCR0_DATA re-hashed when a register is reported *)
  Definition enabled_digests (comb : list Z) (reg : option Z) : list D :=
    let en := select (enabled_flags comb) log in
    let ds := map (@m_dig D) en in
    match reg, en with
    | Some v, m :: _ => match m_data m with
                        | Some (tail, _) => with_head D (pcr0data tail v) ds
                        | None => ds
                        end
    | _, _ => ds
    end.

  Lemma length_enabled_digests comb reg :
    length (enabled_digests comb reg) = length (select (enabled_flags comb) log).
  Proof.
    unfold enabled_digests. destruct reg as [v|]; [|now rewrite map_length].
    destruct (select (enabled_flags comb) log) as [|m en] eqn:E; [reflexivity|].
    destruct (m_data m) as [[tail r]|]; cbn; now rewrite ?map_length.
  Qed.

  (** index-shift correctness: applying a reported result to the full list
      (swaps on full-list positions, then dropping the disabled entries by
      identity) is applying the swaps found on the enabled sublist *)
  Lemma apply_result_eq loc comb reg s :
    Forall (fun i => (i < length (select (enabled_flags comb) log))%nat) (swap_idx s) ->
    apply_result (mkResult loc reg (disabled_of comb)
                    (shift_swaps (idx_shifts (enabled_flags comb) 0) s))
    = apply_swaps s (enabled_digests comb reg).
  Proof.
    intros Hs. unfold PCR0Search.apply_result. cbn [r_disabled r_reg r_swaps].
    rewrite (disabled_flags comb).
    set (fl := enabled_flags comb) in *.
    assert (Hfl : length fl = length log) by apply length_enabled_flags.
    assert (Hpos : length (positions fl) = length (select fl log)) by (symmetry; now apply length_select).
    rewrite shift_swaps_lift by (now rewrite Hpos).
    match goal with |- context [combine _ ?d] => set (digs1 := d) end.
    assert (Hd1 : length digs1 = length log).
    { subst digs1. destruct reg as [v|]; [|now rewrite map_length].
      destruct (first_true fl 0); [|now rewrite map_length].
      destruct (nth_error log n); [|now rewrite map_length].
      destruct (m_data m) as [[tail r]|]; now rewrite ?length_set_nth, map_length. }
    assert (Hsel : select fl digs1 = enabled_digests comb reg).
    { subst digs1. unfold enabled_digests. fold fl.
      destruct reg as [v|]; [|now rewrite <- map_select].
      destruct (first_true fl 0) as [p|] eqn:Ef.
      - pose proof (first_true_nth fl log 0 p Hfl Ef) as Hn. rewrite Nat.sub_0_r in Hn.
        destruct (select fl log) as [|m en] eqn:Een.
        + cbn in Hn. rewrite Hn. now rewrite <- map_select, Een.
        + cbn in Hn. rewrite Hn. destruct (m_data m) as [[tail r]|].
          * destruct (select_set_first (pcr0data tail v) fl (map (@m_dig D) log) 0 p
                        ltac:(now rewrite map_length) Ef) as (_ & H).
            rewrite Nat.sub_0_r in H. rewrite H. now rewrite <- map_select, Een.
          * now rewrite <- map_select, Een.
      - rewrite (first_true_None fl 0 Ef log). now rewrite (first_true_None fl 0 Ef (map (@m_dig D) log)). }
    set (tagged := combine (seq 0 nlog) digs1).
    assert (Htl : length tagged = length log).
    { subst tagged. rewrite combine_length, seq_length. unfold PCR0Search.nlog. lia. }
    set (keep := fun t : nat * D => negb (mem_nat (fst t) (disabled_of comb))).
    assert (Hk : map keep tagged = fl).
    { subst keep tagged. unfold fl. rewrite <- (disabled_flags comb).
      rewrite <- (map_fst_combine (seq 0 nlog) digs1) at 2
        by (rewrite seq_length; unfold PCR0Search.nlog; lia).
      now rewrite map_map. }
    rewrite filter_select.
    rewrite (flags_apply_swaps keep fl (lift_swaps fl s) tagged Hk)
      by (apply lift_swaps_idx; now rewrite Hpos).
    rewrite select_apply_swaps by (rewrite ?Hpos; (assumption || lia)).
    rewrite map_apply_swaps, map_select. subst tagged.
    rewrite map_snd_combine by (rewrite seq_length; unfold PCR0Search.nlog; lia).
    now rewrite Hsel.
  Qed.

  (** ** The ACM_POLICY_STATUS strategies *)

  Notation acm_try := (acm_try D deqb pcr_init extend pcr0data st target).
  Notation block_hit := (block_hit D deqb pcr_init extend pcr0data st target).
  Notation lin_hits := (lin_hits D deqb pcr_init extend pcr0data st target).
  Notation comb_hits_at := (comb_hits_at D deqb pcr_init extend pcr0data st target).
  Notation comb_from := (comb_from D deqb pcr_init extend pcr0data st target).
  Notation comb_outcomes := (comb_outcomes D deqb pcr_init extend pcr0data st target).
  Notation acm_outcomes := (acm_outcomes D deqb pcr_init extend pcr0data st target).
  Notation try_outcomes := (try_outcomes D deqb pcr_init extend pcr0data st log target).
  Notation comb_maxd := (comb_maxd st).

  Lemma in_somes {A} (l : list (option A)) x : In x (somes l) <-> In (Some x) l.
  Proof.
    induction l as [|[y|] l IH]; cbn; [tauto| |].
    - rewrite IH. split; intros [H|H]; auto; left; congruence.
    - rewrite IH. split; [auto|intros [H|H]; [discriminate|auto]].
  Qed.

  Lemma block_hit_Some loc tail reg ms se v s :
    block_hit loc tail reg ms se = Some (v, s) ->
    exists d, In d (block_decs se) /\ v = wrap64 (reg - d) /\ acm_try loc tail ms v = Some s.
  Proof.
    unfold PCR0Search.block_hit. intro H. apply first_some_Some in H as (d & Hd & H).
    destruct (acm_try loc tail ms (wrap64 (reg - d))) as [s'|] eqn:E; [|discriminate].
    inversion H; subst. eauto.
  Qed.

  Lemma block_hit_None loc tail reg ms se :
    block_hit loc tail reg ms se = None ->
    forall d, In d (block_decs se) -> acm_try loc tail ms (wrap64 (reg - d)) = None.
  Proof.
    unfold PCR0Search.block_hit. intros H d Hd. rewrite first_some_None in H.
    specialize (H d Hd). cbn in H. now destruct (acm_try loc tail ms (wrap64 (reg - d))).
  Qed.

  Lemma in_lin_hits cf loc tail reg ms v s :
    In (v, s) (lin_hits cf loc tail reg ms) ->
    exists d, In d (lin_decs (lin_limit st) cf) /\ v = wrap64 (reg - d) /\ acm_try loc tail ms v = Some s.
  Proof.
    unfold PCR0Search.lin_hits. rewrite in_somes, in_map_iff. intros (se & H & Hse).
    apply block_hit_Some in H as (d & Hd & Hv & Ht). exists d. split; [|auto].
    unfold lin_decs. apply in_flat_map. eauto.
  Qed.

  Lemma in_cross_pairs {A} (l : list A) x y : In (x, y) (cross_pairs l) -> In x l /\ In y l.
  Proof.
    induction l as [|z l IH]; cbn; [tauto|]. rewrite in_app_iff, in_flat_map.
    intros [(w & Hw & [E|[E|[]]])|H]; try (inversion E; subst; tauto).
    destruct (IH H). tauto.
  Qed.

  Lemma lin_outcomes_found hits v s :
    In (SFound v s) (lin_outcomes hits) -> exists hx hy, In hx hits /\ In hy hits /\ v = fst hx /\ s = snd hy.
  Proof.
    unfold lin_outcomes. destruct hits as [|h1 [|h2 t]].
    - intros [H|[]]; discriminate.
    - intros [H|[]]. inversion H; subst. exists h1, h1. cbn. tauto.
    - set (hits := h1 :: h2 :: t). rewrite !in_app_iff, in_map_iff. intros [(h & E & Hh)|[[E|[]]|H]].
      + inversion E; subst. exists h, h. tauto.
      + discriminate.
      + destruct t as [|h3 t]; [destruct H|]. apply in_map_iff in H as ([hx hy] & E & H).
        inversion E; subst. apply in_cross_pairs in H. exists hx, hy. cbn. tauto.
  Qed.

  Lemma lin_outcomes_none hits : In SNone (lin_outcomes hits) -> hits = [].
  Proof.
    unfold lin_outcomes. destruct hits as [|h1 [|h2 t]]; [reflexivity| |].
    - intros [H|[]]; discriminate.
    - rewrite !in_app_iff, in_map_iff. intros [(h & E & _)|[[E|[]]|H]]; try discriminate.
      destruct t; [destruct H|]. apply in_map_iff in H as (? & E & _). discriminate.
  Qed.

  Lemma lin_outcomes_err hits : In SErr (lin_outcomes hits) -> (2 <= length hits)%nat.
  Proof.
    unfold lin_outcomes. destruct hits as [|h1 [|h2 t]]; cbn [length]; try lia.
    - intros [H|[]]; discriminate.
    - intros [H|[]]; discriminate.
  Qed.

  Lemma comb_from_S f d loc tail reg ms :
    comb_from (S f) d loc tail reg ms =
    match comb_hits_at loc tail reg ms d with
    | [] => comb_from f (S d) loc tail reg ms
    | hs => hs
    end.
  Proof. reflexivity. Qed.

  Lemma comb_from_in fuel : forall d loc tail reg ms h,
    In h (comb_from fuel d loc tail reg ms) ->
    exists k, (d <= k < d + fuel)%nat /\ In h (comb_hits_at loc tail reg ms k).
  Proof.
    induction fuel as [|f IH]; intros d loc tail reg ms h H.
    - destruct H.
    - rewrite comb_from_S in H.
      destruct (comb_hits_at loc tail reg ms d) as [|h0 hs] eqn:E.
      + destruct (IH _ _ _ _ _ _ H) as (k & Hk & Hin). exists k. split; [lia|exact Hin].
      + exists d. split; [lia|]. rewrite E. exact H.
  Qed.

  Lemma in_comb_hits_at loc tail reg ms k v s :
    In (v, s) (comb_hits_at loc tail reg ms k) ->
    exists bs, In bs (subsets k 0 64) /\ v = flip_reg reg bs /\ acm_try loc tail ms v = Some s.
  Proof.
    unfold PCR0Search.comb_hits_at. rewrite in_somes, in_map_iff. intros (bs & H & Hbs).
    destruct (acm_try loc tail ms (flip_reg reg bs)) as [s'|] eqn:E; [|discriminate].
    inversion H; subst. eauto.
  Qed.

  Lemma comb_outcomes_found loc tail reg ms v s :
    In (SFound v s) (comb_outcomes loc tail reg ms) ->
    exists kx bx ky byy, (kx <= comb_maxd)%nat /\ (ky <= comb_maxd)%nat /\
      In bx (subsets kx 0 64) /\ In byy (subsets ky 0 64) /\
      v = flip_reg reg bx /\ acm_try loc tail ms v <> None /\
      acm_try loc tail ms (flip_reg reg byy) = Some s.
  Proof.
    unfold PCR0Search.comb_outcomes.
    destruct (comb_from (S comb_maxd) 0 loc tail reg ms) as [|h0 hs] eqn:E.
    - intros [H|[]]; discriminate.
    - rewrite <- E. clear E. rewrite in_flat_map. intros ([vx sx] & Hx & H).
      apply in_map_iff in H as ([vy sy] & Ev & Hy). inversion Ev; subst. cbn [fst snd] in *.
      apply comb_from_in in Hx as (kx & Hkx & Hx). apply comb_from_in in Hy as (ky & Hky & Hy).
      apply in_comb_hits_at in Hx as (bx & Hbx & Evx & Htx).
      apply in_comb_hits_at in Hy as (byy & Hby & Evy & Hty).
      exists kx, bx, ky, byy. repeat split; try lia; try assumption; congruence.
  Qed.

  Lemma comb_outcomes_no_err loc tail reg ms : ~ In SErr (comb_outcomes loc tail reg ms).
  Proof.
    unfold PCR0Search.comb_outcomes.
    destruct (comb_from (S comb_maxd) 0 loc tail reg ms) as [|h0 hs].
    - intros [H|[]]; discriminate.
    - rewrite in_flat_map. intros (x & _ & H). apply in_map_iff in H as (y & E & _). discriminate.
  Qed.

  (** the register candidates of the two strategies *)
  Definition lin_cand (cf reg v : Z) : Prop :=
    exists d, In d (lin_decs (lin_limit st) cf) /\ v = wrap64 (reg - d).
  Definition comb_cand (reg v : Z) : Prop :=
    comb_enabled st = true /\
    exists k bs, (k <= comb_maxd)%nat /\ In bs (subsets k 0 64) /\ v = flip_reg reg bs.

  (** every [SFound v s]: [v] is a candidate that verifies, [s] are the swaps
      of a candidate of the same strategy that verifies *)
  Lemma acm_outcomes_found cf loc tail reg ms v s :
    In (SFound v s) (acm_outcomes cf loc tail reg ms) ->
    (exists d1 d2, In d1 (lin_decs (lin_limit st) cf) /\ In d2 (lin_decs (lin_limit st) cf) /\
        v = wrap64 (reg - d1) /\ acm_try loc tail ms v <> None /\
        acm_try loc tail ms (wrap64 (reg - d2)) = Some s) \/
    (comb_enabled st = true /\
     exists k1 b1 k2 b2, (k1 <= comb_maxd)%nat /\ (k2 <= comb_maxd)%nat /\
        In b1 (subsets k1 0 64) /\ In b2 (subsets k2 0 64) /\
        v = flip_reg reg b1 /\ acm_try loc tail ms v <> None /\
        acm_try loc tail ms (flip_reg reg b2) = Some s).
  Proof.
    unfold PCR0Search.acm_outcomes. rewrite in_flat_map. intros (o & Ho & H).
    destruct o as [|v' s'|].
    - destruct (comb_enabled st) eqn:Ec; [|destruct H as [H|[]]; discriminate].
      right. split; [reflexivity|]. now apply comb_outcomes_found.
    - destruct H as [H|[]]. inversion H; subst. left.
      apply lin_outcomes_found in Ho as ([vx sx] & [vy sy] & Hx & Hy & -> & ->). cbn [fst snd].
      apply in_lin_hits in Hx as (d1 & Hd1 & Ev1 & Ht1).
      apply in_lin_hits in Hy as (d2 & Hd2 & Ev2 & Ht2).
      exists d1, d2. repeat split; try assumption; congruence.
    - destruct H as [H|[]]; discriminate.
  Qed.

  (** ** The search space *)

  (** [space decs loc comb reg s]: with the measurements of [comb] dropped, the
      PCR0_DATA register (if PCR0_DATA comes first) replaced by [reg] — the
      original value decreased by an element of [decs] or with at most
      MaxACMPolicyCombinatorialDistance bits flipped — and the pairwise disjoint
      swaps [s] (at most MaxReorders) applied, the replay from locality [loc]
      gives the requested value. *)
  Definition space (decs : list Z) (loc : Z) (comb : list Z) (reg : option Z) (s : swaps) : Prop :=
    let en := select (enabled_flags comb) log in
    swaps_wf (length en) (fresh (length en)) s /\ Z.of_nat (length s) <= max_reorders st /\
    match en with
    | m :: _ =>
        match m_data m with
        | Some (tail, reg0) =>
            exists v, reg = Some v /\
              ((exists d, In d decs /\ v = wrap64 (reg0 - d)) \/ comb_cand reg0 v)
        | None => reg = None
        end
    | [] => reg = None
    end /\
    replay loc (apply_swaps s (enabled_digests comb reg)) = target.

  (** no two different register candidates tried for one combination verify
      (true when the hash has no collision among the candidates) *)
  Definition acm_unique (cf : Z) : Prop :=
    forall loc comb m en tail reg,
      select (enabled_flags comb) log = m :: en -> m_data m = Some (tail, reg) ->
      let ms := map (@m_dig D) (m :: en) in
      (forall d1 d2, In d1 (lin_decs (lin_limit st) cf) -> In d2 (lin_decs (lin_limit st) cf) ->
         acm_try loc tail ms (wrap64 (reg - d1)) <> None ->
         acm_try loc tail ms (wrap64 (reg - d2)) <> None -> d1 = d2) /\
      (forall k1 b1 k2 b2, (k1 <= comb_maxd)%nat -> (k2 <= comb_maxd)%nat ->
         In b1 (subsets k1 0 64) -> In b2 (subsets k2 0 64) ->
         acm_try loc tail ms (flip_reg reg b1) <> None ->
         acm_try loc tail ms (flip_reg reg b2) <> None -> b1 = b2).

  Lemma enabled_digests_data comb m en tail reg0 v :
    select (enabled_flags comb) log = m :: en -> m_data m = Some (tail, reg0) ->
    enabled_digests comb (Some v) = with_head D (pcr0data tail v) (map (@m_dig D) (m :: en)).
  Proof. intros E Hm. unfold enabled_digests. now rewrite E, Hm. Qed.

  Lemma enabled_digests_plain comb :
    enabled_digests comb None = map (@m_dig D) (select (enabled_flags comb) log).
  Proof. reflexivity. Qed.

  Lemma length_with_head d ms : length (with_head D d ms) = length ms.
  Proof. now destruct ms. Qed.

  (** soundness of one try, up to the choice of the swaps *)
  Lemma try_found cf loc comb reg sw :
    In (TFound reg sw) (try_outcomes cf loc comb) ->
    exists s s', sw = shift_swaps (idx_shifts (enabled_flags comb) 0) s /\
      space (lin_decs (lin_limit st) cf) loc comb reg s' /\
      swaps_wf (length (select (enabled_flags comb) log))
               (fresh (length (select (enabled_flags comb) log))) s /\
      (acm_unique cf -> s' = s).
  Proof.
    unfold PCR0Search.try_outcomes.
    set (fl := enabled_flags comb). set (en := select fl log).
    set (ds := map (@m_dig D) en). set (sh := idx_shifts fl 0).
    assert (Hplain : In (TFound reg sw)
              match order_search loc ds with
              | Some s => [TFound None (shift_swaps sh s)]
              | None => [TNone]
              end ->
            (match en with m :: _ => m_data m = None | [] => True end) ->
            exists s s', sw = shift_swaps sh s /\ space (lin_decs (lin_limit st) cf) loc comb reg s' /\
              swaps_wf (length en) (fresh (length en)) s /\ (acm_unique cf -> s' = s)).
    { intros H Hh. destruct (order_search loc ds) as [s|] eqn:Eo; [|destruct H as [H|[]]; discriminate].
      destruct H as [H|[]]. inversion H; subst reg sw.
      apply order_search_sound in Eo as (Hwf & Hl & Hr). subst ds. rewrite map_length in Hwf.
      exists s, s. split; [reflexivity|]. split; [|split; [exact Hwf|reflexivity]].
      unfold space. fold fl en. split; [exact Hwf|]. split; [exact Hl|]. split.
      - destruct en as [|m en']; [reflexivity|]. now rewrite Hh.
      - exact Hr. }
    destruct en as [|m en'] eqn:Een; [intro H; apply Hplain; [exact H|exact I]|].
    destruct (m_data m) as [[tail reg0]|] eqn:Em; [|intro H; apply Hplain; [exact H|reflexivity]].
    clear Hplain. rewrite in_map_iff. intros (o & Eo & Ho).
    destruct o as [|v s|]; try discriminate. inversion Eo; subst reg sw. clear Eo.
    assert (Hds : forall v', with_head D (pcr0data tail v') ds = enabled_digests comb (Some v')).
    { intro v'. symmetry. subst ds. eapply enabled_digests_data; eauto. }
    assert (Hlen : length ds = length (m :: en')) by (subst ds; apply map_length).
    apply acm_outcomes_found in Ho.
    assert (G : forall v2, acm_try loc tail ds v2 = Some s ->
                swaps_wf (length (m :: en')) (fresh (length (m :: en'))) s).
    { intros v2 H2. unfold PCR0Search.acm_try in H2. apply order_search_sound in H2 as (Hwf & _).
      now rewrite length_with_head, Hlen in Hwf. }
    assert (Hsp : forall s', acm_try loc tail ds v = Some s' ->
              (lin_cand cf reg0 v \/ comb_cand reg0 v) ->
              space (lin_decs (lin_limit st) cf) loc comb (Some v) s').
    { intros s' Hs' Hc. unfold PCR0Search.acm_try in Hs'.
      apply order_search_sound in Hs' as (Hwf & Hl & Hr).
      rewrite length_with_head, Hlen in Hwf. rewrite Hds in Hr.
      unfold space. fold fl. change (select fl log) with en. rewrite Een, Em.
      split; [exact Hwf|]. split; [exact Hl|]. split; [|exact Hr].
      exists v. split; [reflexivity|]. exact Hc. }
    destruct Ho as [(d1 & d2 & Hd1 & Hd2 & Ev & Hv & Hs)|(Hce & k1 & b1 & k2 & b2 & Hk1 & Hk2 & Hb1 & Hb2 & Ev & Hv & Hs)].
    - destruct (acm_try loc tail ds v) as [s'|] eqn:Es'; [|congruence].
      exists s, s'. split; [reflexivity|]. split; [|split; [eapply G; eauto|]].
      + apply Hsp; [reflexivity|]. left. exists d1. auto.
      + intro Hu. destruct (Hu loc comb m en' tail reg0 Een Em) as (Hu1 & _).
        assert (d1 = d2).
        { apply Hu1; auto; fold ds; rewrite <- ?Ev; congruence. }
        subst d2. rewrite <- Ev in Hs. congruence.
    - destruct (acm_try loc tail ds v) as [s'|] eqn:Es'; [|congruence].
      exists s, s'. split; [reflexivity|]. split; [|split; [eapply G; eauto|]].
      + apply Hsp; [reflexivity|]. right. split; [exact Hce|]. exists k1, b1. auto.
      + intro Hu. destruct (Hu loc comb m en' tail reg0 Een Em) as (_ & Hu2).
        assert (b1 = b2).
        { apply (Hu2 k1 b1 k2 b2 Hk1 Hk2 Hb1 Hb2); fold ds.
          - rewrite <- Ev, Es'. discriminate.
          - rewrite Hs. discriminate. }
        subst b2. rewrite <- Ev in Hs. congruence.
  Qed.

  (** ** From the outcome list back to one try *)

  Notation worker_events := (worker_events D deqb pcr_init extend pcr0data st log target).
  Notation level_outcomes := (level_outcomes D deqb pcr_init extend pcr0data st log target).
  Notation level_workers := (level_workers D log).
  Notation job_levels := (job_levels D deqb pcr_init extend pcr0data st log target).
  Notation job := (job D deqb pcr_init extend pcr0data st log target).
  Notation outcomes := (outcomes D deqb pcr_init extend pcr0data st log target).
  Notation kmax := (kmax D st log).
  (** capacity of resultCh at level [k] under GOMAXPROCS = [cf] *)
  Notation lcap cf k := (res_cap (amount64 (Z.of_nat nlog) k) cf).

  Lemma worker_events_in cf loc combs c o :
    In (Some (c, o)) (worker_events cf loc combs) ->
    In c combs /\ In o (try_outcomes cf loc c) /\ is_event o = true.
  Proof.
    induction combs as [|c0 t IH]; cbn [PCR0Search.worker_events].
    - intros [H|[]]; discriminate.
    - rewrite in_app_iff, in_map_iff. intros [(o' & E & Ho)|H].
      + inversion E; subst. apply filter_In in Ho. cbn. tauto.
      + destruct (existsb is_tnone (try_outcomes cf loc c0)); [|destruct H].
        destruct (IH H) as (H1 & H2). cbn. tauto.
  Qed.

  Definition from_try (cf loc : Z) (ws : list (list (list Z))) (r : result) : Prop :=
    exists cs c reg sw, In cs ws /\ In c cs /\ In (TFound reg sw) (try_outcomes cf loc c) /\
                        r = mkResult loc reg (disabled_of c) sw.

  Lemma level_found cap cf loc ws r :
    In (JFound r) (level_outcomes cap cf loc ws) -> from_try cf loc ws r.
  Proof.
    unfold PCR0Search.level_outcomes. rewrite !in_app_iff. intros [H|[H|H]].
    - apply in_flat_map in H as (e & He & H). apply in_concat in He as (evs & Hevs & He).
      apply in_map_iff in Hevs as (cs & <- & Hcs).
      destruct e as [[c [|reg sw|]]|]; cbn in H; try tauto.
      + destruct H as [H|[]]. inversion H; subst.
        apply worker_events_in in He as (Hc & Ho & _). exists cs, c, reg, sw. tauto.
      + destruct H as [H|[]]; discriminate.
    - destruct (forallb _ _); [destruct H as [H|[]]; discriminate|destruct H].
    - destruct (Nat.ltb _ _); [destruct H as [H|[]]; discriminate|destruct H].
  Qed.

  Lemma job_found cf loc r : forall fuel k,
    In (JFound r) (job_levels fuel k cf loc) ->
    exists k' ws, (k <= k' < k + fuel)%nat /\ level_workers cf k' = Ok ws /\ from_try cf loc ws r.
  Proof.
    induction fuel as [|f IH]; intros k H; cbn [PCR0Search.job_levels] in H.
    - destruct H as [H|[]]; discriminate.
    - destruct (level_workers cf k) as [ws| | |] eqn:Ew; try (destruct H as [H|[]]; discriminate).
      apply in_flat_map in H as (o & Ho & H).
      destruct o; try (destruct H as [H|[]]; try discriminate).
      + inversion H; subst. exists k, ws. split; [lia|]. split; [exact Ew|]. eapply level_found; eauto.
      + destruct (IH _ H) as (k' & ws' & Hk & Hw & Hf). exists k', ws'. split; [lia|]. tauto.
  Qed.

  Lemma in_j_founds r l : In (FSome r) (j_founds l) <-> In (JFound r) l.
  Proof.
    unfold j_founds. rewrite in_flat_map. split.
    - intros (o & Ho & H). destruct o; cbn in H; try tauto. destruct H as [H|[]]. inversion H; now subst.
    - intro H. exists (JFound r). split; [exact H|now left].
  Qed.

  Lemma outcomes_found cf r :
    In (FSome r) (outcomes cf) -> exists loc, (loc = 0 \/ loc = 3) /\ In (JFound r) (job cf loc).
  Proof.
    unfold PCR0Search.outcomes. rewrite !in_app_iff, !in_j_founds. intros [H|[H|[H|[H|H]]]].
    - exists 0. tauto.
    - exists 3. tauto.
    - destruct (_ && _); [destruct H as [H|[]]; discriminate|destruct H].
    - destruct (_ || _); [destruct H as [H|[]]; discriminate|destruct H].
    - destruct (_ || _); [destruct H as [H|[]]; discriminate|destruct H].
  Qed.

  Lemma swaps_wf_range n sw s : swaps_wf n sw s -> Forall (fun i => (i < n)%nat) (swap_idx s).
  Proof. intros (_ & H & _). eapply Forall_impl; [|exact H]. cbn. tauto. Qed.

  (** ** Soundness *)

  Lemma try_sound cf loc comb reg sw :
    acm_unique cf -> In (TFound reg sw) (try_outcomes cf loc comb) ->
    replay_result (mkResult loc reg (disabled_of comb) sw) = target.
  Proof.
    intros Hu H. apply try_found in H as (s & s' & -> & Hsp & Hwf & Heq).
    rewrite (Heq Hu) in Hsp. destruct Hsp as (_ & _ & _ & Hr).
    unfold PCR0Search.replay_result. cbn [r_loc].
    rewrite apply_result_eq; [exact Hr|]. eapply swaps_wf_range; eauto.
  Qed.

  Theorem sound cf r :
    acm_unique cf -> In (FSome r) (outcomes cf) ->
    replay_result r = target /\ (r_loc r = 0 \/ r_loc r = 3).
  Proof.
    intros Hu H. apply outcomes_found in H as (loc & Hloc & H).
    apply job_found in H as (k & ws & _ & _ & cs & c & reg & sw & _ & _ & Ht & ->).
    split; [now apply (try_sound cf)|exact Hloc].
  Qed.

  (** without any assumption on the hash: locality, register and disabled
      measurements of every reported result are right; there are swaps that
      make the replay match *)
  Theorem sound_upto_swaps cf r :
    In (FSome r) (outcomes cf) ->
    exists sw', replay_result (mkResult (r_loc r) (r_reg r) (r_disabled r) sw') = target.
  Proof.
    intro H. apply outcomes_found in H as (loc & Hloc & H).
    apply job_found in H as (k & ws & _ & _ & cs & c & reg & sw & _ & _ & Ht & ->).
    apply try_found in Ht as (s & s' & -> & Hsp & _ & _).
    destruct Hsp as (Hwf & _ & _ & Hr).
    exists (shift_swaps (idx_shifts (enabled_flags c) 0) s'). cbn [r_loc r_reg r_disabled].
    unfold PCR0Search.replay_result. cbn [r_loc].
    rewrite apply_result_eq; [exact Hr|]. eapply swaps_wf_range; eauto.
  Qed.

  (** ** Completeness of one try *)

  Lemma space_plain decs loc comb s :
    match select (enabled_flags comb) log with m :: _ => m_data m = None | [] => True end ->
    order_search loc (map (@m_dig D) (select (enabled_flags comb) log)) = Some s ->
    space decs loc comb None s.
  Proof.
    intros Hh Eo. apply order_search_sound in Eo as (Hwf & Hl & Hr). rewrite map_length in Hwf.
    unfold space. split; [exact Hwf|]. split; [exact Hl|]. split; [|exact Hr].
    destruct (select (enabled_flags comb) log) as [|m en']; [reflexivity|]. now rewrite Hh.
  Qed.

  Lemma space_data decs loc comb m en' tail reg0 v s' :
    select (enabled_flags comb) log = m :: en' -> m_data m = Some (tail, reg0) ->
    acm_try loc tail (map (@m_dig D) (m :: en')) v = Some s' ->
    ((exists d, In d decs /\ v = wrap64 (reg0 - d)) \/ comb_cand reg0 v) ->
    space decs loc comb (Some v) s'.
  Proof.
    intros Een Em Hs' Hc. unfold PCR0Search.acm_try in Hs'.
    apply order_search_sound in Hs' as (Hwf & Hl & Hr).
    rewrite length_with_head, map_length in Hwf.
    rewrite <- (enabled_digests_data comb m en' tail reg0 v Een Em) in Hr.
    unfold space. rewrite Een, Em.
    split; [exact Hwf|]. split; [exact Hl|]. split; [|exact Hr].
    exists v. split; [reflexivity|exact Hc].
  Qed.

  Lemma block_hit_complete loc tail reg ms se d :
    In d (block_decs se) -> acm_try loc tail ms (wrap64 (reg - d)) <> None ->
    block_hit loc tail reg ms se <> None.
  Proof.
    intros Hd Ht. unfold PCR0Search.block_hit. apply first_some_not_None with (x := d); [exact Hd|].
    destruct (acm_try loc tail ms (wrap64 (reg - d))); [discriminate|congruence].
  Qed.

  Lemma comb_from_complete : forall fuel d k loc tail reg ms,
    (d <= k < d + fuel)%nat -> comb_hits_at loc tail reg ms k <> [] ->
    comb_from fuel d loc tail reg ms <> [].
  Proof.
    induction fuel as [|f IH]; intros d k loc tail reg ms Hk Hh; [lia|].
    rewrite comb_from_S. destruct (comb_hits_at loc tail reg ms d) as [|h0 hs] eqn:E.
    - apply (IH (S d) k); [|exact Hh]. destruct (Nat.eq_dec d k) as [->|]; [congruence|lia].
    - discriminate.
  Qed.

  Lemma comb_hits_at_in loc tail reg ms k bs s :
    In bs (subsets k 0 64) -> acm_try loc tail ms (flip_reg reg bs) = Some s ->
    In (flip_reg reg bs, s) (comb_hits_at loc tail reg ms k).
  Proof.
    intros Hb Ht. unfold PCR0Search.comb_hits_at. rewrite in_somes, in_map_iff.
    exists bs. split; [|exact Hb]. rewrite Ht. reflexivity.
  Qed.

  Lemma comb_hits_at_complete loc tail reg ms k bs :
    In bs (subsets k 0 64) -> acm_try loc tail ms (flip_reg reg bs) <> None ->
    comb_hits_at loc tail reg ms k <> [].
  Proof.
    intros Hb Ht E. destruct (acm_try loc tail ms (flip_reg reg bs)) as [s|] eqn:Es; [|congruence].
    pose proof (comb_hits_at_in loc tail reg ms k bs s Hb Es) as H. rewrite E in H. destruct H.
  Qed.

  Lemma acm_outcomes_none cf loc tail reg ms :
    In SNone (acm_outcomes cf loc tail reg ms) ->
    lin_hits cf loc tail reg ms = [] /\
    (comb_enabled st = true -> comb_from (S comb_maxd) 0 loc tail reg ms = []).
  Proof.
    unfold PCR0Search.acm_outcomes. rewrite in_flat_map. intros (o & Ho & H).
    destruct o as [|v' s'|].
    - split; [now apply lin_outcomes_none|]. intro Ec. rewrite Ec in H.
      unfold PCR0Search.comb_outcomes in H.
      destruct (comb_from (S comb_maxd) 0 loc tail reg ms) as [|h0 hs]; [reflexivity|].
      exfalso. apply in_flat_map in H as (x & _ & H). apply in_map_iff in H as (y & E & _). discriminate.
    - destruct H as [H|[]]; discriminate.
    - destruct H as [H|[]]; discriminate.
  Qed.

  Lemma acm_outcomes_all_none cf loc tail reg ms :
    lin_hits cf loc tail reg ms = [] ->
    (comb_enabled st = true -> comb_from (S comb_maxd) 0 loc tail reg ms = []) ->
    acm_outcomes cf loc tail reg ms = [SNone].
  Proof.
    intros Hl Hc. unfold PCR0Search.acm_outcomes. rewrite Hl. cbn [lin_outcomes flat_map app].
    destruct (comb_enabled st); [|reflexivity].
    unfold PCR0Search.comb_outcomes. rewrite (Hc eq_refl). reflexivity.
  Qed.

  Definition lift_sres (sh : list nat) (o : sres) : tres :=
    match o with
    | SNone => TNone
    | SFound v s => TFound (Some v) (shift_swaps sh s)
    | SErr => TErr
    end.

  Definition head_plain (comb : list Z) : Prop :=
    match select (enabled_flags comb) log with m :: _ => m_data m = None | [] => True end.

  Lemma try_outcomes_plain cf loc comb : head_plain comb ->
    try_outcomes cf loc comb =
    match order_search loc (map (@m_dig D) (select (enabled_flags comb) log)) with
    | Some s => [TFound None (shift_swaps (idx_shifts (enabled_flags comb) 0) s)]
    | None => [TNone]
    end.
  Proof.
    unfold head_plain, PCR0Search.try_outcomes.
    destruct (select (enabled_flags comb) log) as [|m en']; [reflexivity|].
    intro H. rewrite H. reflexivity.
  Qed.

  Lemma try_outcomes_data cf loc comb m en' tail reg0 :
    select (enabled_flags comb) log = m :: en' -> m_data m = Some (tail, reg0) ->
    try_outcomes cf loc comb =
    map (lift_sres (idx_shifts (enabled_flags comb) 0))
        (acm_outcomes cf loc tail reg0 (map (@m_dig D) (m :: en'))).
  Proof.
    intros E Hm. unfold PCR0Search.try_outcomes. rewrite E, Hm. reflexivity.
  Qed.

  Lemma head_cases comb :
    head_plain comb \/
    exists m en' tail reg0, select (enabled_flags comb) log = m :: en' /\ m_data m = Some (tail, reg0).
  Proof.
    unfold head_plain. destruct (select (enabled_flags comb) log) as [|m en']; [now left|].
    destruct (m_data m) as [[tail reg0]|] eqn:E; [|now left].
    right. exists m, en', tail, reg0. split; [reflexivity|exact E].
  Qed.

  (** a point of the searched space forces an event *)
  Lemma try_no_none cf loc comb reg s :
    space (lin_decs (lin_limit st) cf) loc comb reg s -> ~ In TNone (try_outcomes cf loc comb).
  Proof.
    intros (Hwf & Hl & Hreg & Hr) Hn.
    destruct (head_cases comb) as [Hp|(m & en' & tail & reg0 & Een & Em)].
    - rewrite (try_outcomes_plain cf loc comb Hp) in Hn.
      assert (reg = None) as ->.
      { unfold head_plain in Hp. destruct (select (enabled_flags comb) log) as [|m en']; [exact Hreg|].
        rewrite Hp in Hreg. exact Hreg. }
      rewrite enabled_digests_plain in Hr.
      destruct (order_search loc (map (@m_dig D) (select (enabled_flags comb) log))) as [s0|] eqn:Eo.
      + destruct Hn as [Hn|[]]; discriminate.
      + revert Eo. apply (order_search_complete loc _ s); [now rewrite map_length|exact Hl|exact Hr].
    - rewrite (try_outcomes_data cf loc comb m en' tail reg0 Een Em) in Hn.
      apply in_map_iff in Hn as (o & Eo & Ho). destruct o; try discriminate. clear Eo.
      apply acm_outcomes_none in Ho as (Hlin & Hcomb).
      rewrite Een, Em in Hreg. destruct Hreg as (v & -> & Hv).
      rewrite (enabled_digests_data comb m en' tail reg0 v Een Em) in Hr.
      set (ds := map (@m_dig D) (m :: en')) in *.
      assert (Ht : acm_try loc tail ds v <> None).
      { unfold PCR0Search.acm_try. apply (order_search_complete loc _ s); [|exact Hl|exact Hr].
        rewrite length_with_head. subst ds. rewrite map_length. rewrite Een in Hwf. exact Hwf. }
      destruct Hv as [(d & Hd & ->)|(Hce & k & bs & Hk & Hbs & ->)].
      + unfold lin_decs in Hd. apply in_flat_map in Hd as (se & Hse & Hd).
        pose proof (block_hit_complete loc tail reg0 ds se d Hd Ht) as Hb.
        unfold PCR0Search.lin_hits in Hlin.
        pose proof (somes_map_nil _ _ Hlin se Hse). contradiction.
      + apply (comb_from_complete (S comb_maxd) 0 k loc tail reg0 ds); [lia| |now apply Hcomb].
        now apply (comb_hits_at_complete loc tail reg0 ds k bs).
  Qed.

  (** no point of the searched space: the try reports nothing *)
  Lemma try_all_none cf loc comb :
    (forall reg s, ~ space (lin_decs (lin_limit st) cf) loc comb reg s) ->
    try_outcomes cf loc comb = [TNone].
  Proof.
    intro Hno. destruct (head_cases comb) as [Hp|(m & en' & tail & reg0 & Een & Em)].
    - rewrite (try_outcomes_plain cf loc comb Hp).
      destruct (order_search loc (map (@m_dig D) (select (enabled_flags comb) log))) as [s0|] eqn:Eo;
        [|reflexivity].
      exfalso. apply (Hno None s0). now apply space_plain.
    - rewrite (try_outcomes_data cf loc comb m en' tail reg0 Een Em).
      rewrite acm_outcomes_all_none; [reflexivity| |].
      + destruct (lin_hits cf loc tail reg0 (map (@m_dig D) (m :: en'))) as [|[v s] t] eqn:E; [reflexivity|].
        exfalso. assert (Hin : In (v, s) (lin_hits cf loc tail reg0 (map (@m_dig D) (m :: en'))))
          by (rewrite E; now left).
        apply in_lin_hits in Hin as (d & Hd & Ev & Ht).
        apply (Hno (Some v) s). eapply space_data; eauto.
      + intro Hce.
        destruct (comb_from (S comb_maxd) 0 loc tail reg0 (map (@m_dig D) (m :: en'))) as [|[v s] t] eqn:E;
          [reflexivity|].
        exfalso. assert (Hin : In (v, s) (comb_from (S comb_maxd) 0 loc tail reg0 (map (@m_dig D) (m :: en'))))
          by (rewrite E; now left).
        apply comb_from_in in Hin as (k & Hk & Hin). apply in_comb_hits_at in Hin as (bs & Hbs & Ev & Ht).
        apply (Hno (Some v) s). eapply space_data; eauto.
        right. split; [exact Hce|]. exists k, bs. split; [lia|]. split; [exact Hbs|exact Ev].
  Qed.

  (** the internal error needs two goroutines of the linear search to succeed *)
  Lemma try_err cf loc comb : In TErr (try_outcomes cf loc comb) ->
    exists m en' tail reg0 i j d1 d2,
      select (enabled_flags comb) log = m :: en' /\ m_data m = Some (tail, reg0) /\
      0 <= i < cf /\ 0 <= j < cf /\ i <> j /\
      in_block (lin_limit st) cf i d1 /\ in_block (lin_limit st) cf j d2 /\
      acm_try loc tail (map (@m_dig D) (m :: en')) (wrap64 (reg0 - d1)) <> None /\
      acm_try loc tail (map (@m_dig D) (m :: en')) (wrap64 (reg0 - d2)) <> None.
  Proof.
    intro H. destruct (head_cases comb) as [Hp|(m & en' & tail & reg0 & Een & Em)].
    - rewrite (try_outcomes_plain cf loc comb Hp) in H.
      destruct (order_search loc _); destruct H as [H|[]]; discriminate.
    - rewrite (try_outcomes_data cf loc comb m en' tail reg0 Een Em) in H.
      apply in_map_iff in H as (o & Eo & Ho). destruct o; try discriminate. clear Eo.
      set (ds := map (@m_dig D) (m :: en')) in *.
      unfold PCR0Search.acm_outcomes in Ho. apply in_flat_map in Ho as (o & Ho & H).
      destruct o as [|v' s'|].
      + destruct (comb_enabled st); [|destruct H as [H|[]]; discriminate].
        exfalso. revert H. apply comb_outcomes_no_err.
      + destruct H as [H|[]]; discriminate.
      + clear H. apply lin_outcomes_err in Ho. unfold PCR0Search.lin_hits, lin_blocks in Ho.
        rewrite map_map in Ho. apply somes_map_two in Ho as (l1 & i & l2 & j & l3 & El & Hi & Hj).
        pose proof (NoDup_seqZ (Z.to_nat cf) 0) as Hnd. rewrite El in Hnd.
        assert (Hij : i <> j).
        { apply NoDup_remove_2 in Hnd. intro E. apply Hnd. subst j.
          apply in_or_app. right. apply in_or_app. right. now left. }
        assert (Hri : 0 <= i < cf).
        { assert (Hin : In i (seqZ 0 (Z.to_nat cf))) by (rewrite El, in_app_iff; right; now left).
          apply in_seqZ in Hin. lia. }
        assert (Hrj : 0 <= j < cf).
        { assert (Hin : In j (seqZ 0 (Z.to_nat cf)))
            by (rewrite El; apply in_or_app; right; right; apply in_or_app; right; now left).
          apply in_seqZ in Hin. lia. }
        destruct (block_hit loc tail reg0 ds (lin_block (lin_limit st) cf i)) as [[v1 s1]|] eqn:E1; [|congruence].
        destruct (block_hit loc tail reg0 ds (lin_block (lin_limit st) cf j)) as [[v2 s2]|] eqn:E2; [|congruence].
        apply block_hit_Some in E1 as (d1 & Hd1 & -> & Ht1).
        apply block_hit_Some in E2 as (d2 & Hd2 & -> & Ht2).
        apply in_block_decs in Hd1. apply in_block_decs in Hd2.
        exists m, en', tail, reg0, i, j, d1, d2. fold ds.
        split; [exact Een|]. split; [exact Em|]. split; [exact Hri|]. split; [exact Hrj|].
        split; [exact Hij|]. split; [exact Hd1|]. split; [exact Hd2|].
        split; [rewrite Ht1|rewrite Ht2]; discriminate.
  Qed.

  Lemma try_no_err cf loc comb : acm_unique cf -> ~ In TErr (try_outcomes cf loc comb).
  Proof.
    intros Hu H. apply try_err in H as (m & en' & tail & reg0 & i & j & d1 & d2 & Een & Em & Hi & Hj & Hij & H1 & H2 & T1 & T2).
    destruct (Hu loc comb m en' tail reg0 Een Em) as (Hu1 & _).
    assert (d1 = d2).
    { apply Hu1; try assumption; apply in_lin_decs; eauto. }
    subst d2. apply Hij. eapply in_block_inj; eauto.
  Qed.

  (** an internal error only beside a success: two succeeding goroutines *)
  Lemma try_err_found cf loc comb : In TErr (try_outcomes cf loc comb) ->
    exists reg s, space (lin_decs (lin_limit st) cf) loc comb reg s.
  Proof.
    intro H. apply try_err in H as (m & en' & tail & reg0 & i & j & d1 & d2 & Een & Em & Hi & Hj & Hij & H1 & H2 & T1 & T2).
    destruct (acm_try loc tail (map (@m_dig D) (m :: en')) (wrap64 (reg0 - d1))) as [s|] eqn:E; [|congruence].
    exists (Some (wrap64 (reg0 - d1))), s. eapply space_data; eauto.
    left. exists d1. split; [|reflexivity]. apply in_lin_decs. eauto.
  Qed.

  (** ** The workers of one level visit every combination *)

  Definition no_overflow : Prop :=
    Z.of_nat nlog + 1 < 2 ^ 63 /\ forall k, (k < kmax)%nat -> binom (S nlog) k < 2 ^ 64.

  Lemma Ok_inj {X} (a b : X) : Ok a = Ok b -> a = b.
  Proof. intro H. injection H. auto. Qed.

  Lemma kmax_le : (kmax <= nlog)%nat.
  Proof. unfold PCR0Search.kmax. lia. Qed.

  Lemma level_workers_ok cf k : 1 <= cf -> no_overflow -> (k < kmax)%nat ->
    exists ws, level_workers cf k = Ok ws /\
      (forall cs c, In cs ws -> In c cs -> Valid (Z.of_nat nlog) c /\ length c = k) /\
      (forall c, Valid (Z.of_nat nlog) c -> length c = k -> exists cs, In cs ws /\ In c cs).
  Proof.
    intros Hcf (Hm & Hb) Hk. pose proof kmax_le as Hkm.
    unfold PCR0Search.level_workers. set (m := Z.of_nat nlog) in *.
    assert (Hkm1 : Z.of_nat k <= m + 1) by lia.
    assert (Hm' : m + 1 < I63) by (rewrite I63_pow; exact Hm).
    assert (Bk : bz (m + 1) k < W64).
    { rewrite W64_pow. unfold bz. replace (Z.to_nat (m + 1)) with (S nlog) by lia. now apply Hb. }
    rewrite (amount64_exact m k) by (assumption || lia).
    set (A := bz (m + 1) k) in *.
    assert (Hw : forall se, In se (comb_slices A cf) ->
              exists cs, worker_combs m k se = Ok cs /\
                (forall c, In c cs -> Valid m c /\ length c = k) /\
                (forall c, Valid m c -> length c = k -> fst se <= rank m c < snd se -> In c cs)).
    { intros se Hse. apply comb_slices_range in Hse. apply worker_combs_ok; try assumption. lia. }
    destruct (collect_map_ok (worker_combs m k) (comb_slices A cf)) as (ws & Ews & F).
    { intros se Hse. destruct (Hw se Hse) as (cs & E & _). eauto. }
    exists ws. split; [exact Ews|]. split.
    - intros cs c Hcs Hc. destruct (Forall2_in_r _ _ _ cs F Hcs) as (se & Hse & E).
      destruct (Hw se Hse) as (cs' & E' & Hv & _). rewrite E in E'. apply Ok_inj in E'. subst cs'.
      now apply Hv.
    - intros c Vc Lc. pose proof (rank_bounds m c Vc) as Rb. rewrite Lc in Rb. fold A in Rb.
      destruct (comb_slices_cover A cf (rank m c) Rb) as (se & Hse & Hr).
      destruct (Forall2_in_l _ _ _ se F Hse) as (cs & Hcs & E).
      destruct (Hw se Hse) as (cs' & E' & _ & Hc). rewrite E in E'. apply Ok_inj in E'. subst cs'.
      exists cs. split; [exact Hcs|]. now apply Hc.
  Qed.

  (** ** What one level can report *)

  Lemma worker_events_none cf loc : forall combs,
    In None (worker_events cf loc combs) -> forall c, In c combs -> In TNone (try_outcomes cf loc c).
  Proof.
    induction combs as [|c0 t IH]; intros H c Hc; [destruct Hc|].
    cbn [PCR0Search.worker_events] in H. apply in_app_or in H as [H|H].
    - apply in_map_iff in H as (o & E & _). discriminate.
    - destruct (existsb is_tnone (try_outcomes cf loc c0)) eqn:Ee; [|destruct H].
      destruct Hc as [<-|Hc]; [|now apply IH].
      apply existsb_exists in Ee as (x & Hx & Ex). destruct x; try discriminate. exact Hx.
  Qed.

  Lemma worker_events_all_none cf loc : forall combs,
    (forall c, In c combs -> try_outcomes cf loc c = [TNone]) -> worker_events cf loc combs = [None].
  Proof.
    induction combs as [|c0 t IH]; intro H; [reflexivity|].
    cbn [PCR0Search.worker_events]. rewrite (H c0 (or_introl eq_refl)).
    cbn [filter is_event map existsb is_tnone orb app]. apply IH. intros c Hc. apply H. now right.
  Qed.

  Lemma level_outcomes_inv cap cf loc ws o : In o (level_outcomes cap cf loc ws) ->
    (exists r, o = JFound r /\ from_try cf loc ws r) \/
    (o = JErr /\ exists cs c, In cs ws /\ In c cs /\ In TErr (try_outcomes cf loc c)) \/
    (o = JNext /\ forall cs c, In cs ws -> In c cs -> In TNone (try_outcomes cf loc c)) \/
    (o = JHang /\
     (Z.to_nat cap < length (filter (existsb is_some) (map (worker_events cf loc) ws)))%nat).
  Proof.
    unfold PCR0Search.level_outcomes. intro H. apply in_app_or in H as [H|H]; [|apply in_app_or in H as [H|H]].
    - apply in_flat_map in H as (e & He & H). apply in_concat in He as (evs & Hevs & He).
      apply in_map_iff in Hevs as (cs & <- & Hcs).
      destruct e as [[c [|reg sw|]]|]; cbn [ev_results] in H; try (destruct H; fail).
      + destruct H as [H|[]]. subst o. left. eexists. split; [reflexivity|].
        apply worker_events_in in He as (Hc & Ho & _). exists cs, c, reg, sw. tauto.
      + destruct H as [H|[]]. subst o. right. left. split; [reflexivity|].
        apply worker_events_in in He as (Hc & Ho & _). exists cs, c. tauto.
    - destruct (forallb (existsb is_none) (map (worker_events cf loc) ws)) eqn:E; [|destruct H].
      destruct H as [H|[]]. subst o. right. right. left. split; [reflexivity|].
      intros cs c Hcs Hc. rewrite forallb_forall in E.
      specialize (E (worker_events cf loc cs) (in_map _ _ _ Hcs)).
      apply existsb_exists in E as (x & Hx & Ex). destruct x; [discriminate|].
      eapply worker_events_none; eauto.
    - destruct (Nat.ltb_spec (Z.to_nat cap) (length (filter (existsb is_some) (map (worker_events cf loc) ws))));
        [|destruct H].
      destruct H as [H|[]]. subst o. right. right. right. split; [reflexivity|assumption].
  Qed.

  (** *** The result channel has room for every worker: the level always ends *)

  Lemma filter_len_le {X} (f : X -> bool) : forall l, (length (filter f l) <= length l)%nat.
  Proof. induction l as [|x l IH]; cbn [filter length]; [lia|]. destruct (f x); cbn [length]; lia. Qed.

  Lemma collect_length {X} : forall (l : list (outcome X)) r, collect l = Ok r -> length r = length l.
  Proof.
    induction l as [|o l IH]; intros r H; cbn [collect] in H.
    - inversion H. reflexivity.
    - destruct o as [x| | |]; cbn [bind] in H; try discriminate.
      destruct (collect l) as [r'| | |]; cbn [bind] in H; try discriminate.
      inversion H. cbn [length]. f_equal. now apply IH.
  Qed.

  (** the capacity is the number of goroutines started *)
  Lemma res_cap_slices amount cf : Z.to_nat (res_cap amount cf) = length (comb_slices amount cf).
  Proof.
    unfold res_cap, comb_slices. rewrite map_length, seqZ_length.
    replace (amount - 1 + comb_cpr amount cf) with (amount + comb_cpr amount cf - 1) by lia. reflexivity.
  Qed.

  Lemma level_no_hang cf loc k ws : level_workers cf k = Ok ws ->
    ~ In JHang (level_outcomes (lcap cf k) cf loc ws).
  Proof.
    intros Ew H. apply level_outcomes_inv in H as [(r & E & _)|[(E & _)|[(E & _)|(_ & Hlt)]]]; try discriminate.
    unfold PCR0Search.level_workers in Ew. apply collect_length in Ew. rewrite map_length in Ew.
    rewrite res_cap_slices in Hlt.
    pose proof (filter_len_le (existsb is_some) (map (worker_events cf loc) ws)) as Hle.
    rewrite map_length in Hle. lia.
  Qed.

  Lemma level_all_none cap cf loc ws : 1 <= cf ->
    (forall cs c, In cs ws -> In c cs -> try_outcomes cf loc c = [TNone]) ->
    level_outcomes cap cf loc ws = [JNext].
  Proof.
    intros Hcf H. unfold PCR0Search.level_outcomes.
    assert (E : map (worker_events cf loc) ws = map (fun _ => [None]) ws).
    { apply map_ext_in. intros cs Hcs. apply worker_events_all_none. intros c Hc. eapply H; eauto. }
    rewrite E. clear E H.
    assert (E1 : flat_map (ev_results D log loc) (concat (map (fun _ : list (list Z) => [@None (list Z * tres)]) ws)) = []).
    { induction ws as [|w ws IH]; [reflexivity|]. cbn [map concat app flat_map ev_results]. exact IH. }
    assert (E2 : forallb (existsb is_none) (map (fun _ : list (list Z) => [@None (list Z * tres)]) ws) = true).
    { clear E1. induction ws as [|w ws IH]; [reflexivity|]. cbn [map forallb existsb is_none orb andb]. exact IH. }
    assert (E3 : filter (existsb is_some) (map (fun _ : list (list Z) => [@None (list Z * tres)]) ws) = []).
    { clear E1 E2. induction ws as [|w ws IH]; [reflexivity|]. cbn [map filter existsb is_some orb]. exact IH. }
    rewrite E1, E2, E3. cbn [length app].
    destruct (Nat.ltb_spec (Z.to_nat cap) 0); [lia|reflexivity].
  Qed.

  (** ** The levels of one job *)

  Lemma job_levels_inv cf loc : forall fuel k o, In o (job_levels fuel k cf loc) ->
    (o = JNone /\ forall k', (k <= k' < k + fuel)%nat ->
        exists ws, level_workers cf k' = Ok ws /\ In JNext (level_outcomes (lcap cf k') cf loc ws)) \/
    (o = JPanic /\ exists k', (k <= k' < k + fuel)%nat /\ forall ws, level_workers cf k' <> Ok ws) \/
    (exists k' ws, (k <= k' < k + fuel)%nat /\ level_workers cf k' = Ok ws /\
        In o (level_outcomes (lcap cf k') cf loc ws) /\ o <> JNext).
  Proof.
    induction fuel as [|f IH]; intros k o H; cbn [PCR0Search.job_levels] in H.
    - destruct H as [<-|[]]. left. split; [reflexivity|]. intros k' Hk'. lia.
    - destruct (level_workers cf k) as [ws| | |] eqn:Ew.
      + apply in_flat_map in H as (o' & Ho' & H).
        assert (Hother : o' <> JNext -> In o [o'] ->
                  exists k' ws, (k <= k' < k + S f)%nat /\ level_workers cf k' = Ok ws /\
                    In o (level_outcomes (lcap cf k') cf loc ws) /\ o <> JNext).
        { intros Hne [<-|[]]. exists k, ws. split; [lia|]. tauto. }
        destruct o'; try (right; right; apply Hother; [discriminate|exact H]).
        destruct (IH _ _ H) as [(-> & Hall)|[(-> & k' & Hk' & Hno)|(k' & ws' & Hk' & Hw & Hin & Hne)]].
        * left. split; [reflexivity|]. intros k' Hk'.
          destruct (Nat.eq_dec k' k) as [->|]; [exists ws; tauto|]. apply Hall. lia.
        * right. left. split; [reflexivity|]. exists k'. split; [lia|exact Hno].
        * right. right. exists k', ws'. split; [lia|tauto].
      + destruct H as [<-|[]]. right. left. split; [reflexivity|]. exists k. split; [lia|]. intros ws E. rewrite Ew in E. discriminate.
      + destruct H as [<-|[]]. right. left. split; [reflexivity|]. exists k. split; [lia|]. intros ws E. rewrite Ew in E. discriminate.
      + destruct H as [<-|[]]. right. left. split; [reflexivity|]. exists k. split; [lia|]. intros ws E. rewrite Ew in E. discriminate.
  Qed.

  Lemma job_no_panic cf loc : 1 <= cf -> no_overflow -> ~ In JPanic (job cf loc).
  Proof.
    intros Hcf Hno H. unfold PCR0Search.job in H.
    apply job_levels_inv in H as [(E & _)|[(_ & k' & Hk' & Hw)|(k' & ws & _ & _ & Hin & _)]].
    - discriminate.
    - destruct (level_workers_ok cf k' Hcf Hno ltac:(lia)) as (ws & E & _). now apply (Hw ws).
    - apply level_outcomes_inv in Hin as [(r & E & _)|[(E & _)|[(E & _)|(E & _)]]]; discriminate.
  Qed.

  (** no job waits for ever on its result channel (no hypothesis needed) *)
  Lemma job_no_hang cf loc : ~ In JHang (job cf loc).
  Proof.
    intro H. unfold PCR0Search.job in H.
    apply job_levels_inv in H as [(E & _)|[(E & _)|(k' & ws & _ & Ew & Hin & _)]]; try discriminate.
    revert Hin. now apply level_no_hang.
  Qed.

  (** every combination of fewer than kmax measurements of the filtered log *)
  Definition in_reach (c : list Z) : Prop := Valid (Z.of_nat nlog) c /\ (length c < kmax)%nat.

  Lemma job_complete cf loc c reg s : 1 <= cf -> no_overflow -> acm_unique cf ->
    in_reach c -> space (lin_decs (lin_limit st) cf) loc c reg s ->
    forall o, In o (job cf loc) -> exists r, o = JFound r.
  Proof.
    intros Hcf Hno Hu (Vc & Lc) Hsp o H. pose proof (job_no_hang cf loc) as Hnh. pose proof H as Hjob.
    unfold PCR0Search.job in H.
    apply job_levels_inv in H as [(-> & Hall)|[(-> & k' & Hk' & Hw)|(k' & ws & _ & _ & Hin & Hne)]].
    - exfalso. destruct (Hall (length c) ltac:(lia)) as (ws & Ew & Hn).
      destruct (level_workers_ok cf (length c) Hcf Hno Lc) as (ws' & Ew' & _ & Hcov).
      rewrite Ew in Ew'. apply Ok_inj in Ew'. subst ws'.
      destruct (Hcov c Vc eq_refl) as (cs & Hcs & Hc).
      apply level_outcomes_inv in Hn as [(r & E & _)|[(E & _)|[(_ & Hn)|(E & _)]]]; try discriminate.
      apply (try_no_none cf loc c reg s Hsp). eapply Hn; eauto.
    - exfalso. destruct (level_workers_ok cf k' Hcf Hno ltac:(lia)) as (ws & E & _). now apply (Hw ws).
    - apply level_outcomes_inv in Hin as [(r & -> & _)|[(-> & cs & c' & _ & _ & He)|[(-> & _)|(-> & _)]]].
      + eauto.
      + exfalso. now apply (try_no_err cf loc c' Hu).
      + congruence.
      + exfalso. apply Hnh. exact Hjob.
  Qed.

  Lemma job_none cf loc : 1 <= cf -> no_overflow ->
    (forall c reg s, in_reach c -> ~ space (lin_decs (lin_limit st) cf) loc c reg s) ->
    job cf loc = [JNone].
  Proof.
    intros Hcf Hno Hun. unfold PCR0Search.job.
    assert (G : forall fuel k, (k + fuel <= kmax)%nat -> job_levels fuel k cf loc = [JNone]).
    { induction fuel as [|f IH]; intros k Hk; [reflexivity|].
      cbn [PCR0Search.job_levels].
      destruct (level_workers_ok cf k Hcf Hno ltac:(lia)) as (ws & Ew & Hval & _). rewrite Ew.
      rewrite (level_all_none _ cf loc ws Hcf).
      - cbn [flat_map app]. rewrite IH by lia. reflexivity.
      - intros cs c Hcs Hc. apply try_all_none. intros reg s. apply Hun.
        destruct (Hval cs c Hcs Hc) as (V & L). split; [exact V|lia]. }
    apply G. lia.
  Qed.

  (** ** The search space of the property and the theorems about [outcomes] *)

  (** decrements 0 .. MaxACMPolicyLinearDistance-1 *)
  Definition prop_decs : list Z := seqZ 0 (Z.to_nat (lin_limit st)).

  Lemma in_prop_decs d : In d prop_decs <-> 0 <= d < lin_limit st.
  Proof. unfold prop_decs. rewrite in_seqZ. lia. Qed.

  (** the requested value can be produced: locality 0 or 3, fewer than
      min(len, MaxDisabledMeasurements) measurements dropped, register
      decreased by an element of [decs] or bit-flipped within the limit, at
      most MaxReorders disjoint swaps *)
  Definition reachable (decs : list Z) : Prop :=
    exists loc c reg s, (loc = 0 \/ loc = 3) /\ in_reach c /\ space decs loc c reg s.

  Lemma space_mono decs decs' loc c reg s :
    (forall d, In d decs -> In d decs') -> space decs loc c reg s -> space decs' loc c reg s.
  Proof.
    intros Hsub (H1 & H2 & H3 & H4). split; [exact H1|]. split; [exact H2|]. split; [|exact H4].
    destruct (select (enabled_flags c) log) as [|m en']; [exact H3|].
    destruct (m_data m) as [[tail reg0]|]; [|exact H3].
    destruct H3 as (v & E & [(d & Hd & Ev)|Hc]); exists v; (split; [exact E|]).
    - left. exists d. split; [now apply Hsub|exact Ev].
    - now right.
  Qed.

  Lemma reachable_mono decs decs' :
    (forall d, In d decs -> In d decs') -> reachable decs -> reachable decs'.
  Proof.
    intros Hsub (loc & c & reg & s & Hl & Hr & Hs). exists loc, c, reg, s.
    split; [exact Hl|]. split; [exact Hr|]. eapply space_mono; eauto.
  Qed.

  Lemma j_founds_inv o l : In o (j_founds l) -> exists r, o = FSome r /\ In (JFound r) l.
  Proof.
    unfold j_founds. rewrite in_flat_map. intros (x & Hx & H). destruct x; cbn in H; try tauto.
    destruct H as [<-|[]]. eauto.
  Qed.

  Lemma j_nores_true l : j_nores l = true -> In JNone l \/ In JErr l.
  Proof.
    unfold j_nores. intro H. apply existsb_exists in H as (x & Hx & E).
    destruct x; try discriminate; tauto.
  Qed.

  Lemma j_panic_true l : j_panic l = true -> In JPanic l.
  Proof.
    unfold j_panic. intro H. apply existsb_exists in H as (x & Hx & E).
    destruct x; try discriminate; tauto.
  Qed.

  Lemma j_hang_true l : j_hang l = true -> In JHang l.
  Proof.
    unfold j_hang. intro H. apply existsb_exists in H as (x & Hx & E).
    destruct x; try discriminate; tauto.
  Qed.

  Lemma outcomes_inv cf o : In o (outcomes cf) ->
    (exists r loc, (loc = 0 \/ loc = 3) /\ o = FSome r /\ In (JFound r) (job cf loc)) \/
    (o = FNone /\ (In JNone (job cf 0) \/ In JErr (job cf 0)) /\ (In JNone (job cf 3) \/ In JErr (job cf 3))) \/
    (o = FHang /\ (In JHang (job cf 0) \/ In JHang (job cf 3))) \/
    (o = FPanic /\ (In JPanic (job cf 0) \/ In JPanic (job cf 3))).
  Proof.
    unfold PCR0Search.outcomes. intro H.
    apply in_app_or in H as [H|H]; [|apply in_app_or in H as [H|H]; [|apply in_app_or in H as [H|H]; [|apply in_app_or in H as [H|H]]]].
    - apply j_founds_inv in H as (r & -> & H). left. exists r, 0. tauto.
    - apply j_founds_inv in H as (r & -> & H). left. exists r, 3. tauto.
    - destruct (j_nores (job cf 0)) eqn:E0; [|destruct H]. destruct (j_nores (job cf 3)) eqn:E3; [|destruct H].
      destruct H as [<-|[]]. right. left. split; [reflexivity|].
      split; now apply j_nores_true.
    - destruct (j_hang (job cf 0)) eqn:E0.
      + destruct H as [<-|[]]. right. right. left. split; [reflexivity|]. left. now apply j_hang_true.
      + destruct (j_hang (job cf 3)) eqn:E3; [|destruct H].
        destruct H as [<-|[]]. right. right. left. split; [reflexivity|]. right. now apply j_hang_true.
    - destruct (j_panic (job cf 0)) eqn:E0.
      + destruct H as [<-|[]]. right. right. right. split; [reflexivity|]. left. now apply j_panic_true.
      + destruct (j_panic (job cf 3)) eqn:E3; [|destruct H].
        destruct H as [<-|[]]. right. right. right. split; [reflexivity|]. right. now apply j_panic_true.
  Qed.

  (** *** Completeness *)
  (** *** The call always returns *)
  Theorem no_hang cf : ~ In FHang (outcomes cf).
  Proof.
    intro H. apply outcomes_inv in H as [(r & _ & _ & E & _)|[(E & _)|[(_ & Hh)|(E & _)]]]; try discriminate.
    destruct Hh as [Hh|Hh]; revert Hh; apply job_no_hang.
  Qed.

  Theorem complete cf : 1 <= cf -> no_overflow -> acm_unique cf -> reachable prop_decs ->
    forall o, In o (outcomes cf) -> exists r, o = FSome r.
  Proof.
    intros Hcf Hno Hu (loc & c & reg & s & Hloc & Hr & Hs) o Ho.
    assert (Hs' : space (lin_decs (lin_limit st) cf) loc c reg s).
    { eapply space_mono; [|exact Hs]. intros d Hd. apply in_prop_decs in Hd. now apply lin_decs_cover. }
    pose proof (job_complete cf loc c reg s Hcf Hno Hu Hr Hs') as Hj.
    apply outcomes_inv in Ho as [(r & _ & _ & -> & _)|[(-> & H0 & H3)|[(-> & Hh)|(-> & Hp)]]].
    - eauto.
    - exfalso. assert (Hx : In JNone (job cf loc) \/ In JErr (job cf loc)) by (destruct Hloc; subst; assumption).
      destruct Hx as [Hx|Hx]; destruct (Hj _ Hx) as (r & E); discriminate.
    - exfalso. destruct Hh as [Hh|Hh]; revert Hh; apply job_no_hang.
    - exfalso. destruct Hp as [Hp|Hp]; revert Hp; now apply job_no_panic.
  Qed.

  (** *** No result and no error when the value is not in the searched space *)
  Theorem none_searched cf : 1 <= cf -> no_overflow ->
    ~ reachable (lin_decs (lin_limit st) cf) -> outcomes cf = [FNone].
  Proof.
    intros Hcf Hno Hun.
    assert (Hj : forall loc, loc = 0 \/ loc = 3 -> job cf loc = [JNone]).
    { intros loc Hloc. apply job_none; try assumption. intros c reg s Hr Hs. apply Hun.
      exists loc, c, reg, s. tauto. }
    unfold PCR0Search.outcomes. rewrite (Hj 0), (Hj 3) by tauto. reflexivity.
  Qed.

  Theorem none cf : 1 <= cf -> no_overflow ->
    ~ reachable prop_decs -> outcomes cf = [FNone].
  Proof.
    intros Hcf Hno Hun. apply none_searched; try assumption. intro H. apply Hun.
    eapply reachable_mono; [|exact H]. intros d Hd. apply in_prop_decs. eapply lin_decs_exact; eauto.
  Qed.

  (** the space searched under GOMAXPROCS = cf is the space of the property text *)
  Lemma reachable_searched_iff cf : 1 <= cf ->
    (reachable (lin_decs (lin_limit st) cf) <-> reachable prop_decs).
  Proof.
    intro Hcf. split; apply reachable_mono; intros d Hd.
    - apply in_prop_decs. eapply lin_decs_exact; eauto.
    - apply in_prop_decs in Hd. now apply lin_decs_cover.
  Qed.

  (** *** Every reported result is a point of the searched space *)
  Theorem found_in_space cf r : 1 <= cf -> no_overflow -> In (FSome r) (outcomes cf) ->
    exists c reg s', (r_loc r = 0 \/ r_loc r = 3) /\ in_reach c /\ r_reg r = reg /\
      r_disabled r = disabled_of c /\ space (lin_decs (lin_limit st) cf) (r_loc r) c reg s'.
  Proof.
    intros Hcf Hno H. apply outcomes_found in H as (loc & Hloc & H).
    apply job_found in H as (k & ws & Hk & Hw & cs & c & reg & sw & Hcs & Hc & Ht & ->).
    apply try_found in Ht as (s & s' & _ & Hsp & _ & _).
    destruct (level_workers_ok cf k Hcf Hno ltac:(lia)) as (ws' & Ew & Hval & _).
    rewrite Hw in Ew. apply Ok_inj in Ew. subst ws'.
    destruct (Hval cs c Hcs Hc) as (V & L).
    exists c, reg, s'. cbn [r_loc r_reg r_disabled]. split; [exact Hloc|]. split; [split; [exact V|lia]|].
    split; [reflexivity|]. split; [reflexivity|exact Hsp].
  Qed.

  Lemma found_reachable cf r : 1 <= cf -> no_overflow -> In (FSome r) (outcomes cf) ->
    reachable (lin_decs (lin_limit st) cf).
  Proof.
    intros Hcf Hno H. destruct (found_in_space cf r Hcf Hno H) as (c & reg & s' & Hloc & Hr & _ & _ & Hs).
    exists (r_loc r), c, reg, s'. tauto.
  Qed.

  (** *** The verdict does not depend on GOMAXPROCS *)
  Theorem parallelism cf1 cf2 r : 1 <= cf1 -> 1 <= cf2 ->
    no_overflow -> acm_unique cf2 -> In (FSome r) (outcomes cf1) ->
    forall o, In o (outcomes cf2) -> exists r', o = FSome r'.
  Proof.
    intros H1 H2 Hno Hu Hr. apply (complete cf2 H2 Hno Hu).
    apply (reachable_searched_iff cf1 H1). exact (found_reachable cf1 r H1 Hno Hr).
  Qed.

  Theorem parallelism_none cf1 cf2 : 1 <= cf1 -> 1 <= cf2 ->
    no_overflow -> acm_unique cf1 -> outcomes cf1 = [FNone] -> outcomes cf2 = [FNone].
  Proof.
    intros H1 H2 Hno Hu E. apply none; try assumption. intro Hr.
    destruct (complete cf1 H1 Hno Hu Hr FNone) as (r & Er); try discriminate.
    rewrite E. now left.
  Qed.

  (** without [acm_unique]: all GOMAXPROCS settings search the same space *)
  Theorem parallelism_space cf1 cf2 : 1 <= cf1 -> 1 <= cf2 ->
    (reachable (lin_decs (lin_limit st) cf1) <-> reachable (lin_decs (lin_limit st) cf2)).
  Proof. intros H1 H2. now rewrite !reachable_searched_iff. Qed.


  (** ** There is always an outcome (the theorems above are not vacuous) *)

  Lemma lin_outcomes_ex hits : exists o, In o (lin_outcomes hits).
  Proof.
    destruct hits as [|h1 [|h2 t]].
    - exists SNone. now left.
    - exists (SFound (fst h1) (snd h1)). now left.
    - exists SErr. unfold lin_outcomes. apply in_or_app. right. apply in_or_app. left. now left.
  Qed.

  Lemma comb_outcomes_ex loc tail reg ms : exists o, In o (comb_outcomes loc tail reg ms).
  Proof.
    unfold PCR0Search.comb_outcomes.
    destruct (comb_from (S comb_maxd) 0 loc tail reg ms) as [|h hs].
    - exists SNone. now left.
    - exists (SFound (fst h) (snd h)). apply in_flat_map. exists h. split; [now left|].
      apply in_map_iff. exists h. split; [reflexivity|now left].
  Qed.

  Lemma acm_outcomes_ex cf loc tail reg ms : exists o, In o (acm_outcomes cf loc tail reg ms).
  Proof.
    unfold PCR0Search.acm_outcomes.
    destruct (lin_outcomes_ex (lin_hits cf loc tail reg ms)) as (o & Ho).
    destruct o as [|v s|].
    - destruct (comb_enabled st) eqn:Ec.
      + destruct (comb_outcomes_ex loc tail reg ms) as (o' & Ho'). exists o'.
        apply in_flat_map. exists SNone. split; [exact Ho|]. exact Ho'.
      + exists SNone. apply in_flat_map. exists SNone. split; [exact Ho|]. now left.
    - exists (SFound v s). apply in_flat_map. exists (SFound v s). split; [exact Ho|now left].
    - exists SErr. apply in_flat_map. exists SErr. split; [exact Ho|now left].
  Qed.

  Lemma try_outcomes_ex cf loc comb : exists o, In o (try_outcomes cf loc comb).
  Proof.
    destruct (head_cases comb) as [Hp|(m & en' & tail & reg0 & Een & Em)].
    - rewrite (try_outcomes_plain cf loc comb Hp).
      destruct (order_search loc _); eexists; now left.
    - rewrite (try_outcomes_data cf loc comb m en' tail reg0 Een Em).
      destruct (acm_outcomes_ex cf loc tail reg0 (map (@m_dig D) (m :: en'))) as (o & Ho).
      eexists. apply in_map. exact Ho.
  Qed.

  Lemma worker_events_ex cf loc : forall combs, exists e, In e (worker_events cf loc combs).
  Proof.
    induction combs as [|c t (e & He)]; [exists None; now left|].
    cbn [PCR0Search.worker_events]. destruct (try_outcomes_ex cf loc c) as (o & Ho).
    destruct (is_event o) eqn:Ev.
    - exists (Some (c, o)). apply in_or_app. left. apply in_map_iff. exists o. split; [reflexivity|].
      apply filter_In. tauto.
    - exists e. apply in_or_app. right.
      assert (Et : existsb is_tnone (try_outcomes cf loc c) = true).
      { apply existsb_exists. exists o. split; [exact Ho|]. destruct o; try discriminate. reflexivity. }
      rewrite Et. exact He.
  Qed.

  Lemma forallb_false {A} (p : A -> bool) : forall l, forallb p l = false -> exists x, In x l /\ p x = false.
  Proof.
    induction l as [|a l IH]; cbn [forallb]; [discriminate|].
    destruct (p a) eqn:E; cbn [andb].
    - intro H. destruct (IH H) as (x & Hx & Hp). exists x. split; [now right|exact Hp].
    - intros _. exists a. split; [now left|exact E].
  Qed.

  Lemma level_outcomes_ex cap cf loc ws : exists o, In o (level_outcomes cap cf loc ws).
  Proof.
    unfold PCR0Search.level_outcomes.
    destruct (forallb (existsb is_none) (map (worker_events cf loc) ws)) eqn:E.
    - exists JNext. apply in_or_app. right. apply in_or_app. left. now left.
    - apply forallb_false in E as (ev & Hev & Hn).
      pose proof Hev as Hev'. apply in_map_iff in Hev' as (cs & <- & Hcs).
      destruct (worker_events_ex cf loc cs) as (e & He).
      destruct e as [[c o]|].
      + pose proof (worker_events_in cf loc cs c o He) as (_ & _ & Hevt).
        assert (Hin : In (Some (c, o)) (concat (map (worker_events cf loc) ws)))
          by (apply in_concat; eauto).
        destruct o as [|reg sw|]; [discriminate| |].
        * eexists. apply in_or_app. left. apply in_flat_map. eexists. split; [exact Hin|]. now left.
        * exists JErr. apply in_or_app. left. apply in_flat_map. eexists. split; [exact Hin|]. now left.
      + exfalso. assert (existsb is_none (worker_events cf loc cs) = true)
          by (apply existsb_exists; exists None; split; [exact He|reflexivity]).
        congruence.
  Qed.

  Lemma job_levels_ex cf loc : forall fuel k, exists o, In o (job_levels fuel k cf loc) /\ o <> JNext.
  Proof.
    induction fuel as [|f IH]; intro k; cbn [PCR0Search.job_levels].
    - exists JNone. split; [now left|discriminate].
    - destruct (level_workers cf k) as [ws| | |]; try (exists JPanic; split; [now left|discriminate]).
      destruct (level_outcomes_ex (lcap cf k) cf loc ws) as (o' & Ho').
      destruct (IH (S k)) as (o & Ho & Hne).
      destruct o'; try (eexists; split; [apply in_flat_map; eexists; split; [exact Ho'|now left]|discriminate]).
      exists o. split; [|exact Hne]. apply in_flat_map. exists JNext. split; [exact Ho'|exact Ho].
  Qed.

  Theorem outcomes_nonempty cf : exists o, In o (outcomes cf).
  Proof.
    destruct (job_levels_ex cf 0 kmax 0) as (o0 & H0 & N0).
    destruct (job_levels_ex cf 3 kmax 0) as (o3 & H3 & N3).
    fold (job cf 0) in H0. fold (job cf 3) in H3. unfold PCR0Search.outcomes.
    set (J0 := job cf 0) in *. set (J3 := job cf 3) in *.
    assert (F0 : forall r, In (JFound r) J0 -> exists o, In o
              (j_founds J0 ++ j_founds J3 ++ (if j_nores J0 && j_nores J3 then [FNone] else [])
               ++ (if j_hang J0 || j_hang J3 then [FHang] else [])
               ++ (if j_panic J0 || j_panic J3 then [FPanic] else []))).
    { intros r Hr. exists (FSome r). apply in_or_app. left. now apply in_j_founds. }
    assert (F3 : forall r, In (JFound r) J3 -> exists o, In o
              (j_founds J0 ++ j_founds J3 ++ (if j_nores J0 && j_nores J3 then [FNone] else [])
               ++ (if j_hang J0 || j_hang J3 then [FHang] else [])
               ++ (if j_panic J0 || j_panic J3 then [FPanic] else []))).
    { intros r Hr. exists (FSome r). apply in_or_app. right. apply in_or_app. left. now apply in_j_founds. }
    assert (Hh : j_hang J0 || j_hang J3 = true -> exists o, In o
              (j_founds J0 ++ j_founds J3 ++ (if j_nores J0 && j_nores J3 then [FNone] else [])
               ++ (if j_hang J0 || j_hang J3 then [FHang] else [])
               ++ (if j_panic J0 || j_panic J3 then [FPanic] else []))).
    { intro E. exists FHang. apply in_or_app. right. apply in_or_app. right. apply in_or_app. right.
      apply in_or_app. left. rewrite E. now left. }
    assert (Hp : j_panic J0 || j_panic J3 = true -> exists o, In o
              (j_founds J0 ++ j_founds J3 ++ (if j_nores J0 && j_nores J3 then [FNone] else [])
               ++ (if j_hang J0 || j_hang J3 then [FHang] else [])
               ++ (if j_panic J0 || j_panic J3 then [FPanic] else []))).
    { intro E. exists FPanic. apply in_or_app. right. apply in_or_app. right. apply in_or_app. right.
      apply in_or_app. right. rewrite E. now left. }
    assert (Hn : j_nores J0 && j_nores J3 = true -> exists o, In o
              (j_founds J0 ++ j_founds J3 ++ (if j_nores J0 && j_nores J3 then [FNone] else [])
               ++ (if j_hang J0 || j_hang J3 then [FHang] else [])
               ++ (if j_panic J0 || j_panic J3 then [FPanic] else []))).
    { intro E. exists FNone. apply in_or_app. right. apply in_or_app. right. apply in_or_app. left.
      rewrite E. now left. }
    assert (C : forall J o, In o J -> o <> JNext ->
              (exists r, In (JFound r) J) \/ j_nores J = true \/ j_hang J = true \/ j_panic J = true).
    { intros J o Ho Hne. destruct o.
      - right. left. apply existsb_exists. eexists. split; [exact Ho|reflexivity].
      - left. eauto.
      - right. left. apply existsb_exists. eexists. split; [exact Ho|reflexivity].
      - congruence.
      - right. right. left. apply existsb_exists. eexists. split; [exact Ho|reflexivity].
      - right. right. right. apply existsb_exists. eexists. split; [exact Ho|reflexivity]. }
    destruct (C J0 o0 H0 N0) as [(r & Hr)|[E0|[E0|E0]]]; [now apply (F0 r)| | |].
    - destruct (C J3 o3 H3 N3) as [(r & Hr)|[E3|[E3|E3]]]; [now apply (F3 r)| | |].
      + apply Hn. now rewrite E0, E3.
      + apply Hh. rewrite E3. apply orb_true_r.
      + apply Hp. rewrite E3. apply orb_true_r.
    - apply Hh. now rewrite E0.
    - apply Hp. now rewrite E0.
  Qed.

End Proofs.

(** * Side conditions are satisfiable *)

Lemma no_overflow_small D st (log : list (meas D)) : (length log <= 62)%nat -> no_overflow D st log.
Proof.
  intro H. unfold no_overflow, nlog. split.
  - assert (Z.of_nat (length log) + 1 <= 63) by lia.
    assert (63 < 2 ^ 63) by (vm_compute; reflexivity). lia.
  - intros k _. pose proof (binom_le_pow2 (S (length log)) k) as B.
    assert (2 ^ Z.of_nat (S (length log)) <= 2 ^ 63) by (apply Z.pow_le_mono_r; lia).
    assert (2 ^ 63 < 2 ^ 64) by (vm_compute; reflexivity). lia.
Qed.

(** with MaxACMPolicyLinearDistance = 1 and MaxACMPolicyCombinatorialDistance = 0
    a single register value is tried: [acm_unique] holds whatever the hash *)
Lemma acm_unique_single D deqb pcr_init extend pcr0data st (log : list (meas D)) target :
  lin_limit st = 1 -> comb_limit st = 0 ->
  acm_unique D deqb pcr_init extend pcr0data st log target 1.
Proof.
  intros Hl Hc loc comb m en tail reg _ _. cbv zeta. rewrite Hl. split.
  - intros d1 d2 H1 H2 _ _.
    assert (E : lin_decs 1 1 = [0]) by (vm_compute; reflexivity). rewrite E in H1, H2.
    destruct H1 as [<-|[]]. destruct H2 as [<-|[]]. reflexivity.
  - assert (E : comb_maxd st = O) by (unfold comb_maxd; rewrite Hc; vm_compute; reflexivity).
    rewrite E. intros k1 b1 k2 b2 Hk1 Hk2 H1 H2 _ _.
    assert (k1 = O) by lia. assert (k2 = O) by lia. subst.
    cbn [subsets] in H1, H2. destruct H1 as [<-|[]]. destruct H2 as [<-|[]]. reflexivity.
Qed.

(** * Closed witnesses on the free-term instance (Model/PCR0SearchCases.v) *)
From CSS Require Import Lib.Cases Model.PCR0SearchCases.

Lemma term_eqb_spec : forall a b, term_eqb a b = true <-> a = b.
Proof.
  induction a as [i|t r|l|p IHp d IHd]; intros [j|t' r'|l'|p' d']; cbn [term_eqb];
    try (split; discriminate).
  - rewrite Z.eqb_eq. split; [intros ->; reflexivity|intro H; inversion H; reflexivity].
  - rewrite andb_true_iff, !Z.eqb_eq. split; [intros (-> & ->); reflexivity|intro H; inversion H; auto].
  - rewrite Z.eqb_eq. split; [intros ->; reflexivity|intro H; inversion H; reflexivity].
  - destruct (term_eqb d d') eqn:E.
    + apply IHd in E. subst d'. rewrite IHp. split; [intros ->; reflexivity|intro H; inversion H; reflexivity].
    + split; [discriminate|]. intro H. inversion H; subst.
      assert (term_eqb d' d' = true) by (apply IHd; reflexivity). congruence.
Qed.

Definition t_outcomes := outcomes term term_eqb Init Ext DataH.
Definition t_reachable := reachable term Init Ext DataH.
Definition R0 : Z := 8591017601. (* ACM_POLICY_STATUS 0x0000000200108681 *)

(** the witness of the repaired finding C03-D21: MaxACMPolicyLinearDistance = 2,
    register off by 2 (outside the space): (nil, nil) under every GOMAXPROCS; off by
    1 (inside): the same result under every GOMAXPROCS *)
Definition st_d21 := mkSettings 4 0 false 2 2.
Definition log_d21 : list tmeas := [MD 1 R0; MP (Atom 1)].
Definition tgt_d21 : term := Ext (Ext (Init 3) (DataH 1 (R0 - 2))) (Atom 1).

Definition tgt_d21_in : term := Ext (Ext (Init 3) (DataH 1 (R0 - 1))) (Atom 1).

Lemma d21_fixed_witness :
  lin_limit st_d21 = 2 /\
  (forall cf, In cf [1; 2; 3; 4; 5; 16; 64] ->
     t_outcomes st_d21 log_d21 tgt_d21 cf = [FNone] /\
     t_outcomes st_d21 log_d21 tgt_d21_in cf = [FSome (mkResult 3 (Some (R0 - 1)) [] [])]).
Proof.
  split; [reflexivity|].
  intros cf [<-|[<-|[<-|[<-|[<-|[<-|[<-|[]]]]]]]]; split; vm_compute; reflexivity.
Qed.

(** finding C03-drop-all-not-searched *)
Definition st_da := mkSettings 4 0 false 2 2.
Definition log_da : list tmeas := [MD 1 R0].

Lemma dropall_witness :
  Z.of_nat (length log_da) < max_disabled st_da /\
  replay term Init Ext 0 [] = Init 0 /\
  (forall cf, In cf [1; 2; 4; 64] -> t_outcomes st_da log_da (Init 0) cf = [FNone]).
Proof.
  split; [vm_compute; reflexivity|]. split; [reflexivity|].
  intros cf [<-|[<-|[<-|[<-|[]]]]]; vm_compute; reflexivity.
Qed.

(** the witness of the repaired finding C03-resultch-deadlock: PCR0_DATA + 7
    identical measurements, one of them dropped, GOMAXPROCS = 5: nine goroutines,
    seven of them succeed, the channel has room for nine: every outcome is a result *)
Definition st_h := mkSettings 4 0 false 2 1.
Definition log_h : list tmeas := MD 1 R0 :: repeat (MP (Atom 1)) 7.
Definition tgt_h : term := fold_left Ext (DataH 1 R0 :: repeat (Atom 1) 6) (Init 3).

Definition is_fsome (o : fres) : bool := match o with FSome _ => true | _ => false end.

Lemma hang_fixed_witness :
  reachable term Init Ext DataH st_h log_h tgt_h (prop_decs st_h) /\
  res_cap (amount64 8 1) 5 = 9 /\
  length (filter is_fsome (outcomes term term_eqb Init Ext DataH st_h log_h tgt_h 5)) = 7%nat /\
  forallb is_fsome (outcomes term term_eqb Init Ext DataH st_h log_h tgt_h 5) = true.
Proof.
  split.
  - exists 3, [1], (Some R0), []. split; [now right|]. split.
    + split.
      * assert (E : Z.of_nat (nlog term log_h) = 8) by (vm_compute; reflexivity). rewrite E.
        unfold Valid. cbn [Inc]. lia.
      * assert (E : kmax term st_h log_h = 4%nat) by (vm_compute; reflexivity). rewrite E.
        cbn [length]. lia.
    + unfold space.
      match goal with
      | |- context [match ?x with [] => _ | _ :: _ => _ end] =>
          assert (E : x = MD 1 R0 :: repeat (MP (Atom 1)) 6) by (vm_compute; reflexivity); rewrite E
      end.
      split; [apply swaps_wf_nil|]. split; [vm_compute; discriminate|]. split.
      * cbn [MD m_data]. exists R0. split; [reflexivity|]. left. exists 0. split; [vm_compute; tauto|].
        vm_compute. reflexivity.
      * vm_compute. reflexivity.
  - split; [vm_compute; reflexivity|]. split; vm_compute; reflexivity.
Qed.

(** * Statements without the unused parameters of the section (for Props/C03.v) *)

Lemma order_sound D (deqb : D -> D -> bool) (pcr_init : Z -> D) (extend : D -> D -> D) st target :
  (forall a b, deqb a b = true <-> a = b) ->
  forall loc ms s, order_search D deqb pcr_init extend st target loc ms = Some s ->
    swaps_wf (length ms) (fresh (length ms)) s /\ Z.of_nat (length s) <= max_reorders st /\
    replay D pcr_init extend loc (apply_swaps s ms) = target.
Proof. intros Hd loc ms s. exact (order_search_sound D deqb Hd pcr_init extend (fun _ _ => target) st target loc ms s). Qed.

Lemma order_complete D (deqb : D -> D -> bool) (pcr_init : Z -> D) (extend : D -> D -> D) st target :
  (forall a b, deqb a b = true <-> a = b) ->
  forall loc ms s, swaps_wf (length ms) (fresh (length ms)) s -> Z.of_nat (length s) <= max_reorders st ->
    replay D pcr_init extend loc (apply_swaps s ms) = target ->
    order_search D deqb pcr_init extend st target loc ms <> None.
Proof. intros Hd loc ms s. exact (order_search_complete D deqb Hd pcr_init extend (fun _ _ => target) st target loc ms s). Qed.

Lemma swap_nth_nil {A} a b : swap_nth a b (@nil A) = [].
Proof. unfold swap_nth. destruct a; reflexivity. Qed.

Lemma apply_swaps_nil {A} : forall s, apply_swaps s (@nil A) = [].
Proof.
  induction s as [|p s IH]; [reflexivity|].
  cbn [apply_swaps fold_left]. rewrite swap_nth_nil. exact IH.
Qed.

Lemma select_nil_r {A} fl : select fl (@nil A) = [].
Proof. destruct fl; reflexivity. Qed.

Lemma index_translation D (deqb : D -> D -> bool) (pcr0data : Z -> Z -> D) (log : list (meas D)) loc comb reg s :
  (forall a b, deqb a b = true <-> a = b) ->
  Forall (fun i => (i < length (select (enabled_flags D log comb) log))%nat) (swap_idx s) ->
  apply_result D pcr0data log
    (mkResult loc reg (disabled_of D log comb) (shift_swaps (idx_shifts (enabled_flags D log comb) 0) s))
  = apply_swaps s (enabled_digests D pcr0data log comb reg).
Proof.
  intro Hd. destruct log as [|m0 log'].
  - intros _. unfold apply_result, enabled_digests, nlog. cbn [length seq map combine].
    rewrite apply_swaps_nil, select_nil_r. cbn [filter map].
    destruct reg; cbn [map]; now rewrite apply_swaps_nil.
  - exact (apply_result_eq D deqb Hd
                           (fun _ => m_dig m0) (fun a _ => a) pcr0data (m0 :: log') (m_dig m0) loc comb reg s).
Qed.

Lemma comb_partition D (deqb : D -> D -> bool) st (log : list (meas D)) cf k :
  (forall a b, deqb a b = true <-> a = b) ->
  1 <= cf -> no_overflow D st log -> (k < kmax D st log)%nat ->
  exists ws, level_workers D log cf k = Ok ws /\
    (forall cs c, In cs ws -> In c cs -> Valid (Z.of_nat (nlog D log)) c /\ length c = k) /\
    (forall c, Valid (Z.of_nat (nlog D log)) c -> length c = k -> exists cs, In cs ws /\ In c cs).
Proof.
  intros Hd Hcf Hno Hk. destruct log as [|m0 log'].
  - exfalso. unfold kmax, nlog in Hk. cbn [length] in Hk. lia.
  - exact (level_workers_ok D deqb Hd (fun _ => m_dig m0) (fun a _ => a) (fun _ _ => m_dig m0) st
             (m0 :: log') (m_dig m0) cf k Hcf Hno Hk).
Qed.

(** * Workers of combinatorialSearch.Process: per-worker contexts *)
From CSS Require Proofs.BruteForce.

(** [le_bytes] is the little-endian byte decomposition *)
Lemma le_bytes_div_mod : forall n v,
  le_bytes (S n) v = (v mod 256) :: le_bytes n (v / 256).
Proof.
  intros n v. cbn [le_bytes].
  change 255 with (Z.ones 8). rewrite Z.land_ones by lia.
  rewrite Z.shiftr_div_pow2 by lia. reflexivity.
Qed.

Lemma of_le_le_bytes : forall n v, 0 <= v -> of_le (le_bytes n v) = v mod 256 ^ Z.of_nat n.
Proof.
  induction n as [|n IH]; intros v Hv.
  - cbn [le_bytes of_le]. change (256 ^ Z.of_nat 0) with 1. now rewrite Z.mod_1_r.
  - rewrite le_bytes_div_mod. cbn [of_le].
    rewrite IH by (apply Z.div_pos; lia).
    replace (256 ^ Z.of_nat (S n)) with (256 * 256 ^ Z.of_nat n)
      by (rewrite Nat2Z.inj_succ, Z.pow_succ_r by lia; reflexivity).
    rewrite Z.rem_mul_r by (try apply Z.pow_pos_nonneg; lia). reflexivity.
Qed.

(** the register buffer round trip: binary.LittleEndian.Uint64 of the 8 bytes *)
Lemma of_le_le_bytes_8 v : 0 <= v < 2 ^ 64 -> of_le (le_bytes 8 v) = v.
Proof.
  intro H. rewrite of_le_le_bytes by lia. change (256 ^ Z.of_nat 8) with (2 ^ 64).
  apply Z.mod_small. exact H.
Qed.

Lemma flip_reg_nil reg : 0 <= reg < 2 ^ 64 -> flip_reg reg [] = reg.
Proof. intro H. unfold flip_reg. cbn [flip_bytes]. now apply of_le_le_bytes_8. Qed.

(** C(n, k) subsets, in the order of the combination IDs *)
Lemma length_subsets : forall n k lo, Z.of_nat (length (subsets k lo n)) = binom n k.
Proof.
  induction n as [|n IH]; intros k lo.
  - destruct k; cbn [subsets length binom]; reflexivity.
  - destruct k as [|k].
    + cbn [subsets length binom]. reflexivity.
    + cbn [subsets]. rewrite app_length, map_length, Nat2Z.inj_add, !IH.
      rewrite binom_S_S. reflexivity.
Qed.

Lemma comb_amount_binom d : comb_amount d = binom 64 d.
Proof.
  unfold comb_amount, BruteForce.amount_of. change 64 with (Z.of_nat 64).
  apply binom_fast_eq.
Qed.

Lemma skipn_skipn_add {A} : forall a b (l : list A), skipn a (skipn b l) = skipn (b + a) l.
Proof.
  intros a b. revert a. induction b as [|b IH]; intros a l; [reflexivity|].
  destruct l as [|x l]; [now rewrite !skipn_nil|]. cbn [Nat.add skipn]. apply IH.
Qed.

Lemma firstn_add_skipn {A} : forall a b (l : list A),
  firstn (a + b) l = firstn a l ++ firstn b (skipn a l).
Proof.
  induction a as [|a IH]; intros b l; [reflexivity|].
  destruct l as [|x l]; [now rewrite skipn_nil, !firstn_nil|].
  cbn [Nat.add firstn skipn app]. now rewrite IH.
Qed.

(** consecutive intervals cut a list into consecutive pieces *)
Lemma concat_slices_chain {A} (l : list A) : forall ps a b,
  BruteForce.chain a b ps -> 0 <= a ->
  concat (map (slice l) ps) = firstn (Z.to_nat (b - a)) (skipn (Z.to_nat a) l).
Proof.
  induction ps as [|[s e] t IH]; intros a b H Ha.
  - cbn in H. subst b. rewrite Z.sub_diag. reflexivity.
  - cbn [BruteForce.chain fst snd] in H. destruct H as (-> & Hlt & Hc).
    pose proof (BruteForce.chain_le _ _ _ Hc) as Hle.
    cbn [map concat]. rewrite (IH e b Hc ltac:(lia)).
    unfold slice. cbn [fst snd].
    replace (Z.to_nat (b - a)) with (Z.to_nat (e - a) + Z.to_nat (b - e))%nat by lia.
    rewrite firstn_add_skipn. f_equal. f_equal.
    rewrite skipn_skipn_add. f_equal. lia.
Qed.

Lemma comb_cfactor_ok cf d : 1 <= cf -> (d <= 64)%nat ->
  1 <= comb_amount d /\
  1 <= BruteForce.cfactor cf 0 (comb_amount d) <= comb_amount d /\
  BruteForce.cfactor cf 0 (comb_amount d) <= cf.
Proof.
  intros Hcf Hd.
  assert (Ha : 1 <= comb_amount d).
  { rewrite comb_amount_binom. pose proof (binom_pos 64 d Hd). lia. }
  split; [exact Ha|].
  destruct (BruteForce.cfactor_ok cf 0 (comb_amount d) Hcf Ha) as (H1 & H2 & _).
  split; assumption.
Qed.

(** Under every GOMAXPROCS the contexts of one distance are jointly offered every
    candidate of that distance, each exactly once, in ID order *)
Lemma comb_offered_at_partition cf reg d : 1 <= cf -> (d <= 64)%nat ->
  concat (comb_offered_at cf reg d) = map (flip_reg reg) (subsets d 0 64).
Proof.
  intros Hcf Hd. destruct (comb_cfactor_ok cf d Hcf Hd) as (Ha & Hc & _).
  unfold comb_offered_at, comb_pieces.
  rewrite (concat_slices_chain _ _ 0 (comb_amount d)
             (BruteForce.pieces_chain _ _ Hc) ltac:(lia)).
  cbn [Z.to_nat skipn]. rewrite Z.sub_0_r. apply firstn_all2.
  rewrite map_length. pose proof (length_subsets 64 d 0) as HL.
  rewrite comb_amount_binom. lia.
Qed.

(** at most GOMAXPROCS contexts per distance, at least one, none of them idle *)
Lemma comb_offered_at_count cf reg d : 1 <= cf -> (d <= 64)%nat ->
  (1 <= length (comb_offered_at cf reg d))%nat /\
  Z.of_nat (length (comb_offered_at cf reg d)) <= cf /\
  Forall (fun l => l <> []) (comb_offered_at cf reg d).
Proof.
  intros Hcf Hd. destruct (comb_cfactor_ok cf d Hcf Hd) as (Ha & Hc & Hle).
  unfold comb_offered_at, comb_pieces. rewrite map_length, BruteForce.pieces_length.
  split; [lia|]. split; [lia|].
  rewrite Forall_map.
  pose proof (BruteForce.chain_bounds _ _ _ (BruteForce.pieces_chain _ _ Hc)) as Hb.
  eapply Forall_impl; [|exact Hb]. cbn beta. intros [s e]. cbn [fst snd]. intros (H0 & Hlt & He).
  unfold slice. cbn [fst snd]. intro E.
  apply (f_equal (@length _)) in E. rewrite firstn_length, skipn_length, map_length in E.
  cbn [length] in E. pose proof (length_subsets 64 d 0) as HL.
  rewrite <- comb_amount_binom in HL. lia.
Qed.

Lemma concat_flat_map {A B} (f : A -> list (list B)) : forall l,
  concat (flat_map f l) = flat_map (fun x => concat (f x)) l.
Proof.
  induction l as [|x l IH]; [reflexivity|].
  cbn [flat_map]. now rewrite concat_app, IH.
Qed.

Lemma flat_map_ext_in' {A B} (f g : A -> list B) : forall l,
  (forall x, In x l -> f x = g x) -> flat_map f l = flat_map g l.
Proof.
  induction l as [|x l IH]; intro H; [reflexivity|].
  cbn [flat_map]. rewrite (H x (or_introl eq_refl)), IH; [reflexivity|].
  intros y Hy. apply H. now right.
Qed.

(** everything offered by all contexts of all distances: the candidates of the
    search space, whatever GOMAXPROCS *)
Lemma comb_offered_all cf reg maxd : 1 <= cf -> (maxd <= 64)%nat ->
  concat (comb_offered cf reg maxd)
  = reg :: flat_map (fun d => map (flip_reg reg) (subsets d 0 64)) (seq 1 maxd).
Proof.
  intros Hcf Hm. unfold comb_offered. cbn [concat app]. f_equal.
  rewrite concat_flat_map. apply flat_map_ext_in'.
  intros d Hd. apply in_seq in Hd. apply comb_offered_at_partition; [exact Hcf|lia].
Qed.

Lemma comb_offered_parallelism cf1 cf2 reg maxd : 1 <= cf1 -> 1 <= cf2 -> (maxd <= 64)%nat ->
  concat (comb_offered cf1 reg maxd) = concat (comb_offered cf2 reg maxd).
Proof. intros H1 H2 Hm. now rewrite !comb_offered_all. Qed.

Lemma comb_offered_space cf reg maxd v : 1 <= cf -> (maxd <= 64)%nat -> 0 <= reg < 2 ^ 64 ->
  In v (concat (comb_offered cf reg maxd)) <->
  exists k bs, (k <= maxd)%nat /\ In bs (subsets k 0 64) /\ v = flip_reg reg bs.
Proof.
  intros Hcf Hm Hr. rewrite comb_offered_all by assumption. cbn [In]. rewrite in_flat_map.
  split.
  - intros [<-|(d & Hd & Hin)].
    + exists 0%nat, []. split; [lia|]. split; [cbn; auto|]. now rewrite flip_reg_nil.
    + apply in_seq in Hd. apply in_map_iff in Hin. destruct Hin as (bs & <- & Hbs).
      exists d, bs. split; [lia|]. split; [exact Hbs|reflexivity].
  - intros (k & bs & Hk & Hbs & ->). destruct k as [|k].
    + cbn [subsets In] in Hbs. destruct Hbs as [<-|[]]. left. now rewrite flip_reg_nil.
    + right. exists (S k). split; [apply in_seq; lia|]. apply in_map. exact Hbs.
Qed.

(** the hits of one distance (the contract used by [outcomes]) are the hits among
    what the worker contexts are offered, under every GOMAXPROCS *)
Lemma comb_hits_at_workers D (deqb : D -> D -> bool) (pcr_init : Z -> D) (extend : D -> D -> D)
      (pcr0data : Z -> Z -> D) st target cf loc tail reg ms d : 1 <= cf -> (d <= 64)%nat ->
  comb_hits_at D deqb pcr_init extend pcr0data st target loc tail reg ms d
  = somes (map (fun v => match acm_try D deqb pcr_init extend pcr0data st target loc tail ms v with
                         | Some sw => Some (v, sw)
                         | None => None
                         end) (concat (comb_offered_at cf reg d))).
Proof.
  intros Hcf Hd. rewrite comb_offered_at_partition by assumption.
  unfold comb_hits_at. rewrite map_map. reflexivity.
Qed.

Lemma comb_workers_example :
  let lens cf d := map (fun l => Z.of_nat (length l)) (comb_offered_at cf 5 d) in
  lens 4 3%nat = [10416; 10416; 10416; 10416] /\
  lens 64 3%nat = [10416; 10416; 10416; 10416] /\
  lens 3 3%nat = [13888; 13888; 13888] /\
  lens 2 3%nat = [20832; 20832] /\
  lens 1 3%nat = [41664] /\
  lens 64 2%nat = [2016].
Proof. vm_compute. repeat split. Qed.
