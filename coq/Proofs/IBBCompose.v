(** GetIBBsDigest is compositional in the segment list (property C19): what a segment
    contributes does not depend on its neighbours in the list -- in particular not on where
    the previous entry ended or on whether the previous entry was excluded. *)
From CSS Require Import Lib.Base Model.IBB.

Lemma digest_preimage_app : forall l img a b,
  digest_preimage l img (a ++ b) =
  bind (digest_preimage l img a) (fun pa =>
  bind (digest_preimage l img b) (fun pb => Ok (pa ++ pb))).
Proof.
  intros l img a b. induction a as [|s t IH]; cbn [app digest_preimage].
  - cbn [bind]. destruct (digest_preimage l img b); reflexivity.
  - destruct (excluded s); [exact IH|].
    rewrite IH. destruct (read_segment l img s) as [x| | |]; cbn [bind]; try reflexivity.
    destruct (digest_preimage l img t) as [y| | |]; cbn [bind]; try reflexivity.
    destruct (digest_preimage l img b) as [z| | |]; cbn [bind]; try reflexivity.
    rewrite app_assoc. reflexivity.
Qed.

Lemma digest_preimage_excluded : forall l img a s b,
  excluded s = true ->
  digest_preimage l img (a ++ s :: b) = digest_preimage l img (a ++ b).
Proof.
  intros l img a s b E. rewrite !digest_preimage_app. cbn [digest_preimage]. rewrite E. reflexivity.
Qed.

Lemma digest_preimage_single : forall l img s,
  excluded s = false ->
  digest_preimage l img [s] = read_segment l img s.
Proof.
  intros l img s E. cbn [digest_preimage]. rewrite E.
  destruct (read_segment l img s) as [x| | |]; cbn [bind]; try reflexivity.
  rewrite app_nil_r. reflexivity.
Qed.

(** the whole call: an excluded entry anywhere in the list changes neither the outcome
    (value, error kind) nor the digest *)
Theorem get_ibbs_digest_excluded : forall ver alg l img a s b,
  excluded s = true ->
  get_ibbs_digest ver alg l img (a ++ s :: b) = get_ibbs_digest ver alg l img (a ++ b).
Proof.
  intros ver alg l img a s b E. unfold get_ibbs_digest. rewrite (digest_preimage_excluded _ _ _ _ _ E). reflexivity.
Qed.

(** a hashed segment between any two lists contributes exactly what it contributes alone *)
Theorem digest_preimage_segment_alone : forall l img a s b,
  excluded s = false ->
  digest_preimage l img (a ++ s :: b) =
  bind (digest_preimage l img a) (fun pa =>
  bind (read_segment l img s) (fun x =>
  bind (digest_preimage l img b) (fun pb => Ok (pa ++ x ++ pb)))).
Proof.
  intros l img a s b E. rewrite digest_preimage_app. cbn [digest_preimage]. rewrite E.
  destruct (digest_preimage l img a) as [pa| | |]; cbn [bind]; try reflexivity.
  destruct (read_segment l img s) as [x| | |]; cbn [bind]; try reflexivity.
  destruct (digest_preimage l img b) as [pb| | |]; cbn [bind]; reflexivity.
Qed.
