(** Proofs about Model/DiffObjs.v: the state an image object is in (never
    parsed, parsed, parse error cached, built by NewFromParsed; after any
    history of Parse / Size / Diff / Analyze calls on the pool it lives in)
    does not show in any result of [Diff] / [Analyze]; a call on objects is the
    call of Model/Diff.v on their contents, so every theorem of Proofs/Diff.v
    holds call by call in every session. *)
From Coq Require Import Sorting.Sorted.
From CSS Require Import Lib.Base Model.Diff Model.DiffObjs Proofs.Diff.

(** * One call on objects = the call on the contents *)

Lemma slices_obj_content mp g b m :
  slices_obj size_content mp g b m = slices mp (content g) (content b) m.
Proof. reflexivity. Qed.

Lemma diff_go_obj_content ign mp g b ms :
  diff_go_obj size_content ign mp g b ms = diff_go ign mp (content g) (content b) ms.
Proof.
  induction ms as [|m t IH]; [reflexivity|].
  cbn [diff_go_obj diff_go]. rewrite slices_obj_content, IH. reflexivity.
Qed.

Lemma diff_obj_content srt ranges mp g b ign :
  diff_obj_with size_content srt ranges mp g b ign
  = diff_with srt ranges mp (content g) (content b) ign.
Proof. unfold diff_obj_with, diff_with. apply diff_go_obj_content. Qed.

Lemma entries_go_obj_content mp ms g b rs :
  entries_go_obj size_content mp ms g b rs = entries_go mp ms (content g) (content b) rs.
Proof.
  induction rs as [|m t IH]; [reflexivity|].
  cbn [entries_go_obj entries_go]. rewrite slices_obj_content, IH. reflexivity.
Qed.

Lemma analyze_obj_content srt ranges mp ms g b :
  snd (analyze_obj_with size_content srt ranges mp ms g b)
  = analyze_with srt ranges mp ms (content g) (content b) (parsed_ok (parse_img g)).
Proof.
  unfold analyze_obj_with, analyze_with. cbn [snd].
  rewrite entries_go_obj_content. reflexivity.
Qed.

(** * Object state *)

(** what parsing the content gives, by the contract *)
Definition parses (im : image) : bool :=
  match pfact im with Some _ => true | None => false end.

(** the cache, when filled, holds what parsing the content gives: true of
    every object built by [New] / [NewFromParsed] and kept by every call *)
Definition consistent (im : image) : Prop :=
  match cache im with
  | PNone => True
  | PParsed n => pfact im = Some n
  | PFailed => pfact im = None
  end.

Lemma new_image_consistent c pf : consistent (new_image c pf).
Proof. exact I. Qed.

Lemma new_from_parsed_consistent buf : consistent (new_from_parsed buf).
Proof. reflexivity. Qed.

Lemma parse_img_content im : content (parse_img im) = content im.
Proof. unfold parse_img. destruct (cache im); reflexivity. Qed.

Lemma parse_img_pfact im : pfact (parse_img im) = pfact im.
Proof. unfold parse_img. destruct (cache im); reflexivity. Qed.

Lemma parse_img_consistent im : consistent im -> consistent (parse_img im).
Proof.
  unfold consistent, parse_img. destruct (cache im) eqn:E; cbn.
  - intros _. destruct (pfact im); reflexivity.
  - rewrite E. intros H; exact H.
  - rewrite E. intros H; exact H.
Qed.

Lemma parse_img_ok im : consistent im -> parsed_ok (parse_img im) = parses im.
Proof.
  unfold consistent, parse_img, parsed_ok, parses. destruct (cache im) eqn:E; cbn.
  - intros _. destruct (pfact im); reflexivity.
  - rewrite E. intros ->. reflexivity.
  - rewrite E. intros ->. reflexivity.
Qed.

Lemma parse_img_idem im : parse_img (parse_img im) = parse_img im.
Proof.
  unfold parse_img. destruct (cache im) eqn:E; cbn; [|rewrite E; reflexivity..].
  destruct (pfact im); reflexivity.
Qed.

(** * Pools *)

(** what of an object is visible through the property: its bytes (and the
    parse contract of those bytes) *)
Definition view (im : image) : list Z * option Z := (content im, pfact im).

(** the same images, as never used objects *)
Definition fresh (im : image) : image := new_image (content im) (pfact im).

Lemma view_fresh im : view (fresh im) = view im.
Proof. reflexivity. Qed.

Lemma map_view_fresh pool : map view (map fresh pool) = map view pool.
Proof. rewrite map_map. apply map_ext. intros; apply view_fresh. Qed.

Lemma fresh_consistent pool : Forall consistent (map fresh pool).
Proof. apply Forall_forall. intros x H. apply in_map_iff in H. destruct H as [y [<- _]]. exact I. Qed.

Lemma set_nth_map {A B} (f : A -> B) n x l :
  map f (set_nth n x l) = set_nth n (f x) (map f l).
Proof.
  revert n; induction l as [|h t IH]; intros n; [destruct n; reflexivity|].
  destruct n; cbn; [reflexivity|rewrite IH; reflexivity].
Qed.

Lemma set_nth_same {A} n (x : A) l : nth_error l n = Some x -> set_nth n x l = l.
Proof.
  revert n; induction l as [|h t IH]; intros n; [destruct n; reflexivity|].
  destruct n; cbn; [intros H; inversion H; reflexivity|intros H; rewrite IH; [reflexivity|exact H]].
Qed.

Lemma set_nth_Forall {A} (P : A -> Prop) n x l : P x -> Forall P l -> Forall P (set_nth n x l).
Proof.
  intros Hx. revert n; induction l as [|h t IH]; intros n H; [destruct n; constructor|].
  inversion H; subst. destruct n; cbn; constructor; auto.
Qed.

Lemma nth_error_view p q i :
  map view p = map view q ->
  match nth_error p i, nth_error q i with
  | Some a, Some b => view a = view b
  | None, None => True
  | _, _ => False
  end.
Proof.
  intros H.
  assert (E : nth_error (map view p) i = nth_error (map view q) i) by (rewrite H; reflexivity).
  rewrite !nth_error_map in E.
  destruct (nth_error p i), (nth_error q i); cbn in E; try discriminate; [|exact I].
  injection E as E1 E2. unfold view. rewrite E1, E2. reflexivity.
Qed.

Section Sessions.
  Variable srt : list range -> list range.

  Local Notation stepc := (step_with size_content srt).
  Local Notation afterc := (after_with size_content srt).

  (** a call keeps every image (bytes and parse contract) and the consistency
      of every cache *)
  Lemma step_keeps pool o :
    Forall consistent pool ->
    map view (fst (stepc pool o)) = map view pool /\ Forall consistent (fst (stepc pool o)).
  Proof.
    intros Hc. unfold step_with.
    assert (Hset : forall i im, nth_error pool i = Some im ->
              map view (set_nth i (parse_img im) pool) = map view pool /\
              Forall consistent (set_nth i (parse_img im) pool)).
    { intros i im Hi. split.
      - rewrite set_nth_map. apply set_nth_same. rewrite nth_error_map, Hi. cbn [option_map].
        unfold view. rewrite parse_img_content, parse_img_pfact. reflexivity.
      - apply set_nth_Forall; [|exact Hc]. apply parse_img_consistent.
        eapply Forall_forall; [exact Hc|]. eapply nth_error_In; exact Hi. }
    destruct o as [i|i|ranges mp g b ign|ranges mp ms g b].
    - destruct (nth_error pool i) eqn:Hi; cbn [fst]; [apply Hset; exact Hi|split; [reflexivity|exact Hc]].
    - destruct (nth_error pool i); cbn [fst]; split; (reflexivity || exact Hc).
    - destruct (nth_error pool g), (nth_error pool b); cbn [fst]; split; (reflexivity || exact Hc).
    - destruct (nth_error pool g) eqn:Hg; [|cbn [fst]; split; [reflexivity|exact Hc]].
      destruct (nth_error pool b); cbn [fst]; [|split; [reflexivity|exact Hc]].
      unfold analyze_obj_with. cbn [fst]. apply Hset; exact Hg.
  Qed.

  Lemma after_keeps ops : forall pool,
    Forall consistent pool ->
    map view (afterc pool ops) = map view pool /\ Forall consistent (afterc pool ops).
  Proof.
    induction ops as [|o t IH]; intros pool Hc; [split; [reflexivity|exact Hc]|].
    cbn [after_with].
    destruct (step_keeps pool o Hc) as [Hv Hc'].
    destruct (IH _ Hc') as [Hv2 Hc2]. split; [rewrite Hv2; exact Hv|exact Hc2].
  Qed.

  (** two pools holding the same images give the same result, whatever state
      their objects are in *)
  Lemma step_res_view p q o :
    map view p = map view q -> Forall consistent p -> Forall consistent q ->
    snd (stepc p o) = snd (stepc q o).
  Proof.
    intros Hv Hp Hq. unfold step_with.
    assert (Hin : forall (l : list image) i a, Forall consistent l -> nth_error l i = Some a -> consistent a).
    { intros l i a Hl Hi. eapply Forall_forall; [exact Hl|]. eapply nth_error_In; exact Hi. }
    destruct o as [i|i|ranges mp g b ign|ranges mp ms g b].
    - pose proof (nth_error_view p q i Hv) as Hi.
      destruct (nth_error p i) as [a|] eqn:Ea, (nth_error q i) as [c|] eqn:Ec; try contradiction; [|reflexivity].
      cbn [snd]. rewrite (parse_img_ok a (Hin p i a Hp Ea)), (parse_img_ok c (Hin q i c Hq Ec)).
      unfold parses. unfold view in Hi. inversion Hi as [[H1 H2]]. rewrite H2. reflexivity.
    - pose proof (nth_error_view p q i Hv) as Hi.
      destruct (nth_error p i) as [a|], (nth_error q i) as [c|]; try contradiction; [|reflexivity].
      cbn [snd]. unfold size_content. unfold view in Hi. inversion Hi as [[H1 H2]]. rewrite H1. reflexivity.
    - pose proof (nth_error_view p q g Hv) as Hg. pose proof (nth_error_view p q b Hv) as Hb.
      destruct (nth_error p g) as [ag|], (nth_error q g) as [cg|]; try contradiction; [|reflexivity].
      destruct (nth_error p b) as [ab|], (nth_error q b) as [cb|]; try contradiction; [|reflexivity].
      cbn [snd]. rewrite !diff_obj_content.
      unfold view in Hg, Hb. inversion Hg as [[G1 G2]]. inversion Hb as [[B1 B2]]. rewrite G1, B1. reflexivity.
    - pose proof (nth_error_view p q g Hv) as Hg. pose proof (nth_error_view p q b Hv) as Hb.
      destruct (nth_error p g) as [ag|] eqn:Eag, (nth_error q g) as [cg|] eqn:Ecg; try contradiction; [|reflexivity].
      destruct (nth_error p b) as [ab|], (nth_error q b) as [cb|]; try contradiction; [|reflexivity].
      cbn [snd]. rewrite !analyze_obj_content.
      rewrite (parse_img_ok ag (Hin p g ag Hp Eag)), (parse_img_ok cg (Hin q g cg Hq Ecg)).
      unfold parses. unfold view in Hg, Hb. inversion Hg as [[G1 G2]]. inversion Hb as [[B1 B2]].
      rewrite G1, G2, B1. reflexivity.
  Qed.

  (** HISTORY INDEPENDENCE: after any history of calls on the pool, a call
      returns what it returns on never used objects holding the same images *)
  Theorem session_history_independent pool ops o :
    Forall consistent pool ->
    snd (stepc (afterc pool ops) o) = snd (stepc (map fresh pool) o).
  Proof.
    intros Hc. destruct (after_keeps ops pool Hc) as [Hv Hc'].
    apply step_res_view; [rewrite Hv, map_view_fresh; reflexivity|exact Hc'|apply fresh_consistent].
  Qed.

  (** the images themselves are never changed *)
  Theorem session_images_unchanged pool ops :
    Forall consistent pool -> map content (afterc pool ops) = map content pool.
  Proof.
    intros Hc. destruct (after_keeps ops pool Hc) as [Hv _].
    assert (E : map fst (map view (afterc pool ops)) = map fst (map view pool)) by (rewrite Hv; reflexivity).
    rewrite !map_map in E. exact E.
  Qed.

  Lemma after_nth pool ops i im :
    Forall consistent pool -> nth_error pool i = Some im ->
    exists im', nth_error (afterc pool ops) i = Some im' /\ content im' = content im /\
                pfact im' = pfact im /\ consistent im'.
  Proof.
    intros Hc Hi. destruct (after_keeps ops pool Hc) as [Hv Hc'].
    pose proof (nth_error_view (afterc pool ops) pool i Hv) as H. rewrite Hi in H.
    destruct (nth_error (afterc pool ops) i) as [im'|] eqn:E; [|contradiction].
    exists im'. unfold view in H. inversion H as [[H1 H2]].
    repeat split; try reflexivity.
    eapply Forall_forall; [exact Hc'|]. eapply nth_error_In; exact E.
  Qed.

  (** a Diff call anywhere in a session is the call of Model/Diff.v on the
      contents of the two objects *)
  Theorem session_diff_is_content_call pool ops ranges mp g b ign ig ib :
    Forall consistent pool -> nth_error pool g = Some ig -> nth_error pool b = Some ib ->
    snd (stepc (afterc pool ops) (OpDiff ranges mp g b ign))
    = RDiff (diff_with srt ranges mp (content ig) (content ib) ign).
  Proof.
    intros Hc Hg Hb.
    destruct (after_nth pool ops g ig Hc Hg) as [g' [Eg [Cg _]]].
    destruct (after_nth pool ops b ib Hc Hb) as [b' [Eb [Cb _]]].
    unfold step_with. rewrite Eg, Eb. cbn [snd].
    rewrite diff_obj_content, Cg, Cb. reflexivity.
  Qed.

  (** an Analyze call anywhere in a session is the call of Model/Diff.v on the
      contents, with [parse_ok] = whether the good image's bytes parse *)
  Theorem session_analyze_is_content_call pool ops ranges mp ms g b ig ib :
    Forall consistent pool -> nth_error pool g = Some ig -> nth_error pool b = Some ib ->
    snd (stepc (afterc pool ops) (OpAnalyze ranges mp ms g b))
    = RAnalyze (analyze_with srt ranges mp ms (content ig) (content ib) (parses ig)).
  Proof.
    intros Hc Hg Hb.
    destruct (after_nth pool ops g ig Hc Hg) as [g' [Eg [Cg [Pg Kg]]]].
    destruct (after_nth pool ops b ib Hc Hb) as [b' [Eb [Cb _]]].
    unfold step_with. rewrite Eg, Eb. cbn [snd].
    rewrite analyze_obj_content, Cg, Cb, (parse_img_ok _ Kg). unfold parses. rewrite Pg. reflexivity.
  Qed.

  (** the same question asked again gives the same answer *)
  Theorem session_same_question_same_answer pool ops ops' o :
    Forall consistent pool ->
    snd (stepc (afterc pool ops) o) = snd (stepc (afterc pool ops') o).
  Proof.
    intros Hc. rewrite !session_history_independent by exact Hc. reflexivity.
  Qed.

  (** the exactness clauses of the property, call by call in every session *)
  Theorem session_diff_exact pool ops ranges mp g b ign ig ib out :
    sort_contract srt ->
    Forall consistent pool -> nth_error pool g = Some ig -> nth_error pool b = Some ib ->
    Forall u64r ranges -> mapper_ok mp (content ig) (content ib) ->
    snd (stepc (afterc pool ops) (OpDiff ranges mp g b ign)) = RDiff (Ok out) ->
    StronglySorted before out /\
    (forall r, In r out ->
      (exists m, In m (sort_and_merge srt ranges) /\ within r m /\
         (off r + len r = off m + len m \/
          (off r + len r < off m + len m /\
           equal_nonign ign mp (content ig) (content ib) (off r + len r)))) /\
      0 < len r /\
      diff_nonign ign mp (content ig) (content ib) (off r) /\
      (forall a, inr a r -> ~ equal_nonign ign mp (content ig) (content ib) a)) /\
    (forall m a, In m (sort_and_merge srt ranges) -> inr a m ->
      diff_nonign ign mp (content ig) (content ib) a -> exists r, In r out /\ inr a r).
  Proof.
    intros Hs Hc Hg Hb Hu Hmp H.
    rewrite (session_diff_is_content_call pool ops ranges mp g b ign ig ib Hc Hg Hb) in H.
    inversion H as [Hok]. clear H.
    split; [exact (diff_sorted srt Hs ranges mp _ _ ign out Hu Hmp Hok)|]. split.
    - intros r Hr. split; [exact (diff_maximal srt Hs ranges mp _ _ ign out Hu Hmp Hok r Hr)|].
      destruct (diff_sound srt Hs ranges mp _ _ ign out Hu Hmp Hok r Hr) as [_ [H1 [H2 H3]]].
      split; [exact H1|split; [exact H2|exact H3]].
    - exact (diff_complete srt Hs ranges mp _ _ ign out Hu Hmp Hok).
  Qed.
End Sessions.

(** * The theorems have teeth: a Size() taken from the parsed buffer

    A 6-byte container image (2 bytes of header, parsed buffer of 4 bytes) and
    a copy that differs in one byte, physical addressing, the 4 bytes behind
    the header requested.  Never parsed objects give the one differing byte.
    Had a parsed object reported the size of its parsed buffer, the same
    question after [Parse] of the good image would compare shifted data and
    report a range that holds an equal byte pair — and history independence
    would fail. *)

Definition wit_good : list Z := [9; 9; 1; 2; 3; 4].
Definition wit_bad : list Z := [9; 9; 1; 7; 3; 4].
Definition wit_pool : list image := [new_image wit_good (Some 4); new_image wit_bad (Some 4)].
Definition wit_base : Z := W32 - 6.
Definition wit_q : op := OpDiff [mkR (wit_base + 2) 4] MPhys 0 1 [].

Lemma object_size_matters_witness :
  Forall consistent wit_pool /\
  run_with size_content isort wit_pool [wit_q; OpParse 0; wit_q]
    = [RDiff (Ok [mkR (wit_base + 3) 1]); RParse true; RDiff (Ok [mkR (wit_base + 3) 1])] /\
  run_with size_parsed_buffer isort wit_pool [wit_q; OpParse 0; wit_q]
    = [RDiff (Ok [mkR (wit_base + 3) 1]); RParse true; RDiff (Ok [mkR (wit_base + 2) 4])] /\
  inr (wit_base + 2) (mkR (wit_base + 2) 4) /\
  equal_nonign [] MPhys wit_good wit_bad (wit_base + 2).
Proof.
  split; [repeat constructor|].
  split; [vm_compute; reflexivity|].
  split; [vm_compute; reflexivity|].
  split; [unfold inr, wit_base; cbn [off len]; rewrite W32_val; lia|].
  unfold equal_nonign. vm_compute. split; reflexivity.
Qed.

(** the hypotheses of the session theorems are satisfiable by a non-trivial
    session: a container image parsed half-way, an object built by
    NewFromParsed as the second image, the roles swapped, Analyze in between *)
Definition ex_pool : list image :=
  [new_image wit_good (Some 4); new_from_parsed wit_bad; new_image [0; 0; 0; 0; 0; 0] None].

Lemma ex_session :
  Forall consistent ex_pool /\
  run ex_pool [wit_q; OpAnalyze [mkR (wit_base + 3) 1] MPhys [[mkR (wit_base + 3) 2]] 0 1; OpSize 0; wit_q;
               OpDiff [mkR (wit_base + 0) 6] MPhys 1 0 [7]; OpParse 2;
               OpAnalyze [mkR (wit_base + 3) 1] MPhys [] 2 0]
  = [RDiff (Ok [mkR (wit_base + 3) 1]);
     RAnalyze (Ok (mkRep [mkE (mkR (wit_base + 3) 1) 2 2 [(0, [0])]] (wit_base + 3) 1 2 2));
     RSize 6;
     RDiff (Ok [mkR (wit_base + 3) 1]);
     RDiff (Ok []);
     RParse false;
     RAnalyze (Err 1)].
Proof.
  split; [repeat constructor|]. vm_compute. reflexivity.
Qed.
