(** C18 — proofs about Model/ManifestOrder.v: the process configuration along
    histories of entry-point calls, and the element loop of a boot policy
    manifest (which element sequences are accepted, with the order check on and
    off). *)
From CSS Require Import Lib.Base Lib.Cases Model.Manifest Model.ManifestOrder.
From Coq Require Import ZifyBool Sorting.Permutation.

(** * 1. The process configuration *)

Lemma ep_conf_id e c : ep_conf e c = c.
Proof. destruct e; reflexivity. Qed.

Lemma run_conf_id h : forall c, run_conf c h = c.
Proof.
  induction h as [|e t IH]; intro c; [reflexivity|].
  unfold run_conf in *. cbn [fold_left]. rewrite IH. apply ep_conf_id.
Qed.

Lemma session_history_free c0 h g orig mut :
  session_verdict c0 h g orig mut = order_verdict (strict_of c0 g) (bpm_spec g) orig mut.
Proof. unfold session_verdict. rewrite run_conf_id. reflexivity. Qed.

Lemma session_same_verdict c0 h1 h2 g orig mut :
  session_verdict c0 h1 g orig mut = session_verdict c0 h2 g orig mut.
Proof. rewrite !session_history_free. reflexivity. Qed.

Lemma tool_conf_bg flag c : strict_of (tool_conf flag c) V10 = strict_of c V10.
Proof. reflexivity. Qed.

Lemma tool_conf_cbnt flag c : strict_of (tool_conf flag c) V20 = flag.
Proof. reflexivity. Qed.

(** * 2. The element loop *)

(** The exact order condition of the loop when the switch is on: field indices
    never go down, and only the slice field may repeat. *)
Fixpoint in_order (sp : mspec) (p : Z) (l : list Z) : bool :=
  match l with
  | [] => true
  | k :: t => ((p <? k) || ((p =? k) && ms_slice sp k)) && in_order sp k t
  end.

Definition kinds (sp : mspec) (els : list elem) : list Z := map fst (filter (known sp) els).

Lemma read_loop_total strict sp : forall els prev st,
  (exists st', read_loop strict sp prev st els = Ok st') \/
  (exists c, read_loop strict sp prev st els = Err c).
Proof.
  induction els as [|e t IH]; intros prev st; cbn [read_loop].
  - destruct (forallb _ _); [left|right]; eauto.
  - destruct (negb (known sp e)); [apply IH|].
    destruct (strict && _); [right; eauto|].
    destruct (negb _ && _); [right; eauto|]. apply IH.
Qed.

(** Elements with an unknown structure ID leave no trace. *)
Lemma read_loop_filter_known strict sp : forall els prev st,
  read_loop strict sp prev st els = read_loop strict sp prev st (filter (known sp) els).
Proof.
  induction els as [|e t IH]; intros prev st; [reflexivity|].
  cbn [read_loop filter]. destruct (known sp e) eqn:K; cbn [negb].
  - cbn [read_loop]. rewrite K. cbn [negb].
    destruct (strict && _); [reflexivity|].
    destruct (negb _ && _); [reflexivity|]. apply IH.
  - apply IH.
Qed.

Lemma unknown_elements_invisible strict sp orig mut :
  order_verdict strict sp orig mut = order_verdict strict sp orig (filter (known sp) mut).
Proof. unfold order_verdict. rewrite (read_loop_filter_known strict sp mut). reflexivity. Qed.

Lemma filter_all_true {A} (f : A -> bool) (l : list A) :
  (forall x, In x l -> f x = true) -> filter f l = l.
Proof.
  induction l as [|a t IH]; intro H; [reflexivity|]. cbn [filter].
  rewrite (H a (or_introl eq_refl)). f_equal. apply IH. intros x Hx. apply H. right. exact Hx.
Qed.

Lemma put_append sp e st p :
  (forall x, In x st -> fst x <= p) ->
  p < fst e \/ ms_slice sp (fst e) = true ->
  put sp e st = st ++ [e].
Proof.
  intros Hst Hk. unfold put. destruct (ms_slice sp (fst e)) eqn:S; [reflexivity|].
  destruct Hk as [Hk|Hk]; [|discriminate]. f_equal. apply filter_all_true.
  intros x Hx. specialize (Hst x Hx). apply Bool.negb_true_iff. apply Z.eqb_neq. lia.
Qed.

(** With the switch on, a run that succeeds stored exactly the known elements, in
    the order of the file, and that order is the documented one. *)
Lemma strict_run sp : forall els p st st',
  (forall x, In x st -> fst x <= p) ->
  read_loop true sp p st els = Ok st' ->
  st' = st ++ filter (known sp) els /\ in_order sp p (kinds sp els) = true.
Proof.
  unfold kinds.
  induction els as [|e t IH]; intros p st st' Hst R; cbn [read_loop filter] in *.
  - destruct (forallb _ _); [|discriminate]. inversion R. rewrite app_nil_r. split; reflexivity.
  - destruct (known sp e) eqn:K; cbn [negb] in R; [|apply (IH p st st' Hst R)].
    cbn [andb] in R.
    destruct (fst e <? p) eqn:Lt; [discriminate|].
    destruct (negb (ms_slice sp (fst e)) && (fst e =? p)) eqn:Dup; [discriminate|].
    apply Z.ltb_ge in Lt.
    assert (Hk : p < fst e \/ ms_slice sp (fst e) = true).
    { destruct (ms_slice sp (fst e)); [right; reflexivity|]. cbn [negb andb] in Dup.
      apply Z.eqb_neq in Dup. left. lia. }
    rewrite (put_append sp e st p Hst Hk) in R.
    apply IH in R.
    + destruct R as [R1 R2]. split.
      * rewrite R1, <- app_assoc. reflexivity.
      * cbn [map in_order]. rewrite R2, Bool.andb_true_r.
        destruct Hk as [Hk|Hk].
        -- apply Bool.orb_true_iff. left. apply Z.ltb_lt. exact Hk.
        -- rewrite Hk, Bool.andb_true_r.
           destruct (Z.eq_dec p (fst e)) as [->|Ne].
           ++ rewrite Z.eqb_refl. apply Bool.orb_true_r.
           ++ apply Bool.orb_true_iff. left. apply Z.ltb_lt. lia.
    + intros x Hx. apply in_app_or in Hx. destruct Hx as [Hx|[<-|[]]]; [specialize (Hst x Hx)|]; lia.
Qed.

Lemma in_order_head sp p k t : in_order sp p (k :: t) = true -> p <= k /\ in_order sp k t = true.
Proof.
  cbn [in_order]. intro H. apply Bool.andb_true_iff in H. destruct H as [H1 H2]. split; [|exact H2].
  apply Bool.orb_true_iff in H1. destruct H1 as [H1|H1].
  - apply Z.ltb_lt in H1. lia.
  - apply Bool.andb_true_iff in H1. destruct H1 as [H1 _]. apply Z.eqb_eq in H1. lia.
Qed.

(** Writing in documented order changes nothing when the elements already are in
    that order. *)
Lemma write_order_in_order sp : forall l p,
  in_order sp p (map fst l) = true -> write_order l = l.
Proof.
  induction l as [|e t IH]; intros p H; [reflexivity|].
  cbn [map] in H. apply in_order_head in H. destruct H as [_ H].
  unfold write_order in *. cbn [fold_right]. rewrite (IH (fst e) H).
  destruct t as [|x t']; [reflexivity|].
  cbn [map] in H. apply in_order_head in H. destruct H as [Hle _].
  cbn [insert_elem]. apply Z.leb_le in Hle. rewrite Hle. reflexivity.
Qed.

Lemma elem_eqb_eq a b : elem_eqb a b = true -> a = b.
Proof.
  destruct a as [a1 a2], b as [b1 b2]. unfold elem_eqb. cbn [fst snd]. intro H.
  apply Bool.andb_true_iff in H. destruct H as [H1 H2].
  apply Z.eqb_eq in H1. apply Z.eqb_eq in H2. subst. reflexivity.
Qed.

Lemma elems_eqb_eq : forall a b, elems_eqb a b = true -> a = b.
Proof.
  unfold elems_eqb. induction a as [|x a IH]; destruct b as [|y b]; cbn [list_eqb]; intro H;
    try reflexivity; try discriminate.
  apply Bool.andb_true_iff in H. destruct H as [H1 H2].
  apply elem_eqb_eq in H1. subst. f_equal. apply IH. exact H2.
Qed.

Lemma elems_eqb_refl : forall a, elems_eqb a a = true.
Proof.
  unfold elems_eqb. induction a as [|x a IH]; [reflexivity|]. cbn [list_eqb].
  rewrite IH. unfold elem_eqb. rewrite !Z.eqb_refl. reflexivity.
Qed.

(** With the switch on, an accepted file consists of the signed elements in the
    signed order, plus (possibly) chunks with unknown structure IDs. *)
Lemma strict_accepts_only_signed sp orig mut :
  order_verdict true sp orig mut = Ok tt -> filter (known sp) mut = orig.
Proof.
  unfold order_verdict. intro H.
  destruct (read_loop true sp (-1) [] mut) as [st| | |] eqn:R; try discriminate.
  apply strict_run in R; [|intros x []].
  destruct R as [R1 R2]. cbn [app] in R1. subst st.
  destruct (elems_eqb _ _) eqn:Eq; [|discriminate].
  apply elems_eqb_eq in Eq. unfold kinds in R2.
  rewrite (write_order_in_order sp _ _ R2) in Eq. exact Eq.
Qed.

Lemma strict_element_canonicity sp orig mut :
  (forall e, In e mut -> known sp e = true) ->
  order_verdict true sp orig mut = Ok tt -> mut = orig.
Proof.
  intros K H. apply strict_accepts_only_signed in H. rewrite (filter_all_true _ _ K) in H. exact H.
Qed.

(** ... and exactly those, when the signed manifest itself is one the suite accepts. *)
Lemma strict_accept_iff sp orig mut :
  order_verdict true sp orig orig = Ok tt ->
  (forall e, In e orig -> known sp e = true) ->
  (order_verdict true sp orig mut = Ok tt <-> filter (known sp) mut = orig).
Proof.
  intros Hself K. split; [apply strict_accepts_only_signed|].
  intro F. rewrite unknown_elements_invisible, F. exact Hself.
Qed.

(** With the switch on, elements out of the documented order are refused. *)
Lemma out_of_order_refused sp orig mut :
  in_order sp (-1) (kinds sp mut) = false -> exists c, order_verdict true sp orig mut = Err c.
Proof.
  intro H. unfold order_verdict.
  destruct (read_loop_total true sp mut (-1) []) as [[st R]|[c R]]; rewrite R.
  - apply strict_run in R; [|intros x []]. destruct R as [_ R]. congruence.
  - eauto.
Qed.

(** After any history of entry-point calls in a process that started with the
    library's configuration, a file whose known elements are not the signed
    sequence is not accepted. *)
Lemma default_process_accepts_only_signed h g orig mut :
  session_verdict lib_default_conf h g orig mut = Ok tt ->
  filter (known (bpm_spec g)) mut = orig.
Proof.
  rewrite session_history_free.
  replace (strict_of lib_default_conf g) with true by (destruct g; reflexivity).
  apply strict_accepts_only_signed.
Qed.

Lemma default_process_refuses_rearranged h g orig mut :
  (forall e, In e mut -> known (bpm_spec g) e = true) -> mut <> orig ->
  session_verdict lib_default_conf h g orig mut <> Ok tt.
Proof.
  intros K Ne H. apply default_process_accepts_only_signed in H.
  rewrite (filter_all_true _ _ K) in H. contradiction.
Qed.

(** * 3. Closed witnesses *)

(** a CBnT BPM: header, IBB element, TXT element, PM element, signature element *)
Definition w_orig : list elem := [(0, 0); (1, 1); (2, 2); (5, 3); (6, 4)].
(** ... with the IBB and the TXT element exchanged *)
Definition w_swapped : list elem := [(0, 0); (2, 2); (1, 1); (5, 3); (6, 4)].
(** ... with a chunk of StructInfo size carrying an unknown structure ID after the header *)
Definition w_junk : list elem := [(0, 0); (-1, 100); (1, 1); (2, 2); (5, 3); (6, 4)].
(** a BG 1.0 BPM and the same with such a chunk in front of the signature element *)
Definition w_orig10 : list elem := [(0, 0); (1, 1); (2, 2); (3, 3)].
Definition w_junk10 : list elem := [(0, 0); (1, 1); (2, 2); (-1, 100); (3, 3)].

Lemma witness_self :
  order_verdict true (bpm_spec V20) w_orig w_orig = Ok tt /\
  order_verdict true (bpm_spec V10) w_orig10 w_orig10 = Ok tt /\
  (forall e, In e w_orig -> known (bpm_spec V20) e = true).
Proof.
  split; [vm_compute; reflexivity|]. split; [vm_compute; reflexivity|].
  intros e H. cbn in H. repeat (destruct H as [<-|H]; [reflexivity|]). destruct H.
Qed.

(** The element-level face of the open finding: the stored signed portion differs
    from what was signed, and the file is accepted -- with the order check ON. *)
Lemma unknown_element_accepted :
  w_junk <> w_orig /\ order_verdict true (bpm_spec V20) w_orig w_junk = Ok tt /\
  w_junk10 <> w_orig10 /\ order_verdict true (bpm_spec V10) w_orig10 w_junk10 = Ok tt.
Proof.
  split; [discriminate|]. split; [vm_compute; reflexivity|].
  split; [discriminate|]. vm_compute; reflexivity.
Qed.

(** The configuration the suite's tools run with by default (flag not given)
    accepts a CBnT manifest whose elements were exchanged; the library's default
    refuses it. *)
Lemma tool_default_accepts_permutation :
  w_swapped <> w_orig /\ Permutation w_swapped w_orig /\
  (forall e, In e w_swapped -> known (bpm_spec V20) e = true) /\
  session_verdict (tool_conf false lib_default_conf) [] V20 w_orig w_swapped = Ok tt /\
  session_verdict lib_default_conf [] V20 w_orig w_swapped = Err 1.
Proof.
  split; [discriminate|]. split.
  { unfold w_swapped, w_orig. apply perm_skip. apply perm_swap. }
  split.
  { intros e H. cbn in H. repeat (destruct H as [<-|H]; [reflexivity|]). destruct H. }
  split; vm_compute; reflexivity.
Qed.

(** the statements of Props/C18.v, in their final form *)
Lemma unknown_element_accepted_ex :
  (exists orig mut, mut <> orig /\ order_verdict true (bpm_spec V20) orig mut = Ok tt) /\
  (exists orig mut, mut <> orig /\ order_verdict true (bpm_spec V10) orig mut = Ok tt).
Proof.
  split; [exists w_orig, w_junk | exists w_orig10, w_junk10];
    split; apply unknown_element_accepted.
Qed.

Lemma tool_conf_switches flag c :
  strict_of (tool_conf flag c) V10 = strict_of c V10 /\ strict_of (tool_conf flag c) V20 = flag.
Proof. split; reflexivity. Qed.

Lemma tool_default_accepts_permutation_ex :
  exists orig mut,
    mut <> orig /\ Permutation mut orig /\
    (forall e, In e mut -> known (bpm_spec V20) e = true) /\
    session_verdict (tool_conf false lib_default_conf) [] V20 orig mut = Ok tt /\
    session_verdict lib_default_conf [] V20 orig mut = Err 1.
Proof. exists w_orig, w_swapped. exact tool_default_accepts_permutation. Qed.
