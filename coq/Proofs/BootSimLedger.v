(** Proofs about Model/BootSimLedger.v (property C01): on every boot the run of
    Model/BootSim.v IS the ledger of its items -- command log, event log,
    MeasuredData, step issues, and the cause recorded beside every command --,
    and the exact behaviour of tpm.Commands.Apply on a recorded command log. *)
From CSS Require Import Lib.Base Model.TPM Proofs.TPM Model.BootSim Proofs.BootSim Model.BootSimLedger.

(** * 0. tpm.Commands.Apply, exactly *)

Section Apply.
Variable H : Z -> list Z -> list Z.

(** it returns nil only if no command failed *)
Lemma commands_apply_ok_results h : forall t1 t2 t',
  no_reset h = true -> same_obs t1 t2 ->
  commands_apply H t1 h = (t', Ok tt) -> Forall ok (results H t2 h).
Proof.
  induction h as [|c r IH]; intros t1 t2 t' Hn Ho E; cbn [commands_apply results] in *; [constructor|].
  apply not_reset_of_no_reset in Hn. destruct Hn as [Hc Hr].
  destruct (step_vs_apply H t1 t2 c Hc Ho) as [Ho' Hres].
  destruct (apply H t1 c) as [t1' r1] eqn:Ea. cbn [fst snd] in *.
  destruct r1 as [[]|e| |]; try (inversion E; fail).
  constructor; [unfold ok; symmetry; exact Hres|].
  eapply IH; eauto.
Qed.

(** it stops at the first command that fails, returns that command's error, and
    leaves the TPM as the prefix up to and including that command left it *)
Lemma commands_apply_stops_at pre : forall t1 t2 c post,
  no_reset (pre ++ c :: post) = true -> same_obs t1 t2 ->
  Forall ok (results H t2 pre) ->
  snd (step H (run H t2 pre) c) <> Ok tt ->
  exists t', commands_apply H t1 (pre ++ c :: post) = (t', snd (step H (run H t2 pre) c)) /\
             same_obs t' (run H t2 (pre ++ [c])).
Proof.
  induction pre as [|x pre IH]; intros t1 t2 c post Hn Ho Hok Hbad; cbn [app commands_apply run results] in *.
  - apply not_reset_of_no_reset in Hn. destruct Hn as [Hc _].
    destruct (step_vs_apply H t1 t2 c Hc Ho) as [Ho' Hres].
    destruct (apply H t1 c) as [t1' r1] eqn:Ea. cbn [fst snd] in *.
    rewrite <- Hres in *. exists t1'. split; [|exact Ho'].
    destruct r1 as [[]|e| |]; [exfalso; apply Hbad; reflexivity|reflexivity ..].
  - apply not_reset_of_no_reset in Hn. destruct Hn as [Hc Hr].
    inversion Hok as [|? ? Hhd Htl]; subst.
    destruct (step_vs_apply H t1 t2 x Hc Ho) as [Ho' Hres].
    destruct (apply H t1 x) as [t1' r1] eqn:Ea. cbn [fst snd] in *.
    unfold ok in Hhd. rewrite Hhd in Hres. subst r1.
    apply IH; assumption.
Qed.

End Apply.

Section Ledger.
Variable ref : Type.
Variable bytes_of : ref -> outcome (list Z).
Variable H : Z -> list Z -> list Z.
Hypothesis H_length : forall a x, length (H a x) = hsize a.

Notation converted := (BootSim.converted ref bytes_of H).
Notation event_loop := (BootSim.event_loop H).
Notation apply_act := (BootSim.apply_act ref bytes_of H).
Notation run_acts := (BootSim.run_acts ref bytes_of H).
Notation compile_step := (BootSim.compile_step ref bytes_of H).
Notation run_step := (BootSim.run_step ref bytes_of H).
Notation run_flow := (BootSim.run_flow ref bytes_of H).
Notation sim := (BootSim.sim ref).
Notation item := (BootSim.item ref).
Notation tact := (BootSim.tact ref).
Notation mdata := (BootSim.mdata ref).
Notation act_ledger := (BootSimLedger.act_ledger ref bytes_of H).
Notation acts_ledger := (BootSimLedger.acts_ledger ref bytes_of H).
Notation flow_ledger := (BootSimLedger.flow_ledger ref bytes_of H).
Notation run_acts_tagged := (BootSimLedger.run_acts_tagged ref bytes_of H).
Notation run_step_tagged := (BootSimLedger.run_step_tagged ref bytes_of H).
Notation run_flow_tagged := (BootSimLedger.run_flow_tagged ref bytes_of H).
Notation event_cmds := (BootSimLedger.event_cmds H).

(** * 1. One TPM command *)

Lemma supported_range a : is_supported a = true -> 0 <= a < 65536.
Proof. unfold is_supported, ALG_SHA1, ALG_SHA256. lia. Qed.

(** the TPM accepts an extend exactly when the ledger says so *)
Lemma extend_ok_iff t p a d :
  wf t -> (snd (step H t (Extend p a d)) = Ok tt <-> ext_accepted (initialized t) p a = true).
Proof.
  intros Hw. unfold ext_accepted.
  destruct (Z_lt_dec a 0) as [Hlo|Hlo]; [|destruct (Z_le_dec 65536 a) as [Hhi|Hhi]].
  - assert (is_supported a = false) as -> by (unfold is_supported, ALG_SHA1, ALG_SHA256; lia).
    rewrite andb_false_r. cbn [step apply].
    replace ((a <? 0) || (POOL_SIZE <=? a)) with true by (unfold POOL_SIZE; lia). cbn [snd].
    split; discriminate.
  - assert (is_supported a = false) as -> by (unfold is_supported, ALG_SHA1, ALG_SHA256; lia).
    rewrite andb_false_r. cbn [step apply].
    replace ((a <? 0) || (POOL_SIZE <=? a)) with true by (unfold POOL_SIZE; lia). cbn [snd].
    split; discriminate.
  - pose proof (extend_outcome H t p a d Hw ltac:(lia)) as O.
    destruct (initialized t && (0 <=? p) && (p <? 2) && is_supported a).
    + rewrite O. split; reflexivity.
    + destruct O as [e ->]. split; discriminate.
Qed.

Lemma step_keeps t c :
  is_reset c = false -> wf t ->
  wf (fst (step H t c)) /\ algos (fst (step H t c)) = algos t /\
  cmdlog (fst (step H t c)) = cmdlog t ++ [c] /\
  initialized (fst (step H t c)) = initialized t || is_startup c.
Proof.
  intros Hr Hw. split; [apply wf_step; [exact H_length|exact Hw]|].
  split; [apply algos_step; exact Hr|]. split; [apply cmdlog_step; exact Hr|].
  apply initialized_step. exact Hr.
Qed.

(** * 2. One action *)

(** [acc]: the TPM is started and the PCR is 0 or 1 *)
Definition acc (st : bool) (p : Z) : bool := st && (0 <=? p) && (p <? 2).

Lemma ext_accepted_supported st p a : is_supported a = true -> ext_accepted st p a = acc st p.
Proof. intros E. unfold ext_accepted, acc. rewrite E, andb_true_r. reflexivity. Qed.

Lemma event_loop_ledger algs : forall t p msg ty evd,
  wf t -> Forall (fun a => is_supported a = true) algs ->
  let t' := fst (event_loop t p msg ty evd algs) in
  let r := snd (event_loop t p msg ty evd algs) in
  wf t' /\ algos t' = algos t /\ initialized t' = initialized t /\
  if acc (initialized t) p
  then cmdlog t' = cmdlog t ++ event_cmds p msg ty evd algs /\ r = Ok tt
  else match algs with
       | [] => cmdlog t' = cmdlog t /\ r = Ok tt
       | a :: _ => cmdlog t' = cmdlog t ++ [Extend p a (H a msg)] /\ r <> Ok tt
       end.
Proof.
  induction algs as [|a rest IH]; intros t p msg ty evd Hw Hs; cbn [BootSim.event_loop].
  - cbn [fst snd]. repeat split; try assumption.
    destruct (acc (initialized t) p); cbn [BootSimLedger.event_cmds flat_map]; rewrite ?app_nil_r; auto.
  - inversion Hs as [|? ? Ha Hrest]; subst.
    pose proof (extend_ok_iff t p a (H a msg) Hw) as Ok1.
    rewrite (ext_accepted_supported _ _ _ Ha) in Ok1.
    destruct (step_keeps t (Extend p a (H a msg)) eq_refl Hw) as (W1 & A1 & C1 & I1).
    destruct (step H t (Extend p a (H a msg))) as [t1 r1] eqn:E1. cbn [fst snd] in *.
    cbn [is_startup] in I1. rewrite orb_false_r in I1.
    destruct r1 as [[]|e| |].
    + (* accepted *)
      assert (Hacc : acc (initialized t) p = true) by (apply Ok1; reflexivity).
      destruct (step_keeps t1 (LogAdd p a (H a msg) ty evd) eq_refl W1) as (W2 & A2 & C2 & I2).
      rewrite step_logadd in *. cbn [fst snd] in *.
      set (t2 := log_event (log_cmd t1 (LogAdd p a (H a msg) ty evd)) (EV p a (H a msg) ty evd)) in *.
      cbn [is_startup] in I2. rewrite orb_false_r in I2.
      specialize (IH t2 p msg ty evd W2 Hrest). cbv zeta in IH.
      destruct IH as (W3 & A3 & I3 & IH).
      assert (Hacc2 : acc (initialized t2) p = true) by (rewrite I2, I1; exact Hacc).
      rewrite Hacc2 in IH. destruct IH as [C3 R3].
      rewrite Hacc. repeat split.
      * exact W3.
      * rewrite A3, A2, A1. reflexivity.
      * rewrite I3, I2, I1. reflexivity.
      * rewrite C3, C2, C1. cbn [BootSimLedger.event_cmds flat_map app]. rewrite <- !app_assoc. reflexivity.
      * exact R3.
    + assert (Hacc : acc (initialized t) p = false).
      { destruct (acc (initialized t) p); [|reflexivity]. destruct Ok1 as [_ X]. discriminate (X eq_refl). }
      rewrite Hacc. cbn [fst snd]. repeat split; try assumption. discriminate.
    + assert (Hacc : acc (initialized t) p = false).
      { destruct (acc (initialized t) p); [|reflexivity]. destruct Ok1 as [_ X]. discriminate (X eq_refl). }
      rewrite Hacc. cbn [fst snd]. repeat split; try assumption. discriminate.
    + assert (Hacc : acc (initialized t) p = false).
      { destruct (acc (initialized t) p); [|reflexivity]. destruct Ok1 as [_ X]. discriminate (X eq_refl). }
      rewrite Hacc. cbn [fst snd]. repeat split; try assumption. discriminate.
Qed.

Lemma supported_all : Forall (fun a => is_supported a = true) supported.
Proof. repeat constructor. Qed.

(** what one action does, in the ledger's words *)
Definition act_spec (s : sim) (a : tact) (s' : sim) (r : outcome unit) : Prop :=
  let st := initialized (s_tpm s) in
  let L := act_ledger st a in
  wf (s_tpm s') /\ algos (s_tpm s') = algos (s_tpm s) /\
  initialized (s_tpm s') = st || is_init ref a /\
  cmdlog (s_tpm s') = cmdlog (s_tpm s) ++ al_cmds L /\
  s_meas s' = s_meas s ++ al_meas L /\
  failed r = negb (al_ok L).

Lemma apply_act_ledger s a :
  wf (s_tpm s) -> act_spec s a (fst (apply_act s a)) (snd (apply_act s a)).
Proof.
  intros Hw. unfold act_spec. cbv zeta.
  assert (Same : forall r : outcome unit, failed r = true ->
            wf (s_tpm s) /\ algos (s_tpm s) = algos (s_tpm s) /\
            initialized (s_tpm s) = initialized (s_tpm s) || false /\
            cmdlog (s_tpm s) = cmdlog (s_tpm s) ++ [] /\ s_meas s = s_meas s ++ [] /\ failed r = negb false).
  { intros r Hr. rewrite orb_false_r, !app_nil_r. repeat split; auto. }
  destruct a as [l|p src ty evd|p src al|p al d ty evd|]; cbn [BootSim.apply_act BootSimLedger.act_ledger is_init].
  - (* TPMInit *)
    destruct (step_keeps (s_tpm s) (Startup l) eq_refl Hw) as (W1 & A1 & C1 & I1).
    pose proof (startup_outcome H (s_tpm s) l) as O.
    destruct (step H (s_tpm s) (Startup l)) as [t r] eqn:E. cbn [fst snd with_tpm s_tpm s_meas al_cmds al_ok al_meas] in *.
    rewrite app_nil_r. repeat split; auto.
    rewrite O. destruct (initialized (s_tpm s)); reflexivity.
  - (* TPMEvent *)
    destruct src as [d| |]; try (cbn [fst snd al_cmds al_ok al_meas no_trace]; apply Same; reflexivity).
    destruct (converted d) as [msg|e| |] eqn:Ec;
      try (cbn [fst snd al_cmds al_ok al_meas no_trace]; apply Same; reflexivity).
    pose proof (event_loop_ledger supported (s_tpm s) p msg ty evd Hw supported_all) as G. cbv zeta in G.
    destruct (event_loop (s_tpm s) p msg ty evd supported) as [t r]. cbn [fst snd] in G.
    destruct G as (W1 & A1 & I1 & G).
    rewrite (ext_accepted_supported (initialized (s_tpm s)) p ALG_SHA1 eq_refl).
    destruct (acc (initialized (s_tpm s)) p).
    + destruct G as [C1 ->]. cbn [fst snd add_meas with_tpm s_tpm s_meas al_cmds al_ok al_meas].
      rewrite orb_false_r. repeat split; auto.
    + cbn [supported] in G. destruct G as [C1 R1].
      assert (failed r = true) as F by (destruct r as [[]| | |]; [exfalso; apply R1; reflexivity|reflexivity ..]).
      destruct r as [[]|e| |]; try discriminate F;
        cbn [fst snd with_tpm s_tpm s_meas al_cmds al_ok al_meas];
        rewrite orb_false_r, app_nil_r; repeat split; auto.
  - (* TPMExtend *)
    destruct src as [d| |]; try (cbn [fst snd al_cmds al_ok al_meas no_trace]; apply Same; reflexivity).
    destruct (converted d) as [msg|e| |] eqn:Ec;
      try (cbn [fst snd al_cmds al_ok al_meas no_trace]; apply Same; reflexivity).
    destruct (step_keeps (s_tpm s) (Extend p al msg) eq_refl Hw) as (W1 & A1 & C1 & I1).
    pose proof (extend_ok_iff (s_tpm s) p al msg Hw) as O.
    destruct (step H (s_tpm s) (Extend p al msg)) as [t r] eqn:E. cbn [fst snd is_startup] in *.
    rewrite orb_false_r in I1.
    destruct (ext_accepted (initialized (s_tpm s)) p al).
    + destruct O as [_ O]. rewrite (O eq_refl).
      cbn [fst snd add_meas with_tpm s_tpm s_meas al_cmds al_ok al_meas]. rewrite orb_false_r. repeat split; auto.
    + assert (failed r = true) as F.
      { destruct r as [[]| | |]; [destruct O as [O _]; discriminate (O eq_refl)|reflexivity ..]. }
      destruct r as [[]|e| |]; try discriminate F;
        cbn [fst snd with_tpm s_tpm s_meas al_cmds al_ok al_meas];
        rewrite orb_false_r, app_nil_r; repeat split; auto.
  - (* TPMEventLogAdd *)
    destruct (step_keeps (s_tpm s) (LogAdd p al d ty evd) eq_refl Hw) as (W1 & A1 & C1 & I1).
    rewrite step_logadd in *. cbn [fst snd with_tpm s_tpm s_meas al_cmds al_ok al_meas is_startup] in *.
    rewrite app_nil_r. repeat split; auto.
  - cbn [fst snd al_cmds al_ok al_meas no_trace]. apply Same. reflexivity.
Qed.

(** * 3. The actions of a step, the steps of a flow *)

Lemma run_acts_ledger acts : forall s,
  wf (s_tpm s) ->
  let st := initialized (s_tpm s) in
  let s' := fst (run_acts s acts) in
  wf (s_tpm s') /\ algos (s_tpm s') = algos (s_tpm s) /\
  initialized (s_tpm s') = st || existsb (is_init ref) acts /\
  cmdlog (s_tpm s') = cmdlog (s_tpm s) ++ flat_map al_cmds (acts_ledger st acts) /\
  s_meas s' = s_meas s ++ flat_map al_meas (acts_ledger st acts) /\
  map failed (snd (run_acts s acts)) = map (fun x => negb (al_ok x)) (acts_ledger st acts).
Proof.
  induction acts as [|a rest IH]; intros s Hw; cbn [BootSim.run_acts BootSimLedger.acts_ledger existsb flat_map map].
  - cbn [fst snd map]. rewrite orb_false_r, !app_nil_r. repeat split; auto.
  - pose proof (apply_act_ledger s a Hw) as G. unfold act_spec in G. cbv zeta in G.
    destruct (apply_act s a) as [s1 r]. cbn [fst snd] in G.
    destruct G as (W1 & A1 & I1 & C1 & M1 & F1).
    specialize (IH s1 W1). cbv zeta in IH.
    destruct (run_acts s1 rest) as [s2 rs]. cbn [fst snd] in *.
    destruct IH as (W2 & A2 & I2 & C2 & M2 & F2). rewrite I1 in *.
    repeat split.
    + exact W2.
    + congruence.
    + rewrite I2, orb_assoc. reflexivity.
    + rewrite C2, C1, <- app_assoc. reflexivity.
    + rewrite M2, M1, <- app_assoc. reflexivity.
    + cbn [map]. rewrite F1, F2. reflexivity.
Qed.

(** the tagged run is the run, and its tags are the ledger's *)
Lemma run_acts_tagged_ledger acts : forall s i j,
  wf (s_tpm s) ->
  fst (run_acts_tagged s i j acts) = fst (run_acts s acts) /\
  snd (run_acts_tagged s i j acts) = acts_tagged i j (acts_ledger (initialized (s_tpm s)) acts).
Proof.
  induction acts as [|a rest IH]; intros s i j Hw;
    cbn [BootSimLedger.run_acts_tagged BootSim.run_acts BootSimLedger.acts_ledger acts_tagged].
  - auto.
  - pose proof (apply_act_ledger s a Hw) as G. unfold act_spec in G. cbv zeta in G.
    destruct (apply_act s a) as [s1 r]. cbn [fst snd] in *.
    destruct G as (W1 & A1 & I1 & C1 & M1 & F1).
    destruct (IH s1 i (S j) W1) as [E1 E2].
    destruct (run_acts_tagged s1 i (S j) rest) as [s2 cs]. destruct (run_acts s1 rest) as [s2' rs].
    cbn [fst snd] in *. split; [exact E1|].
    rewrite C1, skipn_app, skipn_all, Nat.sub_diag. cbn [skipn app]. rewrite E2, I1. reflexivity.
Qed.

Lemma compile_step_only t its : compile_step t its = compile_step (algos_only (algos t)) its.
Proof. apply compile_step_algos. reflexivity. Qed.

(** the state of the TPM as far as the ledger needs it *)
Definition led_state (s : sim) (al : list Z) (st : bool) : Prop :=
  wf (s_tpm s) /\ algos (s_tpm s) = al /\ initialized (s_tpm s) = st.

Lemma run_flow_ledger fl : forall s al st i,
  led_state s al st ->
  let s' := fst (run_flow s fl) in
  let L := flow_ledger al st fl in
  wf (s_tpm s') /\ algos (s_tpm s') = al /\
  cmdlog (s_tpm s') = cmdlog (s_tpm s) ++ led_cmds L /\
  s_meas s' = s_meas s ++ led_meas L /\
  map (map failed) (snd (run_flow s fl)) = led_issues L /\
  fst (run_flow_tagged s i fl) = s' /\
  snd (run_flow_tagged s i fl) = led_tagged i L.
Proof.
  induction fl as [|its rest IH]; intros s al st i (Hw & Ha & Hi);
    cbn [BootSim.run_flow BootSimLedger.flow_ledger BootSimLedger.run_flow_tagged].
  - cbn [fst snd map]. unfold led_cmds, led_meas, led_issues. cbn [flat_map map led_tagged].
    rewrite !app_nil_r. repeat split; auto.
  - unfold BootSim.run_step, BootSimLedger.run_step_tagged.
    rewrite (compile_step_only (s_tpm s) its), Ha.
    destruct (compile_step (algos_only al) its) as [acts|e| |] eqn:Ec.
    + pose proof (run_acts_ledger acts s Hw) as G. cbv zeta in G.
      destruct (run_acts_tagged_ledger acts s i 0 Hw) as [T1 T2].
      destruct (run_acts_tagged s i 0 acts) as [s1t c1]. destruct (run_acts s acts) as [s1 r1].
      cbn [fst snd] in *. subst s1t c1.
      destruct G as (W1 & A1 & I1 & C1 & M1 & F1). rewrite Hi in *.
      assert (LS : led_state s1 al (st || existsb (is_init ref) acts)) by (repeat split; congruence).
      specialize (IH s1 al _ (S i) LS). cbv zeta in IH.
      destruct (run_flow_tagged s1 (S i) rest) as [s2t c2]. destruct (run_flow s1 rest) as [s2 rs].
      cbn [fst snd] in *. destruct IH as (W2 & A2 & C2 & M2 & F2 & T3 & T4). subst s2t c2.
      unfold led_cmds, led_meas, led_issues in *. cbn [flat_map map step_cmds step_meas step_issues led_tagged].
      repeat split; auto.
      * rewrite C2, C1, <- app_assoc. reflexivity.
      * rewrite M2, M1, <- app_assoc. reflexivity.
      * rewrite F1, F2. reflexivity.
    + assert (LS : led_state s al st) by (repeat split; assumption).
      specialize (IH s al st (S i) LS). cbv zeta in IH.
      destruct (run_flow_tagged s (S i) rest) as [s2t c2]. destruct (run_flow s rest) as [s2 rs].
      cbn [fst snd] in *. destruct IH as (W2 & A2 & C2 & M2 & F2 & T3 & T4). subst s2t c2.
      unfold led_cmds, led_meas, led_issues in *. cbn [flat_map map step_cmds step_meas step_issues led_tagged app].
      repeat split; auto. rewrite F2. reflexivity.
    + assert (LS : led_state s al st) by (repeat split; assumption).
      specialize (IH s al st (S i) LS). cbv zeta in IH.
      destruct (run_flow_tagged s (S i) rest) as [s2t c2]. destruct (run_flow s rest) as [s2 rs].
      cbn [fst snd] in *. destruct IH as (W2 & A2 & C2 & M2 & F2 & T3 & T4). subst s2t c2.
      unfold led_cmds, led_meas, led_issues in *. cbn [flat_map map step_cmds step_meas step_issues led_tagged app].
      repeat split; auto. rewrite F2. reflexivity.
    + assert (LS : led_state s al st) by (repeat split; assumption).
      specialize (IH s al st (S i) LS). cbv zeta in IH.
      destruct (run_flow_tagged s (S i) rest) as [s2t c2]. destruct (run_flow s rest) as [s2 rs].
      cbn [fst snd] in *. destruct IH as (W2 & A2 & C2 & M2 & F2 & T3 & T4). subst s2t c2.
      unfold led_cmds, led_meas, led_issues in *. cbn [flat_map map step_cmds step_meas step_issues led_tagged app].
      repeat split; auto. rewrite F2. reflexivity.
Qed.

(** * 4. Boots *)

Lemma wf_start r : wf (start_of r).
Proof. destruct r; left; reflexivity. Qed.

Lemma led_state_start r : led_state (boot_start r) (algos (start_of r)) false.
Proof. repeat split; [apply wf_start|destruct r; reflexivity]. Qed.

(** ** C01_boot_is_its_ledger *)
Theorem boot_is_ledger r fl :
  let res := run_flow (boot_start r) fl in
  let t := s_tpm (fst res) in
  let L := flow_ledger (algos (start_of r)) false fl in
  cmdlog t = led_cmds L /\ evlog t = events_of (led_cmds L) /\
  s_meas (fst res) = led_meas L /\ map (map failed) (snd res) = led_issues L.
Proof.
  cbv zeta. destruct (run_flow_ledger fl (boot_start r) _ _ 0%nat (led_state_start r))
    as (_ & _ & C & M & F & _ & _).
  cbn [boot_start s_tpm s_meas] in C, M. rewrite cmdlog_start in C. cbn [app] in C, M.
  repeat split; auto.
  destruct (boot_history ref bytes_of H r fl) as (h & Hn & E & Lh & _).
  rewrite E. destruct (log_exact H (start_of r) h Hn) as [_ L2]. rewrite L2, evlog_start. cbn [app].
  rewrite <- C, Lh. reflexivity.
Qed.

(** ... for every boot of a session on one TPM object, whatever the earlier boots were *)
Theorem session_is_ledgers bs : forall prev,
  Forall2 (fun res b =>
             let L := flow_ledger (algos (start_of (fst b))) false (snd b) in
             cmdlog (s_tpm (fst res)) = led_cmds L /\ evlog (s_tpm (fst res)) = events_of (led_cmds L) /\
             s_meas (fst res) = led_meas L /\ map (map failed) (snd res) = led_issues L)
          (BootSim.run_boots ref bytes_of H prev bs) bs.
Proof.
  intros prev. rewrite (run_boots_each ref bytes_of H bs prev).
  induction bs as [|[r fl] rest IH]; cbn [map]; constructor; [|exact IH].
  cbn [fst snd]. apply boot_is_ledger.
Qed.

(** ** C01_command_causes: the run with causes *)
Theorem tagged_is_ledger r fl :
  let res := run_flow_tagged (boot_start r) 0 fl in
  fst res = fst (run_flow (boot_start r) fl) /\
  snd res = led_tagged 0 (flow_ledger (algos (start_of r)) false fl) /\
  map snd (snd res) = cmdlog (s_tpm (fst (run_flow (boot_start r) fl))).
Proof.
  cbv zeta. destruct (run_flow_ledger fl (boot_start r) _ _ 0%nat (led_state_start r))
    as (_ & _ & C & _ & _ & T1 & T2).
  split; [exact T1|]. split; [exact T2|].
  rewrite T2, C. cbn [boot_start s_tpm]. rewrite cmdlog_start. cbn [app].
  generalize (flow_ledger (algos (start_of r)) false fl). generalize 0%nat.
  intros i L. revert i. induction L as [|o rest IH]; intros i; cbn [led_tagged]; [reflexivity|].
  unfold led_cmds in *. cbn [flat_map]. rewrite map_app, IH. f_equal.
  destruct o as [l|]; [|reflexivity]. cbn [step_cmds]. generalize 0%nat. intros j. revert j.
  induction l as [|x l IHl]; intros j; cbn [acts_tagged flat_map]; [reflexivity|].
  rewrite map_app, IHl, map_map. cbn [snd]. rewrite map_id. reflexivity.
Qed.

(** every tagged command was sent by the action at its coordinates: step [i] of the
    flow compiled (against SupportedAlgos) to actions of which number [j] is an action
    [a] that issues [c] *)
Lemma act_ledger_cmds st a c : In c (al_cmds (act_ledger st a)) -> act_cmd ref bytes_of H a c.
Proof.
  destruct a as [l|p src ty evd|p src al|p al d ty evd|]; cbn [BootSimLedger.act_ledger act_cmd].
  - cbn [al_cmds In]. intros [<-|[]]. reflexivity.
  - destruct src as [d| |]; try (cbn [no_trace al_cmds In]; tauto).
    destruct (converted d) as [msg|e| |] eqn:Ec; try (cbn [no_trace al_cmds In]; tauto).
    destruct (ext_accepted st p ALG_SHA1); cbn [al_cmds]; intros Hi.
    + unfold BootSimLedger.event_cmds in Hi. apply in_flat_map in Hi. destruct Hi as (a & Ia & Hc).
      exists d, msg, a. repeat split; auto. destruct Hc as [<-|[<-|[]]]; auto.
    + destruct Hi as [<-|[]]. exists d, msg, ALG_SHA1. repeat split; auto. left. reflexivity.
  - destruct src as [d| |]; try (cbn [no_trace al_cmds In]; tauto).
    destruct (converted d) as [msg|e| |] eqn:Ec; try (cbn [no_trace al_cmds In]; tauto).
    destruct (ext_accepted st p al); cbn [al_cmds In]; intros [<-|[]]; exists d, msg; auto.
  - cbn [al_cmds In]. intros [<-|[]]. reflexivity.
  - cbn [no_trace al_cmds In]. tauto.
Qed.

Lemma acts_tagged_in acts : forall st i j0 j c,
  In (i, j, c) (acts_tagged i j0 (acts_ledger st acts)) ->
  exists a, (j0 <= j)%nat /\ nth_error acts (j - j0) = Some a /\ act_cmd ref bytes_of H a c.
Proof.
  induction acts as [|a rest IH]; intros st i j0 j c Hi; cbn [BootSimLedger.acts_ledger acts_tagged] in Hi; [destruct Hi|].
  apply in_app_or in Hi. destruct Hi as [Hi|Hi].
  - apply in_map_iff in Hi. destruct Hi as (c' & E & Hc). inversion E; subst.
    exists a. rewrite Nat.sub_diag. split; [lia|]. split; [reflexivity|]. eapply act_ledger_cmds; eauto.
  - destruct (IH _ _ _ _ _ Hi) as (a' & Hle & Hn & Hc). exists a'. split; [lia|]. split; [|exact Hc].
    replace (j - j0)%nat with (S (j - S j0)) by lia. exact Hn.
Qed.

Lemma acts_tagged_step acts st i j0 i' j c :
  In (i', j, c) (acts_tagged i j0 (acts_ledger st acts)) -> i' = i.
Proof.
  revert st j0. induction acts as [|a rest IH]; intros st j0 Hi; cbn [BootSimLedger.acts_ledger acts_tagged] in Hi; [destruct Hi|].
  apply in_app_or in Hi. destruct Hi as [Hi|Hi]; [|eapply IH; eauto].
  apply in_map_iff in Hi. destruct Hi as (c' & E & _). inversion E. reflexivity.
Qed.

Lemma led_tagged_in fl : forall al st i0 i j c,
  In (i, j, c) (led_tagged i0 (flow_ledger al st fl)) ->
  exists its acts a, (i0 <= i)%nat /\ nth_error fl (i - i0) = Some its /\
    compile_step (algos_only al) its = Ok acts /\ nth_error acts j = Some a /\ act_cmd ref bytes_of H a c.
Proof.
  induction fl as [|its rest IH]; intros al st i0 i j c Hi; cbn [BootSimLedger.flow_ledger led_tagged] in Hi; [destruct Hi|].
  assert (Later : forall st', In (i, j, c) (led_tagged (S i0) (flow_ledger al st' rest)) ->
            exists its0 acts a, (i0 <= i)%nat /\ nth_error (its :: rest) (i - i0) = Some its0 /\
              compile_step (algos_only al) its0 = Ok acts /\ nth_error acts j = Some a /\ act_cmd ref bytes_of H a c).
  { intros st' Hi'. destruct (IH _ _ _ _ _ _ Hi') as (its0 & acts & a & Hle & Hn & Ec & Hj & Hc).
    exists its0, acts, a. split; [lia|]. split; [|auto].
    replace (i - i0)%nat with (S (i - S i0)) by lia. exact Hn. }
  destruct (compile_step (algos_only al) its) as [acts|e| |] eqn:Ec; cbn [led_tagged] in Hi;
    try (cbn [app] in Hi; eapply Later; eauto; fail).
  apply in_app_or in Hi. destruct Hi as [Hi|Hi]; [|eapply Later; eauto].
  pose proof (acts_tagged_step _ _ _ _ _ _ _ Hi) as ->.
  destruct (acts_tagged_in _ _ _ _ _ _ Hi) as (a & _ & Hn & Hc).
  exists its, acts, a. rewrite Nat.sub_diag, Nat.sub_0_r in *. repeat split; auto.
Qed.

Theorem tagged_cause r fl i j c :
  In (i, j, c) (snd (run_flow_tagged (boot_start r) 0 fl)) ->
  exists its acts a, nth_error fl i = Some its /\
    compile_step (start_of r) its = Ok acts /\ nth_error acts j = Some a /\ act_cmd ref bytes_of H a c.
Proof.
  destruct (tagged_is_ledger r fl) as (_ & T & _). cbv zeta in T. rewrite T. intros Hi.
  destruct (led_tagged_in _ _ _ _ _ _ _ Hi) as (its & acts & a & _ & Hn & Ec & Hj & Hc).
  exists its, acts, a. rewrite Nat.sub_0_r in Hn. rewrite (compile_step_only (start_of r) its). auto.
Qed.

(** ** tpm.Commands.Apply on the command log of a boot *)

(** the answers the TPM gave to the commands of the log while the flow ran *)
Definition answers (r : reuse) (fl : list (list item)) : list (outcome unit) :=
  results H (start_of r) (cmdlog (s_tpm (fst (run_flow (boot_start r) fl)))).

Theorem cmdlog_apply_iff r fl :
  let t := s_tpm (fst (run_flow (boot_start r) fl)) in
  ((exists t', commands_apply H fresh (cmdlog t) = (t', Ok tt)) <-> Forall ok (answers r fl)) /\
  (forall t', commands_apply H fresh (cmdlog t) = (t', Ok tt) -> pcrs t' = pcrs t /\ evlog t' = evlog t).
Proof.
  cbv zeta. unfold answers. destruct (boot_history ref bytes_of H r fl) as (h & Hn & E & L & _). rewrite L.
  destruct (run_obs_eq H h (start_of r) fresh (obs_eq_start r)) as [(P & _ & V) Hres].
  rewrite Hres.
  assert (Fwd : Forall ok (results H fresh h) ->
            exists t', commands_apply H fresh h = (t', Ok tt) /\ same_obs t' (run H fresh h)).
  { intros Hok. apply commands_apply_vs_run; [exact Hn|apply same_obs_refl|exact Hok]. }
  split; [split|].
  - intros [t' Et]. eapply commands_apply_ok_results; eauto. apply same_obs_refl.
  - intros Hok. destruct (Fwd Hok) as (t' & Et & _). eauto.
  - intros t' Et.
    assert (Hok : Forall ok (results H fresh h)) by (eapply commands_apply_ok_results; eauto; apply same_obs_refl).
    destruct (Fwd Hok) as (t'' & Et' & A & B & _). rewrite Et in Et'. inversion Et'; subst t''.
    rewrite E, P, V. auto.
Qed.

Theorem cmdlog_apply_stops r fl pre c post :
  let t := s_tpm (fst (run_flow (boot_start r) fl)) in
  cmdlog t = pre ++ c :: post ->
  Forall ok (results H fresh pre) ->
  snd (step H (run H fresh pre) c) <> Ok tt ->
  exists t', commands_apply H fresh (cmdlog t) = (t', snd (step H (run H fresh pre) c)) /\
             pcrs t' = pcrs (reexec H fresh pre) /\ evlog t' = evlog (reexec H fresh pre).
Proof.
  cbv zeta. intros Ec Hok Hbad.
  destruct (boot_history ref bytes_of H r fl) as (h & Hn & E & L & _). rewrite L in *. subst h.
  destruct (commands_apply_stops_at H pre fresh fresh c post Hn (same_obs_refl _) Hok Hbad) as (t' & Et & A & B & _).
  exists t'. split; [exact Et|].
  assert (Hnp : no_reset pre = true).
  { rewrite no_reset_app in Hn. apply andb_true_iff in Hn. tauto. }
  assert (Hc : is_reset c = false).
  { rewrite no_reset_app in Hn. apply andb_true_iff in Hn. destruct Hn as [_ Hn].
    apply not_reset_of_no_reset in Hn. tauto. }
  destruct (reexec_vs_run H pre fresh fresh Hnp (same_obs_refl _)) as (A' & B' & _).
  rewrite run_app in A, B. cbn [run] in A, B.
  destruct (step H (run H fresh pre) c) as [tt' rr] eqn:Es. cbn [fst snd] in *.
  apply step_not_ok in Es; [|exact Hbad]. destruct Es as [_ ->]. cbn [log_cmd pcrs evlog] in A, B.
  rewrite A, B, A', B'. auto.
Qed.

End Ledger.
