(** C18 — proofs about the glue model Model/Manifest.v. *)
From CSS Require Import Lib.Base Model.Manifest.
From Coq Require Import ZifyBool ZifyNat.
From Coq Require Strings.String.
Import String.StringSyntax.

(** * Hypotheses about the third-party parts, as named predicates *)

(** The signature scheme verifies what it signs — under the digest the scheme
    itself uses ([scheme_hash]); BG 1.0 verification ignores the stored label. *)
Definition scheme_sound (E : env) : Prop :=
  forall g sk sch h msg sd,
    sign_raw E sk sch msg = Some sd ->
    (g = V10 \/ h = scheme_hash sch) ->
    verify_raw E g (pub E sk) (mk_sig sch h sd) msg = true.

(** IDEAL scheme: a signature produced on [msg] verifies on no other message. *)
Definition scheme_ideal (E : env) : Prop :=
  forall g sk sch h msg msg' sd,
    sign_raw E sk sch msg = Some sd ->
    verify_raw E g (pub E sk) (mk_sig sch h sd) msg' = true ->
    msg' = msg.

(** Storing key and signature stores them. *)
Definition store_laws (E : env) : Prop :=
  forall g d m pk s, key_of E (store E g d m pk s) = pk /\ sig_of E (store E g d m pk s) = s.

(** Canonicity of the codec AT a file: re-serialising what was parsed reproduces
    the file's own signed portion. *)
Definition canonical_at (E : env) (g : gen) (d : doc) (file : bytes) : Prop :=
  forall m, parse E g d file = Some m ->
    firstn (verify_cut E g d m) (ser E m) = firstn (verify_cut E g d m) file.

(** * 1. sign then verify *)

Lemma sign_manifest_ok E g d m sch req sk sd :
  sign_raw E sk sch (signed_message E g d (prep E g d m)) = Some sd ->
  sign_manifest E g d m sch req sk = Ok (ser E (signed_struct E g d m sch req sk sd)).
Proof. intros Hs. unfold sign_manifest, signed_struct. rewrite Hs. reflexivity. Qed.

Lemma sign_manifest_inv E g d m sch req sk file :
  sign_manifest E g d m sch req sk = Ok file ->
  exists sd, sign_raw E sk sch (signed_message E g d (prep E g d m)) = Some sd /\
             file = ser E (signed_struct E g d m sch req sk sd).
Proof.
  unfold sign_manifest, signed_struct.
  destruct (sign_raw E sk sch _) as [sd|] eqn:Hs; intros Hx; inversion Hx. eauto.
Qed.

(** SignKM/SignBPM and VerifyKM/VerifyBPM cut at the same offset of a structure,
    for both generations and both documents (false for BG 1.0 BPMs before ee4d7c9). *)
Lemma cut_agree E g d m : sign_cut E g d m = verify_cut E g d m.
Proof. destruct g, d; reflexivity. Qed.

(** A cleaner form: everything about the produced structure stated directly.
    [Hoff]: storing key and signature does not move the signature offset (a fact
    about the codec's offset accessors). *)
Theorem sign_verify_struct E g d m sch req sk sd :
  scheme_sound E -> store_laws E ->
  let m0 := prep E g d m in
  let m' := signed_struct E g d m sch req sk sd in
  sign_raw E sk sch (signed_message E g d m0) = Some sd ->
  detect (ser E m') = Some g ->
  parse E g d (ser E m') = Some m' ->
  sign_cut E g d m' = sign_cut E g d m0 ->
  firstn (sign_cut E g d m0) (ser E m') = firstn (sign_cut E g d m0) (ser E m0) ->
  (g = V10 \/ stored_hash g sch (req_hash E d m0 req) = scheme_hash sch) ->
  sign_manifest E g d m sch req sk = Ok (ser E m') /\
  verify_file E d (ser E m') = Ok tt.
Proof.
  intros Hsound Hstore m0 m' Hsd Hdet Hparse Hoff Hpre Hlab.
  assert (Hcut : verify_cut E g d m' = sign_cut E g d m0) by (rewrite <- cut_agree; exact Hoff).
  split. { apply sign_manifest_ok. exact Hsd. }
  unfold verify_file. rewrite Hdet, Hparse.
  unfold verify_manifest, verified_message. rewrite Hcut, Hpre.
  assert (Hk : key_of E m' = pub E sk) by (unfold m', signed_struct; apply Hstore).
  assert (Hs : sig_of E m' = mk_sig sch (stored_hash g sch (req_hash E d m0 req)) sd)
    by (unfold m', signed_struct; apply Hstore).
  rewrite Hk, Hs.
  pose proof (Hsound g sk sch _ _ sd Hsd Hlab) as Hv. unfold signed_message in Hv.
  rewrite Hv. reflexivity.
Qed.

(** Boot Guard 1.0, KM and BPM alike: no condition on the glue is left (the label
    stored with the signature is ignored by BG 1.0 verification, the cuts agree). *)
Theorem sign_verify_bg10 E d m sch req sk sd :
  scheme_sound E -> store_laws E ->
  let m0 := prep E V10 d m in
  let m' := signed_struct E V10 d m sch req sk sd in
  sign_raw E sk sch (signed_message E V10 d m0) = Some sd ->
  detect (ser E m') = Some V10 ->
  parse E V10 d (ser E m') = Some m' ->
  sign_cut E V10 d m' = sign_cut E V10 d m0 ->
  firstn (sign_cut E V10 d m0) (ser E m') = firstn (sign_cut E V10 d m0) (ser E m0) ->
  sign_manifest E V10 d m sch req sk = Ok (ser E m') /\
  verify_file E d (ser E m') = Ok tt.
Proof.
  intros Hsound Hstore m0 m' Hsd Hdet Hparse Hoff Hpre.
  apply sign_verify_struct; auto.
Qed.

(** * 2. tampering *)

Theorem tamper_partial E d file g m sk sch msg sd :
  scheme_ideal E ->
  detect file = Some g -> parse E g d file = Some m ->
  key_of E m = pub E sk ->
  sign_raw E sk sch msg = Some sd ->
  sg_scheme (sig_of E m) = sch -> sg_data (sig_of E m) = sd ->
  verify_file E d file = Ok tt ->
  verified_message E g d m = msg.
Proof.
  intros Hideal Hdet Hparse Hk Hsd Hsch Hdata Hv.
  unfold verify_file in Hv. rewrite Hdet, Hparse in Hv.
  destruct (verify_manifest E g d m) eqn:Hvm; [|discriminate].
  unfold verify_manifest in Hvm. rewrite Hk in Hvm.
  destruct (sig_of E m) as [s h dd] eqn:Hsig. cbn in Hsch, Hdata. subst s dd.
  eapply Hideal; eauto.
Qed.

Theorem tamper_canonical E d file g m sk sch msg sd :
  scheme_ideal E ->
  detect file = Some g -> parse E g d file = Some m ->
  key_of E m = pub E sk ->
  sign_raw E sk sch msg = Some sd ->
  sg_scheme (sig_of E m) = sch -> sg_data (sig_of E m) = sd ->
  verify_file E d file = Ok tt ->
  canonical_at E g d file ->
  firstn (verify_cut E g d m) file = msg.
Proof.
  intros Hideal Hdet Hparse Hk Hsd Hsch Hdata Hv Hcan.
  rewrite <- (Hcan m Hparse).
  exact (tamper_partial E d file g m sk sch msg sd Hideal Hdet Hparse Hk Hsd Hsch Hdata Hv).
Qed.

(** For an accepted file the stored signed portion is the signed message exactly
    when the codec is canonical at that file: canonicity is THE missing condition. *)
Theorem tamper_canonical_iff E d file g m sk sch msg sd :
  scheme_ideal E ->
  detect file = Some g -> parse E g d file = Some m ->
  key_of E m = pub E sk ->
  sign_raw E sk sch msg = Some sd ->
  sg_scheme (sig_of E m) = sch -> sg_data (sig_of E m) = sd ->
  verify_file E d file = Ok tt ->
  (firstn (verify_cut E g d m) file = msg <-> canonical_at E g d file).
Proof.
  intros Hideal Hdet Hparse Hk Hsd Hsch Hdata Hv.
  pose proof (tamper_partial E d file g m sk sch msg sd Hideal Hdet Hparse Hk Hsd Hsch Hdata Hv) as Hm.
  unfold verified_message in Hm.
  split.
  - intros Hf m2 Hp2. rewrite Hparse in Hp2. inversion Hp2; subst m2. congruence.
  - intros Hcan. rewrite <- (Hcan m Hparse). exact Hm.
Qed.

(** Bit flips: a file whose stored signed portion is not the signed message is
    rejected, provided the codec is canonical at it. *)
Theorem bitflip_rejected E d file' g m' sk sch msg sd :
  scheme_ideal E ->
  detect file' = Some g -> parse E g d file' = Some m' ->
  key_of E m' = pub E sk ->
  sign_raw E sk sch msg = Some sd ->
  sg_scheme (sig_of E m') = sch -> sg_data (sig_of E m') = sd ->
  canonical_at E g d file' ->
  firstn (verify_cut E g d m') file' <> msg ->
  verify_file E d file' <> Ok tt.
Proof.
  intros Hideal Hdet Hparse Hk Hsd Hsch Hdata Hcan Hne Hv.
  apply Hne. eapply tamper_canonical; eauto.
Qed.

Lemma verify_struct_unknown E v d m : gen_of_version v = None -> verify_struct E v d m = Ok tt.
Proof. intros H. unfold verify_struct. rewrite H. reflexivity. Qed.

Lemma detect_spec file g :
  detect file = Some g <->
  (9 <= length file)%nat /\
  match g with V20 => 32 <= nth 8 file 0 | V10 => 16 <= nth 8 file 0 < 32 end.
Proof.
  unfold detect.
  destruct (length file <? 9)%nat eqn:Hl.
  - split; [discriminate|]. intros [H _]. apply Nat.ltb_lt in Hl. lia.
  - apply Nat.ltb_ge in Hl.
    destruct (32 <=? nth 8 file 0) eqn:H32.
    + apply Z.leb_le in H32. destruct g; split; intros H; try discriminate; try (split; [lia|lia]); try reflexivity.
      destruct H as [_ H]. lia.
    + apply Z.leb_gt in H32. destruct (16 <=? nth 8 file 0) eqn:H16.
      * apply Z.leb_le in H16. destruct g; split; intros H; try discriminate; try reflexivity; try (split; lia).
        destruct H as [_ H]. lia.
      * apply Z.leb_gt in H16. split; [discriminate|]. intros [_ H]. destruct g; lia.
Qed.

(** * A toy environment: witnesses for the refuted clauses and for the
      satisfiability of the hypotheses *)

(** File format: 8 ID bytes, version, a SIZE byte that the writer recomputes
    (like ElementSize / KeySignatureOffset), the hash-algorithm byte of the KM
    (signed), two body bytes | key, scheme, hash label, signature bytes. *)
Record toy := mk_toy { t_ver : Z; t_pkh : Z; t_b0 : Z; t_b1 : Z; t_pk : Z; t_sig : sigrec }.

Definition toy_ser (t : toy) : bytes :=
  [0;0;0;0;0;0;0;0; t_ver t; 13; t_pkh t; t_b0 t; t_b1 t;
   t_pk t; sg_scheme (t_sig t); sg_hash (t_sig t)] ++ sg_data (t_sig t).

Definition toy_parse (_ : gen) (_ : doc) (f : bytes) : option toy :=
  match f with
  | _ :: _ :: _ :: _ :: _ :: _ :: _ :: _ :: v :: _sz :: pkh :: b0 :: b1 :: pk :: sch :: h :: sd =>
      Some (mk_toy v pkh b0 b1 pk (mk_sig sch h sd))
  | _ => None
  end.

Definition toy_store (g : gen) (d : doc) (t : toy) (pk : Z) (s : sigrec) : toy :=
  match g, d with
  | V20, KM => mk_toy (t_ver t) (sg_hash s) (t_b0 t) (t_b1 t) pk s   (* PubKeyHashAlg := Signature.HashAlg *)
  | _, _ => mk_toy (t_ver t) (t_pkh t) (t_b0 t) (t_b1 t) pk s
  end.

Definition toy_sign (sk sch : Z) (msg : bytes) : option bytes :=
  if (sch =? AlgRSASSA) || (sch =? AlgRSAPSS) then Some (sk :: sch :: msg) else None.

Definition toy_verify (g : gen) (pk : Z) (s : sigrec) (msg : bytes) : bool :=
  zlist_eqb (sg_data s) ((pk - 100) :: sg_scheme s :: msg) &&
  match g with V10 => true | V20 => sg_hash s =? scheme_hash (sg_scheme s) end.

Definition Toy : env := {|
  M := toy; PK := Z; SK := Z;
  ser := toy_ser; parse := toy_parse; prep := fun _ _ t => t;
  keysig_off := fun _ => 13%nat; pmse_off := fun _ => 13%nat; pmse_ks_off := fun _ => 9%nat;
  pkhash := t_pkh; store := toy_store; key_of := t_pk; sig_of := t_sig;
  pub := fun sk => sk + 100; sign_raw := toy_sign; verify_raw := toy_verify |}.

Lemma zlist_eqb_refl l : zlist_eqb l l = true.
Proof. induction l; cbn; [reflexivity|]. rewrite Z.eqb_refl. exact IHl. Qed.

Lemma zlist_eqb_eq a b : zlist_eqb a b = true <-> a = b.
Proof.
  split.
  - revert b; induction a as [|x a IH]; destruct b as [|y b]; cbn; intros H; try discriminate; [reflexivity|].
    apply andb_prop in H. destruct H as [H1 H2]. apply Z.eqb_eq in H1. subst. f_equal. apply IH. exact H2.
  - intros ->. apply zlist_eqb_refl.
Qed.

Lemma toy_sound : scheme_sound Toy.
Proof.
  intros g sk sch h msg sd Hs Hl. cbn in *. unfold toy_sign in Hs. unfold toy_verify. cbn.
  destruct ((sch =? AlgRSASSA) || (sch =? AlgRSAPSS)); [|discriminate].
  inversion Hs; subst sd. replace (sk + 100 - 100) with sk by lia.
  rewrite zlist_eqb_refl. cbn. destruct g; [reflexivity|].
  destruct Hl as [Hl|Hl]; [discriminate|]. subst h. apply Z.eqb_refl.
Qed.

Lemma toy_ideal : scheme_ideal Toy.
Proof.
  intros g sk sch h msg msg' sd Hs Hv. cbn in *. unfold toy_sign in Hs. unfold toy_verify in Hv. cbn in Hv.
  destruct ((sch =? AlgRSASSA) || (sch =? AlgRSAPSS)); [|discriminate].
  inversion Hs; subst sd. apply andb_prop in Hv. destruct Hv as [Hv _].
  apply zlist_eqb_eq in Hv. inversion Hv. reflexivity.
Qed.

Lemma toy_store_laws : store_laws Toy.
Proof. intros g d m pk s. destruct g, d; split; reflexivity. Qed.

Lemma toy_roundtrip g d t : parse Toy g d (ser Toy t) = Some t.
Proof. destruct t as [v p b0 b1 pk [s h sd]]. reflexivity. Qed.

(** * 3. binding *)

Lemma check_key_hash_ok H size alg buf kd :
  (4 <= length kd)%nat ->
  (check_key_hash H size alg buf AlgRSA kd = Ok tt <->
   exists n, size alg = Some n /\ length buf = n /\ buf = H alg (skipn 4 kd)).
Proof.
  intros Hk. unfold check_key_hash.
  destruct (size alg) as [n|] eqn:Hs.
  - destruct (length buf =? n)%nat eqn:Hl; cbn [negb].
    + apply Nat.eqb_eq in Hl.
      replace (AlgRSA =? AlgRSA) with true by reflexivity. cbn [negb].
      destruct (length kd <? 4)%nat eqn:H4; [apply Nat.ltb_lt in H4; lia|].
      unfold bytes_eqb. destruct (zlist_eqb buf (H alg (skipn 4 kd))) eqn:He.
      * apply zlist_eqb_eq in He. split; [intros _; exists n; auto|reflexivity].
      * split; [discriminate|]. intros [n' [Hn [_ Hb]]]. apply zlist_eqb_eq in Hb. congruence.
    + apply Nat.eqb_neq in Hl. split; [discriminate|]. intros [n' [Hn [Hl' _]]]. congruence.
  - split; [discriminate|]. intros [n' [Hn _]]. discriminate.
Qed.

Lemma check_key_hash_cases H size alg buf kd :
  (4 <= length kd)%nat ->
  check_key_hash H size alg buf AlgRSA kd = Ok tt \/ exists c, check_key_hash H size alg buf AlgRSA kd = Err c.
Proof.
  intros Hk. unfold check_key_hash.
  destruct (size alg); [|right; eauto].
  destruct (negb _); [right; eauto|].
  replace (AlgRSA =? AlgRSA) with true by reflexivity. cbn [negb].
  destruct (length kd <? 4)%nat eqn:H4; [apply Nat.ltb_lt in H4; lia|].
  destruct (bytes_eqb _ _); [left; reflexivity|right; eauto].
Qed.

Theorem binding_exact_bg H :
  (forall x, length (H AlgSHA256 x) = 32%nat) ->
  forall alg buf kd, (4 <= length kd)%nat ->
  (bg_binding_ok H alg buf AlgRSA kd = true <->
   alg = AlgSHA256 /\ buf = H AlgSHA256 (skipn 4 kd)).
Proof.
  intros Hlen alg buf kd Hk. unfold bg_binding_ok, bg_km_has_bpm_hash, bg_key_match.
  destruct (bg_has_hash buf) eqn:Hh; cbn [is_ok_true andb].
  - pose proof (check_key_hash_ok H bg_hash_size alg buf kd Hk) as Hc.
    destruct (check_key_hash_cases H bg_hash_size alg buf kd Hk) as [Hok|[c Hc']].
    + rewrite Hok. cbn. split; [intros _|reflexivity].
      apply Hc in Hok. destruct Hok as [n [Hs [Hl Hb]]].
      unfold bg_hash_size in Hs. unfold bg_has_hash, minHashTypeSize in Hh.
      destruct (alg =? AlgSHA1) eqn:H1.
      * inversion Hs; subst n. apply Nat.ltb_lt in Hh. lia.
      * destruct (alg =? AlgSHA256) eqn:H2; [|discriminate].
        apply Z.eqb_eq in H2. subst alg. auto.
    + rewrite Hc'. cbn. split; [discriminate|]. intros [Ha Hb]. subst alg.
      assert (check_key_hash H bg_hash_size AlgSHA256 buf AlgRSA kd = Ok tt).
      { apply Hc. exists 32%nat. repeat split; auto. rewrite Hb. apply Hlen. }
      congruence.
  - split; [discriminate|]. intros [Ha Hb]. subst alg.
    unfold bg_has_hash, minHashTypeSize in Hh. apply Nat.ltb_ge in Hh.
    rewrite Hb, Hlen in Hh. lia.
Qed.

(** BPMKeyMatchKMHash never reports a match without a comparison that succeeded
    (all inputs, no hypothesis): the fail-open of the code before 24a2a40 is gone. *)
Lemma bg_key_match_compared H alg buf keyalg kd :
  bg_key_match H alg buf keyalg kd = Ok true ->
  bg_has_hash buf = true /\ check_key_hash H bg_hash_size alg buf keyalg kd = Ok tt.
Proof.
  unfold bg_key_match. destruct (bg_has_hash buf); [|discriminate].
  destruct (check_key_hash H bg_hash_size alg buf keyalg kd) as [[]| | |]; try discriminate. auto.
Qed.

Lemma bg_key_match_value H alg buf keyalg kd b :
  bg_key_match H alg buf keyalg kd = Ok b -> b = true.
Proof.
  unfold bg_key_match. destruct (bg_has_hash buf); [|discriminate].
  destruct (check_key_hash H bg_hash_size alg buf keyalg kd) as [[]| | |]; intros Hx; inversion Hx; reflexivity.
Qed.

(** ... hence BPMKeyMatchKMHash ALONE is the binding check: whenever it reports a
    match KMHasBPMHash does too. *)
Lemma bg_key_match_is_binding H alg buf keyalg kd :
  is_ok_true (bg_key_match H alg buf keyalg kd) = bg_binding_ok H alg buf keyalg kd.
Proof.
  unfold bg_binding_ok, bg_km_has_bpm_hash, bg_key_match.
  destruct (bg_has_hash buf); reflexivity.
Qed.

Theorem keymatch_alone_bg H :
  (forall x, length (H AlgSHA256 x) = 32%nat) ->
  forall alg buf kd, (4 <= length kd)%nat ->
  (bg_key_match H alg buf AlgRSA kd = Ok true <->
   alg = AlgSHA256 /\ buf = H AlgSHA256 (skipn 4 kd)).
Proof.
  intros Hlen alg buf kd Hk. rewrite <- (binding_exact_bg H Hlen alg buf kd Hk).
  rewrite <- bg_key_match_is_binding.
  destruct (bg_key_match H alg buf AlgRSA kd) as [[|]| | |] eqn:Hm; cbn [is_ok_true];
    split; intros Hx; try discriminate; try reflexivity.
Qed.

Theorem binding_same_key_bg H :
  (forall x, length (H AlgSHA256 x) = 32%nat) ->
  forall kd0 kd, (4 <= length kd)%nat ->
  (H AlgSHA256 (skipn 4 kd0) = H AlgSHA256 (skipn 4 kd) -> skipn 4 kd0 = skipn 4 kd) ->
  (bg_binding_ok H AlgSHA256 (H AlgSHA256 (skipn 4 kd0)) AlgRSA kd = true <-> skipn 4 kd0 = skipn 4 kd).
Proof.
  intros Hlen kd0 kd Hk Hinj. rewrite (binding_exact_bg H Hlen _ _ kd Hk).
  split; [intros [_ Hb]; auto|intros ->; auto].
Qed.

(** CBnT *)
Definition entry_ok H (kd : bytes) (h : kmhash) : Prop :=
  cbnt_hash_size (kh_alg h) <> None /\ kh_buf h = H (kh_alg h) (skipn 4 kd).

Lemma entry_ok_iff H (Hlen : forall alg n x, cbnt_hash_size alg = Some n -> length (H alg x) = n) kd h :
  (4 <= length kd)%nat ->
  (check_key_hash H cbnt_hash_size (kh_alg h) (kh_buf h) AlgRSA kd = Ok tt <-> entry_ok H kd h).
Proof.
  intros Hk. rewrite (check_key_hash_ok H cbnt_hash_size _ _ kd Hk). unfold entry_ok. split.
  - intros [n [Hs [_ Hb]]]. split; [congruence|exact Hb].
  - intros [Hs Hb]. destruct (cbnt_hash_size (kh_alg h)) as [n|] eqn:Hn; [|congruence].
    exists n. repeat split; auto. rewrite Hb. apply (Hlen _ _ _ Hn).
Qed.

Lemma cbnt_validate_from_spec H (Hlen : forall alg n x, cbnt_hash_size alg = Some n -> length (H alg x) = n)
      kd (Hk : (4 <= length kd)%nat) hs :
  forall count,
  (cbnt_validate_from H hs AlgRSA kd count = Ok tt <->
   (forall h, In h hs -> Z.odd (kh_usage h) = true -> entry_ok H kd h) /\
   ((0 < count)%nat \/ exists h, In h hs /\ Z.odd (kh_usage h) = true)) /\
  (cbnt_validate_from H hs AlgRSA kd count = Ok tt \/ exists c, cbnt_validate_from H hs AlgRSA kd count = Err c).
Proof.
  induction hs as [|h t IH]; intros count; cbn [cbnt_validate_from].
  - destruct (count =? 0)%nat eqn:Hc.
    + apply Nat.eqb_eq in Hc. split; [|right; eauto]. split; [discriminate|].
      intros [_ [Hp|[h [[] _]]]]. lia.
    + apply Nat.eqb_neq in Hc. split; [|left; reflexivity]. split; [|reflexivity].
      intros _. split; [intros h []|left; lia].
  - destruct (Z.odd (kh_usage h)) eqn:Ho.
    + destruct (check_key_hash_cases H cbnt_hash_size (kh_alg h) (kh_buf h) kd Hk) as [Hok|[c Hc]].
      * rewrite Hok. destruct (IH (S count)) as [IH1 IH2]. split; [|exact IH2].
        rewrite IH1. apply (entry_ok_iff H Hlen kd h Hk) in Hok. split.
        -- intros [Ha _]. split.
           ++ intros h' [->|Hin] Hodd; auto.
           ++ right. exists h. split; [left; reflexivity|exact Ho].
        -- intros [Ha _]. split; [intros h' Hin; apply Ha; right; exact Hin|left; lia].
      * rewrite Hc. split; [|right; eauto]. split; [discriminate|].
        intros [Ha _]. assert (Hx : entry_ok H kd h) by (apply Ha; [left; reflexivity|exact Ho]).
        apply (entry_ok_iff H Hlen kd h Hk) in Hx. congruence.
    + destruct (IH count) as [IH1 IH2]. split; [|exact IH2]. rewrite IH1. split.
      * intros [Ha Hb]. split.
        -- intros h' [->|Hin] Hodd; [congruence|auto].
        -- destruct Hb as [Hb|[h' [Hin Hodd]]]; [left; exact Hb|right; exists h'; split; [right; exact Hin|exact Hodd]].
      * intros [Ha Hb]. split; [intros h' Hin; apply Ha; right; exact Hin|].
        destruct Hb as [Hb|[h' [[->|Hin] Hodd]]]; [left; exact Hb|congruence|right; eauto].
Qed.

(** the loop of BPMKeyMatchKMHash, for ANY key algorithm and key data: a match is
    reported exactly when some entry was looked at (now or earlier) and, if one is
    looked at in the rest of the list, ValidateBPMKey succeeded *)
Lemma cbnt_key_match_loop_spec H keyalg kd all l :
  forall compared,
  (cbnt_key_match_loop H l all keyalg kd compared = Ok true <->
   (compared = true \/ existsb (fun h => Z.odd (kh_usage h)) l = true) /\
   (existsb (fun h => Z.odd (kh_usage h)) l = true -> cbnt_validate H all keyalg kd = Ok tt)).
Proof.
  induction l as [|h t IH]; intros compared; cbn [cbnt_key_match_loop existsb].
  - destruct compared; split; try discriminate.
    + intros _. split; [left; reflexivity|discriminate].
    + reflexivity.
    + intros [[Hx|Hx] _]; discriminate.
  - destruct (Z.odd (kh_usage h)) eqn:Ho; cbn [orb].
    + destruct (cbnt_validate H all keyalg kd) as [[]| | |] eqn:Hv.
      * rewrite IH. split.
        -- intros _. split; [right; reflexivity|reflexivity].
        -- intros _. split; [left; reflexivity|reflexivity].
      * split; [discriminate|]. intros [_ Hx]. specialize (Hx eq_refl). discriminate.
      * split; [discriminate|]. intros [_ Hx]. specialize (Hx eq_refl). discriminate.
      * split; [discriminate|]. intros [_ Hx]. specialize (Hx eq_refl). discriminate.
    + apply IH.
Qed.

Lemma cbnt_key_match_spec H hs keyalg kd :
  cbnt_key_match H hs keyalg kd = Ok true <->
  cbnt_has_hash hs = true /\ cbnt_validate H hs keyalg kd = Ok tt.
Proof.
  unfold cbnt_key_match, cbnt_has_hash. rewrite cbnt_key_match_loop_spec. split.
  - intros [[Hx|Hx] Hv]; [discriminate|]. auto.
  - intros [Hx Hv]. split; [right; exact Hx|intros _; exact Hv].
Qed.

Lemma cbnt_key_match_value H hs keyalg kd b :
  cbnt_key_match H hs keyalg kd = Ok b -> b = true.
Proof.
  unfold cbnt_key_match. generalize false. generalize hs at 1.
  intros l; induction l as [|h t IH]; intros c; cbn [cbnt_key_match_loop].
  - destruct c; intros Hx; inversion Hx; reflexivity.
  - destruct (Z.odd (kh_usage h)); [|apply IH].
    destruct (cbnt_validate H hs keyalg kd) as [[]| | |]; try discriminate. apply IH.
Qed.

(** BPMKeyMatchKMHash ALONE is the binding check (all inputs). *)
Lemma cbnt_key_match_is_binding H hs keyalg kd :
  is_ok_true (cbnt_key_match H hs keyalg kd) = cbnt_binding_ok H hs keyalg kd.
Proof.
  unfold cbnt_binding_ok, cbnt_km_has_bpm_hash.
  destruct (cbnt_key_match H hs keyalg kd) as [[|]| | |] eqn:Hm; cbn [is_ok_true].
  - apply cbnt_key_match_spec in Hm. destruct Hm as [Hh _]. rewrite Hh. reflexivity.
  - apply cbnt_key_match_value in Hm. discriminate.
  - rewrite andb_false_r. reflexivity.
  - rewrite andb_false_r. reflexivity.
  - rewrite andb_false_r. reflexivity.
Qed.

Theorem keymatch_alone_cbnt H :
  (forall alg n x, cbnt_hash_size alg = Some n -> length (H alg x) = n) ->
  forall hs kd, (4 <= length kd)%nat ->
  (cbnt_key_match H hs AlgRSA kd = Ok true <->
   (exists h, In h hs /\ Z.odd (kh_usage h) = true) /\
   (forall h, In h hs -> Z.odd (kh_usage h) = true -> entry_ok H kd h)).
Proof.
  intros Hlen hs kd Hk. rewrite cbnt_key_match_spec.
  destruct (cbnt_validate_from_spec H Hlen kd Hk hs 0%nat) as [Hspec _].
  fold (cbnt_validate H hs AlgRSA kd) in Hspec. rewrite Hspec.
  unfold cbnt_has_hash. rewrite existsb_exists. split.
  - intros [Hex [Hall _]]. split; [exact Hex|exact Hall].
  - intros [Hex Hall]. split; [exact Hex|]. split; [exact Hall|right; exact Hex].
Qed.

Theorem binding_exact_cbnt H :
  (forall alg n x, cbnt_hash_size alg = Some n -> length (H alg x) = n) ->
  forall hs kd, (4 <= length kd)%nat ->
  (cbnt_binding_ok H hs AlgRSA kd = true <->
   (exists h, In h hs /\ Z.odd (kh_usage h) = true) /\
   (forall h, In h hs -> Z.odd (kh_usage h) = true -> entry_ok H kd h)).
Proof.
  intros Hlen hs kd Hk. rewrite <- cbnt_key_match_is_binding, <- (keymatch_alone_cbnt H Hlen hs kd Hk).
  destruct (cbnt_key_match H hs AlgRSA kd) as [[|]| | |] eqn:Hm; cbn [is_ok_true];
    split; intros Hx; try discriminate; try reflexivity.
Qed.

(** The KM as GetBPMPubHash makes it (one BPM entry) plus entries of other usages. *)
Theorem binding_same_key_cbnt H :
  (forall alg n x, cbnt_hash_size alg = Some n -> length (H alg x) = n) ->
  forall usage alg kd0 kd pre post, (4 <= length kd)%nat ->
  Z.odd usage = true ->
  cbnt_hash_size alg <> None ->
  Forall (fun h => Z.odd (kh_usage h) = false) (pre ++ post) ->
  (H alg (skipn 4 kd0) = H alg (skipn 4 kd) -> skipn 4 kd0 = skipn 4 kd) ->
  (cbnt_binding_ok H (pre ++ mk_kmhash usage alg (H alg (skipn 4 kd0)) :: post) AlgRSA kd = true
   <-> skipn 4 kd0 = skipn 4 kd).
Proof.
  intros Hlen usage alg kd0 kd pre post Hk Hu Hs Hoth Hinj.
  rewrite (binding_exact_cbnt H Hlen _ kd Hk).
  set (e := mk_kmhash usage alg (H alg (skipn 4 kd0))).
  split.
  - intros [_ Hall]. apply Hinj.
    assert (Hin : In e (pre ++ e :: post)) by (apply in_or_app; right; left; reflexivity).
    destruct (Hall e Hin Hu) as [_ Hb]. exact Hb.
  - intros Heq. split.
    + exists e. split; [apply in_or_app; right; left; reflexivity|exact Hu].
    + intros h Hin Hodd. apply in_app_or in Hin. rewrite Forall_forall in Hoth.
      destruct Hin as [Hin|[<-|Hin]].
      * rewrite (Hoth h) in Hodd; [discriminate|apply in_or_app; left; exact Hin].
      * split; [exact Hs|]. unfold e. cbn [kh_buf kh_alg]. rewrite Heq. reflexivity.
      * rewrite (Hoth h) in Hodd; [discriminate|apply in_or_app; right; exact Hin].
Qed.

(** ** GetBPMPubHash on a reused KM object: whatever the object held before, after
    a successful call the binding check follows the key of THAT call. *)

Definition km_size (st : kmstate) : Z -> option nat :=
  match st with KmBG _ _ => bg_hash_size | KmCBNT _ => cbnt_hash_size end.

(** the state a successful GetBPMPubHash(alg, key) leaves, for an object of the kind of [st] *)
Definition placed_state H (st : kmstate) (alg : Z) (kd : bytes) : kmstate :=
  match st with
  | KmBG _ _ => KmBG alg (H alg (skipn 4 kd))
  | KmCBNT _ => KmCBNT [mk_kmhash UsageBPMSigningPKD alg (H alg (skipn 4 kd))]
  end.

Definition same_kind (a b : kmstate) : Prop :=
  match a, b with KmBG _ _, KmBG _ _ => True | KmCBNT _, KmCBNT _ => True | _, _ => False end.

Lemma same_kind_refl a : same_kind a a.
Proof. destruct a; exact I. Qed.

Lemma same_kind_sym a b : same_kind a b -> same_kind b a.
Proof. destruct a, b; cbn; tauto. Qed.

Lemma same_kind_trans a b c : same_kind a b -> same_kind b c -> same_kind a c.
Proof. destruct a, b, c; cbn; tauto. Qed.

Lemma placed_state_kind H a b alg kd : same_kind a b -> placed_state H a alg kd = placed_state H b alg kd.
Proof. destruct a, b; cbn; tauto. Qed.

Lemma km_size_kind a b : same_kind a b -> km_size a = km_size b.
Proof. destruct a, b; cbn; tauto. Qed.

Lemma placed_state_same_kind H st alg kd : same_kind (placed_state H st alg kd) st.
Proof. destruct st; exact I. Qed.

(** a call either succeeds -- accepted key, known algorithm with a hash, >= 4 bytes
    of key data -- and REPLACES the state, or fails and leaves the object alone *)
Lemma km_place_cases H st keyok req kd :
  (exists alg, keyok = true /\ req = Some alg /\ km_size st alg <> None /\ (4 <= length kd)%nat /\
               km_place H st keyok req kd = (Ok tt, placed_state H st alg kd)) \/
  (fst (km_place H st keyok req kd) <> Ok tt /\ snd (km_place H st keyok req kd) = st).
Proof.
  unfold km_place. destruct keyok; cbn [negb].
  2:{ right. split; [discriminate|reflexivity]. }
  unfold place_digest. destruct req as [alg|].
  2:{ right. destruct st; split; cbn; try discriminate; reflexivity. }
  fold (km_size st).
  destruct (km_size st alg) as [n|] eqn:Hs.
  2:{ right. split; cbn; [discriminate|reflexivity]. }
  destruct (length kd <? 4)%nat eqn:Hl.
  - right. split; cbn; [discriminate|reflexivity].
  - left. exists alg. apply Nat.ltb_ge in Hl.
    split; [reflexivity|]. split; [reflexivity|]. split; [congruence|]. split; [exact Hl|].
    destruct st; reflexivity.
Qed.

Lemma km_place_ok_inv H st keyok req kd st' :
  km_place H st keyok req kd = (Ok tt, st') ->
  exists alg, keyok = true /\ req = Some alg /\ km_size st alg <> None /\ (4 <= length kd)%nat /\
              st' = placed_state H st alg kd.
Proof.
  intros Hp. destruct (km_place_cases H st keyok req kd) as [[alg [Hk [Hr [Hs [Hl He]]]]]|[Hf _]].
  - exists alg. rewrite He in Hp. inversion Hp. auto.
  - rewrite Hp in Hf. cbn in Hf. congruence.
Qed.

Theorem place_error_keeps_state H st keyok req kd :
  fst (km_place H st keyok req kd) <> Ok tt -> snd (km_place H st keyok req kd) = st.
Proof.
  intros Hf. destruct (km_place_cases H st keyok req kd) as [[alg [_ [_ [_ [_ He]]]]]|[_ Hk]]; [|exact Hk].
  rewrite He in Hf. cbn in Hf. congruence.
Qed.

(** the binding check on a freshly placed state *)
Lemma binding_placed H :
  (forall alg n x, cbnt_hash_size alg = Some n -> length (H alg x) = n) ->
  forall st alg kd0 kd, (4 <= length kd)%nat ->
  km_size st alg <> None ->
  (match st with KmBG _ _ => alg = AlgSHA256 | KmCBNT _ => True end) ->
  (H alg (skipn 4 kd0) = H alg (skipn 4 kd) -> skipn 4 kd0 = skipn 4 kd) ->
  (km_binding_ok H (placed_state H st alg kd0) AlgRSA kd = true <-> skipn 4 kd0 = skipn 4 kd).
Proof.
  intros Hlen st alg kd0 kd Hk Hs Hbg Hinj. destruct st as [a b|hs]; cbn [placed_state km_binding_ok].
  - subst alg. apply binding_same_key_bg; auto;
      intros x; apply (Hlen AlgSHA256 32%nat x); reflexivity.
  - apply (binding_same_key_cbnt H Hlen UsageBPMSigningPKD alg kd0 kd [] []); auto.
    constructor.
Qed.

(** ONE call on an object in ANY state (fresh, parsed from a signed file, already
    holding the digest of another key, holding entries of other usages ...) *)
Theorem rekey_binding H :
  (forall alg n x, cbnt_hash_size alg = Some n -> length (H alg x) = n) ->
  forall st keyok req alg kd0 kd st', (4 <= length kd)%nat ->
  km_place H st keyok req kd0 = (Ok tt, st') ->
  req = Some alg ->
  (match st with KmBG _ _ => alg = AlgSHA256 | KmCBNT _ => True end) ->
  (H alg (skipn 4 kd0) = H alg (skipn 4 kd) -> skipn 4 kd0 = skipn 4 kd) ->
  (km_binding_ok H st' AlgRSA kd = true <-> skipn 4 kd0 = skipn 4 kd).
Proof.
  intros Hlen st keyok req alg kd0 kd st' Hk Hp Hr Hbg Hinj.
  apply km_place_ok_inv in Hp. destruct Hp as [alg' [_ [Hr' [Hs [_ ->]]]]].
  assert (alg' = alg) by congruence. subst alg'.
  apply binding_placed; auto.
Qed.

(** histories *)
Lemma km_step_kind H st s : same_kind (km_step H st s) st.
Proof.
  destruct s as [keyok req kd|]; cbn [km_step]; [|apply same_kind_refl].
  destruct (km_place_cases H st keyok req kd) as [[alg [_ [_ [_ [_ He]]]]]|[_ Hk]].
  - rewrite He. cbn [snd]. apply placed_state_same_kind.
  - rewrite Hk. apply same_kind_refl.
Qed.

Lemma step_places_spec H st s :
  match step_places H st s with
  | Some (alg, kd) => km_step H st s = placed_state H st alg kd /\ km_size st alg <> None /\ (4 <= length kd)%nat
  | None => km_step H st s = st
  end.
Proof.
  destruct s as [keyok req kd|]; cbn [step_places km_step]; [|reflexivity].
  destruct req as [alg|].
  - destruct (km_place_cases H st keyok (Some alg) kd) as [[alg' [_ [Hr [Hs [Hl He]]]]]|[Hf Hk]].
    + inversion Hr; subst alg'. rewrite He. cbn [fst snd]. auto.
    + destruct (fst (km_place H st keyok (Some alg) kd)) as [[]| | |] eqn:Hfst; try exact Hk.
      congruence.
  - destruct (km_place_cases H st keyok None kd) as [[alg' [_ [Hr _]]]|[_ Hk]]; [discriminate|exact Hk].
Qed.

Definition acc_inv H (st : kmstate) (acc : option (Z * bytes)) : Prop :=
  match acc with
  | None => True
  | Some (alg, kd) => st = placed_state H st alg kd /\ km_size st alg <> None /\ (4 <= length kd)%nat
  end.

Lemma run_last_placed H steps :
  forall st acc alg kd,
  acc_inv H st acc ->
  last_placed H st steps acc = Some (alg, kd) ->
  km_run H st steps = placed_state H st alg kd /\ km_size st alg <> None /\ (4 <= length kd)%nat.
Proof.
  induction steps as [|s t IH]; intros st acc alg kd Hinv Hl; cbn [last_placed km_run fold_left] in *.
  - subst acc. exact Hinv.
  - pose proof (step_places_spec H st s) as Hsp.
    pose proof (km_step_kind H st s) as Hkind.
    destruct (step_places H st s) as [[a k]|].
    + destruct Hsp as [Hst [Hs Hk]].
      specialize (IH (km_step H st s) (Some (a, k)) alg kd).
      destruct IH as [Hr [Hs' Hk']]; [|exact Hl|].
      * cbn [acc_inv]. split; [|split; [rewrite (km_size_kind _ _ Hkind); exact Hs|exact Hk]].
        transitivity (placed_state H st a k); [exact Hst|].
        apply placed_state_kind. apply same_kind_sym. exact Hkind.
      * fold (km_run H (km_step H st s) t). split; [|split; auto].
        -- rewrite Hr. apply placed_state_kind. exact Hkind.
        -- rewrite <- (km_size_kind _ _ Hkind). exact Hs'.
    + rewrite Hsp in *. apply (IH st acc alg kd Hinv Hl).
Qed.

(** ANY history of GetBPMPubHash calls (succeeding or failing), signings, file round
    trips and field changes on one KM object: the binding check follows the key of
    the last successful GetBPMPubHash call. *)
Theorem history_binding H :
  (forall alg n x, cbnt_hash_size alg = Some n -> length (H alg x) = n) ->
  forall st0 steps alg kd0 kd, (4 <= length kd)%nat ->
  last_placed H st0 steps None = Some (alg, kd0) ->
  (match st0 with KmBG _ _ => alg = AlgSHA256 | KmCBNT _ => True end) ->
  (H alg (skipn 4 kd0) = H alg (skipn 4 kd) -> skipn 4 kd0 = skipn 4 kd) ->
  (km_binding_ok H (km_run H st0 steps) AlgRSA kd = true <-> skipn 4 kd0 = skipn 4 kd).
Proof.
  intros Hlen st0 steps alg kd0 kd Hk Hl Hbg Hinj.
  destruct (run_last_placed H steps st0 None alg kd0 I Hl) as [Hr [Hs _]].
  rewrite Hr. apply binding_placed; auto.
Qed.

(** no successful call in the history: the object holds what it held *)
Theorem history_no_place H st0 steps :
  last_placed H st0 steps None = None -> km_run H st0 steps = st0.
Proof.
  revert st0. induction steps as [|s t IH]; intros st0 Hl; cbn [last_placed km_run fold_left] in *; [reflexivity|].
  pose proof (step_places_spec H st0 s) as Hsp.
  destruct (step_places H st0 s) as [[a k]|] eqn:Hp.
  - exfalso. clear IH Hsp.
    assert (Hsome : forall st acc, acc <> None -> last_placed H st t acc <> None).
    { clear Hl. induction t as [|s' t' IHt]; intros st acc Ha; cbn [last_placed]; [exact Ha|].
      apply IHt. destruct (step_places H st s'); [discriminate|exact Ha]. }
    apply (Hsome (km_step H st0 s) (Some (a, k))); [discriminate|exact Hl].
  - rewrite Hsp in *. apply (IH st0 Hl).
Qed.

(** toy hash with the right digest sizes, for the examples *)
Definition toyH (alg : Z) (m : bytes) : bytes :=
  repeat (fold_left Z.add m alg) (match cbnt_hash_size alg with Some n => n | None => 0%nat end).

Lemma toyH_len alg n x : cbnt_hash_size alg = Some n -> length (toyH alg x) = n.
Proof. intros Hs. unfold toyH. rewrite Hs. apply repeat_length. Qed.

(** a CBnT KM parsed from a file made for key [7;8;9] (plus an ACM entry), re-keyed
    to [7;8;10] after a failing call and a signing, signed again: the binding check
    accepts the new key and no longer the old one *)
Lemma history_example :
  let old := [1;0;1;0;7;8;9] in
  let new := [1;0;1;0;7;8;10] in
  let st0 := KmCBNT [mk_kmhash 4 AlgSHA256 (repeat 9 32); mk_kmhash UsageBPMSigningPKD AlgSHA256 (toyH AlgSHA256 [7;8;9])] in
  let steps := [SKeep; SPlace true None new; SPlace true (Some AlgSHA384) new; SKeep; SPlace false (Some AlgSHA256) old; SKeep] in
  km_binding_ok toyH st0 AlgRSA old = true /\
  last_placed toyH st0 steps None = Some (AlgSHA384, new) /\
  km_binding_ok toyH (km_run toyH st0 steps) AlgRSA new = true /\
  km_binding_ok toyH (km_run toyH st0 steps) AlgRSA old = false.
Proof. cbv zeta. repeat split; vm_compute; reflexivity. Qed.

(** BG 1.0 with SHA1, which GetBPMPubHash accepts: the digest placed (2+20 <= 32,
    "everything more secure than SHA-1") is not taken as a BPM key hash by either
    function.  A characterisation, not a defect: since 24a2a40 the binding check
    fails CLOSED, for the key that was placed and for every other key alike. *)
Theorem rekey_bg_sha1_fails_closed H :
  (forall x, length (H AlgSHA1 x) = 20%nat) ->
  forall a b kd0 st',
  km_place H (KmBG a b) true (Some AlgSHA1) kd0 = (Ok tt, st') ->
  exists buf, st' = KmBG AlgSHA1 buf /\ length buf = 20%nat /\
    bg_km_has_bpm_hash buf = Err 1 /\
    (forall keyalg kd, bg_key_match H AlgSHA1 buf keyalg kd = Err 2) /\
    (forall keyalg kd, km_binding_ok H st' keyalg kd = false).
Proof.
  intros Hlen a b kd0 st' Hp.
  apply km_place_ok_inv in Hp. destruct Hp as [alg [_ [Hr [_ [_ ->]]]]].
  inversion Hr; subst alg. cbn [placed_state].
  exists (H AlgSHA1 (skipn 4 kd0)).
  assert (Hh : bg_has_hash (H AlgSHA1 (skipn 4 kd0)) = false).
  { unfold bg_has_hash, minHashTypeSize. rewrite Hlen. reflexivity. }
  split; [reflexivity|]. split; [apply Hlen|].
  unfold bg_km_has_bpm_hash, bg_key_match, km_binding_ok, bg_binding_ok, bg_km_has_bpm_hash. rewrite Hh.
  split; [reflexivity|]. split; intros; reflexivity.
Qed.

Lemma rekey_bg_sha1_example :
  (forall x, length (toyH AlgSHA1 x) = 20%nat) /\
  km_place toyH (KmBG AlgSHA256 (toyH AlgSHA256 [7;8;9])) true (Some AlgSHA1) [1;0;1;0;7;8;10]
    = (Ok tt, KmBG AlgSHA1 (toyH AlgSHA1 [7;8;10])).
Proof. split; [intros x; apply (toyH_len AlgSHA1 20%nat); reflexivity|vm_compute; reflexivity]. Qed.

(** * 4. password *)

Definition aead_correct (K : kenv) : Prop := forall k n m, open K k n (seal K k n m) = Some m.
Definition aead_wrong_key (K : kenv) : Prop :=
  forall k k' n m, k' <> k -> open K k' n (seal K k n m) = None.
(** the wrapped file is not itself a PEM private key *)
Definition ct_not_pem (K : kenv) : Prop := forall k n m, parse_key K (n ++ seal K k n m) = None.

Lemma is_empty_false (b : bytes) : b <> [] -> is_empty b = false.
Proof. destruct b; [congruence|reflexivity]. Qed.
Lemma is_empty_true_iff (b : bytes) : is_empty b = true <-> b = [].
Proof. destruct b; split; intros; try reflexivity; try discriminate. Qed.

Lemma bytes_eq_dec (a b : bytes) : {a = b} + {a <> b}.
Proof. apply list_eq_dec. apply Z.eq_dec. Qed.

Lemma decrypt_encrypted K pw pw' nonce pem :
  pw <> [] -> pw' <> [] -> length nonce = nonce_size ->
  decrypt_priv K (encrypt_priv K pw nonce pem) pw' =
  match open K (Hpw K pw') nonce (seal K (Hpw K pw) nonce pem) with
  | None => Err 1
  | Some plain => match parse_key K plain with Some k => Ok k | None => Err 2 end
  end.
Proof.
  intros Hp Hp' Hn. unfold decrypt_priv, encrypt_priv.
  rewrite (is_empty_false _ Hp), (is_empty_false _ Hp').
  assert (Hl : (length (nonce ++ seal K (Hpw K pw) nonce pem) <? nonce_size)%nat = false).
  { apply Nat.ltb_ge. rewrite app_length. lia. }
  rewrite Hl.
  rewrite <- Hn. rewrite firstn_app, Nat.sub_diag, firstn_all. cbn [firstn]. rewrite app_nil_r.
  rewrite skipn_app, Nat.sub_diag, skipn_all. cbn [skipn app]. reflexivity.
Qed.

Theorem password K :
  aead_correct K -> aead_wrong_key K -> ct_not_pem K ->
  forall pw pw' nonce pem sk, pw <> [] -> length nonce = nonce_size ->
  (decrypt_priv K (encrypt_priv K pw nonce pem) pw' = Ok sk <->
   pw' <> [] /\ Hpw K pw' = Hpw K pw /\ parse_key K pem = Some sk).
Proof.
  intros Hc Hw Hnp pw pw' nonce pem sk Hp Hn.
  destruct (bytes_eq_dec pw' []) as [He|Hne].
  - subst pw'. unfold decrypt_priv, encrypt_priv. rewrite (is_empty_false _ Hp). cbn [is_empty].
    rewrite Hnp. split; [discriminate|]. intros [Hx _]. congruence.
  - rewrite (decrypt_encrypted K pw pw' nonce pem Hp Hne Hn).
    destruct (bytes_eq_dec (Hpw K pw') (Hpw K pw)) as [Hk|Hk].
    + rewrite Hk, Hc. destruct (parse_key K pem) as [k|].
      * split; [intros Hx; inversion Hx; auto|intros [_ [_ Hx]]; inversion Hx; reflexivity].
      * split; [discriminate|intros [_ [_ Hx]]; discriminate].
    + rewrite (Hw _ _ _ _ Hk). split; [discriminate|]. intros [_ [Hx _]]. congruence.
Qed.

Theorem password_wrong_is_error K :
  aead_wrong_key K -> ct_not_pem K ->
  forall pw pw' nonce pem, pw <> [] -> length nonce = nonce_size ->
  Hpw K pw' <> Hpw K pw \/ pw' = [] ->
  exists c, decrypt_priv K (encrypt_priv K pw nonce pem) pw' = Err c.
Proof.
  intros Hw Hnp pw pw' nonce pem Hp Hn Hk.
  destruct (bytes_eq_dec pw' []) as [He|Hne].
  - subst pw'. unfold decrypt_priv, encrypt_priv. rewrite (is_empty_false _ Hp). cbn [is_empty].
    rewrite Hnp. eauto.
  - destruct Hk as [Hk|Hk]; [|congruence].
    rewrite (decrypt_encrypted K pw pw' nonce pem Hp Hne Hn), (Hw _ _ _ _ Hk). eauto.
Qed.

Theorem password_right K :
  aead_correct K ->
  forall pw nonce pem sk, length nonce = nonce_size -> parse_key K pem = Some sk ->
  decrypt_priv K (encrypt_priv K pw nonce pem) pw = Ok sk.
Proof.
  intros Hc pw nonce pem sk Hn Hk.
  destruct (bytes_eq_dec pw []) as [He|Hne].
  - subst pw. unfold decrypt_priv, encrypt_priv. cbn [is_empty]. rewrite Hk. reflexivity.
  - rewrite (decrypt_encrypted K pw pw nonce pem Hne Hne Hn), Hc, Hk. reflexivity.
Qed.

Lemma decrypt_short_is_error K data pw :
  pw <> [] -> (length data < nonce_size)%nat -> decrypt_priv K data pw = Err 3.
Proof.
  intros Hp Hl. unfold decrypt_priv. rewrite (is_empty_false _ Hp).
  apply Nat.ltb_lt in Hl. rewrite Hl. reflexivity.
Qed.

(** DecryptPrivKey never panics: every input gives a key or an error. *)
Lemma decrypt_total K data pw :
  (exists k, decrypt_priv K data pw = Ok k) \/ (exists c, decrypt_priv K data pw = Err c).
Proof.
  unfold decrypt_priv.
  destruct (is_empty pw).
  - destruct (parse_key K data); eauto.
  - destruct (length data <? nonce_size)%nat; [eauto|].
    destruct (open K _ _ _) as [plain|]; [|eauto].
    destruct (parse_key K plain); eauto.
Qed.

(** * Witnesses *)

Definition toy_unsigned (ver pkh : Z) : toy := mk_toy ver pkh 1 2 0 (mk_sig 0 0 []).

Definition env_reasonable (E : env) : Prop :=
  scheme_sound E /\ scheme_ideal E /\ store_laws E /\
  (forall g d m, parse E g d (ser E m) = Some m).

Lemma toy_reasonable : env_reasonable Toy.
Proof.
  split; [exact toy_sound|]. split; [exact toy_ideal|]. split; [exact toy_store_laws|].
  intros g d m. apply toy_roundtrip.
Qed.

(** BG 1.0 BPM: SignBPM cuts at PMSEOffset(), where VerifyBPM cuts -- the suite's own
    signature verifies (in the toy environment PMSE.KeySignatureOffset() is 9 and
    PMSEOffset() is 13: with the cut of the code before ee4d7c9 this file was rejected). *)
Lemma sign_verify_bg10_bpm_example :
  let m := toy_unsigned 16 11 in
  let sd := 5 :: AlgRSASSA :: [0;0;0;0;0;0;0;0;16;13;11;1;2] in
  let m' := signed_struct Toy V10 BPM m AlgRSASSA AlgSHA256 5 sd in
  env_reasonable Toy /\
  pmse_ks_off Toy (prep Toy V10 BPM m) <> pmse_off Toy (prep Toy V10 BPM m) /\
  sign_raw Toy 5 AlgRSASSA (signed_message Toy V10 BPM (prep Toy V10 BPM m)) = Some sd /\
  detect (ser Toy m') = Some V10 /\ parse Toy V10 BPM (ser Toy m') = Some m' /\
  sign_cut Toy V10 BPM m' = sign_cut Toy V10 BPM (prep Toy V10 BPM m) /\
  firstn (sign_cut Toy V10 BPM (prep Toy V10 BPM m)) (ser Toy m') =
    firstn (sign_cut Toy V10 BPM (prep Toy V10 BPM m)) (ser Toy (prep Toy V10 BPM m)) /\
  sign_manifest Toy V10 BPM m AlgRSASSA AlgSHA256 5 = Ok (ser Toy m') /\
  verify_file Toy BPM (ser Toy m') = Ok tt.
Proof.
  cbv zeta. split; [exact toy_reasonable|]. split; [cbn; lia|].
  repeat split; vm_compute; reflexivity.
Qed.

(** CBnT: the hash label stored with the signature is the REQUESTED algorithm, the
    digest signed is the scheme's own. *)
Lemma sign_verify_hash_label_witness :
  exists (E : env) (d : doc) (m : M E) (sch req : Z) (sk : SK E) (file : bytes),
    env_reasonable E /\
    stored_hash V20 sch (req_hash E d (prep E V20 d m) req) <> scheme_hash sch /\
    sign_manifest E V20 d m sch req sk = Ok file /\
    verify_file E d file = Err 3.
Proof.
  exists Toy, BPM, (toy_unsigned 33 11), AlgRSASSA, AlgSHA384, 5,
    (ser Toy (signed_struct Toy V20 BPM (toy_unsigned 33 11) AlgRSASSA AlgSHA384 5
               (5 :: AlgRSASSA :: [0;0;0;0;0;0;0;0;33;13;11;1;2]))).
  split; [exact toy_reasonable|]. split; [vm_compute; discriminate|]. split; vm_compute; reflexivity.
Qed.

(** CBnT KM with a null PubKeyHashAlg: SetSignature rewrites the signed field. *)
Lemma sign_verify_null_pkhash_witness :
  exists (E : env) (m : M E) (sk : SK E) (file : bytes),
    env_reasonable E /\ is_null (pkhash E m) = true /\
    stored_hash V20 AlgRSASSA (req_hash E KM (prep E V20 KM m) 0) = scheme_hash AlgRSASSA /\
    sign_manifest E V20 KM m AlgRSASSA 0 sk = Ok file /\
    verify_file E KM file = Err 3.
Proof.
  exists Toy, (toy_unsigned 33 16), 5,
    (ser Toy (signed_struct Toy V20 KM (toy_unsigned 33 16) AlgRSASSA 0 5
               (5 :: AlgRSASSA :: [0;0;0;0;0;0;0;0;33;13;16;1;2]))).
  split; [exact toy_reasonable|]. repeat split; vm_compute; reflexivity.
Qed.

(** Tampering: with an IDEAL scheme and a round-tripping codec, a file that
    differs from the signed one inside the signed portion is accepted, because the
    writer recomputes the byte the parser ignores. *)
Lemma tamper_witness :
  exists (E : env) (m : M E) (sk : SK E) (file file' : bytes) (c : nat),
    env_reasonable E /\
    sign_manifest E V20 KM m AlgRSASSA 0 sk = Ok file /\
    verify_file E KM file = Ok tt /\
    (forall m', parse E V20 KM file = Some m' -> verify_cut E V20 KM m' = c) /\
    length file' = length file /\
    firstn c file' <> firstn c file /\
    skipn c file' = skipn c file /\
    verify_file E KM file' = Ok tt /\
    ~ canonical_at E V20 KM file'.
Proof.
  set (f := ser Toy (signed_struct Toy V20 KM (toy_unsigned 33 11) AlgRSASSA 0 5
               (5 :: AlgRSASSA :: [0;0;0;0;0;0;0;0;33;13;11;1;2]))).
  exists Toy, (toy_unsigned 33 11), 5, f,
    ([0;0;0;0;0;0;0;0;33;12] ++ skipn 10 f), 13%nat.
  split; [exact toy_reasonable|].
  split; [vm_compute; reflexivity|]. split; [vm_compute; reflexivity|].
  split; [intros m' _; reflexivity|].
  split; [vm_compute; reflexivity|]. split; [vm_compute; discriminate|].
  split; [vm_compute; reflexivity|]. split; [vm_compute; reflexivity|].
  intros Hcan.
  specialize (Hcan (mk_toy 33 11 1 2 105 (mk_sig AlgRSASSA AlgSHA256 (5 :: AlgRSASSA :: [0;0;0;0;0;0;0;0;33;13;11;1;2]))) eq_refl).
  vm_compute in Hcan. discriminate.
Qed.

(** The hypotheses of [sign_verify_struct] are satisfiable (and then it signs and verifies). *)
Lemma sign_verify_example :
  let m := toy_unsigned 33 11 in
  let sd := 5 :: AlgRSAPSS :: [0;0;0;0;0;0;0;0;33;13;11;1;2] in
  let m' := signed_struct Toy V20 BPM m AlgRSAPSS AlgSHA384 5 sd in
  scheme_sound Toy /\ store_laws Toy /\
  sign_raw Toy 5 AlgRSAPSS (signed_message Toy V20 BPM (prep Toy V20 BPM m)) = Some sd /\
  detect (ser Toy m') = Some V20 /\ parse Toy V20 BPM (ser Toy m') = Some m' /\
  sign_cut Toy V20 BPM m' = sign_cut Toy V20 BPM (prep Toy V20 BPM m) /\
  firstn (sign_cut Toy V20 BPM (prep Toy V20 BPM m)) (ser Toy m') =
    firstn (sign_cut Toy V20 BPM (prep Toy V20 BPM m)) (ser Toy (prep Toy V20 BPM m)) /\
  stored_hash V20 AlgRSAPSS (req_hash Toy BPM (prep Toy V20 BPM m) AlgSHA384) = scheme_hash AlgRSAPSS /\
  verify_file Toy BPM (ser Toy m') = Ok tt.
Proof.
  cbv zeta. split; [exact toy_sound|]. split; [exact toy_store_laws|].
  repeat split; vm_compute; reflexivity.
Qed.

(** BPMKeyMatchKMHash alone, on the inputs that made the code before 24a2a40 report
    a match for every key: a SHA1-sized digest (BG 1.0) is an error for every key, a
    shared usage (CBnT, bit 0 and another bit) is compared like any BPM entry. *)
Lemma keymatch_closed_bg :
  forall buf : bytes, (2 + length buf <= minHashTypeSize)%nat ->
    forall H alg keyalg kd, bg_key_match H alg buf keyalg kd = Err 2 /\ bg_km_has_bpm_hash buf = Err 1.
Proof.
  intros buf Hl H alg keyalg kd. unfold bg_key_match, bg_km_has_bpm_hash.
  assert (Hh : bg_has_hash buf = false) by (unfold bg_has_hash; apply Nat.ltb_ge; exact Hl).
  rewrite Hh. split; reflexivity.
Qed.

Lemma keymatch_no_entry_cbnt :
  forall hs, Forall (fun h => Z.odd (kh_usage h) = false) hs ->
    forall H keyalg kd, cbnt_key_match H hs keyalg kd = Err 2 /\ cbnt_km_has_bpm_hash hs = Err 1.
Proof.
  intros hs Hall H keyalg kd.
  assert (Hh : cbnt_has_hash hs = false).
  { unfold cbnt_has_hash. induction Hall as [|h t Hh _ IH]; cbn [existsb]; [reflexivity|]. rewrite Hh. exact IH. }
  split; [|unfold cbnt_km_has_bpm_hash; rewrite Hh; reflexivity].
  unfold cbnt_key_match. generalize hs at 2. intros all.
  induction Hall as [|h t Hh' _ IH]; cbn [cbnt_key_match_loop]; [reflexivity|].
  rewrite Hh'. apply IH. unfold cbnt_has_hash in Hh. cbn [existsb] in Hh. rewrite Hh' in Hh. exact Hh.
Qed.

Lemma keymatch_shared_usage_example :
  let kd := [1;0;1;0;7;8;9] in let kd' := [1;0;1;0;7;8;10] in
  let hs := [mk_kmhash 5 AlgSHA256 (toyH AlgSHA256 [7;8;9])] in
  cbnt_key_match toyH hs AlgRSA kd = Ok true /\ cbnt_km_has_bpm_hash hs = Ok true /\
  cbnt_key_match toyH hs AlgRSA kd' = Err 1.
Proof. cbv zeta. repeat split; vm_compute; reflexivity. Qed.

Lemma binding_example :
  let H := fun (alg : Z) (m : bytes) => repeat (fold_left Z.add m alg) 32 in
  (forall x, length (H AlgSHA256 x) = 32%nat) /\
  bg_binding_ok H AlgSHA256 (H AlgSHA256 [7;8;9]) AlgRSA [1;0;1;0;7;8;9] = true /\
  bg_binding_ok H AlgSHA256 (H AlgSHA256 [7;8;9]) AlgRSA [1;0;1;0;7;8;10] = false.
Proof. cbv zeta. split; [intros; apply repeat_length|]. split; vm_compute; reflexivity. Qed.

(** toy AEAD for the satisfiability example: the "ciphertext" names its key *)
Definition ToyK : kenv := {|
  KSK := Z;
  Hpw := fun pw => [fold_left Z.add pw 7];
  seal := fun k n m => 255 :: 255 :: Z.of_nat (length k) :: k ++ m;
  open := fun k n c =>
    match c with
    | _ :: _ :: l :: r =>
        if (l =? Z.of_nat (length k)) && zlist_eqb (firstn (length k) r) k
        then Some (skipn (length k) r) else None
    | _ => None
    end;
  parse_key := fun p =>
    match p with
    | [a; x; b] => if (a =? 45) && (b =? 45) then Some x else None
    | _ => None
    end |}.

Lemma toyk_correct : aead_correct ToyK.
Proof.
  intros k n m. cbn. rewrite Z.eqb_refl. cbn [andb].
  rewrite firstn_app, Nat.sub_diag, firstn_all. cbn [firstn]. rewrite app_nil_r, zlist_eqb_refl.
  rewrite skipn_app, Nat.sub_diag, skipn_all. reflexivity.
Qed.

Lemma toyk_wrong_key : aead_wrong_key ToyK.
Proof.
  intros k k' n m Hne. cbn.
  destruct (Z.of_nat (length k) =? Z.of_nat (length k')) eqn:Hl; cbn [andb]; [|reflexivity].
  apply Z.eqb_eq in Hl. apply Nat2Z.inj in Hl.
  destruct (zlist_eqb (firstn (length k') (k ++ m)) k') eqn:He; [|reflexivity].
  apply zlist_eqb_eq in He. rewrite <- Hl in He.
  rewrite firstn_app, Nat.sub_diag, firstn_all in He. cbn [firstn] in He. rewrite app_nil_r in He. congruence.
Qed.

Lemma toyk_ct_not_pem : ct_not_pem ToyK.
Proof.
  intros k n m. cbn.
  destruct n as [|a [|b [|c [|e n']]]]; cbn; try reflexivity;
    try (destruct (k ++ m); reflexivity).
Qed.

Lemma password_example :
  aead_correct ToyK /\ aead_wrong_key ToyK /\ ct_not_pem ToyK /\
  let nonce := [1;2;3;4;5;6;7;8;9;10;11;12] in
  decrypt_priv ToyK (encrypt_priv ToyK [112;119] nonce [45;99;45]) [112;119] = Ok 99 /\
  decrypt_priv ToyK (encrypt_priv ToyK [112;119] nonce [45;99;45]) [112;120] = Err 1 /\
  decrypt_priv ToyK (encrypt_priv ToyK [112;119] nonce [45;99;45]) [] = Err 2.
Proof.
  split; [exact toyk_correct|]. split; [exact toyk_wrong_key|]. split; [exact toyk_ct_not_pem|].
  cbv zeta. repeat split; vm_compute; reflexivity.
Qed.

(** * 5. Hash requests left to the scheme (null / unknown hash names), algorithm
      names, key sizes and key kinds *)

(** ** what the label stored with a CBnT signature is *)

(** an explicit request is stored as it is: the suite never changes it *)
Lemma stored_hash_explicit sch req : is_null req = false -> stored_hash V20 sch req = req.
Proof. intros Hn. unfold stored_hash. rewrite Hn. reflexivity. Qed.

(** a null request is handed on as null: the label follows the scheme's own digest *)
Lemma stored_hash_null sch req : is_null req = true -> stored_hash V20 sch req = scheme_hash sch.
Proof. intros Hn. unfold stored_hash. rewrite Hn. reflexivity. Qed.

Lemma scheme_hash_not_null sch : is_null (scheme_hash sch) = false.
Proof. unfold scheme_hash. destruct (sch =? AlgRSAPSS); reflexivity. Qed.

(** (label) of [sign_verify_struct] holds exactly for the null requests and for the
    request that names the scheme's own digest *)
Lemma hash_label_ok_iff sch req :
  stored_hash V20 sch req = scheme_hash sch <-> is_null req = true \/ req = scheme_hash sch.
Proof.
  destruct (is_null req) eqn:Hn.
  - rewrite (stored_hash_null sch req Hn). tauto.
  - rewrite (stored_hash_explicit sch req Hn). split; [auto|intros [Hx|Hx]; [discriminate|exact Hx]].
Qed.

(** the null requests are the ONLY requests that fit both schemes the tool offers *)
Lemma only_null_fits_both_schemes req :
  (stored_hash V20 AlgRSASSA req = scheme_hash AlgRSASSA /\
   stored_hash V20 AlgRSAPSS req = scheme_hash AlgRSAPSS) <-> is_null req = true.
Proof.
  rewrite !hash_label_ok_iff. split.
  - intros [[Hn|Ha] [Hn'|Hb]]; auto. rewrite Ha in Hb. vm_compute in Hb. discriminate.
  - intros Hn. auto.
Qed.

(** A glue that replaced a null request by a fixed explicit algorithm before handing
    it to SetSignature (instead of leaving the choice to the scheme): whatever the
    default, the label is wrong for one of the two schemes. *)
Definition stored_hash_defaulting (dflt : Z) (g : gen) (sch req : Z) : Z :=
  stored_hash g sch (if is_null req then dflt else req).

Lemma explicit_default_breaks_a_scheme dflt req :
  is_null dflt = false -> is_null req = true ->
  exists sch, (sch = AlgRSASSA \/ sch = AlgRSAPSS) /\
              stored_hash_defaulting dflt V20 sch req <> scheme_hash sch.
Proof.
  intros Hd Hr. unfold stored_hash_defaulting. rewrite Hr.
  destruct (Z.eq_dec dflt (scheme_hash AlgRSASSA)) as [He|Hne].
  - exists AlgRSAPSS. split; [right; reflexivity|].
    rewrite (stored_hash_explicit _ _ Hd). rewrite He. vm_compute. discriminate.
  - exists AlgRSASSA. split; [left; reflexivity|].
    rewrite (stored_hash_explicit _ _ Hd). exact Hne.
Qed.

(** with the glue as it is, a null request fits every scheme *)
Lemma null_request_fits_every_scheme sch req :
  is_null req = true -> stored_hash V20 sch req = scheme_hash sch.
Proof. exact (stored_hash_null sch req). Qed.

(** CBnT BPM, hash request null (the caller leaves the choice to the scheme) or the
    scheme's own digest: NO condition on the glue is left. *)
Theorem sign_verify_cbnt_bpm_fitting E m sch req sk sd :
  scheme_sound E -> store_laws E ->
  is_null req = true \/ req = scheme_hash sch ->
  let m0 := prep E V20 BPM m in
  let m' := signed_struct E V20 BPM m sch req sk sd in
  sign_raw E sk sch (signed_message E V20 BPM m0) = Some sd ->
  detect (ser E m') = Some V20 ->
  parse E V20 BPM (ser E m') = Some m' ->
  sign_cut E V20 BPM m' = sign_cut E V20 BPM m0 ->
  firstn (sign_cut E V20 BPM m0) (ser E m') = firstn (sign_cut E V20 BPM m0) (ser E m0) ->
  sign_manifest E V20 BPM m sch req sk = Ok (ser E m') /\
  verify_file E BPM (ser E m') = Ok tt.
Proof.
  intros Hsound Hstore Hfit m0 m' Hsd Hdet Hparse Hoff Hpre.
  apply sign_verify_struct; auto.
  right. cbn [req_hash]. apply hash_label_ok_iff. exact Hfit.
Qed.

(** ** algorithm names *)

Lemma upper_idem b : upper (upper b) = upper b.
Proof.
  unfold upper. destruct ((97 <=? b) && (b <=? 122)) eqn:Hb; [|rewrite Hb; reflexivity].
  destruct ((97 <=? b - 32) && (b - 32 <=? 122)) eqn:Hc; [lia|reflexivity].
Qed.

(** the null names, in any letter case, are known to both generations' tables and
    stand for a null algorithm *)
Lemma parse_alg_null_name g name :
  map upper name = bs "ALGNULL" -> parse_alg g name = Some AlgNull.
Proof. intros Hn. unfold parse_alg. rewrite Hn. destruct g; vm_compute; reflexivity. Qed.

Lemma parse_alg_unknown_name g name :
  map upper name = bs "ALGUNKNOWN" -> parse_alg g name = Some AlgUnknown.
Proof. intros Hn. unfold parse_alg. rewrite Hn. destruct g; vm_compute; reflexivity. Qed.

(** ... and no other name does *)
Lemma parse_alg_null_inv g name a :
  parse_alg g name = Some a -> is_null a = true ->
  map upper name = bs "ALGNULL" \/ map upper name = bs "ALGUNKNOWN".
Proof.
  unfold parse_alg. generalize (map upper name) as k. intros k.
  destruct g; cbn [alg_names alg_names_common alg_names_cbnt app assoc_name];
    repeat match goal with
    | |- context [if zlist_eqb ?x ?y then _ else _] =>
        let Hq := fresh "Hq" in destruct (zlist_eqb x y) eqn:Hq
    end; intros Hs Hn; inversion Hs; subst a; try (vm_compute in Hn; discriminate);
    match goal with
    | Hq : zlist_eqb k (bs "ALGNULL") = true |- _ => left; apply zlist_eqb_eq; exact Hq
    | Hq : zlist_eqb k (bs "ALGUNKNOWN") = true |- _ => right; apply zlist_eqb_eq; exact Hq
    end.
Qed.

(** names the BG 1.0 table knows are known to the CBnT table, with the same meaning *)
Lemma parse_alg_bg_in_cbnt name a : parse_alg V10 name = Some a -> parse_alg V20 name = Some a.
Proof.
  unfold parse_alg. generalize (map upper name) as k. intros k.
  cbn [alg_names alg_names_common alg_names_cbnt app assoc_name].
  repeat match goal with
    | |- context [if zlist_eqb ?x ?y then _ else _] =>
        let Hq := fresh "Hq" in destruct (zlist_eqb x y) eqn:Hq
    end; intros Hs; try exact Hs; discriminate.
Qed.

(** ** the entry points *)

Lemma sign_entry_cbnt_bpm E m sname hname sk sch req :
  parse_alg V20 sname = Some sch -> parse_alg V20 hname = Some req ->
  sign_entry E V20 BPM m sname hname sk = sign_manifest E V20 BPM m sch req sk.
Proof. intros Hs Hh. unfold sign_entry. rewrite Hs, Hh. reflexivity. Qed.

Lemma sign_entry_unknown_name E g d m sname hname sk :
  parse_alg g sname = None \/ (g = V20 /\ d = BPM /\ parse_alg V20 hname = None) ->
  sign_entry E g d m sname hname sk = Err 2.
Proof.
  unfold sign_entry. intros [Hs|[-> [-> Hh]]].
  - rewrite Hs. reflexivity.
  - destruct (parse_alg V20 sname); [rewrite Hh|]; reflexivity.
Qed.

(** every entry point but the CBnT SignBPM ignores the hash name altogether *)
Lemma sign_entry_ignores_hash_name E g d m sname h1 h2 sk :
  ~ (g = V20 /\ d = BPM) ->
  sign_entry E g d m sname h1 sk = sign_entry E g d m sname h2 sk.
Proof.
  intros Hn. unfold sign_entry. destruct (parse_alg g sname); [|reflexivity].
  destruct g, d; try reflexivity. exfalso. apply Hn. auto.
Qed.

(** SignBPM (CBnT) with a hash NAME that stands for a null algorithm ("ALGNULL",
    "ALGUNKNOWN"): signs and verifies, for every scheme the signer accepts. *)
Theorem sign_entry_null_hash_name E m sname hname sch req sk sd :
  scheme_sound E -> store_laws E ->
  parse_alg V20 sname = Some sch ->
  parse_alg V20 hname = Some req -> is_null req = true ->
  let m0 := prep E V20 BPM m in
  let m' := signed_struct E V20 BPM m sch req sk sd in
  sign_raw E sk sch (signed_message E V20 BPM m0) = Some sd ->
  detect (ser E m') = Some V20 ->
  parse E V20 BPM (ser E m') = Some m' ->
  sign_cut E V20 BPM m' = sign_cut E V20 BPM m0 ->
  firstn (sign_cut E V20 BPM m0) (ser E m') = firstn (sign_cut E V20 BPM m0) (ser E m0) ->
  sign_entry E V20 BPM m sname hname sk = Ok (ser E m') /\
  verify_file E BPM (ser E m') = Ok tt /\
  sg_hash (mk_sig sch (stored_hash V20 sch req) sd) = scheme_hash sch.
Proof.
  intros Hsound Hstore Hs Hh Hn m0 m' Hsd Hdet Hparse Hoff Hpre.
  rewrite (sign_entry_cbnt_bpm E m sname hname sk sch req Hs Hh).
  destruct (sign_verify_cbnt_bpm_fitting E m sch req sk sd Hsound Hstore (or_introl Hn) Hsd Hdet Hparse Hoff Hpre) as [Ha Hb].
  split; [exact Ha|]. split; [exact Hb|]. cbn [sg_hash]. apply stored_hash_null. exact Hn.
Qed.

(** the hypotheses are satisfiable: RSAPSS with the name "algnull" in the toy environment *)
Lemma sign_entry_null_hash_name_example :
  let m := toy_unsigned 33 11 in
  let sd := 5 :: AlgRSAPSS :: [0;0;0;0;0;0;0;0;33;13;11;1;2] in
  let m' := signed_struct Toy V20 BPM m AlgRSAPSS AlgNull 5 sd in
  parse_alg V20 (bs "rsapss") = Some AlgRSAPSS /\ parse_alg V20 (bs "AlgNull") = Some AlgNull /\
  is_null AlgNull = true /\
  sign_raw Toy 5 AlgRSAPSS (signed_message Toy V20 BPM (prep Toy V20 BPM m)) = Some sd /\
  detect (ser Toy m') = Some V20 /\ parse Toy V20 BPM (ser Toy m') = Some m' /\
  sign_entry Toy V20 BPM m (bs "rsapss") (bs "AlgNull") 5 = Ok (ser Toy m') /\
  verify_file Toy BPM (ser Toy m') = Ok tt /\
  (* the same request through a glue that defaults to SHA256 first: rejected *)
  verify_file Toy BPM (ser Toy (signed_struct Toy V20 BPM m AlgRSAPSS AlgSHA256 5 sd)) = Err 3.
Proof. cbv zeta. repeat split; vm_compute; reflexivity. Qed.

(** ** key sizes: the digest placed and compared covers the WHOLE key data after
    the 4 exponent bytes, whatever its length (256 bytes for RSA-2048, 384 for RSA-3072) *)

Theorem place_digest_whole_key H st keyok req kd st' :
  km_place H st keyok req kd = (Ok tt, st') ->
  exists alg, req = Some alg /\ (4 <= length kd)%nat /\
    st' = match st with
          | KmBG _ _ => KmBG alg (H alg (skipn 4 kd))
          | KmCBNT _ => KmCBNT [mk_kmhash UsageBPMSigningPKD alg (H alg (skipn 4 kd))]
          end.
Proof.
  intros Hp. apply km_place_ok_inv in Hp. destruct Hp as [alg [_ [Hr [_ [Hl ->]]]]].
  exists alg. split; [exact Hr|]. split; [exact Hl|]. destruct st; reflexivity.
Qed.

Lemma nth_skipn_z (n i : nat) (l : bytes) : nth i (skipn n l) 0 = nth (n + i) l 0.
Proof.
  revert l. induction n as [|n IH]; intros l; [reflexivity|].
  destruct l as [|x l]; cbn [skipn plus nth]; [destruct i; reflexivity|apply IH].
Qed.

Lemma skipn_nth_differ (i : nat) (a b : bytes) :
  (4 <= i)%nat -> nth i a 0 <> nth i b 0 -> skipn 4 a <> skipn 4 b.
Proof.
  intros Hi Hne He. apply Hne.
  replace i with (4 + (i - 4))%nat by lia.
  rewrite <- !nth_skipn_z. rewrite He. reflexivity.
Qed.

(** two keys that differ in ANY byte after the exponent -- byte 4 or byte 387 alike --
    are told apart by the binding check (when H tells their moduli apart) *)
Theorem binding_every_key_byte H :
  (forall alg n x, cbnt_hash_size alg = Some n -> length (H alg x) = n) ->
  forall st keyok req alg kd0 kd st' i, (4 <= length kd)%nat ->
  km_place H st keyok req kd0 = (Ok tt, st') ->
  req = Some alg ->
  (match st with KmBG _ _ => alg = AlgSHA256 | KmCBNT _ => True end) ->
  (H alg (skipn 4 kd0) = H alg (skipn 4 kd) -> skipn 4 kd0 = skipn 4 kd) ->
  (4 <= i)%nat -> nth i kd0 0 <> nth i kd 0 ->
  km_binding_ok H st' AlgRSA kd = false.
Proof.
  intros Hlen st keyok req alg kd0 kd st' i Hk Hp Hr Hbg Hinj Hi Hne.
  destruct (km_binding_ok H st' AlgRSA kd) eqn:Hb; [|reflexivity].
  exfalso. apply (rekey_binding H Hlen st keyok req alg kd0 kd st' Hk Hp Hr Hbg Hinj) in Hb.
  exact (skipn_nth_differ i kd0 kd Hi Hne Hb).
Qed.

(** A placement that digested only the first [n] bytes of the modulus (a fixed
    width, e.g. 256 = RSA-2048) -- NOT what the code does: for every key whose
    modulus is longer than [n] bytes the binding check rejects the very key that
    was placed (unless H collides on the modulus and its prefix). *)
Definition placed_state_trunc H (n : nat) (st : kmstate) (alg : Z) (kd : bytes) : kmstate :=
  match st with
  | KmBG _ _ => KmBG alg (H alg (firstn n (skipn 4 kd)))
  | KmCBNT _ => KmCBNT [mk_kmhash UsageBPMSigningPKD alg (H alg (firstn n (skipn 4 kd)))]
  end.

Lemma placed_state_trunc_as_placed H n st alg kd :
  (4 <= length kd)%nat ->
  placed_state_trunc H n st alg kd = placed_state H st alg (firstn 4 kd ++ firstn n (skipn 4 kd)).
Proof.
  intros Hk. unfold placed_state_trunc, placed_state.
  assert (Hs : skipn 4 (firstn 4 kd ++ firstn n (skipn 4 kd)) = firstn n (skipn 4 kd)).
  { rewrite skipn_app. rewrite firstn_length. replace (Nat.min 4 (length kd)) with 4%nat by lia.
    rewrite skipn_all2 by (rewrite firstn_length; lia). reflexivity. }
  rewrite Hs. reflexivity.
Qed.

Theorem truncated_digest_rejects_own_key H :
  (forall alg n x, cbnt_hash_size alg = Some n -> length (H alg x) = n) ->
  forall n st alg kd, (4 <= length kd)%nat ->
  km_size st alg <> None ->
  (match st with KmBG _ _ => alg = AlgSHA256 | KmCBNT _ => True end) ->
  (n < length kd - 4)%nat ->
  (H alg (firstn n (skipn 4 kd)) = H alg (skipn 4 kd) -> firstn n (skipn 4 kd) = skipn 4 kd) ->
  km_binding_ok H (placed_state_trunc H n st alg kd) AlgRSA kd = false.
Proof.
  intros Hlen n st alg kd Hk Hs Hbg Hn Hinj.
  rewrite (placed_state_trunc_as_placed H n st alg kd Hk).
  set (kd0 := firstn 4 kd ++ firstn n (skipn 4 kd)).
  assert (Hs0 : skipn 4 kd0 = firstn n (skipn 4 kd)).
  { unfold kd0. rewrite skipn_app. rewrite firstn_length. replace (Nat.min 4 (length kd)) with 4%nat by lia.
    rewrite skipn_all2 by (rewrite firstn_length; lia). reflexivity. }
  destruct (km_binding_ok H (placed_state H st alg kd0) AlgRSA kd) eqn:Hb; [|reflexivity].
  exfalso.
  apply (binding_placed H Hlen st alg kd0 kd Hk Hs Hbg) in Hb.
  - rewrite Hs0 in Hb. apply (f_equal (@length Z)) in Hb.
    rewrite firstn_length, skipn_length in Hb. lia.
  - rewrite Hs0. exact Hinj.
Qed.

(** the same key under the placement as coded: accepted (any length) *)
Theorem whole_digest_accepts_own_key H :
  (forall alg n x, cbnt_hash_size alg = Some n -> length (H alg x) = n) ->
  forall st alg kd, (4 <= length kd)%nat ->
  km_size st alg <> None ->
  (match st with KmBG _ _ => alg = AlgSHA256 | KmCBNT _ => True end) ->
  km_binding_ok H (placed_state H st alg kd) AlgRSA kd = true.
Proof.
  intros Hlen st alg kd Hk Hs Hbg.
  apply (binding_placed H Hlen st alg kd kd Hk Hs Hbg); auto.
Qed.

(** a 6-byte "modulus", digest width 4: the truncating placement rejects its own
    key and cannot tell it from a key with another tail; the real one does both *)
Lemma truncated_digest_example :
  let kd := [1;0;1;0; 7;8;9;10;11;12] in
  let kd' := [1;0;1;0; 7;8;9;10;99;98] in
  let st := KmBG AlgSHA256 [] in
  km_binding_ok toyH (placed_state_trunc toyH 4 st AlgSHA256 kd) AlgRSA kd = false /\
  placed_state_trunc toyH 4 st AlgSHA256 kd = placed_state_trunc toyH 4 st AlgSHA256 kd' /\
  km_binding_ok toyH (placed_state toyH st AlgSHA256 kd) AlgRSA kd = true /\
  km_binding_ok toyH (placed_state toyH st AlgSHA256 kd) AlgRSA kd' = false.
Proof. cbv zeta. repeat split; vm_compute; reflexivity. Qed.

(** ** key kinds: a BPM key that is not an RSA key (ECC, SM2, anything) never binds,
    whatever the KM holds and whatever the key data: fiano's ValidateBPMKey refuses
    the key type before it hashes anything.  A restriction of the tool (ECC keys
    can be generated and placed, not bound), failing closed. *)
Lemma check_key_hash_non_rsa H size alg buf keyalg kd :
  keyalg <> AlgRSA -> check_key_hash H size alg buf keyalg kd <> Ok tt /\
                      check_key_hash H size alg buf keyalg kd <> Panic.
Proof.
  intros Hk. unfold check_key_hash. destruct (size alg); [|split; discriminate].
  destruct (negb (length buf =? n)%nat); [split; discriminate|].
  assert (Hq : (keyalg =? AlgRSA) = false) by (apply Z.eqb_neq; exact Hk).
  rewrite Hq. cbn [negb]. split; discriminate.
Qed.

Lemma cbnt_validate_from_non_rsa H hs keyalg kd :
  keyalg <> AlgRSA -> forall count,
  cbnt_validate_from H hs keyalg kd count = Ok tt -> existsb (fun h => Z.odd (kh_usage h)) hs = false.
Proof.
  intros Hk. induction hs as [|h t IH]; intros count; cbn [cbnt_validate_from existsb]; [reflexivity|].
  destruct (Z.odd (kh_usage h)) eqn:Ho; cbn [orb].
  - destruct (check_key_hash_non_rsa H cbnt_hash_size (kh_alg h) (kh_buf h) keyalg kd Hk) as [H1 H2].
    destruct (check_key_hash H cbnt_hash_size (kh_alg h) (kh_buf h) keyalg kd) as [[]| | |]; try discriminate.
    congruence.
  - apply IH.
Qed.

Theorem binding_non_rsa_fails_closed H st keyalg kd :
  keyalg <> AlgRSA -> km_binding_ok H st keyalg kd = false.
Proof.
  intros Hk. destruct st as [alg buf|hs]; cbn [km_binding_ok].
  - rewrite <- bg_key_match_is_binding. unfold bg_key_match.
    destruct (bg_has_hash buf); [|reflexivity].
    destruct (check_key_hash_non_rsa H bg_hash_size alg buf keyalg kd Hk) as [H1 H2].
    destruct (check_key_hash H bg_hash_size alg buf keyalg kd) as [[]| | |]; try reflexivity; congruence.
  - rewrite <- cbnt_key_match_is_binding.
    destruct (cbnt_key_match H hs keyalg kd) as [[|]| | |] eqn:Hm; try reflexivity.
    exfalso. apply cbnt_key_match_spec in Hm. destruct Hm as [Hh Hv].
    unfold cbnt_validate in Hv. apply (cbnt_validate_from_non_rsa H hs keyalg kd Hk) in Hv.
    unfold cbnt_has_hash in Hh. congruence.
Qed.
