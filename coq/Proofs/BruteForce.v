(** Proofs about Model/BruteForce.v (pkg/bruteforcer/brute_forcer.go). *)
From CSS Require Import Lib.Base Lib.Cases Model.Comb Proofs.Comb Model.BruteForce Model.BruteForceCases.
From Coq Require Import ZifyBool ZifyNat.

(** * 0. Small list facts *)

Lemma In_seqZ : forall n a x, In x (seqZ a n) <-> a <= x < a + Z.of_nat n.
Proof.
  induction n; intros a x; cbn [seqZ In].
  - lia.
  - rewrite IHn. lia.
Qed.

Lemma seqZ_app : forall n1 n2 a, seqZ a (n1 + n2) = seqZ a n1 ++ seqZ (a + Z.of_nat n1) n2.
Proof.
  induction n1; intros n2 a; cbn [seqZ Nat.add app].
  - f_equal. lia.
  - rewrite IHn1. do 3 f_equal. lia.
Qed.

Lemma NoDup_seqZ : forall n a, NoDup (seqZ a n).
Proof.
  induction n; intro a; cbn [seqZ]; constructor.
  - rewrite In_seqZ. lia.
  - apply IHn.
Qed.

Lemma NoDup_map_inv_in {X Y} (f : X -> Y) (l : list X) : NoDup (map f l) -> NoDup l.
Proof.
  induction l; cbn [map]; intro H. - constructor.
  - inversion H; subst. constructor; auto. intro Hin. apply H2. apply in_map. exact Hin.
Qed.

Lemma in_combine_snd {X Y} : forall (l1 : list X) (l2 : list Y) y,
  length l1 = length l2 -> In y l2 -> exists x, In (x, y) (combine l1 l2).
Proof.
  induction l1; intros [|b l2] y Hl Hin; cbn in *; try lia; try contradiction.
  destruct Hin as [->|Hin].
  - eauto.
  - destruct (IHl1 l2 y ltac:(lia) Hin) as [x Hx]. eauto.
Qed.

Lemma Valid_length m s : Valid m s -> Z.of_nat (length s) <= m + 1.
Proof.
  unfold Valid. destruct s as [|x t]; cbn [length].
  - intros _. (* m may be anything: the empty combination *)
    destruct (Z_le_gt_dec 0 (m + 1)); [lia|].
    (* when m + 1 < 0 the statement is false; Valid m [] is True: restrict *)
Abort.
