(** Proofs about Model/BruteForce.v (pkg/bruteforcer/brute_forcer.go). *)
From CSS Require Import Lib.Base Lib.Cases Model.Comb Proofs.Comb Model.BruteForce Model.BruteForceCases.
From Coq Require Import ZifyBool ZifyNat.

(** * 0. Small list facts *)

Lemma In_seqZ : forall n a x, In x (seqZ a n) <-> a <= x < a + Z.of_nat n.
Proof.
  induction n; intros a x; cbn [seqZ In].
  - lia.
  - rewrite IHn. lia.
Qed.

Lemma seqZ_app : forall n1 n2 a, seqZ a (n1 + n2) = seqZ a n1 ++ seqZ (a + Z.of_nat n1) n2.
Proof.
  induction n1; intros n2 a; cbn [seqZ Nat.add app].
  - f_equal. lia.
  - rewrite IHn1. do 3 f_equal. lia.
Qed.

Lemma NoDup_seqZ : forall n a, NoDup (seqZ a n).
Proof.
  induction n; intro a; cbn [seqZ]; constructor.
  - rewrite In_seqZ. lia.
  - apply IHn.
Qed.

Lemma NoDup_map_inv_in {X Y} (f : X -> Y) (l : list X) : NoDup (map f l) -> NoDup l.
Proof.
  induction l; cbn [map]; intro H. - constructor.
  - inversion H; subst. constructor; auto. intro Hin. apply H2. apply in_map. exact Hin.
Qed.

Lemma in_combine_snd {X Y} : forall (l1 : list X) (l2 : list Y) y,
  length l1 = length l2 -> In y l2 -> exists x, In (x, y) (combine l1 l2).
Proof.
  induction l1; intros [|b l2] y Hl Hin; cbn in *; try lia; try contradiction.
  destruct Hin as [->|Hin].
  - eauto.
  - destruct (IHl1 l2 y ltac:(lia) Hin) as [x Hx]. eauto.
Qed.

Lemma Forall2_len {X Y} (R : X -> Y -> Prop) l1 l2 : Forall2 R l1 l2 -> length l1 = length l2.
Proof. induction 1; cbn [length]; congruence. Qed.

Lemma NoDup_app_disj {X} (l1 l2 : list X) :
  NoDup l1 -> NoDup l2 -> (forall x, In x l1 -> ~ In x l2) -> NoDup (l1 ++ l2).
Proof.
  induction l1 as [|a l1 IH]; intros H1 H2 Hd; cbn [app]; [assumption|].
  inversion H1; subst. constructor.
  - rewrite in_app_iff. intros [Hi|Hi]; [contradiction|]. apply (Hd a); [left; reflexivity|assumption].
  - apply IH; auto. intros x Hx. apply Hd. right. assumption.
Qed.

Lemma app_eq_len {X} : forall (l1 r1 l2 r2 : list X),
  l1 ++ l2 = r1 ++ r2 -> length l1 = length r1 -> l1 = r1 /\ l2 = r2.
Proof.
  induction l1; intros [|b r1] l2 r2 H Hl; cbn in *; try lia.
  - auto.
  - inversion H; subst. destruct (IHl1 r1 l2 r2 H2 ltac:(lia)). subst. auto.
Qed.

Lemma Valid_length m s : 0 <= m + 1 -> Valid m s -> Z.of_nat (length s) <= m + 1.
Proof.
  unfold Valid. intros Hm H. destruct s as [|x t]; cbn [length].
  - lia.
  - pose proof (Inc_len _ _ _ _ H). cbn [Inc] in H. lia.
Qed.

(** * 1. The partition of the combination IDs *)

(** [chain a b l]: the intervals of [l] are non-empty, each starts where the
    previous one ended, the first starts at [a], the last ends at [b]. *)
Fixpoint chain (a b : Z) (l : list (Z * Z)) : Prop :=
  match l with
  | [] => a = b
  | se :: t => fst se = a /\ fst se < snd se /\ chain (snd se) b t
  end.

Lemma chain_le : forall l a b, chain a b l -> a <= b.
Proof.
  induction l as [|[s e] t IH]; cbn [chain fst snd]; intros a b H.
  - lia.
  - destruct H as (-> & Hlt & Hc). apply IH in Hc. lia.
Qed.

Lemma chain_bounds : forall l a b, chain a b l ->
  Forall (fun se => a <= fst se /\ fst se < snd se /\ snd se <= b) l.
Proof.
  induction l as [|[s e] t IH]; cbn [chain fst snd]; intros a b H.
  - constructor.
  - destruct H as (-> & Hlt & Hc). constructor.
    + cbn [fst snd]. apply chain_le in Hc. lia.
    + eapply Forall_impl; [|apply IH, Hc]. cbn. intros se Hse. lia.
Qed.

Lemma chain_cover : forall l a b id, chain a b l -> a <= id < b ->
  exists se, In se l /\ fst se <= id < snd se.
Proof.
  induction l as [|[s e] t IH]; cbn [chain fst snd]; intros a b id H Hid.
  - lia.
  - destruct H as (-> & Hlt & Hc).
    destruct (Z_lt_ge_dec id e).
    + exists (a, e). cbn. split; [auto|lia].
    + destruct (IH e b id Hc ltac:(lia)) as (se & Hin & Hse). exists se. cbn [In]. auto.
Qed.

(** pairwise disjoint and in order: a later interval starts at or after the end of an earlier one *)
Lemma chain_ordered : forall l a b, chain a b l ->
  ForallOrdPairs (fun x y : Z * Z => snd x <= fst y) l.
Proof.
  induction l as [|[s e] t IH]; cbn [chain fst snd]; intros a b H.
  - constructor.
  - destruct H as (-> & Hlt & Hc). constructor.
    + eapply Forall_impl; [|apply (chain_bounds _ _ _ Hc)]. cbn. intros; lia.
    + eapply IH, Hc.
Qed.

Lemma chain_unique : forall l a b id se1 se2, chain a b l ->
  In se1 l -> In se2 l -> fst se1 <= id < snd se1 -> fst se2 <= id < snd se2 -> se1 = se2.
Proof.
  induction l as [|[s e] t IH]; cbn [chain fst snd In]; intros a b id se1 se2 H H1 H2 R1 R2.
  - contradiction.
  - destruct H as (-> & Hlt & Hc).
    pose proof (chain_bounds _ _ _ Hc) as Hb. rewrite Forall_forall in Hb.
    destruct H1 as [<-|H1], H2 as [<-|H2]; cbn [fst snd] in *.
    + reflexivity.
    + apply Hb in H2. lia.
    + apply Hb in H1. lia.
    + eapply IH; eauto.
Qed.

Lemma pieces_length amount cf : length (pieces amount cf) = Z.to_nat cf.
Proof. unfold pieces. rewrite map_length, seqZ_length. reflexivity. Qed.

Lemma pieces_chain_from amount cf : 1 <= cf <= amount ->
  forall n i, 0 <= i -> i + Z.of_nat (S n) = cf ->
  chain (i * (amount / cf)) amount (map (piece amount cf) (seqZ i (S n))).
Proof.
  intros Hcf.
  assert (Hp : 1 <= amount / cf) by (apply Z.div_le_lower_bound; lia).
  assert (Hm : cf * (amount / cf) <= amount) by (apply Z.mul_div_le; lia).
  induction n; intros i Hi Hn.
  - cbn [seqZ map chain]. unfold piece. cbn [fst snd].
    replace (i =? cf - 1) with true by lia. repeat split; nia.
  - change (chain (i * (amount / cf)) amount (map (piece amount cf) (seqZ i (S (S n))))) with
      (fst (piece amount cf i) = i * (amount / cf) /\
       fst (piece amount cf i) < snd (piece amount cf i) /\
       chain (snd (piece amount cf i)) amount (map (piece amount cf) (seqZ (i + 1) (S n)))).
    assert (E : piece amount cf i = (i * (amount / cf), (i + 1) * (amount / cf))).
    { unfold piece. replace (i =? cf - 1) with false by lia. reflexivity. }
    rewrite E. cbn [fst snd]. split; [nia|]. split; [nia|].
    apply (IHn (i + 1)); lia.
Qed.

Lemma pieces_chain amount cf : 1 <= cf <= amount -> chain 0 amount (pieces amount cf).
Proof.
  intro H. unfold pieces.
  destruct (Z.to_nat cf) as [|n] eqn:E; [lia|].
  apply (pieces_chain_from amount cf H n 0); lia.
Qed.

Lemma cfactor_bounds gomax maxconc amount : 1 <= gomax -> 0 <= amount ->
  1 <= cfactor gomax maxconc amount <= Z.max 1 amount.
Proof.
  intros Hg Ha. unfold cfactor, MIN_ITER.
  assert (amount / 10000 <= amount) by (apply Z.div_le_upper_bound; lia).
  assert (0 <= amount / 10000) by (apply Z.div_pos; lia).
  destruct (amount / 10000 <? gomax) eqn:E1; destruct (amount / 10000 <? 1) eqn:E2;
    destruct ((0 <? maxconc) && (maxconc <? _)) eqn:E3; lia.
Qed.

(** * 2. One worker, uninterrupted *)

Lemma collect_Forall2 {X Y} (f : X -> outcome Y) (R : X -> Y -> Prop) : forall l,
  (forall x, In x l -> exists y, f x = Ok y /\ R x y) ->
  exists ys, collect (map f l) = Ok ys /\ Forall2 R l ys.
Proof.
  induction l as [|x t IH]; intro H; cbn [map collect].
  - exists []. split; [reflexivity|constructor].
  - destruct (H x (or_introl eq_refl)) as (y & Hy & Ry).
    destruct IH as (ys & Hys & Rys). { intros x' Hx'. apply H. right. exact Hx'. }
    exists (y :: ys). rewrite Hy, Hys. cbn [bind]. split; [reflexivity|constructor; assumption].
Qed.

Lemma collect_Ok_inv {X} : forall (l : list (outcome X)) ys,
  collect l = Ok ys -> l = map Ok ys.
Proof.
  induction l as [|o t IH]; intros ys H; cbn [collect] in H.
  - inversion H. reflexivity.
  - destruct o as [x| | |]; cbn [bind] in H; try discriminate.
    destruct (collect t) as [r| | |] eqn:E; cbn [bind] in H; try discriminate.
    inversion H; subst. cbn [map]. f_equal. apply IH. reflexivity.
Qed.

Section Generic.
  Context {A : Type}.
  Variable flip : list Z -> list A -> outcome (list A).
  Variable P : list A -> bool.
  Variable data : list A.
  Variable total : Z.
  Let m := total - 1.

  (** The only facts needed about applyBitFlipsFunc: on the positions of a
      valid combination it does not panic and is its own inverse. Discharged
      for [flip_bools] / [flip_bytes] in section 6. *)
  Hypothesis Hflip : forall s, Valid m s -> exists v, flip s data = Ok v /\ flip s v = Ok data.

  (** candidate [s] satisfies the predicate *)
  Definition hitb (s : cand) : bool :=
    match flip s data with Ok v => P v | _ => false end.

  Lemma try1_spec s : Valid m s ->
    exists v, flip s data = Ok v /\
              try1 flip P s data = Ok (hitb s, if hitb s then v else data).
  Proof.
    intro Hs. destruct (Hflip s Hs) as (v & H1 & H2). exists v. split; [exact H1|].
    unfold try1, hitb. rewrite H1. cbn [bind]. destruct (P v); [reflexivity|].
    rewrite H2. reflexivity.
  Qed.

  (** What an uninterrupted scan of [n] IDs from [st] yields. *)
  Definition scan_good (k : nat) (st : Z) (n : nat) (l : list cand) (h : option cand) : Prop :=
    Forall (fun s => Valid m s /\ length s = k) l /\
    map (rank m) l = seqZ st (length l) /\
    (length l <= n)%nat /\
    match h with
    | Some r => In r l /\ hitb r = true
    | None => length l = n /\ Forall (fun s => hitb s = false) l
    end.

  Lemma scan_spec (k : nat) : forall n s0 st,
    (1 <= n)%nat -> Valid m s0 -> length s0 = k -> rank m s0 = st ->
    st + Z.of_nat n <= bz (m + 1) k ->
    exists l h, scan_loop flip P n m s0 data = Ok (l, h) /\ scan_good k st n l h.
  Proof.
    induction n as [|n IH]; intros s0 st Hn Hv Hk Hr Hb; [lia|].
    cbn [scan_loop].
    destruct (try1_spec s0 Hv) as (v & Hf & Ht). rewrite Ht. cbn [bind].
    destruct (hitb s0) eqn:Eh.
    - exists [s0], (Some s0). split; [reflexivity|].
      unfold scan_good. cbn [map length seqZ In]. repeat split; auto; try lia. congruence.
    - destruct n as [|n'].
      + exists [s0], None. split; [reflexivity|].
        unfold scan_good. cbn [map length seqZ In]. repeat split; auto; try lia. congruence.
      + destruct (next_step_rank m s0 Hv) as (s' & Hnx & Hv' & Hl' & Hr'). { rewrite Hk, Hr. lia. }
        rewrite Hnx. cbn [snd].
        destruct (IH s' (st + 1) ltac:(lia) Hv' ltac:(congruence) ltac:(lia) ltac:(lia))
          as (l & h & Hs & Hg).
        rewrite Hs. cbn [bind]. exists (s0 :: l), h. split; [reflexivity|].
        destruct Hg as (G1 & G2 & G3 & G4). unfold scan_good.
        cbn [map length seqZ]. repeat split.
        * constructor; auto.
        * rewrite G2, Hr. reflexivity.
        * lia.
        * destruct h as [r|].
          -- destruct G4. split; [right; assumption|assumption].
          -- destruct G4. split; [lia|constructor; assumption].
  Qed.

  Lemma tries_eq st en : 0 <= st < en -> en < W64 -> tries st en = Z.to_nat (en - st).
  Proof.
    intros H1 H2. unfold tries. rewrite wrap64_mod, Z.mod_small by lia.
    replace (en - st <? 1) with false by lia. reflexivity.
  Qed.

  Lemma worker_scan_spec (k : nat) (se : Z * Z) :
    (1 <= k)%nat -> Z.of_nat k <= total -> total < I63 -> bz total k < W64 ->
    0 <= fst se < snd se -> snd se <= bz total k ->
    exists full, worker_scan flip P m k data se = Ok full /\
                 scan_good k (fst se) (Z.to_nat (snd se - fst se)) (fst full) (snd full).
  Proof.
    intros Hk Hkt Ht Hb Hse Hen. destruct se as [st en]. cbn [fst snd] in *.
    unfold worker_scan. cbn [fst snd].
    replace total with (m + 1) in Hkt, Ht, Hb, Hen by (unfold m; lia).
    destruct (seek_ok m k st Hk Hkt Ht Hb ltac:(lia)) as (s0 & Hs & Hv & Hl & Hr).
    rewrite Hs. cbn [bind]. rewrite tries_eq by lia.
    destruct (scan_spec k (Z.to_nat (en - st)) s0 st ltac:(lia) Hv Hl Hr ltac:(lia)) as (l & h & H1 & H2).
    exists (l, h). split; assumption.
  Qed.

  (** * 3. One distance *)

  Lemma round_rel_cases (specs : list (@wspec)) runs res :
    any_fail specs = false -> round_rel specs runs res ->
    (res = Ok None /\ Forall (fun sp : wspec => snd (snd sp) = None) specs) \/
    (exists r sp, In sp specs /\ snd (snd sp) = Some r /\ res = Ok (Some r)).
  Proof.
    intros Hnf (HF & Hres). rewrite Hnf in Hres.
    destruct (any_pub runs) eqn:Ep.
    - right. destruct Hres as (sp & run & r & Hin & _ & Hh & ->).
      exists r, sp. split; [|auto]. eapply in_combine_l; eauto.
    - left. split; [assumption|].
      unfold any_pub, any_fail in *. clear Hres.
      induction HF as [|sp run specs' runs' Hw HF IH]; [constructor|].
      cbn [existsb] in Ep, Hnf. apply orb_false_iff in Ep, Hnf.
      destruct Ep as [Ep1 Ep2], Hnf as [Hn1 Hn2].
      constructor; [|apply IH; assumption].
      destruct sp as [failed [full hit]], run as [tr pub]. cbn [fst snd] in *. subst.
      cbn in Hw. destruct Hw as [_ ->]. reflexivity.
  Qed.

  Variable ifail : Z -> Z -> bool.
  Variables gomax maxconc : Z.
  Hypothesis Hgomax : 1 <= gomax.
  Hypothesis Htotal : 0 <= total < I63.

  Definition amount_at (d : Z) : Z := bz total (Z.to_nat d).
  Definition pieces_at (d : Z) : list (Z * Z) :=
    pieces (amount_at d) (cfactor gomax maxconc (amount_at d)).
  Definition scans_good (d : Z) (ps : list (Z * Z)) (fulls : list (list cand * option cand)) : Prop :=
    Forall2 (fun se full => scan_good (Z.to_nat d) (fst se) (Z.to_nat (snd se - fst se)) (fst full) (snd full))
            ps fulls.

  Lemma amount_of_bz d : amount_of total (Z.to_nat d) = amount_at d.
  Proof. unfold amount_of, amount_at, bz. apply binom_fast_Z. lia. Qed.

  Lemma amount_at_pos d : 0 <= d <= total -> 1 <= amount_at d.
  Proof.
    intro H. unfold amount_at, bz.
    pose proof (binom_pos (Z.to_nat total) (Z.to_nat d) ltac:(lia)). lia.
  Qed.

  Lemma pieces_at_chain d : 0 <= d <= total -> chain 0 (amount_at d) (pieces_at d).
  Proof.
    intro H. apply pieces_chain.
    pose proof (amount_at_pos d H).
    pose proof (cfactor_bounds gomax maxconc (amount_at d) Hgomax ltac:(lia)). lia.
  Qed.

  Lemma round_specs_ok d : 1 <= d <= total -> amount_at d < MAX_INT64 ->
    exists fulls,
      round_specs flip P ifail gomax maxconc data total d
      = Ok (combine (map (ifail d) (seqZ 0 (length (pieces_at d)))) fulls) /\
      scans_good d (pieces_at d) fulls.
  Proof.
    intros Hd Ha. unfold round_specs. rewrite amount_of_bz. fold (pieces_at d).
    pose proof (pieces_at_chain d ltac:(lia)) as Hc.
    pose proof (chain_bounds _ _ _ Hc) as Hb. rewrite Forall_forall in Hb.
    destruct (collect_Forall2 (worker_scan flip P (total - 1) (Z.to_nat d) data)
                (fun se full => scan_good (Z.to_nat d) (fst se) (Z.to_nat (snd se - fst se)) (fst full) (snd full))
                (pieces_at d)) as (fulls & Hf & HR).
    { intros se Hin. apply Hb in Hin. unfold amount_at, MAX_INT64 in *.
      apply worker_scan_spec; try lia. unfold W64. lia. }
    exists fulls. rewrite Hf. cbn [bind]. split; [reflexivity|exact HR].
  Qed.

  Lemma scans_sound d ps fulls full r : scans_good d ps fulls -> In full fulls -> snd full = Some r ->
    Valid m r /\ length r = Z.to_nat d /\ hitb r = true.
  Proof.
    intros HF Hin Hr. unfold scans_good in HF.
    induction HF as [|se f ps' fulls' Hg HF IH]; [contradiction|].
    destruct Hin as [->|Hin]; [|auto].
    destruct Hg as (G1 & _ & _ & G4). rewrite Hr in G4. destruct G4 as [Hi Hh].
    rewrite Forall_forall in G1. destruct (G1 r Hi). auto.
  Qed.

  Lemma scans_complete d ps fulls : 0 <= d -> chain 0 (amount_at d) ps -> scans_good d ps fulls ->
    Forall (fun full : list cand * option cand => snd full = None) fulls ->
    forall s, Valid m s -> length s = Z.to_nat d -> hitb s = false.
  Proof.
    intros Hd Hc HF Hn s Hv Hl.
    pose proof (rank_bounds m s Hv) as Hrb. rewrite Hl in Hrb.
    replace (m + 1) with total in Hrb by (unfold m; lia). fold (amount_at d) in Hrb.
    destruct (chain_cover _ _ _ (rank m s) Hc Hrb) as (se & Hin & Hse).
    pose proof (chain_bounds _ _ _ Hc) as Hb. rewrite Forall_forall in Hb. specialize (Hb se Hin).
    unfold scans_good in HF. clear Hc.
    induction HF as [|se' f ps' fulls' Hg HF IH]; [contradiction|].
    inversion Hn; subst.
    destruct Hin as [->|Hin]; [|auto].
    destruct Hg as (G1 & G2 & _ & G4). rewrite H1 in G4. destruct G4 as [Hlen Hall].
    assert (Hi : In (rank m s) (map (rank m) (fst f))).
    { rewrite G2, In_seqZ, Hlen. lia. }
    apply in_map_iff in Hi. destruct Hi as (s' & Hrk & Hin').
    rewrite Forall_forall in G1, Hall. destruct (G1 s' Hin') as [Hv' Hl'].
    assert (s' = s) by (apply (rank_inj m); congruence). subst s'. auto.
  Qed.

  (** * 5b. Every ID offered at most once per distance *)

  Lemma worker_ok_prefix anypub (sp : wspec) (run : wrun) :
    worker_ok anypub sp run -> exists rest, fst (snd sp) = fst run ++ rest.
  Proof.
    destruct sp as [failed [full hit]], run as [tr pub]. cbn [worker_ok fst snd].
    destruct failed; [intros [-> _]; exists full; reflexivity|].
    destruct pub; [intros [-> _]; exists []; symmetry; apply app_nil_r|].
    destruct anypub.
    - intros (rest & -> & _). exists rest. reflexivity.
    - intros [-> _]. exists []. symmetry. apply app_nil_r.
  Qed.

  Definition ids_in (se : Z * Z) (l : list Z) : Prop :=
    exists n, l = seqZ (fst se) n /\ Z.of_nat n <= snd se - fst se.

  Lemma chain_ids_nodup : forall ps a b ids, chain a b ps -> Forall2 ids_in ps ids ->
    NoDup (concat ids) /\ Forall (fun x => a <= x < b) (concat ids).
  Proof.
    induction ps as [|[st en] ps IH]; intros a b ids Hc HF; inversion HF; subst; cbn [concat].
    - split; constructor.
    - cbn [chain fst snd] in Hc. destruct Hc as (-> & Hlt & Hc).
      destruct (IH en b l' Hc H3) as [N1 N2].
      destruct H1 as (n & -> & Hn). cbn [fst snd] in *.
      pose proof (chain_le _ _ _ Hc).
      split.
      + rewrite Forall_forall in N2. apply NoDup_app_disj; [apply NoDup_seqZ|exact N1|].
        intros x Hx Hx'. apply In_seqZ in Hx. apply N2 in Hx'. lia.
      + apply Forall_app. split.
        * rewrite Forall_forall. intros x Hx. apply In_seqZ in Hx. lia.
        * eapply Forall_impl; [|exact N2]. cbn. intros; lia.
  Qed.

  Lemma round_ids d anypub : forall ps fulls fails (runs : list (@wrun)),
    Forall (fun se : Z * Z => fst se <= snd se) ps ->
    scans_good d ps fulls -> length fails = length fulls ->
    Forall2 (worker_ok anypub) (combine fails fulls) runs ->
    Forall2 ids_in ps (map (map (rank m)) (map fst runs)).
  Proof.
    induction ps as [|se ps IH]; intros fulls fails runs Hle Hg Hl HF.
    - inversion Hg; subst. destruct fails; cbn in *; inversion HF; subst; constructor.
    - inversion Hg as [|se' full ps' fulls' Hgood Hg' E1 E2]; subst.
      destruct fails as [|f fails]; cbn [length] in Hl; [lia|].
      cbn [combine] in HF.
      inversion HF as [|sp run specs' runs' Hw HF' E1 E2]; subst. cbn [map].
      inversion Hle as [|x l Hse Hle' E1]; subst. constructor.
      + apply worker_ok_prefix in Hw. destruct Hw as (rest & Hfull). cbn [snd fst] in Hfull.
        destruct Hgood as (_ & G2 & G3 & _).
        exists (length (fst run)). rewrite Hfull, map_app, app_length, seqZ_app in G2.
        apply app_eq_len in G2; [|rewrite map_length, seqZ_length; reflexivity].
        split; [apply G2|]. rewrite Hfull, app_length in G3. lia.
      + eapply IH; eauto.
  Qed.

  Definition round_once (round : list (list cand)) : Prop :=
    NoDup (map (rank m) (concat round)).

  Lemma concat_map_map {X Y} (f : X -> Y) (ll : list (list X)) :
    map f (concat ll) = concat (map (map f) ll).
  Proof. induction ll; cbn [concat map]; [reflexivity|]. rewrite map_app, IHll. reflexivity. Qed.

  Lemma dist_once : forall n d tr res, 1 <= d ->
    (forall d', d <= d' < d + Z.of_nat n -> d' <= total -> amount_at d' < MAX_INT64) ->
    dist_rel flip P ifail gomax maxconc data total n d tr res ->
    Forall round_once tr.
  Proof.
    induction n as [|n IH]; intros d tr res Hd Hamt H; cbn [dist_rel] in H.
    - destruct H as [-> _]. constructor.
    - destruct (total <? d) eqn:Etd; [destruct H as [-> _]; constructor|].
      assert (Hdt : 1 <= d <= total) by lia.
      pose proof (Hamt d ltac:(lia) ltac:(lia)) as Ha.
      rewrite amount_of_bz in H. replace (MAX_INT64 <=? amount_at d) with false in H by lia.
      destruct (round_specs_ok d Hdt Ha) as (fulls & Hspecs & Hgood). rewrite Hspecs in H.
      destruct H as (runs & rres & [HF _] & Hrest).
      pose proof (pieces_at_chain d ltac:(lia)) as Hc.
      assert (Hround : round_once (map fst runs)).
      { unfold round_once. rewrite concat_map_map.
        eapply (chain_ids_nodup _ _ _ _ Hc).
        eapply round_ids; eauto.
        - eapply Forall_impl; [|apply (chain_bounds _ _ _ Hc)]. cbn. intros; lia.
        - rewrite map_length, seqZ_length. apply (Forall2_len _ _ _ Hgood). }
      destruct rres as [[r|]|c| |].
      + destruct Hrest as [-> _]. constructor; [assumption|constructor].
      + destruct Hrest as (rest & -> & Hrest). constructor; [assumption|].
        apply (IH (d + 1) rest res); [lia|intros; apply Hamt; lia|exact Hrest].
      + destruct Hrest as [-> _]. constructor; [assumption|constructor].
      + destruct Hrest as [-> _]. constructor; [assumption|constructor].
      + destruct Hrest as [-> _]. constructor; [assumption|constructor].
  Qed.

  Lemma bf_once item_size wmin wmax tr res :
    total = total_bits data item_size -> 0 <= wmin ->
    (forall d, 1 <= d -> wmin <= d <= wmax -> d <= total -> amount_at d < MAX_INT64) ->
    bf_run flip P ifail gomax maxconc data item_size wmin wmax tr res ->
    Forall round_once tr.
  Proof.
    intros Ht Hw Hamt H. unfold bf_run in H. rewrite <- Ht in H.
    destruct (wmax <? wmin) eqn:Ew; [destruct H as [-> _]; constructor|].
    assert (H0 : round_once [[[]]]).
    { unfold round_once. cbn. constructor; [intros []|constructor]. }
    destruct (wmin =? 0) eqn:E0.
    - destruct (ifail 0 0); [destruct H as [-> _]; constructor|].
      destruct (P data).
      + destruct H as [-> _]. constructor; [assumption|constructor].
      + destruct H as (tr' & -> & H). constructor; [assumption|].
        eapply dist_once; [| |exact H]; [lia|]. intros d' Hd' Hdt. apply Hamt; lia.
    - eapply dist_once; [| |exact H]; [lia|]. intros d' Hd' Hdt. apply Hamt; lia.
  Qed.

  (** * 4. All distances *)

  Hypothesis Hnofail : forall d i, ifail d i = false.

  Lemma no_fail_specs d : forall (l : list Z) (fulls : list (list cand * option cand)),
    any_fail (combine (map (ifail d) l) fulls) = false.
  Proof.
    unfold any_fail. induction l; intros [|f fulls]; cbn [map combine existsb fst]; auto.
    rewrite Hnofail, IHl. reflexivity.
  Qed.

  Definition len (s : cand) : Z := Z.of_nat (length s).

  (** what [dist_rel] over distances [d, d+n) can return *)
  Definition dist_post (d n : Z) (res : outcome (option cand)) : Prop :=
    (res = Ok None /\ forall s, Valid m s -> d <= len s < d + n -> hitb s = false) \/
    (exists r, res = Ok (Some r) /\ Valid m r /\ d <= len r < d + n /\ hitb r = true /\
               forall s, Valid m s -> d <= len s < len r -> hitb s = false).

  Lemma dist_spec : forall n d tr res, 1 <= d ->
    (forall d', d <= d' < d + Z.of_nat n -> d' <= total -> amount_at d' < MAX_INT64) ->
    dist_rel flip P ifail gomax maxconc data total n d tr res ->
    dist_post d (Z.of_nat n) res.
  Proof.
    induction n as [|n IH]; intros d tr res Hd Hamt H; cbn [dist_rel] in H.
    - destruct H as [_ ->]. left. split; [reflexivity|]. intros; lia.
    - destruct (total <? d) eqn:Etd.
      + destruct H as [_ ->]. left. split; [reflexivity|].
        intros s Hv Hl. pose proof (Valid_length m s ltac:(unfold m; lia) Hv). unfold len, m in *. lia.
      + assert (Hdt : 1 <= d <= total) by lia.
        pose proof (Hamt d ltac:(lia) ltac:(lia)) as Ha.
        rewrite amount_of_bz in H. replace (MAX_INT64 <=? amount_at d) with false in H by lia.
        destruct (round_specs_ok d Hdt Ha) as (fulls & Hspecs & Hgood). rewrite Hspecs in H.
        destruct H as (runs & rres & Hround & Hrest).
        pose proof (Forall2_len _ _ _ Hgood) as Hlen.
        apply round_rel_cases in Hround; [|apply no_fail_specs].
        destruct Hround as [[-> Hnone]|(r & sp & Hin & Hhit & ->)].
        * (* nothing at this distance: every candidate of distance d misses *)
          destruct Hrest as (rest & _ & Hrest).
          assert (Hmiss : forall s, Valid m s -> length s = Z.to_nat d -> hitb s = false).
          { apply (scans_complete d (pieces_at d) fulls); try lia; auto.
            - apply pieces_at_chain. lia.
            - rewrite Forall_forall in *. intros full Hf.
              destruct (in_combine_snd (map (ifail d) (seqZ 0 (length (pieces_at d)))) fulls full) as (x & Hx);
                [rewrite map_length, seqZ_length; exact Hlen|exact Hf|].
              apply (Hnone (x, full) Hx). }
          apply IH in Hrest; [|lia|intros; apply Hamt; lia].
          destruct Hrest as [[-> Hall]|(r & -> & Hv & Hl & Hh & Hmin)].
          -- left. split; [reflexivity|]. intros s Hv Hl.
             destruct (Z.eq_dec (len s) d) as [E|E].
             ++ apply Hmiss; auto. unfold len in E. lia.
             ++ apply Hall; auto. lia.
          -- right. exists r. repeat split; auto; try lia. intros s Hv' Hl'.
             destruct (Z.eq_dec (len s) d) as [E|E].
             ++ apply Hmiss; auto. unfold len in E. lia.
             ++ apply Hmin; auto. lia.
        * destruct Hrest as [_ ->].
          destruct (scans_sound d _ fulls (snd sp) r Hgood) as (Hv & Hl & Hh).
          { destruct sp as [f full]. eapply in_combine_r; eauto. }
          { exact Hhit. }
          right. exists r. unfold len. repeat split; auto; try lia.
  Qed.

  (** * 5. [run] *)

  Hypothesis Hflip_nil : flip [] data = Ok data.

  (** candidates of the window *)
  Definition in_window (wmin wmax : Z) (s : cand) : Prop :=
    Valid m s /\ wmin <= len s <= wmax.

  Definition bf_post (wmin wmax : Z) (res : outcome (option cand)) : Prop :=
    (res = Ok None /\ forall s, in_window wmin wmax s -> hitb s = false) \/
    (exists r, res = Ok (Some r) /\ in_window wmin wmax r /\ hitb r = true /\
               forall s, in_window wmin wmax s -> hitb s = true -> len r <= len s).

  Lemma hitb_nil : hitb [] = P data.
  Proof. unfold hitb. rewrite Hflip_nil. reflexivity. Qed.

  Lemma bf_spec item_size wmin wmax tr res :
    total = total_bits data item_size -> 0 <= wmin <= wmax ->
    (forall d, 1 <= d -> wmin <= d <= wmax -> d <= total -> amount_at d < MAX_INT64) ->
    bf_run flip P ifail gomax maxconc data item_size wmin wmax tr res ->
    bf_post wmin wmax res.
  Proof.
    intros Ht Hw Hamt H. unfold bf_run in H. rewrite <- Ht in H.
    replace (wmax <? wmin) with false in H by lia.
    assert (Hlen : forall s, Valid m s -> len s <= total).
    { intros s Hv. pose proof (Valid_length m s ltac:(unfold m; lia) Hv). unfold len, m in *. lia. }
    destruct (wmin =? 0) eqn:E0.
    - assert (wmin = 0) by lia. subst wmin. rewrite Hnofail in H.
      destruct (P data) eqn:EP.
      + destruct H as [_ ->]. right. exists []. unfold in_window, len. cbn [length].
        repeat split; try lia. rewrite hitb_nil. exact EP.
      + destruct H as (tr' & _ & H). apply dist_spec in H; [|lia|].
        2:{ intros d' Hd' Hdt. apply Hamt; lia. }
        assert (Hnil : forall s, len s = 0 -> hitb s = false).
        { intros s Hs. destruct s; [rewrite hitb_nil; exact EP|unfold len in Hs; cbn [length] in Hs; lia]. }
        destruct H as [[-> Hall]|(r & -> & Hv & Hl & Hh & Hmin)].
        * left. split; [reflexivity|]. intros s [Hv Hl].
          destruct (Z.eq_dec (len s) 0); [auto|]. apply Hall; auto. specialize (Hlen s Hv). lia.
        * right. exists r. unfold in_window. repeat split; auto; try lia.
          intros s [Hv' Hl'] Hh'. destruct (Z_le_gt_dec (len r) (len s)); [assumption|].
          destruct (Z.eq_dec (len s) 0) as [E|E]; [rewrite (Hnil s E) in Hh'; discriminate|].
          rewrite Hmin in Hh'; [discriminate|assumption|lia].
    - apply dist_spec in H; [|lia|].
      2:{ intros d' Hd' Hdt. apply Hamt; lia. }
      destruct H as [[-> Hall]|(r & -> & Hv & Hl & Hh & Hmin)].
      + left. split; [reflexivity|]. intros s [Hv Hl]. apply Hall; auto. specialize (Hlen s Hv). lia.
      + right. exists r. unfold in_window. repeat split; auto; try lia.
        intros s [Hv' Hl'] Hh'. destruct (Z_le_gt_dec (len r) (len s)); [assumption|].
        rewrite Hmin in Hh'; [discriminate|assumption|lia].
  Qed.

  (** The worker's private copy is the initial data again after every miss:
      every candidate is evaluated on [flip s] of the caller's data. *)
  Lemma try1_restores s : Valid m s ->
    exists v, flip s data = Ok v /\
      (try1 flip P s data = Ok (true, v) /\ P v = true \/
       try1 flip P s data = Ok (false, data) /\ P v = false).
  Proof.
    intro Hs. destruct (try1_spec s Hs) as (v & Hf & Ht). exists v. split; [assumption|].
    unfold hitb in Ht. rewrite Hf in Ht. destruct (P v); auto.
  Qed.
End Generic.

(** * 6. The two item types *)

(** What the theorems need from applyBitFlipsFunc on [data] with [total] bits. *)
Definition flips_ok {A} (flip : list Z -> list A -> outcome (list A)) (data : list A) (total : Z) : Prop :=
  (forall s, Valid (total - 1) s -> exists v, flip s data = Ok v /\ flip s v = Ok data) /\
  flip [] data = Ok data.

Lemma total_bits_range {A} (data : list A) isz : 0 <= total_bits data isz < W64.
Proof. unfold total_bits. rewrite wrap64_mod. apply Z.mod_pos_bound. reflexivity. Qed.

Lemma flips_ok_bools data isz :
  total_bits data isz <= Z.of_nat (length data) -> flips_ok flip_bools data (total_bits data isz).
Proof.
  intro H. split; [|reflexivity]. intros s Hv.
  destruct (Valid_flip_hyps _ s (Z.of_nat (length data)) Hv ltac:(lia)) as [Hnd Hr].
  destruct (flip_bools_spec s data Hnd Hr) as (v & Hf & _).
  exists v. split; [exact Hf|]. eapply flip_bools_invol; eauto.
Qed.

Lemma flips_ok_bytes data isz :
  total_bits data isz <= 8 * Z.of_nat (length data) -> flips_ok flip_bytes data (total_bits data isz).
Proof.
  intro H. split; [|reflexivity]. intros s Hv.
  destruct (Valid_flip_hyps _ s (8 * Z.of_nat (length data)) Hv ltac:(lia)) as [Hnd Hr].
  destruct (flip_bytes_spec s data Hnd Hr) as (v & Hf & _).
  exists v. split; [exact Hf|]. eapply flip_bytes_invol; eauto.
Qed.

(** itemSize 1 for bools, itemSize <= 8 for bytes *)
Lemma total_bits_fit {A} (data : list A) isz c : 0 <= isz <= c -> c <= 8 ->
  Z.of_nat (length data) < I63 / 8 -> total_bits data isz <= c * Z.of_nat (length data).
Proof.
  intros H1 H2 H3. unfold total_bits. rewrite wrap64_mod.
  assert (I63 / 8 = 1152921504606846976) by reflexivity.
  rewrite Z.mod_small; [nia|]. unfold W64. nia.
Qed.

(** the "too many combinations" error is out of reach in the property's domain
    (at most 64 items of at most 8 bits, distances up to 4) *)
Definition no_overflow (total wmin wmax : Z) : Prop :=
  forall d, 1 <= d -> wmin <= d <= wmax -> d <= total -> bz total (Z.to_nat d) < MAX_INT64.

Lemma no_overflow_domain total wmin wmax : total <= 512 -> wmax <= 4 -> no_overflow total wmin wmax.
Proof.
  intros Ht Hw d Hd Hwd Hdt.
  assert (Hle : bz total (Z.to_nat d) <= bz 512 (Z.to_nat d)) by (apply bz_mono; lia).
  assert (Hb : bz 512 (Z.to_nat d) < MAX_INT64).
  { unfold bz. rewrite <- binom_fast_Z by lia.
    assert (Hc : d = 1 \/ d = 2 \/ d = 3 \/ d = 4) by lia.
    destruct Hc as [-> | [-> | [-> | ->]]]; vm_compute; reflexivity. }
  lia.
Qed.

(** * 7. The checker of the correspondence run is sound for the relation *)

Lemma zlist_eqb_eq : forall a b, zlist_eqb a b = true -> a = b.
Proof.
  induction a as [|x a IH]; intros [|y b] H; cbn [zlist_eqb] in H; try discriminate; auto.
  apply andb_true_iff in H. destruct H as [H1 H2]. apply Z.eqb_eq in H1. f_equal; auto.
Qed.

Lemma res_eqb_eq a b : res_eqb a b = true -> a = b.
Proof.
  destruct a as [[x|]|c| |], b as [[y|]|c'| |]; cbn [res_eqb]; intro H; try discriminate; auto.
  - apply zlist_eqb_eq in H. congruence.
  - apply Z.eqb_eq in H. congruence.
Qed.

Lemma nil_b_eq {X} (l : list X) : nil_b l = true -> l = [].
Proof. destruct l; [reflexivity|discriminate]. Qed.

Section Admits.
  Context {A : Type}.
  Variable flip : list Z -> list A -> outcome (list A).
  Variable eqbA : A -> A -> bool.
  Variable P : list A -> bool.
  Variable ifail : Z -> Z -> bool.
  Variables (gomax maxconc : Z).

  Lemma scan_dig_spec : forall fuel m s dc lim n h,
    match scan_loop flip P fuel m s dc with
    | Ok (l, hit) => exists h', scan_dig flip P fuel m s dc lim n h = Ok (n + Z.of_nat (length l), h', hit)
    | Err c => scan_dig flip P fuel m s dc lim n h = Err c
    | Panic => scan_dig flip P fuel m s dc lim n h = Panic
    | OutOfFuel => scan_dig flip P fuel m s dc lim n h = OutOfFuel
    end.
  Proof.
    induction fuel as [|fuel IH]; intros m s dc lim n h; cbn [scan_loop scan_dig].
    - exists h. cbn [length]. do 3 f_equal. lia.
    - destruct (try1 flip P s dc) as [[hit dc']|c| |]; cbn [bind]; try reflexivity.
      destruct hit.
      + eexists. cbn [length]. reflexivity.
      + destruct fuel as [|fuel'].
        * eexists. cbn [length]. reflexivity.
        * specialize (IH m (snd (next m s)) dc' lim (n + 1) (if n <? lim then mixc h s else h)).
          destruct (scan_loop flip P (S fuel') m (snd (next m s)) dc') as [[l hit]|c| |]; cbn [bind]; auto.
          destruct IH as (h' & IH). exists h'. rewrite IH. cbn [length]. do 3 f_equal. lia.
  Qed.

  Lemma scan_loop_hit_nonempty : forall fuel m s dc l r,
    scan_loop flip P fuel m s dc = Ok (l, Some r) -> l <> [].
  Proof.
    intros [|fuel] m s dc l r H; cbn [scan_loop] in H; [discriminate|].
    destruct (try1 flip P s dc) as [[hit dc']|c| |]; cbn [bind] in H; try discriminate.
    destruct hit; [inversion H; discriminate|].
    destruct fuel; [inversion H|].
    destruct (scan_loop flip P (S fuel) m (snd (next m s)) dc') as [[l' h']|c| |]; cbn [bind] in H; try discriminate.
    inversion H. discriminate.
  Qed.

  Lemma worker_dig_spec m k data se lim L h hit :
    worker_dig flip P m k data se lim = Ok (L, h, hit) ->
    exists l, worker_scan flip P m k data se = Ok (l, hit) /\ L = Z.of_nat (length l) /\
              (hit <> None -> l <> []).
  Proof.
    unfold worker_dig, worker_scan. destruct (seek m k (fst se)) as [s0|c| |]; cbn [bind]; try discriminate.
    intro H. pose proof (scan_dig_spec (tries (fst se) (snd se)) m s0 data lim 0 0) as S.
    destruct (scan_loop flip P (tries (fst se) (snd se)) m s0 data) as [[l hit']|c| |] eqn:E;
      try (rewrite S in H; discriminate).
    destruct S as (h' & S). rewrite S in H. inversion H; subst.
    exists l. repeat split; auto.
    intro Hh. destruct hit as [r|]; [|congruence]. eapply scan_loop_hit_nonempty; eauto.
  Qed.

  Definition tr_of (o : option (wobs A)) (full : list cand) : list cand :=
    match o with None => [] | Some w => firstn (Z.to_nat (w_n w)) full end.
  Definition pub_of (o : option (wobs A)) : bool :=
    match o with None => false | Some w => w_hit w end.

  Lemma worker_check_sound m k data se failed anypub o ph :
    worker_check flip eqbA P m k data se failed anypub o = Some ph ->
    exists full, worker_scan flip P m k data se = Ok full /\
      worker_ok anypub (failed, full) (tr_of o (fst full), pub_of o) /\
      ph = (if pub_of o then snd full else None).
  Proof.
    unfold worker_check. destruct o as [w|]; cbn [tr_of pub_of].
    - destruct failed; [discriminate|].
      destruct (w_n w <? 1) eqn:En; [discriminate|].
      destruct (worker_dig flip P m k data se (w_n w)) as [[[L h] hit]|c| |] eqn:Ed; try discriminate.
      destruct (worker_dig_spec _ _ _ _ _ _ _ _ Ed) as (l & Hs & HL & Hne).
      destruct (negb _); [discriminate|].
      assert (Hex : forall pub phv,
                worker_ok anypub (false, (l, hit)) (firstn (Z.to_nat (w_n w)) l, pub) ->
                phv = (if pub then hit else None) ->
                exists full, worker_scan flip P m k data se = Ok full /\
                  worker_ok anypub (false, full) (firstn (Z.to_nat (w_n w)) (fst full), pub) /\
                  phv = (if pub then snd full else None)).
      { intros pub phv H1 H2. exists (l, hit). cbn [fst snd]. auto. }
      destruct (w_hit w).
      + destruct ((w_n w =? L) && is_some hit) eqn:E; [|discriminate]. intro H; inversion H; subst ph.
        apply andb_true_iff in E. destruct E as [E1 E2].
        apply Hex; [|reflexivity]. cbn [worker_ok]. split.
        * replace (Z.to_nat (w_n w)) with (length l) by lia. apply firstn_all.
        * destruct hit; [discriminate|discriminate].
      + destruct anypub.
        * destruct ((w_n w <=? L) && _) eqn:E; [|discriminate]. intro H; inversion H; subst ph.
          apply andb_true_iff in E. destruct E as [E1 E2].
          apply Hex; [|reflexivity]. cbn [worker_ok]. exists (skipn (Z.to_nat (w_n w)) l).
          split; [symmetry; apply firstn_skipn|].
          intro Hh. destruct hit as [r|]; [|congruence]. cbn [is_some] in E2.
          intro Hs0. apply (f_equal (@length _)) in Hs0. rewrite skipn_length in Hs0. cbn [length] in Hs0. lia.
        * destruct ((w_n w =? L) && negb (is_some hit)) eqn:E; [|discriminate]. intro H; inversion H; subst ph.
          apply andb_true_iff in E. destruct E as [E1 E2].
          apply Hex; [|reflexivity]. cbn [worker_ok]. split.
          -- replace (Z.to_nat (w_n w)) with (length l) by lia. apply firstn_all.
          -- destruct hit; [discriminate|reflexivity].
    - destruct (failed || anypub) eqn:Efa; [|discriminate].
      destruct (worker_dig flip P m k data se 0) as [[[L h] hit]|c| |] eqn:Ed; try discriminate.
      destruct (worker_dig_spec _ _ _ _ _ _ _ _ Ed) as (l & Hs & HL & Hne).
      intro H; inversion H; subst ph.
      exists (l, hit). split; [exact Hs|]. split; [|reflexivity]. cbn [fst snd worker_ok].
      destruct failed; [auto|]. cbn [orb] in Efa. subst anypub.
      exists l. split; [reflexivity|exact Hne].
  Qed.

  Lemma round_walk_sound m k data anypub : forall ps fails os hits,
    round_walk flip eqbA P m k data ps fails anypub os = Some hits ->
    exists fulls runs,
      collect (map (worker_scan flip P m k data) ps) = Ok fulls /\
      length fails = length ps /\ length fulls = length ps /\
      Forall2 (worker_ok anypub) (combine fails fulls) runs /\
      any_pub runs = existsb w_hit os /\
      (forall r, In r hits ->
         exists sp run, In (sp, run) (combine (combine fails fulls) runs) /\
                        snd run = true /\ snd (snd sp) = Some r).
  Proof.
    induction ps as [|se ps IH]; intros fails os hits H; cbn [round_walk] in H.
    - destruct fails; [|discriminate]. destruct os; [|discriminate]. inversion H; subst.
      exists [], []. cbn. repeat split; auto. intros r [].
    - destruct fails as [|f fails]; [discriminate|].
      destruct (seek m k (fst se)) as [s0|c| |] eqn:Es; try discriminate.
      set (sel := match os with
                  | w :: t => if zlist_eqb (w_first w) s0 then (Some w, t) else (None, os)
                  | [] => (None, [])
                  end) in H.
      destruct sel as [o os'] eqn:Esel.
      destruct (worker_check flip eqbA P m k data se f anypub o) as [ph|] eqn:Ew; [|discriminate].
      destruct (round_walk flip eqbA P m k data ps fails anypub os') as [hits'|] eqn:Er; [|discriminate].
      inversion H; subst hits. clear H.
      destruct (worker_check_sound _ _ _ _ _ _ _ _ Ew) as (full & Hfull & Hok & Hph).
      destruct (IH _ _ _ Er) as (fulls & runs & Hc & Hl1 & Hl2 & HF & Hap & Hhits).
      exists (full :: fulls), ((tr_of o (fst full), pub_of o) :: runs).
      cbn [map collect]. rewrite Hfull, Hc. cbn [bind length combine].
      repeat split; try lia.
      + constructor; assumption.
      + unfold any_pub in *. cbn [existsb snd]. rewrite Hap.
        subst sel. destruct os as [|w t].
        * inversion Esel; subst. reflexivity.
        * destruct (zlist_eqb (w_first w) s0); inversion Esel; subst; cbn [pub_of existsb]; reflexivity.
      + intros r Hr.
        assert (Hcase : (pub_of o = true /\ snd full = Some r) \/ In r hits').
        { rewrite Hph in Hr. destruct (pub_of o).
          - destruct (snd full) as [r'|]; [|auto]. destruct Hr as [<-|Hr]; auto.
          - auto. }
        destruct Hcase as [[Hp Hs]|Hin].
        * exists (f, full), (tr_of o (fst full), pub_of o). cbn [In fst snd]. auto.
        * destruct (Hhits r Hin) as (sp & run & Hi & Hrest). exists sp, run. cbn [In]. auto.
  Qed.

  Lemma any_fail_combine : forall (fails : list bool) (fulls : list (list cand * option cand)),
    length fails = length fulls ->
    any_fail (combine fails fulls) = existsb (fun b : bool => b) fails.
  Proof.
    unfold any_fail. induction fails as [|f fails IH]; intros [|x fulls] Hl; cbn in *; try lia; auto.
    rewrite IH by lia. reflexivity.
  Qed.

  Lemma dist_check_sound data total : forall n d robs res ninit,
    dist_check flip eqbA P ifail gomax maxconc data total n d robs res ninit = true ->
    exists tr, dist_rel flip P ifail gomax maxconc data total n d tr res.
  Proof.
    induction n as [|n IH]; intros d robs res ninit H; cbn [dist_check dist_rel] in *.
    - apply andb_true_iff in H. destruct H as [H _]. apply andb_true_iff in H. destruct H as [_ H].
      apply res_eqb_eq in H. exists []. auto.
    - destruct (total <? d).
      { apply andb_true_iff in H. destruct H as [H _]. apply andb_true_iff in H. destruct H as [_ H].
        apply res_eqb_eq in H. exists []. auto. }
      destruct (MAX_INT64 <=? amount_of total (Z.to_nat d)).
      { apply andb_true_iff in H. destruct H as [H _]. apply andb_true_iff in H. destruct H as [_ H].
        apply res_eqb_eq in H. exists []. auto. }
      destruct robs as [|os rest]; [discriminate|].
      set (amount := amount_of total (Z.to_nat d)) in *.
      set (ps := pieces amount (cfactor gomax maxconc amount)) in *.
      set (fails := map (ifail d) (seqZ 0 (length ps))) in *.
      destruct (round_walk flip eqbA P (total - 1) (Z.to_nat d) data ps fails (existsb w_hit os) os)
        as [hits|] eqn:Er; [|discriminate].
      destruct (round_walk_sound _ _ _ _ _ _ _ _ Er) as (fulls & runs & Hc & Hl1 & Hl2 & HF & Hap & Hhits).
      unfold round_specs. fold amount. fold ps. rewrite Hc. cbn [bind]. fold fails.
      rewrite <- Hap in HF.
      destruct (existsb (fun b : bool => b) fails) eqn:Ef.
      + apply andb_true_iff in H. destruct H as [H _]. apply andb_true_iff in H. destruct H as [_ H].
        apply res_eqb_eq in H. subst res.
        exists [map fst runs], runs, (Err 4). split; [|auto].
        split; [exact HF|]. rewrite any_fail_combine by lia. rewrite Ef. reflexivity.
      + destruct (existsb w_hit os) eqn:Ep.
        * apply andb_true_iff in H. destruct H as [_ H].
          destruct res as [[r|]|c| |]; try discriminate.
          apply existsb_exists in H. destruct H as (r' & Hin & Hr). apply zlist_eqb_eq in Hr. subst r'.
          exists [map fst runs], runs, (Ok (Some r)). split; [|auto].
          split; [exact HF|]. rewrite any_fail_combine by lia. rewrite Ef, Hap.
          destruct (Hhits r Hin) as (sp & run & Hi & Hp & Hs).
          exists sp, run, r. auto.
        * destruct (IH _ _ _ _ H) as (tr' & Htr).
          exists (map fst runs :: tr'), runs, (Ok None). split.
          -- split; [exact HF|]. rewrite any_fail_combine by lia. rewrite Ef, Hap. reflexivity.
          -- exists tr'. auto.
  Qed.

  Theorem admits_sound data item_size wmin wmax robs res ninit :
    admits flip eqbA P ifail gomax maxconc data item_size wmin wmax robs res ninit = true ->
    bf_outcome flip P ifail gomax maxconc data item_size wmin wmax res.
  Proof.
    unfold admits, bf_outcome, bf_run. intro H.
    destruct (wmax <? wmin).
    { apply andb_true_iff in H. destruct H as [H _]. apply andb_true_iff in H. destruct H as [_ H].
      apply res_eqb_eq in H. exists []. auto. }
    destruct (wmin =? 0).
    - destruct (ifail 0 0).
      { apply andb_true_iff in H. destruct H as [H _]. apply andb_true_iff in H. destruct H as [_ H].
        apply res_eqb_eq in H. exists []. auto. }
      destruct robs as [|[|w [|w' ws]] rest]; try discriminate.
      apply andb_true_iff in H. destruct H as [_ H].
      destruct (P data).
      + apply andb_true_iff in H. destruct H as [H _]. apply andb_true_iff in H. destruct H as [_ H].
        apply res_eqb_eq in H. exists [[[[]]]]. auto.
      + destruct (dist_check_sound _ _ _ _ _ _ _ H) as (tr & Htr). exists ([[[]]] :: tr), tr. auto.
    - destruct (dist_check_sound _ _ _ _ _ _ _ H) as (tr & Htr). exists tr. exact Htr.
  Qed.
End Admits.

(** * 8. The property, clause by clause *)

Section Property.
  Context {A : Type}.
  Variable flip : list Z -> list A -> outcome (list A).
  Variable P : list A -> bool.

  (** flipping the positions [s] on [data] gives a value accepted by checkFunc *)
  Definition satisfies (data : list A) (s : cand) : Prop :=
    exists v, flip s data = Ok v /\ P v = true.

  Lemma hitb_iff data s : hitb flip P data s = true <-> satisfies data s.
  Proof.
    unfold hitb, satisfies. split.
    - destruct (flip s data) as [v| | |]; try discriminate. eauto.
    - intros (v & -> & H). exact H.
  Qed.

  (** a candidate of the window: strictly increasing positions below [total], [wmin..wmax] of them *)
  Definition candidate (total wmin wmax : Z) (s : cand) : Prop :=
    Valid (total - 1) s /\ wmin <= Z.of_nat (length s) <= wmax.

  (** Standing assumptions: applyBitFlipsFunc fits the data (see [flips_ok_bools]
      / [flips_ok_bytes]); GOMAXPROCS >= 1; initFunc does not fail; a proper
      window; the MaxInt64 guard is out of reach (see [no_overflow_domain]). *)
  Definition std (data : list A) (isz wmin wmax gomax : Z) (ifail : Z -> Z -> bool) : Prop :=
    flips_ok flip data (total_bits data isz) /\ total_bits data isz < I63 /\
    1 <= gomax /\ (forall d i, ifail d i = false) /\ 0 <= wmin <= wmax /\
    no_overflow (total_bits data isz) wmin wmax.

  Lemma std_post data isz wmin wmax gomax maxconc ifail res :
    std data isz wmin wmax gomax ifail ->
    bf_outcome flip P ifail gomax maxconc data isz wmin wmax res ->
    bf_post flip P data (total_bits data isz) wmin wmax res.
  Proof.
    intros ([Hf Hn] & Ht & Hg & Hnf & Hw & Hov) (tr & H).
    pose proof (total_bits_range data isz).
    eapply (bf_spec flip P data (total_bits data isz) Hf ifail gomax maxconc); eauto. lia.
  Qed.

  Lemma in_window_candidate total wmin wmax s :
    in_window total wmin wmax s <-> candidate total wmin wmax s.
  Proof. unfold in_window, candidate, len. tauto. Qed.

  Theorem sound data isz wmin wmax gomax maxconc ifail r :
    std data isz wmin wmax gomax ifail ->
    bf_outcome flip P ifail gomax maxconc data isz wmin wmax (Ok (Some r)) ->
    candidate (total_bits data isz) wmin wmax r /\ satisfies data r.
  Proof.
    intros Hs Ho. destruct (std_post _ _ _ _ _ _ _ _ Hs Ho) as [[E _]|(r' & E & Hw & Hh & _)].
    - discriminate.
    - inversion E; subst r'. split; [apply in_window_candidate, Hw|apply hitb_iff, Hh].
  Qed.

  Theorem complete data isz wmin wmax gomax maxconc ifail res :
    std data isz wmin wmax gomax ifail ->
    (exists s, candidate (total_bits data isz) wmin wmax s /\ satisfies data s) ->
    bf_outcome flip P ifail gomax maxconc data isz wmin wmax res ->
    exists r, res = Ok (Some r) /\ candidate (total_bits data isz) wmin wmax r /\ satisfies data r.
  Proof.
    intros Hs (s & Hc & Hsat) Ho.
    destruct (std_post _ _ _ _ _ _ _ _ Hs Ho) as [[_ Hall]|(r & -> & Hw & Hh & _)].
    - apply in_window_candidate in Hc. apply Hall in Hc. apply hitb_iff in Hsat. congruence.
    - exists r. split; [reflexivity|]. split; [apply in_window_candidate, Hw|apply hitb_iff, Hh].
  Qed.

  Theorem minimal data isz wmin wmax gomax maxconc ifail r :
    std data isz wmin wmax gomax ifail ->
    bf_outcome flip P ifail gomax maxconc data isz wmin wmax (Ok (Some r)) ->
    forall s, candidate (total_bits data isz) wmin wmax s -> satisfies data s ->
              (length r <= length s)%nat.
  Proof.
    intros Hs Ho s Hc Hsat.
    destruct (std_post _ _ _ _ _ _ _ _ Hs Ho) as [[E _]|(r' & E & _ & _ & Hmin)]; [discriminate|].
    inversion E; subst r'. apply in_window_candidate in Hc. apply hitb_iff in Hsat.
    specialize (Hmin s Hc Hsat). unfold len in Hmin. lia.
  Qed.

  Theorem none data isz wmin wmax gomax maxconc ifail res :
    std data isz wmin wmax gomax ifail ->
    (forall s, candidate (total_bits data isz) wmin wmax s -> ~ satisfies data s) ->
    bf_outcome flip P ifail gomax maxconc data isz wmin wmax res ->
    res = Ok None.
  Proof.
    intros Hs Hno Ho.
    destruct (std_post _ _ _ _ _ _ _ _ Hs Ho) as [[E _]|(r & _ & Hw & Hh & _)]; [exact E|].
    exfalso. apply (Hno r); [apply in_window_candidate, Hw|apply hitb_iff, Hh].
  Qed.

  (** no error and no panic, whatever the schedule *)
  Theorem no_error data isz wmin wmax gomax maxconc ifail res :
    std data isz wmin wmax gomax ifail ->
    bf_outcome flip P ifail gomax maxconc data isz wmin wmax res ->
    exists o, res = Ok o.
  Proof.
    intros Hs Ho. destruct (std_post _ _ _ _ _ _ _ _ Hs Ho) as [[E _]|(r & E & _)]; eauto.
  Qed.

  Theorem once data isz wmin wmax gomax maxconc ifail tr res :
    flips_ok flip data (total_bits data isz) -> total_bits data isz < I63 -> 1 <= gomax ->
    0 <= wmin -> no_overflow (total_bits data isz) wmin wmax ->
    bf_run flip P ifail gomax maxconc data isz wmin wmax tr res ->
    Forall (fun round => NoDup (map (rank (total_bits data isz - 1)) (concat round)) /\ NoDup (concat round)) tr.
  Proof.
    intros [Hf _] Ht Hg Hw Hov H. pose proof (total_bits_range data isz).
    pose proof (bf_once flip P data (total_bits data isz) Hf ifail gomax maxconc Hg ltac:(lia)
                  isz wmin wmax tr res eq_refl Hw Hov H) as Ho.
    eapply Forall_impl; [|exact Ho]. intros round Hr. split; [exact Hr|].
    eapply NoDup_map_inv_in. exact Hr.
  Qed.

  Theorem conc_independent data isz wmin wmax ifail gomax1 maxconc1 gomax2 maxconc2 res1 res2 :
    std data isz wmin wmax gomax1 ifail -> 1 <= gomax2 ->
    bf_outcome flip P ifail gomax1 maxconc1 data isz wmin wmax res1 ->
    bf_outcome flip P ifail gomax2 maxconc2 data isz wmin wmax res2 ->
    (res1 = Ok None /\ res2 = Ok None) \/
    (exists r1 r2, res1 = Ok (Some r1) /\ res2 = Ok (Some r2) /\ length r1 = length r2).
  Proof.
    intros Hs Hg2 H1 H2.
    assert (Hs2 : std data isz wmin wmax gomax2 ifail).
    { destruct Hs as (a & b & c & d & e & f). unfold std. tauto. }
    destruct (std_post _ _ _ _ _ _ _ _ Hs H1) as [[E1 Hall1]|(r1 & E1 & Hw1 & Hh1 & Hmin1)];
    destruct (std_post _ _ _ _ _ _ _ _ Hs2 H2) as [[E2 Hall2]|(r2 & E2 & Hw2 & Hh2 & Hmin2)].
    - auto.
    - rewrite (Hall1 r2 Hw2) in Hh2. discriminate.
    - rewrite (Hall2 r1 Hw1) in Hh1. discriminate.
    - right. exists r1, r2. repeat split; auto.
      pose proof (Hmin1 r2 Hw2 Hh2). pose proof (Hmin2 r1 Hw1 Hh1). unfold len in *. lia.
  Qed.

  Theorem input_unchanged data total s :
    flips_ok flip data total -> Valid (total - 1) s ->
    exists v, flip s data = Ok v /\
      (try1 flip P s data = Ok (true, v) /\ P v = true \/
       try1 flip P s data = Ok (false, data) /\ P v = false).
  Proof. intros [Hf _] Hv. eapply try1_restores; eauto. Qed.
End Property.

Theorem partition_exact amount cf : 1 <= cf <= amount ->
  let ps := pieces amount cf in
  length ps = Z.to_nat cf /\
  chain 0 amount ps /\
  Forall (fun se => 0 <= fst se /\ fst se < snd se /\ snd se <= amount) ps /\
  ForallOrdPairs (fun x y : Z * Z => snd x <= fst y) ps /\
  (forall id, 0 <= id < amount ->
     exists se, In se ps /\ fst se <= id < snd se /\
                forall se', In se' ps -> fst se' <= id < snd se' -> se' = se).
Proof.
  intros H ps. pose proof (pieces_chain amount cf H) as Hc. fold ps in Hc.
  split; [apply pieces_length|]. split; [exact Hc|].
  split; [apply (chain_bounds _ _ _ Hc)|]. split; [apply (chain_ordered _ _ _ Hc)|].
  intros id Hid. destruct (chain_cover _ _ _ id Hc Hid) as (se & Hin & Hse).
  exists se. repeat split; try tauto. intros se' Hin' Hse'. eapply chain_unique; eauto.
Qed.

(** the slices run() builds are always of that kind *)
Theorem cfactor_ok gomax maxconc amount : 1 <= gomax -> 1 <= amount ->
  1 <= cfactor gomax maxconc amount <= amount /\
  cfactor gomax maxconc amount <= gomax /\
  (0 < maxconc -> cfactor gomax maxconc amount <= maxconc).
Proof.
  intros Hg Ha. pose proof (cfactor_bounds gomax maxconc amount Hg ltac:(lia)).
  split; [lia|]. unfold cfactor, MIN_ITER.
  destruct (amount / 10000 <? gomax) eqn:E1; destruct (amount / 10000 <? 1) eqn:E2;
    destruct ((0 <? maxconc) && (maxconc <? _)) eqn:E3; lia.
Qed.

(** * 9. The relation is never empty (so none of the theorems above is vacuous) *)

Section Exists.
  Context {A : Type}.
  Variable flip : list Z -> list A -> outcome (list A).
  Variable P : list A -> bool.
  Variable ifail : Z -> Z -> bool.
  Variables (gomax maxconc : Z).

  (** the schedule in which nobody is interrupted *)
  Definition run_all (sp : @wspec) : @wrun :=
    if fst sp then ([], false) else (fst (snd sp), is_some (snd (snd sp))).

  Lemma in_combine_map {X Y} (g : X -> Y) : forall l x, In x l -> In (x, g x) (combine l (map g l)).
  Proof.
    induction l; intros x H; cbn in *; [contradiction|].
    destruct H as [->|H]; auto.
  Qed.

  Lemma round_exists (specs : list (@wspec)) : exists runs res, round_rel specs runs res.
  Proof.
    set (runs := map run_all specs).
    assert (HF : forall b, Forall2 (worker_ok b) specs runs).
    { intro b. subst runs. induction specs as [|sp t IH]; cbn [map]; constructor; auto.
      destruct sp as [failed [full hit]]. unfold run_all. cbn [fst snd].
      destruct failed; cbn [worker_ok]; [auto|].
      destruct hit as [r|]; cbn [is_some].
      - split; [reflexivity|discriminate].
      - destruct b; [|auto]. exists []. split; [symmetry; apply app_nil_r|congruence]. }
    exists runs. unfold round_rel.
    destruct (any_fail specs) eqn:Ef; [exists (Err 4); auto|].
    destruct (any_pub runs) eqn:Ep; [|exists (Ok None); auto].
    unfold any_pub in Ep. apply existsb_exists in Ep. destruct Ep as (run & Hin & Hp).
    subst runs. apply in_map_iff in Hin. destruct Hin as (sp & <- & Hsp).
    unfold run_all in Hp. destruct sp as [failed [full hit]]. cbn [fst snd] in Hp.
    destruct failed; [discriminate|]. destruct hit as [r|]; [|discriminate].
    exists (Ok (Some r)). split; [apply HF|].
    exists (false, (full, Some r)), (run_all (false, (full, Some r))), r.
    split; [apply in_combine_map; exact Hsp|]. auto.
  Qed.

  Lemma dist_exists data total : forall n d, exists tr res,
    dist_rel flip P ifail gomax maxconc data total n d tr res.
  Proof.
    induction n as [|n IH]; intro d; cbn [dist_rel].
    - eauto.
    - destruct (total <? d); [eauto|].
      destruct (MAX_INT64 <=? amount_of total (Z.to_nat d)); [eauto|].
      destruct (round_specs flip P ifail gomax maxconc data total d) as [specs|c| |]; eauto.
      destruct (round_exists specs) as (runs & rres & Hr).
      destruct rres as [[r|]|c| |]; try (exists [map fst runs]; eexists; exists runs; eexists; split; [exact Hr|]; cbn; auto; fail).
      destruct (IH (d + 1)) as (tr & res & Hd).
      exists (map fst runs :: tr), res, runs, (Ok None). split; [exact Hr|]. eauto.
  Qed.

  Theorem outcome_exists data isz wmin wmax :
    exists res, bf_outcome flip P ifail gomax maxconc data isz wmin wmax res.
  Proof.
    unfold bf_outcome, bf_run.
    destruct (wmax <? wmin); [eauto|].
    destruct (wmin =? 0).
    - destruct (ifail 0 0); [eauto|]. destruct (P data); [eauto|].
      destruct (dist_exists data (total_bits data isz)
                  (Z.to_nat (Z.min wmax (total_bits data isz) - 1 + 1)) 1) as (tr & res & H).
      exists res, ([[[]]] :: tr), tr. auto.
    - destruct (dist_exists data (total_bits data isz)
                  (Z.to_nat (Z.min wmax (total_bits data isz) - wmin + 1)) wmin) as (tr & res & H).
      eauto.
  Qed.
End Exists.
