(** Proofs for C04, slice level — the byte slices handed out by [Fields()] are fresh.

    - [alloc_values_eq], [read_fresh]: [CalculateRegisterFields] appends one new array per
      field and the fields read right after the call hold the little-endian bytes of the
      field values, whatever the heap held before;
    - [fields_any_state]: hence a [Fields()] call returns the bit slices of ITS raw value in
      every state (after any history of calls and writes);
    - [refine_step], [session_refines]: the heap semantics of a whole session (calls interleaved
      with writes into returned values) equals the semantics over independent values, and the
      addresses handed out stay pairwise distinct: a write through one returned value is
      visible through no other returned value and in no later result;
    - [write_only_target]: the frame property spelled out;
    - [le_value_le_bytes]: [FieldValueToNumber(NumberToFieldValue(v)) = v mod 2^64];
    - [ex_shared_values_alias]: with a constructor that hands out shared arrays for 0 and 1
      the same session reads a wrong value: the theorems are not vacuous. *)
From Coq Require Import NArith Arith String List Lia Bool ZifyN ZifyNat ZifyBool.
From CSS Require Import Lib.SymBits Lib.RegTypes Lib.RegOblig Model.Registers Model.RegisterHeap.
From CSS Require Import Proofs.SymBits Proofs.Registers.
Import ListNotations.
Open Scope N_scope.

(** * 1. Lists *)

Lemma set_nth_length {A} (x : A) : forall l i, length (set_nth i x l) = length l.
Proof. induction l as [|a t IH]; intros [|i]; cbn; try reflexivity. now rewrite IH. Qed.

Lemma nth_set_nth_eq {A} (x d : A) : forall l i, (i < length l)%nat -> nth i (set_nth i x l) d = x.
Proof.
  induction l as [|a t IH]; intros i Hi; cbn in Hi; [lia|].
  destruct i as [|i]; cbn; [reflexivity|]. apply IH. lia.
Qed.

Lemma nth_set_nth_neq {A} (x d : A) : forall l i j, i <> j -> nth j (set_nth i x l) d = nth j l d.
Proof.
  induction l as [|a t IH]; intros i j Hij; [destruct i; reflexivity|].
  destruct i as [|i], j as [|j]; cbn; try reflexivity; try congruence.
  apply IH. congruence.
Qed.

Lemma NoDup_app_intro {A} (l1 l2 : list A) :
  NoDup l1 -> NoDup l2 -> (forall x, In x l1 -> ~ In x l2) -> NoDup (l1 ++ l2).
Proof.
  induction l1 as [|a t IH]; intros H1 H2 Hd; cbn; [exact H2|].
  inversion H1 as [|? ? Hna Ht]; subst. constructor.
  - intro Hin. apply in_app_or in Hin. destruct Hin as [Hin|Hin]; [exact (Hna Hin)|].
    exact (Hd a (or_introl eq_refl) Hin).
  - apply IH; [exact Ht|exact H2|]. intros x Hx. apply Hd. right. exact Hx.
Qed.

Lemma map_nth_seq_app {A} (d : A) : forall l h,
  map (fun a => nth a (h ++ l) d) (seq (length h) (length l)) = l.
Proof.
  induction l as [|x t IH]; intro h; [reflexivity|].
  cbn [length seq map]. f_equal.
  - rewrite app_nth2 by lia. now rewrite Nat.sub_diag.
  - specialize (IH (h ++ [x])). rewrite app_length in IH. cbn [length] in IH.
    rewrite <- app_assoc in IH. cbn [app] in IH.
    replace (length h + 1)%nat with (S (length h)) in IH by lia. exact IH.
Qed.

Lemma map_nth_old {A} (d : A) (h tl : list A) (l : list nat) :
  Forall (fun a => (a < length h)%nat) l ->
  map (fun a => nth a (h ++ tl) d) l = map (fun a => nth a h d) l.
Proof.
  intro Hf. apply map_ext_in. intros a Ha.
  rewrite Forall_forall in Hf. apply app_nth1. exact (Hf a Ha).
Qed.

(** writing at the address of the [g]-th handed-out value changes the [g]-th reading only *)
Lemma map_nth_set_nth {A} (d x : A) (h : list A) : forall (l : list nat) g a,
  NoDup l -> nth_error l g = Some a -> (a < length h)%nat ->
  map (fun a' => nth a' (set_nth a x h) d) l = set_nth g x (map (fun a' => nth a' h d) l).
Proof.
  induction l as [|a0 t IH]; intros g a Hnd Hg Ha; [destruct g; discriminate Hg|].
  inversion Hnd as [|? ? Hna Ht]; subst.
  destruct g as [|g]; cbn [nth_error] in Hg.
  - injection Hg as ->. cbn [map set_nth]. f_equal.
    + apply nth_set_nth_eq. exact Ha.
    + apply map_ext_in. intros a' Hin. apply nth_set_nth_neq. intro He. subst a'. exact (Hna Hin).
  - cbn [map set_nth]. f_equal.
    + apply nth_set_nth_neq. intro He. subst a0. apply Hna. eapply nth_error_In. exact Hg.
    + apply IH; assumption.
Qed.

(** * 2. One [Fields()] call *)

Fixpoint addr_from (base : nat) (fs : list field) : list (string * N * N * nat) :=
  match fs with
  | [] => []
  | (n, o, s, v) :: t => (n, o, s, base) :: addr_from (S base) t
  end.
Definition value_bytes (fs : list field) : list (list N) := map (fun f => le_bytes 8 (snd f)) fs.

Lemma alloc_values_eq : forall fs h,
  alloc_values fs h = (addr_from (length h) fs, h ++ value_bytes fs).
Proof.
  unfold alloc_values.
  induction fs as [|[[[n o] s] v] t IH]; intro h; cbn [alloc_values_with addr_from value_bytes map].
  - now rewrite app_nil_r.
  - unfold number_to_field_value. rewrite IH. rewrite app_length. cbn [length].
    replace (length h + 1)%nat with (S (length h)) by lia.
    rewrite <- app_assoc. reflexivity.
Qed.

Lemma addr_from_addrs : forall fs base, map (fun f => snd f) (addr_from base fs) = seq base (length fs).
Proof.
  induction fs as [|[[[n o] s] v] t IH]; intro base; cbn [addr_from map length seq]; [reflexivity|].
  now rewrite IH.
Qed.

Lemma read_fresh : forall fs h tl,
  map (read_at (h ++ value_bytes fs ++ tl)) (addr_from (length h) fs) = number_from (length h) fs.
Proof.
  induction fs as [|[[[n o] s] v] t IH]; intros h tl; [reflexivity|].
  cbn [addr_from value_bytes map number_from read_at app snd]. f_equal.
  - rewrite app_nth2 by lia. now rewrite Nat.sub_diag.
  - specialize (IH (h ++ [le_bytes 8 v]) tl). rewrite app_length in IH. cbn [length] in IH.
    replace (length h + 1)%nat with (S (length h)) in IH by lia.
    rewrite <- app_assoc in IH. exact IH.
Qed.

Lemma value_bytes_length fs : length (value_bytes fs) = length fs.
Proof. unfold value_bytes. apply map_length. Qed.

(** In EVERY state — whatever was decoded and whatever was written into returned values
    before — [Fields()] of a register with a well-formed table returns, for each declared
    field, name, offset, size and the little-endian bytes of bits [offset, offset+size) of
    the raw value, each in a new array. *)
Theorem fields_any_state : forall tabs s r raw t,
  find_table r tabs = Some t -> table_wf t = true ->
  exists s', step tabs s (OpFields r raw) =
             Some (number_from (length (s_heap s)) (fields_spec raw (t_bits t) (t_fields t)), s').
Proof.
  intros tabs s r raw t Hf Hwf. unfold step. rewrite Hf.
  rewrite alloc_values_eq. cbv beta iota. eexists. f_equal. f_equal.
  rewrite <- (calc_fields_exact t raw Hwf).
  pose proof (read_fresh (calc_fields raw (t_bits t) (t_fields t)) (s_heap s) []) as H.
  rewrite app_nil_r in H. exact H.
Qed.

(** * 3. Sessions *)

Definition wf_state (s : state) : Prop :=
  NoDup (s_vals s) /\ Forall (fun a => (a < length (s_heap s))%nat) (s_vals s).

Lemma wf_empty : wf_state empty_state.
Proof. split; cbn; constructor. Qed.

Lemma wf_extend (s : state) (new : list (list N)) :
  wf_state s ->
  wf_state {| s_heap := s_heap s ++ new; s_vals := s_vals s ++ seq (length (s_heap s)) (length new) |}.
Proof.
  intros [Hnd Hf]. split; cbn [s_heap s_vals].
  - apply NoDup_app_intro; [exact Hnd|apply seq_NoDup|].
    intros x Hx Hin. apply in_seq in Hin. rewrite Forall_forall in Hf. specialize (Hf x Hx). lia.
  - apply Forall_app. split.
    + eapply Forall_impl; [|exact Hf]. cbn. intros a Ha. rewrite app_length. lia.
    + apply Forall_forall. intros x Hin. apply in_seq in Hin. rewrite app_length. lia.
Qed.

Lemma final_extend (s : state) (new : list (list N)) :
  wf_state s ->
  final {| s_heap := s_heap s ++ new; s_vals := s_vals s ++ seq (length (s_heap s)) (length new) |}
  = final s ++ new.
Proof.
  intros [_ Hf]. unfold final. cbn [s_heap s_vals]. rewrite map_app. f_equal.
  - apply map_nth_old. exact Hf.
  - apply map_nth_seq_app.
Qed.

(** One step of the heap semantics is one step over independent values. *)
Theorem refine_step : forall tabs s o, wf_state s ->
  match step tabs s o with
  | Some (ob, s') =>
      vstep tabs (final s) (length (s_heap s)) o = Some (ob, final s', length (s_heap s')) /\ wf_state s'
  | None => vstep tabs (final s) (length (s_heap s)) o = None
  end.
Proof.
  intros tabs s o Hwf. destruct o as [r raw|key|g bytes]; cbn [step vstep].
  - destruct (find_table r tabs) as [t|]; [|reflexivity].
    rewrite alloc_values_eq. cbv beta iota. set (fs := calc_fields raw (t_bits t) (t_fields t)).
    rewrite addr_from_addrs.
    assert (Hs : s_vals s ++ seq (length (s_heap s)) (length fs)
                 = s_vals s ++ seq (length (s_heap s)) (length (value_bytes fs)))
      by now rewrite value_bytes_length.
    rewrite Hs. split.
    + f_equal. f_equal; [f_equal|].
      * pose proof (read_fresh fs (s_heap s) []) as H. rewrite app_nil_r in H. symmetry. exact H.
      * rewrite (final_extend s (value_bytes fs) Hwf). reflexivity.
      * cbn [s_heap]. rewrite app_length, value_bytes_length. reflexivity.
    + apply wf_extend. exact Hwf.
  - split.
    + f_equal. f_equal; [f_equal|].
      * rewrite app_nth2 by lia. rewrite Nat.sub_diag. reflexivity.
      * symmetry. exact (final_extend s [key] Hwf).
      * cbn [s_heap]. rewrite app_length. cbn [length]. lia.
    + exact (wf_extend s [key] Hwf).
  - destruct Hwf as [Hnd Hf].
    destruct (nth_error (s_vals s) g) as [a|] eqn:Hg.
    + unfold final at 1. rewrite (map_nth_error (fun a0 => nth a0 (s_heap s) []) g (s_vals s) Hg).
      assert (Ha : (a < length (s_heap s))%nat).
      { rewrite Forall_forall in Hf. apply Hf. eapply nth_error_In. exact Hg. }
      split.
      * f_equal. f_equal; [f_equal|].
        -- unfold final. cbn [s_heap s_vals]. symmetry. apply map_nth_set_nth; assumption.
        -- cbn [s_heap]. now rewrite set_nth_length.
      * split; cbn [s_heap s_vals]; [exact Hnd|].
        eapply Forall_impl; [|exact Hf]. cbn. intros a' Ha'. now rewrite set_nth_length.
    + assert (Hn : nth_error (map (fun a => nth a (s_heap s) []) (s_vals s)) g = None).
      { apply nth_error_None. rewrite map_length. apply nth_error_None. exact Hg. }
      unfold final. rewrite Hn. reflexivity.
Qed.

(** A whole session — [Fields()] calls of any registers interleaved with writes into any of
    the values handed out — behaves as if every handed-out value were an independent value:
    same observations right after each call, same final contents; and the handed-out values
    occupy pairwise distinct arrays. *)
Theorem session_refines : forall tabs ops s, wf_state s ->
  match run tabs s ops with
  | Some (obs, s') =>
      vrun tabs (final s) (length (s_heap s)) ops = Some (obs, final s') /\ wf_state s'
  | None => vrun tabs (final s) (length (s_heap s)) ops = None
  end.
Proof.
  intros tabs ops. induction ops as [|o t IH]; intros s Hwf; cbn [run vrun].
  - split; [reflexivity|exact Hwf].
  - pose proof (refine_step tabs s o Hwf) as Hs.
    destruct (step tabs s o) as [[ob s1]|].
    + destruct Hs as [Hv Hwf1]. rewrite Hv. specialize (IH s1 Hwf1).
      destruct (run tabs s1 t) as [[obs s2]|].
      * destruct IH as [Hr Hwf2]. rewrite Hr. split; [reflexivity|exact Hwf2].
      * rewrite IH. reflexivity.
    + rewrite Hs. reflexivity.
Qed.

Corollary session_from_empty : forall tabs ops obs s',
  run tabs empty_state ops = Some (obs, s') ->
  vrun tabs [] 0 ops = Some (obs, final s') /\ NoDup (s_vals s').
Proof.
  intros tabs ops obs s' H. pose proof (session_refines tabs ops empty_state wf_empty) as Hs.
  rewrite H in Hs. destruct Hs as [Hv [Hnd _]]. split; [exact Hv|exact Hnd].
Qed.

(** The frame property spelled out: a write into the [g]-th handed-out value changes how that
    value reads and nothing else. *)
Corollary write_only_target : forall tabs s g bytes ob s', wf_state s ->
  step tabs s (OpWrite g bytes) = Some (ob, s') ->
  length (final s') = length (final s) /\
  forall g', g' <> g -> nth g' (final s') [] = nth g' (final s) [].
Proof.
  intros tabs s g bytes ob s' Hwf H. pose proof (refine_step tabs s (OpWrite g bytes) Hwf) as Hs.
  rewrite H in Hs. destruct Hs as [Hv _]. cbn [vstep] in Hv.
  destruct (nth_error (final s) g) as [old|]; [|discriminate Hv].
  injection Hv as _ Hfin _. rewrite <- Hfin. split.
  - apply set_nth_length.
  - intros g' Hne. apply nth_set_nth_neq. congruence.
Qed.

(** ... and a later [Fields()] call changes no value handed out before. *)
Corollary fields_keep_earlier : forall tabs s r raw ob s', wf_state s ->
  step tabs s (OpFields r raw) = Some (ob, s') ->
  exists new, final s' = final s ++ new /\ length new = length ob.
Proof.
  intros tabs s r raw ob s' Hwf H. pose proof (refine_step tabs s (OpFields r raw) Hwf) as Hs.
  rewrite H in Hs. destruct Hs as [Hv _]. cbn [vstep] in Hv.
  destruct (find_table r tabs) as [t|]; [|discriminate Hv].
  injection Hv as Hob Hfin _. eexists. split; [symmetry; exact Hfin|].
  rewrite <- Hob, map_length.
  generalize (calc_fields raw (t_bits t) (t_fields t)) (length (s_heap s)).
  induction l as [|[[[n o] sz] v] tl IHl]; intro b; cbn [number_from length]; [reflexivity|].
  now rewrite <- (IHl (S b)).
Qed.

(** * 4. Little-endian bytes *)

Lemma le_value_le_bytes : forall n v, le_value (le_bytes n v) = v mod 256 ^ N.of_nat n.
Proof.
  induction n as [|n IH]; intro v.
  - cbn. now rewrite N.mod_1_r.
  - cbn [le_bytes le_value]. rewrite IH. rewrite Nat2N.inj_succ, N.pow_succ_r by lia.
    rewrite N.mod_mul_r by (try apply N.pow_nonzero; lia). lia.
Qed.

Corollary field_value_roundtrip : forall v, v < 2 ^ 64 -> le_value (le_bytes 8 v) = v.
Proof.
  intros v Hv. rewrite le_value_le_bytes. apply N.mod_small.
  change (256 ^ N.of_nat 8) with (2 ^ 64). exact Hv.
Qed.

(** * 5. Not vacuous: a constructor handing out shared arrays for 0 and 1 *)

Open Scope string_scope.
(** package-level arrays at addresses 0 and 1; TXT.ESTS = 1 is decoded, the consumer turns the
    one-bit field's value into big endian in place, TXT.ESTS = 1 is decoded again: the field
    that holds bit 0 now reads 0x0100000000000000. *)
Example ex_shared_values_alias :
  let h0 := [le_bytes 8 0; le_bytes 8 1] in
  let fs := calc_fields 1 8 [("TXT_RESET.STS", 0); ("<reserved>", 1)]%N in
  let '(r1, h1) := alloc_values_with shared_small_value fs h0 in
  let h2 := set_nth 1 [0; 0; 0; 0; 0; 0; 0; 1]%N h1 in
  let '(r2, h3) := alloc_values_with shared_small_value fs h2 in
  map (read_at h3) r2 =
  [("TXT_RESET.STS", 0, 1, [0; 0; 0; 0; 0; 0; 0; 1], 1%nat);
   ("<reserved>", 1, 7, [0; 0; 0; 0; 0; 0; 0; 0], 0%nat)]%N.
Proof. vm_compute. reflexivity. Qed.

(** the code's constructor on the same session *)
Example ex_fresh_values :
  let tabs := [{| t_name := "registers.TXTErrorStatus"; t_bits := 8;
                  t_fields := [("TXT_RESET.STS", 0); ("<reserved>", 1)]%N |}] in
  option_map fst
    (run tabs empty_state [OpFields "registers.TXTErrorStatus" 1;
                           OpWrite 0 [0; 0; 0; 0; 0; 0; 0; 1]%N;
                           OpFields "registers.TXTErrorStatus" 1]) =
  Some [[("TXT_RESET.STS", 0, 1, [1; 0; 0; 0; 0; 0; 0; 0], 0%nat);
         ("<reserved>", 1, 7, [0; 0; 0; 0; 0; 0; 0; 0], 1%nat)];
        [];
        [("TXT_RESET.STS", 0, 1, [1; 0; 0; 0; 0; 0; 0; 0], 2%nat);
         ("<reserved>", 1, 7, [0; 0; 0; 0; 0; 0; 0; 0], 3%nat)]]%N.
Proof. vm_compute. reflexivity. Qed.
Close Scope string_scope.

(** * 6. Meaning of a green freshness obligation (Lib/RegFresh.v) *)
From CSS Require Import Lib.RegFresh.

Theorem fresh_obligation_sound : forall ext fns gen n,
  snd (fst (oblig_fresh ext fns gen n)) = true ->
  exists f, find_allocfn n gen = Some f /\
            (forall o, In o (f_results f) ->
               (exists w, o = OFresh w) \/ o = ONil \/ (exists g, o = OCall g /\ smem g fns = true)) /\
            (forall g, In g (f_globals f) -> smem g ext = true).
Proof.
  intros ext fns gen n H. unfold oblig_fresh in H.
  destruct (find_allocfn n gen) as [f|]; [|cbn in H; discriminate H].
  exists f. split; [reflexivity|].
  destruct (filter (fun o => negb (origin_ok fns o)) (f_results f)) as [|b bt] eqn:Hb;
    [|destruct (filter (fun g => negb (smem g ext)) (f_globals f)); cbn in H; discriminate H].
  destruct (filter (fun g => negb (smem g ext)) (f_globals f)) as [|c ct] eqn:Hc;
    [|cbn in H; discriminate H].
  split.
  - intros o Ho. destruct (origin_ok fns o) eqn:Hok.
    + destruct o; cbn in Hok; try discriminate Hok.
      * left. eexists. reflexivity.
      * right. left. reflexivity.
      * right. right. eexists. split; [reflexivity|exact Hok].
    + assert (Hin : In o (filter (fun o => negb (origin_ok fns o)) (f_results f))).
      { apply filter_In. split; [exact Ho|]. now rewrite Hok. }
      rewrite Hb in Hin. destruct Hin.
  - intros g Hg. destruct (smem g ext) eqn:Hs; [reflexivity|].
    assert (Hin : In g (filter (fun g => negb (smem g ext)) (f_globals f))).
    { apply filter_In. split; [exact Hg|]. now rewrite Hs. }
    rewrite Hc in Hin. destruct Hin.
Qed.

(** * 7. TXT.PUBLIC.KEY: the field table does not cover the register (open finding
      C04-TXTPublicKey-bitsize-wraps-to-0).  The register has 256 bits; [BitSize()] and
      [Field.BitSize] are uint8, [uint8(32*8) = 0]: the one field has size 0. *)
Theorem key_field_covers_register_refuted :
  exists tabs s key ob s',
    length key = 32%nat /\ step tabs s (OpKeyFields key) = Some (ob, s') /\
    ~ (exists n bytes a, ob = [(n, 0, 256, bytes, a)]).
Proof.
  exists [], empty_state, (repeat 0 32). eexists. eexists.
  split; [reflexivity|]. split; [reflexivity|].
  intros [n [bytes [a H]]]. injection H as _ Hs _ _. discriminate Hs.
Qed.

(** * 8. The compact literals of the session cases (Model/RegistersCases.v) lose nothing:
      [enc_bytes] determines length and content of a byte string. *)
From CSS Require Import Model.RegistersCases.

Lemma enc_bytes_pos l : 1 <= enc_bytes l.
Proof.
  unfold enc_bytes. induction l as [|b t IH]; cbn [app le_value]; lia.
Qed.

Theorem enc_bytes_inj : forall l l',
  (forall b, In b l -> b < 256) -> (forall b, In b l' -> b < 256) ->
  enc_bytes l = enc_bytes l' -> l = l'.
Proof.
  induction l as [|b t IH]; intros [|b' t'] Hl Hl' H.
  - reflexivity.
  - exfalso. pose proof (enc_bytes_pos t') as Hp. unfold enc_bytes in *. cbn [app le_value] in H.
    cbn [app le_value] in Hp. lia.
  - exfalso. pose proof (enc_bytes_pos t) as Hp. unfold enc_bytes in *. cbn [app le_value] in H.
    cbn [app le_value] in Hp. lia.
  - assert (Hb : b < 256) by (apply Hl; left; reflexivity).
    assert (Hb' : b' < 256) by (apply Hl'; left; reflexivity).
    unfold enc_bytes in H. cbn [app le_value] in H.
    assert (b = b' /\ le_value (t ++ [1]) = le_value (t' ++ [1])) as [-> Ht] by lia.
    f_equal. apply IH.
    + intros x Hx. apply Hl. right. exact Hx.
    + intros x Hx. apply Hl'. right. exact Hx.
    + exact Ht.
Qed.
