(** Proofs about Model/Refs.v: denotation of reference lists, SortAndMerge,
    Exclude, RawBytes, ReadAt. *)
From Coq Require Import Permutation.
From CSS Require Import Lib.Base Model.Ranges Model.Refs Proofs.Ranges.

(** ** Vocabulary *)

Definition ai (r : ref) : Z := aid (rart r).
Definition tn (r : ref) : Z := tname (rart r).

(** no range of the reference wraps around 2^64 *)
Definition okref (r : ref) : Prop := Forall okr (rranges r).
Definition NoOverflow (s : list ref) : Prop := Forall okref s.

(** [r] contributes offset [k] of artifact [a] in address space [m] *)
Definition hit (r : ref) (a : Z) (m : mapper) (k : Z) : Prop :=
  ai r = a /\ rmap r = m /\ in_ranges (rranges r) k.
(** the set of (artifact, address space, offset) triples a list denotes *)
Definition den (s : list ref) (a : Z) (m : mapper) (k : Z) : Prop :=
  Exists (fun r => hit r a m k) s.

Lemma mapper_eqb_eq a b : mapper_eqb a b = true <-> a = b.
Proof.
  destruct a, b; cbn [mapper_eqb]; try (split; [discriminate | discriminate || congruence]);
    try (split; reflexivity).
  split.
  - intros H. apply andb_prop in H. destruct H as (H & H3). apply andb_prop in H. destruct H as (H1 & H2).
    apply Z.eqb_eq in H1, H3. apply Bool.eqb_prop in H2. congruence.
  - intros H. inversion H; subst. rewrite !Z.eqb_refl, Bool.eqb_reflx. reflexivity.
Qed.

Lemma art_eqb_eq a b : art_eqb a b = true <-> aid a = aid b.
Proof. unfold art_eqb. apply Z.eqb_eq. Qed.

Lemma den_nil a m k : den [] a m k <-> False.
Proof. unfold den. split; [intros H; inversion H | tauto]. Qed.
Lemma den_cons r s a m k : den (r :: s) a m k <-> hit r a m k \/ den s a m k.
Proof. unfold den. apply Exists_cons. Qed.
Lemma den_app s1 s2 a m k : den (s1 ++ s2) a m k <-> den s1 a m k \/ den s2 a m k.
Proof. unfold den. apply Exists_app. Qed.
Lemma den_in s a m k : den s a m k <-> exists r, In r s /\ hit r a m k.
Proof. unfold den. apply Exists_exists. Qed.
Lemma den_perm s s' a m k : Permutation s s' -> den s a m k <-> den s' a m k.
Proof.
  intros P. rewrite !den_in. split; intros (r & I & H); exists r; split; try assumption.
  - eapply Permutation_in; eauto.
  - eapply Permutation_in; [apply Permutation_sym|]; eauto.
Qed.

Lemma hit_set_ranges r l a m k :
  hit (set_ranges r l) a m k <-> ai r = a /\ rmap r = m /\ in_ranges l k.
Proof. unfold hit, set_ranges, ai. cbn [rart rmap rranges]. tauto. Qed.

(** boolean version of [den], for closed witnesses *)
Definition inrb (x : range) (k : Z) : bool := (roff x <=? k) && (k <? roff x + rlen x).
Definition denb (s : list ref) (a : Z) (m : mapper) (k : Z) : bool :=
  existsb (fun r => (ai r =? a) && mapper_eqb (rmap r) m && existsb (fun x => inrb x k) (rranges r)) s.
Lemma denb_spec s a m k : denb s a m k = true <-> den s a m k.
Proof.
  unfold denb. rewrite existsb_exists, den_in. split.
  - intros (r & I & H). exists r. split; [assumption|].
    apply andb_prop in H. destruct H as (H & H3). apply andb_prop in H. destruct H as (H1 & H2).
    apply Z.eqb_eq in H1. apply mapper_eqb_eq in H2. apply existsb_exists in H3.
    destruct H3 as (x & Ix & Hx). unfold inrb in Hx. apply andb_prop in Hx. destruct Hx as (X1 & X2).
    apply Z.leb_le in X1. apply Z.ltb_lt in X2.
    repeat split; try assumption. apply Exists_exists. exists x. split; [assumption|]. unfold inr. lia.
  - intros (r & I & (H1 & H2 & H3)). exists r. split; [assumption|].
    apply Exists_exists in H3. destruct H3 as (x & Ix & Hx). unfold inr in Hx.
    apply andb_true_intro. split; [apply andb_true_intro; split|].
    + apply Z.eqb_eq. assumption.
    + apply mapper_eqb_eq. assumption.
    + apply existsb_exists. exists x. split; [assumption|]. unfold inrb.
      apply andb_true_intro. split; [apply Z.leb_le | apply Z.ltb_lt]; lia.
Qed.
Lemma denb_false s a m k : denb s a m k = false <-> ~ den s a m k.
Proof. rewrite <- denb_spec. destruct (denb s a m k); split; congruence. Qed.

(** ** What sort.Slice may produce; SortAndMerge as a relation *)

(** [out] is a possible result of [References.SortAndMerge] on [s] (for every
    order [s'] a correct sort may choose) *)
Definition sortmerge_rel (s out : list ref) : Prop :=
  has_conflict s = false /\
  exists s', Permutation s s' /\ sorted_cmp s' = true /\ out = refs_sm_sorted s'.

(** [References.Exclude]: [out] is a possible result of [s.Exclude(exc...)] *)
Definition exclude_rel (s exc out : list ref) : Prop :=
  (s = [] /\ out = []) \/
  (s <> [] /\ exists s0 s1, sortmerge_rel s s0 /\ sortmerge_rel exc s1 /\ excl_walk s0 s1 = Ok out).

(** the executable functions (which take the order as an argument) realise the relations *)
Lemma map_nth_seq (s : list ref) d : map (fun i => nth i s d) (seq 0 (length s)) = s.
Proof.
  induction s as [|x t IH]; [reflexivity|].
  cbn [length seq map nth]. f_equal. rewrite <- seq_shift, map_map. exact IH.
Qed.

Lemma nat_mem_in x l : nat_mem x l = true <-> In x l.
Proof.
  induction l as [|y t IH]; cbn [nat_mem In]; [split; [discriminate | tauto]|].
  rewrite Bool.orb_true_iff, Nat.eqb_eq, IH. split; intros [H|H]; auto.
Qed.
Lemma nodupb_nodup l : nodupb l = true -> NoDup l.
Proof.
  induction l as [|x t IH]; cbn [nodupb]; intros H; [constructor|].
  apply andb_prop in H. destruct H as (H1 & H2). constructor; [|auto].
  intros I. apply nat_mem_in in I. rewrite I in H1. discriminate.
Qed.

Lemma valid_perm_perm p (s : list ref) : valid_perm (length s) p = true -> Permutation s (apply_perm p s).
Proof.
  unfold valid_perm. intros H. apply andb_prop in H. destruct H as (H & H3).
  apply andb_prop in H. destruct H as (H1 & H2). apply Nat.eqb_eq in H1.
  apply nodupb_nodup in H2. rewrite forallb_forall in H3.
  assert (P : Permutation p (seq 0 (length s))).
  { apply NoDup_Permutation_bis; [assumption | rewrite seq_length; lia |].
    intros i Hi. apply in_seq. specialize (H3 i Hi). apply Nat.ltb_lt in H3. lia. }
  destruct s as [|d t]; [destruct p; [constructor | discriminate]|].
  unfold apply_perm. rewrite <- (map_nth_seq (d :: t) d) at 1.
  apply Permutation_map. apply Permutation_sym. assumption.
Qed.

Lemma refs_sm_rel perm s out : refs_sm perm s = Ok out -> sortmerge_rel s out.
Proof.
  unfold refs_sm, sortmerge_rel. destruct s as [|a t].
  - intros H. inversion H. split; [reflexivity|]. exists []. split; [constructor|]. split; reflexivity.
  - destruct (has_conflict (a :: t)) eqn:C; [discriminate|].
    destruct (valid_perm (length (a :: t)) perm && sorted_cmp (apply_perm perm (a :: t))) eqn:V; [|discriminate].
    intros H. inversion H. subst out. apply andb_prop in V. destruct V as (V1 & V2).
    split; [reflexivity|].
    exists (apply_perm perm (a :: t)). split; [apply valid_perm_perm; assumption|]. split; [assumption | reflexivity].
Qed.

Lemma refs_exclude_rel ps pe s exc out : refs_exclude ps pe s exc = Ok out -> exclude_rel s exc out.
Proof.
  unfold refs_exclude, exclude_rel. destruct s as [|a t].
  - intros H. inversion H. left. split; reflexivity.
  - intros H. right. split; [discriminate|].
    destruct (refs_sm ps (a :: t)) as [s0| | |] eqn:E0; try discriminate. cbn [bind] in H.
    destruct (refs_sm pe exc) as [s1| | |] eqn:E1; try discriminate. cbn [bind] in H.
    exists s0, s1. repeat split; try assumption; eapply refs_sm_rel; eassumption.
Qed.

(** ** SortAndMerge preserves the denotation *)

Lemma okref_set_ranges r l : Forall okr l -> okref (set_ranges r l).
Proof. unfold okref, set_ranges. cbn [rranges]. tauto. Qed.

Lemma sm_loop_den l : forall cur, okref cur -> Forall okref l ->
  forall a m k, den (sm_loop cur l) a m k <-> hit cur a m k \/ den l a m k.
Proof.
  induction l as [|r t IH]; intros cur Oc F a m k; cbn [sm_loop].
  - rewrite den_cons, !den_nil, hit_set_ranges. unfold hit. rewrite (ranges_sm_den _ k Oc). tauto.
  - inversion F as [|? ? Or Ft]; subst.
    destruct (art_eqb (rart r) (rart cur) && mapper_eqb (rmap r) (rmap cur)) eqn:E.
    + apply andb_prop in E. destruct E as (E1 & E2). apply art_eqb_eq in E1. apply mapper_eqb_eq in E2.
      rewrite IH; [| apply okref_set_ranges; apply Forall_app; split; assumption | assumption].
      rewrite den_cons, hit_set_ranges. unfold hit, ai. rewrite in_ranges_app, E1, E2. tauto.
    + destruct (rranges cur) as [|x xs] eqn:Rc.
      * assert (N : ~ hit cur a m k) by (unfold hit; rewrite Rc, in_ranges_nil; tauto).
        rewrite (IH r Or Ft), den_cons. tauto.
      * assert (X : in_ranges (ranges_sm (x :: xs)) k <-> in_ranges (rranges cur) k).
        { rewrite <- Rc. apply ranges_sm_den. exact Oc. }
        rewrite den_cons, (IH r Or Ft), den_cons, hit_set_ranges. unfold hit. rewrite X. tauto.
Qed.

Lemma den_map_norm s a m k : Forall okref s ->
  den (map (fun r => set_ranges r (ranges_sm (rranges r))) s) a m k <-> den s a m k.
Proof.
  induction 1 as [|r t Or Ft IH]; cbn [map]; [tauto|].
  rewrite !den_cons, IH, hit_set_ranges. unfold hit. rewrite (ranges_sm_den _ k Or). tauto.
Qed.
Lemma okref_map_norm s : Forall okref s ->
  Forall okref (map (fun r => set_ranges r (ranges_sm (rranges r))) s).
Proof.
  induction 1 as [|r t Or Ft IH]; cbn [map]; constructor; [|assumption].
  apply okref_set_ranges. apply ranges_sm_sep. assumption.
Qed.

Lemma refs_sm_sorted_den s a m k : Forall okref s -> den (refs_sm_sorted s) a m k <-> den s a m k.
Proof.
  intros F. rewrite <- (den_map_norm s a m k F). pose proof (okref_map_norm s F) as F'.
  unfold refs_sm_sorted. destruct (map _ s) as [|r t]; [tauto|].
  inversion F'; subst. rewrite sm_loop_den by assumption. rewrite den_cons. tauto.
Qed.

Lemma sortmerge_den s out : NoOverflow s -> sortmerge_rel s out ->
  forall a m k, den out a m k <-> den s a m k.
Proof.
  intros F (C & s' & P & S & ->) a m k.
  rewrite refs_sm_sorted_den; [symmetry; apply den_perm; assumption|].
  eapply Permutation_Forall; eassumption.
Qed.

(** ** The assumption under which the comparator distinguishes what it has to *)

Definition rkey (r : ref) : art * mapper := (rart r, rmap r).
Definition keys (s : list ref) : list (art * mapper) := map rkey s.

(** distinct artifacts have distinct type names (and vice versa), and every
    artifact is used with one address mapper only *)
Definition DistK (ks : list (art * mapper)) : Prop :=
  forall k1 k2, In k1 ks -> In k2 ks ->
    (aid (fst k1) = aid (fst k2) <-> tname (fst k1) = tname (fst k2)) /\
    (aid (fst k1) = aid (fst k2) -> snd k1 = snd k2).
Definition Distinguishable (s : list ref) : Prop := DistK (keys s).

Lemma DistK_incl ks ks' : DistK ks -> incl ks' ks -> DistK ks'.
Proof. intros D I k1 k2 H1 H2. apply D; apply I; assumption. Qed.

Lemma dist_refs ks r1 r2 : DistK ks -> In (rkey r1) ks -> In (rkey r2) ks ->
  (ai r1 = ai r2 <-> tn r1 = tn r2) /\ (ai r1 = ai r2 -> rmap r1 = rmap r2).
Proof. intros D I1 I2. exact (D _ _ I1 I2). Qed.

Lemma in_keys r s : In r s -> In (rkey r) (keys s).
Proof. apply in_map. Qed.

Lemma keys_perm s s' : Permutation s s' -> incl (keys s') (keys s).
Proof.
  intros P k I. unfold keys in *. apply in_map_iff in I. destruct I as (r & <- & I).
  apply in_map. eapply Permutation_in; [apply Permutation_sym|]; eassumption.
Qed.

(** type names strictly increasing, all above [lb] *)
Fixpoint tn_strict_lb (lb : Z) (s : list ref) : Prop :=
  match s with
  | [] => True
  | a :: t => lb < tn a /\ tn_strict_lb (tn a) t
  end.
(** type names non-decreasing, all at least [lb] *)
Fixpoint tn_sorted_lb (lb : Z) (s : list ref) : Prop :=
  match s with
  | [] => True
  | a :: t => lb <= tn a /\ tn_sorted_lb (tn a) t
  end.

Lemma tn_strict_in lb s x : tn_strict_lb lb s -> In x s -> lb < tn x.
Proof.
  revert lb. induction s as [|a t IH]; intros lb S I; [destruct I|].
  cbn [tn_strict_lb] in S. destruct S as (S1 & S2). destruct I as [<- | I]; [assumption|].
  specialize (IH _ S2 I). lia.
Qed.
Lemma tn_strict_weaken lb lb' s : lb' <= lb -> tn_strict_lb lb s -> tn_strict_lb lb' s.
Proof. destruct s; cbn [tn_strict_lb]; intros; [trivial | intuition lia]. Qed.
Lemma tn_sorted_weaken lb lb' s : lb' <= lb -> tn_sorted_lb lb s -> tn_sorted_lb lb' s.
Proof. destruct s; cbn [tn_sorted_lb]; intros; [trivial | intuition lia]. Qed.

(** under the assumption the comparator is the type-name order and never panics *)
Lemma cmp_ref_dist ks r1 r2 : DistK ks -> In (rkey r1) ks -> In (rkey r2) ks ->
  (cmp_ref r1 r2 = CEq /\ ai r1 = ai r2 /\ tn r1 = tn r2 /\ rmap r1 = rmap r2) \/
  (cmp_ref r1 r2 = CLt /\ tn r1 < tn r2) \/
  (cmp_ref r1 r2 = CGt /\ tn r2 < tn r1).
Proof.
  intros D I1 I2. destruct (dist_refs ks r1 r2 D I1 I2) as (A & B).
  unfold cmp_ref, art_eqb. fold (ai r1) (ai r2) (tn r1) (tn r2).
  destruct (ai r1 =? ai r2) eqn:E; [apply Z.eqb_eq in E | apply Z.eqb_neq in E].
  - left. repeat split; tauto.
  - destruct (tn r1 =? tn r2) eqn:E2; [apply Z.eqb_eq in E2; tauto | apply Z.eqb_neq in E2].
    destruct (tn r1 <? tn r2) eqn:E3; [apply Z.ltb_lt in E3 | apply Z.ltb_ge in E3].
    + right. left. split; [reflexivity | assumption].
    + right. right. split; [reflexivity | lia].
Qed.

Lemma sorted_cmp_tn ks s : DistK ks -> incl (keys s) ks -> sorted_cmp s = true ->
  match s with [] => True | a :: t => tn_sorted_lb (tn a) t end.
Proof.
  intros D. induction s as [|a t IH]; intros I S; [exact Logic.I|].
  destruct t as [|b t']; [exact Logic.I|].
  cbn [sorted_cmp] in S. apply andb_prop in S. destruct S as (S1 & S2).
  assert (Ia : In (rkey a) ks) by (apply I; left; reflexivity).
  assert (Ib : In (rkey b) ks) by (apply I; right; left; reflexivity).
  assert (It : incl (keys (b :: t')) ks) by (intros x Hx; apply I; right; exact Hx).
  specialize (IH It S2). cbn [tn_sorted_lb]. split; [|exact IH].
  destruct (cmp_ref_dist ks b a D Ib Ia) as [(C & _ & T & _) | [(C & T) | (C & T)]];
    rewrite C in S1; cbn in S1; try discriminate; lia.
Qed.

(** ** Normal form of SortAndMerge under the assumption *)

Lemma sm_loop_keys l : forall cur, incl (keys (sm_loop cur l)) (keys (cur :: l)).
Proof.
  induction l as [|r t IH]; intros cur; cbn [sm_loop].
  - intros x [<- | []]. left. reflexivity.
  - destruct (art_eqb (rart r) (rart cur) && mapper_eqb (rmap r) (rmap cur)).
    + intros x Hx. apply IH in Hx. destruct Hx as [<- | Hx]; [left; reflexivity | right; right; exact Hx].
    + destruct (rranges cur).
      * intros x Hx. apply IH in Hx. right. exact Hx.
      * intros x [<- | Hx]; [left; reflexivity|]. apply IH in Hx. right. exact Hx.
Qed.

Lemma sm_loop_ok l : forall cur, okref cur -> Forall okref l ->
  Forall (fun o => okref o /\ separated (rranges o)) (sm_loop cur l).
Proof.
  induction l as [|r t IH]; intros cur Oc F; cbn [sm_loop].
  - constructor; [|constructor]. unfold okref, set_ranges. cbn [rranges].
    destruct (ranges_sm_sep _ Oc). tauto.
  - inversion F as [|? ? Or Ft]; subst.
    destruct (art_eqb (rart r) (rart cur) && mapper_eqb (rmap r) (rmap cur)).
    + apply IH; [apply okref_set_ranges; apply Forall_app; split; assumption | assumption].
    + destruct (rranges cur) eqn:Rc; [apply IH; assumption|].
      constructor; [|apply IH; assumption]. unfold okref, set_ranges. cbn [rranges].
      rewrite <- Rc. destruct (ranges_sm_sep _ Oc). tauto.
Qed.

Lemma sm_loop_strict ks l : forall cur lb, DistK ks -> incl (keys (cur :: l)) ks ->
  tn_sorted_lb (tn cur) l -> lb < tn cur -> tn_strict_lb lb (sm_loop cur l).
Proof.
  induction l as [|r t IH]; intros cur lb D I S Hlb; cbn [sm_loop].
  - cbn [tn_strict_lb]. unfold tn, set_ranges in *. cbn [rart]. tauto.
  - cbn [tn_sorted_lb] in S. destruct S as (S1 & S2).
    assert (Ic : In (rkey cur) ks) by (apply I; left; reflexivity).
    assert (Ir : In (rkey r) ks) by (apply I; right; left; reflexivity).
    destruct (art_eqb (rart r) (rart cur) && mapper_eqb (rmap r) (rmap cur)) eqn:E.
    + apply andb_prop in E. destruct E as (E1 & E2). apply art_eqb_eq in E1.
      destruct (dist_refs ks r cur D Ir Ic) as (A & _).
      apply IH; try assumption.
      * intros x [<- | Hx]; [exact Ic | apply I; right; right; exact Hx].
      * unfold tn, set_ranges. cbn [rart]. fold (tn cur).
        eapply tn_sorted_weaken; [|exact S2]. unfold ai in A. apply A in E1. lia.
    + assert (Lt : tn cur < tn r).
      { destruct (dist_refs ks r cur D Ir Ic) as (A & B).
        destruct (art_eqb (rart r) (rart cur)) eqn:E1.
        - apply art_eqb_eq in E1. apply B in E1. apply mapper_eqb_eq in E1. rewrite E1 in E. discriminate.
        - unfold art_eqb in E1. apply Z.eqb_neq in E1. unfold ai in A.
          assert (tn r <> tn cur) by tauto. lia. }
      assert (It : incl (keys (r :: t)) ks) by (intros x Hx; apply I; right; exact Hx).
      destruct (rranges cur).
      * apply IH; try assumption. lia.
      * cbn [tn_strict_lb]. split; [unfold tn, set_ranges; cbn [rart]; exact Hlb|].
        unfold tn at 1, set_ranges. cbn [rart]. fold (tn cur). apply IH; assumption.
Qed.

(** one entry per (artifact, address space); every entry's ranges sorted,
    pairwise disjoint and non-adjacent *)
Definition NormalRefs (out : list ref) : Prop :=
  NoDup (map (fun r => (ai r, rmap r)) out) /\ Forall (fun r => separated (rranges r)) out.

Lemma strict_nodup ks s lb : DistK ks -> incl (keys s) ks -> tn_strict_lb lb s ->
  NoDup (map (fun r => (ai r, rmap r)) s).
Proof.
  intros D. revert lb. induction s as [|a t IH]; intros lb I S; cbn [map]; [constructor|].
  cbn [tn_strict_lb] in S. destruct S as (S1 & S2).
  assert (It : incl (keys t) ks) by (intros x Hx; apply I; right; exact Hx).
  constructor; [|eapply IH; eassumption].
  intros Hin. apply in_map_iff in Hin. destruct Hin as (b & Eb & Ib).
  inversion Eb as [[E1 E2]].
  assert (Ka : In (rkey a) ks) by (apply I; left; reflexivity).
  assert (Kb : In (rkey b) ks) by (apply It; apply in_keys; exact Ib).
  destruct (dist_refs ks b a D Kb Ka) as (A & _). apply A in E1.
  pose proof (tn_strict_in _ _ _ S2 Ib). lia.
Qed.

(** everything the rest of the development needs to know about a result of
    SortAndMerge under the assumption *)
Lemma sortmerge_props ks s out : DistK ks -> incl (keys s) ks -> NoOverflow s -> sortmerge_rel s out ->
  incl (keys out) ks /\ Forall okref out /\ (exists lb, tn_strict_lb lb out) /\
  Forall (fun o => separated (rranges o)) out.
Proof.
  intros D I F (C & s' & P & S & ->).
  - assert (F' : Forall okref s') by (eapply Permutation_Forall; eassumption).
    assert (I' : incl (keys s') ks) by (intros x Hx; apply I; eapply keys_perm; eassumption).
    pose proof (sorted_cmp_tn ks s' D I' S) as T.
    pose proof (okref_map_norm s' F') as Fn.
    unfold refs_sm_sorted.
    destruct s' as [|a t]; cbn [map]; [repeat split; [intros x [] | constructor | exists 0; exact Logic.I | constructor]|].
    set (na := set_ranges a (ranges_sm (rranges a))). set (nt := map (fun r => set_ranges r (ranges_sm (rranges r))) t).
    assert (Kn : keys (na :: nt) = keys (a :: t)).
    { unfold keys, nt, na. cbn [map]. f_equal. rewrite map_map. apply map_ext. reflexivity. }
    assert (Tn : tn_sorted_lb (tn na) nt).
    { unfold na, nt. change (tn (set_ranges a (ranges_sm (rranges a)))) with (tn a).
      clear - T. revert T. generalize (tn a). induction t as [|b t IH]; intros lb T; [exact Logic.I|].
      cbn [map tn_sorted_lb] in *. destruct T as (T1 & T2). split; [exact T1|]. apply IH. exact T2. }
    cbn [map] in Fn. fold na nt in Fn. inversion Fn as [|? ? Fa Ft]; subst.
    pose proof (sm_loop_keys nt na) as K. rewrite Kn in K.
    pose proof (sm_loop_ok nt na Fa Ft) as O.
    repeat split.
    + intros x Hx. apply I'. apply K. exact Hx.
    + eapply Forall_impl; [|exact O]. cbn beta. tauto.
    + exists (tn na - 1). apply (sm_loop_strict ks); [assumption | rewrite Kn; exact I' | exact Tn | lia].
    + eapply Forall_impl; [|exact O]. cbn beta. tauto.
Qed.

Lemma sortmerge_normal s out : Distinguishable s -> NoOverflow s ->
  sortmerge_rel s out -> NormalRefs out.
Proof.
  intros D F R.
  destruct (sortmerge_props (keys s) s out D (incl_refl _) F R) as (I & O & (lb & S) & N).
  split; [eapply strict_nodup; eassumption | exact N].
Qed.

(** ** Exclude *)

Lemma in_ranges_filter_nonzero l k : in_ranges (filter nonzero l) k <-> in_ranges l k.
Proof.
  induction l as [|x t IH]; cbn [filter]; [tauto|].
  unfold nonzero at 1. destruct (rlen x =? 0) eqn:E; cbn [negb].
  - apply Z.eqb_eq in E. rewrite in_ranges_cons, IH. unfold inr. intuition lia.
  - rewrite !in_ranges_cons, IH. tauto.
Qed.

Lemma in_ranges_flat_map (f : range -> list range) l k :
  in_ranges (flat_map f l) k <-> exists r, In r l /\ in_ranges (f r) k.
Proof.
  induction l as [|x t IH]; cbn [flat_map].
  - rewrite in_ranges_nil. split; [tauto | intros (r & [] & _)].
  - rewrite in_ranges_app, IH. split.
    + intros [H | (r & I & H)]; [exists x; split; [left; reflexivity | exact H] | exists r; split; [right; exact I | exact H]].
    + intros (r & [<- | I] & H); [left; exact H | right; exists r; split; assumption].
Qed.

Lemma exclude_ranges_den l0 l1 k : Forall okr l0 -> Forall okr l1 ->
  in_ranges (exclude_ranges l0 l1) k <-> in_ranges l0 k /\ ~ in_ranges l1 k.
Proof.
  intros F0 F1. unfold exclude_ranges. rewrite in_ranges_filter_nonzero, in_ranges_flat_map.
  rewrite Forall_forall in F0. split.
  - intros (r & I & H). apply range_exclude_den in H; [|apply F0; exact I | exact F1].
    destruct H as (H1 & H2). split; [|exact H2]. apply Exists_exists. exists r. split; assumption.
  - intros (H1 & H2). apply Exists_exists in H1. destruct H1 as (r & I & H).
    exists r. split; [exact I|]. apply range_exclude_den; [apply F0; exact I | exact F1 | split; assumption].
Qed.

Lemma excl_walk_nil_r r0 t0 : excl_walk (r0 :: t0) [] = Ok (r0 :: t0).
Proof. reflexivity. Qed.
Lemma excl_walk_cons r0 t0 r1 t1 :
  excl_walk (r0 :: t0) (r1 :: t1) =
  match cmp_ref r0 r1 with
  | CPanic => Panic
  | CLt => bind (excl_walk t0 (r1 :: t1)) (fun rest => Ok (r0 :: rest))
  | CGt => excl_walk (r0 :: t0) t1
  | CEq => bind (excl_walk t0 t1) (fun rest =>
             match exclude_ranges (rranges r0) (rranges r1) with
             | [] => Ok rest
             | res => Ok (set_ranges r0 res :: rest)
             end)
  end.
Proof. reflexivity. Qed.

(** no reference of a strictly-sorted list above [lb] shares its artifact with a
    reference whose type name is at most [lb] *)
Lemma den_above ks r s lb a m k : DistK ks -> In (rkey r) ks -> incl (keys s) ks ->
  tn_strict_lb lb s -> tn r <= lb -> ai r = a -> ~ den s a m k.
Proof.
  intros D Ir I S T <- H. apply den_in in H. destruct H as (x & Ix & (H1 & _)).
  assert (Kx : In (rkey x) ks) by (apply I; apply in_keys; exact Ix).
  destruct (dist_refs ks x r D Kx Ir) as (A & _). apply A in H1.
  pose proof (tn_strict_in _ _ _ S Ix). lia.
Qed.

Lemma excl_walk_den ks : DistK ks -> forall s0 lb0, incl (keys s0) ks -> Forall okref s0 -> tn_strict_lb lb0 s0 ->
  forall s1 lb1, incl (keys s1) ks -> Forall okref s1 -> tn_strict_lb lb1 s1 ->
  exists out, excl_walk s0 s1 = Ok out /\
    forall a m k, den out a m k <-> den s0 a m k /\ ~ den s1 a m k.
Proof.
  intros D. induction s0 as [|r0 t0 IH0]; intros lb0 I0 F0 S0.
  { intros s1 lb1 _ _ _. exists []. split; [destruct s1; reflexivity|]. intros. rewrite !den_nil. tauto. }
  inversion F0 as [|? ? O0 Ft0]; subst. cbn [tn_strict_lb] in S0. destruct S0 as (S0a & S0b).
  assert (K0 : In (rkey r0) ks) by (apply I0; left; reflexivity).
  assert (It0 : incl (keys t0) ks) by (intros x Hx; apply I0; right; exact Hx).
  induction s1 as [|r1 t1 IH1]; intros lb1 I1 F1 S1.
  { exists (r0 :: t0). split; [reflexivity|]. intros. rewrite den_nil. tauto. }
  inversion F1 as [|? ? O1 Ft1]; subst. cbn [tn_strict_lb] in S1. destruct S1 as (S1a & S1b).
  assert (K1 : In (rkey r1) ks) by (apply I1; left; reflexivity).
  assert (It1 : incl (keys t1) ks) by (intros x Hx; apply I1; right; exact Hx).
  rewrite excl_walk_cons.
  destruct (cmp_ref_dist ks r0 r1 D K0 K1) as [(C & EA & ET & EM) | [(C & T) | (C & T)]]; rewrite C.
  - (* same artifact and address space *)
    destruct (IH0 (tn r0) It0 Ft0 S0b t1 (tn r1) It1 Ft1 S1b) as (rest & E & Hrest).
    rewrite E. cbn [bind].
    pose proof (exclude_ranges_den (rranges r0) (rranges r1)) as X.
    assert (Out : forall a m k,
      den (match exclude_ranges (rranges r0) (rranges r1) with
           | [] => rest | res => set_ranges r0 res :: rest end) a m k <->
      (ai r0 = a /\ rmap r0 = m /\ in_ranges (rranges r0) k /\ ~ in_ranges (rranges r1) k) \/ den rest a m k).
    { intros a m k. specialize (X k O0 O1).
      destruct (exclude_ranges (rranges r0) (rranges r1)) as [|y ys].
      - rewrite in_ranges_nil in X. tauto.
      - rewrite den_cons, hit_set_ranges. tauto. }
    exists (match exclude_ranges (rranges r0) (rranges r1) with
            | [] => rest | res => set_ranges r0 res :: rest end).
    split.
    { destruct (exclude_ranges (rranges r0) (rranges r1)); reflexivity. }
    intros a m k. rewrite Out, Hrest, !den_cons. unfold hit.
    pose proof (den_above ks r0 t1 (tn r1) a m k D K0 It1 S1b ltac:(lia)) as N1.
    pose proof (den_above ks r1 t0 (tn r0) a m k D K1 It0 S0b ltac:(lia)) as N0.
    rewrite <- EA in N0. rewrite <- EA, <- EM. tauto.
  - (* r0 sorts first: nothing in s1 refers to its artifact *)
    destruct (IH0 (tn r0) It0 Ft0 S0b (r1 :: t1) lb1 I1 F1 (conj S1a S1b)) as (rest & E & Hrest).
    rewrite E. cbn [bind]. eexists. split; [reflexivity|].
    intros a m k.
    pose proof (den_above ks r0 (r1 :: t1) (tn r0) a m k D K0 I1 (conj T S1b) ltac:(lia)) as N.
    assert (N' : hit r0 a m k -> ~ den (r1 :: t1) a m k) by (intros (Ha & _); exact (N Ha)).
    rewrite !den_cons, Hrest, !den_cons. rewrite den_cons in N'. tauto.
  - (* r1 sorts first: nothing in s0 refers to its artifact *)
    destruct (IH1 (tn r1) It1 Ft1 S1b) as (out & E & Hout).
    exists out. split; [exact E|].
    intros a m k.
    pose proof (den_above ks r1 (r0 :: t0) (tn r1) a m k D K1 I0 (conj T S0b) ltac:(lia)) as N.
    assert (N' : hit r1 a m k -> ~ den (r0 :: t0) a m k) by (intros (Ha & _); exact (N Ha)).
    rewrite Hout, (den_cons r1 t1). tauto.
Qed.

Lemma exclude_exact s exc out : Distinguishable (s ++ exc) -> NoOverflow (s ++ exc) ->
  exclude_rel s exc out ->
  forall a m k, den out a m k <-> den s a m k /\ ~ den exc a m k.
Proof.
  intros D F [(-> & ->) | (NE & s0 & s1 & R0 & R1 & W)] a m k.
  { rewrite den_nil. tauto. }
  unfold Distinguishable in D. set (ks := keys (s ++ exc)) in *.
  apply Forall_app in F. destruct F as (Fs & Fe).
  assert (Is : incl (keys s) ks) by (unfold ks, keys; rewrite map_app; apply incl_appl, incl_refl).
  assert (Ie : incl (keys exc) ks) by (unfold ks, keys; rewrite map_app; apply incl_appr, incl_refl).
  destruct (sortmerge_props ks s s0 D Is Fs R0) as (I0 & O0 & (lb0 & S0) & _).
  destruct (sortmerge_props ks exc s1 D Ie Fe R1) as (I1 & O1 & (lb1 & S1) & _).
  destruct (excl_walk_den ks D s0 lb0 I0 O0 S0 s1 lb1 I1 O1 S1) as (out' & E & H).
  rewrite W in E. inversion E; subst out'.
  rewrite H, (sortmerge_den s s0 Fs R0), (sortmerge_den exc s1 Fe R1). tauto.
Qed.

(** under the assumption Exclude does not panic either *)
Lemma exclude_total s exc : Distinguishable (s ++ exc) -> NoOverflow (s ++ exc) ->
  forall s0 s1, sortmerge_rel s s0 -> sortmerge_rel exc s1 -> exists out, excl_walk s0 s1 = Ok out.
Proof.
  intros D F s0 s1 R0 R1.
  unfold Distinguishable in D. set (ks := keys (s ++ exc)) in *.
  apply Forall_app in F. destruct F as (Fs & Fe).
  assert (Is : incl (keys s) ks) by (unfold ks, keys; rewrite map_app; apply incl_appl, incl_refl).
  assert (Ie : incl (keys exc) ks) by (unfold ks, keys; rewrite map_app; apply incl_appr, incl_refl).
  destruct (sortmerge_props ks s s0 D Is Fs R0) as (I0 & O0 & (lb0 & S0) & _).
  destruct (sortmerge_props ks exc s1 D Ie Fe R1) as (I1 & O1 & (lb1 & S1) & _).
  destruct (excl_walk_den ks D s0 lb0 I0 O0 S0 s1 lb1 I1 O1 S1) as (out' & E & H).
  exists out'. exact E.
Qed.

(** Exclude never invents bytes, whatever the artifacts and mappers are. *)
Lemma excl_walk_sound : forall s0, Forall okref s0 -> forall s1, Forall okref s1 ->
  forall out, excl_walk s0 s1 = Ok out -> forall a m k, den out a m k -> den s0 a m k.
Proof.
  induction s0 as [|r0 t0 IH0]; intros F0.
  { intros s1 _ out E. destruct s1; inversion E; tauto. }
  inversion F0 as [|? ? O0 Ft0]; subst.
  induction s1 as [|r1 t1 IH1]; intros F1 out E a m k H.
  { inversion E. subst out. exact H. }
  inversion F1 as [|? ? O1 Ft1]; subst.
  rewrite excl_walk_cons in E. destruct (cmp_ref r0 r1).
  - destruct (excl_walk t0 (r1 :: t1)) as [rest| | |] eqn:E'; try discriminate. cbn [bind] in E.
    inversion E. subst out. rewrite den_cons in H. rewrite den_cons. destruct H as [H | H]; [left; exact H|].
    right. exact (IH0 Ft0 (r1 :: t1) F1 rest E' a m k H).
  - destruct (excl_walk t0 t1) as [rest| | |] eqn:E'; try discriminate. cbn [bind] in E.
    pose proof (exclude_ranges_den (rranges r0) (rranges r1) k O0 O1) as X.
    rewrite den_cons.
    destruct (exclude_ranges (rranges r0) (rranges r1)) as [|y ys]; inversion E; subst out.
    + right. exact (IH0 Ft0 t1 Ft1 rest E' a m k H).
    + rewrite den_cons, hit_set_ranges in H. destruct H as [H | H].
      * left. unfold hit. tauto.
      * right. exact (IH0 Ft0 t1 Ft1 rest E' a m k H).
  - exact (IH1 Ft1 out E a m k H).
  - discriminate.
Qed.

Lemma exclude_sound s exc out : NoOverflow (s ++ exc) -> exclude_rel s exc out ->
  forall a m k, den out a m k -> den s a m k.
Proof.
  intros F [(-> & ->) | (NE & s0 & s1 & R0 & R1 & W)] a m k H; [exact H|].
  apply Forall_app in F. destruct F as (Fs & Fe).
  assert (okout : forall x y, NoOverflow x -> sortmerge_rel x y -> Forall okref y).
  { intros x y Fx (C & s' & P & S & ->).
    assert (F' : Forall okref s') by (eapply Permutation_Forall; eassumption).
    pose proof (okref_map_norm s' F') as Fn. unfold refs_sm_sorted.
    destruct (map _ s') as [|r t]; [constructor|]. inversion Fn; subst.
    eapply Forall_impl; [|apply sm_loop_ok; eassumption]. cbn beta. tauto. }
  apply (sortmerge_den s s0 Fs R0).
  exact (excl_walk_sound s0 (okout s s0 Fs R0) s1 (okout exc s1 Fe R1) out W a m k H).
Qed.

(** ** RawBytes.ReadAt *)

Lemma zlen_nonneg {A} (l : list A) : 0 <= zlen l.
Proof. unfold zlen. lia. Qed.

Lemma slice_length b off n : 0 <= off -> 0 <= n -> off + n <= zlen b -> zlen (slice b off n) = n.
Proof.
  unfold slice, zlen. intros. rewrite firstn_length, skipn_length. lia.
Qed.

Lemma readat_raw_neg b p off : off < 0 -> readat_raw b p off = Panic.
Proof.
  intros H. unfold readat_raw. pose proof (zlen_nonneg b).
  destruct (zlen b <=? off) eqn:E; [apply Z.leb_le in E; lia|].
  destruct (off <? 0) eqn:E2; [reflexivity | apply Z.ltb_ge in E2; lia].
Qed.

Lemma readat_raw_eof b p off : zlen b <= off -> readat_raw b p off = Ok (mkRd 0 p 1).
Proof. intros H. unfold readat_raw. apply Z.leb_le in H. rewrite H. reflexivity. Qed.

Lemma readat_raw_inside b p off : 0 <= off < zlen b ->
  let n := Z.min (zlen b - off) (zlen p) in
  exists p', readat_raw b p off = Ok (mkRd n p' 0) /\
    0 <= n <= zlen p /\ zlen p' = zlen p /\
    firstn (Z.to_nat n) p' = slice b off n /\ skipn (Z.to_nat n) p' = skipn (Z.to_nat n) p.
Proof.
  intros H n. unfold readat_raw. pose proof (zlen_nonneg p).
  destruct (zlen b <=? off) eqn:E; [apply Z.leb_le in E; lia|].
  destruct (off <? 0) eqn:E2; [apply Z.ltb_lt in E2; lia|].
  fold n. eexists. split; [reflexivity|].
  assert (L : zlen (slice b off n) = n) by (apply slice_length; lia).
  assert (Ln : length (slice b off n) = Z.to_nat n) by (unfold zlen in L; lia).
  split; [lia|]. split; [|split].
  - unfold zlen in *. rewrite app_length, skipn_length. lia.
  - rewrite <- Ln. rewrite firstn_app, Nat.sub_diag, firstn_all. cbn [firstn]. apply app_nil_r.
  - rewrite <- Ln at 1. rewrite skipn_app, Nat.sub_diag, skipn_all. reflexivity.
Qed.

(** ** Reference.RawBytes / References.RawBytes *)

Definition slice_of (a : art) (mr : range) : list Z := slice (acontent a) (roff mr) (rlen mr).

(** the bytes one merged range contributes: its resolved ranges, read in order *)
Definition bytes_of_range (r : ref) (x : range) : list Z :=
  match resolve1 (rmap r) (zlen (acontent (rart r))) x with
  | Ok mrs => flat_map (slice_of (rart r)) mrs
  | _ => []
  end.

Definition inb64 (mr : range) : Prop := 0 <= rlen mr < W64 /\ 0 <= roff mr < W64.

Lemma to_i64_zero z : 0 <= z < W64 -> to_i64 z = 0 -> z = 0.
Proof. unfold to_i64, W64. intros. destruct (z <? 9223372036854775808); lia. Qed.
Lemma to_i64_nonneg z : 0 <= z < W64 -> 0 <= to_i64 z -> to_i64 z = z /\ z < 9223372036854775808.
Proof.
  unfold to_i64, W64. intros. destruct (z <? 9223372036854775808) eqn:E; [apply Z.ltb_lt in E; lia | lia].
Qed.

Lemma zlen_repeat n : 0 <= n -> zlen (repeat 0 (Z.to_nat n)) = n.
Proof. intros. unfold zlen. rewrite repeat_length. lia. Qed.

Lemma slice_zero b off : slice b off 0 = [].
Proof. reflexivity. Qed.

Lemma read_one a mr rd : inb64 mr ->
  art_readat a (repeat 0 (Z.to_nat (rlen mr))) (to_i64 (roff mr)) = Ok rd ->
  rd_n rd = to_i64 (rlen mr) ->
  rd_p rd = slice_of a mr /\ (rlen mr = 0 \/ roff mr + rlen mr <= zlen (acontent a)).
Proof.
  intros ((L0 & L1) & (O0 & O1)) E N. unfold slice_of.
  set (b := acontent a) in *. set (p := repeat 0 (Z.to_nat (rlen mr))) in *.
  assert (Lp : zlen p = rlen mr) by (apply zlen_repeat; lia).
  pose proof (zlen_nonneg b) as Bn.
  assert (Zero : rlen mr = 0 -> p = [] /\ slice b (roff mr) (rlen mr) = []).
  { intros Z0. unfold p. rewrite Z0. split; reflexivity. }
  assert (Inside : 0 <= to_i64 (roff mr) < zlen b ->
            rd_n rd = Z.min (zlen b - to_i64 (roff mr)) (zlen p) ->
            rd_p rd = slice b (to_i64 (roff mr)) (rd_n rd) ++ skipn (Z.to_nat (rd_n rd)) p ->
            rd_p rd = slice b (roff mr) (rlen mr) /\ (rlen mr = 0 \/ roff mr + rlen mr <= zlen b)).
  { intros Hin Hn Hp. destruct (to_i64_nonneg (roff mr)) as (Eo & _); [lia | lia |].
    rewrite Eo in *. rewrite Lp in Hn.
    assert (0 <= to_i64 (rlen mr)) by lia.
    destruct (to_i64_nonneg (rlen mr)) as (El & _); [lia | lia |].
    rewrite El in N. rewrite N in Hp. split; [|right; lia].
    rewrite Hp. rewrite skipn_all2; [apply app_nil_r|]. unfold zlen in Lp. lia. }
  unfold art_readat in E. destruct (araw a).
  - unfold readat_raw in E. fold b in E.
    destruct (zlen b <=? to_i64 (roff mr)) eqn:E1.
    + inversion E. subst rd. cbn [rd_n rd_p] in *. symmetry in N. apply to_i64_zero in N; [|lia].
      destruct (Zero N) as (-> & ->). split; [reflexivity | left; exact N].
    + apply Z.leb_gt in E1. destruct (to_i64 (roff mr) <? 0) eqn:E2; [discriminate|]. apply Z.ltb_ge in E2.
      inversion E. subst rd. cbn [rd_n rd_p] in *. apply Inside; [lia | reflexivity | reflexivity].
  - unfold readat_reader in E. fold b in E.
    destruct (to_i64 (roff mr) <? 0) eqn:E2.
    + inversion E. subst rd. cbn [rd_n rd_p] in *. symmetry in N. apply to_i64_zero in N; [|lia].
      destruct (Zero N) as (-> & ->). split; [reflexivity | left; exact N].
    + apply Z.ltb_ge in E2. destruct (zlen b <=? to_i64 (roff mr)) eqn:E1.
      * inversion E. subst rd. cbn [rd_n rd_p] in *. symmetry in N. apply to_i64_zero in N; [|lia].
        destruct (Zero N) as (-> & ->). split; [reflexivity | left; exact N].
      * apply Z.leb_gt in E1. inversion E. subst rd. cbn [rd_n rd_p] in *.
        apply Inside; [lia | reflexivity | reflexivity].
Qed.

Lemma read_mapped_spec a total mrs : forall cur acc cur' acc', Forall inb64 mrs ->
  read_mapped a total mrs cur acc = Ok (cur', acc') ->
  acc' = acc ++ flat_map (slice_of a) mrs /\
  Forall (fun mr => rlen mr = 0 \/ roff mr + rlen mr <= zlen (acontent a)) mrs.
Proof.
  induction mrs as [|mr t IH]; intros cur acc cur' acc' F E; cbn [read_mapped] in E.
  - inversion E. subst. cbn [flat_map]. rewrite app_nil_r. split; [reflexivity | constructor].
  - inversion F as [|? ? Fm Ft]; subst.
    destruct ((wrap64 (cur + rlen mr) <? cur) || (total <? wrap64 (cur + rlen mr))); [discriminate|].
    destruct (art_readat a (repeat 0 (Z.to_nat (rlen mr))) (to_i64 (roff mr))) as [rd| | |] eqn:R; try discriminate.
    destruct (rd_n rd =? to_i64 (rlen mr)) eqn:N; [|discriminate]. apply Z.eqb_eq in N.
    destruct (read_one a mr rd Fm R N) as (P & B).
    destruct (IH _ _ _ _ Ft E) as (-> & Bt). rewrite P. cbn [flat_map]. rewrite app_assoc.
    split; [reflexivity | constructor; assumption].
Qed.

Lemma wrap64_range z : 0 <= wrap64 z < W64.
Proof. rewrite wrap64_mod. apply Z.mod_pos_bound. reflexivity. Qed.

Lemma resolve1_inb64 m size x mrs : 0 <= rlen x < W64 -> 0 <= roff x < W64 ->
  resolve1 m size x = Ok mrs -> Forall inb64 mrs.
Proof.
  intros L O E. destruct m as [| |d sp fa]; cbn [resolve1] in E.
  - inversion E. constructor; [split; assumption | constructor].
  - inversion E. constructor; [|constructor]. split; cbn [roff rlen]; [assumption | apply wrap64_range].
  - destruct (fa <=? roff x); [discriminate|].
    destruct (sp && (2 <=? rlen x)) eqn:S; inversion E.
    + apply andb_prop in S. destruct S as (_ & S). apply Z.leb_le in S.
      assert (0 <= rlen x / 2 <= rlen x) by (split; [apply Z.div_pos; lia | apply Z.div_le_upper_bound; lia]).
      constructor; [|constructor; [|constructor]]; split; cbn [roff rlen]; try apply wrap64_range; lia.
    + constructor; [|constructor]. split; cbn [roff rlen]; [assumption | apply wrap64_range].
Qed.

Lemma read_ranges_spec r total rs : forall cur acc bs, Forall okr rs ->
  read_ranges r total rs cur acc = Ok bs ->
  bs = acc ++ flat_map (bytes_of_range r) rs.
Proof.
  induction rs as [|x t IH]; intros cur acc bs F E; cbn [read_ranges] in E.
  - inversion E. cbn [flat_map]. rewrite app_nil_r. reflexivity.
  - inversion F as [|? ? (X0 & X1 & X2) Ft]; subst.
    cbn [flat_map]. unfold bytes_of_range at 1.
    destruct (resolve1 (rmap r) (zlen (acontent (rart r))) x) as [mrs| | |] eqn:R; try discriminate.
    destruct (read_mapped (rart r) total mrs cur acc) as [[cur' acc']| | |] eqn:M; try discriminate.
    assert (Fm : Forall inb64 mrs) by (eapply resolve1_inb64; [| |exact R]; lia).
    destruct (read_mapped_spec _ _ _ _ _ _ _ Fm M) as (-> & _).
    rewrite (IH _ _ _ Ft E). rewrite app_assoc. reflexivity.
Qed.

Lemma ref_rawbytes_spec r bs : okref r -> ref_rawbytes r = Ok bs ->
  bs = flat_map (bytes_of_range r) (ranges_sm (rranges r)).
Proof.
  intros O E. unfold ref_rawbytes in E.
  apply read_ranges_spec in E; [exact E | apply ranges_sm_sep; exact O].
Qed.

(** every byte the reference names through a nil mapper lies inside the artifact
    when RawBytes returns *)
Lemma read_ranges_inbounds r total rs : rmap r = MNil -> forall cur acc bs, Forall okr rs ->
  read_ranges r total rs cur acc = Ok bs ->
  Forall (fun x => rlen x = 0 \/ roff x + rlen x <= zlen (acontent (rart r))) rs.
Proof.
  intros Mn. induction rs as [|x t IH]; intros cur acc bs F E; [constructor|].
  inversion F as [|? ? (X0 & X1 & X2) Ft]; subst. cbn [read_ranges] in E. rewrite Mn in E. cbn [resolve1] in E.
  destruct (read_mapped (rart r) total [x] cur acc) as [[cur' acc']| | |] eqn:M; try discriminate.
  assert (Fm : Forall inb64 [x]) by (constructor; [split; lia | constructor]).
  destruct (read_mapped_spec _ _ _ _ _ _ _ Fm M) as (_ & B). inversion B as [|? ? Bx _]; subst.
  constructor; [exact Bx|]. exact (IH _ _ _ Ft E).
Qed.
Lemma ref_rawbytes_inbounds r bs : okref r -> rmap r = MNil -> ref_rawbytes r = Ok bs ->
  Forall (fun x => rlen x = 0 \/ roff x + rlen x <= zlen (acontent (rart r))) (ranges_sm (rranges r)).
Proof.
  intros O Mn E. unfold ref_rawbytes in E.
  eapply read_ranges_inbounds; [exact Mn | apply ranges_sm_sep; exact O | exact E].
Qed.

(** neither function returns an error value: bytes or a panic *)
Lemma read_mapped_no_err a total mrs : forall cur acc,
  (exists v, read_mapped a total mrs cur acc = Ok v) \/ read_mapped a total mrs cur acc = Panic.
Proof.
  induction mrs as [|mr t IH]; intros cur acc; cbn [read_mapped]; [left; eexists; reflexivity|].
  destruct (_ || _); [right; reflexivity|].
  destruct (art_readat _ _ _); try (right; reflexivity).
  destruct (_ =? _); [apply IH | right; reflexivity].
Qed.
Lemma read_ranges_no_err r total rs : forall cur acc,
  (exists v, read_ranges r total rs cur acc = Ok v) \/ read_ranges r total rs cur acc = Panic.
Proof.
  induction rs as [|x t IH]; intros cur acc; cbn [read_ranges]; [left; eexists; reflexivity|].
  destruct (resolve1 _ _ _); try (right; reflexivity).
  destruct (read_mapped_no_err (rart r) total a cur acc) as [((c & v) & ->) | ->]; [apply IH | right; reflexivity].
Qed.
Lemma ref_rawbytes_no_err r : (exists v, ref_rawbytes r = Ok v) \/ ref_rawbytes r = Panic.
Proof. apply read_ranges_no_err. Qed.

Lemma refs_rawbytes_concat s bs :
  refs_rawbytes s = Ok bs <->
  exists parts, Forall2 (fun r b => ref_rawbytes r = Ok b) s parts /\ bs = concat parts.
Proof.
  revert bs. induction s as [|r t IH]; intros bs; cbn [refs_rawbytes].
  - split.
    + intros E. inversion E. exists []. split; [constructor | reflexivity].
    + intros (parts & F & ->). inversion F. reflexivity.
  - split.
    + intros E. destruct (ref_rawbytes r) as [a| | |] eqn:Er; try discriminate. cbn [bind] in E.
      destruct (refs_rawbytes t) as [b| | |] eqn:Et; try discriminate. cbn [bind] in E. inversion E.
      destruct (proj1 (IH b) eq_refl) as (parts & F & ->).
      exists (a :: parts). split; [constructor; assumption | reflexivity].
    + intros (parts & F & ->). inversion F as [|? b ? ps Hr Ft]; subst. rewrite Hr. cbn [bind].
      rewrite (proj2 (IH (concat ps))); [reflexivity|]. exists ps. split; [assumption | reflexivity].
Qed.

Lemma refs_rawbytes_panic s : refs_rawbytes s = Panic <-> exists r, In r s /\ ref_rawbytes r = Panic.
Proof.
  induction s as [|r t IH]; cbn [refs_rawbytes].
  - split; [discriminate | intros (r & [] & _)].
  - destruct (ref_rawbytes_no_err r) as [(a & Er) | Er]; rewrite Er; cbn [bind].
    + destruct (refs_rawbytes t) as [b| | |] eqn:Et; cbn [bind].
      * split; [discriminate|]. intros (x & [<- | I] & P); [congruence|].
        assert (Ok b = Panic) by (apply IH; exists x; split; assumption). discriminate.
      * split; [discriminate|]. intros (x & [<- | I] & P); [congruence|].
        assert (@Err (list Z) code = Panic) by (apply IH; exists x; split; assumption). discriminate.
      * split; [|reflexivity]. intros _. destruct (proj1 IH eq_refl) as (x & I & P).
        exists x. split; [right; exact I | exact P].
      * split; [discriminate|]. intros (x & [<- | I] & P); [congruence|].
        assert (@OutOfFuel (list Z) = Panic) by (apply IH; exists x; split; assumption). discriminate.
    + split; [|reflexivity]. intros _. exists r. split; [left; reflexivity | exact Er].
Qed.

(** ** Boolean checkers for the hypotheses (used by closed witnesses and examples) *)

Definition okrb (r : range) : bool := (0 <=? roff r) && (0 <=? rlen r) && (roff r + rlen r <? W64).
Definition no_overflowb (s : list ref) : bool := forallb (fun r => forallb okrb (rranges r)) s.
Lemma no_overflowb_spec s : no_overflowb s = true -> NoOverflow s.
Proof.
  unfold no_overflowb, NoOverflow, okref. rewrite forallb_forall, Forall_forall.
  intros H r I. specialize (H r I). rewrite forallb_forall in H. apply Forall_forall.
  intros x Ix. specialize (H x Ix). unfold okrb in H.
  apply andb_prop in H. destruct H as (H & H3). apply andb_prop in H. destruct H as (H1 & H2).
  apply Z.leb_le in H1, H2. apply Z.ltb_lt in H3. unfold okr. tauto.
Qed.

Definition distk2b (k1 k2 : art * mapper) : bool :=
  Bool.eqb (aid (fst k1) =? aid (fst k2)) (tname (fst k1) =? tname (fst k2)) &&
  (negb (aid (fst k1) =? aid (fst k2)) || mapper_eqb (snd k1) (snd k2)).
Definition distinguishableb (s : list ref) : bool :=
  forallb (fun k1 => forallb (distk2b k1) (keys s)) (keys s).
Lemma distinguishableb_spec s : distinguishableb s = true -> Distinguishable s.
Proof.
  unfold distinguishableb, Distinguishable, DistK. rewrite forallb_forall.
  intros H k1 k2 I1 I2. specialize (H k1 I1). rewrite forallb_forall in H. specialize (H k2 I2).
  unfold distk2b in H. apply andb_prop in H. destruct H as (H1 & H2). apply Bool.eqb_prop in H1.
  split.
  - rewrite <- !Z.eqb_eq. rewrite H1. tauto.
  - intros E. apply Z.eqb_eq in E. rewrite E in H2. cbn [negb orb] in H2. apply mapper_eqb_eq. exact H2.
Qed.

Lemma has_conflict_in s : has_conflict s = true -> exists a b, In a s /\ In b s /\ cmp_ref a b = CPanic.
Proof.
  induction s as [|a t IH]; cbn [has_conflict]; [discriminate|].
  intros H. apply Bool.orb_true_iff in H. destruct H as [H | H].
  - apply existsb_exists in H. destruct H as (b & Ib & Hb). exists a, b.
    split; [left; reflexivity|]. split; [right; exact Ib|]. destruct (cmp_ref a b); try discriminate. reflexivity.
  - destruct (IH H) as (x & y & Ix & Iy & C). exists x, y. split; [right; exact Ix|]. split; [right; exact Iy | exact C].
Qed.

(** under the assumption the comparator never panics *)
Lemma dist_no_conflict s : Distinguishable s -> has_conflict s = false.
Proof.
  intros D. destruct (has_conflict s) eqn:C; [|reflexivity].
  destruct (has_conflict_in s C) as (a & b & Ia & Ib & P).
  destruct (cmp_ref_dist (keys s) a b D (in_keys _ _ Ia) (in_keys _ _ Ib)) as [(E & _) | [(E & _) | (E & _)]];
    rewrite E in P; discriminate.
Qed.
