(** Proofs about the slice-level model of the combination iterator
    (Model/CombHeap.v): who can write which backing array. *)
From CSS Require Import Lib.Base Lib.Cases Model.Comb Model.CombHeap Model.CombCases.
From Coq Require Import Lia.

(** * Memory *)

Lemma length_wr : forall h a v, length (wr h a v) = length h.
Proof. induction h as [|x h IH]; intros [|a] v; cbn; auto. Qed.

Lemma rd_wr_same : forall h a v, (a < length h)%nat -> rd (wr h a v) a = v.
Proof.
  unfold rd. induction h as [|x h IH]; intros [|a] v H; cbn in *; try lia; auto.
  apply IH. lia.
Qed.

Lemma rd_wr_other : forall h a b v, a <> b -> rd (wr h a v) b = rd h b.
Proof.
  unfold rd. induction h as [|x h IH]; intros [|a] [|b] v H; cbn; auto; try congruence.
Qed.

Lemma rd_app_old : forall h l a, (a < length h)%nat -> rd (h ++ l) a = rd h a.
Proof. intros. unfold rd. apply app_nth1. assumption. Qed.

Lemma rd_app_new : forall h v, rd (h ++ [v]) (length h) = v.
Proof. intros. unfold rd. rewrite app_nth2 by lia. rewrite Nat.sub_diag. reflexivity. Qed.

Arguments rd : simpl never.

(** * Well-formed states: every reference points into the memory, and no two
      iterator objects share a backing array *)

Definition WF (st : hstate) : Prop :=
  Forall (fun it => (it_arr it < length (h_mem st))%nat) (h_iters st) /\
  Forall (fun a => (a < length (h_mem st))%nat) (h_res st) /\
  NoDup (map it_arr (h_iters st)).

Lemma WF_init : WF hinit.
Proof. repeat split; constructor. Qed.

Lemma Forall_lt_mono : forall {X} (f : X -> nat) l n n', (n <= n')%nat ->
  Forall (fun x => (f x < n)%nat) l -> Forall (fun x => (f x < n')%nat) l.
Proof. intros X f l n n' Hn H. eapply Forall_impl; [|exact H]. cbn. intros. lia. Qed.

Lemma nth_error_arr_lt : forall st i it, WF st -> nth_error (h_iters st) i = Some it ->
  (it_arr it < length (h_mem st))%nat.
Proof.
  intros st i it (Hi & _ & _) H. rewrite Forall_forall in Hi. apply Hi.
  eapply nth_error_In; eauto.
Qed.

Lemma NoDup_app_fresh : forall (l : list nat) n, NoDup l -> (forall x, In x l -> (x < n)%nat) ->
  NoDup (l ++ [n]).
Proof.
  induction l as [|y l IH]; intros n Hnd Hlt; cbn.
  - constructor; [intros []|constructor].
  - inversion Hnd; subst. constructor.
    + rewrite in_app_iff. intros [Hin|[E|[]]]; [contradiction|].
      specialize (Hlt y (or_introl eq_refl)). lia.
    + apply IH; auto. intros x Hx. apply Hlt. right. exact Hx.
Qed.

Ltac with_it H it Hit :=
  unfold with_iter in H;
  match type of H with
  | context [nth_error ?l ?i] => destruct (nth_error l i) as [it|] eqn:Hit; [|discriminate H]
  end.

Theorem step_WF : forall o st st' e, WF st -> step o st = Ok (st', e) -> WF st'.
Proof.
  intros o st st' e HW H. pose proof HW as (Hi & Hr & Hnd).
  destruct o; cbn [step] in H.
  - (* ONew *) inversion H; subst; clear H. unfold WF; cbn. rewrite app_length; cbn. repeat split.
    + apply Forall_app. split.
      * eapply Forall_lt_mono; [|exact Hi]. lia.
      * constructor; [cbn; lia|constructor].
    + eapply Forall_lt_mono with (f := fun a => a); [|exact Hr]. lia.
    + rewrite map_app. cbn. apply NoDup_app_fresh; auto.
      intros x Hx. apply in_map_iff in Hx as (it & <- & Hin). rewrite Forall_forall in Hi. auto.
  - (* ONext *) with_it H it Hit. destruct (next _ _) as [more s']. inversion H; subst; clear H.
    unfold WF; cbn. rewrite length_wr. auto.
  - (* OSeek *) with_it H it Hit. destruct (seek _ _ _) as [s'| | |]; cbn in H; try discriminate.
    inversion H; subst; clear H. unfold WF; cbn. rewrite length_wr. auto.
  - (* OGet *) with_it H it Hit. inversion H; subst; clear H. unfold WF; cbn. rewrite app_length; cbn.
    repeat split.
    + eapply Forall_lt_mono; [|exact Hi]. lia.
    + apply Forall_app. split.
      * eapply Forall_lt_mono with (f := fun a => a); [|exact Hr]. lia.
      * constructor; [lia|constructor].
    + exact Hnd.
  - (* OGetUnsafe *) with_it H it Hit. inversion H; subst; clear H. unfold WF; cbn. repeat split; auto.
    apply Forall_app. split; auto. constructor; [|constructor].
    eapply nth_error_arr_lt; eauto.
  - (* OCopy *) with_it H it Hit. inversion H; subst; clear H. unfold WF; cbn. rewrite app_length; cbn.
    repeat split.
    + apply Forall_app. split.
      * eapply Forall_lt_mono; [|exact Hi]. lia.
      * constructor; [cbn; lia|constructor].
    + eapply Forall_lt_mono with (f := fun a => a); [|exact Hr]. lia.
    + rewrite map_app. cbn. apply NoDup_app_fresh; auto.
      intros x Hx. apply in_map_iff in Hx as (it' & <- & Hin). rewrite Forall_forall in Hi. auto.
  - (* OWrite *) destruct (nth_error (h_res st) r) as [a|] eqn:Hra; [|discriminate].
    destruct (Nat.ltb _ _); [|discriminate]. inversion H; subst; clear H.
    unfold WF; cbn. rewrite length_wr. auto.
  - (* OID *) with_it H it Hit. inversion H; subst. exact HW.
  - (* OAmount *) with_it H it Hit. inversion H; subst. exact HW.
Qed.

Theorem run_WF : forall ops st st' es, WF st -> run ops st = Ok (st', es) -> WF st'.
Proof.
  induction ops as [|o ops IH]; intros st st' es HW H; cbn in H.
  - inversion H; subst. exact HW.
  - destruct (step o st) as [[st1 e]| | |] eqn:Hs; cbn in H; try discriminate.
    destruct (run ops st1) as [[st2 es2]| | |] eqn:Hr; cbn in H; try discriminate.
    inversion H; subst. eapply IH; [|exact Hr]. eapply step_WF; eauto.
Qed.

(** * Which array a call writes *)

Definition target (o : op) (st : hstate) : option nat :=
  match o with
  | ONext i | OSeek i _ => option_map it_arr (nth_error (h_iters st) i)
  | OWrite r _ _ => nth_error (h_res st) r
  | _ => None
  end.

(** a call leaves every existing array alone, except its target; references
    only get added, and the added ones are either new arrays or (for the
    unsafe getter) the array of the iterator asked *)
Lemma step_frame : forall o st st' e, step o st = Ok (st', e) ->
  (length (h_mem st) <= length (h_mem st'))%nat /\
  (forall a, (a < length (h_mem st))%nat -> target o st <> Some a ->
             rd (h_mem st') a = rd (h_mem st) a) /\
  (exists li, h_iters st' = h_iters st ++ li /\
              Forall (fun it => it_arr it = length (h_mem st)) li) /\
  (exists lr, h_res st' = h_res st ++ lr /\
              Forall (fun a => a = length (h_mem st) \/
                               exists i it, o = OGetUnsafe i /\ nth_error (h_iters st) i = Some it /\
                                            a = it_arr it) lr).
Proof.
  intros o st st' e H.
  assert (Hnil_i : forall l : list iter, exists li, l = l ++ li /\ Forall (fun it => it_arr it = length (h_mem st)) li)
    by (intros l; exists []; rewrite app_nil_r; split; [reflexivity|constructor]).
  assert (Hnil_r : forall l : list nat, exists lr, l = l ++ lr /\
             Forall (fun a => a = length (h_mem st) \/
                               exists i it, o = OGetUnsafe i /\ nth_error (h_iters st) i = Some it /\
                                            a = it_arr it) lr)
    by (intros l; exists []; rewrite app_nil_r; split; [reflexivity|constructor]).
  destruct o; cbn [step] in H.
  - inversion H; subst; clear H. cbn. rewrite app_length. split; [lia|split; [|split]].
    + intros a Ha _. apply rd_app_old. exact Ha.
    + eexists. split; [reflexivity|]. constructor; [reflexivity|constructor].
    + apply Hnil_r.
  - with_it H it Hit. destruct (next _ _) as [more s']. inversion H; subst; clear H. cbn.
    rewrite length_wr. split; [lia|split; [|split]].
    + intros a Ha Ht. rewrite Hit in Ht. cbn in Ht. apply rd_wr_other. congruence.
    + apply Hnil_i.
    + apply Hnil_r.
  - with_it H it Hit. destruct (seek _ _ _) as [s'| | |]; cbn in H; try discriminate.
    inversion H; subst; clear H. cbn. rewrite length_wr. split; [lia|split; [|split]].
    + intros a Ha Ht. rewrite Hit in Ht. cbn in Ht. apply rd_wr_other. congruence.
    + apply Hnil_i.
    + apply Hnil_r.
  - with_it H it Hit. inversion H; subst; clear H. cbn. rewrite app_length. split; [lia|split; [|split]].
    + intros a Ha _. apply rd_app_old. exact Ha.
    + apply Hnil_i.
    + eexists. split; [reflexivity|]. constructor; [left; reflexivity|constructor].
  - with_it H it Hit. inversion H; subst; clear H. cbn. split; [lia|split; [|split]].
    + auto.
    + apply Hnil_i.
    + eexists. split; [reflexivity|]. constructor; [|constructor]. right. eauto.
  - with_it H it Hit. inversion H; subst; clear H. cbn. rewrite app_length. split; [lia|split; [|split]].
    + intros a Ha _. apply rd_app_old. exact Ha.
    + eexists. split; [reflexivity|]. constructor; [reflexivity|constructor].
    + apply Hnil_r.
  - destruct (nth_error (h_res st) r) as [a0|] eqn:Hra; [|discriminate].
    destruct (Nat.ltb _ _); [|discriminate]. inversion H; subst; clear H. cbn.
    rewrite length_wr. split; [lia|split; [|split]].
    + intros a Ha Ht. apply rd_wr_other. congruence.
    + apply Hnil_i.
    + apply Hnil_r.
  - with_it H it Hit. inversion H; subst. split; [lia|split; [|split]]; auto.
  - with_it H it Hit. inversion H; subst. split; [lia|split; [|split]]; auto.
Qed.

Lemma nth_error_app_cases : forall {X} (l l' : list X) n x,
  nth_error (l ++ l') n = Some x -> nth_error l n = Some x \/ ((length l <= n)%nat /\ In x l').
Proof.
  intros X l l' n x H. destruct (Nat.lt_ge_cases n (length l)) as [Hlt|Hge].
  - left. rewrite nth_error_app1 in H; assumption.
  - right. split; [assumption|]. rewrite nth_error_app2 in H by assumption.
    eapply nth_error_In; eauto.
Qed.

Lemma nth_error_app_keep : forall {X} (l l' : list X) n x,
  nth_error l n = Some x -> nth_error (l ++ l') n = Some x.
Proof.
  intros X l l' n x H. rewrite nth_error_app1; [exact H|]. apply nth_error_Some. congruence.
Qed.

(** * A combination returned by GetCombination is the caller's own *)

(** [r] names array [a], no iterator works on [a], and no other handle names it *)
Definition Detached (st : hstate) (r a : nat) : Prop :=
  nth_error (h_res st) r = Some a /\ (a < length (h_mem st))%nat /\
  ~ In a (map it_arr (h_iters st)) /\
  (forall r', nth_error (h_res st) r' = Some a -> r' = r).

Lemma detached_step : forall st r a o st' e,
  Detached st r a -> step o st = Ok (st', e) -> (forall j v, o <> OWrite r j v) ->
  Detached st' r a /\ rd (h_mem st') a = rd (h_mem st) a.
Proof.
  intros st r a o st' e (Hr & Ha & Hni & Hu) Hs Hno.
  destruct (step_frame _ _ _ _ Hs) as (Hlen & Hfr & (li & Eli & Hli) & (lr & Elr & Hlr)).
  assert (Ht : target o st <> Some a).
  { destruct o; cbn; try discriminate.
    - destruct (nth_error (h_iters st) i) as [it|] eqn:Hit; cbn; [|discriminate].
      intros E. inversion E. apply Hni. apply in_map_iff. exists it. split; [assumption|].
      eapply nth_error_In; eauto.
    - destruct (nth_error (h_iters st) i) as [it|] eqn:Hit; cbn; [|discriminate].
      intros E. inversion E. apply Hni. apply in_map_iff. exists it. split; [assumption|].
      eapply nth_error_In; eauto.
    - intros E. apply Hu in E. subst r0. eapply Hno. reflexivity. }
  split; [|apply Hfr; assumption].
  unfold Detached. rewrite Eli, Elr. repeat split.
  - apply nth_error_app_keep. exact Hr.
  - lia.
  - rewrite map_app, in_app_iff. intros [Hin|Hin]; [contradiction|].
    apply in_map_iff in Hin as (it & Eit & Hin). rewrite Forall_forall in Hli.
    apply Hli in Hin. lia.
  - intros r' Hr'. apply nth_error_app_cases in Hr' as [Hr'|(_ & Hin)]; [auto|].
    rewrite Forall_forall in Hlr. apply Hlr in Hin as [E|(i & it & _ & Hit & E)]; [lia|].
    exfalso. apply Hni. apply in_map_iff. exists it. split; [congruence|].
    eapply nth_error_In; eauto.
Qed.

Lemma detached_run : forall ops st r a st' es,
  Detached st r a -> run ops st = Ok (st', es) -> (forall j v, ~ In (OWrite r j v) ops) ->
  Detached st' r a /\ rd (h_mem st') a = rd (h_mem st) a.
Proof.
  induction ops as [|o ops IH]; intros st r a st' es HD H Hno; cbn in H.
  - inversion H; subst. auto.
  - destruct (step o st) as [[st1 e]| | |] eqn:Hs; cbn in H; try discriminate.
    destruct (run ops st1) as [[st2 es2]| | |] eqn:Hr; cbn in H; try discriminate.
    inversion H; subst.
    destruct (detached_step _ _ _ _ _ _ HD Hs) as (HD1 & E1).
    { intros j v E. apply (Hno j v). left. auto. }
    destruct (IH _ _ _ _ _ HD1 Hr) as (HD2 & E2).
    { intros j v Hin. apply (Hno j v). right. exact Hin. }
    split; [exact HD2|congruence].
Qed.

Lemma result_detached : forall st r a, Detached st r a -> result st r = rd (h_mem st) a.
Proof.
  intros st r a (Hr & _). unfold result. erewrite nth_error_nth; eauto.
Qed.

(** what GetCombination does: one new array holding the iterator's current
    combination; nothing that existed before is touched *)
Theorem get_spec : forall st i st1 e, WF st -> step (OGet i) st = Ok (st1, e) ->
  Detached st1 (length (h_res st)) (length (h_mem st)) /\
  results st1 = results st ++ [current st i] /\
  currents st1 = currents st /\ h_iters st1 = h_iters st /\ e = ENone /\
  result st1 (length (h_res st)) = current st i.
Proof.
  intros st i st1 e HW H. pose proof HW as (Hi & Hr & Hnd). cbn [step] in H.
  with_it H it Hit. inversion H; subst; clear H. cbn [h_mem h_iters h_res].
  split; [|split; [|split; [|split; [reflexivity|split; [reflexivity|]]]]].
  4: { unfold result, current; cbn. rewrite Hit. rewrite (app_nth2 (h_res st)) by lia. rewrite Nat.sub_diag. cbn [nth].
       apply rd_app_new. }
  - unfold Detached; cbn. rewrite nth_error_app2 by lia. rewrite Nat.sub_diag.
    split; [reflexivity|split; [|split]].
    + rewrite app_length; cbn; lia.
    + intros Hin. apply in_map_iff in Hin as (it' & E & Hin). rewrite Forall_forall in Hi.
      apply Hi in Hin. lia.
    + intros r' Hr'.
      assert (Hlt : (r' < length (h_res st ++ [length (h_mem st)]))%nat)
        by (apply nth_error_Some; congruence).
      rewrite app_length in Hlt; cbn in Hlt.
      apply nth_error_app_cases in Hr' as [Hr'|(Hge & _)]; [|lia].
      rewrite Forall_forall in Hr. apply nth_error_In in Hr'. apply Hr in Hr'. lia.
  - unfold results, current; cbn. rewrite Hit. rewrite map_app; cbn. rewrite rd_app_new. f_equal.
    apply map_ext_in. intros a Ha. rewrite Forall_forall in Hr. apply rd_app_old. auto.
  - unfold currents; cbn. apply map_ext_in. intros it' Hin. rewrite Forall_forall in Hi.
    apply rd_app_old. auto.
Qed.

(** the combination returned by GetCombination keeps its value through any
    later calls, as long as the caller does not write it himself *)
Theorem get_stable : forall st i st1 e ops st2 es,
  WF st -> step (OGet i) st = Ok (st1, e) -> run ops st1 = Ok (st2, es) ->
  (forall j v, ~ In (OWrite (length (h_res st)) j v) ops) ->
  result st2 (length (h_res st)) = current st i /\ result st1 (length (h_res st)) = current st i.
Proof.
  intros st i st1 e ops st2 es HW Hs Hr Hno.
  destruct (get_spec _ _ _ _ HW Hs) as (HD & _ & _ & _ & _ & E1).
  split; [|exact E1].
  destruct (detached_run _ _ _ _ _ _ HD Hr Hno) as (HD2 & E2).
  rewrite (result_detached _ _ _ HD2), E2, <- (result_detached _ _ _ HD). exact E1.
Qed.

(** * An iterator whose array nobody else can reach *)

(** the call is made on iterator [i] and can write its array or hand it out *)
Definition addresses (o : op) (i : nat) : Prop :=
  match o with
  | ONext i' | OSeek i' _ | OGetUnsafe i' => i' = i
  | _ => False
  end.

(** iterator [i] works on array [a], no other iterator does, and the caller
    holds no reference to it *)
Definition Private (st : hstate) (i a : nat) : Prop :=
  (exists it, nth_error (h_iters st) i = Some it /\ it_arr it = a) /\
  (a < length (h_mem st))%nat /\
  (forall i' it', nth_error (h_iters st) i' = Some it' -> it_arr it' = a -> i' = i) /\
  ~ In a (h_res st).

Lemma private_step : forall st i a o st' e,
  Private st i a -> step o st = Ok (st', e) -> ~ addresses o i ->
  Private st' i a /\ rd (h_mem st') a = rd (h_mem st) a.
Proof.
  intros st i a o st' e ((it & Hit & Ea) & Ha & Hu & Hnr) Hs Hno.
  destruct (step_frame _ _ _ _ Hs) as (Hlen & Hfr & (li & Eli & Hli) & (lr & Elr & Hlr)).
  assert (Ht : target o st <> Some a).
  { destruct o; cbn; try discriminate.
    - destruct (nth_error (h_iters st) i0) as [it0|] eqn:Hit0; cbn; [|discriminate].
      intros E. inversion E. apply Hno. cbn. eapply Hu; eauto.
    - destruct (nth_error (h_iters st) i0) as [it0|] eqn:Hit0; cbn; [|discriminate].
      intros E. inversion E. apply Hno. cbn. eapply Hu; eauto.
    - intros E. apply Hnr. eapply nth_error_In; eauto. }
  split; [|apply Hfr; assumption].
  unfold Private. rewrite Eli, Elr. split; [|split; [|split]].
  - exists it. split; [apply nth_error_app_keep; exact Hit|exact Ea].
  - lia.
  - intros i' it' Hi' Ea'. apply nth_error_app_cases in Hi' as [Hi'|(_ & Hin)]; [eauto|].
    rewrite Forall_forall in Hli. apply Hli in Hin. lia.
  - rewrite in_app_iff. intros [Hin|Hin]; [contradiction|].
    rewrite Forall_forall in Hlr. apply Hlr in Hin as [E|(i0 & it0 & Eo & Hit0 & E)]; [lia|].
    subst o. apply Hno. cbn. eapply Hu; eauto.
Qed.

Lemma current_private : forall st i a, Private st i a -> current st i = rd (h_mem st) a.
Proof. intros st i a ((it & Hit & Ea) & _). unfold current. rewrite Hit, Ea. reflexivity. Qed.

(** calls that are not made on iterator [i] do not move it *)
Theorem iter_frame : forall ops st i a st' es,
  Private st i a -> run ops st = Ok (st', es) -> (forall o, In o ops -> ~ addresses o i) ->
  Private st' i a /\ current st' i = current st i.
Proof.
  induction ops as [|o ops IH]; intros st i a st' es HP H Hno; cbn in H.
  - inversion H; subst. auto.
  - destruct (step o st) as [[st1 e]| | |] eqn:Hs; cbn in H; try discriminate.
    destruct (run ops st1) as [[st2 es2]| | |] eqn:Hr; cbn in H; try discriminate.
    inversion H; subst.
    destruct (private_step _ _ _ _ _ _ HP Hs) as (HP1 & E1).
    { apply Hno. left. reflexivity. }
    destruct (IH _ _ _ _ _ HP1 Hr) as (HP2 & E2).
    { intros o' Hin. apply Hno. right. exact Hin. }
    split; [exact HP2|].
    rewrite E2, (current_private _ _ _ HP1), E1, <- (current_private _ _ _ HP). reflexivity.
Qed.

(** what Copy does: a new iterator on a new array holding the source's current
    combination; the source and everything handed out before are untouched *)
Theorem copy_spec : forall st i st1 e, WF st -> step (OCopy i) st = Ok (st1, e) ->
  Private st1 (length (h_iters st)) (length (h_mem st)) /\
  current st1 (length (h_iters st)) = current st i /\
  currents st1 = currents st ++ [current st i] /\ results st1 = results st /\
  (forall a, Private st i a -> Private st1 i a).
Proof.
  intros st i st1 e HW H. pose proof HW as (Hi & Hr & Hnd). cbn [step] in H.
  with_it H it Hit. inversion H; subst; clear H. cbn [h_mem h_iters h_res].
  assert (Ecur : current (mkH (h_mem st ++ [rd (h_mem st) (it_arr it)])
                             (h_iters st ++ [mkIter (length (h_mem st)) (it_max it)]) (h_res st))
                         (length (h_iters st)) = current st i).
  { unfold current; cbn. rewrite nth_error_app2 by lia. rewrite Nat.sub_diag. cbn.
    rewrite Hit. apply rd_app_new. }
  split; [|split; [exact Ecur|split; [|split]]].
  - unfold Private; cbn. rewrite nth_error_app2 by lia. rewrite Nat.sub_diag. cbn.
    split; [eauto|split; [|split]].
    + rewrite app_length; cbn; lia.
    + intros i' it' Hi' Ea.
      assert (Hlt : (i' < length (h_iters st ++ [mkIter (length (h_mem st)) (it_max it)]))%nat)
        by (apply nth_error_Some; congruence).
      rewrite app_length in Hlt; cbn in Hlt.
      apply nth_error_app_cases in Hi' as [Hi'|(Hge & _)]; [|lia].
      rewrite Forall_forall in Hi. apply nth_error_In in Hi'. apply Hi in Hi'. lia.
    + intros Hin. rewrite Forall_forall in Hr. apply Hr in Hin. lia.
  - unfold currents, current; cbn. rewrite Hit. rewrite map_app; cbn. rewrite rd_app_new. f_equal.
    apply map_ext_in. intros it' Hin. rewrite Forall_forall in Hi. apply rd_app_old. auto.
  - unfold results; cbn. apply map_ext_in. intros a Ha. rewrite Forall_forall in Hr.
    apply rd_app_old. auto.
  - intros a ((it0 & Hit0 & Ea) & Ha & Hu & Hnr). unfold Private; cbn. split; [|split; [|split]].
    + exists it0. split; [apply nth_error_app_keep; exact Hit0|exact Ea].
    + rewrite app_length; cbn; lia.
    + intros i' it' Hi' Ea'. apply nth_error_app_cases in Hi' as [Hi'|(_ & [E|[]])]; [eauto|].
      subst it'. cbn in Ea'. lia.
    + exact Hnr.
Qed.

(** an iterator and its copy are independent: whatever is done with the
    source (and with everything else) does not move the copy ... *)
Theorem copy_independent : forall st i st1 e ops st2 es,
  WF st -> step (OCopy i) st = Ok (st1, e) -> run ops st1 = Ok (st2, es) ->
  (forall o, In o ops -> ~ addresses o (length (h_iters st))) ->
  current st2 (length (h_iters st)) = current st i.
Proof.
  intros st i st1 e ops st2 es HW Hs Hr Hno.
  destruct (copy_spec _ _ _ _ HW Hs) as (HP & Ec & _).
  destruct (iter_frame _ _ _ _ _ _ HP Hr Hno) as (_ & E). congruence.
Qed.

(** ... and whatever is done with the copy does not move the source (provided
    the source's array was not handed out through the unsafe getter) *)
Theorem copy_source_independent : forall st i a st1 e ops st2 es,
  WF st -> Private st i a -> step (OCopy i) st = Ok (st1, e) -> run ops st1 = Ok (st2, es) ->
  (forall o, In o ops -> ~ addresses o i) ->
  current st2 i = current st i.
Proof.
  intros st i a st1 e ops st2 es HW HP Hs Hr Hno.
  destruct (copy_spec _ _ _ _ HW Hs) as (_ & _ & _ & _ & Hk).
  pose proof (Hk _ HP) as HP1.
  destruct (iter_frame _ _ _ _ _ _ HP1 Hr Hno) as (_ & E). rewrite E.
  rewrite (current_private _ _ _ HP1), (current_private _ _ _ HP).
  cbn [step] in Hs. with_it Hs it Hit. inversion Hs; subst; clear Hs. cbn.
  apply rd_app_old. destruct HP as (_ & Ha & _). exact Ha.
Qed.

(** a new iterator is private too *)
Theorem new_spec : forall st k m st1 e, WF st -> step (ONew k m) st = Ok (st1, e) ->
  Private st1 (length (h_iters st)) (length (h_mem st)) /\
  current st1 (length (h_iters st)) = first_comb k /\
  currents st1 = currents st ++ [first_comb k] /\ results st1 = results st.
Proof.
  intros st k m st1 e HW H. pose proof HW as (Hi & Hr & Hnd). cbn [step] in H.
  inversion H; subst; clear H. cbn [h_mem h_iters h_res].
  split; [|split; [|split]].
  - unfold Private; cbn. rewrite nth_error_app2 by lia. rewrite Nat.sub_diag. cbn.
    split; [eauto|split; [|split]].
    + rewrite app_length; cbn; lia.
    + intros i' it' Hi' Ea.
      assert (Hlt : (i' < length (h_iters st ++ [mkIter (length (h_mem st)) m]))%nat)
        by (apply nth_error_Some; congruence).
      rewrite app_length in Hlt; cbn in Hlt.
      apply nth_error_app_cases in Hi' as [Hi'|(Hge & _)]; [|lia].
      rewrite Forall_forall in Hi. apply nth_error_In in Hi'. apply Hi in Hi'. lia.
    + intros Hin. rewrite Forall_forall in Hr. apply Hr in Hin. lia.
  - unfold current; cbn. rewrite nth_error_app2 by lia. rewrite Nat.sub_diag. cbn. apply rd_app_new.
  - unfold currents; cbn. rewrite map_app; cbn. rewrite rd_app_new. f_equal.
    apply map_ext_in. intros it' Hin. rewrite Forall_forall in Hi. apply rd_app_old. auto.
  - unfold results; cbn. apply map_ext_in. intros a Ha. rewrite Forall_forall in Hr.
    apply rd_app_old. auto.
Qed.

(** * The value computed by Next / SetCombinationID / GetCombinationID is the one of Model/Comb.v *)

Theorem next_value : forall st i st1 e, WF st -> step (ONext i) st = Ok (st1, e) ->
  exists m, option_map it_max (nth_error (h_iters st) i) = Some m /\
    e = EBool (fst (next m (current st i))) /\ current st1 i = snd (next m (current st i)) /\
    h_iters st1 = h_iters st /\ h_res st1 = h_res st.
Proof.
  intros st i st1 e HW H. cbn [step] in H. with_it H it Hit.
  pose proof (nth_error_arr_lt _ _ _ HW Hit) as Hlt.
  unfold current. rewrite Hit. exists (it_max it). split; [reflexivity|].
  destruct (next _ _) as [more s'] eqn:En. inversion H; subst; clear H. cbn.
  rewrite Hit. rewrite rd_wr_same by exact Hlt. auto.
Qed.

Theorem seek_value : forall st i id st1 e, WF st -> step (OSeek i id) st = Ok (st1, e) ->
  exists m, option_map it_max (nth_error (h_iters st) i) = Some m /\
    seek m (length (current st i)) id = Ok (current st1 i) /\
    h_iters st1 = h_iters st /\ h_res st1 = h_res st.
Proof.
  intros st i id st1 e HW H. cbn [step] in H. with_it H it Hit.
  pose proof (nth_error_arr_lt _ _ _ HW Hit) as Hlt.
  unfold current. rewrite Hit. exists (it_max it). split; [reflexivity|].
  destruct (seek _ _ _) as [s'| | |] eqn:En; cbn in H; try discriminate.
  inversion H; subst; clear H. cbn. rewrite Hit. rewrite rd_wr_same by exact Hlt. auto.
Qed.

(** * Examples *)

(** GetCombination keeps [0;1] while the iterator moves on; the slice handed
    out by GetCombinationUnsafe is the iterator's own array and moves with it *)
Example ex_get_vs_unsafe :
  prog_obs [ONew 2 3; OGetUnsafe 0; OGet 0; ONext 0; OGet 0]
  = Ok ([ENone; ENone; ENone; EBool true; ENone], [[0; 2]; [0; 1]; [0; 2]], [[0; 2]]).
Proof. vm_compute. reflexivity. Qed.

Example ex_heap : exists st es,
  run [ONew 3 5; ONext 0; OGet 0; OCopy 0; OSeek 1 7; ONext 0] hinit = Ok (st, es) /\
  WF st /\ result st 0 = [0; 1; 3] /\ current st 0 = [0; 1; 4] /\ current st 1 = [0; 3; 4].
Proof.
  destruct (run [ONew 3 5; ONext 0; OGet 0; OCopy 0; OSeek 1 7; ONext 0] hinit) as [[st es]| | |] eqn:E;
    try (vm_compute in E; discriminate).
  exists st, es. split; [reflexivity|]. split; [exact (run_WF _ _ _ _ WF_init E)|].
  vm_compute in E. inversion E; subst. vm_compute. repeat split; reflexivity.
Qed.
