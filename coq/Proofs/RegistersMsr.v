(** Proofs for C04 — [ReadMSRRegisters], [Registers.Find], and the sparse evaluation of the
    [CTools] correspondence cases (models in Model/RegistersDec.v). *)
From Coq Require Import NArith Arith String List Lia Bool ZifyN ZifyNat ZifyBool.
From CSS Require Import Lib.SymBits Lib.RegTypes Lib.RegOblig Model.Registers Model.RegistersDec.
From CSS Require Import Proofs.SymBits Proofs.Registers Proofs.RegistersRead Proofs.RegistersDec.
Import ListNotations.
Open Scope N_scope.

(** * 4. [ReadMSRRegisters] *)

Theorem read_msrs_in : forall layout rd id v,
  In (id, v) (fst (read_msrs_from layout rd)) <-> exists a, In (id, a) layout /\ rd a = Some v.
Proof.
  induction layout as [|[i a] t IH]; intros rd id v; cbn [read_msrs_from].
  - cbn [fst]. split; [contradiction|]. intros (a & H & _). contradiction.
  - destruct (rd a) as [x|] eqn:E; cbn [fst].
    + split.
      * intros [H|H].
        -- injection H as -> ->. exists a. split; [left; reflexivity|exact E].
        -- apply IH in H. destruct H as (a' & H1 & H2). exists a'. split; [right; exact H1|exact H2].
      * intros (a' & [H1|H1] & H2).
        -- injection H1 as -> ->. left. congruence.
        -- right. apply IH. exists a'. split; assumption.
    + rewrite IH. split.
      * intros (a' & H1 & H2). exists a'. split; [right; exact H1|exact H2].
      * intros (a' & [H1|H1] & H2).
        -- injection H1 as -> ->. congruence.
        -- exists a'. split; assumption.
Qed.

Theorem read_msrs_errors : forall layout rd id,
  In id (snd (read_msrs_from layout rd)) <-> exists a, In (id, a) layout /\ rd a = None.
Proof.
  induction layout as [|[i a] t IH]; intros rd id; cbn [read_msrs_from].
  - cbn [snd]. split; [contradiction|]. intros (a & H & _). contradiction.
  - destruct (rd a) as [x|] eqn:E; cbn [snd].
    + rewrite IH. split.
      * intros (a' & H1 & H2). exists a'. split; [right; exact H1|exact H2].
      * intros (a' & [H1|H1] & H2).
        -- injection H1 as -> ->. congruence.
        -- exists a'. split; assumption.
    + split.
      * intros [H|H].
        -- subst i. exists a. split; [left; reflexivity|exact E].
        -- apply IH in H. destruct H as (a' & H1 & H2). exists a'. split; [right; exact H1|exact H2].
      * intros (a' & [H1|H1] & H2).
        -- injection H1 as -> ->. left. reflexivity.
        -- right. apply IH. exists a'. split; assumption.
Qed.

(** both lists in table order; together they are the table *)
Theorem read_msrs_order : forall layout rd,
  map fst (fst (read_msrs_from layout rd)) = map fst (filter (fun e => match rd (snd e) with Some _ => true | None => false end) layout) /\
  snd (read_msrs_from layout rd) = map fst (filter (fun e => match rd (snd e) with Some _ => false | None => true end) layout) /\
  (length (fst (read_msrs_from layout rd)) + length (snd (read_msrs_from layout rd)) = length layout)%nat.
Proof.
  induction layout as [|[i a] t IH]; intros rd; [repeat split|].
  destruct (IH rd) as (H1 & H2 & H3). cbn [read_msrs_from filter snd].
  destruct (rd a); cbn [fst snd map length]; repeat split; try congruence; lia.
Qed.

Lemma msr_ids_nodup : NoDup (map fst msr_layout).
Proof. apply nodupb_sound. vm_compute. reflexivity. Qed.
Lemma msr_addrs_nodup : NoDup (map snd msr_layout).
Proof.
  unfold msr_layout. cbn [map snd].
  repeat (constructor; [cbn [In]; intros H; repeat (destruct H as [H|H]; [discriminate H|]); exact H|]).
  constructor.
Qed.

Lemma nodup_fst_functional : forall (l : list (string * N)) id a a',
  NoDup (map fst l) -> In (id, a) l -> In (id, a') l -> a' = a.
Proof.
  induction l as [|[i x] t IH]; intros id a a' Hnd H1 H2; [contradiction|].
  cbn [map fst] in Hnd. inversion Hnd as [|? ? Hni Hnd']; subst.
  assert (Hid : forall y, In (id, y) t -> In id (map fst t)).
  { intros y Hy. change id with (fst (id, y)). apply in_map, Hy. }
  destruct H1 as [H1|H1]; destruct H2 as [H2|H2].
  - congruence.
  - injection H1 as Hi _. subst i. exfalso. apply Hni, (Hid _ H2).
  - injection H2 as Hi _. subst i. exfalso. apply Hni, (Hid _ H1).
  - apply (IH id a a' Hnd' H1 H2).
Qed.

(** The clause for MSRs: every supported MSR whose read succeeds is in the result, once, with
    the value read from ITS MSR number — whatever happens to the other reads; one whose read
    fails is not in the result but in the error. *)
Theorem read_msrs_register : forall rd id a, In (id, a) msr_layout ->
  match rd a with
  | Some v => In (id, v) (fst (read_msrs rd)) /\ (forall w, In (id, w) (fst (read_msrs rd)) -> w = v) /\
              ~ In id (snd (read_msrs rd))
  | None => In id (snd (read_msrs rd)) /\ forall w, ~ In (id, w) (fst (read_msrs rd))
  end.
Proof.
  intros rd id a Hin.
  assert (Hfun : forall a', In (id, a') msr_layout -> a' = a).
  { intros a' H'. exact (nodup_fst_functional msr_layout id a a' msr_ids_nodup Hin H'). }
  unfold read_msrs. destruct (rd a) as [v|] eqn:E.
  - split; [apply read_msrs_in; exists a; split; assumption|]. split.
    + intros w Hw. apply read_msrs_in in Hw. destruct Hw as (a' & H1 & H2).
      rewrite (Hfun a' H1) in H2. congruence.
    + intros H. apply read_msrs_errors in H. destruct H as (a' & H1 & H2).
      rewrite (Hfun a' H1) in H2. congruence.
  - split; [apply read_msrs_errors; exists a; split; assumption|].
    intros w Hw. apply read_msrs_in in Hw. destruct Hw as (a' & H1 & H2).
    rewrite (Hfun a' H1) in H2. congruence.
Qed.

(** the error is nil iff every one of the 8 reads succeeds; then all 8 registers come back, in
    table order *)
Theorem read_msrs_error_nil : forall rd,
  snd (read_msrs rd) = [] <-> forall id a, In (id, a) msr_layout -> rd a <> None.
Proof.
  intros rd. unfold read_msrs. split.
  - intros H id a Hin E. assert (Hi : In id (snd (read_msrs_from msr_layout rd))) by (apply read_msrs_errors; exists a; split; assumption).
    rewrite H in Hi. contradiction.
  - intros H. destruct (snd (read_msrs_from msr_layout rd)) as [|id t] eqn:E; [reflexivity|].
    assert (Hi : In id (snd (read_msrs_from msr_layout rd))) by (rewrite E; left; reflexivity).
    apply read_msrs_errors in Hi. destruct Hi as (a & H1 & H2). exfalso. exact (H id a H1 H2).
Qed.

(** one [Read] per table entry, in table order, with the entry's MSR number — independent of
    what the reader answers *)
Theorem msr_trace_layout : msr_trace msr_layout = [313; 314; 3200; 58; 254; 23; 498; 499].
Proof. reflexivity. Qed.

(** * 5. [Registers.Find] *)

Theorem find_reg_first : forall regs id v,
  find_reg id regs = Some v <->
  exists pre post, regs = pre ++ (id, v) :: post /\ ~ In id (map fst pre).
Proof.
  induction regs as [|[k x] t IH]; intros id v; cbn [find_reg].
  - split; [discriminate|]. intros (pre & post & H & _). destruct pre; cbn [app] in H; discriminate H.
  - destruct (String.eqb_spec k id) as [->|Hne].
    + split.
      * intros H. injection H as ->. exists [], t. split; [reflexivity|intros []].
      * intros (pre & post & H & Hni). destruct pre as [|[k' x'] pre]; cbn [app] in H.
        -- injection H as Hx _. subst x. reflexivity.
        -- injection H as Hk _ _. subst k'. exfalso. apply Hni. left. reflexivity.
    + rewrite IH. split.
      * intros (pre & post & -> & Hni). exists ((k, x) :: pre), post. split; [reflexivity|].
        intros [H|H]; [apply Hne, H|apply Hni, H].
      * intros (pre & post & H & Hni). destruct pre as [|[k' x'] pre]; cbn [app] in H.
        -- injection H as Hk _ _. exfalso. exact (Hne Hk).
        -- injection H as _ _ Ht. exists pre, post. split; [exact Ht|].
           intros Hin. apply Hni. right. exact Hin.
Qed.

Theorem find_reg_none : forall regs id, find_reg id regs = None <-> ~ In id (map fst regs).
Proof.
  induction regs as [|[k x] t IH]; intros id; cbn [find_reg map fst In].
  - split; [intros _ []|intros _; reflexivity].
  - destruct (String.eqb_spec k id) as [->|Hne].
    + split; [intros H; discriminate H|]. intros H. exfalso. apply H. left. reflexivity.
    + rewrite IH. split; [intros H [H'|H']; [apply Hne, H'|apply H, H']|intros H H'; apply H; right; exact H'].
Qed.

(** with pairwise distinct IDs [Find] returns THE register with that ID *)
Theorem find_reg_unique : forall regs id v, NoDup (map fst regs) -> In (id, v) regs -> find_reg id regs = Some v.
Proof.
  induction regs as [|[k x] t IH]; intros id v Hnd Hin; [contradiction|].
  cbn [map fst] in Hnd. inversion Hnd as [|? ? Hni Hnd']; subst. cbn [find_reg].
  destruct Hin as [Hin|Hin].
  - injection Hin as -> ->. rewrite String.eqb_refl. reflexivity.
  - destruct (String.eqb_spec k id) as [->|Hne]; [|apply IH; assumption].
    exfalso. apply Hni. change id with (fst (id, v)). apply in_map, Hin.
Qed.

Lemma read_txt_ids_nodup img : NoDup (map fst (fst (read_regs txt_layout img))).
Proof.
  rewrite read_regs_ids. pose proof txt_ids_nodup as H. revert H.
  generalize txt_layout as l. induction l as [|e t IH]; intros H; [constructor|].
  cbn [ids map] in H. inversion H as [|? ? Hni Hnd]; subst. cbn [filter].
  destruct (fits img e); [|apply IH, Hnd]. cbn [ids map]. constructor; [|apply IH, Hnd].
  intros Hin. apply Hni. unfold ids in *. apply in_map_iff in Hin. destruct Hin as (x & Hx & Hf).
  apply filter_In in Hf. apply in_map_iff. exists x. split; [exact Hx|apply Hf].
Qed.

(** [Find] on what [ReadTXTRegisters] returned: the little-endian value at the register's
    offset when its extent lies inside the image, nil otherwise *)
Theorem find_in_read_txt : forall img id off n, In (id, off, n) txt_layout ->
  find_reg id (fst (read_txt img)) =
  if Nat.leb (off + n) (length img) then Some (le_at img off n) else None.
Proof.
  intros img id off n Hin. unfold read_txt. destruct (Nat.leb_spec (off + n) (length img)) as [Hf|Hf].
  - apply find_reg_unique; [apply read_txt_ids_nodup|].
    apply (read_regs_fitting txt_layout img id off n txt_ids_nodup Hin Hf).
  - apply find_reg_none. intros H. apply in_map_iff in H. destruct H as ([i v] & Hi & Hv).
    cbn [fst] in Hi. subst i. destruct (read_regs_sound txt_layout img id v Hv) as (o & m & Hin' & Hfit & _).
    destruct (nodup_ids_functional txt_layout id off n o m txt_ids_nodup Hin Hin') as [Ho Hm]. lia.
Qed.

(** * 6. The sparse evaluation of the [CTools] cases is the model *)

Theorem read_seq_sparse_expand : forall layout len bytes,
  RC.read_seq_sparse layout len bytes = read_seq layout (RC.expand (N.to_nat len) bytes).
Proof.
  induction layout as [|[[s o] m] t IH]; intros len bytes; [reflexivity|].
  cbn [RC.read_seq_sparse read_seq]. rewrite IH, read_sparse_expand.
  destruct (read_le (RC.expand (N.to_nat len) bytes) o m); [reflexivity|].
  f_equal. f_equal. f_equal. unfold RC.err_sparse, read_err_of. rewrite expand_length.
  destruct (N.leb_spec len (N.of_nat o)); destruct (Nat.leb_spec (N.to_nat len) o); try lia; reflexivity.
Qed.

