(** Proofs for C04 — register accessors and field tables.

    - [accessor_obligation_sound]: a green [oblig_accessor] verdict means the
      accessor (as translated from the source) returns the specified bits for
      every raw value of the register's width;
    - [calc_fields_exact]: [CalculateRegisterFields], with its uint8 size
      arithmetic, its running-total shift and its wrapping uint64 mask, returns
      for a well-formed table exactly the bit slices [offset, offset+size);
    - [ranges_partition], [ranges_cover_unique]: the (offset, size) ranges of a
      well-formed table are non-empty, contiguous from 0 to the register size,
      hence pairwise disjoint and covering every bit exactly once;
    - [table_obligation_sound], [aligned_sound]: meaning of the table verdicts;
    - [read_le_some], [read_le_none]: the little-endian readers. *)
From Coq Require Import NArith Arith String List Lia Bool ZifyN ZifyNat ZifyBool.
From CSS Require Import Lib.SymBits Lib.RegTypes Lib.RegOblig Model.Registers Proofs.SymBits.
Import ListNotations.
Open Scope N_scope.

(** * 1. Accessor obligations *)

Theorem accessor_obligation_sound : forall gen n W s,
  snd (fst (oblig_accessor gen (n, W, Sp s))) = true ->
  exists a, find_accessor n gen = Some a /\ a_width a = W /\
            forall raw, raw < 2 ^ W -> agrees W (a_val a) s raw = true.
Proof.
  intros gen n W s H. unfold oblig_accessor in H.
  destruct (find_accessor n gen) as [a|]; [|cbn in H; discriminate H].
  destruct (N.eqb_spec (a_width a) W) as [Hw|Hw]; cbn [negb] in H; [|cbn in H; discriminate H].
  destruct (check W (a_val a) s) eqn:Hc; cbn [fst snd] in H; [|discriminate H].
  exists a. split; [reflexivity|]. split; [exact Hw|].
  intros raw Hraw. apply (check_sound W _ _ Hc raw Hraw).
Qed.

(** A red verdict with a counter-example really is one. *)
Theorem accessor_obligation_witness : forall gen n W s x e g,
  oblig_accessor gen (n, W, Sp s) = (n, false, Some (x, e, g)) ->
  exists a, find_accessor n gen = Some a /\ agrees W (a_val a) s x = false /\
            e = expected_at W s x /\ g = got_at (a_val a) x.
Proof.
  intros gen n W s x e g H. unfold oblig_accessor in H.
  destruct (find_accessor n gen) as [a|]; [|discriminate H].
  destruct (negb (a_width a =? W)); [discriminate H|].
  destruct (check W (a_val a) s); [discriminate H|].
  destruct (witness W (a_val a) s) as [y|] eqn:Hw; [|discriminate H].
  injection H as -> <- <-. exists a. split; [reflexivity|].
  split; [apply witness_sound, Hw|]. split; reflexivity.
Qed.

(** * 2. The uint64 mask and the uint8 size arithmetic *)

Lemma mask_ones bsz : bsz <= 64 ->
  (N.shiftl 1 bsz mod 2 ^ 64 + 2 ^ 64 - 1) mod 2 ^ 64 = N.ones bsz.
Proof.
  intros H. destruct (N.eq_dec bsz 64) as [->|Hne].
  - vm_compute. reflexivity.
  - assert (Hlt : bsz < 64) by lia.
    rewrite N.shiftl_1_l, N.ones_equiv.
    assert (H1 : 2 ^ bsz < 2 ^ 64) by (apply N.pow_lt_mono_r; lia).
    assert (H0 : 2 ^ bsz <> 0) by (apply N.pow_nonzero; lia).
    remember (2 ^ 64) as M eqn:HM. remember (2 ^ bsz) as P eqn:HP.
    assert (HM0 : M <> 0) by (subst M; discriminate).
    rewrite (N.mod_small P M) by exact H1.
    replace (P + M - 1) with (N.pred P + 1 * M) by lia.
    rewrite N.mod_add by exact HM0. apply N.mod_small. lia.
Qed.

Lemma mod256_sub a b : b < a -> a <= 64 -> (a + 256 - b) mod 256 = a - b.
Proof.
  intros Hb Ha. replace (a + 256 - b) with ((a - b) + 1 * 256) by lia.
  rewrite N.mod_add by lia. apply N.mod_small. lia.
Qed.

(** * 3. Field tables *)

(** What [Fields()] should return: every declared field with the bit slice
    [offset, offset+size) of the raw value. *)
Definition fields_spec (raw size : N) (l : list (string * N)) : list field :=
  map (fun p : (string * N) * (N * N) =>
         let '((n, o), (lo, sz)) := p in (n, o, sz, bits lo sz raw))
      (combine l (field_ranges size l)).

Lemma calc_aux_cons raw size total n o t :
  calc_fields_aux raw size total ((n, o) :: t) =
  let bsz := match t with
             | [] => (size + 256 - o) mod 256
             | (_, o') :: _ => (o' + 256 - o) mod 256
             end in
  (n, o, bsz, N.land (N.shiftr raw total) ((N.shiftl 1 bsz mod 2 ^ 64 + 2 ^ 64 - 1) mod 2 ^ 64))
    :: calc_fields_aux raw size ((total + bsz) mod 256) t.
Proof. reflexivity. Qed.

Lemma fields_spec_one raw size n o :
  fields_spec raw size [(n, o)] = [(n, o, size - o, bits o (size - o) raw)].
Proof. reflexivity. Qed.

Lemma fields_spec_cons2 raw size n o m o' t :
  fields_spec raw size ((n, o) :: (m, o') :: t) =
  (n, o, o' - o, bits o (o' - o) raw) :: fields_spec raw size ((m, o') :: t).
Proof. reflexivity. Qed.

Lemma calc_fields_aux_exact raw size : size <= 64 ->
  forall t n o, offsets_incr o t = true ->
    forallb (fun f : string * N => snd f <? size) ((n, o) :: t) = true ->
    calc_fields_aux raw size o ((n, o) :: t) = fields_spec raw size ((n, o) :: t).
Proof.
  intros Hsz. induction t as [|[m o'] t' IH]; intros n o Hinc Hall.
  - cbn [forallb snd] in Hall.
    rewrite calc_aux_cons, fields_spec_one. cbv zeta.
    rewrite mod256_sub by lia. rewrite mask_ones by lia. reflexivity.
  - cbn [offsets_incr] in Hinc. cbn [forallb snd] in Hall.
    apply andb_true_iff in Hinc. destruct Hinc as [Hlt Hinc].
    apply andb_true_iff in Hall. destruct Hall as [Ho Hall].
    assert (Ho' : o' < size).
    { cbn [forallb snd] in Hall. apply andb_true_iff in Hall. destruct Hall as [Ho' _]. lia. }
    rewrite calc_aux_cons, fields_spec_cons2. cbv zeta.
    rewrite mod256_sub by lia. rewrite mask_ones by lia.
    replace ((o + (o' - o)) mod 256) with o' by (rewrite N.mod_small; lia).
    rewrite (IH m o' Hinc Hall). reflexivity.
Qed.

Lemma table_wf_inv t : table_wf t = true ->
  exists n rest, t_fields t = (n, 0) :: rest /\ offsets_incr 0 rest = true /\
    0 < t_bits t /\ t_bits t <= 64 /\
    forallb (fun f : string * N => snd f <? t_bits t) ((n, 0) :: rest) = true.
Proof.
  unfold table_wf. destruct (t_fields t) as [|[n o] rest]; [discriminate|].
  intros H. repeat (apply andb_true_iff in H; destruct H as [H ?]).
  apply N.eqb_eq in H. subst o. exists n, rest.
  split; [reflexivity|]. split; [assumption|]. split; [lia|]. split; [lia|]. assumption.
Qed.

(** [raw] need not even be below 2^64: the equation holds for every [N]. *)
Theorem calc_fields_exact : forall t raw, table_wf t = true ->
  calc_fields raw (t_bits t) (t_fields t) = fields_spec raw (t_bits t) (t_fields t).
Proof.
  intros t raw H. destruct (table_wf_inv t H) as (n & rest & -> & Hinc & _ & Hsz & Hall).
  unfold calc_fields. apply calc_fields_aux_exact; assumption.
Qed.

(** The running total really is needed to coincide with the declared offsets:
    this is where [offsets_incr] and "first offset = 0" are used.  Each decoded
    field also carries the declared name and offset and the range's size. *)
Corollary calc_fields_nth : forall t raw i, table_wf t = true ->
  (i < length (t_fields t))%nat ->
  let '(o, sz) := nth i (field_ranges (t_bits t) (t_fields t)) (0, 0) in
  nth i (calc_fields raw (t_bits t) (t_fields t)) (EmptyString, 0, 0, 0) =
  (fst (nth i (t_fields t) (EmptyString, 0)), o, sz, bits o sz raw) /\
  snd (nth i (t_fields t) (EmptyString, 0)) = o.
Proof.
  intros t raw i H Hi. rewrite (calc_fields_exact t raw H).
  destruct (table_wf_inv t H) as (n0 & rest & Hf & _). clear H. rewrite Hf in *. clear Hf.
  unfold fields_spec. remember (t_bits t) as size eqn:E. clear E.
  remember ((n0, 0) :: rest) as l eqn:E. clear E n0 rest. revert i Hi.
  induction l as [|[n o] l IH]; intros i Hi; [cbn in Hi; lia|].
  destruct l as [|[m o'] l'].
  - destruct i as [|i]; [|cbn in Hi; lia]. cbn. split; reflexivity.
  - destruct i as [|i].
    + cbn. split; reflexivity.
    + specialize (IH i ltac:(cbn [length] in *; lia)).
      change (nth (S i) (field_ranges size ((n, o) :: (m, o') :: l')) (0, 0))
        with (nth i (field_ranges size ((m, o') :: l')) (0, 0)).
      destruct (nth i (field_ranges size ((m, o') :: l')) (0, 0)) as [oo sz].
      exact IH.
Qed.

(** ** Ranges partition the register *)

(** first range starts at [start], each next one where the previous ended, the last ends at [stop] *)
Fixpoint contiguous (start : N) (rs : list (N * N)) (stop : N) : Prop :=
  match rs with
  | [] => start = stop
  | (o, sz) :: t => o = start /\ contiguous (o + sz) t stop
  end.

Lemma ranges_partition_aux size :
  forall t n o, offsets_incr o t = true ->
    forallb (fun f : string * N => snd f <? size) ((n, o) :: t) = true ->
    let rs := field_ranges size ((n, o) :: t) in
    length rs = length ((n, o) :: t) /\ (forall r, In r rs -> 0 < snd r) /\ contiguous o rs size.
Proof.
  induction t as [|[m o'] t' IH]; intros n o Hinc Hall.
  - cbn [forallb snd] in Hall. cbn [field_ranges length contiguous].
    split; [reflexivity|]. split.
    + intros r [<-|[]]. cbn [snd]. lia.
    + split; [reflexivity|]. lia.
  - cbn [offsets_incr] in Hinc. cbn [forallb snd] in Hall.
    apply andb_true_iff in Hinc. destruct Hinc as [Hlt Hinc].
    apply andb_true_iff in Hall. destruct Hall as [Ho Hall].
    destruct (IH m o' Hinc Hall) as (Hlen & Hpos & Hcont).
    change (field_ranges size ((n, o) :: (m, o') :: t'))
      with ((o, o' - o) :: field_ranges size ((m, o') :: t')).
    cbv zeta. split; [cbn [length] in *; lia|]. split.
    + intros r [<-|Hin]; [cbn [snd]; lia|apply Hpos, Hin].
    + cbn [contiguous]. split; [reflexivity|].
      replace (o + (o' - o)) with o' by lia. exact Hcont.
Qed.

Theorem ranges_partition : forall t, table_wf t = true ->
  let rs := field_ranges (t_bits t) (t_fields t) in
  length rs = length (t_fields t) /\ (forall r, In r rs -> 0 < snd r) /\ contiguous 0 rs (t_bits t).
Proof.
  intros t H. destruct (table_wf_inv t H) as (n & rest & -> & Hinc & _ & _ & Hall).
  apply ranges_partition_aux; assumption.
Qed.

Lemma contiguous_bounds : forall rs s e, contiguous s rs e ->
  (forall r, In r rs -> 0 < snd r) ->
  s <= e /\ forall i, (i < length rs)%nat ->
    s <= fst (nth i rs (0, 0)) /\ fst (nth i rs (0, 0)) + snd (nth i rs (0, 0)) <= e.
Proof.
  induction rs as [|[o sz] t IH]; intros s e Hc Hpos.
  - cbn in Hc. split; [lia|]. intros i Hi. cbn in Hi. lia.
  - cbn [contiguous] in Hc. destruct Hc as [-> Hc].
    destruct (IH _ _ Hc (fun r Hr => Hpos r (or_intror Hr))) as [Hle Hall].
    pose proof (Hpos (s, sz) (or_introl eq_refl)) as Hsz. cbn [snd] in Hsz.
    split; [lia|]. intros [|i] Hi; cbn [nth fst snd].
    + lia.
    + cbn [length] in Hi. specialize (Hall i ltac:(lia)). lia.
Qed.

(** Coverage and disjointness: every bit position below [stop] lies in exactly one range. *)
Lemma contiguous_cover_unique : forall rs s e, contiguous s rs e ->
  (forall r, In r rs -> 0 < snd r) ->
  forall j, s <= j < e ->
  exists! i, (i < length rs)%nat /\
             fst (nth i rs (0, 0)) <= j < fst (nth i rs (0, 0)) + snd (nth i rs (0, 0)).
Proof.
  induction rs as [|[o sz] t IH]; intros s e Hc Hpos j Hj.
  - cbn in Hc. lia.
  - cbn [contiguous] in Hc. destruct Hc as [-> Hc].
    assert (Hpos' : forall r, In r t -> 0 < snd r) by (intros r Hr; apply Hpos; right; exact Hr).
    destruct (contiguous_bounds _ _ _ Hc Hpos') as [_ Hb].
    destruct (N.lt_ge_cases j (s + sz)) as [Hin|Hout].
    + exists 0%nat. split.
      * cbn [nth fst snd length]. lia.
      * intros [|i] [Hi Hr]; [reflexivity|].
        cbn [nth length] in Hi, Hr. specialize (Hb i ltac:(lia)). lia.
    + destruct (IH _ _ Hc Hpos' j ltac:(lia)) as [i [[Hi Hr] Huniq]].
      exists (S i). split.
      * cbn [nth length]. split; [lia|exact Hr].
      * intros [|i'] [Hi' Hr'].
        -- cbn [nth fst snd] in Hr'. lia.
        -- f_equal. apply Huniq. cbn [nth length] in Hi', Hr'. split; [lia|exact Hr'].
Qed.

Corollary ranges_cover_unique : forall t, table_wf t = true ->
  let rs := field_ranges (t_bits t) (t_fields t) in
  forall j, j < t_bits t ->
  exists! i, (i < length rs)%nat /\
             fst (nth i rs (0, 0)) <= j < fst (nth i rs (0, 0)) + snd (nth i rs (0, 0)).
Proof.
  intros t H rs j Hj. destruct (ranges_partition t H) as (_ & Hpos & Hc).
  apply (contiguous_cover_unique _ 0 (t_bits t) Hc Hpos). lia.
Qed.

(** ** Table obligations *)

Lemma fields_eqb_eq : forall a b, fields_eqb a b = true -> a = b.
Proof.
  induction a as [|[n o] a IH]; intros [|[m p] b] H; cbn [fields_eqb] in H;
    try discriminate H; [reflexivity|].
  apply andb_true_iff in H. destruct H as [H Ht].
  apply andb_true_iff in H. destruct H as [Hn Ho].
  apply String.eqb_eq in Hn. apply N.eqb_eq in Ho. subst. f_equal. apply IH, Ht.
Qed.

Lemma table_eqb_eq a b : table_eqb a b = true -> a = b.
Proof.
  destruct a as [an ab af], b as [bn bb bf]. unfold table_eqb. cbn [t_name t_bits t_fields].
  intros H. apply andb_true_iff in H. destruct H as [H Hf].
  apply andb_true_iff in H. destruct H as [Hn Hb].
  apply String.eqb_eq in Hn. apply N.eqb_eq in Hb. apply fields_eqb_eq in Hf. subst. reflexivity.
Qed.

Theorem table_obligation_sound : forall gen s,
  snd (fst (oblig_table gen s)) = true ->
  exists g, find_table (t_name s) gen = Some g /\ g = s /\ table_wf g = true.
Proof.
  intros gen s H. unfold oblig_table in H.
  destruct (find_table (t_name s) gen) as [g|]; cbn [fst snd] in H; [|discriminate H].
  apply andb_true_iff in H. destruct H as [He Hw].
  exists g. split; [reflexivity|]. split; [apply table_eqb_eq, He|exact Hw].
Qed.

Definition slice_of (s : spec) : option (N * N) :=
  match s with
  | SBits lo w | SNonZero lo w | SZero lo w => Some (lo, w)
  | _ => None
  end.

Theorem aligned_sound : forall tabs n W s lo w t,
  slice_of s = Some (lo, w) ->
  aligned tabs (n, W, Sp s) = true ->
  find_table (reg_of n) tabs = Some t ->
  exists o sz, In (o, sz) (field_ranges (t_bits t) (t_fields t)) /\
               o = lo /\ N.min (o + sz) W = lo + w.
Proof.
  intros tabs n W s lo w t Hs Ha Hf. unfold aligned in Ha.
  assert (He : existsb (fun r => N.eqb (fst r) lo && N.eqb (N.min (fst r + snd r) W) (lo + w))
                       (field_ranges (t_bits t) (t_fields t)) = true).
  { destruct s; cbn [slice_of] in Hs; try discriminate Hs;
      injection Hs as -> ->; rewrite Hf in Ha; exact Ha. }
  apply existsb_exists in He. destruct He as [[o sz] [Hin Hr]]. cbn [fst snd] in Hr.
  apply andb_true_iff in Hr. destruct Hr as [H1 H2].
  apply N.eqb_eq in H1. apply N.eqb_eq in H2.
  exists o, sz. split; [exact Hin|]. split; assumption.
Qed.

(** * 4. Little-endian readers *)

Lemma le_value_bound l : (forall b, In b l -> b < 256) ->
  le_value l < 256 ^ N.of_nat (length l).
Proof.
  induction l as [|a l IH]; intros H.
  - cbn. lia.
  - cbn [le_value length]. rewrite Nat2N.inj_succ, N.pow_succ_r'.
    pose proof (H a (or_introl eq_refl)) as Ha.
    pose proof (IH (fun b Hb => H b (or_intror Hb))) as Hl.
    remember (256 ^ N.of_nat (length l)) as P. lia.
Qed.

Lemma le_value_digit l : (forall b, In b l -> b < 256) ->
  forall i, (i < length l)%nat -> (le_value l / 256 ^ N.of_nat i) mod 256 = nth i l 0.
Proof.
  induction l as [|a l IH]; intros H i Hi; [cbn in Hi; lia|].
  pose proof (H a (or_introl eq_refl)) as Ha.
  cbn [le_value]. destruct i as [|i]; cbn [nth].
  - change (256 ^ N.of_nat 0) with 1. rewrite N.div_1_r.
    rewrite N.mul_comm, N.mod_add by lia. apply N.mod_small, Ha.
  - rewrite Nat2N.inj_succ, N.pow_succ_r', <- N.div_div by (try apply N.pow_nonzero; lia).
    replace ((a + 256 * le_value l) / 256) with (le_value l).
    + apply IH; [intros b Hb; apply H; right; exact Hb|cbn [length] in Hi; lia].
    + rewrite N.add_comm, N.mul_comm, N.div_add_l by lia.
      rewrite (N.div_small a 256) by exact Ha. lia.
Qed.

Lemma nth_firstn_reg {A} (d : A) : forall n l i, (i < n)%nat -> nth i (firstn n l) d = nth i l d.
Proof.
  induction n as [|n IH]; intros l i Hi; [lia|].
  destruct l as [|a l]; [reflexivity|]. destruct i as [|i]; [reflexivity|].
  cbn [firstn nth]. apply IH. lia.
Qed.

Lemma nth_skipn_reg {A} (d : A) : forall off l i, nth i (skipn off l) d = nth (off + i) l d.
Proof.
  induction off as [|off IH]; intros l i; [reflexivity|].
  destruct l as [|a l]; [destruct i; reflexivity|]. cbn [skipn Nat.add nth]. apply IH.
Qed.

Lemma In_firstn_reg {A} (x : A) n l : In x (firstn n l) -> In x l.
Proof. intros H. rewrite <- (firstn_skipn n l). apply in_or_app. left. exact H. Qed.

Lemma In_skipn_reg {A} (x : A) n l : In x (skipn n l) -> In x l.
Proof. intros H. rewrite <- (firstn_skipn n l). apply in_or_app. right. exact H. Qed.

Theorem read_le_some : forall img off n v,
  (forall b, In b img -> b < 256) ->
  read_le img off n = Some v ->
  (off + n <= length img)%nat /\ v < 256 ^ N.of_nat n /\
  forall i, (i < n)%nat -> (v / 256 ^ N.of_nat i) mod 256 = nth (off + i) img 0.
Proof.
  intros img off n v Hb H. unfold read_le in H.
  destruct (Nat.leb_spec (off + n) (length img)) as [Hle|Hgt]; [|discriminate H].
  injection H as <-.
  assert (Hlen : length (firstn n (skipn off img)) = n).
  { apply firstn_length_le. rewrite skipn_length. lia. }
  assert (Hb' : forall b, In b (firstn n (skipn off img)) -> b < 256).
  { intros b Hin. apply Hb. eapply In_skipn_reg, In_firstn_reg, Hin. }
  split; [exact Hle|]. split.
  - pose proof (le_value_bound _ Hb') as Hv. rewrite Hlen in Hv. exact Hv.
  - intros i Hi. rewrite (le_value_digit _ Hb' i) by lia.
    rewrite nth_firstn_reg by exact Hi. apply nth_skipn_reg.
Qed.

Theorem read_le_none : forall img off n,
  read_le img off n = None <-> (length img < off + n)%nat.
Proof.
  intros img off n. unfold read_le.
  destruct (Nat.leb_spec (off + n) (length img)) as [Hle|Hgt]; split; intros H;
    try discriminate H; try reflexivity; try lia; exact Hgt.
Qed.

(** The value read is determined by those [n] bytes alone (little-endian digits are unique). *)
Corollary read_le_unique : forall img off n v w,
  read_le img off n = Some v -> read_le img off n = Some w -> v = w.
Proof. intros img off n v w H1 H2. rewrite H1 in H2. injection H2 as ->. reflexivity. Qed.

(** * Examples: the hypotheses are satisfiable, and what the model computes *)

Open Scope string_scope.
Definition ex_table : table :=
  {| t_name := "ex.Reg"; t_bits := 64;
     t_fields := [("A", 0); ("B", 4); ("C", 5); ("D", 63)]%N |}.
Close Scope string_scope.

Example ex_table_wf : table_wf ex_table = true.
Proof. vm_compute. reflexivity. Qed.

Example ex_table_ranges :
  field_ranges (t_bits ex_table) (t_fields ex_table) = [(0, 4); (4, 1); (5, 58); (63, 1)].
Proof. vm_compute. reflexivity. Qed.

(** raw = 0x8000_0000_0000_00B7: A = 7, B = 1, C = 5 (bits 5 and 7), D = 1 *)
Example ex_table_fields :
  calc_fields 9223372036854775991 (t_bits ex_table) (t_fields ex_table) =
  [("A", 0, 4, 7); ("B", 4, 1, 1); ("C", 5, 58, 5); ("D", 63, 1, 1)]%string.
Proof. vm_compute. reflexivity. Qed.

(** one field of size 64: the Go mask [(1 << 64) - 1] wraps to all ones *)
Example ex_whole_fields :
  calc_fields 18446744073709551615 64 [("ALL", 0)]%string
  = [("ALL", 0, 64, 18446744073709551615)]%string.
Proof. vm_compute. reflexivity. Qed.

(** without "first offset is 0" the running total and the offset differ:
    [table_wf] is not a vacuous hypothesis *)
Example ex_not_wf_differs :
  calc_fields 15 8 [("HI", 4)]%string <> fields_spec 15 8 [("HI", 4)]%string.
Proof. vm_compute. discriminate. Qed.

Example ex_aligned :
  aligned [ex_table] ("ex.Reg.C"%string, 64, Sp (SBits 5 58)) = true /\
  aligned [ex_table] ("ex.Reg.C"%string, 64, Sp (SBits 5 57)) = false.
Proof. vm_compute. split; reflexivity. Qed.

Example ex_read_le :
  read_le [1; 2; 3; 4; 5] 1 2 = Some 770 /\ read_le [1; 2; 3; 4; 5] 4 2 = None.
Proof. vm_compute. split; reflexivity. Qed.
