(** Proofs for C14 about the enclosing-volume data source on a LIST of ranges
    (Model/VolumeOf.v): the answer is made of one look-up per given range, whatever the order
    of the ranges and whatever their relation to each other -- in particular two ranges that
    touch each other where two neighbour volumes touch are two look-ups, each inside one
    volume, and BOTH volumes are in the answer. *)
From Coq Require Import Permutation.
From CSS Require Import Lib.Base Model.AddrMap Proofs.AddrMap Model.Delivered Model.VolumeOf.
From CSS Require Model.Ranges Proofs.Ranges Proofs.Delivered.

(** a reported range that is a range: no uint64 wrap *)
Definition okv (v : range) : Prop := 0 <= fst v /\ 0 <= snd v /\ fst v + snd v < W64.

(** the located volumes the walker reports are ranges *)
Definition volumes_ok (nodes : list (bool * range)) : Prop :=
  forall v, located_volume nodes v -> okv v.

(** [r] does not straddle the border of any located volume *)
Definition no_straddle (nodes : list (bool * range)) (r : range) : Prop :=
  forall w, In (true, w) nodes -> fst w <> MAXU64 -> intersect w r = true -> contains w r.

(** * The picks *)

Lemma volume_picks_spec nodes rs : forall vs,
  volume_picks nodes rs = Some vs <-> Forall2 (fun r v => volume_pick nodes r = Some v) rs vs.
Proof.
  induction rs as [|r t IH]; intros vs; cbn [volume_picks].
  - split; [intros H; injection H as <-; constructor | intros H; inversion H; reflexivity].
  - destruct (volume_pick nodes r) as [v|] eqn:E.
    + destruct (volume_picks nodes t) as [ws|] eqn:Et.
      * split.
        -- intros H; injection H as <-. constructor; [exact E | apply IH; reflexivity].
        -- intros H. inversion H as [|? y ? ys Hy Hys]; subst.
           rewrite E in Hy. injection Hy as <-. apply IH in Hys. injection Hys as <-. reflexivity.
      * split; [discriminate|].
        intros H. inversion H as [|? y ? ys Hy Hys]; subst. apply IH in Hys. discriminate.
    + split; [discriminate|].
      intros H. inversion H as [|? y ? ys Hy Hys]; subst. rewrite E in Hy. discriminate.
Qed.

Lemma volume_picks_none nodes rs :
  volume_picks nodes rs = None <-> Exists (fun r => volume_pick nodes r = None) rs.
Proof.
  induction rs as [|r t IH]; cbn [volume_picks].
  - split; [discriminate | intros H; inversion H].
  - destruct (volume_pick nodes r) as [v|] eqn:E.
    + destruct (volume_picks nodes t) as [ws|] eqn:Et.
      * split; [discriminate|]. intros H. inversion H as [? ? Hh|? ? Ht]; subst.
        -- rewrite E in Hh. discriminate.
        -- apply IH in Ht. discriminate.
      * split; [|reflexivity]. intros _. apply Exists_cons_tl. apply IH. reflexivity.
    + split; [|reflexivity]. intros _. apply Exists_cons_hd. exact E.
Qed.

Lemma pick_located nodes r v : volume_pick nodes r = Some v ->
  located_volume nodes v /\ intersect v r = true.
Proof.
  intros H. destruct (volume_pick_sound _ _ _ H) as (b & a & -> & Hi & Hk & _).
  split; [split; [apply in_or_app; right; left; reflexivity | exact Hk] | exact Hi].
Qed.

Lemma picks_located nodes rs vs : volume_picks nodes rs = Some vs ->
  Forall (located_volume nodes) vs.
Proof.
  intros H. apply volume_picks_spec in H. induction H as [|r v t ws Hv _ IH]; constructor; [|exact IH].
  apply (pick_located _ _ _ Hv).
Qed.

(** * SortAndMerge names the same offsets *)

Lemma okv_okr vs : Forall okv vs -> Forall Proofs.Ranges.okr (map to_r vs).
Proof.
  induction 1 as [|x t (A & B & C) _ IH]; cbn [map]; constructor; [|exact IH].
  unfold Proofs.Ranges.okr, to_r. cbn [Ranges.roff Ranges.rlen]. lia.
Qed.

Lemma sort_merge_covers_ok vs a : Forall okv vs -> covers (sort_merge vs) a = covers vs a.
Proof.
  intros W. pose proof (okv_okr vs W) as F. rewrite !Proofs.Delivered.covers_spec. unfold sort_merge.
  rewrite Proofs.Delivered.to_r_from_r.
  destruct (Proofs.Delivered.cov_r (Ranges.ranges_sm (map to_r vs)) a) eqn:E1;
    destruct (Proofs.Delivered.cov_r (map to_r vs) a) eqn:E2; try reflexivity.
  - apply Proofs.Delivered.cov_r_spec in E1. apply (Proofs.Ranges.ranges_sm_den _ _ F) in E1.
    apply Proofs.Delivered.cov_r_spec in E1. congruence.
  - apply Proofs.Delivered.cov_r_spec in E2. apply (Proofs.Ranges.ranges_sm_den _ _ F) in E2.
    apply Proofs.Delivered.cov_r_spec in E2. congruence.
Qed.

Lemma covers_iff vs a : covers vs a = true <-> exists v, In v vs /\ in_range v a.
Proof.
  unfold covers, in_range. rewrite existsb_exists. split; intros (v & I & H); exists v; (split; [exact I|]).
  - apply andb_prop in H. destruct H as (A & B). apply Z.leb_le in A. apply Z.ltb_lt in B. lia.
  - apply andb_true_intro. split; [apply Z.leb_le | apply Z.ltb_lt]; lia.
Qed.

Lemma Forall2_in_l {A B} (P : A -> B -> Prop) l1 l2 x :
  Forall2 P l1 l2 -> In x l1 -> exists y, In y l2 /\ P x y.
Proof.
  induction 1 as [|a b t u Hab _ IH]; intros I; [inversion I|].
  destruct I as [<-|I]; [exists b; split; [left; reflexivity | exact Hab]|].
  destruct (IH I) as (y & Iy & Py). exists y. split; [right; exact Iy | exact Py].
Qed.

Lemma Forall2_in_r {A B} (P : A -> B -> Prop) l1 l2 y :
  Forall2 P l1 l2 -> In y l2 -> exists x, In x l1 /\ P x y.
Proof.
  induction 1 as [|a b t u Hab _ IH]; intros I; [inversion I|].
  destruct I as [<-|I]; [exists a; split; [left; reflexivity | exact Hab]|].
  destruct (IH I) as (x & Ix & Px). exists x. split; [right; exact Ix | exact Px].
Qed.

(** * The answer, pointwise: exactly the offsets of the volumes picked for the given ranges,
      one look-up per range as given *)

Theorem volume_of_offsets_pointwise nodes rs l :
  volumes_ok nodes ->
  volume_of_offsets nodes rs = Ok l ->
  forall a, covers l a = true <->
            exists r v, In r rs /\ volume_pick nodes r = Some v /\ in_range v a.
Proof.
  intros W H a. unfold volume_of_offsets in H.
  destruct (volume_picks nodes rs) as [vs|] eqn:E; [|discriminate]. injection H as <-.
  assert (Fo : Forall okv vs).
  { pose proof (picks_located _ _ _ E) as L. apply Forall_forall. intros v Iv.
    apply W. exact (proj1 (Forall_forall _ _) L v Iv). }
  rewrite sort_merge_covers_ok by exact Fo. rewrite covers_iff.
  apply volume_picks_spec in E. split.
  - intros (v & Iv & Ha). destruct (Forall2_in_r _ _ _ _ E Iv) as (r & Ir & Pr).
    exists r, v. split; [exact Ir | split; [exact Pr | exact Ha]].
  - intros (r & v & Ir & Pr & Ha). destruct (Forall2_in_l _ _ _ _ E Ir) as (v' & Iv & Pv).
    rewrite Pr in Pv. injection Pv as <-. exists v. split; assumption.
Qed.

(** the list fails exactly when one of its ranges alone has no located volume (and never
    panics) *)
Theorem volume_of_offsets_error_iff size nodes rs :
  (exists c, volume_of_offsets nodes rs = Err c) <->
  Exists (fun r => exists c, volume_of_one size nodes r = Err c) rs.
Proof.
  unfold volume_of_offsets. split.
  - intros (c & H). destruct (volume_picks nodes rs) eqn:E; [discriminate|].
    apply volume_picks_none in E. apply Exists_exists in E. destruct E as (r & Ir & Hr).
    apply Exists_exists. exists r. split; [exact Ir|]. unfold volume_of_one. rewrite Hr. exists 1. reflexivity.
  - intros H. apply Exists_exists in H. destruct H as (r & Ir & c & Hr).
    assert (E : volume_pick nodes r = None).
    { unfold volume_of_one in Hr. destruct (volume_pick nodes r); [discriminate | reflexivity]. }
    assert (N : volume_picks nodes rs = None).
    { apply volume_picks_none. apply Exists_exists. exists r. split; assumption. }
    rewrite N. exists 1. reflexivity.
Qed.

Lemma volume_of_offsets_total nodes rs :
  (exists l, volume_of_offsets nodes rs = Ok l) \/ volume_of_offsets nodes rs = Err 1.
Proof. unfold volume_of_offsets. destruct (volume_picks nodes rs); [left; eexists; reflexivity | right; reflexivity]. Qed.

(** * The clause of the property: the volumes that contain the given ranges -- all of them,
      whole, and nothing else -- for every list of ranges none of which straddles a border *)

Theorem volume_of_offsets_exact nodes rs l :
  volumes_ok nodes ->
  (forall r, In r rs -> no_straddle nodes r) ->
  volume_of_offsets nodes rs = Ok l ->
  (forall r, In r rs ->
     exists v, located_volume nodes v /\ contains v r /\ forall a, in_range v a -> covers l a = true) /\
  (forall a, covers l a = true ->
     exists r v, In r rs /\ located_volume nodes v /\ contains v r /\ in_range v a).
Proof.
  intros W NS H. pose proof (volume_of_offsets_pointwise nodes rs l W H) as P. split.
  - intros r Ir. unfold volume_of_offsets in H.
    destruct (volume_picks nodes rs) as [vs|] eqn:E; [|discriminate].
    apply volume_picks_spec in E. destruct (Forall2_in_l _ _ _ _ E Ir) as (v & _ & Pv).
    destruct (pick_located _ _ _ Pv) as (L & Hi).
    exists v. split; [exact L|]. split.
    + apply (NS r Ir v); [exact (proj1 L) | exact (proj2 L) | exact Hi].
    + intros a Ha. apply P. exists r, v. split; [exact Ir | split; [exact Pv | exact Ha]].
  - intros a Ha. apply P in Ha. destruct Ha as (r & v & Ir & Pv & Hin).
    destruct (pick_located _ _ _ Pv) as (L & Hi).
    exists r, v. split; [exact Ir|]. split; [exact L|]. split; [|exact Hin].
    apply (NS r Ir v); [exact (proj1 L) | exact (proj2 L) | exact Hi].
Qed.

(** the order of the given ranges is immaterial *)
Theorem volume_of_offsets_perm nodes rs rs' l :
  volumes_ok nodes -> Permutation rs rs' ->
  volume_of_offsets nodes rs = Ok l ->
  exists l', volume_of_offsets nodes rs' = Ok l' /\ forall a, covers l' a = covers l a.
Proof.
  intros W Pm H.
  destruct (volume_of_offsets_total nodes rs') as [(l' & H')|E'].
  - exists l'. split; [exact H'|]. intros a.
    pose proof (volume_of_offsets_pointwise _ _ _ W H a) as P.
    pose proof (volume_of_offsets_pointwise _ _ _ W H' a) as P'.
    assert (Q : covers l' a = true <-> covers l a = true).
    { rewrite P, P'. split; intros (r & v & Ir & Pv & Ha); exists r, v;
        (split; [|split; [exact Pv | exact Ha]]).
      - eapply Permutation_in; [symmetry; exact Pm | exact Ir].
      - eapply Permutation_in; [exact Pm | exact Ir]. }
    destruct (covers l' a); destruct (covers l a); try reflexivity.
    + symmetry. apply Q. reflexivity.
    + apply Q. reflexivity.
  - exfalso. unfold volume_of_offsets in E', H.
    destruct (volume_picks nodes rs') eqn:N'; [discriminate|].
    destruct (volume_picks nodes rs) eqn:N; [|discriminate].
    apply volume_picks_none in N'. apply Exists_exists in N'. destruct N' as (r & Ir & Hr).
    assert (X : volume_picks nodes rs = None).
    { apply volume_picks_none. apply Exists_exists. exists r. split; [|exact Hr].
      eapply Permutation_in; [symmetry; exact Pm | exact Ir]. }
    rewrite X in N. discriminate.
Qed.

(** * From offsets to the addresses of the returned reference *)

Lemma wrap64_id z : 0 <= z < W64 -> wrap64 z = z.
Proof. intros H. rewrite wrap64_mod. apply Z.mod_small. exact H. Qed.

Lemma unresolve_offset size o : 0 <= size <= BASE -> 0 <= o <= size -> pmm_unresolve size o = BASE - size + o.
Proof.
  intros Hs Ho. unfold pmm_unresolve. unfold BASE in *.
  rewrite (wrap64_id (o + 4294967296)) by (unfold W64; lia).
  rewrite wrap64_id by (unfold W64; lia). lia.
Qed.

Lemma resolve_address size o : 0 <= size <= BASE -> 0 <= o <= size -> pmm_resolve size (BASE - size + o) = o.
Proof.
  intros Hs Ho. unfold pmm_resolve. unfold BASE in *.
  rewrite Proofs.Delivered.wrap64_add_l.
  replace (4294967296 - size + o - 4294967296 + size) with o by lia.
  apply wrap64_id. unfold W64. lia.
Qed.

(** a reference given as the addresses 4 GiB - size + offset resolves to the offsets *)
Theorem resolved_addresses size offs :
  0 <= size <= BASE -> Forall (fun r => 0 <= fst r <= size) offs ->
  vref_resolved size (true, map_ranges (fun o => BASE - size + o) offs) = offs.
Proof.
  intros Hs F. unfold vref_resolved. cbn [fst snd]. unfold map_ranges.
  induction F as [|[o n] t Hx _ IH]; [reflexivity|]. cbn [map fst snd] in *.
  rewrite IH. rewrite resolve_address by assumption. reflexivity.
Qed.

(** volumes inside the image: the returned reference holds, per merged run of volumes, the
    address 4 GiB - size + offset and the length; it names address 4 GiB - size + a exactly
    when the volumes name offset a *)
Theorem volume_of_addresses size nodes refs l :
  0 <= size <= BASE ->
  (forall v, located_volume nodes v -> 0 <= fst v /\ 0 <= snd v /\ fst v + snd v <= size) ->
  volume_of size nodes refs = Ok l ->
  exists m, volume_of_offsets nodes (resolved_all size refs) = Ok m /\
            l = map (fun x => (BASE - size + fst x, snd x)) m /\
            forall a, covers l (BASE - size + a) = covers m a.
Proof.
  intros Hs In H. unfold volume_of in H.
  destruct (volume_of_offsets nodes (resolved_all size refs)) as [m|c| |] eqn:E; try discriminate.
  injection H as <-. exists m. split; [reflexivity|].
  assert (Bm : Forall (fun x => 0 <= fst x <= size) m).
  { unfold volume_of_offsets in E. destruct (volume_picks nodes (resolved_all size refs)) as [vs|] eqn:Ep; [|discriminate].
    injection E as <-. pose proof (picks_located _ _ _ Ep) as L.
    assert (Fo : Forall Proofs.Ranges.okr (map to_r vs)).
    { apply okv_okr. apply Forall_forall. intros v Iv.
      destruct (In v (proj1 (Forall_forall _ _) L v Iv)) as (A & B & C). unfold okv, W64. unfold BASE in Hs. lia. }
    assert (Fb : Forall (Proofs.Delivered.bnd 0 size) (map to_r vs)).
    { apply Forall_forall. intros x Ix. apply in_map_iff in Ix. destruct Ix as (v & <- & Iv).
      destruct (In v (proj1 (Forall_forall _ _) L v Iv)) as (A & B & C).
      unfold Proofs.Delivered.bnd, to_r. cbn [Ranges.roff Ranges.rlen]. lia. }
    pose proof (Proofs.Delivered.ranges_sm_bnd 0 size _ Fo Fb) as Bs.
    destruct (Proofs.Ranges.ranges_sm_sep _ Fo) as (_ & Os).
    unfold sort_merge. apply Forall_forall. intros p Ip. apply in_map_iff in Ip. destruct Ip as (x & <- & Ix).
    pose proof (proj1 (Forall_forall _ _) Bs x Ix) as (b0 & b1).
    pose proof (proj1 (Forall_forall _ _) Os x Ix) as (x0 & x1 & x2).
    unfold from_r. cbn [fst]. lia. }
  assert (Eq : map_ranges (pmm_unresolve size) m = map (fun x => (BASE - size + fst x, snd x)) m).
  { unfold map_ranges. apply map_ext_in. intros x Ix.
    rewrite unresolve_offset; [reflexivity | exact Hs | exact (proj1 (Forall_forall _ _) Bm x Ix)]. }
  split; [exact Eq|]. intros a. rewrite Eq. unfold covers. clear.
  induction m as [|x t IH]; [reflexivity|]. cbn [map existsb fst snd]. rewrite IH. f_equal.
  f_equal.
  - destruct (BASE - size + fst x <=? BASE - size + a) eqn:A; destruct (fst x <=? a) eqn:B; try reflexivity.
    + apply Z.leb_le in A. apply Z.leb_gt in B. lia.
    + apply Z.leb_gt in A. apply Z.leb_le in B. lia.
  - destruct (BASE - size + a <? BASE - size + fst x + snd x) eqn:A; destruct (a <? fst x + snd x) eqn:B; try reflexivity.
    + apply Z.ltb_lt in A. apply Z.ltb_ge in B. lia.
    + apply Z.ltb_ge in A. apply Z.ltb_lt in B. lia.
Qed.

(** * The statements have teeth *)

(** a 64 KiB image: the BIOS region, volumes at 0+0x1000, 0x1000+0x4000 (neighbours) and
    0x8000+0x8000 *)
Definition ex_nodes : list (bool * range) :=
  [(false, (0, 65536)); (true, (0, 4096)); (false, (72, 100)); (true, (4096, 16384)); (true, (32768, 32768))].

(** the end of the first volume and the start of its neighbour, as addresses: both volumes
    (merged into one range of the answer, they touch); looked up after merging the GIVEN
    ranges the second volume is lost; with a gap of one byte between the ranges the two
    agree *)
Lemma merge_first_witness :
  volume_of 65536 ex_nodes [(true, [(4294905756, 100); (4294905856, 10)])] = Ok [(4294901760, 20480)] /\
  volume_of_merge_first 65536 ex_nodes [(true, [(4294905756, 100); (4294905856, 10)])] = Ok [(4294901760, 4096)] /\
  volume_of 65536 ex_nodes [(true, [(4294905756, 99); (4294905856, 10)])] = Ok [(4294901760, 20480)] /\
  volume_of_merge_first 65536 ex_nodes [(true, [(4294905756, 99); (4294905856, 10)])] = Ok [(4294901760, 20480)].
Proof. repeat split; vm_compute; reflexivity. Qed.

(** the hypotheses of [volume_of_offsets_exact] are satisfiable by exactly that list *)
Lemma ex_hypotheses :
  volumes_ok ex_nodes /\
  (forall r, In r [(3996, 100); (4096, 10)] -> no_straddle ex_nodes r) /\
  volume_of_offsets ex_nodes [(3996, 100); (4096, 10)] = Ok [(0, 20480)].
Proof.
  split; [|split].
  - intros v (I & _). unfold ex_nodes in I. cbn [In] in I.
    repeat (destruct I as [I|I]; [inversion I; subst; unfold okv, W64; cbn [fst snd]; lia|]). inversion I.
  - intros r Ir w Iw _ Hi. unfold ex_nodes in Iw. cbn [In] in Ir, Iw.
    destruct Ir as [<-|[<-|[]]];
      repeat (destruct Iw as [Iw|Iw]; [inversion Iw; subst; try (vm_compute in Hi; discriminate Hi); unfold contains; cbn [fst snd]; lia|]);
      inversion Iw.
  - vm_compute. reflexivity.
Qed.
