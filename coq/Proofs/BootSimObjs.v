(** Converter objects shared by measurements, and the memory recorded digests
    live in (property C01; model: Model/BootSimObjs.v).

    1. Memory: arrays once allocated are never written ([hext]: the heap only
       grows), so an address read later denotes the bytes it denoted.
    2. Converter objects: what [Hasher.Convert] returns depends on the algorithm of
       the object and on the input only -- not on what the object converted before
       (Reset) -- and is an array of its own.
    3. Simulation: the object-level run of a flow does what Model/BootSim.v does
       on the flow in which every converter number is replaced by the algorithm of
       that object ([rflow]): same TPM, MeasuredData and step issues.
    4. Invariant: the Digest fields of CommandLog / EventLog, read in the heap of
       any later moment, are the digests that were extended / logged.
    5. Non-vacuity: for a Hasher that keeps its result buffer the statement of 4
       is false ([reusing_buffer_overwrites]). *)
From CSS Require Import Lib.Base Model.TPM Proofs.TPM Model.BootSim Proofs.BootSim Model.BootSimObjs.
From Coq Require Import Lia.

(** * 1. Memory *)

Lemma deref_last hp b : deref (hp ++ [b]) (length hp) = b.
Proof. unfold deref. rewrite app_nth2 by lia. rewrite Nat.sub_diag. reflexivity. Qed.

Lemma deref_app hp more a : (a < length hp)%nat -> deref (hp ++ more) a = deref hp a.
Proof. intros Ha. unfold deref. apply app_nth1. exact Ha. Qed.

Definition hext (hp hp' : heap) : Prop := exists more, hp' = hp ++ more.

Lemma hext_refl hp : hext hp hp.
Proof. exists []. rewrite app_nil_r. reflexivity. Qed.

Lemma hext_trans a b c : hext a b -> hext b c -> hext a c.
Proof. intros [x ->] [y ->]. exists (x ++ y). rewrite app_assoc. reflexivity. Qed.

Lemma hext_app hp more : hext hp (hp ++ more).
Proof. exists more. reflexivity. Qed.

Lemma hext_length a b : hext a b -> (length a <= length b)%nat.
Proof. intros [x ->]. rewrite app_length. lia. Qed.

Definition addrs_ok (hp : heap) (l : list nat) : Prop := Forall (fun a => (a < length hp)%nat) l.

Lemma addrs_ok_ext hp hp' l : hext hp hp' -> addrs_ok hp l -> addrs_ok hp' l.
Proof.
  intros He Hl. apply hext_length in He. unfold addrs_ok in *.
  eapply Forall_impl; [|exact Hl]. cbn. intros a Ha. lia.
Qed.

Lemma addrs_ok_app hp l1 l2 : addrs_ok hp l1 -> addrs_ok hp l2 -> addrs_ok hp (l1 ++ l2).
Proof. intros H1 H2. apply Forall_app. split; assumption. Qed.

(** an address read in a later heap denotes what it denoted *)
Lemma read_ext hp hp' l : hext hp hp' -> addrs_ok hp l -> map (deref hp') l = map (deref hp) l.
Proof.
  intros [more ->] Hl. apply map_ext_in. intros a Ha.
  apply deref_app. unfold addrs_ok in Hl. rewrite Forall_forall in Hl. apply Hl. exact Ha.
Qed.

Lemma subst_digests_same cs : subst_digests cs (digests_of cs) = cs.
Proof.
  induction cs as [|c t IH]; [reflexivity|].
  destruct c; cbn [subst_digests digests_of flat_map app] in *; fold (digests_of t); rewrite IH; reflexivity.
Qed.

Lemma subst_evdigests_same es : subst_evdigests es (map ev_digest es) = es.
Proof.
  induction es as [|[p a d ty evd] t IH]; [reflexivity|].
  cbn [subst_evdigests map ev_digest]. rewrite IH. reflexivity.
Qed.

(** * 2. Converter objects *)

Lemma set_nth_map {A B} (f : A -> B) (d : A) (x : A) : forall (l : list A) n,
  f x = f (nth n l d) -> map f (set_nth n x l) = map f l.
Proof.
  induction l as [|y t IH]; intros n Hx; [destruct n; reflexivity|].
  destruct n as [|n]; cbn [set_nth map nth] in *.
  - rewrite Hx. reflexivity.
  - rewrite IH by exact Hx. reflexivity.
Qed.

Lemma pool_get_alg pl k : hs_alg (pool_get pl k) = alg_of (map hs_alg pl) k.
Proof.
  unfold pool_get, alg_of. change 0 with (hs_alg (mkHasher 0 [])). rewrite map_nth. reflexivity.
Qed.

Lemma pool_set_algs pl k h :
  hs_alg h = hs_alg (pool_get pl k) -> map hs_alg (pool_set pl k h) = map hs_alg pl.
Proof. intros Hh. unfold pool_set. apply set_nth_map with (d := mkHasher 0 []). exact Hh. Qed.

Section Objs.
Variable ref : Type.
Variable bytes_of : ref -> outcome (list Z).
Variable H : Z -> list Z -> list Z.

Notation osim := (BootSimObjs.osim ref).
Notation sim := (BootSim.sim ref).

(** [Hasher.Convert]: whatever the object converted before, the result is the hash
    of the input, in a new array; the object keeps its algorithm *)
Lemma hasher_convert_spec hp h inp :
  hasher_convert H hp h inp = (hp ++ [H (hs_alg h) inp], mkHasher (hs_alg h) inp, length hp).
Proof. reflexivity. Qed.

Lemma oconvert_spec pl hp c raw :
  exists pl', oconvert H pl hp c raw
              = (pl', hp ++ [convert H (option_map (alg_of (map hs_alg pl)) c) raw], length hp)
              /\ map hs_alg pl' = map hs_alg pl.
Proof.
  destruct c as [k|]; cbn [oconvert option_map convert].
  - rewrite hasher_convert_spec. eexists. split.
    + rewrite pool_get_alg. reflexivity.
    + apply pool_set_algs. cbn [hs_alg]. symmetry. apply pool_get_alg.
  - exists pl. split; reflexivity.
Qed.

(** * 3./4. Simulation and invariant *)

Record Inv (s : osim) : Prop := mkInv {
  inv_c : addrs_ok (o_heap s) (o_cdig s);
  inv_e : addrs_ok (o_heap s) (o_edig s);
  inv_cd : read_cdig s = digests_of (cmdlog (s_tpm (o_sim s)));
  inv_ed : read_edig s = map ev_digest (evlog (s_tpm (o_sim s)))
}.

(** [s'] comes after [s]: same algorithms of the objects, memory only grown, what
    was recorded still reads the same *)
Definition Keeps (s s' : osim) : Prop :=
  map hs_alg (o_pool s') = map hs_alg (o_pool s) /\ hext (o_heap s) (o_heap s') /\ (Inv s -> Inv s').

Lemma keeps_refl s : Keeps s s.
Proof. split; [reflexivity|]. split; [apply hext_refl|auto]. Qed.

Lemma keeps_trans a b c : Keeps a b -> Keeps b c -> Keeps a c.
Proof.
  intros (A1 & A2 & A3) (B1 & B2 & B3). split; [congruence|].
  split; [eapply hext_trans; eassumption|auto].
Qed.

Lemma keeps_grow s pl hp :
  map hs_alg pl = map hs_alg (o_pool s) -> hext (o_heap s) hp -> Keeps s (grow ref s pl hp).
Proof.
  intros Hp He. split; [exact Hp|]. split; [exact He|].
  intros [Hc Hed Hcd Hedg]. constructor; cbn [grow o_heap o_cdig o_edig o_sim].
  - eapply addrs_ok_ext; eassumption.
  - eapply addrs_ok_ext; eassumption.
  - unfold read_cdig in *. cbn [grow o_heap o_cdig o_sim]. rewrite (read_ext _ _ _ He Hc). exact Hcd.
  - unfold read_edig in *. cbn [grow o_heap o_edig o_sim]. rewrite (read_ext _ _ _ He Hed). exact Hedg.
Qed.

Lemma oexec_eq s c :
  oexec ref H s c =
  (mkOSim (with_tpm ref (o_sim s) (fst (step H (s_tpm (o_sim s)) (cmd_of (o_heap s) c))))
          (o_pool s) (o_heap s) (o_cdig s ++ cdig_of c) (o_edig s ++ edig_of c),
   snd (step H (s_tpm (o_sim s)) (cmd_of (o_heap s) c))).
Proof. unfold oexec. destruct (step H _ _); reflexivity. Qed.

Lemma cmd_of_not_reset hp c : is_reset (cmd_of hp c) = false.
Proof. destruct c; reflexivity. Qed.

Lemma digests_of_app a b : digests_of (a ++ b) = digests_of a ++ digests_of b.
Proof. unfold digests_of. apply flat_map_app. Qed.

Lemma digests_of_cmd hp c : digests_of [cmd_of hp c] = map (deref hp) (cdig_of c).
Proof. destruct c; reflexivity. Qed.

Lemma events_of_cmd hp c : map ev_digest (events_of [cmd_of hp c]) = map (deref hp) (edig_of c).
Proof. destruct c; reflexivity. Qed.

Lemma keeps_oexec s c : addrs_ok (o_heap s) (cdig_of c) -> Keeps s (fst (oexec ref H s c)).
Proof.
  intros Hc. rewrite oexec_eq. cbn [fst]. split; [reflexivity|]. split; [apply hext_refl|].
  intros [Ic Ie Icd Ied].
  constructor; cbn [o_heap o_cdig o_edig o_sim with_tpm s_tpm].
  - apply addrs_ok_app; assumption.
  - apply addrs_ok_app; [assumption|]. destruct c; cbn [edig_of cdig_of] in *; [constructor|constructor|exact Hc].
  - unfold read_cdig in *. cbn [o_heap o_cdig o_sim with_tpm s_tpm].
    rewrite map_app, Icd, (cmdlog_step H) by apply cmd_of_not_reset.
    rewrite digests_of_app, digests_of_cmd. reflexivity.
  - unfold read_edig in *. cbn [o_heap o_edig o_sim with_tpm s_tpm].
    rewrite map_app, Ied, (evlog_step H) by apply cmd_of_not_reset.
    rewrite map_app, events_of_cmd. reflexivity.
Qed.

Lemma keeps_oadd_meas s d : Keeps s (oadd_meas ref s d).
Proof.
  split; [reflexivity|]. split; [apply hext_refl|].
  intros [Ic Ie Icd Ied]. constructor; assumption.
Qed.

Section WithAlgs.
Variable al : list Z.

Notation event_loop := (BootSim.event_loop H).
Notation apply_act := (BootSim.apply_act ref bytes_of H).
Notation run_acts := (BootSim.run_acts ref bytes_of H).
Notation compile_item := (BootSim.compile_item ref bytes_of H).
Notation compile_step := (BootSim.compile_step ref bytes_of H).
Notation run_step := (BootSim.run_step ref bytes_of H).
Notation run_flow := (BootSim.run_flow ref bytes_of H).
Notation oevent_loop := (BootSimObjs.oevent_loop ref H).
Notation oextend := (BootSimObjs.oextend ref H).
Notation oapply_act := (BootSimObjs.oapply_act ref bytes_of H al).
Notation orun_acts := (BootSimObjs.orun_acts ref bytes_of H al).
Notation ocompile_item := (BootSimObjs.ocompile_item ref bytes_of H).
Notation ocompile_step := (BootSimObjs.ocompile_step ref bytes_of H).
Notation orun_step := (BootSimObjs.orun_step ref bytes_of H al).
Notation orun_flow := (BootSimObjs.orun_flow ref bytes_of H al).
Notation ract := (BootSimObjs.ract ref al).
Notation ritem := (BootSimObjs.ritem ref al).

(** the loop of TPMEvent.Apply *)
Lemma oevent_loop_ok algs : forall (s : osim) p c raw ty evd,
  map hs_alg (o_pool s) = al ->
  let v := event_loop (s_tpm (o_sim s)) p (convert H (option_map (alg_of al) c) raw) ty evd algs in
  Keeps s (fst (oevent_loop s p c raw ty evd algs)) /\
  o_sim (fst (oevent_loop s p c raw ty evd algs)) = with_tpm ref (o_sim s) (fst v) /\
  snd (oevent_loop s p c raw ty evd algs) = snd v.
Proof.
  induction algs as [|a rest IH]; intros s p c raw ty evd Hal; cbn zeta.
  - cbn [BootSimObjs.oevent_loop BootSim.event_loop fst snd]. split; [apply keeps_refl|].
    split; [destruct (o_sim s); reflexivity|reflexivity].
  - cbn [BootSimObjs.oevent_loop BootSim.event_loop].
    destruct (oconvert_spec (o_pool s) (o_heap s) c raw) as (pl' & -> & Hpl').
    rewrite Hal in *. set (msg := convert H (option_map (alg_of al) c) raw).
    rewrite deref_last. cbn [alloc].
    set (hp2 := (o_heap s ++ [msg]) ++ [H a msg]).
    set (dg := length (o_heap s ++ [msg])).
    assert (Hd : deref hp2 dg = H a msg) by apply deref_last.
    assert (K0 : Keeps s (grow ref s pl' hp2)).
    { apply keeps_grow; [congruence|]. unfold hp2. rewrite <- app_assoc. apply hext_app. }
    assert (Hdg : (dg < length hp2)%nat).
    { unfold hp2, dg. rewrite (app_length (o_heap s ++ [msg])). cbn [length]. lia. }
    rewrite oexec_eq. cbn [grow o_sim o_heap o_pool o_cdig o_edig cmd_of cdig_of edig_of].
    rewrite Hd.
    assert (K1 : Keeps s (fst (oexec ref H (grow ref s pl' hp2) (OCExtend p a dg)))).
    { eapply keeps_trans; [exact K0|]. apply keeps_oexec. cbn [grow o_heap cdig_of]. constructor; [exact Hdg|constructor]. }
    rewrite oexec_eq in K1. cbn [fst grow o_sim o_heap o_pool o_cdig o_edig cmd_of cdig_of edig_of] in K1.
    rewrite Hd in K1.
    destruct (step H (s_tpm (o_sim s)) (Extend p a (H a msg))) as [t1 r1] eqn:E1. cbn [fst snd] in *.
    destruct r1 as [u|e| |];
      try (cbn [fst snd]; split; [exact K1|]; split; reflexivity).
    set (s1 := mkOSim (with_tpm ref (o_sim s) t1) pl' hp2 (o_cdig s ++ [dg]) (o_edig s ++ [])) in *.
    assert (K2 : Keeps s (fst (oexec ref H s1 (OCLogAdd p a dg ty evd)))).
    { eapply keeps_trans; [exact K1|]. apply keeps_oexec. cbn [s1 o_heap cdig_of]. constructor; [exact Hdg|constructor]. }
    rewrite oexec_eq in K2 |- *.
    cbn [fst s1 o_sim o_heap o_pool o_cdig o_edig cmd_of cdig_of edig_of with_tpm s_tpm] in K2 |- *.
    rewrite Hd in K2 |- *.
    destruct (step H t1 (LogAdd p a (H a msg) ty evd)) as [t2 r2] eqn:E2. cbn [fst snd] in *.
    destruct r2 as [u2|e| |];
      try (cbn [fst snd]; split; [exact K2|]; split; reflexivity).
    match goal with |- context [oevent_loop ?x p c raw ty evd rest] => set (s2 := x) in * end.
    assert (Hal2 : map hs_alg (o_pool s2) = al).
    { destruct K2 as (K2a & _). rewrite K2a. exact Hal. }
    specialize (IH s2 p c raw ty evd Hal2). cbn zeta in IH.
    destruct IH as (IK & IS & IR).
    fold msg in IS, IR.
    assert (Ht2 : s_tpm (o_sim s2) = t2) by reflexivity.
    rewrite Ht2 in IS, IR.
    split; [eapply keeps_trans; [exact K2|exact IK]|].
    split; [rewrite IS; reflexivity|exact IR].
Qed.

(** TPMExtend.Apply once the bytes are in memory *)
Lemma oextend_ok (s : osim) p a pl hp m d :
  map hs_alg pl = map hs_alg (o_pool s) -> hext (o_heap s) hp -> (m < length hp)%nat ->
  let v := step H (s_tpm (o_sim s)) (Extend p a (deref hp m)) in
  Keeps s (fst (oextend s p a pl hp m d)) /\
  o_sim (fst (oextend s p a pl hp m d))
  = (match snd v with Ok _ => add_meas ref (with_tpm ref (o_sim s) (fst v)) d | _ => with_tpm ref (o_sim s) (fst v) end) /\
  snd (oextend s p a pl hp m d) = (match snd v with Ok _ => Ok tt | o => o end).
Proof.
  intros Hp He Hm. cbn zeta. unfold BootSimObjs.oextend.
  assert (K1 : Keeps s (fst (oexec ref H (grow ref s pl hp) (OCExtend p a m)))).
  { eapply keeps_trans; [apply keeps_grow; eassumption|]. apply keeps_oexec.
    cbn [grow o_heap cdig_of]. constructor; [exact Hm|constructor]. }
  rewrite oexec_eq in K1 |- *. cbn [fst grow o_sim o_heap o_pool o_cdig o_edig cmd_of cdig_of edig_of] in K1 |- *.
  destruct (step H (s_tpm (o_sim s)) (Extend p a (deref hp m))) as [t1 r1]. cbn [fst snd] in *.
  destruct r1 as [u|e| |]; cbn [fst snd]; try (split; [exact K1|]; split; reflexivity).
  split; [eapply keeps_trans; [exact K1|apply keeps_oadd_meas]|]. split; reflexivity.
Qed.

Lemma rdata_refs d : d_refs (rdata ref al d) = d_refs d.
Proof. reflexivity. Qed.

Lemma converted_rdata d :
  converted ref bytes_of H (rdata ref al d)
  = bind (raw_bytes ref bytes_of (d_refs d)) (fun raw => Ok (convert H (option_map (alg_of al) (d_conv d)) raw)).
Proof. reflexivity. Qed.

(** one action *)
Lemma oapply_act_ok (s : osim) (a : oact ref) :
  map hs_alg (o_pool s) = al ->
  Keeps s (fst (oapply_act s a)) /\
  o_sim (fst (oapply_act s a)) = fst (apply_act (o_sim s) (ract a)) /\
  snd (oapply_act s a) = snd (apply_act (o_sim s) (ract a)).
Proof.
  intros Hal. destruct a as [l|p src ty evd|p src a|p rs h a|p a d ty evd|].
  - (* TPMInit *)
    cbn [BootSimObjs.oapply_act BootSimObjs.ract BootSim.apply_act].
    split; [apply keeps_oexec; constructor|].
    rewrite oexec_eq. cbn [fst snd cmd_of].
    destruct (step H (s_tpm (o_sim s)) (Startup l)); split; reflexivity.
  - (* TPMEvent *)
    cbn [BootSimObjs.oapply_act BootSimObjs.ract BootSim.apply_act].
    destruct src as [d| |]; cbn [rsrc];
      try (cbn [fst snd]; split; [apply keeps_refl|split; reflexivity]).
    rewrite converted_rdata.
    destruct (raw_bytes ref bytes_of (d_refs d)) as [raw|e| |]; cbn [bind];
      try (cbn [fst snd]; split; [apply keeps_refl|split; reflexivity]).
    pose proof (oevent_loop_ok supported s p (d_conv d) raw ty evd Hal) as (K & S & R). cbn zeta in *.
    destruct (oevent_loop s p (d_conv d) raw ty evd supported) as [s1 r]. cbn [fst snd] in *.
    destruct (event_loop (s_tpm (o_sim s)) p (convert H (option_map (alg_of al) (d_conv d)) raw) ty evd supported) as [t rv].
    cbn [fst snd] in *. subst rv.
    destruct r as [u|e| |]; cbn [fst snd];
      try (split; [exact K|split; [exact S|reflexivity]]).
    split; [eapply keeps_trans; [exact K|apply keeps_oadd_meas]|].
    split; [cbn [oadd_meas o_sim]; rewrite S; reflexivity|reflexivity].
  - (* TPMExtend *)
    cbn [BootSimObjs.oapply_act BootSimObjs.ract BootSim.apply_act].
    destruct src as [d| |]; cbn [rsrc];
      try (cbn [fst snd]; split; [apply keeps_refl|split; reflexivity]).
    rewrite converted_rdata.
    destruct (raw_bytes ref bytes_of (d_refs d)) as [raw|e| |]; cbn [bind];
      try (cbn [fst snd]; split; [apply keeps_refl|split; reflexivity]).
    destruct (oconvert_spec (o_pool s) (o_heap s) (d_conv d) raw) as (pl' & -> & Hpl').
    rewrite Hal in *.
    set (msg := convert H (option_map (alg_of al) (d_conv d)) raw).
    pose proof (oextend_ok s p a pl' (o_heap s ++ [msg]) (length (o_heap s)) (rdata ref al d)) as X.
    cbn zeta in X. rewrite deref_last in X.
    destruct X as (K & S & R).
    { congruence. } { apply hext_app. } { rewrite app_length. cbn [length]. lia. }
    split; [exact K|].
    destruct (step H (s_tpm (o_sim s)) (Extend p a msg)) as [t r]. cbn [fst snd] in *.
    destruct r as [u|e| |]; split; assumption.
  - (* TPMExtend with a Hasher of its own *)
    cbn [BootSimObjs.oapply_act BootSimObjs.ract BootSim.apply_act].
    unfold converted. cbn [d_refs d_conv].
    destruct (raw_bytes ref bytes_of rs) as [raw|e| |]; cbn [bind];
      try (cbn [fst snd]; split; [apply keeps_refl|split; reflexivity]).
    rewrite hasher_convert_spec. cbn [convert].
    pose proof (oextend_ok s p a (o_pool s) (o_heap s ++ [H (hs_alg h) raw]) (length (o_heap s))
                  (mkData rs (Some (hs_alg h)))) as X.
    cbn zeta in X. rewrite deref_last in X.
    destruct X as (K & S & R).
    { reflexivity. } { apply hext_app. } { rewrite app_length. cbn [length]. lia. }
    split; [exact K|].
    destruct (step H (s_tpm (o_sim s)) (Extend p a (H (hs_alg h) raw))) as [t r]. cbn [fst snd] in *.
    destruct r as [u|e| |]; split; assumption.
  - (* TPMEventLogAdd *)
    cbn [BootSimObjs.oapply_act BootSimObjs.ract BootSim.apply_act alloc].
    assert (K : Keeps s (fst (oexec ref H (grow ref s (o_pool s) (o_heap s ++ [d])) (OCLogAdd p a (length (o_heap s)) ty evd)))).
    { eapply keeps_trans; [apply keeps_grow; [reflexivity|apply hext_app]|].
      apply keeps_oexec. cbn [grow o_heap cdig_of]. constructor; [|constructor].
      rewrite app_length. cbn [length]. lia. }
    split; [exact K|].
    rewrite oexec_eq. cbn [fst snd grow o_sim o_heap cmd_of]. rewrite deref_last.
    destruct (step H (s_tpm (o_sim s)) (LogAdd p a d ty evd)); split; reflexivity.
  - cbn. split; [apply keeps_refl|split; reflexivity].
Qed.

Lemma orun_acts_ok acts : forall (s : osim),
  map hs_alg (o_pool s) = al ->
  Keeps s (fst (orun_acts s acts)) /\
  o_sim (fst (orun_acts s acts)) = fst (run_acts (o_sim s) (map ract acts)) /\
  snd (orun_acts s acts) = snd (run_acts (o_sim s) (map ract acts)).
Proof.
  induction acts as [|a rest IH]; intros s Hal.
  - cbn. split; [apply keeps_refl|split; reflexivity].
  - cbn [BootSimObjs.orun_acts BootSim.run_acts map].
    destruct (oapply_act_ok s a Hal) as (K & S & R).
    destruct (oapply_act s a) as [s1 r1]. destruct (apply_act (o_sim s) (ract a)) as [v1 q1].
    cbn [fst snd] in *. subst v1 q1.
    assert (Hal1 : map hs_alg (o_pool s1) = al) by (destruct K as (K1 & _); congruence).
    destruct (IH s1 Hal1) as (K' & S' & R').
    destruct (orun_acts s1 rest) as [s2 rs]. destruct (run_acts (o_sim s1) (map ract rest)) as [v2 qs].
    cbn [fst snd] in *. subst v2 qs.
    split; [eapply keeps_trans; eassumption|split; reflexivity].
Qed.

(** Step.Actions *)
Lemma olog_init_ract t l : map ract (olog_init ref t l) = log_init ref t l.
Proof.
  unfold olog_init, log_init. destruct (forallb is_hash (algos t)); [|reflexivity].
  rewrite map_map. reflexivity.
Qed.

Lemma opcr0_pair_ract a refs :
  match opcr0_pair ref bytes_of H a refs, pcr0_pair ref bytes_of H a refs with
  | Ok x, Ok y => map ract x = y
  | Err e, Err e' => e = e'
  | Panic, Panic => True
  | OutOfFuel, OutOfFuel => True
  | _, _ => False
  end.
Proof.
  destruct refs as [rs|]; cbn [opcr0_pair pcr0_pair]; [|reflexivity].
  unfold converted. cbn [d_refs d_conv].
  destruct (raw_bytes ref bytes_of rs) as [raw|e| |]; cbn [bind]; auto.
Qed.

Lemma ocompile_item_ract t it :
  match ocompile_item t it, compile_item t (ritem it) with
  | Ok x, Ok y => map ract x = y
  | Err e, Err e' => e = e'
  | Panic, Panic => True
  | OutOfFuel, OutOfFuel => True
  | _, _ => False
  end.
Proof.
  destruct it as [l|l wl|l|p src ty evd|p src a|p a d ty evd|r1 r256|];
    cbn [BootSimObjs.ocompile_item BootSim.compile_item BootSimObjs.ritem map BootSimObjs.ract]; try reflexivity.
  - destruct wl; [rewrite olog_init_ract|]; reflexivity.
  - apply olog_init_ract.
  - pose proof (opcr0_pair_ract ALG_SHA1 r1) as X1. pose proof (opcr0_pair_ract ALG_SHA256 r256) as X2.
    destruct (opcr0_pair ref bytes_of H ALG_SHA1 r1) as [x1|e1| |];
      destruct (pcr0_pair ref bytes_of H ALG_SHA1 r1) as [y1|f1| |]; cbn [bind]; try contradiction; auto.
    destruct (opcr0_pair ref bytes_of H ALG_SHA256 r256) as [x2|e2| |];
      destruct (pcr0_pair ref bytes_of H ALG_SHA256 r256) as [y2|f2| |]; cbn [bind]; try contradiction; auto.
    rewrite map_app. congruence.
Qed.

Lemma ocompile_step_ract t its :
  match ocompile_step t its, compile_step t (map ritem its) with
  | Ok x, Ok y => map ract x = y
  | Err e, Err e' => e = e'
  | Panic, Panic => True
  | OutOfFuel, OutOfFuel => True
  | _, _ => False
  end.
Proof.
  induction its as [|it rest IH]; [reflexivity|].
  cbn [BootSimObjs.ocompile_step BootSim.compile_step map].
  pose proof (ocompile_item_ract t it) as X.
  destruct (ocompile_item t it) as [x1|e1| |];
    destruct (compile_item t (ritem it)) as [y1|f1| |]; cbn [bind]; try contradiction; auto.
  destruct (ocompile_step t rest) as [x2|e2| |];
    destruct (compile_step t (map ritem rest)) as [y2|f2| |]; cbn [bind]; try contradiction; auto.
  rewrite map_app. congruence.
Qed.

Lemma orun_step_ok (s : osim) its :
  map hs_alg (o_pool s) = al ->
  Keeps s (fst (orun_step s its)) /\
  o_sim (fst (orun_step s its)) = fst (run_step (o_sim s) (map ritem its)) /\
  snd (orun_step s its) = snd (run_step (o_sim s) (map ritem its)).
Proof.
  intros Hal. unfold BootSimObjs.orun_step, BootSim.run_step.
  pose proof (ocompile_step_ract (s_tpm (o_sim s)) its) as X.
  destruct (ocompile_step (s_tpm (o_sim s)) its) as [x|e| |];
    destruct (compile_step (s_tpm (o_sim s)) (map ritem its)) as [y|f| |]; try contradiction;
    try (cbn [fst snd]; split; [apply keeps_refl|split; reflexivity]).
  subst y. apply orun_acts_ok. exact Hal.
Qed.

Lemma orun_flow_ok fl : forall (s : osim),
  map hs_alg (o_pool s) = al ->
  Keeps s (fst (orun_flow s fl)) /\
  o_sim (fst (orun_flow s fl)) = fst (run_flow (o_sim s) (rflow ref al fl)) /\
  snd (orun_flow s fl) = snd (run_flow (o_sim s) (rflow ref al fl)).
Proof.
  induction fl as [|st rest IH]; intros s Hal.
  - cbn. split; [apply keeps_refl|split; reflexivity].
  - cbn [BootSimObjs.orun_flow BootSim.run_flow rflow map].
    destruct (orun_step_ok s st Hal) as (K & S & R).
    destruct (orun_step s st) as [s1 r1]. destruct (run_step (o_sim s) (map ritem st)) as [v1 q1].
    cbn [fst snd] in *. subst v1 q1.
    assert (Hal1 : map hs_alg (o_pool s1) = al) by (destruct K as (K1 & _); congruence).
    destruct (IH s1 Hal1) as (K' & S' & R'). unfold rflow in *.
    destruct (orun_flow s1 rest) as [s2 rs]. destruct (run_flow (o_sim s1) (map (map ritem) rest)) as [v2 qs].
    cbn [fst snd] in *. subst v2 qs.
    split; [eapply keeps_trans; eassumption|split; reflexivity].
Qed.

End WithAlgs.

(** * Boots *)

Lemma inv_ostart r pl hp : Inv (ostart ref r pl hp).
Proof.
  constructor; cbn [ostart o_heap o_cdig o_edig o_sim]; try constructor.
  - unfold read_cdig. cbn [ostart o_cdig o_sim boot_start s_tpm map]. destruct r; reflexivity.
  - unfold read_edig. cbn [ostart o_edig o_sim boot_start s_tpm map]. destruct r; reflexivity.
Qed.

(** A boot over converter objects in ANY state ([pl]: whatever earlier conversions
    and earlier boots left in them), shared by the measurements in any way, with
    ANY memory [hp] around: the TPM, MeasuredData and step issues are those of
    Model/BootSim.v on the flow with the algorithms in place of the objects; and
    the Digest fields of the command log and of the event log, read after the
    boot, are the digests of the commands as they were executed. *)
Theorem oboot_is_boot r pl hp fl :
  let o := oboot ref bytes_of H r pl hp fl in
  let v := run_flow ref bytes_of H (boot_start r) (rflow ref (map hs_alg pl) fl) in
  o_sim (fst o) = fst v /\ snd o = snd v /\
  read_cdig (fst o) = digests_of (cmdlog (s_tpm (fst v))) /\
  read_edig (fst o) = map ev_digest (evlog (s_tpm (fst v))) /\
  map hs_alg (o_pool (fst o)) = map hs_alg pl /\ hext hp (o_heap (fst o)).
Proof.
  cbn zeta. unfold oboot.
  destruct (orun_flow_ok (map hs_alg pl) fl (ostart ref r pl hp) eq_refl) as ((K1 & K2 & K3) & S & R).
  specialize (K3 (inv_ostart r pl hp)). destruct K3 as [_ _ Icd Ied].
  cbn [ostart o_sim] in S, R. rewrite <- S.
  repeat split; try assumption.
Qed.

(** ... and they still are after any later boot that goes on with the same
    converter objects and the same memory (a caller that kept
    CommandLog.Commands() of an earlier boot) *)
Theorem recorded_digests_survive r pl hp fl r' fl' :
  let o := fst (oboot ref bytes_of H r pl hp fl) in
  let o' := fst (oboot ref bytes_of H r' (o_pool o) (o_heap o) fl') in
  map (deref (o_heap o')) (o_cdig o) = digests_of (cmdlog (s_tpm (o_sim o))) /\
  map (deref (o_heap o')) (o_edig o) = map ev_digest (evlog (s_tpm (o_sim o))).
Proof.
  cbn zeta. unfold oboot.
  destruct (orun_flow_ok (map hs_alg pl) fl (ostart ref r pl hp) eq_refl) as ((K1 & K2 & K3) & _ & _).
  specialize (K3 (inv_ostart r pl hp)). destruct K3 as [Ic Ie Icd Ied].
  set (o := fst (orun_flow ref bytes_of H (map hs_alg pl) (ostart ref r pl hp) fl)) in *.
  destruct (orun_flow_ok (map hs_alg (o_pool o)) fl' (ostart ref r' (o_pool o) (o_heap o)) eq_refl)
    as ((_ & L2 & _) & _ & _).
  cbn [ostart o_heap] in L2.
  split.
  - rewrite (read_ext _ _ _ L2 Ic). exact Icd.
  - rewrite (read_ext _ _ _ L2 Ie). exact Ied.
Qed.

(** the logs as read after the boot ARE the logs of Model/BootSim.v's run: every
    theorem about the latter speaks about what a reader finds *)
Theorem read_logs_are_logs r pl hp fl :
  let o := fst (oboot ref bytes_of H r pl hp fl) in
  let t := s_tpm (fst (run_flow ref bytes_of H (boot_start r) (rflow ref (map hs_alg pl) fl))) in
  s_tpm (o_sim o) = t /\ read_cmdlog o = cmdlog t /\ read_evlog o = evlog t.
Proof.
  cbn zeta. destruct (oboot_is_boot r pl hp fl) as (S & _ & Cd & Ed & _). cbn zeta in *.
  unfold read_cmdlog, read_evlog. rewrite Cd, Ed, S.
  rewrite subst_digests_same, subst_evdigests_same. repeat split.
Qed.

(** re-executing the command log as read after the boot rebuilds the TPM *)
Theorem read_cmdlog_replay r pl hp fl :
  let o := fst (oboot ref bytes_of H r pl hp fl) in
  let t := s_tpm (o_sim o) in
  run H (start_of r) (read_cmdlog o) = t /\
  pcrs (reexec H fresh (read_cmdlog o)) = pcrs t /\ evlog (reexec H fresh (read_cmdlog o)) = evlog t.
Proof.
  cbn zeta. destruct (read_logs_are_logs r pl hp fl) as (T & C & _). cbn zeta in *.
  rewrite C, T. apply cmdlog_replay_boot.
Qed.

(** every command read after the boot was issued by an item of the flow and
    carries, for a measurement, the hash of the bytes its references denote
    (converted by the algorithm of its converter object) *)
Theorem read_digest_is_hash_of_bytes r pl hp fl c :
  In c (read_cmdlog (fst (oboot ref bytes_of H r pl hp fl))) ->
  exists it, In it (concat (rflow ref (map hs_alg pl) fl)) /\ item_cmd ref bytes_of H it c.
Proof.
  destruct (read_logs_are_logs r pl hp fl) as (_ & C & _). cbn zeta in *. rewrite C.
  apply digest_is_hash_of_bytes_boot.
Qed.

End Objs.

(** * 5. A Hasher that keeps its result buffer breaks the statement

    Two conversions of different inputs by one such object: the array recorded for
    the first reads, afterwards, as the digest of the second.  (With [H a m = m].) *)
Example reusing_buffer_overwrites :
  exists (H : Z -> list Z -> list Z) hp1 h1 a1 hp2 h2 a2,
    rhasher_convert H [] (mkRHasher 4 None) [1] = (hp1, h1, a1) /\
    rhasher_convert H hp1 h1 [2] = (hp2, h2, a2) /\
    deref hp1 a1 = H 4 [1] /\ deref hp2 a1 <> H 4 [1] /\ deref hp2 a1 = H 4 [2] /\ a1 = a2.
Proof.
  exists (fun _ m => m). do 6 eexists. cbn.
  split; [reflexivity|]. split; [reflexivity|]. cbn. repeat split; discriminate.
Qed.
