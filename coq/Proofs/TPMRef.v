(** The first sentence of C02 as one statement: "for every sequence of commands
    the simulated TPM behaves like a reference TPM".

    [rtpm] is a reference TPM written from the property text alone (it is the
    Gallina twin of the harness' Go oracle [refTPM]): a started flag, a PARTIAL
    MAP of banks -- no matrix of slots, no algorithm table beyond "SHA1 and
    SHA256 have banks" --, the two logs.  [ref_simulation] shows that the model
    of the code run on any history from NewTPM() stays in step with it, and
    [pcr_closed_form] gives the value of a bank after a history as a fold over
    the digests extended into it (the computation EventLog.Replay performs). *)
From CSS Require Import Lib.Base Model.TPM Proofs.TPM.

Record rtpm : Type := mkR {
  r_started : bool;
  r_bank : Z -> Z -> option (list Z);
  r_log : list cmd;
  r_ev : list event
}.

Definition rnew : rtpm := mkR false (fun _ _ => None) [] [].

(** startup: PCR0 is zeros ending in the locality byte, every other PCR (there is
    one: PCR1) zeros; banks exist for the supported algorithms only *)
Definition r_init (l : Z) : Z -> Z -> option (list Z) :=
  fun p a =>
    if is_supported a then
      if p =? 0 then Some (repeat 0 (hsize a - 1) ++ [l])
      else if p =? 1 then Some (repeat 0 (hsize a))
      else None
    else None.

Definition r_logged (r : rtpm) (c : cmd) : rtpm :=
  mkR (r_started r) (r_bank r) (r_log r ++ [c]) (r_ev r).

Lemma ok_or_not (r : outcome unit) : {r = Ok tt} + {r <> Ok tt}.
Proof. destruct r as [[]|e| |]; [left; reflexivity|right; discriminate ..]. Qed.

Section WithHash.
Variable H : Z -> list Z -> list Z.

(** [true]: the command is executed; [false]: it cannot be executed and nothing
    but the command log changes *)
Definition rstep (r : rtpm) (c : cmd) : rtpm * bool :=
  match c with
  | Reset | ResetNoInit => (rnew, true)
  | Startup l =>
      let r1 := r_logged r c in
      if r_started r then (r1, false)
      else (mkR true (r_init l) (r_log r1) (r_ev r1), true)
  | Extend p a d =>
      let r1 := r_logged r c in
      match r_bank r p a with
      | Some old =>
          (mkR (r_started r1)
               (fun p' a' => if (p' =? p) && (a' =? a) then Some (H a (old ++ d)) else r_bank r p' a')
               (r_log r1) (r_ev r1), true)
      | None => (r1, false)
      end
  | LogAdd p a d ty data =>
      let r1 := r_logged r c in
      (mkR (r_started r1) (r_bank r1) (r_log r1) (r_ev r1 ++ [EV p a d ty data]), true)
  end.

Fixpoint rrun (r : rtpm) (h : list cmd) : rtpm :=
  match h with [] => r | c :: t => rrun (fst (rstep r c)) t end.
Fixpoint rresults (r : rtpm) (h : list cmd) : list bool :=
  match h with [] => [] | c :: t => snd (rstep r c) :: rresults (fst (rstep r c)) t end.

Hypothesis H_length : forall a x, length (H a x) = hsize a.

(** the model state [st] and the reference TPM [r] show the same *)
Definition sim (st : state) (r : rtpm) : Prop :=
  wf st /\
  initialized st = r_started r /\
  (forall p a v, r_bank r p a = Some v -> get (pcrs st) p a = Ok v) /\
  (forall p a, r_bank r p a = None -> get (pcrs st) p a = Ok [] \/ exists e, get (pcrs st) p a = Err e) /\
  (forall p a, (exists v, r_bank r p a = Some v) <->
               (r_started r = true /\ (p = 0 \/ p = 1) /\ is_supported a = true)) /\
  cmdlog st = r_log r /\ evlog st = r_ev r.

Definition res_agree (m : outcome unit) (b : bool) : Prop :=
  if b then m = Ok tt else exists e, m = Err e.

Lemma sim_new : sim fresh rnew.
Proof.
  unfold sim. split; [exact wf_fresh|]. split; [reflexivity|].
  split; [intros p a v E; discriminate|].
  split; [intros p a _; right; exists ERR_NO_PCR; reflexivity|].
  split; [|split; reflexivity].
  intros p a. split; [intros (v & E); discriminate|intros (E & _); discriminate].
Qed.

Lemma sim_blank : sim blank rnew.
Proof.
  unfold sim. split; [left; reflexivity|]. split; [reflexivity|].
  split; [intros p a v E; discriminate|].
  split; [intros p a _; right; exists ERR_NO_PCR; reflexivity|].
  split; [|split; reflexivity].
  intros p a. split; [intros (v & E); discriminate|intros (E & _); discriminate].
Qed.

Lemma is_supported_range a : is_supported a = true -> 0 <= a < 12.
Proof. unfold is_supported, ALG_SHA1, ALG_SHA256. lia. Qed.

Lemma sim_step st r c :
  cmd_in_range c -> sim st r ->
  sim (fst (step H st c)) (fst (rstep r c)) /\ res_agree (snd (step H st c)) (snd (rstep r c)).
Proof using H_length.
  intros Hrange (Hwf & Hinit & Hsome & Hnone & Hdom & Hcl & Hel).
  destruct c as [l|p a d|p a d ty data| |].
  - (* Startup *)
    rewrite step_startup. cbn [rstep]. rewrite <- Hinit.
    destruct (initialized st) eqn:Ei; cbn [fst snd].
    + split; [|exists ERR_ALREADY_INIT; reflexivity].
      unfold sim. cbn [r_logged r_started r_bank r_log r_ev].
      split; [exact Hwf|]. split; [rewrite <- Hinit; exact Ei|]. split; [exact Hsome|]. split; [exact Hnone|].
      split; [exact Hdom|]. split; [cbn [log_cmd cmdlog]; rewrite Hcl; reflexivity|exact Hel].
    + split; [|reflexivity].
      pose proof (step_startup H st l) as Hs. rewrite Ei in Hs.
      pose proof (wf_step H H_length st (Startup l) Hwf) as Hwf'. rewrite Hs in Hwf'. cbn [fst] in Hwf'.
      destruct (startup_values H st l _ Hs) as (V1 & V2 & V3).
      cbn [set_pcrs log_cmd pcrs] in V1, V2, V3.
      unfold sim. cbn [set_pcrs log_cmd pcrs cmdlog evlog algos r_logged r_started r_bank r_log r_ev].
      split; [exact Hwf'|]. split; [reflexivity|].
      split.
      { intros p a v. unfold r_init. destruct (is_supported a) eqn:Es; [|discriminate].
        destruct (V1 a Es) as [V10 V11].
        destruct (p =? 0) eqn:E0; [apply Z.eqb_eq in E0; subst p; intros E; inversion E; subst; exact V10|].
        destruct (p =? 1) eqn:E1; [apply Z.eqb_eq in E1; subst p; intros E; inversion E; subst; exact V11|discriminate]. }
      split.
      { intros p a. unfold r_init. destruct (is_supported a) eqn:Es.
        - destruct (p =? 0) eqn:E0; [discriminate|]. destruct (p =? 1) eqn:E1; [discriminate|].
          intros _. right. apply V3. lia.
        - intros _. destruct (Z_lt_dec p 0); [right; apply V3; lia|].
          destruct (Z_le_dec 2 p); [right; apply V3; lia|].
          destruct (Z_lt_dec a 0); [right; apply V3; lia|].
          destruct (Z_le_dec 12 a); [right; apply V3; lia|].
          left. apply V2; [lia|lia|exact Es]. }
      split; [|split; [rewrite Hcl; reflexivity|exact Hel]].
      intros p a. unfold r_init. split.
      { intros (v & E). destruct (is_supported a); [|discriminate].
        destruct (p =? 0) eqn:E0; [split; [reflexivity|]; split; [left; lia|reflexivity]|].
        destruct (p =? 1) eqn:E1; [split; [reflexivity|]; split; [right; lia|reflexivity]|discriminate]. }
      { intros (_ & Hp & ->). destruct Hp as [-> | ->]; cbn; eauto. }
  - (* Extend *)
    cbn [cmd_in_range] in Hrange. cbn [rstep].
    pose proof (extend_outcome H st p a d Hwf Hrange) as Ho.
    destruct (r_bank r p a) as [old|] eqn:Eb; cbn [fst snd].
    + (* the reference TPM has the bank: the model executes the extend *)
      assert (r_started r = true /\ (p = 0 \/ p = 1) /\ is_supported a = true) as (Hst & Hp & Hs)
        by (apply Hdom; eauto).
      rewrite Hinit, Hst, Hs in Ho.
      replace (0 <=? p) with true in Ho by lia. replace (p <? 2) with true in Ho by lia. cbn [andb] in Ho.
      destruct (step H st (Extend p a d)) as [st' r'] eqn:Es. cbn [fst snd] in *. subst r'.
      split; [|reflexivity].
      destruct (extend_frame H st p a d st' Es) as (old' & Hg & Hg' & Hfr & _ & Hev).
      rewrite (Hsome p a old Eb) in Hg. inversion Hg; subst old'. clear Hg.
      pose proof (wf_step H H_length st (Extend p a d) Hwf) as Hwf'. rewrite Es in Hwf'. cbn [fst] in Hwf'.
      pose proof (initialized_step H st (Extend p a d) eq_refl) as Hi'. rewrite Es in Hi'. cbn [fst is_startup] in Hi'.
      rewrite orb_false_r in Hi'.
      pose proof (cmdlog_step H st (Extend p a d) eq_refl) as Hcl'. rewrite Es in Hcl'. cbn [fst] in Hcl'.
      unfold sim. cbn [r_logged r_started r_bank r_log r_ev].
      split; [exact Hwf'|]. split; [rewrite Hi'; exact Hinit|].
      split.
      { intros p' a' v. destruct ((p' =? p) && (a' =? a)) eqn:E.
        - assert (p' = p /\ a' = a) as [-> ->] by lia. intros E'; inversion E'; subst. exact Hg'.
        - intros E'. rewrite Hfr by (intros X; inversion X; lia). apply Hsome. exact E'. }
      split.
      { intros p' a'. destruct ((p' =? p) && (a' =? a)) eqn:E; [discriminate|].
        intros E'. rewrite Hfr by (intros X; inversion X; lia). apply Hnone. exact E'. }
      split; [|split; [rewrite Hcl', Hcl; reflexivity|rewrite Hev; exact Hel]].
      intros p' a'. destruct ((p' =? p) && (a' =? a)) eqn:E.
      * assert (p' = p /\ a' = a) as [-> ->] by lia. split; [intros _; auto|intros _; eauto].
      * apply Hdom.
    + (* no such bank: the model refuses, nothing but the command log changes *)
      assert (initialized st && (0 <=? p) && (p <? 2) && is_supported a = false) as Hf.
      { destruct (initialized st && (0 <=? p) && (p <? 2) && is_supported a) eqn:E; [|reflexivity].
        assert (exists v, r_bank r p a = Some v) as (v & Ev).
        { apply andb_prop in E. destruct E as [E E4]. apply andb_prop in E. destruct E as [E E3].
          apply andb_prop in E. destruct E as [E1 E2].
          apply Hdom. rewrite <- Hinit. repeat split; [exact E1|lia|exact E4]. }
        congruence. }
      rewrite Hf in Ho. destruct Ho as (e & He).
      destruct (step H st (Extend p a d)) as [st' r'] eqn:Es. cbn [fst snd] in *. subst r'.
      split; [|exists e; reflexivity].
      destruct (fail_unchanged H st _ st' e Es) as (Hp' & Hev' & _ & Hcl').
      pose proof (wf_step H H_length st (Extend p a d) Hwf) as Hwf'. rewrite Es in Hwf'. cbn [fst] in Hwf'.
      unfold sim. cbn [r_logged r_started r_bank r_log r_ev]. rewrite Hp'.
      split; [exact Hwf'|].
      split; [unfold initialized in *; rewrite Hp'; exact Hinit|].
      split; [exact Hsome|]. split; [exact Hnone|]. split; [exact Hdom|].
      split; [rewrite Hcl', Hcl; reflexivity|rewrite Hev'; exact Hel].
  - (* LogAdd *)
    rewrite step_logadd. cbn [rstep fst snd]. split; [|reflexivity].
    unfold sim. cbn [log_event log_cmd pcrs cmdlog evlog r_logged r_started r_bank r_log r_ev].
    split; [exact Hwf|]. split; [exact Hinit|]. split; [exact Hsome|]. split; [exact Hnone|].
    split; [exact Hdom|]. split; [rewrite Hcl; reflexivity|rewrite Hel; reflexivity].
  - cbn [step apply rstep fst snd]. split; [exact sim_new|reflexivity].
  - cbn [step apply rstep fst snd]. split; [exact sim_blank|reflexivity].
Qed.

Lemma sim_run h : forall st r,
  Forall cmd_in_range h -> sim st r ->
  sim (run H st h) (rrun r h) /\ Forall2 res_agree (results H st h) (rresults r h).
Proof using H_length.
  induction h as [|c t IH]; intros st r Hr Hs; [split; [exact Hs|constructor]|].
  inversion Hr as [|? ? Hc Ht]; subst.
  destruct (sim_step st r c Hc Hs) as [Hs1 Hr1].
  destruct (IH _ _ Ht Hs1) as [Hs2 Hr2].
  cbn [run rrun results rresults]. split; [exact Hs2|constructor; assumption].
Qed.

(** for every command history run on NewTPM(): same started flag, same banks
    (a bank of the reference TPM reads the same value in the model; where the
    reference TPM has no bank the model has an empty slot or an error), same
    command log, same event log, and command by command the same verdict
    (executed / refused with an error -- never a panic) *)
Lemma ref_simulation h :
  Forall cmd_in_range h ->
  let st := run H fresh h in
  let r := rrun rnew h in
  initialized st = r_started r /\
  (forall p a v, r_bank r p a = Some v -> get (pcrs st) p a = Ok v) /\
  (forall p a, r_bank r p a = None -> get (pcrs st) p a = Ok [] \/ exists e, get (pcrs st) p a = Err e) /\
  cmdlog st = r_log r /\ evlog st = r_ev r /\
  Forall2 res_agree (results H fresh h) (rresults rnew h).
Proof using H_length.
  intros Hr. cbv zeta. destruct (sim_run h fresh rnew Hr sim_new) as [(_ & A & B & C & _ & D & E) F].
  repeat split; assumption.
Qed.

(** * The value of a bank as a function of the history *)

(** the digests a history extends into bank (p, a), in order *)
Fixpoint digests (p a : Z) (h : list cmd) : list (list Z) :=
  match h with
  | [] => []
  | Extend p' a' d :: t => if (p' =? p) && (a' =? a) then d :: digests p a t else digests p a t
  | _ :: t => digests p a t
  end.

Definition chain (a : Z) (start : list Z) (ds : list (list Z)) : list Z :=
  fold_left (fun v d => H a (v ++ d)) ds start.

Lemma pcr_chain h : forall st p a old,
  wf st -> initialized st = true -> no_reset h = true ->
  (p = 0 \/ p = 1) -> is_supported a = true ->
  get (pcrs st) p a = Ok old ->
  get (pcrs (run H st h)) p a = Ok (chain a old (digests p a h)).
Proof using H_length.
  induction h as [|c t IH]; intros st p a old Hwf Hi Hn Hp Hs Hg; [exact Hg|].
  cbn [no_reset forallb] in Hn. apply andb_prop in Hn. destruct Hn as [Hc Ht]. fold (no_reset t) in Ht.
  apply negb_true_iff in Hc.
  pose proof (wf_step H H_length st c Hwf) as Hwf'.
  pose proof (initialized_step H st c Hc) as Hi'. rewrite Hi in Hi'. cbn [orb] in Hi'.
  cbn [run].
  assert (forall st', fst (step H st c) = st' -> pcrs st' = pcrs st ->
          digests p a (c :: t) = digests p a t ->
          get (pcrs (run H (fst (step H st c)) t)) p a = Ok (chain a old (digests p a (c :: t)))) as Hsame.
  { intros st' E Hpv Hd. rewrite Hd. apply IH; auto. rewrite E, Hpv. exact Hg. }
  destruct (step H st c) as [st' r] eqn:Es. cbn [fst] in *.
  destruct (ok_or_not r) as [->|Hne].
  - destruct c as [l|p' a' d|p' a' d ty data| |]; try discriminate.
    + pose proof (startup_outcome H st l) as Ho. rewrite Es, Hi in Ho. discriminate.
    + destruct (extend_frame H st p' a' d st' Es) as (old' & Hg0 & Hg1 & Hfr & _ & _).
      cbn [digests]. destruct ((p' =? p) && (a' =? a)) eqn:E.
      * assert (p' = p /\ a' = a) as [-> ->] by lia. rewrite Hg in Hg0. inversion Hg0; subst old'.
        unfold chain. cbn [fold_left]. apply IH; auto.
      * apply IH; auto. rewrite Hfr by (intros X; inversion X; lia). exact Hg.
    + rewrite step_logadd in Es. inversion Es; subst. apply (Hsame _ eq_refl); reflexivity.
  - destruct (step_not_ok H st c st' r Es Hne) as [_ ->].
    destruct c as [l|p' a' d|p' a' d ty data| |]; try discriminate; try (apply (Hsame _ eq_refl); reflexivity).
    (* a refused extend is not one into a bank that exists *)
    apply (Hsame _ eq_refl); [reflexivity|]. cbn [digests].
    destruct ((p' =? p) && (a' =? a)) eqn:E; [|reflexivity]. exfalso.
    assert (p' = p /\ a' = a) as [-> ->] by lia.
    pose proof (extend_outcome H st p a d Hwf) as Ho. rewrite Es, Hi, Hs in Ho. cbn [snd] in Ho.
    replace (0 <=? p) with true in Ho by lia. replace (p <? 2) with true in Ho by lia. cbn [andb] in Ho.
    apply Hne. apply Ho. apply is_supported_range in Hs. lia.
Qed.

(** after startup(l) and ANY further commands (failing ones, event-log-adds and
    repeated startups included, no reset): bank (p, a) holds the startup value
    extended by exactly the digests addressed to it, in order *)
Lemma pcr_closed_form l h p a :
  no_reset h = true -> (p = 0 \/ p = 1) -> is_supported a = true ->
  get (pcrs (run H fresh (Startup l :: h))) p a =
  Ok (chain a (if p =? 0 then repeat 0 (hsize a - 1) ++ [l] else repeat 0 (hsize a)) (digests p a h)).
Proof using H_length.
  intros Hn Hp Hs. cbn [run].
  pose proof (step_startup H fresh l) as Hst. cbn [initialized fresh pcrs] in Hst.
  destruct (startup_values H fresh l _ Hst) as (V1 & _ & _). destruct (V1 a Hs) as [V10 V11].
  rewrite Hst. cbn [fst].
  apply pcr_chain; auto.
  - pose proof (wf_step H H_length fresh (Startup l) wf_fresh) as Hw. rewrite Hst in Hw. exact Hw.
  - destruct Hp as [-> | ->]; [exact V10|exact V11].
Qed.

End WithHash.
