(** Model of the Boot Guard IBB provisioning chain of
      pkg/provisioning/bootguard/bootguard.go  (CreateIBBSegments, GetIBBsDigest, CreateIBBDigest,
                                                IBBsMatchBPMDigest)
      pkg/provisioning/bootguard/tools.go      (StitchFITEntries)
      pkg/tools/ifd.go                         (CalcImageOffset)
      pkg/tools/acm.go                         (LookupACMSize)
    as the code is (after the fixes 98fb605 CalcImageOffset on a bare BIOS region, d896621 int
    segment counter, 06c79de SM3 name), including uintN wrap-around, panics, short reads and
    writes past the end of the file.

    Third-party parsers are NOT modelled: their results are inputs.
      - the FIT is a [list fit_entry] (what fit.GetEntries returns, header entry included);
      - the outcome of the three layout probes of CalcImageOffset (IFD BIOS region, coreboot
        FMAP "COREBOOT" area, bare BIOS region) is a [layout]; the length of the image is a
        separate argument [n]; for images on which more than one probe answers the answers
        of all three are the input ([probes]) and the ORDER in which CalcImageOffset asks
        them is part of the model ([probe_layout]);
      - the CBFS directory is a [list cbfs_file].
    Hashes are not computed: where the code returns a digest the model returns the preimage. *)
From CSS Require Import Lib.Base.

Definition BASE : Z := 4294967296.          (* consts.BasePhysAddr = 4 GiB *)
Definition W63 : Z := 9223372036854775808.

Definition zlen {A} (l : list A) : Z := Z.of_nat (length l).

(** [slice img off n]: the bytes [off, off+n) that exist in [img] (fewer at the end). *)
Definition slice (img : list Z) (off n : Z) : list Z :=
  firstn (Z.to_nat n) (skipn (Z.to_nat off) img).

(** a buffer of [n] zero bytes filled by one Read at [off] (Go: make([]byte,n); r.Read(buf)) *)
Definition read_padded (img : list Z) (off n : Z) : list Z :=
  let b := slice img off n in b ++ repeat 0 (Z.to_nat n - length b).

(* ------------------------------------------------------------------ *)
(** * tools.CalcImageOffset *)

Inductive layout : Type :=
| LIFD (off size : Z)        (* GetRegion(image, BIOS) succeeded: region offset, size (uint32) *)
| LCoreboot (off size : Z)   (* no IFD; FMAP area "COREBOOT": offset, size (uint32) *)
| LBiosOnly                  (* neither; uefi.NewBIOSRegion(image) succeeded *)
| LNone.                     (* all three failed *)

(** [n] = len(image) *)
Definition calc_offset (l : layout) (n : Z) (addr : Z) : outcome Z :=
  match l with
  | LIFD off size | LCoreboot off size =>
      (* uint64(off+size) - BasePhysAddr + addr, off+size in uint32 *)
      Ok (wrap64 (wrap32 (off + size) - BASE + addr))
  | LBiosOnly => Ok (wrap64 (n - BASE + addr))   (* uint64(len(image)) - consts.BasePhysAddr + addr *)
  | LNone => Err 1
  end.

(** The three probes in the order in which CalcImageOffset asks them.  Each probe has its own
    answer, whatever the others say: an image can hold a flash descriptor AND a coreboot flash
    map (a full coreboot image; the COREBOOT area need not end where the BIOS region ends, e.g.
    a separate BOOTBLOCK area above the CBFS) and parses as a bare BIOS region besides.
      [pr_ifd]  = GetRegion(image, RegionTypeBIOS): offset, size of the descriptor's BIOS region;
      [pr_fmap] = getCorebootRegion(image): offset, size of the FMAP area "COREBOOT"
                  ([None]: no FMAP signature, or an FMAP without such an area);
      [pr_bios] = uefi.NewBIOSRegion(image) succeeded.
    The first probe that answers decides; the later ones are not consulted. *)
Record probes : Type := mkPR { pr_ifd : option (Z * Z); pr_fmap : option (Z * Z); pr_bios : bool }.

Definition probe_layout (p : probes) : layout :=
  match pr_ifd p with
  | Some (off, size) => LIFD off size
  | None =>
      match pr_fmap p with
      | Some (off, size) => LCoreboot off size
      | None => if pr_bios p then LBiosOnly else LNone
      end
  end.

Definition calc_image_offset (p : probes) (n : Z) (addr : Z) : outcome Z :=
  calc_offset (probe_layout p) n addr.

(** The address map of the property text: a region that ends at image offset [region_end]
    is mapped so that its end is at 4 GiB. *)
Definition spec_offset (region_end addr : Z) : Z := region_end - (BASE - addr).

(* ------------------------------------------------------------------ *)
(** * CreateIBBSegments *)

Record fit_entry : Type := mkFE { fe_type : Z; fe_addr : Z; fe_size : Z }.
   (* TYPE (7 bit), Address (uint64), Size (24 bit) of a FIT entry *)
Record segment : Type := mkSeg { sg_base : Z; sg_size : Z; sg_flags : Z }.
   (* bootpolicy IBBSegment: Base uint32, Size uint32, Flags uint16 *)

Definition T_SACM : Z := 2.
Definition T_STARTUP : Z := 7.
Definition T_KM : Z := 11.
Definition T_BPM : Z := 12.

Definition is_startup (e : fit_entry) : bool := fe_type e =? T_STARTUP.

(** what one BIOS-startup-module entry contributes *)
Definition startup_seg (flags : Z) (e : fit_entry) : segment :=
  mkSeg (wrap32 (fe_addr e)) (wrap32 (fe_size e * 16)) flags.

Definition zero_seg : segment := mkSeg 0 0 0.

Fixpoint set_nth {A} (n : nat) (x : A) (l : list A) : list A :=
  match l, n with
  | [], _ => []
  | _ :: t, O => x :: t
  | h :: t, S n' => h :: set_nth n' x t
  end.

(** the second loop: [ibbElements[idx] = ...; idx++] over a slice of length [length arr] *)
Fixpoint fill_segs {E} (sel : E -> bool) (mk : E -> segment) (es : list E) (idx : nat)
         (arr : list segment) : outcome (list segment) :=
  match es with
  | [] => Ok arr
  | e :: t =>
      if sel e then
        if (idx <? length arr)%nat then fill_segs sel mk t (S idx) (set_nth idx (mk e) arr)
        else Panic                                  (* index out of range *)
      else fill_segs sel mk t idx arr
  end.

Fixpoint count_sel {E} (sel : E -> bool) (es : list E) : Z :=
  match es with
  | [] => 0
  | e :: t => (if sel e then 1 else 0) + count_sel sel t
  end.

(** [var ibbCount int; ... ibbCount++; make([]ibbElement, ibbCount)] then the index walk *)
Definition collect_segs {E} (sel : E -> bool) (mk : E -> segment) (es : list E) : outcome (list segment) :=
  fill_segs sel mk es 0 (repeat zero_seg (Z.to_nat (count_sel sel es))).

Definition create_segments (flags : Z) (fit : list fit_entry) : outcome (list segment) :=
  collect_segs is_startup (startup_seg flags) fit.

(** coreboot branch: CBFS component (name, RecordStart, SubHeaderOffset, Size) *)
Record cbfs_file : Type := mkCF { cf_name : list Z; cf_rec : Z; cf_sub : Z; cf_size : Z }.

Definition NAME_FSPT : list Z := [102; 115; 112; 116; 46; 98; 105; 110].                      (* "fspt.bin" *)
Definition NAME_VERSTAGE : list Z :=
  [102; 97; 108; 108; 98; 97; 99; 107; 47; 118; 101; 114; 115; 116; 97; 103; 101].             (* "fallback/verstage" *)
Definition NAME_BOOTBLOCK : list Z := [98; 111; 111; 116; 98; 108; 111; 99; 107].             (* "bootblock" *)

Definition is_ibb_file (f : cbfs_file) : bool :=
  zlist_eqb (cf_name f) NAME_FSPT || zlist_eqb (cf_name f) NAME_VERSTAGE || zlist_eqb (cf_name f) NAME_BOOTBLOCK.

(** [uint32(flashBase) + cbfsbaseaddr + RecordStart + SubHeaderOffset], flashBase = 4GiB - file size *)
Definition cbfs_seg (flags file_size cbfs_off : Z) (f : cbfs_file) : segment :=
  mkSeg (wrap32 (wrap32 (BASE - file_size) + cbfs_off + cf_rec f + cf_sub f)) (cf_size f) flags.

Definition create_segments_cbfs (flags file_size cbfs_off : Z) (files : list cbfs_file) : outcome (list segment) :=
  collect_segs is_ibb_file (cbfs_seg flags file_size cbfs_off) files.

(** the whole call on a manifest with [se_count] SE elements:
    [fit = None] is "fit.GetEntries returned an error". *)
Definition create_ibb_segments (se_count se_idx flags : Z) (fit : option (list fit_entry)) : outcome (list segment) :=
  match fit with
  | None => Err 1
  | Some es =>
      bind (create_segments flags es) (fun segs =>
        if (0 <=? se_idx) && (se_idx <? se_count) then Ok segs else Panic)
  end.

Definition create_ibb_segments_cbfs (se_count se_idx flags file_size cbfs_off : Z) (files : list cbfs_file)
  : outcome (list segment) :=
  bind (create_segments_cbfs flags file_size cbfs_off files) (fun segs =>
    if (0 <=? se_idx) && (se_idx <? se_count) then Ok segs else Panic).

(* ------------------------------------------------------------------ *)
(** * GetIBBsDigest / CreateIBBDigest *)

Definition excluded (s : segment) : bool := negb (Z.land (sg_flags s) 1 =? 0).

(** Seek(int64(addr)) then Read into make([]byte, size) on a bytes.Reader *)
Definition read_segment (l : layout) (img : list Z) (s : segment) : outcome (list Z) :=
  bind (calc_offset l (zlen img) (sg_base s)) (fun off =>
    if W63 <=? off then Err 2                        (* negative position *)
    else if zlen img <=? off then Err 3              (* io.EOF, also for size 0 *)
    else Ok (read_padded img off (sg_size s))).

Fixpoint digest_preimage (l : layout) (img : list Z) (segs : list segment) : outcome (list Z) :=
  match segs with
  | [] => Ok []
  | s :: t =>
      if excluded s then digest_preimage l img t
      else bind (read_segment l img s) (fun b =>
           bind (digest_preimage l img t) (fun r => Ok (b ++ r)))
  end.

(** algorithm ids (TPM_ALG_xxx): SHA1 4, SHA256 11, SHA384 12, SHA512 13, SM3 18.
    [alg] is the id denoted by the name given to GetAlgFromString, or any other value for
    a name that is unknown or not a hash. *)
Definition alg_supported (ver alg : Z) : bool :=
  if ver =? 1 then (alg =? 4) || (alg =? 11)
  else (alg =? 4) || (alg =? 11) || (alg =? 12) || (alg =? 18).

(** result: (algorithm, preimage): the digest is H alg preimage *)
Definition get_ibbs_digest (ver alg : Z) (l : layout) (img : list Z) (segs : list segment)
  : outcome (Z * list Z) :=
  if alg_supported ver alg then bind (digest_preimage l img segs) (fun p => Ok (alg, p)) else Err 4.

(** CreateIBBDigest goes through HashAlg.String() and back through GetAlgFromString:
    "SHA512" is not accepted on the way back; SM3, which String() prints as "SM3_256", is
    handed over as "SM3" (fix 06c79de). *)
Definition alg_name_roundtrips (ver alg : Z) : bool :=
  if ver =? 1 then (alg =? 4) || (alg =? 11)
  else (alg =? 4) || (alg =? 11) || (alg =? 12) || (alg =? 18).

Fixpoint create_ibb_digest (ver : Z) (algs : list Z) (l : layout) (img : list Z) (segs : list segment)
  : outcome (list (Z * list Z)) :=
  match algs with
  | [] => Ok []
  | a :: t =>
      if alg_name_roundtrips ver a then
        bind (get_ibbs_digest ver a l img segs) (fun d =>
        bind (create_ibb_digest ver t l img segs) (fun r => Ok (d :: r)))
      else Err 5
  end.

(* ------------------------------------------------------------------ *)
(** * The independent checker (fiano ValidateIBB as called by IBBsMatchBPMDigest)
      offset = base - (4GiB - len(image)); slices firmware.Buf() without bounds check. *)

Definition to_int64 (z : Z) : Z := if z <? W63 then z else z - W64.

Definition validator_range (img : list Z) (s : segment) : outcome (list Z) :=
  let lo := to_int64 (wrap64 (sg_base s - (BASE - zlen img))) in
  let hi := to_int64 (wrap64 (wrap64 (sg_base s - (BASE - zlen img)) + sg_size s)) in
  if (0 <=? lo) && (lo <=? hi) && (hi <=? zlen img) then Ok (slice img lo (sg_size s)) else Panic.

Fixpoint validator_preimage (img : list Z) (segs : list segment) : outcome (list Z) :=
  match segs with
  | [] => Ok []
  | s :: t =>
      if excluded s then validator_preimage img t
      else bind (validator_range img s) (fun b =>
           bind (validator_preimage img t) (fun r => Ok (b ++ r)))
  end.

(** IBBsMatchBPMDigest on a manifest whose digest was produced by GetIBBsDigest:
    accepted iff both sides hashed the same bytes (up to hash collisions). *)
Definition ibbs_match (l : layout) (img : list Z) (segs : list segment) : outcome bool :=
  bind (digest_preimage l img segs) (fun p =>
  bind (validator_preimage img segs) (fun q => Ok (zlist_eqb p q))).

(* ------------------------------------------------------------------ *)
(** * StitchFITEntries *)

(** os.File.WriteAt at a non-negative offset: a hole before [off] reads as zeros *)
Definition write_at (file : list Z) (off : Z) (data : list Z) : list Z :=
  let n := zlen file in
  if off <=? n then firstn (Z.to_nat off) file ++ data ++ skipn (Z.to_nat (off + zlen data)) file
  else file ++ repeat 0 (Z.to_nat (off - n)) ++ data.

(** length of fiano's DataSegmentBytes of a KM / BPM entry (size = Size field in bytes,
    offset relative to the end of the image, check.BytesRange on int conversions);
    0 also stands for "could not be sliced" *)
Definition manifest_data_len (img_len : Z) (e : fit_entry) : Z :=
  let lo := wrap64 (fe_addr e - (BASE - img_len)) in
  let hi := wrap64 (lo + fe_size e) in
  if fe_size e =? 0 then 0
  else if (0 <=? to_int64 lo) && (to_int64 lo <=? to_int64 hi) && (to_int64 hi <=? img_len)
  then fe_size e else 0.

Definition le32 (b : list Z) : Z :=
  nth 0 b 0 + 256 * nth 1 b 0 + 65536 * nth 2 b 0 + 16777216 * nth 3 b 0.

(** tools.LookupACMSize on the 32 header bytes: uint32 at 24, times 4 in uint32 *)
Definition acm_size (hdr : list Z) : Z := wrap32 (le32 (skipn 24 hdr) * 4).

(** state: the file contents; [orig] is the image read at the start (FIT, data segments,
    layout); result [(file', ok)] *)
Definition stitch_manifest (l : layout) (orig file : list Z) (e : fit_entry) (new : list Z) : list Z * bool :=
  match new with
  | [] => (file, true)                                           (* len(new) <= 0: continue *)
  | _ =>
      let dl := manifest_data_len (zlen orig) e in
      if dl =? 0 then (file, false)                              (* FIT entry size is zero *)
      else if dl <? zlen new then (file, false)                  (* new bigger than old *)
      else match calc_offset l (zlen orig) (fe_addr e) with
           | Ok off => if W63 <=? off then (file, false)         (* WriteAt: negative offset *)
                       else (write_at file off new, true)
           | _ => (file, false)
           end
  end.

(** [n]: length of the image read at the start (CalcImageOffset(image, ...)) *)
Definition stitch_acm (l : layout) (n : Z) (file : list Z) (e : fit_entry) (new : list Z) : list Z * bool :=
  match new with
  | [] => (file, true)
  | _ =>
      match calc_offset l n (fe_addr e) with
      | Ok off =>
          if W63 <=? off then (file, false)                      (* Seek: negative *)
          else if zlen file <=? off then (file, false)           (* Read: EOF *)
          else
            let sz := acm_size (read_padded file off 32) in
            if sz =? 0 then (file, false)
            else if negb (zlen new =? sz) then (file, false)
            else (write_at file off new, true)
      | _ => (file, false)
      end
  end.

Definition stitch_entry (l : layout) (orig file : list Z) (e : fit_entry) (acm bpm km : list Z) : list Z * bool :=
  if fe_type e =? T_BPM then stitch_manifest l orig file e bpm
  else if fe_type e =? T_KM then stitch_manifest l orig file e km
  else if fe_type e =? T_SACM then stitch_acm l (zlen orig) file e acm
  else (file, true).

Fixpoint stitch_loop (l : layout) (orig file : list Z) (es : list fit_entry) (acm bpm km : list Z) : list Z * bool :=
  match es with
  | [] => (file, true)
  | e :: t =>
      let '(file', ok) := stitch_entry l orig file e acm bpm km in
      if ok then stitch_loop l orig file' t acm bpm km else (file', false)
  end.

(** [fit = None]: fit.GetTable failed (nothing is written) *)
Definition stitch (l : layout) (img : list Z) (fit : option (list fit_entry)) (acm bpm km : list Z) : list Z * bool :=
  match fit with
  | None => (img, false)
  | Some es => stitch_loop l img img es acm bpm km
  end.

(* ------------------------------------------------------------------ *)
(** * The BootGuard object across calls (state passing)

    What the C19 operations read and write of one BootGuard object: the IBBSegments list of
    every SE element and the digest list of SE[0] (BG 1.0: the single Digest): algorithm id
    and what the stored HashBuffer holds ([Some (x, p)]: the digest, made with algorithm [x], of
    the bytes [p]: what GetIBBsDigest returned for [x]; [x] differs from the entry's algorithm
    when the caller changed HashAlg and kept the buffer; [None]: any other buffer: the nil /
    empty buffer of a new manifest, bytes of any length a loaded manifest came with).  CreateIBBDigest allocates a new
    buffer of the digest's length for every entry, so what a buffer held before, and how long
    it was, never reaches the stored digest ([create_digest_loop] ignores the old value).  Nothing else survives a call:
    the image (and its layout, FIT, CBFS directory) is an argument of every operation, so
    whatever an earlier call was given cannot influence a later one. *)

Definition stored : Type := option (Z * list Z).

Record bg_state : Type := mkBG { bg_segs : list (list segment); bg_digs : list (Z * stored) }.

Definition se_count (st : bg_state) : Z := zlen (bg_segs st).
Definition segs_of (st : bg_state) (i : Z) : list segment := nth (Z.to_nat i) (bg_segs st) [].

(** [SE[i].IBBSegments = make(...)] + the indexed copies: the old list is REPLACED *)
Definition put_segs (st : bg_state) (i : Z) (s : list segment) : bg_state :=
  mkBG (set_nth (Z.to_nat i) s (bg_segs st)) (bg_digs st).

(** algorithms for which Algorithm.Hash() of the manifest library returns a hash *)
Definition alg_hashable (ver alg : Z) : bool :=
  if ver =? 1 then (alg =? 4) || (alg =? 11)
  else (alg =? 4) || (alg =? 11) || (alg =? 12) || (alg =? 13) || (alg =? 18).

(** The caller rewrites the digest list of SE[0] (BG 1.0: the single Digest) while the object
    is in use: a manifest that comes with digests (ReadJSON, a parsed BPM, the config of an
    earlier run), the hash algorithm of an entry changed, entries re-ordered.  The HashBuffer
    of a kept entry is the SAME buffer as before, whatever its length.
    [EKeep idx alg]: the entry that was at position [idx] goes here, its HashAlg set to [alg];
      its buffer keeps its bytes;
    [ENew alg d]: a new entry; [d = Some (x, p)]: its buffer holds the digest, made with
      algorithm [x], of the bytes [p]; [d = None]: any other buffer (nil, empty, bytes of any
      length that are no digest the model knows). *)
Inductive dig_edit : Type :=
| EKeep (idx : nat) (alg : Z)
| ENew (alg : Z) (d : stored).

Definition edit_alg (e : dig_edit) : Z := match e with EKeep _ a => a | ENew a _ => a end.

Definition edit_entry (old : list (Z * stored)) (e : dig_edit) : Z * stored :=
  match e with
  | EKeep i a => (a, match nth_error old i with Some (_, d) => d | None => None end)
  | ENew a d => (a, d)
  end.

Inductive op : Type :=
(* the caller assigns SE[se].IBBSegments (config file, ReadJSON, a parsed manifest) *)
| OSetSegs (se : Z) (segs : list segment)
(* the caller replaces the digest list of SE[0] by empty digests of the given algorithms *)
| OSetAlgs (algs : list Z)
(* the caller rewrites the digest list of SE[0], keeping / moving / re-labelling buffers *)
| OEditDigs (es : list dig_edit)
(* CreateIBBSegments(se, flags, file) on a UEFI image with the given FIT *)
| OCreateSegs (se flags : Z) (fit : option (list fit_entry))
(* the same on a coreboot image *)
| OCreateSegsCbfs (se flags file_size cbfs_off : Z) (files : list cbfs_file)
(* GetIBBsDigest(image, name of alg) *)
| OGetDigest (alg : Z) (l : layout) (img : list Z)
(* CreateIBBDigest(file) *)
| OCreateDigest (l : layout) (img : list Z)
(* IBBsMatchBPMDigest(image) *)
| OMatch (img : list Z).

Inductive result : Type :=
| RNone
| RUnit (r : outcome unit)
| RDigest (r : outcome (Z * list Z))
| RBool (r : outcome bool).

Definition unit_of {A} (o : outcome A) : outcome unit :=
  match o with Ok _ => Ok tt | Err c => Err c | Panic => Panic | OutOfFuel => OutOfFuel end.

(** the version switch at the end of CreateIBBSegments: an error or a panic (SE index out
    of range) happens before the object is touched *)
Definition store_created (st : bg_state) (i : Z) (r : outcome (list segment)) : bg_state * result :=
  match r with
  | Ok s => (put_segs st i s, RUnit (Ok tt))
  | _ => (st, RUnit (unit_of r))
  end.

(** the loop of CreateIBBDigest over the digest list: entries before a failing one keep
    their new digest *)
Fixpoint create_digest_loop (ver : Z) (l : layout) (img : list Z) (segs : list segment)
         (digs : list (Z * stored)) : list (Z * stored) * outcome unit :=
  match digs with
  | [] => ([], Ok tt)
  | (a, old) :: t =>
      if alg_name_roundtrips ver a then
        match get_ibbs_digest ver a l img segs with
        | Ok ap => let '(t', r) := create_digest_loop ver l img segs t in ((a, Some ap) :: t', r)
        | o => (digs, unit_of o)
        end
      else (digs, Err 5)
  end.

(** fiano ValidateIBB against the stored digest [0]: "no IBB hashes" / "invalid hash
    function" / hash mismatch are all reported as (false, error).  A buffer that holds a digest
    made with another algorithm than the entry's is a mismatch (other length or other
    function: equal only by a hash collision). *)
Definition match_stored (ver : Z) (st : bg_state) (img : list Z) : outcome bool :=
  if se_count st =? 0 then Panic
  else match bg_digs st with
       | [] => Ok false
       | (a, d) :: _ =>
           if alg_hashable ver a then
             bind (validator_preimage img (segs_of st 0)) (fun q =>
               Ok (match d with Some (x, p) => (x =? a) && zlist_eqb p q | None => false end))
           else Ok false
       end.

Definition step (ver : Z) (st : bg_state) (o : op) : bg_state * result :=
  match o with
  | OSetSegs i s => (if 0 <=? i then put_segs st i s else st, RNone)
  | OSetAlgs algs => (mkBG (bg_segs st) (map (fun a => (a, None)) algs), RNone)
  | OEditDigs es => (mkBG (bg_segs st) (map (edit_entry (bg_digs st)) es), RNone)
  | OCreateSegs i flags fit => store_created st i (create_ibb_segments (se_count st) i flags fit)
  | OCreateSegsCbfs i flags fs co files =>
      store_created st i (create_ibb_segments_cbfs (se_count st) i flags fs co files)
  | OGetDigest alg l img =>
      (st, RDigest (if alg_supported ver alg && (se_count st =? 0) then Panic
                    else get_ibbs_digest ver alg l img (segs_of st 0)))
  | OCreateDigest l img =>
      if se_count st =? 0 then (st, RUnit Panic)
      else let '(d, r) := create_digest_loop ver l img (segs_of st 0) (bg_digs st) in
           (mkBG (bg_segs st) d, RUnit r)
  | OMatch img => (st, RBool (match_stored ver st img))
  end.

Fixpoint run (ver : Z) (st : bg_state) (ops : list op) : bg_state * list result :=
  match ops with
  | [] => (st, [])
  | o :: t => let '(st1, r) := step ver st o in
              let '(st2, rs) := run ver st1 t in (st2, r :: rs)
  end.

Definition final (ver : Z) (st : bg_state) (ops : list op) : bg_state := fst (run ver st ops).
