(** Case language of the C03 correspondence check.  The Go harness
    (harness/cmd/c03) runs pcrbruteforcer.ReproduceExpectedPCR0 (and, through the
    verif hook, linearSearch.Process) and writes what it gave and what it got;
    [check] evaluates the model of Model/PCR0Search.v on FREE HASH TERMS and
    decides whether the observed result is one of the results the model allows.

    Free terms: a digest is an atom (the harness numbers distinct byte strings),
    the digest of a PCR0_DATA structure with a given register, the PCR0 value
    after TPMInit, or an extend.  The harness keeps, for every byte string it
    hands to the implementation, the term it was built from, and evaluates the
    term with Go's crypto/sha1, crypto/sha256 (never Coq).  Two terms are equal
    iff the byte strings are, unless SHA-1/SHA-256 collide on these inputs. *)
From CSS Require Import Lib.Base Lib.Cases Model.Comb Model.PCR0Search Model.PCR0Tool.

Inductive term : Type :=
| Atom (i : Z)
| DataH (tail reg : Z)
| Init (loc : Z)
| Ext (p d : term).

Fixpoint term_eqb (a b : term) : bool :=
  match a, b with
  | Atom i, Atom j => i =? j
  | DataH t r, DataH t' r' => (t =? t') && (r =? r')
  | Init l, Init l' => l =? l'
  | Ext p d, Ext p' d' => if term_eqb d d' then term_eqb p p' else false
  | _, _ => false
  end.

Definition tmeas := meas term.
(** a measurement that is not PCR0_DATA *)
Definition MP (d : term) : tmeas := mkMeas d None.
(** a PCR0_DATA measurement whose recorded digest is the hash of its source *)
Definition MD (tail reg : Z) : tmeas := mkMeas (DataH tail reg) (Some (tail, reg)).
(** a PCR0_DATA measurement whose recorded digest is something else *)
Definition MX (d : term) (tail reg : Z) : tmeas := mkMeas d (Some (tail, reg)).

(** entries of the tpm.CommandLog handed to ReproduceExpectedPCR0: the command
    type of Model/PCR0Tool.v on free terms *)
Definition cmd : Type := lcmd term.
Notation KInit := (@LInit term).       (* *tpm.CommandInit *)
Notation KExt := (@LExt term).         (* *tpm.CommandExtend *)
Notation KLog := (@LLog term).         (* *tpm.CommandEventLogAdd *)

(** [filteredMeasurements] (Model/PCR0Tool.v) *)
Definition filter_log : Z -> nat -> list cmd -> list (nat * tmeas) := PCR0Tool.filter_log term.

(** what the call returned *)
Inductive obsres : Type :=
| RNil                                  (* (nil, nil) *)
| RSome (loc : Z) (reg : option Z)
        (disabled : list nat)           (* positions in the command log of DisabledMeasurements *)
        (sw : list (nat * nat))         (* OrderSwaps *)
| RErr                                  (* a non-nil error *)
| RHang                                 (* no answer within the harness timeout *)
| RPanic.

(** what pcr0tool's printReproducePCR0Result said when it was handed the same
    command log, the requested value and the result that was returned *)
Inductive tool_obs : Type :=
| TNot                                  (* not run (no result) *)
| TSaid (v : tverdict).

Inductive case : Type :=
(* ReproduceExpectedPCR0 under GOMAXPROCS = cf; then printReproducePCR0Result on the result *)
| CRun (cf : Z) (st : settings) (alg : Z) (cmds : list cmd) (target : term) (r : obsres) (tv : tool_obs)
(* linearSearch.Process(limit) under GOMAXPROCS = cf with a predicate that
   rejects everything: per goroutine (ordered by first value, idle ones last)
   the register values offered to check(), starting from register [reg] *)
| CLin (limit cf reg : Z) (offered : list (list Z))
(* combinatorialSearch.Process(limit) under GOMAXPROCS = cf with a predicate that
   rejects everything, starting from register [reg]: per init() call whose
   (buffer, context) pair reached check(), ordered by the first candidate
   (number of flipped bits, then the sorted bit list), a summary of the registers
   offered with that pair: how many, the first, the last, their sum mod 2^64 *)
| CComb (limit cf reg : Z) (offered : list (Z * Z * Z * Z))
(* the same for small distance limits, element by element: per context every register
   offered, in order *)
| CCombFull (limit cf reg : Z) (offered : list (list Z)).

Fixpoint index_of (x : nat) (l : list nat) (i : nat) : option nat :=
  match l with
  | [] => None
  | y :: t => if Nat.eqb x y then Some i else index_of x t (S i)
  end.

Fixpoint map_opt {A B} (f : A -> option B) (l : list A) : option (list B) :=
  match l with
  | [] => Some []
  | x :: t => match f x, map_opt f t with
              | Some y, Some r => Some (y :: r)
              | _, _ => None
              end
  end.

Definition optZ_eqb (a b : option Z) : bool :=
  match a, b with
  | Some x, Some y => x =? y
  | None, None => true
  | _, _ => false
  end.

Definition pair_eqb (a b : nat * nat) : bool := Nat.eqb (fst a) (fst b) && Nat.eqb (snd a) (snd b).

Definition result_eqb (a b : result) : bool :=
  (r_loc a =? r_loc b) && optZ_eqb (r_reg a) (r_reg b)
  && list_eqb Nat.eqb (r_disabled a) (r_disabled b)
  && list_eqb pair_eqb (r_swaps a) (r_swaps b).

Definition fres_eqb (a b : fres) : bool :=
  match a, b with
  | FNone, FNone => true
  | FSome x, FSome y => result_eqb x y
  | FHang, FHang => true
  | FPanic, FPanic => true
  | _, _ => false
  end.

Definition model_outcomes (cf : Z) (st : settings) (log : list tmeas) (target : term) : list fres :=
  outcomes term term_eqb Init Ext DataH st log target cf.

Definition ctx_summary (l : list Z) : Z * Z * Z * Z :=
  (Z.of_nat (length l), hd 0 l, last l 0, wrap64 (fold_left Z.add l 0)).

Definition summary_eqb (a b : Z * Z * Z * Z) : bool :=
  let '(n, f, l, s) := a in
  let '(n', f', l', s') := b in
  (n =? n') && (f =? f') && (l =? l') && (s =? s').

Definition tverdict_eqb (a b : tverdict) : bool :=
  match a, b with
  | TVOk, TVOk | TVMismatch, TVMismatch | TVSilent, TVSilent | TVPanic, TVPanic => true
  | _, _ => false
  end.

(** the tool's verdict on the returned result is the one of [tool_verdict] *)
Definition check_tool (alg : Z) (cmds : list cmd) (target : term) (r : obsres) (tv : tool_obs) : bool :=
  match tv, r with
  | TNot, _ => true
  | TSaid v, RSome loc reg dis sw =>
      tverdict_eqb (tool_verdict term term_eqb Init Ext DataH alg cmds target loc reg dis sw) v
  | TSaid _, _ => false
  end.

Definition check (c : case) : bool :=
  match c with
  | CRun cf st alg cmds target r tv =>
      check_tool alg cmds target r tv &&
      let f := filter_log alg 0 cmds in
      let outs := model_outcomes cf st (map snd f) target in
      let o :=
        match r with
        | RNil => Some FNone
        | RSome loc reg dis sw =>
            match map_opt (fun p => index_of p (map fst f) 0) dis with
            | Some dis' => Some (FSome (mkResult loc reg dis' sw))
            | None => None
            end
        | RHang => Some FHang
        | RPanic => Some FPanic
        | RErr => None
        end in
      match o with
      | Some x => existsb (fres_eqb x) outs
      | None => false
      end
  | CLin limit cf reg offered =>
      list_eqb zlist_eqb offered
        (map (fun se => map (fun d => wrap64 (reg - d)) (block_decs se)) (lin_blocks limit cf))
  | CComb limit cf reg offered =>
      list_eqb summary_eqb offered
        (map ctx_summary (comb_offered cf reg (comb_maxd (mkSettings 0 0 true limit 0))))
  | CCombFull limit cf reg offered =>
      list_eqb zlist_eqb offered (comb_offered cf reg (comb_maxd (mkSettings 0 0 true limit 0)))
  end.

Definition mismatches := mismatches_by check.
