(** C15 — models of the repo-owned logic that sits AROUND third-party parsers
    (the parser itself stays outside: the harness runs it and hands its results
    to the model as data).

      pkg/provisioning/bootguard/keygen.go
          parsePrivateKey (behind DecryptPrivKey) and ReadPubKey: the loop over
          the PEM blocks, with its two different "is this a certificate" tests,
          driven by the calls of encoding/pem.Decode the harness observed
          ([pem_trace]);
      pkg/tools/ifd.go
          GetRegion (offset / size arithmetic in uint32 over the region record
          fiano returned) and CalcImageOffset (which of the three layouts is
          taken, the address arithmetic in uint32 / uint64);
      pkg/tpmdetection/detection.go
          local(): the two file-existence decisions in front of the capability
          file parser ([Decoders.local_caps]).
    No proofs here. *)
From CSS Require Import Lib.Base Model.Decoders.
From CSS Require Model.EventLog.

(** * PEM block loops *)

(** "CERTIFICATE" *)
Definition PEM_CERTIFICATE : list Z := [67; 69; 82; 84; 73; 70; 73; 67; 65; 84; 69].
(** "RSA" *)
Definition PEM_RSA : list Z := [82; 83; 65].

Fixpoint is_prefix (p l : list Z) : bool :=
  match p, l with
  | [], _ => true
  | x :: p', y :: l' => (x =? y) && is_prefix p' l'
  | _ :: _, [] => false
  end.
(** strings.Contains(l, p) *)
Fixpoint contains (p l : list Z) : bool :=
  is_prefix p l || match l with [] => false | _ :: t => contains p t end.

(** which loop: parsePrivateKey skips a block iff [block.Type == "CERTIFICATE"],
    ReadPubKey iff [strings.Contains(block.Type, "CERTIFICATE")] *)
Definition WHO_PRIVATE : Z := 0.
Definition WHO_PUBLIC : Z := 1.
Definition skips_block (who : Z) (ty : list Z) : bool :=
  if who =? WHO_PRIVATE then zlist_eqb ty PEM_CERTIFICATE else contains PEM_CERTIFICATE ty.

(** one observed call [block, rest := pem.Decode(raw)] that returned a block:
    (len(raw), block.Type, len(rest)); [rest] is a suffix of [raw] *)
Definition pem_call : Type := (Z * list Z * Z)%type.
Definition pem_trace : Type := list pem_call.

Fixpoint trace_lookup (t : pem_trace) (n : Z) : option (list Z * Z) :=
  match t with
  | [] => None
  | (m, ty, r) :: t' => if m =? n then Some (ty, r) else trace_lookup t' n
  end.

(** the block decoder the observed calls define: a position (= number of bytes
    left) that was never decoded has no block *)
Definition decode_of (who : Z) (t : pem_trace) (raw : list Z) : option (bool * list Z) :=
  match trace_lookup t (lenZ raw) with
  | Some (ty, r) => Some (skips_block who ty, dropZ raw (lenZ raw - r))
  | None => None
  end.

(** what the harness checks of every observed call: pem.Decode handed back a
    strictly shorter rest (the contract [C15_pem_loop_terminates_partial] needs) *)
Definition call_ok (c : pem_call) : bool := let '(n, _, r) := c in (0 <=? r) && (r <? n).
Definition trace_ok (t : pem_trace) : bool := forallb call_ok t.

(** the loop on a file of [n] bytes *)
Definition pem_run (who : Z) (t : pem_trace) (n : Z) : outcome bool :=
  let raw := repeat 0 (Z.to_nat n) in pem_loop (decode_of who t) (S (length raw)) raw.

(** where the loop leaves with a block for the x509 parsers: the position
    (number of bytes left when pem.Decode was called) of the first block that
    is not skipped; [None] = the blocks ran out *)
Fixpoint pem_exit (who : Z) (t : pem_trace) (fuel : nat) (n : Z) : option Z :=
  match fuel with
  | O => None
  | S f =>
      match trace_lookup t n with
      | None => None
      | Some (ty, r) => if skips_block who ty then pem_exit who t f r else Some n
      end
  end.

(** the return code of the whole function, given the positions [keys] whose
    block the x509 parsers accept (third party: observed by the harness):
    0 = a key, 1 = "failed to parse ... key", 2 = the error of the x509 parsers *)
Definition pem_code (who : Z) (t : pem_trace) (keys : list Z) (n : Z) : Z :=
  match pem_exit who t (S (Z.to_nat n)) n with
  | None => 1
  | Some m => if existsb (Z.eqb m) keys then 0 else 2
  end.

(** * pkg/tools/ifd.go *)

Definition BasePhysAddr : Z := 4294967296.
Definition RegionBlockSize : Z := 4096.
Definition MaxUint64 : Z := 18446744073709551615.

(** GetRegion once fiano has produced the descriptor: [valid] = FlashRegion.Valid(),
    [base], [limit] = the 16-bit fields; BaseOffset() = uint32(Base) * 4096,
    EndOffset() = (uint32(Limit) + 1) * 4096, [size := EndOffset() - offset]
    all in uint32.  Returns [off; size]. *)
Definition get_region (found valid : bool) (base limit : Z) : outcome (list Z) :=
  if negb found then Err E_OTHER
  else if valid then
    let off := wrap32 (base * RegionBlockSize) in
    let fin := wrap32 ((limit + 1) * RegionBlockSize) in
    Ok [off; wrap32 (fin - off)]
  else Err E_OTHER.

(** [uint64(off+size) - consts.BasePhysAddr + addr]: the sum in uint32, the rest in uint64 *)
Definition image_offset (off size addr : Z) : Z := wrap64 (wrap64 (wrap32 (off + size) - BasePhysAddr) + addr).

(** CalcImageOffset: [ifd] = what GetRegion(image, BIOS) returned, [cb] = what
    getCorebootRegion returned (fmap, third party), [bios_ok] = uefi.NewBIOSRegion
    accepted the image, [len] = len(image) *)
Definition calc_image_offset (ifd cb : option (Z * Z)) (bios_ok : bool) (len addr : Z) : outcome Z :=
  match ifd with
  | Some (o, s) => Ok (image_offset o s addr)
  | None =>
      match cb with
      | Some (o, s) => Ok (image_offset o s addr)
      | None => if bios_ok then Ok (wrap64 (wrap64 (len - BasePhysAddr) + addr)) else Err E_OTHER
      end
  end.

(** * pkg/tools/acm.go: ParseACM after fit.ParseSACMData (fiano) *)

Definition ACMModuleSubtypeAncModule : Z := 2.
(** what the harness writes for an ACM returned without info tables *)
Definition ANC_MARK : list Z := [7777].
(** [subtype] = Header.GetModuleSubType(): an ANC module has no ACMINFO table and is
    returned as it is, otherwise ParseACMInfo decides ([user], [total] as for [acm_info]) *)
Definition parse_acm_after (subtype : Z) (fx : fixes) (total : list Z) : rd (list Z) :=
  if 0 <? Z.land subtype ACMModuleSubtypeAncModule then ret ANC_MARK else acm_info fx total.

(** * pkg/tpmdetection/detection.go: local() *)

(** [dev_missing]: os.Stat(devicePath) says "not exist" -> TypeNoTPM, no error;
    [caps_missing]: os.ReadFile(capabilities) says "not exist" -> TypeTPM20;
    otherwise the capability file decides *)
Definition local_files (dev_missing caps_missing : bool) (caps : list Z) : rd (list Z) :=
  if dev_missing then ret [TypeNoTPM]
  else if caps_missing then ret [TypeTPM20]
  else local_caps caps.

(** * pkg/tpmeventlog/replay.go: Replay and its optional log writer

    [Replay(eventLog, pcrIndex, hashAlgo, logOut io.Writer)] writes a trace of
    the replay ("set(...)", "<hasher>(old digest) -> new") to [logOut], which
    is OPTIONAL: callers pass nil (the only caller in cmd/ does).  The value
    computed is [EventLog.replay] (shared with C12); what is added here is the
    interaction with the writer, because a write through a nil interface is a
    nil-pointer dereference, i.e. a panic that depends on the shape of the
    event log (which of the five write sites the log reaches):

      site 0  "set" of PCR1 (always reached for PCR1)
      site 1  "set" after a StartupLocality EV_NO_ACTION event (PCR0)
      site 2  "set" when the first selected event of PCR0 is a measurement
              (no init event seen: zeros are assumed)
      site 3  the line in front of every extend
      site 4  the line after every extend

    [nilsafe k] says that site [k] copes with a nil writer.  The code as it is
    replaces a nil writer by io.Discard on entry, which makes every site safe:
    [all_safe].  The results of the writes are discarded by every site
    ([_, _ = fmt.Fprintf(...)]), so a writer that fails ([W_FAILING]) changes
    nothing. *)
Inductive log_writer := W_NIL | W_SINK | W_FAILING.

Definition W_SITE_SET_PCR1 : Z := 0.
Definition W_SITE_SET_LOCALITY : Z := 1.
Definition W_SITE_SET_ZEROS : Z := 2.
Definition W_SITE_EXTEND_BEFORE : Z := 3.
Definition W_SITE_EXTEND_AFTER : Z := 4.

Definition all_safe : Z -> bool := fun _ => true.
(** every site but [k] copes with a nil writer *)
Definition all_safe_but (k : Z) : Z -> bool := fun j => negb (j =? k).

(** one [fmt.Fprintf(logOut, ...)] whose results are dropped *)
Definition fprintf_at (nilsafe : Z -> bool) (w : log_writer) (site : Z) : outcome unit :=
  match w with
  | W_NIL => if nilsafe site then Ok tt else Panic
  | W_SINK | W_FAILING => Ok tt
  end.

Section ReplayWriter.
Variable nilsafe : Z -> bool.
Variable H : Z -> list Z -> list Z.
Variable w : log_writer.

Fixpoint replay_loop_w (size p a : Z) (evs : list EventLog.event) (res : list Z) : outcome (list Z) :=
  match evs with
  | [] => Ok res
  | e :: t =>
      if EventLog.ev_type e =? EventLog.EV_NO_ACTION then
        if negb (EventLog.is_nil res) then Err EventLog.E_UNEXPECTED
        else if p =? 0 then
          Base.bind (EventLog.parse_locality (EventLog.ev_data e)) (fun loc =>
          Base.bind (EventLog.zeros_loc size loc) (fun r =>
          Base.bind (fprintf_at nilsafe w W_SITE_SET_LOCALITY) (fun _ => replay_loop_w size p a t r)))
        else Err EventLog.E_INDEX
      else
        Base.bind (if EventLog.is_nil res
              then (if p =? 0
                    then Base.bind (fprintf_at nilsafe w W_SITE_SET_ZEROS) (fun _ => Ok (EventLog.zeros size))
                    else Err EventLog.E_INDEX)
              else Ok res) (fun r =>
        match EventLog.ev_digest e with
        | None => Panic (* event.Digest.Digest on a nil pointer *)
        | Some d =>
            Base.bind (fprintf_at nilsafe w W_SITE_EXTEND_BEFORE) (fun _ =>
            Base.bind (fprintf_at nilsafe w W_SITE_EXTEND_AFTER) (fun _ =>
            replay_loop_w size p a t (H a (r ++ EventLog.d_bytes d))))
        end)
  end.

Definition replay_w (l : list EventLog.event) (p a : Z) : outcome (list Z) :=
  match EventLog.hash_size a with
  | None => Err EventLog.E_ALG
  | Some size =>
      Base.bind (EventLog.filter_events size p a l) (fun evs =>
      Base.bind (if p =? 0 then Ok []
            else if p =? 1 then Base.bind (fprintf_at nilsafe w W_SITE_SET_PCR1) (fun _ => Ok (EventLog.zeros size))
            else Err EventLog.E_INDEX) (fun res0 =>
      Base.bind (replay_loop_w size p a evs res0) (fun res =>
      if EventLog.is_nil res && (p =? 0) then Ok (EventLog.zeros size) else Ok res)))
  end.
End ReplayWriter.

(** tpmeventlog.Replay as it is *)
Definition replay_out := replay_w all_safe.

(** the writer of a case: 0 = nil, 1 = a writer that accepts everything, 2 = a writer whose Write fails *)
Definition writer_of (k : Z) : log_writer := if k =? 0 then W_NIL else if k =? 1 then W_SINK else W_FAILING.

(** * for the constants tie: a byte list as a Coq string (register ids are
    written as byte lists in Model/Decoders.v, as string constants in the Go source) *)
Require Coq.Strings.String Coq.Strings.Ascii.
Fixpoint str_of (l : list Z) : String.string :=
  match l with
  | [] => String.EmptyString
  | x :: t => String.String (Ascii.ascii_of_N (Z.to_N x)) (str_of t)
  end.
(** the i-th row of the parser-width table *)
Definition width_row (i : nat) : list Z * Z := nth i reg_width_table ([], 0).
(** the i-th row of the Read* table *)
Definition read_row (i : nat) : Z * Z * bool := nth i txt_reg_table (0, 0, false).
Definition b2z (b : bool) : Z := if b then 1 else 0.
