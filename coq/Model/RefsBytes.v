(** Programs of the reference algebra WITH THEIR BYTE RESULTS KEPT: the layer on
    top of Model/RefsHeap.v that says where the bytes handed out by
    [References.RawBytes] / [Reference.RawBytes] of
    /repo/pkg/bootflow/types/data.go live.

    - [References.RawBytes] fills a [bytes.Buffer] declared inside the call
      ([var buf bytes.Buffer]) and returns [buf.Bytes()]; [Reference.RawBytes]
      returns [make([]byte, totalLength)]: every call hands out an array of its
      OWN -- a new entry of the byte heap [b_bytes], never an entry that exists
      already and never memory of an artifact;
    - no operation of the algebra writes into a byte array that exists;
    - the caller owns what it was given: [BScribble j pat] is the caller
      overwriting every byte of the j-th result; it changes that array and
      nothing else (no artifact, no other result, no reference list).

    The harness keeps every result of a program in a variable and re-reads ALL
    of them (and the artifacts) after every later operation: case [CProg] of
    Model/RefsCases.v.  No proofs here. *)
From CSS Require Import Lib.Base Model.Ranges Model.Refs Model.RefsHeap.

Record bstate := mkB { b_st : state; b_bytes : list (list Z) }.

Inductive bop :=
| BOp (o : op)                       (* an operation of Model/RefsHeap.v *)
| BScribble (j : nat) (pat : Z).     (* for i := range b_j { b_j[i] = pat } -- by the caller *)

(** the byte array an operation hands out *)
Definition handed_out (r : res) : list (list Z) :=
  match r with RBytes (Ok b) => [b] | _ => [] end.

Definition bstep (bs : bstate) (o : bop) : option (bstate * res) :=
  match o with
  | BOp o' =>
      match step (b_st bs) o' with
      | Some (st', r) => Some (mkB st' (b_bytes bs ++ handed_out r), r)
      | None => None
      end
  | BScribble j pat =>
      match nth_error (b_bytes bs) j with
      | Some b => Some (mkB (b_st bs) (set_nth j (map (fun _ => pat) b) (b_bytes bs)), RNone)
      | None => None
      end
  end.

Fixpoint brun (bs : bstate) (ops : list bop) : option bstate :=
  match ops with
  | [] => Some bs
  | o :: t => match bstep bs o with Some (bs', _) => brun bs' t | None => None end
  end.

(** the byte results the caller writes into *)
Definition scribbled (o : bop) : option nat :=
  match o with BScribble j _ => Some j | _ => None end.
Fixpoint scribbles (ops : list bop) : list nat :=
  match ops with
  | [] => []
  | o :: t => match scribbled o with Some j => j :: scribbles t | None => scribbles t end
  end.

(** the operations of Model/RefsHeap.v inside a program *)
Fixpoint algebra_ops (ops : list bop) : list op :=
  match ops with
  | [] => []
  | BOp o :: t => o :: algebra_ops t
  | _ :: t => algebra_ops t
  end.
