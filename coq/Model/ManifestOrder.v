(** C18 — Boot Guard manifests, the layer BETWEEN the bytes and the glue of
    Model/Manifest.v: the process the suite runs in, and the ELEMENTS a boot
    policy manifest file is made of.

    Two things the verdict of NewBPM + VerifyBPM on a file depends on and that
    Model/Manifest.v keeps abstract (inside [parse] / [ser]):

    1. PROCESS-WIDE CONFIGURATION.  fiano's two manifest packages each have a
       package-level switch, [bg.StrictOrderCheck] and [cbnt.StrictOrderCheck]
       (library default: true), which their generated [Manifest.ReadFrom]
       consults.  They are state of the PROCESS, shared by every BootGuard value
       and every later call.  The model carries them as [pconf] and describes
       every entry point of pkg/provisioning/bootguard as a transformer of that
       state ([ep_conf]); in the code as it is NO entry point of the package
       writes either switch, whether the call succeeds or fails.  The only
       writers in the suite are the main functions of the command-line tools
       ([tool_conf]: cmd/core/bg-prov, bg-suite, txt-prov, txt-suite assign
       [cbnt.StrictOrderCheck = cli.ManifestStrictOrderCheck], a flag whose
       default is FALSE; none of them touches [bg.StrictOrderCheck]).

    2. THE ELEMENT LOOP of the generated [Manifest.ReadFrom] of both BPM
       packages, and the order [Manifest.WriteTo] writes in.  A BPM file is a
       sequence of elements, each starting with an 8-byte structure ID; the
       loop reads a StructInfo, looks the ID up ([fieldIndexByStructID]),
         - SKIPS an unknown ID with [continue] (only the StructInfo bytes are
           consumed, nothing is recorded, [previousFieldIndex] stays),
         - refuses a known element whose field index is lower than the previous
           one WHEN THE PACKAGE SWITCH IS ON,
         - refuses a second element of a non-slice field directly after the
           first ("is not a slice, but multiple elements found"),
         - stores the element (slice field SE: append; every other field:
           overwrite), and at the end of input requires the header and the
           signature element to have been seen.
       [WriteTo] writes the fields in their documented order, whatever order
       they were read in.

    Elements are abstract here: a pair (field index of the structure ID, identity
    of the content); an index outside [0, number of fields) stands for an unknown
    structure ID (a chunk of StructInfo size).  Reading and writing the inside of
    an element is third-party code and stays abstract (Model/Manifest.v).

    [order_verdict] is NewBPM + VerifyBPM at this level, for a file that carries
    the key and the signature of a manifest whose element sequence was [orig],
    under an IDEAL signature (valid for the signed message only): the file is
    accepted iff the loop takes it and the RE-SERIALISATION of what was stored
    is the signed sequence -- VerifyBPM never looks at the bytes that were read. *)
From CSS Require Import Lib.Base Lib.Cases Model.Manifest.

(** * 1. The process *)

Record pconf := mk_pconf {
  strict_bg : bool;      (* github.com/linuxboot/fiano/pkg/intel/metadata/bg.StrictOrderCheck *)
  strict_cbnt : bool     (* .../cbnt.StrictOrderCheck *)
}.

(** what a process starts with (bg/config.go, cbnt/config.go) *)
Definition lib_default_conf : pconf := mk_pconf true true.

Definition strict_of (c : pconf) (g : gen) : bool :=
  match g with V10 => strict_bg c | V20 => strict_cbnt c end.

(** The entry points of pkg/provisioning/bootguard that can be called without
    hardware (bootguard.go, keygen.go, tools.go, me.go). *)
Inductive entry :=
| ENewVData | ENewBPM | ENewKM | ENewBPMAndKM | ENewBPMAndKMFromBIOS
| EValidateBPM | EValidateKM | EPrintBPM | EPrintKM | EWriteKM | EWriteBPM
| EWriteJSON | EReadJSON | EStitchKM | EStitchBPM | ESignKM | ESignBPM
| EVerifyKM | EVerifyBPM | ECalculateNEMSize | EGetBPMPubHash | EGetIBBsDigest
| ECreateIBBDigest | EBPMCryptoSecure | EKMCryptoSecure | EKMHasBPMHash
| EBPMKeyMatchKMHash | EStrictSaneBPMSecurityProps | ESaneBPMSecurityProps
| EIBBsMatchBPMDigest | EValidateMEAgainstManifests | ECreateIBBSegments
| EGenRSAKey | EGenECCKey | EDecryptPrivKey | EReadPubKey
| EWriteCBnTStructures | EPrintStructures | EParseFITEntries | EStitchFITEntries
| EStrictSaneBootGuardProvisioning | ESaneMEBootGuardProvisioning.

(** What a call of the entry point leaves in the process configuration: as the
    code is, nothing changes, for every entry point, on success and on failure. *)
Definition ep_conf (e : entry) (c : pconf) : pconf :=
  match e with
  | ENewBPMAndKMFromBIOS => c   (* reads the image, the FIT, both manifests; writes JSON to the given file *)
  | _ => c
  end.

Definition run_conf (c : pconf) (h : list entry) : pconf :=
  fold_left (fun c e => ep_conf e c) h c.

(** main() of bg-prov / bg-suite / txt-prov / txt-suite: the CBnT switch is
    assigned from the command line flag --manifest-strict-order-check (default
    false); the BG 1.0 switch is not assigned anywhere in the suite. *)
Definition tool_conf (flag : bool) (c : pconf) : pconf := mk_pconf (strict_bg c) flag.

(** * 2. The element loop *)

(** A manifest type as the generated code sees it: number of fields, the fields
    that must be present, which field is a slice. *)
Record mspec := mk_mspec { ms_fields : Z; ms_required : list Z; ms_slice : Z -> bool }.

(** bgbootpolicy.Manifest: BPMH SE[] PME? PMSE;
    cbntbootpolicy.Manifest: BPMH SE[] TXTE? Res? PCDE? PME? PMSE *)
Definition bpm_spec (g : gen) : mspec :=
  match g with
  | V10 => mk_mspec 4 [0; 3] (fun k => k =? 1)
  | V20 => mk_mspec 7 [0; 6] (fun k => k =? 1)
  end.

Definition elem := (Z * Z)%type.     (* field index of the structure ID, identity of the content *)

Definition known (sp : mspec) (e : elem) : bool := (0 <=? fst e) && (fst e <? ms_fields sp).

(** storing an element in the structure *)
Definition put (sp : mspec) (e : elem) (st : list elem) : list elem :=
  if ms_slice sp (fst e) then st ++ [e]
  else filter (fun x => negb (fst x =? fst e)) st ++ [e].

Definition has_kind (st : list elem) (k : Z) : bool := existsb (fun x => fst x =? k) st.

(** [Manifest.ReadFrom]: [prev] = previousFieldIndex (-1 at the start), [st] =
    what the structure holds so far.  [Err 1] "invalid order of fields", [Err 2]
    "is not a slice, but multiple elements found", [Err 3] "field ... is missing". *)
Fixpoint read_loop (strict : bool) (sp : mspec) (prev : Z) (st : list elem) (els : list elem)
  : outcome (list elem) :=
  match els with
  | [] => if forallb (has_kind st) (ms_required sp) then Ok st else Err 3
  | e :: t =>
      if negb (known sp e) then read_loop strict sp prev st t
      else if strict && (fst e <? prev) then Err 1
      else if negb (ms_slice sp (fst e)) && (fst e =? prev) then Err 2
      else read_loop strict sp (fst e) (put sp e st) t
  end.

(** [Manifest.WriteTo]: the fields in their documented order, a slice in the order
    it was filled -- a stable sort of what is stored by field index. *)
Fixpoint insert_elem (e : elem) (l : list elem) : list elem :=
  match l with
  | [] => [e]
  | x :: t => if fst e <=? fst x then e :: x :: t else x :: insert_elem e t
  end.
Definition write_order (st : list elem) : list elem := fold_right insert_elem [] st.

Definition elem_eqb (a b : elem) : bool := (fst a =? fst b) && (snd a =? snd b).
Definition elems_eqb (a b : list elem) : bool := list_eqb elem_eqb a b.

(** NewBPM + VerifyBPM on a file made of the elements [mut], which carries the key
    and the signature of the manifest [orig] (ideal signature): [Err 4] = the
    signature does not verify (on the re-serialisation). *)
Definition order_verdict (strict : bool) (sp : mspec) (orig mut : list elem) : outcome unit :=
  match read_loop strict sp (-1) [] mut with
  | Ok st => if elems_eqb (write_order st) orig then Ok tt else Err 4
  | Err c => Err c
  | Panic => Panic
  | OutOfFuel => OutOfFuel
  end.

(** The same verdict in a process that started with configuration [c0] and in
    which the entry points [hist] were called before. *)
Definition session_verdict (c0 : pconf) (hist : list entry) (g : gen) (orig mut : list elem)
  : outcome unit :=
  order_verdict (strict_of (run_conf c0 hist) g) (bpm_spec g) orig mut.
