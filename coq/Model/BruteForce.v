(** Model of pkg/bruteforcer/brute_forcer.go ([BruteForce] / [run] / [try]).
    Executable definitions and the schedule relation only; proofs live in
    Proofs/BruteForce.v.

    The goroutines of one distance are modelled as
      - a deterministic partition of the combination IDs ([cfactor], [pieces]);
      - a deterministic sequential worker ([worker_scan]: what one goroutine
        offers to checkFunc when nobody interrupts it);
      - a RELATION ([round_rel], [dist_rel], [bf_run], [bf_outcome]) saying which
        per-worker traces and which result the goroutines can jointly produce.

    Go types: distances, IDs, amounts are uint64; GOMAXPROCS is an int >= 1;
    maxConcurrency a uint.  All of them are far below 2^63 on every path that
    does not return the "too many combinations" error, so they are plain [Z];
    the two places where Go computes in uint64 on caller-controlled values
    (len*itemSize, end-start) have the wrap written out. *)
From CSS Require Import Lib.Base Model.Comb.

Definition MIN_ITER : Z := 10000.                     (* minIterationsPerCPU *)
Definition MAX_INT64 : Z := 9223372036854775807.

(** A candidate is a combination: the sorted list of bit positions to flip. *)
Definition cand := list Z.

(** * Partition arithmetic *)

(** [big.NewInt(1).Binomial(int64(total), int64(d))]: the exact value. *)
Definition amount_of (total : Z) (d : nat) : Z := binom_fast total d.

(** concurrencyFactor.  [gomax] = runtime.GOMAXPROCS(0) (>= 1), [maxconc] = the
    maxConcurrency argument (0 = no cap). *)
Definition cfactor (gomax maxconc amount : Z) : Z :=
  let q := amount / MIN_ITER in
  let cf := if q <? gomax then (if q <? 1 then 1 else q) else gomax in
  if (0 <? maxconc) && (maxconc <? cf) then maxconc else cf.

(** IDs [start, end) of worker [i] out of [cf]. *)
Definition piece (amount cf i : Z) : Z * Z :=
  let p := amount / cf in
  (i * p, if i =? cf - 1 then amount else (i + 1) * p).

Definition pieces (amount cf : Z) : list (Z * Z) :=
  map (piece amount cf) (seqZ 0 (Z.to_nat cf)).

(** * One worker *)

Fixpoint collect {X} (l : list (outcome X)) : outcome (list X) :=
  match l with
  | [] => Ok []
  | o :: t => bind o (fun x => bind (collect t) (fun r => Ok (x :: r)))
  end.

Section Worker.
  Context {A : Type}.
  (** applyBitFlipsFunc: [flip_bools] or [flip_bytes] of Model/Comb.v *)
  Variable flip : list Z -> list A -> outcome (list A).
  (** checkFunc (the ctx argument carries no information in the model) *)
  Variable P : list A -> bool.

  (** [try]: flip on the worker's copy, check, flip back on a miss.
      Returns the verdict and the worker's copy afterwards. *)
  Definition try1 (s : cand) (dc : list A) : outcome (bool * list A) :=
    bind (flip s dc) (fun d1 =>
      if P d1 then Ok (true, d1)
      else bind (flip s d1) (fun d2 => Ok (false, d2))).

  (** The worker loop without interruption, [S fuel] = number of tries left:
        try; i++; if i >= combinations break; Next()
      Result: the candidates offered to checkFunc, in order, and the hit. *)
  Fixpoint scan_loop (fuel : nat) (m : Z) (s : cand) (dc : list A)
    : outcome (list cand * option cand) :=
    match fuel with
    | O => Ok ([], None)
    | S fuel' =>
        bind (try1 s dc) (fun '(hit, dc') =>
          if hit then Ok ([s], Some s)
          else match fuel' with
               | O => Ok ([s], None)
               | S _ =>
                   (* the flag returned by Next() is ignored by run() *)
                   let s' := snd (next m s) in
                   bind (scan_loop fuel' m s' dc') (fun '(l, h) => Ok (s :: l, h))
               end)
    end.

  (** do-while: at least one try even when end <= start *)
  Definition tries (start end_ : Z) : nat :=
    let c := wrap64 (end_ - start) in Z.to_nat (if c <? 1 then 1 else c).

  (** One goroutine: private copy of the data, iterator sought to [start]. *)
  Definition worker_scan (m : Z) (k : nat) (data : list A) (se : Z * Z)
    : outcome (list cand * option cand) :=
    bind (seek m k (fst se)) (fun s0 => scan_loop (tries (fst se) (snd se)) m s0 data).

  (** Same loop as [scan_loop] with accumulators instead of the list: number
      of candidates offered, a digest of the first [lim] of them, the hit.
      Used by the correspondence check on long scans (Proofs: [scan_dig_spec]). *)
  Definition pack (s : cand) : Z := fold_left (fun a x => Z.shiftl a 10 + x + 1) s 0.
  Definition mix (h x : Z) : Z := Z.land (Z.shiftl h 5 + h + x) DIGEST_MASK.
  Definition mixc (h : Z) (s : cand) : Z := mix h (pack s).

  Fixpoint scan_dig (fuel : nat) (m : Z) (s : cand) (dc : list A) (lim n h : Z)
    : outcome (Z * Z * option cand) :=
    match fuel with
    | O => Ok (n, h, None)
    | S fuel' =>
        bind (try1 s dc) (fun '(hit, dc') =>
          let h' := if n <? lim then mixc h s else h in
          if hit then Ok (n + 1, h', Some s)
          else match fuel' with
               | O => Ok (n + 1, h', None)
               | S _ => scan_dig fuel' m (snd (next m s)) dc' lim (n + 1) h'
               end)
    end.

  Definition worker_dig (m : Z) (k : nat) (data : list A) (se : Z * Z) (lim : Z)
    : outcome (Z * Z * option cand) :=
    bind (seek m k (fst se)) (fun s0 => scan_dig (tries (fst se) (snd se)) m s0 data lim 0 0).

  (** * One distance: what the goroutines can jointly do *)

  (** What is fixed for one worker before it runs: did its initFunc fail, and
      its uninterrupted scan. *)
  Definition wspec := (bool * (list cand * option cand))%type.
  (** What it actually did: the candidates it offered, and whether it
      published a result (its checkFunc returned true). *)
  Definition wrun := (list cand * bool)%type.

  (** [anypub]: some worker of this distance published.
      - a worker whose initFunc failed offers nothing;
      - a publisher ran up to its hit;
      - when nobody published, nobody saw [resultData != nil]: every worker ran
        its whole slice and none had a hit;
      - otherwise a non-publisher stopped somewhere (any prefix), and strictly
        before its own hit if it has one. *)
  Definition worker_ok (anypub : bool) (sp : wspec) (r : wrun) : Prop :=
    let '(failed, (full, hit)) := sp in
    let '(tr, pub) := r in
    if failed then tr = [] /\ pub = false
    else if pub then tr = full /\ hit <> None
    else if anypub then exists rest, full = tr ++ rest /\ (hit <> None -> rest <> [])
    else tr = full /\ hit = None.

  Definition any_pub (runs : list wrun) : bool := existsb snd runs.
  Definition any_fail (specs : list wspec) : bool := existsb fst specs.

  (** Result of one distance: [Err 4] "workers had errors" wins over a result;
      the result is the hit of SOME publisher (last writer under the mutex);
      [Ok None] = nothing found at this distance. *)
  Definition round_rel (specs : list wspec) (runs : list wrun) (res : outcome (option cand)) : Prop :=
    Forall2 (worker_ok (any_pub runs)) specs runs /\
    if any_fail specs then res = Err 4
    else if any_pub runs then
      exists sp run r, In (sp, run) (combine specs runs) /\ snd run = true /\
                       snd (snd sp) = Some r /\ res = Ok (Some r)
    else res = Ok None.

  (** * All distances *)

  (** [ifail d i]: the initFunc call of worker [i] at distance [d] returns an
      error ([ifail 0 0] is the call of the distance-0 shortcut). *)
  Variable ifail : Z -> Z -> bool.
  Variables (gomax maxconc : Z).

  (** trace: per distance tried, per worker (slice order), candidates offered *)
  Definition trace := list (list (list cand)).

  Definition round_specs (data : list A) (total d : Z) : outcome (list wspec) :=
    let amount := amount_of total (Z.to_nat d) in
    let cf := cfactor gomax maxconc amount in
    let ps := pieces amount cf in
    bind (collect (map (worker_scan (total - 1) (Z.to_nat d) data) ps)) (fun fulls =>
      Ok (combine (map (ifail d) (seqZ 0 (length ps))) fulls)).

  (** the loop [for distance := d; distance <= maxDistance; distance++], [n]
      iterations left *)
  Fixpoint dist_rel (data : list A) (total : Z) (n : nat) (d : Z)
           (tr : trace) (res : outcome (option cand)) : Prop :=
    match n with
    | O => tr = [] /\ res = Ok None
    | S n' =>
        if total <? d then tr = [] /\ res = Ok None
        else if MAX_INT64 <=? amount_of total (Z.to_nat d) then tr = [] /\ res = Err 3
        else match round_specs data total d with
             | Ok specs =>
                 exists runs rres, round_rel specs runs rres /\
                   match rres with
                   | Ok None => exists rest, tr = map fst runs :: rest /\
                                             dist_rel data total n' (d + 1) rest res
                   | _ => tr = [map fst runs] /\ res = rres
                   end
             (* a panicking goroutine takes the process down *)
             | Err c => tr = [] /\ res = Err c
             | Panic => tr = [] /\ res = Panic
             | OutOfFuel => tr = [] /\ res = OutOfFuel
             end
    end.

  Definition total_bits (data : list A) (item_size : Z) : Z :=
    wrap64 (Z.of_nat (length data) * item_size).

  (** [run]: Err 1 = min > max, Err 2 = initFunc error in the distance-0
      shortcut, Err 3 = too many combinations, Err 4 = workers had errors.
      [Ok None] = (nil, nil); [Ok (Some r)] = (r, nil). *)
  Definition bf_run (data : list A) (item_size wmin wmax : Z)
             (tr : trace) (res : outcome (option cand)) : Prop :=
    if wmax <? wmin then tr = [] /\ res = Err 1
    else
      let total := total_bits data item_size in
      let maxd := Z.min wmax total in
      if wmin =? 0 then
        if ifail 0 0 then tr = [] /\ res = Err 2
        else if P data then tr = [[[[]]]] /\ res = Ok (Some [])
        else exists tr', tr = [[[]]] :: tr' /\
                         dist_rel data total (Z.to_nat (maxd - 1 + 1)) 1 tr' res
      else dist_rel data total (Z.to_nat (maxd - wmin + 1)) wmin tr res.

  Definition bf_outcome (data : list A) (item_size wmin wmax : Z)
             (res : outcome (option cand)) : Prop :=
    exists tr, bf_run data item_size wmin wmax tr res.
End Worker.
