(** Model of pkg/diff/diff.go ([Diff]) and pkg/diff/analyze.go ([Analyze],
    [hammingDistance]) together with the contracts of their dependencies:
    fiano pkg/bytes [Range]/[Ranges] ([Sort], [MergeRanges], [SortAndMerge],
    [Intersect]), [biosimage.PhysMemMapper.Resolve] and
    github.com/steakknife/hamming [Byte]/[Bytes] (popcount of xor).
    Executable definitions only; proofs live in Proofs/Diff.v.

    Go types: [Range.Offset]/[Range.Length] are uint64 and every sum and
    difference of them is written out with [wrap64].  Bytes are [Z] in
    [0,256).  Slice expressions [data[lo:hi]] with uint64 bounds panic unless
    [lo <= hi <= cap(data)]; the model takes [cap = len] (images built by
    [biosimage.New] from an exactly sized slice).

    Counters that the code accumulates in uint64 ([BytesChanged], the Hamming
    distances) are plain sums here: for an [Ok] report they are bounded by
    [len(image)] resp. [8*len(image)] (theorem [C20_sums_bounded]), so the
    uint64 arithmetic of the code cannot wrap.

    Not modelled (not part of C20): [AnalysisReportEntry.Nodes] (interval tree
    over fiano UEFI nodes).  [BIOSImage.Parse] enters only through its error
    result: [Analyze] returns that error before it touches the data. *)
From CSS Require Import Lib.Base.

(** * fiano pkg/bytes *)

Record range : Type := mkR { off : Z; len : Z }.

Definition range_eqb (a b : range) : bool := (off a =? off b) && (len a =? len b).

(** [Range.End]: uint64 sum *)
Definition rend (r : range) : Z := wrap64 (off r + len r).

(** [Range.Intersect] *)
Definition intersect (r c : range) : bool :=
  if (len r =? 0) || (len c =? 0) then false
  else
    let end0 := wrap64 (off r + len r) in
    let end1 := wrap64 (off c + len c) in
    if end0 <=? off c then false
    else if off r >=? end1 then false
    else true.

(** [Ranges.Sort] is [sort.Slice] by [Offset]: not stable, any order among equal
    offsets may result.  The model is parametric in the sorting function
    ([srt]); the executable instance is a stable insertion sort.  The theorems
    hold for every [srt] that returns a permutation sorted by offset. *)
Fixpoint insert_by_off (r : range) (l : list range) : list range :=
  match l with
  | [] => [r]
  | h :: t => if off r <=? off h then r :: h :: t else h :: insert_by_off r t
  end.

Fixpoint isort (l : list range) : list range :=
  match l with
  | [] => []
  | h :: t => insert_by_off h (isort t)
  end.

(** [MergeRanges(in, mergeDistance)]: the loop over [in[1:]] with the running
    [entry]. *)
Fixpoint merge_go (d : Z) (entry : range) (rest : list range) : list range :=
  match rest with
  | [] => [entry]
  | n :: t =>
      if wrap64 (off entry + len entry + d) >=? off n then
        let new_end := Z.max (wrap64 (off n + len n)) (wrap64 (off entry + len entry)) in
        merge_go d (mkR (off entry) (wrap64 (new_end - off entry))) t
      else entry :: merge_go d n t
  end.

Definition merge_ranges (d : Z) (l : list range) : list range :=
  match l with
  | [] => []
  | e :: t => merge_go d e t
  end.

(** [SortAndMerge] (the early return for fewer than two ranges gives the same
    result as the general path) *)
Definition sort_and_merge (srt : list range -> list range) (l : list range) : list range :=
  merge_ranges 0 (srt l).

(** * Address mappers *)

Inductive mapper : Type :=
| MIdentity   (* Resolve returns the ranges unchanged (the test's noMapper) *)
| MPhys.      (* biosimage.PhysMemMapper: Offset - 0x100000000 + artifact.Size() *)

Definition resolve (mp : mapper) (size o : Z) : Z :=
  match mp with
  | MIdentity => o
  | MPhys => wrap64 (o - W32 + size)
  end.

(** * Slices *)

Definition zlen (l : list Z) : Z := Z.of_nat (length l).

(** [data[lo:hi]] for uint64 [lo], [hi] *)
Definition slice (data : list Z) (lo hi : Z) : outcome (list Z) :=
  if (0 <=? lo) && (lo <=? hi) && (hi <=? zlen data)
  then Ok (firstn (Z.to_nat (hi - lo)) (skipn (Z.to_nat lo) data))
  else Panic.

(** the two data slices of one merged range, [good[rG.Offset:rG.Offset+rG.Length]]
    and the same for [bad] *)
Definition slices (mp : mapper) (good bad : list Z) (m : range) : outcome (list (Z * Z)) :=
  let og := resolve mp (zlen good) (off m) in
  let ob := resolve mp (zlen bad) (off m) in
  bind (slice good og (wrap64 (og + len m))) (fun gs =>
  bind (slice bad ob (wrap64 (ob + len m))) (fun bs =>
  Ok (combine gs bs))).

(** * Diff *)

Definition in_set (x : Z) (s : list Z) : bool := existsb (Z.eqb x) s.

(** [bytes.IndexByte(ignoreByteSet, g) != -1 || bytes.IndexByte(ignoreByteSet, b) != -1] *)
Definition ignored (ign : list Z) (g b : Z) : bool := in_set g ign || in_set b ign.

(** The inner loop of [Diff] over one merged range [rM = (mo, ml)]: [idx] is the
    loop index, [ism] is [isCurrentlyMatch], [prev] is [prevOffsetM].  The
    empty-list case is the code after the loop. *)
Fixpoint scan (ign : list Z) (mo ml : Z) (ps : list (Z * Z)) (idx : Z) (ism : bool) (prev : Z)
  : list range :=
  match ps with
  | [] => if ism then [] else [mkR prev (wrap64 (wrap64 (ml + mo) - prev))]
  | (g, b) :: t =>
      if ignored ign g b then scan ign mo ml t (idx + 1) ism prev
      else
        let nm := (g =? b) in
        if Bool.eqb nm ism then scan ign mo ml t (idx + 1) ism prev
        else
          let offM := wrap64 (mo + idx) in
          (if ism then [] else [mkR prev (wrap64 (offM - prev))])
            ++ scan ign mo ml t (idx + 1) nm offM
  end.

Fixpoint diff_go (ign : list Z) (mp : mapper) (good bad : list Z) (ms : list range)
  : outcome (list range) :=
  match ms with
  | [] => Ok []
  | m :: t =>
      bind (slices mp good bad m) (fun ps =>
      bind (diff_go ign mp good bad t) (fun rest =>
      Ok (scan ign (off m) (len m) ps 0 true 0 ++ rest)))
  end.

(** [Diff(memRanges, memMapper, firmwareGood, firmwareBad, ignoreByteSet)].
    Both mappers never fail and map one-to-one with equal lengths, so none of
    the error returns of [Diff] is reachable with them. *)
Definition diff_with (srt : list range -> list range)
  (ranges : list range) (mp : mapper) (good bad : list Z) (ign : list Z) : outcome (list range) :=
  diff_go ign mp good bad (sort_and_merge srt ranges).

Definition diff := diff_with isort.

(** * hammingDistance *)

Definition b2z (b : bool) : Z := if b then 1 else 0.

Definition popcount8 (x : Z) : Z :=
  b2z (Z.testbit x 0) + b2z (Z.testbit x 1) + b2z (Z.testbit x 2) + b2z (Z.testbit x 3) +
  b2z (Z.testbit x 4) + b2z (Z.testbit x 5) + b2z (Z.testbit x 6) + b2z (Z.testbit x 7).

(** [hamming.Byte(x, y)] *)
Definition ham_byte (x y : Z) : Z := popcount8 (Z.lxor x y).

(** [hammingDistance(a, b, excludeCharsA, excludeCharsB)] on the zipped slices
    (zipping is the [Min(len(a), len(b))] truncation).  With both exclusion
    lists empty the code calls [hamming.Bytes]; the result is the same sum. *)
Fixpoint hamming_distance (exA exB : list Z) (ps : list (Z * Z)) : Z :=
  match ps with
  | [] => 0
  | (a, b) :: t =>
      (if in_set a exA || in_set b exB then 0 else ham_byte a b) + hamming_distance exA exB t
  end.

(** * Analyze *)

(** a measurement is the list of the [Reference] ranges of its chunks *)
Definition measurement := list range.

(** indices (from [j]) of the chunks whose reference intersects [rM] *)
Fixpoint related_chunks (rM : range) (j : Z) (chunks : list range) : list Z :=
  match chunks with
  | [] => []
  | c :: t => if intersect c rM then j :: related_chunks rM (j + 1) t
              else related_chunks rM (j + 1) t
  end.

(** [relatedMeasurements] of one entry: (index of the measurement, indices of
    its related chunks), measurements without related chunks skipped *)
Fixpoint related (rM : range) (i : Z) (ms : list measurement) : list (Z * list Z) :=
  match ms with
  | [] => []
  | m :: t =>
      match related_chunks rM 0 m with
      | [] => related rM (i + 1) t
      | js => (i, js) :: related rM (i + 1) t
      end
  end.

Record entry : Type := mkE {
  e_range : range;            (* DiffRange *)
  e_hd : Z;                   (* HammingDistance *)
  e_hdf : Z;                  (* HammingDistanceNon00orFF *)
  e_rel : list (Z * list Z)   (* RelatedMeasurements *)
}.

Record report : Type := mkRep {
  r_entries : list entry;
  r_first : Z;      (* FirstProblemOffset *)
  r_changed : Z;    (* BytesChanged *)
  r_hd : Z;         (* HammingDistance *)
  r_hdf : Z         (* HammingDistanceNon00orFF *)
}.

Definition range_threshold : Z := 1000.   (* rangeAmountThresholdReduceRanges *)
Definition reduce_distance : Z := 1023.   (* reduceRangesDistance *)

(** the second [MergeRanges] pass of [Analyze], taken above 1000 ranges *)
Definition reduce_ranges (l : list range) : list range :=
  if Z.of_nat (length l) >? range_threshold then merge_ranges reduce_distance l else l.

(** the ranges of the report entries: [Sort], [MergeRanges(.., 0)], and the
    reduction *)
Definition analyze_ranges (srt : list range -> list range) (ranges : list range) : list range :=
  reduce_ranges (merge_ranges 0 (srt ranges)).

Definition mk_entry (ms : list measurement) (rM : range) (ps : list (Z * Z)) : entry :=
  mkE rM (hamming_distance [] [] ps) (hamming_distance [] [0; 255] ps) (related rM 0 ms).

Fixpoint entries_go (mp : mapper) (ms : list measurement) (good bad : list Z) (rs : list range)
  : outcome (list entry) :=
  match rs with
  | [] => Ok []
  | rM :: t =>
      bind (slices mp good bad rM) (fun ps =>
      bind (entries_go mp ms good bad t) (fun rest =>
      Ok (mk_entry ms rM ps :: rest)))
  end.

Definition MAXU64 : Z := W64 - 1.

(** the running minimum [if rM.Offset < report.FirstProblemOffset {...}] *)
Definition first_offset (es : list entry) : Z :=
  fold_left (fun acc e => if off (e_range e) <? acc then off (e_range e) else acc) es MAXU64.

Definition sumZ (l : list Z) : Z := fold_right Z.add 0 l.

Definition mk_report (es : list entry) : report :=
  mkRep es (first_offset es)
        (sumZ (map (fun e => len (e_range e)) es))
        (sumZ (map e_hd es))
        (sumZ (map e_hdf es)).

(** [Analyze(diffMemRanges, memMapper, measurements, goodFirmware, badFirmware)].
    [parse_ok] is whether [goodFirmware.Parse()] succeeds (it fails e.g. on an
    all-zero or empty image); the error is returned before any data is sliced. *)
Definition analyze_with (srt : list range -> list range)
  (ranges : list range) (mp : mapper) (ms : list measurement) (good bad : list Z)
  (parse_ok : bool) : outcome report :=
  if negb parse_ok then Err 1
  else bind (entries_go mp ms good bad (analyze_ranges srt ranges)) (fun es => Ok (mk_report es)).

Definition analyze := analyze_with isort.
