(** Case language of the C16 correspondence check. *)
From Coq Require Import NArith List String Bool.
From CSS Require Import Lib.Cases Model.Marshal Model.MarshalOps.
Import ListNotations.
Open Scope N_scope.

Definition reg_eqb (a b : reg) : bool := String.eqb (fst a) (fst b) && N.eqb (snd a) (snd b).
Definition res_match {A} (eqb : A -> A -> bool) (o : obs A) (m : res A) : bool :=
  match o, m with
  | OOk a, ROk b => eqb a b
  | OErr, RErr => true
  | OPanic, RPanic => true
  | _, _ => false
  end.

Definition jentry_eqb (a b : string * list N) : bool :=
  String.eqb (fst a) (fst b) && list_eqb N.eqb (snd a) (snd b).
Definition yentry_eqb (a b : string * (bool * string)) : bool :=
  String.eqb (fst a) (fst b) && Bool.eqb (fst (snd a)) (fst (snd b)) && String.eqb (snd (snd a)) (snd (snd b)).
Definition step_eqb (o : option (list reg * bool)) (m : list reg * bool) : bool :=
  match o with
  | Some (l, ok) => list_eqb reg_eqb l (fst m) && Bool.eqb ok (snd m)
  | None => false
  end.

Fixpoint steps_match (o : list (option (list reg * bool))) (m : list (list reg * bool)) : bool :=
  match o, m with
  | [], [] => true
  | x :: o', y :: m' => step_eqb x y && steps_match o' m'
  | _, _ => false
  end.

Inductive case : Type :=
(* register, bytes ValueBytes produced, result of ValueFromBytes on them *)
| CBytesRT (r : reg) (bytes : list N) (back : obs reg)
| CFromBytes (id : string) (bytes : list N) (back : obs reg)
| CNewOwn (r : reg) (back : obs reg)
| CNew (id : string) (v : value) (back : obs reg)
| CJSON (regs : list reg) (back : obs (list reg))
| CYAML (regs : list reg) (back : obs (list reg))
(* what the package marshalled: the documents it wrote, as the harness parsed them back
   with plain JSON / YAML decoders (no package code) *)
| CMarshalJSON (regs : list reg) (entries : obs (list (string * list N)))
| CMarshalYAML (regs : list reg) (entries : obs (list (string * (bool * string))))
(* a YAML document written by the harness: ID -> (quoted?, scalar text), unmarshalled into a
   fresh variable *)
| CYamlDoc (entries : list (string * (bool * string))) (back : obs (list reg))
(* documents unmarshalled one after another into ONE variable that first held [init]:
   after each call (succeeded?, contents of the variable); [None] = the call panicked *)
| CSeq (init : list reg) (docs : list doc) (after : list (option (list reg * bool)))
(* a history of operations (Unmarshal, Sort, Marshal, Find, FlagRegisters.Set without a
   document) on ONE variable that first held [init]: after each call the contents of the
   variable and what the call showed; [None] = the call panicked *)
| COps (init : list reg) (ops : list op) (after : list (option (list reg * shown))).

Definition yentries_same (a b : list (string * (bool * string))) : bool :=
  Nat.eqb (List.length a) (List.length b) &&
  forallb (fun x => existsb (yentry_eqb x) b) a && forallb (fun x => existsb (yentry_eqb x) a) b.

Definition shown_eqb (o m : shown) : bool :=
  match o, m with
  | SCall a, SCall b => Bool.eqb a b
  | SNone, SNone => true
  | SJson (ROk a), SJson (ROk b) => list_eqb jentry_eqb a b
  | SJson RErr, SJson RErr => true
  (* the document is a mapping: compare as sets of entries *)
  | SYaml (ROk a), SYaml (ROk b) => yentries_same a b
  | SYaml RErr, SYaml RErr => true
  | SFound None, SFound None => true
  | SFound (Some a), SFound (Some b) => reg_eqb a b
  | _, _ => false
  end.

Definition ostep_eqb (o : option (list reg * shown)) (m : list reg * shown) : bool :=
  match o with
  | Some (l, s) => list_eqb reg_eqb l (fst m) && shown_eqb s (snd m)
  | None => false
  end.

Fixpoint osteps_match (o : list (option (list reg * shown))) (m : list (list reg * shown)) : bool :=
  match o, m with
  | [], [] => true
  | x :: o', y :: m' => ostep_eqb x y && osteps_match o' m'
  | _, _ => false
  end.

Definition check (c : case) : bool :=
  match c with
  | CBytesRT r b back =>
      match value_bytes r with
      | ROk b' => list_eqb N.eqb b b' && res_match reg_eqb back (value_from_bytes (fst r) b')
      | _ => false
      end
  (* ValueFromBytes as written (parser tables), and the same read off the registry *)
  | CFromBytes id b back => res_match reg_eqb back (value_from_bytes_tables id b) &&
                            res_match reg_eqb back (value_from_bytes id b)
  | CNewOwn r back => res_match reg_eqb back (new (fst r) (own_value r))
  | CNew id v back => res_match reg_eqb back (new id v)
  | CJSON regs back => res_match (list_eqb reg_eqb) back (json_roundtrip regs)
  | CYAML regs back => res_match (list_eqb reg_eqb) back (yaml_roundtrip regs)
  | CMarshalJSON regs e => res_match (list_eqb jentry_eqb) e (json_marshal regs)
  | CMarshalYAML regs e =>
      (* the document is a mapping: compare as sets of entries with distinct keys *)
      match e, yaml_marshal regs with
      | OOk a, ROk b => Nat.eqb (List.length a) (List.length b) &&
                        forallb (fun x => existsb (yentry_eqb x) b) a &&
                        forallb (fun x => existsb (yentry_eqb x) a) b
      | OErr, RErr => true
      | _, _ => false
      end
  | CYamlDoc e back =>
      match parse_doc (DYaml e) with
      | Some m => res_match (list_eqb reg_eqb) back m
      | None => false
      end
  | CSeq init docs after =>
      match unmarshal_seq init docs with
      | Some m => steps_match after m
      | None => false
      end
  | COps init ops after =>
      match run init ops with
      | Some m => osteps_match after m
      | None => false
      end
  end.

Definition mismatches := mismatches_by check.
