(** Case language of the C16 correspondence check. *)
From Coq Require Import NArith List String Bool.
From CSS Require Import Lib.Cases Model.Marshal.
Import ListNotations.
Open Scope N_scope.

Definition reg_eqb (a b : reg) : bool := String.eqb (fst a) (fst b) && N.eqb (snd a) (snd b).
Definition res_match {A} (eqb : A -> A -> bool) (o : obs A) (m : res A) : bool :=
  match o, m with
  | OOk a, ROk b => eqb a b
  | OErr, RErr => true
  | OPanic, RPanic => true
  | _, _ => false
  end.

Inductive case : Type :=
(* register, bytes ValueBytes produced, result of ValueFromBytes on them *)
| CBytesRT (r : reg) (bytes : list N) (back : obs reg)
| CFromBytes (id : string) (bytes : list N) (back : obs reg)
| CNewOwn (r : reg) (back : obs reg)
| CNew (id : string) (v : value) (back : obs reg)
| CJSON (regs : list reg) (back : obs (list reg))
| CYAML (regs : list reg) (back : obs (list reg)).

Definition check (c : case) : bool :=
  match c with
  | CBytesRT r b back =>
      match value_bytes r with
      | ROk b' => list_eqb N.eqb b b' && res_match reg_eqb back (value_from_bytes (fst r) b')
      | _ => false
      end
  | CFromBytes id b back => res_match reg_eqb back (value_from_bytes id b)
  | CNewOwn r back => res_match reg_eqb back (new (fst r) (own_value r))
  | CNew id v back => res_match reg_eqb back (new id v)
  | CJSON regs back => res_match (list_eqb reg_eqb) back (json_roundtrip regs)
  | CYAML regs back => res_match (list_eqb reg_eqb) back (yaml_roundtrip regs)
  end.

Definition mismatches := mismatches_by check.
