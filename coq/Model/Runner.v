(** Model of the platform test runner, pkg/test/test.go:
    [Test.Run] (dependencies first, then the check, then the classification of
    (rc, testerror, internalerror)) and [RunTestsSilent].

    Tests are numbered; the table [ts : nat -> test] gives the Required flag,
    the Status and the dependency list (ids, duplicates allowed, order as in
    the Go slice).  A check function is not modelled: it is an oracle
    [chk id n] giving what the n-th evaluation (n = number of earlier
    evaluations of the same test in this history) returns, as the triple
    (rc, testerror <> nil, internalerror <> nil).  A deterministic check is an
    oracle that ignores [n].

    The state holds what the Go code keeps in the Test values between calls
    (Result, and who is blamed in ErrorText) plus a ghost event trace that
    records every evaluation of a check.

    Recursion over dependencies is fuelled; a dependency cycle makes the Go code
    recurse until the goroutine stack is exhausted (fatal, not recoverable),
    the model answers [None] for every fuel (see Proofs/Runner.v,
    [run_cycle_diverges]). *)
From CSS Require Import Lib.Base.

Inductive result := RNotRun | RDepFailed | RIntErr | RFail | RPass.
Inductive status := Implemented | NotImplemented | PartlyImplemented.

Record test := mkTest { required : bool; stat : status; deps : list nat }.

(** (rc, testerror <> nil, internalerror <> nil) *)
Definition outcome3 := (bool * bool * bool)%type.
Definition o_pass : outcome3 := (true, false, false).

(** the if/else-if chain of Test.Run *)
Definition classify (o : outcome3) : result :=
  let '(rc, te, ie) := o in
  if ie && negb te then RIntErr
  else if te && negb ie then RFail
  else if te && ie then RFail
  else if rc then RPass
  else RFail.

Definition is_pass (r : result) : bool := match r with RPass => true | _ => false end.
Definition is_notrun (r : result) : bool := match r with RNotRun => true | _ => false end.
Definition is_interr (r : result) : bool := match r with RIntErr => true | _ => false end.
Definition is_notimpl (s : status) : bool := match s with NotImplemented => true | _ => false end.
Definition implemented (t : test) : bool := negb (is_notimpl (stat t)).

(** one evaluation of a check: which test, whether Run was entered for it as a
    dependency of another test, and what the check returned *)
Record event := mkEv { ev_id : nat; ev_dep : bool; ev_out : outcome3 }.

(** ErrorText: [Some d] when it is "<name of d> failed" *)
Record state := mkSt { res : nat -> result; blame : nat -> option nat; trace : list event }.

Definition upd {A} (f : nat -> A) (i : nat) (v : A) : nat -> A :=
  fun j => if Nat.eqb j i then v else f j.

Definition evals (id : nat) (tr : list event) : nat :=
  length (filter (fun e => Nat.eqb (ev_id e) id) tr).

Definition set_depfailed (s : state) (id d : nat) : state :=
  mkSt (upd (res s) id RDepFailed) (upd (blame s) id (Some d)) (trace s).

(** after the check returned [o]: Result by [classify]; ErrorText is replaced
    only when an error value was returned *)
Definition set_checked (s : state) (id : nat) (asdep : bool) (o : outcome3) : state :=
  let '(rc, te, ie) := o in
  mkSt (upd (res s) id (classify o))
       (if te || ie then upd (blame s) id None else blame s)
       (trace s ++ [mkEv id asdep o]).

Section Run.
  Variable ts : nat -> test.
  Variable chk : nat -> nat -> outcome3.

  (** the dependency loop of Test.Run for test [id]; [runf] runs a dependency *)
  Fixpoint deps_loop (runf : state -> nat -> option state) (id : nat) (ds : list nat)
           (s : state) (ok : bool) : option (state * bool) :=
    match ds with
    | [] => Some (s, ok)
    | d :: ds' =>
        if is_notimpl (stat (ts d)) then deps_loop runf id ds' s ok
        else
          match (if is_notrun (res s d) then runf s d else Some s) with
          | None => None
          | Some s1 =>
              if is_pass (res s1 d) then deps_loop runf id ds' s1 ok
              else deps_loop runf id ds' (set_depfailed s1 id d) false
          end
    end.

  Fixpoint run (fuel : nat) (asdep : bool) (s : state) (id : nat) : option state :=
    match fuel with
    | O => None
    | S f =>
        match deps_loop (run f true) id (deps (ts id)) s true with
        | None => None
        | Some (s1, true) => Some (set_checked s1 id asdep (chk id (evals id (trace s1))))
        | Some (s1, false) => Some s1
        end
    end.

  (** return value of Test.Run *)
  Definition run_ret (s' : state) (id : nat) : bool := is_pass (res s' id).

  (** a caller that runs every listed test and never stops (txt-suite / bg-suite
      in non-interactive mode); returns the Run return values too *)
  Fixpoint run_list (fuel : nat) (s : state) (order : list nat) : option (state * list bool) :=
    match order with
    | [] => Some (s, [])
    | i :: rest =>
        match run fuel false s i with
        | None => None
        | Some s1 =>
            match run_list fuel s1 rest with
            | None => None
            | Some (s2, rs) => Some (s2, run_ret s1 i :: rs)
            end
        end
    end.

  Inductive silent_ret := SOk | SIntErr | SFail (id : nat) (r : result).

  (** RunTestsSilent *)
  Fixpoint run_silent (fuel : nat) (s : state) (order : list nat) : option (state * silent_ret) :=
    match order with
    | [] => Some (s, SOk)
    | i :: rest =>
        match run fuel false s i with
        | None => None
        | Some s1 =>
            if negb (run_ret s1 i) && required (ts i) then
              if is_notimpl (stat (ts i)) then run_silent fuel s1 rest
              else if is_interr (res s1 i) then Some (s1, SIntErr)
              else Some (s1, SFail i (res s1 i))
            else run_silent fuel s1 rest
        end
    end.
End Run.

Definition init_state : state := mkSt (fun _ => RNotRun) (fun _ => None) [].

(** a deterministic check: the oracle ignores the evaluation counter *)
Definition deterministic (chk : nat -> nat -> outcome3) : Prop :=
  forall id n m, chk id n = chk id m.
