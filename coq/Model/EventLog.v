(** Model of pkg/tpmeventlog/{replay.go,parse_event_data.go} and of
    pkg/bootflow/subsystems/trustchains/tpm/event_log.go (EventLog.Replay,
    RestoreCommands, EventLogFromParsed).  Executable definitions only; proofs
    live in Proofs/EventLog.v.

    Bytes are [Z] in [0,256), byte strings [list Z].  The hash function is a
    parameter [H alg message]; nothing here computes SHA.  A parsed log is a
    list of events ([[]*Event] with non-nil entries); [Event.Digest] is a
    pointer and may be nil ([None]).  Error values are [Err code] with one code
    per Go error type, see [E_*]. *)
From CSS Require Import Lib.Base.

(** * Vocabulary *)

Record digest := mkDg { d_alg : Z; d_bytes : list Z }.
Record event := mkEv { ev_pcr : Z; ev_type : Z; ev_data : list Z; ev_digest : option digest }.

Definition EV_POST_CODE : Z := 1.
Definition EV_NO_ACTION : Z := 3.
Definition EV_EFI_PLATFORM_FIRMWARE_BLOB2 : Z := 2147483658. (* 0x8000000A *)

(** error classes (Go error types) *)
Definition E_ALG : Z := 1.        (* ErrNotSupportedHashAlgo *)
Definition E_DIGLEN : Z := 2.     (* ErrInvalidDigestLength (wrapped by Replay) *)
Definition E_INDEX : Z := 3.      (* ErrNotSupportedIndex *)
Definition E_UNEXPECTED : Z := 4. (* ErrUnexpectedEventType "already initialized" *)
Definition E_LOCALITY : Z := 5.   (* ErrLocality *)
Definition E_PCR_PARSER : Z := 6. (* ParseEventData: "PCR%d is not supported, yet" *)
Definition E_TYPE_PARSER : Z := 7. (* ParseEventData: "event type ... is not supported in PCR0, yet" *)

(** [tpm2.Algorithm.Hash()] followed by [Size()]: the go-tpm [hashInfo] table
    (SHA1, SHA256, SHA384, SHA512, SHA3-256/384/512; all Go hashes linked in). *)
Definition hash_size (a : Z) : option Z :=
  if a =? 4 then Some 20
  else if a =? 11 then Some 32
  else if a =? 12 then Some 48
  else if a =? 13 then Some 64
  else if a =? 39 then Some 32
  else if a =? 40 then Some 48
  else if a =? 41 then Some 64
  else None.

Definition zeros (n : Z) : list Z := repeat 0 (Z.to_nat n).

(** [r := make([]byte, size); r[len(r)-1] = locality]; the index panics for size 0. *)
Definition zeros_loc (size loc : Z) : outcome (list Z) :=
  if size <=? 0 then Panic else Ok (zeros (size - 1) ++ [loc]).

Definition is_nil {A} (l : list A) : bool := match l with [] => true | _ => false end.

(** * ParseLocality *)

(** "StartupLocality" *)
Definition STARTUP_LOCALITY : list Z :=
  [83; 116; 97; 114; 116; 117; 112; 76; 111; 99; 97; 108; 105; 116; 121].

(** [bytes.SplitN(data, []byte{0}, 2)]: one word when there is no NUL (also for
    empty data), otherwise the bytes before and after the first NUL. *)
Fixpoint split_nul (l : list Z) : list Z * option (list Z) :=
  match l with
  | [] => ([], None)
  | x :: t => if x =? 0 then ([], Some t)
              else let '(w, r) := split_nul t in (x :: w, r)
  end.

Definition splitn2 (data : list Z) : list (list Z) :=
  match split_nul data with
  | (w, None) => [w]
  | (w, Some r) => [w; r]
  end.

(** The Go code indexes [descrWords[0]], and [descrWords[1]] under the guard
    [len(descrWords) > 1]; an index out of range is [Panic]. *)
Definition parse_locality (data : list Z) : outcome Z :=
  let words := splitn2 data in
  match nth_error words 0 with
  | None => Panic
  | Some w0 =>
      if zlist_eqb w0 STARTUP_LOCALITY then
        if (1 <? Z.of_nat (length words)) then
          match nth_error words 1 with
          | None => Panic
          | Some w1 =>
              if Z.of_nat (length w1) =? 1 then
                match nth_error w1 0 with None => Panic | Some b => Ok b end
              else Err E_LOCALITY
          end
        else Err E_LOCALITY
      else Err E_LOCALITY
  end.

(** * FilterEvents *)

Fixpoint filter_events (size p a : Z) (l : list event) : outcome (list event) :=
  match l with
  | [] => Ok []
  | e :: t =>
      if negb (ev_pcr e =? p) then filter_events size p a t
      else
        match ev_digest e with
        | None => filter_events size p a t
        | Some d =>
            if negb (d_alg d =? a) then filter_events size p a t
            else if negb (Z.of_nat (length (d_bytes d)) =? size) then Err E_DIGLEN
            else bind (filter_events size p a t) (fun r => Ok (e :: r))
        end
  end.

Definition filterEvents (l : list event) (p a : Z) : outcome (list event) :=
  match hash_size a with
  | None => Err E_ALG
  | Some size => filter_events size p a l
  end.

(** * Replay *)

Section WithHash.
Variable H : Z -> list Z -> list Z.

(** The loop over the filtered events; [res] is the Go variable [result]
    ([nil] = not initialised yet, tested with [len(result) == 0]). *)
Fixpoint replay_loop (size p a : Z) (evs : list event) (res : list Z) : outcome (list Z) :=
  match evs with
  | [] => Ok res
  | e :: t =>
      if ev_type e =? EV_NO_ACTION then
        if negb (is_nil res) then Err E_UNEXPECTED
        else if p =? 0 then
          bind (parse_locality (ev_data e)) (fun loc =>
          bind (zeros_loc size loc) (fun r => replay_loop size p a t r))
        else Err E_INDEX
      else
        bind (if is_nil res
              then (if p =? 0 then Ok (zeros size) else Err E_INDEX)
              else Ok res) (fun r =>
        match ev_digest e with
        | None => Panic (* event.Digest.Digest on a nil pointer *)
        | Some d => replay_loop size p a t (H a (r ++ d_bytes d))
        end)
  end.

Definition replay (l : list event) (p a : Z) : outcome (list Z) :=
  match hash_size a with
  | None => Err E_ALG
  | Some size =>
      bind (filter_events size p a l) (fun evs =>
      bind (if p =? 0 then Ok [] else if p =? 1 then Ok (zeros size) else Err E_INDEX) (fun res0 =>
      bind (replay_loop size p a evs res0) (fun res =>
      if is_nil res && (p =? 0) then Ok (zeros size) else Ok res)))
  end.

(** * tpm.EventLog (bootflow) *)

Record entry := mkEn { en_pcr : Z; en_alg : Z; en_digest : list Z; en_type : Z; en_data : list Z }.

(** The loop of [EventLog.Replay]: entries of another PCR or bank and
    EV_NO_ACTION entries are skipped; every other entry is extended (digest
    lengths are not checked here).  The hasher is reset after every [Sum]. *)
Fixpoint tpm_replay_loop (p a : Z) (l : list entry) (res : list Z) : list Z :=
  match l with
  | [] => res
  | e :: t =>
      if negb (en_pcr e =? p) || negb (en_alg e =? a) then tpm_replay_loop p a t res
      else if en_type e =? EV_NO_ACTION then tpm_replay_loop p a t res
      else tpm_replay_loop p a t (H a (res ++ en_digest e))
  end.

(** Documented panics: unsupported algorithm, PCR other than 0. *)
Definition tpm_replay (l : list entry) (p a loc : Z) : outcome (list Z) :=
  match hash_size a with
  | None => Panic
  | Some size =>
      if negb (p =? 0) then Panic
      else bind (zeros_loc size loc) (fun r0 => Ok (tpm_replay_loop p a l r0))
  end.

End WithHash.

(** [EventLogFromParsed]: dereferences [ev.Digest]. *)
Fixpoint from_parsed (l : list event) : outcome (list entry) :=
  match l with
  | [] => Ok []
  | e :: t =>
      match ev_digest e with
      | None => Panic
      | Some d => bind (from_parsed t) (fun r =>
                  Ok (mkEn (ev_pcr e) (d_alg d) (d_bytes d) (ev_type e) (ev_data e) :: r))
      end
  end.

(** [RestoreCommands] *)
Inductive cmd :=
| CmdInit (loc : Z)
| CmdExtend (p a : Z) (d : list Z)
| CmdLogAdd (p a : Z) (d : list Z) (ty : Z) (data : list Z).

Fixpoint restore_commands (l : list entry) : list cmd :=
  match l with
  | [] => []
  | e :: t =>
      if en_type e =? EV_NO_ACTION then
        if en_pcr e =? 0 then
          match parse_locality (en_data e) with
          | Ok loc => CmdInit loc :: restore_commands t
          | _ => restore_commands t
          end
        else restore_commands t
      else CmdExtend (en_pcr e) (en_alg e) (en_digest e)
           :: CmdLogAdd (en_pcr e) (en_alg e) (en_digest e) (en_type e) (en_data e)
           :: restore_commands t
  end.

(** * ParseEventData *)

Record parsed := mkParsed {
  pr_ranges : list (Z * Z);      (* (Offset, Length) *)
  pr_locality : option Z;
  pr_descr : option (list Z);
  pr_guids : list (list Z)
}.

Definition PHYS_ADDR_BASE : Z := 4294967296.

(** [addr >= (PhysAddrBase-imageSize) && addr < PhysAddrBase] in uint64 *)
Definition is_phys_addr (addr isz : Z) : bool :=
  (wrap64 (PHYS_ADDR_BASE - isz) <=? addr) && (addr <? PHYS_ADDR_BASE).

Definition valid_pair (isz len off : Z) : bool := (len <=? isz) && is_phys_addr off isz.

Definition le64 (b : list Z) : Z := fold_right (fun x acc => x + 256 * acc) 0 b.

(** The loop peeling 16-byte (length, offset) pairs off the end of the data. *)
Fixpoint pairs_loop (fuel : nat) (isz : Z) (data : list Z) (acc : list (Z * Z))
  : outcome (list Z * list (Z * Z)) :=
  match fuel with
  | O => OutOfFuel
  | S f =>
      let n := length data in
      if (n <? 16)%nat then Ok (data, acc)
      else
        let off := le64 (skipn (n - 8) data) in
        let len := le64 (firstn 8 (skipn (n - 16) data)) in
        let '(off1, len1) := if valid_pair isz len off then (off, len) else (len, off) in
        if negb (valid_pair isz len1 off1) then Ok (data, acc)
        else pairs_loop f isz (firstn (n - 16) data) (acc ++ [(off1, len1)])
  end.

Definition is_hex (c : Z) : bool :=
  ((48 <=? c) && (c <=? 57)) || ((97 <=? c) && (c <=? 102)) || ((65 <=? c) && (c <=? 70)).
Definition hex_val (c : Z) : Z :=
  if c <=? 57 then c - 48 else if 97 <=? c then c - 87 else c - 55.
Fixpoint hex_decode (l : list Z) : list Z :=
  match l with
  | h :: l' => match l' with
               | lo :: t => (hex_val h * 16 + hex_val lo) :: hex_decode t
               | [] => []
               end
  | [] => []
  end.

(** fiano [guid.Parse]: drop every '-', hex-decode, need 16 bytes, then reverse
    the first three fields (4, 2, 2 bytes). *)
Definition guid_parse (s : list Z) : option (list Z) :=
  let stripped := filter (fun c => negb (c =? 45)) s in
  if forallb is_hex stripped && (Z.of_nat (length stripped) =? 32) then
    let d := hex_decode stripped in
    Some (rev (firstn 4 d) ++ rev (firstn 2 (skipn 4 d)) ++ rev (firstn 2 (skipn 6 d)) ++ skipn 8 d)
  else None.

Fixpoint has_prefix (p s : list Z) : bool :=
  match p, s with
  | [], _ => true
  | x :: p', y :: s' => (x =? y) && has_prefix p' s'
  | _ :: _, [] => false
  end.

(** [parseDescription]: "Fv(<36 characters>)" *)
Definition descr_guids (d : list Z) : list (list Z) :=
  if has_prefix [70; 118; 40] d && has_prefix [41] (rev d) && (Z.of_nat (length d) =? 40) then
    match guid_parse (firstn 36 (skipn 3 d)) with
    | Some g => [g]
    | None => []
    end
  else [].

Definition parse_blob2 (data : list Z) (isz : Z) : outcome parsed :=
  bind (pairs_loop (S (length data)) isz data []) (fun '(rest, ranges) =>
  match rest with
  | [] => Ok (mkParsed ranges None None [])
  | b0 :: tl =>
      if b0 =? Z.of_nat (length tl)
      then Ok (mkParsed ranges None (Some tl) (descr_guids tl))
      else Ok (mkParsed ranges None None [])
  end).

(** [ParseEventData] with the parsers registered by the package itself. *)
Definition parse_event_data (e : event) (isz : Z) : outcome parsed :=
  if negb (ev_pcr e =? 0) then Err E_PCR_PARSER
  else if ev_type e =? EV_NO_ACTION then
    bind (parse_locality (ev_data e)) (fun loc => Ok (mkParsed [] (Some loc) None []))
  else if (ev_type e =? EV_POST_CODE) || (ev_type e =? EV_EFI_PLATFORM_FIRMWARE_BLOB2) then
    parse_blob2 (ev_data e) isz
  else Err E_TYPE_PARSER.

(** * Specification vocabulary (used by the theorems, not by the code model) *)

(** the events FilterEvents looks at: PCR index and bank match, digest present *)
Definition sel (p a : Z) (e : event) : bool :=
  (ev_pcr e =? p) &&
  match ev_digest e with Some d => d_alg d =? a | None => false end.

Definition selected (l : list event) (p a : Z) : list event := filter (sel p a) l.

Definition is_meas (e : event) : bool := negb (ev_type e =? EV_NO_ACTION).

Definition ev_digest_bytes (e : event) : list Z :=
  match ev_digest e with Some d => d_bytes d | None => [] end.

(** digests of exactly the measurement (non-EV_NO_ACTION) events of that PCR and bank, in log order *)
Definition meas_digests (l : list event) (p a : Z) : list (list Z) :=
  map ev_digest_bytes (filter is_meas (selected l p a)).

(** exactly "StartupLocality" NUL <byte> *)
Definition startup_data (loc : Z) : list Z := STARTUP_LOCALITY ++ [0; loc].

(** zeros, or for PCR0 zeros ending in the locality byte of the leading startup-locality event *)
Definition seed (l : list event) (p a : Z) : list Z :=
  match hash_size a with
  | None => []
  | Some size =>
      match selected l p a with
      | e :: _ =>
          if (p =? 0) && (ev_type e =? EV_NO_ACTION) then
            match parse_locality (ev_data e) with
            | Ok loc => zeros (size - 1) ++ [loc]
            | _ => zeros size
            end
          else zeros size
      | [] => zeros size
      end
  end.

Definition tcg_fold (H : Z -> list Z -> list Z) (a : Z) (ds : list (list Z)) (s : list Z) : list Z :=
  fold_left (fun acc d => H a (acc ++ d)) ds s.

Definition en_sel (p a : Z) (e : entry) : bool := (en_pcr e =? p) && (en_alg e =? a).
Definition en_is_meas (e : entry) : bool := negb (en_type e =? EV_NO_ACTION).
Definition tpm_meas_digests (l : list entry) (p a : Z) : list (list Z) :=
  map en_digest (filter en_is_meas (filter (en_sel p a) l)).

(** "A log made of measurement events with digests of the right length, optionally
    led by one well-formed startup-locality event" — for the queried PCR and bank.
    Replay supports only PCR0 and PCR1 and the algorithms of [hash_size]
    (everything else is rejected with ErrNotSupportedIndex /
    ErrNotSupportedHashAlgo: documented), and the startup event initialises PCR0 only. *)
Definition right_length (size : Z) (e : event) : Prop :=
  Z.of_nat (length (ev_digest_bytes e)) = size.

Definition all_meas (l : list event) : Prop := Forall (fun e => is_meas e = true) l.

Definition wellformed (l : list event) (p a : Z) : Prop :=
  exists size, hash_size a = Some size /\ (p = 0 \/ p = 1) /\
  Forall (right_length size) (selected l p a) /\
  (all_meas (selected l p a)
   \/ (p = 0 /\ exists s t loc,
         selected l p a = s :: t /\ ev_type s = EV_NO_ACTION /\
         ev_data s = startup_data loc /\ all_meas t)).

(** Two logs that differ at most in the digest BYTES of EV_NO_ACTION events
    (same bank and same digest length, so that FilterEvents sees the same thing). *)
Definition same_shape (d d' : option digest) : Prop :=
  match d, d' with
  | None, None => True
  | Some x, Some y => d_alg x = d_alg y /\ length (d_bytes x) = length (d_bytes y)
  | _, _ => False
  end.

Definition differ_in_noaction_digest (e e' : event) : Prop :=
  ev_pcr e = ev_pcr e' /\ ev_type e = ev_type e' /\ ev_data e = ev_data e' /\
  (if is_meas e then ev_digest e = ev_digest e' else same_shape (ev_digest e) (ev_digest e')).

(** the CommandExtend-s in a command list *)
Fixpoint cmd_extends (cs : list cmd) : list (Z * Z * list Z) :=
  match cs with
  | [] => []
  | CmdExtend p a d :: t => (p, a, d) :: cmd_extends t
  | _ :: t => cmd_extends t
  end.
