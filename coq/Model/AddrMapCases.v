(** Case language of the C14 correspondence check. The Go harness (harness/cmd/c14)
    writes [coq/gen/Cases_C14_*.v] with the inputs it gave to the implementation AND
    what the implementation returned; [check] re-runs the model. *)
From CSS Require Import Lib.Base Lib.Cases Model.AddrMap Model.Delivered Model.VolumeOf.

Inductive case : Type :=
(* PhysMemMapper: which = 0 Resolve, 1 ResolveFullImageOffset, 2 Unresolve, 3 UnresolveFullImageOffset;
   artifact of the given Size(); input ranges; returned ranges *)
| CPmm (which : Z) (size : Z) (rs : list range) (r : obs (list range))
(* ResolveBIOSRegionOffset (unres=false) / UnresolveBIOSRegionOffset (unres=true);
   bios = Some (length of the only BIOS region) or None when the artifact has none/is not a BIOSImage *)
| CPmmBios (unres : bool) (bios : option Z) (rs : list range) (r : obs (list range))
(* UEFI.PhysAddrToOffset (toOffset=true) / OffsetToPhysAddr on an image of [len] bytes *)
| CUefi (toOffset : bool) (len x res : Z)
(* consts: 0 CalculatePhysAddrFromTailOffset a; 1 CalculateTailOffsetFromPhysAddr a;
           2 CalculateOffsetFromPhysAddr a b *)
| CConsts (which : Z) (a b res : Z)
| CIsPhys (addr size : Z) (res : bool)
(* tools.CalcImageOffset on an image whose layout the harness built; returned value and error *)
| CCalcOff (l : layout) (imglen addr : Z) (r : obs Z)
(* NodeVisitor.Run over the abstract tree with the rows of NameToRangesMap; ranges handed to the callback *)
| CWalk (t : tree) (rm : rangemap) (fb : bool) (r : obs (list range))
(* VolumeOf(MemRanges{unresolve r}) given what the walker reports for the image *)
| CVolumeOf (size : Z) (nodes : list (bool * range)) (r : range) (res : obs (list range))
(* MeasurePCR0DATA.Actions: [first] = physical address of the first entry of the BPM's IBB digest
   list, [ds] = (algorithm, buffer length) of the entries as decoded by the harness from the bytes;
   res = per measured algorithm (SHA1, SHA256) the (address, length) of the ibbDigest reference,
   None = no measurement was emitted for it *)
| CDigestRefs (first : Z) (ds : digest_shape) (res : list (option range))
(* A caller's session with the mappers: [h0] the arrays the caller owns (every element, spare
   capacity included); per step what was returned (ignored for MWrite); [hfinal] every array --
   the caller's and each answer, in the order they were returned ([] for a failed call) -- as
   re-read by the harness AFTER the whole session *)
| CPmmSession (h0 : heap) (ops : list (mop * obs (list range))) (hfinal : heap)
(* ONE NodeVisitor object, several Runs (other trees, other AddOffset, other fallback setting,
   sub-trees): per Run the tree, the rows NameToRangesMap returns for it, and the ranges handed
   to the callback *)
| CWalkSession (runs : list (vrun * obs (list range)))
(* Data.RawBytes() of what a data source returned, on an image of [size] bytes of which
   [win] are the bytes from offset [woff] on (Model/Delivered.v [win_content]); [rs] as handed
   to the data source / as reported by the walker; [r] the delivered bytes.
   kind 0: MemRanges(rs) (physical addresses, as given: overlapping, nested, repeated, unsorted,
           empty, outside the image)
   kind 1: UEFIGUIDFirst{g}; rs = the ranges the walker (container fallback on) handed over
           for the objects named g, in visit order (image offsets, 2^64-1 = unknown)
   kind 2: UEFIFiles(pred); rs likewise for the selected files *)
| CDelivered (kind : Z) (size woff : Z) (win : list Z) (rs : list range) (r : obs (list Z))
(* VolumeOf(inner).Data on an image of [size] bytes (Model/VolumeOf.v): [nodes] = what the walker
   (no fallback) reports, in visit order, with "is a firmware volume" -- every volume, and of
   the other nodes those that cover the first byte of one of the ranges; [refs] = the references
   of the inner data source's Data, each with "AddressMapper is PhysMemMapper" and its ranges AS
   THE INNER SOURCE GAVE THEM (several ranges per reference, several references: touching at a
   border between volumes, in one volume, unsorted, repeated, with gaps ...); [res] = the ranges
   of the references of the returned Data *)
| CVolumeOfList (size : Z) (nodes : list (bool * range)) (refs : list vref) (res : obs (list range)).

Definition range_eqb (a b : range) : bool := (fst a =? fst b) && (snd a =? snd b).
Definition ranges_eqb := list_eqb range_eqb.

Definition orange_eqb (a b : option range) : bool :=
  match a, b with
  | Some x, Some y => range_eqb x y
  | None, None => true
  | _, _ => false
  end.

(* element-wise comparison of two lists of different types (same length required) *)
Fixpoint list_match {A B} (f : A -> B -> bool) (a : list A) (b : list B) : bool :=
  match a, b with
  | [], [] => true
  | x :: a', y :: b' => f x y && list_match f a' b'
  | _, _ => false
  end.

Definition check (c : case) : bool :=
  match c with
  | CPmm which size rs r =>
      obs_match ranges_eqb r
        (if (which =? 0) || (which =? 1) then pmm_resolve_ranges size rs
         else pmm_unresolve_ranges size rs)
  | CPmmBios unres bios rs r =>
      obs_match ranges_eqb r
        (if unres then pmm_unresolve_bios_ranges bios rs else pmm_resolve_bios_ranges bios rs)
  | CUefi toOffset len x res =>
      (if toOffset then uefi_phys_to_offset len x else uefi_offset_to_phys len x) =? res
  | CConsts which a b res =>
      (if which =? 0 then calc_phys_from_tail a
       else if which =? 1 then calc_tail_from_phys a
       else calc_offset_from_phys a b) =? res
  | CIsPhys addr size res => Bool.eqb (is_phys_addr addr size) res
  | CCalcOff l n addr r => obs_match Z.eqb r (calc_image_offset l n addr)
  | CWalk t rm fb r => obs_match ranges_eqb r (walk rm fb t)
  | CVolumeOf size nodes q res => obs_match ranges_eqb res (volume_of_one size nodes q)
  | CDigestRefs first ds res => list_eqb orange_eqb res (pcr0_digest_refs first ds)
  | CPmmSession h0 ops hfinal =>
      let (res, h) := msession h0 (map fst ops) in
      list_match (fun m o => match m with
                           | Some out => obs_match ranges_eqb (snd o) out
                           | None => true
                           end) res ops
      && list_eqb ranges_eqb h hfinal
  | CWalkSession runs =>
      list_match (fun m o => obs_match ranges_eqb (snd o) m) (vsession v_fresh (map fst runs)) runs
  | CDelivered kind size woff win rs r =>
      let content := win_content size woff win in
      obs_match zlist_eqb r
        (if kind =? 0 then mem_ranges_bytes content rs
         else if kind =? 1 then guid_first_bytes content rs
         else uefi_files_bytes content rs)
  | CVolumeOfList size nodes refs res => obs_match ranges_eqb res (volume_of size nodes refs)
  end.

Definition mismatches := mismatches_by check.
