(** Model of PSIndexHasValidLCP / POIndexHasValidLCP (pkg/test/tpm.go) as functions of the
    hardware description they read - TPM version, the NV public area of the index, the BYTES
    stored in the index - through [tools.ParsePolicy] (pkg/tools/lcp.go), which decides from
    the version word which of the two layouts the bytes are read as.  (Model/Verdicts.v has
    the decision on the parsed fields: [lcp_valid1], [lcp_valid2].)  Executable definitions
    only; proofs live in Proofs/VerdictsLCP.v.

    LCP_POLICY (54 bytes, little endian):
      Version u16 @0, HashAlg u8 @2, PolicyType u8 @3, SINITMinVersion u8 @4, Reserved u8 @5,
      DataRevocationCounters 8 x u16 @6, PolicyControl u32 @22, MaxSINITMinVersion u8 @26,
      Reserved1 u8 @27, Reserved2 u16 @28, Reserved3 u32 @30, PolicyHash 20 bytes @34.
    LCP_POLICY2 (38 bytes + digest of HashAlg):
      Version u16 @0, HashAlg u16 @2, PolicyType u8 @4, SINITMinVersion u8 @5,
      DataRevocationCounters 8 x u16 @6, PolicyControl u32 @22, MaxSINITMinVersion u8 @26,
      Reserved u8 @27, LcpHashAlgMask u16 @28, LcpSignAlgMask u32 @30, Reserved2 u32 @34,
      PolicyHash @38. *)
From CSS Require Import Lib.Base Model.Verdicts.

Local Open Scope Z_scope.

(** little-endian value of a byte string *)
Fixpoint le (l : list Z) : Z :=
  match l with
  | [] => 0
  | x :: t => x + 256 * le t
  end.

Definition sub (b : list Z) (off n : nat) : list Z := firstn n (skipn off b).
Definition byte_at (b : list Z) (i : nat) : Z := nth i b 0.

(** what [tools.ParsePolicy] hands over, projected to the fields the checks look at *)
Inductive lcp_parsed : Type :=
| LErr                                   (* nil, nil, error *)
| L1 (version hashalg ptype sinitmin polctrl maxsinit : Z) (hashzero : bool)   (* *LCPPolicy *)
| L2 (version hashalg ptype hmask smask : Z).                                  (* *LCPPolicy2 *)

(** [parsePolicy]: twelve sequential [binary.Read]s, 54 bytes in all; any read that does not get
    all its bytes is an error.  [hashzero]: PolicyHash equals 20 zero bytes. *)
Definition parse_policy1 (b : list Z) : lcp_parsed :=
  if (length b <? 54)%nat then LErr
  else L1 (le (sub b 0 2)) (byte_at b 2) (byte_at b 3) (byte_at b 4) (le (sub b 22 4)) (byte_at b 26)
          (forallb (Z.eqb 0) (sub b 34 20)).

(** [parsePolicy2]: eleven reads (38 bytes), then [pol2.HashAlg.Hash()] (go-tpm; error for an
    algorithm without linked implementation), then the digest: [binary.Read] of [h] bytes, where
    io.EOF (not a single byte left) is tolerated and a partial digest is an error. *)
Definition parse_policy2 (b : list Z) : lcp_parsed :=
  if (length b <? 38)%nat then LErr
  else match tpm_hash_size (le (sub b 2 2)) with
       | None => LErr
       | Some h =>
           let rest := (length b - 38)%nat in
           if (0 <? rest)%nat && (Z.of_nat rest <? h) then LErr
           else L2 (le (sub b 0 2)) (le (sub b 2 2)) (byte_at b 4) (le (sub b 28 2)) (le (sub b 30 4))
       end.

(** [tools.ParsePolicy]: version <= 0x0204 -> LCP_POLICY, version >= 0x0300 -> LCP_POLICY2,
    anything between: "can't parse LCP Policy" *)
Definition parse_policy (b : list Z) : lcp_parsed :=
  if (length b <? 2)%nat then LErr
  else
    let v := le (sub b 0 2) in
    if v <=? LCP_V2 then parse_policy1 b
    else if v >=? LCP_V3 then parse_policy2 b
    else LErr.

(** the decision on what was parsed; [onerr]: what the caller makes of a parse error *)
Definition lcp_fields_verdict (preset : Z) (p : lcp_parsed) (onerr : verd) : verd :=
  match p with
  | LErr => onerr
  | L1 v h t s pc ms hz => lcp_valid1 v h t s pc ms hz
  | L2 v h t hm sm => lcp_valid2 preset v h t hm sm
  end.

(** The NV public area of an index as the platform presents it: the index is not defined (the
    TPM answers with its "not set" error), the read fails for another reason, or the blob. *)
Inductive nvst : Type :=
| NvAbsent
| NvFail
| NvBlob (b : list Z).

(** [NVReadValue(index, size)]: the first [size] bytes of the index; reading more bytes than
    the index holds (or an index whose data cannot be read at all: [None]) is an error *)
Definition nv_read (data : option (list Z)) (size : Z) : option (list Z) :=
  match data with
  | None => None
  | Some d => if Z.of_nat (length d) <? size then None else Some (firstn (Z.to_nat size) d)
  end.

Definition TPM12 : Z := 1.   (* hwapi.TPMVersion12 *)
Definition TPM20 : Z := 2.   (* hwapi.TPMVersion20 *)
Definition LCP12_SIZE : Z := 54.   (* tpm12PSIndexSize = tpm12POIndexSize *)

(** how many bytes the TPM 2.0 branch reads: [uint16(hash.Size()) + tpm20P?IndexBaseSize] for
    the name algorithm of the NV public area ([None]: one of the steps before the read fails).
    [which]: 0 PS, 2 PO *)
Definition lcp20_size (which : Z) (b : list Z) : option Z :=
  match parse_nvpub b with
  | None => None
  | Some (alg, _, _, _) =>
      match tpm_hash_size alg with
      | None => None
      | Some h => Some (idx_size which h)
      end
  end.

(** PSIndexHasValidLCP: every failure of [readPSLCPPolicy] is a test error *)
Definition ps_lcp (tpm : Z) (pub : nvst) (data : option (list Z)) (preset : Z) : verd :=
  if tpm =? TPM12 then
    match nv_read data LCP12_SIZE with
    | None => fail
    | Some d => lcp_fields_verdict preset (parse_policy d) fail
    end
  else if tpm =? TPM20 then
    match pub with
    | NvAbsent => fail
    | NvFail => fail
    | NvBlob b =>
        match lcp20_size 0 b with
        | None => fail
        | Some size =>
            match nv_read data size with
            | None => fail
            | Some d => lcp_fields_verdict preset (parse_policy d) fail
            end
        end
    end
  else fail.   (* no branch of the switch: "parse policy returned nil,nil, nil" *)

(** POIndexHasValidLCP: an index that is not defined is (true, "PO index not set"); other
    failures of the NV public read, a truncated NV public area and a parse error of the policy
    are internal errors; a name algorithm without digest and (TPM 2.0) a failing data read are
    test errors; (TPM 1.2) a failing data read is (true, error). *)
Definition po_lcp (tpm : Z) (pub : nvst) (data : option (list Z)) (preset : Z) : verd :=
  if tpm =? TPM12 then
    match pub with
    | NvAbsent => warn
    | NvFail => ierr
    | NvBlob _ =>
        match nv_read data LCP12_SIZE with
        | None => warn
        | Some d => lcp_fields_verdict preset (parse_policy d) ierr
        end
    end
  else if tpm =? TPM20 then
    match pub with
    | NvAbsent => warn
    | NvFail => ierr
    | NvBlob b =>
        match parse_nvpub b with
        | None => ierr
        | Some (alg, _, _, _) =>
            match tpm_hash_size alg with
            | None => fail
            | Some h =>
                match nv_read data (idx_size 2 h) with
                | None => fail
                | Some d => lcp_fields_verdict preset (parse_policy d) ierr
                end
            end
        end
    end
  else fail.

Definition lcp_index (po : bool) (tpm : Z) (pub : nvst) (data : option (list Z)) (preset : Z) : verd :=
  if po then po_lcp tpm pub data preset else ps_lcp tpm pub data preset.
