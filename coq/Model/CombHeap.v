(** Slice-level model of [UniqueUnorderedCombinationIterator]
    (pkg/bruteforcer/indexes.go): the combination of an iterator is a Go slice,
    i.e. a reference to a backing array; [Next]/[SetCombinationID] write that
    array in place, [GetCombinationUnsafe] hands out the very same array,
    [GetCombination] and [Copy] allocate a new one ([make] + [copy]).

    Model/Comb.v describes what the methods compute on the VALUE of the
    combination; this file describes WHERE the values live, so that "a
    combination handed out earlier is not changed by later calls" and "an
    iterator and its copy do not influence each other" become statements
    (Proofs/CombHeap.v).  Executable definitions only.

    Every slice of the package has len = cap = the whole array (make(len) /
    Copy), so a slice is just the address of its array. *)
From CSS Require Import Lib.Base Model.Comb.

(** memory: array address = position in the list *)
Definition mem := list (list Z).

Definition rd (h : mem) (a : nat) : list Z := nth a h [].

Fixpoint wr (h : mem) (a : nat) (v : list Z) : mem :=
  match h, a with
  | [], _ => []
  | _ :: t, O => v :: t
  | x :: t, S a' => x :: wr t a' v
  end.

(** [*UniqueUnorderedCombinationIterator]: the [combination] slice and [maxValue] *)
Record iter : Type := mkIter { it_arr : nat; it_max : Z }.

Record hstate : Type := mkH {
  h_mem : mem;
  h_iters : list iter;      (* iterator objects, in the order they were created *)
  h_res : list nat          (* combinations handed to the caller, in the order they were returned *)
}.

Definition hinit : hstate := mkH [] [] [].

(** The calls a user of the package can make.  Iterators and returned
    combinations are named by their creation order. *)
Inductive op : Type :=
| ONew (k : nat) (m : Z)            (* NewUniqueUnorderedCombinationIterator(k, m) *)
| ONext (i : nat)                   (* iter.Next() *)
| OSeek (i : nat) (id : Z)          (* iter.SetCombinationID(id) *)
| OGet (i : nat)                    (* r := iter.GetCombination() *)
| OGetUnsafe (i : nat)              (* r := iter.GetCombinationUnsafe() *)
| OCopy (i : nat)                   (* iter.Copy() *)
| OWrite (r : nat) (j : nat) (v : Z)(* r[j] = v, done by the caller on a returned combination *)
| OID (i : nat)                     (* iter.GetCombinationID() *)
| OAmount (i : nat).                (* iter.AmountOfCombinations() *)

(** what a call returns besides handles *)
Inductive ev : Type :=
| ENone
| EBool (b : bool)
| EZ (z : Z).

Fixpoint set_nth (j : nat) (v : Z) (s : list Z) : list Z :=
  match s, j with
  | [], _ => []
  | _ :: t, O => v :: t
  | x :: t, S j' => x :: set_nth j' v t
  end.

Definition with_iter {X} (st : hstate) (i : nat) (f : iter -> outcome X) : outcome X :=
  match nth_error (h_iters st) i with
  | None => Err 1            (* no such iterator: not a call the harness makes *)
  | Some it => f it
  end.

Definition step (o : op) (st : hstate) : outcome (hstate * ev) :=
  let h := h_mem st in
  match o with
  | ONew k m =>
      Ok (mkH (h ++ [first_comb k]) (h_iters st ++ [mkIter (length h) m]) (h_res st), ENone)
  | ONext i =>
      with_iter st i (fun it =>
        let '(more, s') := next (it_max it) (rd h (it_arr it)) in
        Ok (mkH (wr h (it_arr it) s') (h_iters st) (h_res st), EBool more))
  | OSeek i id =>
      with_iter st i (fun it =>
        bind (seek (it_max it) (length (rd h (it_arr it))) id) (fun s' =>
          Ok (mkH (wr h (it_arr it) s') (h_iters st) (h_res st), ENone)))
  | OGet i =>
      with_iter st i (fun it =>
        Ok (mkH (h ++ [rd h (it_arr it)]) (h_iters st) (h_res st ++ [length h]), ENone))
  | OGetUnsafe i =>
      with_iter st i (fun it =>
        Ok (mkH h (h_iters st) (h_res st ++ [it_arr it]), ENone))
  | OCopy i =>
      with_iter st i (fun it =>
        Ok (mkH (h ++ [rd h (it_arr it)]) (h_iters st ++ [mkIter (length h) (it_max it)]) (h_res st), ENone))
  | OWrite r j v =>
      match nth_error (h_res st) r with
      | None => Err 1
      | Some a =>
          if Nat.ltb j (length (rd h a))
          then Ok (mkH (wr h a (set_nth j v (rd h a))) (h_iters st) (h_res st), ENone)
          else Panic       (* index out of range *)
      end
  | OID i =>
      with_iter st i (fun it => Ok (st, EZ (rank64 (it_max it) (rd h (it_arr it)))))
  | OAmount i =>
      with_iter st i (fun it => Ok (st, EZ (amount64 (it_max it) (length (rd h (it_arr it))))))
  end.

Fixpoint run (ops : list op) (st : hstate) : outcome (hstate * list ev) :=
  match ops with
  | [] => Ok (st, [])
  | o :: t =>
      bind (step o st) (fun '(st1, e) =>
        bind (run t st1) (fun '(st2, es) => Ok (st2, e :: es)))
  end.

(** what the caller can read at the end: every combination it was handed, and
    the current combination of every iterator *)
Definition results (st : hstate) : list (list Z) := map (rd (h_mem st)) (h_res st).
Definition currents (st : hstate) : list (list Z) := map (fun it => rd (h_mem st) (it_arr it)) (h_iters st).
Definition result (st : hstate) (r : nat) : list Z := rd (h_mem st) (nth r (h_res st) O).
Definition current (st : hstate) (i : nat) : list Z :=
  match nth_error (h_iters st) i with Some it => rd (h_mem st) (it_arr it) | None => [] end.
