(** C18 — Boot Guard manifests: the suite's GLUE around signing, verification,
    KM/BPM key binding and private-key wrapping
    (pkg/provisioning/bootguard/{bootguard.go,keygen.go}).

    NOT modelled (third party): RSA/ECDSA/AES-GCM/SHA, x509/PEM, and fiano's
    generated manifest codecs (ReadFrom/WriteTo/Rehash/offset accessors).  They
    appear as the fields of the records [env] / [kenv] below and as the hash
    parameter [H]; theorems quantify over them under explicit hypotheses, the
    correspondence check instantiates them with per-case lookup tables written
    by the harness (values the harness obtained from Go's standard library or
    from fiano directly, never from the function under test).

    What IS modelled, exactly as coded:
    - bgheader.DetectBGV (which generation a file is parsed as);
    - SignKM / SignBPM: prepare, serialise, cut at the signature offset the code
      uses (since ee4d7c9 the same offset VerifyKM/VerifyBPM cut at, for all four
      kinds of manifest), sign with the key, store signature + public key + hash
      algorithm, serialise again;
    - VerifyKM / VerifyBPM: serialise the PARSED structure again (not the file
      bytes!), cut, verify with the embedded key; unknown Version => nil;
    - NewKM/NewBPM + Verify on a file;
    - KMHasBPMHash / BPMKeyMatchKMHash with fiano's hand-written ValidateBPMKey
      for both generations (hash = H alg (Key.Data[4:]), i.e. the modulus only);
      since 24a2a40 BPMKeyMatchKMHash reports an error when it compared nothing
      and both test the CBnT usage word with IsSet (bit 0), like ValidateBPMKey;
    - GetBPMPubHash on a KM OBJECT in an arbitrary state ([km_place]: replaces
      BGkm.BPKey / the whole CBNTkm.Hash list on success, leaves the object alone
      on an error) and histories of such calls interleaved with operations that
      do not concern the hash ([kmstep], [km_run]);
    - writePrivKeyToFile/encryptPrivFile and DecryptPrivKey (since 4423a4c a file
      shorter than the nonce is an error, not a panic);
    - the algorithm NAMES the signing entry points take ([parse_alg]: fiano's two
      GetAlgFromString tables, ASCII names in any letter case) and the entry
      points themselves ([sign_entry]: which names are parsed for which
      generation/document, and what a null or unknown hash name -- "ALGNULL",
      "ALGUNKNOWN" -- turns into: it is handed on as it is, so that the label
      stored with the signature follows the scheme).

    Key sizes and key kinds: key data is a byte string of ANY length (RSA: 4
    exponent bytes + modulus, 260 bytes for RSA-2048, 388 for RSA-3072; ECC: x||y);
    nothing in the glue depends on the length beyond the 4 exponent bytes, and
    the digest placed in a KM / compared by the binding check is over ALL bytes
    after them.  A key that is not an RSA key is refused by the binding check. *)
From CSS Require Import Lib.Base.
From Coq Require Strings.String Strings.Byte.
Import String.StringSyntax.

Definition bytes := list Z.

(** Boot Guard generation (bgheader.Version10 = 1, Version20 = 2) and document type. *)
Inductive gen := V10 | V20.
Inductive doc := KM | BPM.

Definition gen_eqb (a b : gen) : bool :=
  match a, b with V10, V10 | V20, V20 => true | _, _ => false end.

(** bgheader.DetectBGV: read 8 bytes ID + 1 byte version; >= 0x20 -> 2.0,
    0x10..0x1f -> 1.0, else error; a reader shorter than 9 bytes is an error. *)
Definition detect (file : bytes) : option gen :=
  if (length file <? 9)%nat then None
  else let v := nth 8 file 0 in
       if 32 <=? v then Some V20 else if 16 <=? v then Some V10 else None.

(** BootGuard.Version as stored in the struct. *)
Definition gen_of_version (v : Z) : option gen :=
  if v =? 1 then Some V10 else if v =? 2 then Some V20 else None.
Definition version_of_gen (g : gen) : Z := match g with V10 => 1 | V20 => 2 end.

(** TPM algorithm identifiers used by both fiano packages. *)
Definition AlgUnknown : Z := 0.
Definition AlgRSA    : Z := 1.
Definition AlgSHA1   : Z := 4.
Definition AlgSHA256 : Z := 11.
Definition AlgSHA384 : Z := 12.
Definition AlgSHA512 : Z := 13.
Definition AlgNull   : Z := 16.
Definition AlgSM3    : Z := 18.
Definition AlgRSASSA : Z := 20.
Definition AlgRSAPSS : Z := 22.

Definition is_null (a : Z) : bool := (a =? AlgNull) || (a =? AlgUnknown).

(** ** Algorithm names (bg.GetAlgFromString / cbnt.GetAlgFromString)

    [strings.ToUpper(name)] followed by a switch.  Names are byte strings; the
    model covers ASCII names (on other bytes ToUpper applies Unicode case
    mapping, which the harness does not generate). *)
Definition bs (s : String.string) : bytes :=
  map (fun b => Z.of_N (Coq.Strings.Byte.to_N b)) (String.list_byte_of_string s).
Arguments bs _%string_scope.

Definition upper (b : Z) : Z := if (97 <=? b) && (b <=? 122) then b - 32 else b.

(** names both generations know *)
Definition alg_names_common : list (bytes * Z) :=
  [(bs "ALGUNKNOWN", 0); (bs "RSA", 1); (bs "SHA1", 4); (bs "SHA256", 11);
   (bs "ALGNULL", 16); (bs "RSASSA", 20)].
(** names only the CBnT table knows (SHA512 has no name in either table) *)
Definition alg_names_cbnt : list (bytes * Z) :=
  [(bs "SHA384", 12); (bs "SM3", 18); (bs "RSAPSS", 22); (bs "ECDSA", 24);
   (bs "ECC", 35); (bs "SM2", 27)].

Fixpoint assoc_name (k : bytes) (t : list (bytes * Z)) : option Z :=
  match t with
  | [] => None
  | (n, v) :: r => if zlist_eqb k n then Some v else assoc_name k r
  end.

Definition alg_names (g : gen) : list (bytes * Z) :=
  match g with V10 => alg_names_common | V20 => alg_names_common ++ alg_names_cbnt end.

(** GetAlgFromString of generation [g]; [None] = "algorithm name provided unknown" *)
Definition parse_alg (g : gen) (name : bytes) : option Z :=
  assoc_name (map upper name) (alg_names g).

(** The digest NewSignatureData hard-wires per scheme (it ignores the requested
    hash algorithm): RSASSA signs SHA-256(msg), RSAPSS signs SHA-384(msg). *)
Definition scheme_hash (sch : Z) : Z :=
  if sch =? AlgRSAPSS then AlgSHA384 else AlgSHA256.

(** What Signature.SetSignatureByData stores in Signature.HashAlg.
    BG 1.0: SetSignature passes AlgNull, so always SHA256 (and BG verification
    ignores the field).  CBnT: the requested algorithm unless it is null. *)
Definition stored_hash (g : gen) (sch req : Z) : Z :=
  match g with
  | V10 => AlgSHA256
  | V20 => if is_null req then scheme_hash sch else req
  end.

(** The Signature structure as the glue sees it. *)
Record sigrec := mk_sig { sg_scheme : Z; sg_hash : Z; sg_data : bytes }.

(** * The abstract environment: codecs and signature scheme *)
Record env := {
  M  : Type;                                  (* parsed manifest structure *)
  PK : Type;
  SK : Type;
  ser : M -> bytes;                           (* WriteTo (calls Rehash first) *)
  parse : gen -> doc -> bytes -> option M;    (* ReadFrom as used by NewKM/NewBPM; errors wrapping io.EOF are swallowed there *)
  prep : gen -> doc -> M -> M;                (* SignKM: RehashRecursive; SignBPM: PMSE = *NewSignature(); RehashRecursive *)
  keysig_off : M -> nat;                      (* KM: KeyAndSignatureOffset(); CBnT BPM: field BPMH.KeySignatureOffset after WriteTo's Rehash *)
  pmse_off : M -> nat;                        (* BG BPM: Manifest.PMSEOffset() *)
  pmse_ks_off : M -> nat;                     (* BG BPM: PMSE.KeySignatureOffset() — offset INSIDE the PMSE element; where SignBPM cut before ee4d7c9, not used by the glue any more (kept for the case tables) *)
  pkhash : M -> Z;                            (* CBnT KM: PubKeyHashAlg *)
  store : gen -> doc -> M -> PK -> sigrec -> M;  (* the storing half of SetSignature (CBnT KM also copies the hash alg into PubKeyHashAlg) *)
  key_of : M -> PK;                           (* KeySignature.Key *)
  sig_of : M -> sigrec;                       (* KeySignature.Signature *)
  pub : SK -> PK;
  sign_raw : SK -> Z -> bytes -> option bytes;        (* NewSignatureData scheme key msg; None = error *)
  verify_raw : gen -> PK -> sigrec -> bytes -> bool   (* KeySignature.Verify (BG ignores sg_hash) *)
}.

Section Glue.
  Variable E : env.

  (** Where SignKM/SignBPM cut the serialisation.  BG 1.0 BPM:
      [buf.Bytes()[:b.VData.BGbpm.PMSEOffset()]] (it was
      [PMSE.KeySignatureOffset()], an offset inside the signature element, before
      the repair ee4d7c9). *)
  Definition sign_cut (g : gen) (d : doc) (m : M E) : nat :=
    match g, d with
    | V10, BPM => pmse_off E m
    | _, _ => keysig_off E m
    end.

  (** Where VerifyKM/VerifyBPM cut.  BG 1.0 BPM: [[:b.VData.BGbpm.PMSEOffset()]]. *)
  Definition verify_cut (g : gen) (d : doc) (m : M E) : nat :=
    match g, d with
    | V10, BPM => pmse_off E m
    | _, _ => keysig_off E m
    end.

  (** The hash algorithm handed to SetSignature: the KM's PubKeyHashAlg for a
      CBnT KM, the caller's hashAlgo for a BPM (ignored for BG 1.0). *)
  Definition req_hash (d : doc) (m : M E) (req : Z) : Z :=
    match d with KM => pkhash E m | BPM => req end.

  Definition signed_message (g : gen) (d : doc) (m : M E) : bytes :=
    firstn (sign_cut g d m) (ser E m).

  (** SignKM / SignBPM on a structure whose Version is [g]; [sch] is the parsed
      signAlgo, [req] the parsed hashAlgo (BPM only). *)
  Definition sign_manifest (g : gen) (d : doc) (m : M E) (sch req : Z) (sk : SK E) : outcome bytes :=
    let m0 := prep E g d m in
    let msg := signed_message g d m0 in
    match sign_raw E sk sch msg with
    | None => Err 1
    | Some sd =>
        Ok (ser E (store E g d m0 (pub E sk) (mk_sig sch (stored_hash g sch (req_hash d m0 req)) sd)))
    end.

  (** The structure SignKM/SignBPM leave behind (what the returned bytes serialise). *)
  Definition signed_struct (g : gen) (d : doc) (m : M E) (sch req : Z) (sk : SK E) (sd : bytes) : M E :=
    let m0 := prep E g d m in
    store E g d m0 (pub E sk) (mk_sig sch (stored_hash g sch (req_hash d m0 req)) sd).

  (** The signing ENTRY POINTS with the names the caller gives (bg-prov km-sign /
      bpm-sign pass their command-line arguments through):
      - SignKM(signAlgo, key): the scheme name is parsed with the table of the
        manifest's generation; there is no hash name (CBnT: the KM's own
        PubKeyHashAlg is handed to SetSignature, see [req_hash]);
      - SignBPM(signAlgo, hashAlgo, key), BG 1.0: only the scheme name is parsed,
        hashAlgo is never looked at (any string will do);
      - SignBPM, CBnT: both names are parsed (scheme first), an unknown name is an
        error; the parsed hash algorithm is handed to SetSignature AS IT IS --
        in particular AlgNull / AlgUnknown stay null, so that fiano stores the
        digest the scheme really used ([stored_hash]).
      [Err 2] = a name was not known. *)
  Definition sign_entry (g : gen) (d : doc) (m : M E) (sname hname : bytes) (sk : SK E) : outcome bytes :=
    match parse_alg g sname with
    | None => Err 2
    | Some sch =>
        match g, d with
        | V20, BPM =>
            match parse_alg V20 hname with
            | None => Err 2
            | Some req => sign_manifest V20 BPM m sch req sk
            end
        | _, _ => sign_manifest g d m sch 0 sk
        end
    end.

  (** The message VerifyKM/VerifyBPM check: a prefix of the RE-SERIALISATION of the parsed structure. *)
  Definition verified_message (g : gen) (d : doc) (m : M E) : bytes :=
    firstn (verify_cut g d m) (ser E m).

  Definition verify_manifest (g : gen) (d : doc) (m : M E) : bool :=
    verify_raw E g (key_of E m) (sig_of E m) (verified_message g d m).

  (** VerifyKM / VerifyBPM on a BootGuard value: the [default:] branch logs and returns nil. *)
  Definition verify_struct (version : Z) (d : doc) (m : M E) : outcome unit :=
    match gen_of_version version with
    | None => Ok tt
    | Some g => if verify_manifest g d m then Ok tt else Err 3
    end.

  (** NewKM/NewBPM followed by VerifyKM/VerifyBPM (bg-prov km-verify / bpm-verify, bg-suite). *)
  Definition verify_file (d : doc) (file : bytes) : outcome unit :=
    match detect file with
    | None => Err 1
    | Some g =>
        match parse E g d file with
        | None => Err 2
        | Some m => if verify_manifest g d m then Ok tt else Err 3
        end
    end.
End Glue.

(** * KM / BPM key binding *)

Definition bytes_eqb (a b : bytes) : bool := zlist_eqb a b.

Section Binding.
  Variable H : Z -> bytes -> bytes.     (* digest of [alg] over a message *)

  (** Digest sizes of the algorithms Algorithm.Hash() knows. *)
  Definition bg_hash_size (alg : Z) : option nat :=
    if alg =? AlgSHA1 then Some 20%nat else if alg =? AlgSHA256 then Some 32%nat else None.
  Definition cbnt_hash_size (alg : Z) : option nat :=
    if alg =? AlgSHA1 then Some 20%nat
    else if alg =? AlgSHA256 then Some 32%nat
    else if alg =? AlgSHA384 then Some 48%nat
    else if alg =? AlgSHA512 then Some 64%nat
    else if alg =? AlgSM3 then Some 32%nat
    else None.

  (** One hash check of ValidateBPMKey (both packages): supported algorithm,
      buffer length = digest size, RSA key, H alg (Key.Data[4:]) = buffer.
      [Key.Data[4:]] panics when the key data is shorter than 4 bytes. *)
  Definition check_key_hash (size : Z -> option nat) (alg : Z) (buf : bytes)
             (keyalg : Z) (keydata : bytes) : outcome unit :=
    match size alg with
    | None => Err 1
    | Some n =>
        if negb (length buf =? n)%nat then Err 2
        else if negb (keyalg =? AlgRSA) then Err 3
        else if (length keydata <? 4)%nat then Panic
        else if bytes_eqb buf (H alg (skipn 4 keydata)) then Ok tt else Err 4
    end.

  (** ** BG 1.0: KM.BPKey is one HashStructure *)
  Definition minHashTypeSize : nat := 32.
  (** HashBufferTotalSize() = 2 (size field) + len(HashBuffer). *)
  Definition bg_has_hash (buf : bytes) : bool := (minHashTypeSize <? 2 + length buf)%nat.

  (** KMHasBPMHash: (true,nil) or (false, error). *)
  Definition bg_km_has_bpm_hash (buf : bytes) : outcome bool :=
    if bg_has_hash buf then Ok true else Err 1.

  (** BPMKeyMatchKMHash: [Err 1] = "couldn't verify bpm hash in km", [Err 2] =
      "couldn't find BPM hash in KM" (nothing was compared; before the repair
      24a2a40 this case returned (true, nil)). *)
  Definition bg_key_match (alg : Z) (buf : bytes) (keyalg : Z) (keydata : bytes) : outcome bool :=
    if bg_has_hash buf then
      match check_key_hash bg_hash_size alg buf keyalg keydata with
      | Ok _ => Ok true
      | Err _ => Err 1
      | Panic => Panic
      | OutOfFuel => OutOfFuel
      end
    else Err 2.

  (** ** CBnT: KM.Hash is a list of (usage bitmask, algorithm, buffer) *)
  Record kmhash := mk_kmhash { kh_usage : Z; kh_alg : Z; kh_buf : bytes }.

  Definition UsageBPMSigningPKD : Z := 1.

  (** cbntkey.Manifest.ValidateBPMKey: EVERY entry whose usage has bit 0 set must
      match; at least one such entry must exist. *)
  Fixpoint cbnt_validate_from (hs : list kmhash) (keyalg : Z) (keydata : bytes) (count : nat) : outcome unit :=
    match hs with
    | [] => if (count =? 0)%nat then Err 5 else Ok tt
    | h :: t =>
        if Z.odd (kh_usage h) then
          match check_key_hash cbnt_hash_size (kh_alg h) (kh_buf h) keyalg keydata with
          | Ok _ => cbnt_validate_from t keyalg keydata (S count)
          | o => o
          end
        else cbnt_validate_from t keyalg keydata count
    end.
  Definition cbnt_validate (hs : list kmhash) (keyalg : Z) (keydata : bytes) : outcome unit :=
    cbnt_validate_from hs keyalg keydata 0.

  (** KMHasBPMHash: an entry with [Usage.IsSet(UsageBPMSigningPKD)], i.e. bit 0 set
      (it was [Usage == UsageBPMSigningPKD] before 24a2a40). *)
  Definition cbnt_has_hash (hs : list kmhash) : bool :=
    existsb (fun h => Z.odd (kh_usage h)) hs.
  Definition cbnt_km_has_bpm_hash (hs : list kmhash) : outcome bool :=
    if cbnt_has_hash hs then Ok true else Err 1.

  (** BPMKeyMatchKMHash: for each entry whose usage has bit 0 set run ValidateBPMKey
      (on the whole list); [compared] = bpmHashCompared: when no entry was looked at,
      the result is the error "couldn't find BPM hash in KM" ([Err 2]). *)
  Fixpoint cbnt_key_match_loop (l all : list kmhash) (keyalg : Z) (keydata : bytes) (compared : bool) : outcome bool :=
    match l with
    | [] => if compared then Ok true else Err 2
    | h :: t =>
        if Z.odd (kh_usage h) then
          match cbnt_validate all keyalg keydata with
          | Ok _ => cbnt_key_match_loop t all keyalg keydata true
          | Err _ => Err 1
          | Panic => Panic
          | OutOfFuel => OutOfFuel
          end
        else cbnt_key_match_loop t all keyalg keydata compared
    end.
  Definition cbnt_key_match (hs : list kmhash) (keyalg : Z) (keydata : bytes) : outcome bool :=
    cbnt_key_match_loop hs hs keyalg keydata false.

  (** The binding check as bg-suite performs it: KM test requires KMHasBPMHash,
      BPM test requires BPMKeyMatchKMHash. *)
  Definition is_ok_true (o : outcome bool) : bool :=
    match o with Ok true => true | _ => false end.
  Definition bg_binding_ok (alg : Z) (buf : bytes) (keyalg : Z) (keydata : bytes) : bool :=
    is_ok_true (bg_km_has_bpm_hash buf) && is_ok_true (bg_key_match alg buf keyalg keydata).
  Definition cbnt_binding_ok (hs : list kmhash) (keyalg : Z) (keydata : bytes) : bool :=
    is_ok_true (cbnt_km_has_bpm_hash hs) && is_ok_true (cbnt_key_match hs keyalg keydata).

  (** ** GetBPMPubHash and the life of a key manifest OBJECT

      What a KM object holds about the BPM key: BG 1.0 one HashStructure
      (BGkm.BPKey), CBnT the list CBNTkm.Hash. *)
  Inductive kmstate :=
  | KmBG (alg : Z) (buf : bytes)
  | KmCBNT (hs : list kmhash).

  (** The digest GetBPMPubHash computes: [hashAlg.Hash()] must exist for the parsed
      algorithm ([req = None]: GetAlgFromString did not know the name), the message
      is [kAs.Data[4:]] (the modulus; the slice panics on fewer than 4 bytes). *)
  Definition place_digest (size : Z -> option nat) (req : option Z) (kd : bytes) : outcome (Z * bytes) :=
    match req with
    | None => Err 2
    | Some alg =>
        match size alg with
        | None => Err 3
        | Some _ => if (length kd <? 4)%nat then Panic else Ok (alg, H alg (skipn 4 kd))
        end
    end.

  (** GetBPMPubHash on a KM object in state [st].  [keyok]: cbnt.Key.SetPubKey
      accepted the public key.  On success the state is REPLACED: BG 1.0
      [BPKey = {alg, digest}]; CBnT [Hash = append(nil, {UsageBPMSigningPKD, alg,
      digest})] -- the whole list, whatever it held before (stale BPM digests of
      an earlier call AND entries of other usages are dropped).  On an error the
      object is untouched. *)
  Definition km_place (st : kmstate) (keyok : bool) (req : option Z) (kd : bytes) : outcome unit * kmstate :=
    if negb keyok then (Err 1, st)
    else
      let size := match st with KmBG _ _ => bg_hash_size | KmCBNT _ => cbnt_hash_size end in
      match place_digest size req kd with
      | Ok (alg, d) =>
          (Ok tt, match st with
                  | KmBG _ _ => KmBG alg d
                  | KmCBNT _ => KmCBNT [mk_kmhash UsageBPMSigningPKD alg d]
                  end)
      | Err c => (Err c, st)
      | Panic => (Panic, st)
      | OutOfFuel => (OutOfFuel, st)
      end.

  (** One step in the life of a KM object: a GetBPMPubHash call, or any of the
      operations that do not concern the BPM-key hash (SignKM, WriteKM followed
      by NewKM on the written file, VerifyKM, a change of SVN/ID): those leave
      BPKey / Hash as they are.  (For SignKM and the file round trip that is a
      fact about fiano's store/codec, checked by the correspondence run.) *)
  Inductive kmstep :=
  | SPlace (keyok : bool) (req : option Z) (kd : bytes)
  | SKeep.

  Definition km_step (st : kmstate) (s : kmstep) : kmstate :=
    match s with
    | SPlace keyok req kd => snd (km_place st keyok req kd)
    | SKeep => st
    end.
  Definition km_step_outcome (st : kmstate) (s : kmstep) : outcome unit :=
    match s with
    | SPlace keyok req kd => fst (km_place st keyok req kd)
    | SKeep => Ok tt
    end.
  Definition km_run (st : kmstate) (steps : list kmstep) : kmstate := fold_left km_step steps st.

  (** The binding check on a KM state. *)
  Definition km_binding_ok (st : kmstate) (keyalg : Z) (keydata : bytes) : bool :=
    match st with
    | KmBG alg buf => bg_binding_ok alg buf keyalg keydata
    | KmCBNT hs => cbnt_binding_ok hs keyalg keydata
    end.

  (** The last GetBPMPubHash call of a history that succeeded: (algorithm, key data). *)
  Definition step_places (st : kmstate) (s : kmstep) : option (Z * bytes) :=
    match s with
    | SPlace keyok (Some alg) kd =>
        match fst (km_place st keyok (Some alg) kd) with Ok _ => Some (alg, kd) | _ => None end
    | _ => None
    end.
  Fixpoint last_placed (st : kmstate) (steps : list kmstep) (acc : option (Z * bytes)) : option (Z * bytes) :=
    match steps with
    | [] => acc
    | s :: t =>
        last_placed (km_step st s) t (match step_places st s with Some p => Some p | None => acc end)
    end.
End Binding.

(** * Private key wrapping (keygen.go) *)

Record kenv := {
  KSK : Type;                                        (* crypto.Signer *)
  Hpw : bytes -> bytes;                              (* SHA-256 of the password bytes = AES-256 key *)
  seal : bytes -> bytes -> bytes -> bytes;           (* gcm.Seal key nonce plaintext (without the nonce prefix) *)
  open : bytes -> bytes -> bytes -> option bytes;    (* gcm.Open key nonce ciphertext *)
  parse_key : bytes -> option KSK                    (* parsePrivateKey: PEM blocks, PKCS#8 then PKCS#1 *)
}.

Definition nonce_size : nat := 12.

Definition is_empty (b : bytes) : bool := match b with [] => true | _ => false end.

Section Wrap.
  Variable K : kenv.

  (** writePrivKeyToFile: an empty password writes the PEM in the clear;
      otherwise [gcm.Seal(nonce, nonce, pem, nil)] = nonce ++ ciphertext. *)
  Definition encrypt_priv (pw nonce pem : bytes) : bytes :=
    if is_empty pw then pem else nonce ++ seal K (Hpw K pw) nonce pem.

  (** DecryptPrivKey.  With a password, fewer than 12 bytes (the GCM nonce) are
      the error "encrypted key is too short" ([Err 3]; the slice [data[:12]]
      panicked before the repair 4423a4c). *)
  Definition decrypt_priv (data pw : bytes) : outcome (KSK K) :=
    let finish (plain : bytes) :=
      match parse_key K plain with Some k => Ok k | None => Err 2 end in
    if is_empty pw then finish data
    else if (length data <? nonce_size)%nat then Err 3
    else match open K (Hpw K pw) (firstn nonce_size data) (skipn nonce_size data) with
         | None => Err 1
         | Some plain => finish plain
         end.
End Wrap.
