(** The two ends of pcrbruteforcer.ReproduceExpectedPCR0 that work on the
    caller's tpm.CommandLog (property C03):

    - [filter_log]: filteredMeasurements
      (pkg/bootflow/subsystems/trustchains/tpm/pcrbruteforcer/reproduce_expected_pcr0.go),
      the PCR0 extends of the requested bank, with their positions in the
      command log (the Go value holds pointers into the caller's slice);
    - [tool_verdict]: printReproducePCR0Result
      (cmd/exp/pcr0tool/commands/sum/command.go), the only consumer of a
      ReproducePCR0Result in the repository: it applies the result to the
      command log (corrected ACM_POLICY_STATUS, order swaps, disabled
      measurements), replays the amended log on a fresh TPM and prints either
      "Resulting PCR0: ..." or "internal error: replayed PCR0 does not match
      the expected one; the information above could not be trusted".

    Executable definitions only; proofs in Proofs/PCR0Tool.v.  Hashing is
    abstract exactly as in Model/PCR0Search.v ([pcr_init], [extend], [deqb]). *)
From CSS Require Import Lib.Base Model.PCR0Search.

Section Tool.
  Variable D : Type.
  Variable deqb : D -> D -> bool.
  Variable pcr_init : Z -> D.
  Variable extend : D -> D -> D.

  (** an entry of the tpm.CommandLog, as far as the two functions look at it *)
  Inductive lcmd : Type :=
  | LInit (loc : Z)                       (* *tpm.CommandInit *)
  | LExt (pcr alg : Z) (m : meas D)       (* *tpm.CommandExtend *)
  | LLog.                                 (* *tpm.CommandEventLogAdd *)

  (** [filteredMeasurements]: CommandExtend on PCR0 in the requested bank; with
      the position of every kept entry in the command log *)
  Fixpoint filter_log (alg : Z) (i : nat) (l : list lcmd) : list (nat * meas D) :=
    match l with
    | [] => []
    | LExt p a m :: t =>
        if (p =? 0) && (a =? alg) then (i, m) :: filter_log alg (S i) t
        else filter_log alg (S i) t
    | _ :: t => filter_log alg (S i) t
    end.

  (** ** printReproducePCR0Result (as repaired by /repo 00d338a and 84ad407) *)

  Variable pcr0data : Z -> Z -> D.

  (** the loop that builds [resultEntries] (pointers into the command log; the
      model keeps the position with the entry): an entry is kept unless it is a
      CommandEventLogAdd, a CommandInit that is not the very first entry or has
      another locality than the reported one, a CommandExtend on another PCR or
      bank.  The disabled measurements are still among the entries. *)
  Definition tool_keeps (alg loc : Z) (i : nat) (c : lcmd) : bool :=
    match c with
    | LLog => false
    | LInit l => Nat.eqb i 0 && (l =? loc)
    | LExt p a _ => (p =? 0) && (a =? alg)
    end.

  Fixpoint tool_entries (alg loc : Z) (i : nat) (l : list lcmd) : list (nat * lcmd) :=
    match l with
    | [] => []
    | c :: t => if tool_keeps alg loc i c then (i, c) :: tool_entries alg loc (S i) t
                else tool_entries alg loc (S i) t
    end.

  Definition is_linit (c : lcmd) : bool := match c with LInit _ => true | _ => false end.

  (** [if result.ACMPolicyStatus != nil]: the first entry that is not disabled
      ([dis]: positions in the command log of the DisabledMeasurements; the Go
      code finds them by address) and is not the TPMInit entry is replaced by a
      fresh entry -- same position, i.e. enabled like the one it replaces --
      whose digest is the hash of the PCR0_DATA bytes of its cause with the
      register [v] in the first 8 bytes.  [None]: the entry is not a measurement
      of such data ("unable to apply the corrected ACM_POLICY_STATUS", logged; the
      function returns). *)
  Fixpoint tool_correct (alg : Z) (dis : list nat) (v : Z) (es : list (nat * lcmd))
    : option (list (nat * lcmd)) :=
    match es with
    | [] => Some []
    | (i, c) :: t =>
        if mem_nat i dis || is_linit c then
          match tool_correct alg dis v t with
          | Some t' => Some ((i, c) :: t')
          | None => None
          end
        else
          match c with
          | LExt _ _ m =>
              match m_data m with
              | Some (tail, _) => Some ((i, LExt 0 alg (mkMeas (pcr0data tail v) (m_data m))) :: t)
              | None => None
              end
          | _ => None
          end
    end.

  (** [s[a], s[b] = s[b], s[a]] on a Go slice: an index out of range panics *)
  Definition swap_strict {A} (a b : nat) (l : list A) : option (list A) :=
    match nth_error l a, nth_error l b with
    | Some x, Some y => Some (set_nth a y (set_nth b x l))
    | _, _ => None
    end.

  (** ApplyOrderSwaps *)
  Fixpoint apply_swaps_strict {A} (s : swaps) (l : list A) : option (list A) :=
    match s with
    | [] => Some l
    | p :: t => match swap_strict (fst p) (snd p) l with
                | Some l' => apply_swaps_strict t l'
                | None => None
                end
    end.

  (** [resultCommandLog.Commands().Apply(ctx, dummyTPM)] with the error dropped:
      the commands are applied in order until one fails; a CommandInit fails on
      an initialised TPM ("TPM is already initialized"), a CommandExtend fails on
      a TPM without PCR values.  [st]: PCR0 of the bank, [None] before TPMInit. *)
  Fixpoint tool_run (cs : list lcmd) (st : option D) : option D :=
    match cs with
    | [] => st
    | LInit l :: t => match st with
                      | None => tool_run t (Some (pcr_init l))
                      | Some _ => st
                      end
    | LExt _ _ m :: t => match st with
                         | Some p => tool_run t (Some (extend p (m_dig m)))
                         | None => st
                         end
    | LLog :: t => tool_run t st
    end.

  Inductive tverdict : Type :=
  | TVOk          (* "Resulting PCR0: <the expected value>" *)
  | TVMismatch    (* "internal error: replayed PCR0 does not match the expected one ..." *)
  | TVSilent      (* neither line: an error is logged and the function returns *)
  | TVPanic.      (* ApplyOrderSwaps: index out of range *)

  (** the whole function: entries; corrected PCR0_DATA; the swaps, applied to the
      entries behind the log's own TPMInit (if that is kept, it is element 0);
      the disabled entries dropped; TPMInit(reported locality) executed first
      unless the log's own is among the entries; replay; comparison *)
  Definition tool_verdict (alg : Z) (cmds : list lcmd) (target : D)
             (loc : Z) (reg : option Z) (dis : list nat) (sw : swaps) : tverdict :=
    let es := tool_entries alg loc 0 cmds in
    let has_init := existsb (fun e => is_linit (snd e)) es in
    match (match reg with Some v => tool_correct alg dis v es | None => Some es end) with
    | None => TVSilent
    | Some es1 =>
        let swapped :=
          if has_init then
            match es1 with
            | h :: t => match apply_swaps_strict sw t with Some t' => Some (h :: t') | None => None end
            | [] => Some []
            end
          else apply_swaps_strict sw es1 in
        match swapped with
        | None => TVPanic
        | Some es2 =>
            let l := map snd (filter (fun e => negb (mem_nat (fst e) dis)) es2) in
            match tool_run l (if has_init then None else Some (pcr_init loc)) with
            | None => TVSilent
            | Some p => if deqb p target then TVOk else TVMismatch
            end
        end
    end.

End Tool.

Arguments LInit {D} loc.
Arguments LExt {D} pcr alg m.
Arguments LLog {D}.
