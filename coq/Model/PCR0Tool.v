(** The two ends of pcrbruteforcer.ReproduceExpectedPCR0 that work on the
    caller's tpm.CommandLog (property C03):

    - [filter_log]: filteredMeasurements
      (pkg/bootflow/subsystems/trustchains/tpm/pcrbruteforcer/reproduce_expected_pcr0.go),
      the PCR0 extends of the requested bank, with their positions in the
      command log (the Go value holds pointers into the caller's slice);
    - [tool_verdict]: printReproducePCR0Result
      (cmd/exp/pcr0tool/commands/sum/command.go), the only consumer of a
      ReproducePCR0Result in the repository: it applies the result to the
      command log, replays the amended log on a fresh TPM and prints either
      "Resulting PCR0: ..." or "internal error: replayed PCR0 does not match
      the expected one; the information above could not be trusted".

    Executable definitions only; proofs in Proofs/PCR0Tool.v.  Hashing is
    abstract exactly as in Model/PCR0Search.v ([pcr_init], [extend], [deqb]). *)
From CSS Require Import Lib.Base Model.PCR0Search.

Section Tool.
  Variable D : Type.
  Variable deqb : D -> D -> bool.
  Variable pcr_init : Z -> D.
  Variable extend : D -> D -> D.

  (** an entry of the tpm.CommandLog, as far as the two functions look at it *)
  Inductive lcmd : Type :=
  | LInit (loc : Z)                       (* *tpm.CommandInit *)
  | LExt (pcr alg : Z) (m : meas D)       (* *tpm.CommandExtend *)
  | LLog.                                 (* *tpm.CommandEventLogAdd *)

  (** [filteredMeasurements]: CommandExtend on PCR0 in the requested bank; with
      the position of every kept entry in the command log *)
  Fixpoint filter_log (alg : Z) (i : nat) (l : list lcmd) : list (nat * meas D) :=
    match l with
    | [] => []
    | LExt p a m :: t =>
        if (p =? 0) && (a =? alg) then (i, m) :: filter_log alg (S i) t
        else filter_log alg (S i) t
    | _ :: t => filter_log alg (S i) t
    end.

  (** ** printReproducePCR0Result *)

  (** the loop that builds [resultCommandLog]: an entry is kept unless it is one
      of the DisabledMeasurements ([dis]: their positions in the command log; the
      Go code finds them by address), a CommandEventLogAdd, a CommandInit that is
      not the very first entry or has another locality than the reported one, a
      CommandExtend on another PCR or bank *)
  Definition tool_keeps (alg loc : Z) (dis : list nat) (i : nat) (c : lcmd) : bool :=
    negb (mem_nat i dis) &&
    match c with
    | LLog => false
    | LInit l => Nat.eqb i 0 && (l =? loc)
    | LExt p a _ => (p =? 0) && (a =? alg)
    end.

  Fixpoint tool_kept (alg loc : Z) (dis : list nat) (i : nat) (l : list lcmd) : list lcmd :=
    match l with
    | [] => []
    | c :: t => if tool_keeps alg loc dis i c then c :: tool_kept alg loc dis (S i) t
                else tool_kept alg loc dis (S i) t
    end.

  Definition is_linit (c : lcmd) : bool := match c with LInit _ => true | _ => false end.

  (** [s[a], s[b] = s[b], s[a]] on a Go slice: an index out of range panics *)
  Definition swap_strict {A} (a b : nat) (l : list A) : option (list A) :=
    match nth_error l a, nth_error l b with
    | Some x, Some y => Some (set_nth a y (set_nth b x l))
    | _, _ => None
    end.

  (** ApplyOrderSwaps *)
  Fixpoint apply_swaps_strict {A} (s : swaps) (l : list A) : option (list A) :=
    match s with
    | [] => Some l
    | p :: t => match swap_strict (fst p) (snd p) l with
                | Some l' => apply_swaps_strict t l'
                | None => None
                end
    end.

  (** [resultCommandLog.Commands().Apply(ctx, dummyTPM)] with the error dropped:
      the commands are applied in order until one fails; a CommandInit fails on
      an initialised TPM ("TPM is already initialized"), a CommandExtend fails on
      a TPM without PCR values.  [st]: PCR0 of the bank, [None] before TPMInit. *)
  Fixpoint tool_run (cs : list lcmd) (st : option D) : option D :=
    match cs with
    | [] => st
    | LInit l :: t => match st with
                      | None => tool_run t (Some (pcr_init l))
                      | Some _ => st
                      end
    | LExt _ _ m :: t => match st with
                         | Some p => tool_run t (Some (extend p (m_dig m)))
                         | None => st
                         end
    | LLog :: t => tool_run t st
    end.

  Inductive tverdict : Type :=
  | TVOk          (* "Resulting PCR0: <the expected value>" *)
  | TVMismatch    (* "internal error: replayed PCR0 does not match the expected one ..." *)
  | TVSilent      (* neither line: dummyTPM.PCRValues.Get failed, the error is logged *)
  | TVPanic.      (* ApplyOrderSwaps: index out of range *)

  (** the whole function: the register of the result is only printed, never
      applied; the swaps are applied to the kept entries (the TPMInit entry, if
      kept, is one of them); TPMInit(reported locality) is executed first unless
      the kept entries hold the log's own TPMInit *)
  Definition tool_verdict (alg : Z) (cmds : list lcmd) (target : D)
             (loc : Z) (dis : list nat) (sw : swaps) : tverdict :=
    let kept := tool_kept alg loc dis 0 cmds in
    match apply_swaps_strict sw kept with
    | None => TVPanic
    | Some l =>
        match tool_run l (if existsb is_linit kept then None else Some (pcr_init loc)) with
        | None => TVSilent
        | Some p => if deqb p target then TVOk else TVMismatch
        end
    end.

End Tool.

Arguments LInit {D} loc.
Arguments LExt {D} pcr alg m.
Arguments LLog {D}.
