(** Pool-level model of pkg/bootflow/subsystems/trustchains/tpm (pools.go,
    command_extend.go): SEVERAL TPM objects, each driven strictly sequentially
    by its own goroutine, share the package-global [hasherPools].

    The value model (Model/TPM.v) treats an extend as one atomic step
    [bank := H alg (old ++ digest)].  Here the same command is cut at every point
    where the pooled hasher is touched, and the digest that is stored is the
    hash of *what the hasher holds* at the time of [Sum], so that interference
    through a hasher shared by two objects is expressible:

      S1  TPMExecute appends the command to CommandLog; acquireHasher
          (pool.Get, or a new hasher when the pool gives nothing);
          PCRValues.Get (failure: straight to the deferred release)
      S2  hasher.Write(old value)
      S3  hasher.Write(digest)
      S4  length check, hasher.Sum into the bank
      S5  releaseHasher, first statement   (code as it is: Hash.Reset)
      S6  releaseHasher, second statement  (code as it is: pool.Put); return

    A schedule is a list of (object index, what the pool handed out); any
    interleaving of the micro-steps of different objects is a schedule.
    [reset_first] is the order of the two statements of releaseHasher:
    [true] is the code as it is, [false] is the swapped order (used only by the
    theorem which shows that the order matters).

    Executable definitions only; proofs live in Proofs/TPMPool.v. *)
From CSS Require Import Lib.Base Model.TPM.

(** a hasher: its algorithm and the bytes written since the last Reset *)
Record hasher : Type := mkHs { h_alg : Z; h_buf : list Z }.

Inductive phase : Type :=
| Idle                                   (* between two commands *)
| Got (hid : nat)                        (* after S1, bank exists *)
| WOld (hid : nat)                       (* after S2 *)
| WDig (hid : nat)                       (* after S3 *)
| Fin (hid : nat) (r : outcome unit)     (* Apply returned r, release pending *)
| Rel (hid : nat) (r : outcome unit).    (* first statement of releaseHasher done *)

(** one TPM object with the goroutine that drives it: [a_todo] are the commands
    still to run (the head is the one in flight unless the phase is [Idle]),
    [a_res] the results returned so far *)
Record actor : Type := mkActor {
  a_obj : state; a_todo : list cmd; a_res : list (outcome unit); a_ph : phase }.

(** hashers are numbered in the order of creation; [w_next] is the next number,
    [w_pool] the hashers lying in the pool (of any algorithm: hasherPools[alg]
    is the sub-list with [h_alg = alg]) *)
Record world : Type := mkWorld {
  w_act : nat -> actor; w_heap : nat -> hasher; w_next : nat; w_pool : list nat }.

Definition upd {A} (f : nat -> A) (i : nat) (x : A) : nat -> A :=
  fun j => if Nat.eqb j i then x else f j.

Fixpoint memn (x : nat) (l : list nat) : bool :=
  match l with [] => false | y :: t => Nat.eqb x y || memn x t end.

(** remove the first occurrence *)
Fixpoint rmn (x : nat) (l : list nat) : list nat :=
  match l with [] => [] | y :: t => if Nat.eqb x y then t else y :: rmn x t end.

(** what pool.Get did in S1: the command does not reach acquireHasher's pool
    ([PNone]); the pool gave nothing and a hasher was created ([PFresh] --
    sync.Pool may do that even when it is not empty); the pool handed out hasher
    [hid] ([PPooled]) *)
Inductive pick : Type := PNone | PFresh | PPooled (hid : nat).

(** does the command get as far as a hasher?  (index in range of hasherPools and
    [tpm2.Algorithm.Hash] accepts the algorithm) *)
Definition acquires (c : cmd) : bool :=
  match c with
  | Extend _ a _ => (0 <=? a) && (a <? POOL_SIZE) && is_hash a
  | _ => false
  end.

Definition set_act (w : world) (i : nat) (a : actor) : world :=
  mkWorld (upd (w_act w) i a) (w_heap w) (w_next w) (w_pool w).

Definition set_buf (w : world) (hid : nat) (b : list Z) : world :=
  mkWorld (w_act w) (upd (w_heap w) hid (mkHs (h_alg (w_heap w hid)) b)) (w_next w) (w_pool w).

Definition put (w : world) (hid : nat) : world :=
  mkWorld (w_act w) (w_heap w) (w_next w) (hid :: w_pool w).

(** acquireHasher *)
Definition acquire (w : world) (alg : Z) (pk : pick) : option (nat * world) :=
  match pk with
  | PNone => None
  | PFresh =>
      Some (w_next w,
            mkWorld (w_act w) (upd (w_heap w) (w_next w) (mkHs alg [])) (S (w_next w)) (w_pool w))
  | PPooled hid =>
      if memn hid (w_pool w) && (h_alg (w_heap w hid) =? alg)
      then Some (hid, mkWorld (w_act w) (w_heap w) (w_next w) (rmn hid (w_pool w)))
      else None
  end.

Section WithHash.
Variable H : Z -> list Z -> list Z.
Variable reset_first : bool.

(** one micro-step of object [i]; [None]: the schedule asks for something that
    cannot happen (a pick that does not fit the command or the pool) *)
Definition mstep (w : world) (i : nat) (pk : pick) : option world :=
  let a := w_act w i in
  match a_ph a, a_todo a with
  | Idle, c :: t =>
      if acquires c then
        match c with
        | Extend p al d =>
            match acquire w al pk with
            | None => None
            | Some (hid, w1) =>
                let obj := log_cmd (a_obj a) c in
                let ph := match get (pcrs obj) p al with
                          | Ok _ => Got hid
                          | Err e => Fin hid (Err e)
                          | Panic => Fin hid Panic
                          | OutOfFuel => Fin hid OutOfFuel
                          end in
                Some (set_act w1 i (mkActor obj (c :: t) (a_res a) ph))
            end
        | _ => None
        end
      else
        match pk with
        | PNone =>
            let '(obj, r) := step H (a_obj a) c in
            Some (set_act w i (mkActor obj t (a_res a ++ [r]) Idle))
        | _ => None
        end
  | Got hid, Extend p al d :: _ =>
      match get (pcrs (a_obj a)) p al with
      | Ok old =>
          Some (set_act (set_buf w hid (h_buf (w_heap w hid) ++ old)) i
                        (mkActor (a_obj a) (a_todo a) (a_res a) (WOld hid)))
      | _ => None
      end
  | WOld hid, Extend p al d :: _ =>
      Some (set_act (set_buf w hid (h_buf (w_heap w hid) ++ d)) i
                    (mkActor (a_obj a) (a_todo a) (a_res a) (WDig hid)))
  | WDig hid, Extend p al d :: _ =>
      match get (pcrs (a_obj a)) p al with
      | Ok old =>
          if Nat.eqb (length old) (hsize al)
          then
            let obj := set_pcrs (a_obj a) (set_bank (pcrs (a_obj a)) p al (H al (h_buf (w_heap w hid)))) in
            Some (set_act w i (mkActor obj (a_todo a) (a_res a) (Fin hid (Ok tt))))
          else Some (set_act w i (mkActor (a_obj a) (a_todo a) (a_res a) (Fin hid (Err ERR_BANK_LEN))))
      | _ => None
      end
  | Fin hid r, _ :: _ =>
      let w1 := if reset_first then set_buf w hid [] else put w hid in
      Some (set_act w1 i (mkActor (a_obj a) (a_todo a) (a_res a) (Rel hid r)))
  | Rel hid r, _ :: t =>
      let w1 := if reset_first then put w hid else set_buf w hid [] in
      Some (set_act w1 i (mkActor (a_obj a) t (a_res a ++ [r]) Idle))
  | _, _ => None
  end.

Fixpoint mrun (w : world) (sched : list (nat * pick)) : option world :=
  match sched with
  | [] => Some w
  | (i, pk) :: t =>
      match mstep w i pk with
      | Some w1 => mrun w1 t
      | None => None
      end
  end.

End WithHash.

(** * Traces

    What the harness sees of a run: the hasher operations of all objects in the
    order in which they happened.  [EStart]: object [i] begins its next command
    (S1, or the whole command when it does not get as far as a hasher);
    [EWrite] / [ESum] / [EReset]: a Write / Sum / Reset of the hasher it holds was
    executed; [EEnd]: the command returned (the Put lies between the Reset and
    the return). *)
Inductive tev : Type :=
| EStart (i : nat) (pk : pick)
| EWrite (i : nat)
| ESum (i : nat)
| EReset (i : nat)
| EEnd (i : nat).

Definition ev_actor (e : tev) : nat :=
  match e with EStart i _ | EWrite i | ESum i | EReset i | EEnd i => i end.

Definition ev_pick (e : tev) : pick :=
  match e with EStart _ pk => pk | _ => PNone end.

(** the operation the code as it is performs next in each phase *)
Definition tag_ok (ph : phase) (e : tev) : bool :=
  match ph, e with
  | Idle, EStart _ _ => true
  | Got _, EWrite _ => true
  | WOld _, EWrite _ => true
  | WDig _, ESum _ => true
  | Fin _ _, EReset _ => true
  | Rel _ _, EEnd _ => true
  | _, _ => false
  end.

(** replay of a trace on the model of the code as it is; [None]: the trace is
    not one of the model's *)
Fixpoint replay (H : Z -> list Z -> list Z) (w : world) (tr : list tev) : option world :=
  match tr with
  | [] => Some w
  | e :: t =>
      if tag_ok (a_ph (w_act w (ev_actor e))) e
      then match mstep H true w (ev_actor e) (ev_pick e) with
           | Some w1 => replay H w1 t
           | None => None
           end
      else None
  end.

(** * Initial worlds *)

Definition idle_actor (obj : state) (h : list cmd) : actor := mkActor obj h [] Idle.

(** [acts]: the objects with their histories (every other index is an object
    with nothing to do); [hs]: the hashers that exist already, all of them lying
    in the pool *)
Definition init_world (acts : list actor) (hs : list hasher) : world :=
  mkWorld (fun i => nth i acts (idle_actor fresh []))
          (fun i => nth i hs (mkHs 0 []))
          (length hs) (seq 0 (length hs)).

(** every pooled hasher is in the reset state *)
Definition pool_reset (hs : list hasher) : bool :=
  forallb (fun h => match h_buf h with [] => true | _ => false end) hs.
