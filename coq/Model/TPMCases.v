(** Case language of the C02 correspondence check.  The Go harness
    (harness/cmd/c02) drives ONE TPM object through a history (several
    sub-histories separated by Reset / DoNotUse_ResetNoInit) and records after
    EVERY command what the implementation shows; [check] replays the history
    on the model and compares step by step.  In a [CConc] case several objects
    are driven at the same time (one goroutine each) and share the pool of
    hashers; the recorded hasher operations are replayed on Model/TPMPool.v. *)
From Coq Require Import Strings.Byte.
From CSS Require Import Lib.Base Lib.Cases Model.TPM Model.TPMSlices Model.TPMPool Model.TPMExec.

(** * Packed byte-string literals

    Coq spends ~30us per [cons] of a list literal and ~50us per number literal,
    so the harness writes byte strings as a few wide constructors over
    [Init.Byte.byte] and [L] unpacks them to the [list Z] the model works on. *)
Inductive bs : Type :=
| BE
| B1 (a : byte) (t : bs)
| B4 (a0 a1 a2 a3 : byte) (t : bs)
| B16 (a0 a1 a2 a3 a4 a5 a6 a7 a8 a9 a10 a11 a12 a13 a14 a15 : byte) (t : bs)
| B32 (a0 a1 a2 a3 a4 a5 a6 a7 a8 a9 a10 a11 a12 a13 a14 a15
       a16 a17 a18 a19 a20 a21 a22 a23 a24 a25 a26 a27 a28 a29 a30 a31 : byte) (t : bs).

Definition zb (b : byte) : Z := Z.of_N (Byte.to_N b).

Fixpoint L (b : bs) : list Z :=
  match b with
  | BE => []
  | B1 a t => zb a :: L t
  | B4 a0 a1 a2 a3 t => zb a0 :: zb a1 :: zb a2 :: zb a3 :: L t
  | B16 a0 a1 a2 a3 a4 a5 a6 a7 a8 a9 a10 a11 a12 a13 a14 a15 t =>
      zb a0 :: zb a1 :: zb a2 :: zb a3 :: zb a4 :: zb a5 :: zb a6 :: zb a7 ::
      zb a8 :: zb a9 :: zb a10 :: zb a11 :: zb a12 :: zb a13 :: zb a14 :: zb a15 :: L t
  | B32 a0 a1 a2 a3 a4 a5 a6 a7 a8 a9 a10 a11 a12 a13 a14 a15
        a16 a17 a18 a19 a20 a21 a22 a23 a24 a25 a26 a27 a28 a29 a30 a31 t =>
      zb a0 :: zb a1 :: zb a2 :: zb a3 :: zb a4 :: zb a5 :: zb a6 :: zb a7 ::
      zb a8 :: zb a9 :: zb a10 :: zb a11 :: zb a12 :: zb a13 :: zb a14 :: zb a15 ::
      zb a16 :: zb a17 :: zb a18 :: zb a19 :: zb a20 :: zb a21 :: zb a22 :: zb a23 ::
      zb a24 :: zb a25 :: zb a26 :: zb a27 :: zb a28 :: zb a29 :: zb a30 :: zb a31 :: L t
  end.

(** * Observations *)

(** The (pcr, alg) pairs at which [PCRValues.Get] is observed after every step:
    every slot of the 2 x 12 bank matrix, then out-of-range probes. *)
Definition get_grid : list (Z * Z) :=
  flat_map (fun p => map (fun a => (p, a)) (seqZ 0 BANKS)) [0; 1]
  ++ [(2, 4); (2, 11); (255, 4); (0, 12); (1, 12); (0, 13); (0, 65535); (1, 39)].

(** What the harness saw after one command:
    [r]       error class of the call (nil / error / panic);
    [ek]      why the harness' REFERENCE TPM (written from the property text)
              cannot execute the command, computed from its state and the
              arguments only -- never from what the implementation returned, whose
              contribution is [r] (error / no error): 1 startup on a started
              TPM, 2 the identifier is not a hash algorithm, 3 TPM not started
              or no such PCR, 4 the PCR has no bank for the algorithm, 5 (after
              PCRValues.Set only) the bank does not hold a value of the
              algorithm's size; 0 when it executes the command.  These are the
              model's [ERR_*] codes: the check is that model and reference TPM
              agree on the reason;
    [dgets]   [PCRValues.Get] (error vs bytes) at every point of [get_grid] whose
              observation differs from the one after the previous command
              (index into [get_grid], new observation); the points not listed
              were observed too and showed the same as before.  Before the first
              command the baseline is a new TPM (every Get fails);
    [al]      SupportedAlgos if it differs from the previous observation
              (baseline: [4; 11]);
    [cl_len], [el_len]   len(CommandLog), len(EventLog);
    [full]    at the end of every sub-history (and at random steps): the whole
              CommandLog and EventLog, structurally (kind + arguments). *)
Inductive sobs : Type :=
| SO (r : obs unit) (ek : Z) (dgets : list (Z * obs (list Z))) (al : option (list Z))
     (cl_len el_len : Z) (full : option (list cmd * list event)).

(** What the harness saw after one operation of an API-level case: as [sobs],
    with the command log as entries (command -- nested for Commands slices --
    and cause), plus
    [rep]     at random steps: [log.Commands().Apply(ctx, NewTPM())] was run on the
              side; what it returned (class, error kind), every Get on the NEW
              object that does not fail (index into [get_grid], value), and
              len(EventLog) of the new object. *)
Inductive xsobs : Type :=
| XSO (r : obs unit) (ek : Z) (dgets : list (Z * obs (list Z))) (al : option (list Z))
      (cl_len el_len : Z) (full : option (list entry * list event))
      (rep : option (obs unit * Z * list (Z * obs (list Z)) * Z)).

(** Either the object came from NewTPM(), or it is an object already used by
    earlier cases and the history starts with Reset/ResetNoInit -- whose effect
    does not depend on the state, so the model may start from [fresh] as well. *)
Inductive case : Type :=
| CHist (tbl : hash_table) (steps : list (cmd * sobs))
(** Several TPM objects driven at the same time, each by its own goroutine, all
    of them sharing the pool of hashers.  [objs]: per object its history with
    what the driving goroutine saw after every command (as in [CHist]).
    [hs]: the hashers handed out by the pool that existed before the case
    (algorithm, bytes written into them since their last Reset, as counted by
    the instrumented hash).  [trace]: for a run under the harness' deterministic
    scheduler, the hasher operations of all objects in the order in which they
    happened; [None] for a run with really parallel goroutines. *)
| CConc (tbl : hash_table) (hs : list (Z * list Z)) (objs : list (list (cmd * sobs)))
        (trace : option (list tev))
(** ONE object driven through the API level (Model/TPMExec.v): TPMExecute with
    single commands and Commands slices, with and without a cause, direct Apply,
    PCRValues.Set, Reset / ResetNoInit.  [zero]: the object was created as the
    zero value [&tpm.TPM{}] instead of NewTPM() (an object reused from earlier
    cases starts with a reset, so that [zero = false] fits it as well). *)
| CExec (tbl : hash_table) (zero : bool) (xsteps : list (op * xsobs)).

Definition unit_eqb (_ _ : unit) : bool := true.

Definition opt_eqb {A} (eqb : A -> A -> bool) (a b : option A) : bool :=
  match a, b with
  | None, None => true
  | Some x, Some y => eqb x y
  | _, _ => false
  end.

Definition cmd_eqb (x y : cmd) : bool :=
  match x, y with
  | Startup l, Startup l' => l =? l'
  | Extend p a d, Extend p' a' d' => (p =? p') && (a =? a') && zlist_eqb d d'
  | LogAdd p a d ty data, LogAdd p' a' d' ty' data' =>
      (p =? p') && (a =? a') && zlist_eqb d d' && (ty =? ty') && opt_eqb zlist_eqb data data'
  | Reset, Reset => true
  | ResetNoInit, ResetNoInit => true
  | _, _ => false
  end.

Definition event_eqb (x y : event) : bool :=
  match x, y with
  | EV p a d ty data, EV p' a' d' ty' data' =>
      (p =? p') && (a =? a') && zlist_eqb d d' && (ty =? ty') && opt_eqb zlist_eqb data data'
  end.

(** equality of two model observations of [get] (the error code is not observable) *)
Definition get_same (x y : outcome (list Z)) : bool :=
  match x, y with
  | Ok a, Ok b => zlist_eqb a b
  | Err _, Err _ => true
  | Panic, Panic => true
  | _, _ => false
  end.

Fixpoint lookupZ {A} (k : Z) (l : list (Z * A)) : option A :=
  match l with
  | [] => None
  | (k', v) :: t => if k =? k' then Some v else lookupZ k t
  end.

(** every grid point: listed in the delta -> the model shows the listed value;
    not listed -> the model's value did not change either *)
Fixpoint gets_match (i : Z) (grid : list (Z * Z)) (dgets : list (Z * obs (list Z)))
         (pv pv' : list (list (list Z))) : bool :=
  match grid with
  | [] => true
  | (p, a) :: t =>
      match lookupZ i dgets with
      | Some o => obs_match zlist_eqb o (get pv' p a)
      | None => get_same (get pv p a) (get pv' p a)
      end && gets_match (i + 1) t dgets pv pv'
  end.

(** SHA-3 identifiers (39..41): whether [tpm2.Algorithm.Hash] accepts them
    depends on what is linked into the binary; when it does not, they are not
    hash algorithms for the reference TPM (reason 2) while the model's table
    [hsize] lists them (reason 3 or 4) *)
Definition sha3_cmd (c : cmd) : bool :=
  match c with
  | Extend _ a _ => (39 <=? a) && (a <=? 41)
  | _ => false
  end.

(** the model refuses the command for the reason the reference TPM gives *)
Definition ek_matches (sha3 : bool) (ek : Z) (r : outcome unit) : bool :=
  match r with
  | Err e => (ek =? e) || (sha3 && (ek =? ERR_BAD_ALG))
  | _ => ek =? 0
  end.

(** model-side comparison of one step: [st] before, [st'] after, [r] the outcome *)
Definition step_matches (c : cmd) (st st' : state) (r : outcome unit) (o : sobs) : bool :=
  match o with
  | SO r' ek dgets al cl_len el_len full =>
      obs_match unit_eqb r' r
      && ek_matches (sha3_cmd c) ek r
      && gets_match 0 get_grid dgets (pcrs st) (pcrs st')
      && match al with
         | None => zlist_eqb (algos st) (algos st')
         | Some l => zlist_eqb l (algos st')
         end
      && (cl_len =? Z.of_nat (length (cmdlog st')))
      && (el_len =? Z.of_nat (length (evlog st')))
      && match full with
         | None => true
         | Some (cl, el) => list_eqb cmd_eqb cl (cmdlog st') && list_eqb event_eqb el (evlog st')
         end
  end.

Fixpoint check_steps (H : Z -> list Z -> list Z) (st : state) (steps : list (cmd * sobs)) : bool :=
  match steps with
  | [] => true
  | (c, o) :: t =>
      let '(st', r) := step H st c in
      step_matches c st st' r o && check_steps H st' t
  end.

(** the same comparison for the buffer-level model, observed through [abs];
    spare capacity after a growing append: as much again (unobservable) *)
Fixpoint scheck_steps (H : Z -> list Z -> list Z) (s : sstate) (steps : list (cmd * sobs)) : bool :=
  match steps with
  | [] => true
  | (c, o) :: t =>
      let '(s', r) := sstep H (fun n => n) s c in
      step_matches c (abs s) (abs s') r o && scheck_steps H s' t
  end.

Definition state_eqb (s1 s2 : state) : bool :=
  zlist_eqb (algos s1) (algos s2)
  && list_eqb (list_eqb zlist_eqb) (pcrs s1) (pcrs s2)
  && list_eqb cmd_eqb (cmdlog s1) (cmdlog s2)
  && list_eqb event_eqb (evlog s1) (evlog s2).

Fixpoint res_match (steps : list (cmd * sobs)) (rs : list (outcome unit)) : bool :=
  match steps, rs with
  | [], [] => true
  | (_, SO r' _ _ _ _ _ _) :: t, r :: rt => obs_match unit_eqb r' r && res_match t rt
  | _, _ => false
  end.

(** object [j] of the final world of the pool model has run its whole history
    and is where the value model is after the same history *)
Fixpoint actors_done (H : Z -> list Z -> list Z) (w : world) (j : nat)
         (objs : list (list (cmd * sobs))) : bool :=
  match objs with
  | [] => true
  | steps :: t =>
      let a := w_act w j in
      match a_ph a, a_todo a with
      | Idle, [] =>
          state_eqb (a_obj a) (run H fresh (map fst steps)) && res_match steps (a_res a)
      | _, _ => false
      end && actors_done H w (S j) t
  end.

(** * API-level cases *)

Fixpoint xcmd_eqb (x y : xcmd) : bool :=
  match x, y with
  | XOne c, XOne c' => cmd_eqb c c'
  | XMany l, XMany l' =>
      (fix go (l l' : list xcmd) : bool :=
         match l, l' with
         | [], [] => true
         | a :: t, b :: t' => xcmd_eqb a b && go t t'
         | _, _ => false
         end) l l'
  | _, _ => false
  end.

Definition cause_eqb (a b : cause) : bool :=
  opt_eqb (fun x y => (fst x =? fst y) && (snd x =? snd y)) a b.

Definition entry_eqb (a b : entry) : bool :=
  xcmd_eqb (e_cmd a) (e_cmd b) && cause_eqb (e_cause a) (e_cause b).

Definition op_sha3 (o : op) : bool :=
  match o with
  | OExec x _ | OApply x => existsb sha3_cmd (flat x)
  | _ => false
  end.

Definition log_flat_cmds (s : xstate) : list cmd := flat_map (fun e => flat (e_cmd e)) (x_log s).

Definition xstep_matches (H : Z -> list Z -> list Z) (o : op) (s s' : xstate) (r : outcome unit) (ob : xsobs) : bool :=
  match ob with
  | XSO r' ek dgets al cl_len el_len full rep =>
      obs_match unit_eqb r' r
      && ek_matches (op_sha3 o) ek r
      && gets_match 0 get_grid dgets (x_pcrs s) (x_pcrs s')
      && match al with
         | None => zlist_eqb (x_algos s) (x_algos s')
         | Some l => zlist_eqb l (x_algos s')
         end
      && (cl_len =? Z.of_nat (length (x_log s')))
      && (el_len =? Z.of_nat (length (x_evlog s')))
      && match full with
         | None => true
         | Some (cl, el) => list_eqb entry_eqb cl (x_log s') && list_eqb event_eqb el (x_evlog s')
         end
      && match rep with
         | None => true
         | Some (rr, rek, rgets, rel) =>
             let '(st, mr) := replay_on_new H s' in
             obs_match unit_eqb rr mr
             && ek_matches (existsb sha3_cmd (log_flat_cmds s')) rek mr
             (* baseline: an object on which every Get fails *)
             && gets_match 0 get_grid rgets [] (pcrs st)
             && (rel =? Z.of_nat (length (evlog st)))
         end
  end.

Fixpoint xcheck_steps (H : Z -> list Z -> list Z) (s : xstate) (steps : list (op * xsobs)) : bool :=
  match steps with
  | [] => true
  | (o, ob) :: t =>
      let '(s', r) := xstep H s o in
      xstep_matches H o s s' r ob && xcheck_steps H s' t
  end.

(** [CConc]: (1) every object, looked at alone, matches the value model and the
    buffer model run on ITS history (what theorem C02_pool_independent says must
    hold under every schedule); (2) the pooled hashers found were reset
    (the invariant of that theorem); (3) the recorded trace is a run of the
    pool model, i.e. the implementation touched the hashers in the way and in
    the order the model does, every hasher the pool handed out was lying in the
    model's pool, and the model ends where the value model ends. *)
Definition check (c : case) : bool :=
  match c with
  | CHist tbl steps => check_steps (H_tbl tbl) fresh steps && scheck_steps (H_tbl tbl) snew steps
  | CConc tbl hs objs trace =>
      let H := H_tbl tbl in
      let hs' := map (fun x => mkHs (fst x) (snd x)) hs in
      forallb (fun steps => check_steps H fresh steps && scheck_steps H snew steps) objs
      && pool_reset hs'
      && match trace with
         | None => true
         | Some tr =>
             match replay H (init_world (map (fun steps => idle_actor fresh (map fst steps)) objs) hs') tr with
             | Some w' => actors_done H w' 0 objs
             | None => false
             end
         end
  | CExec tbl zero xsteps =>
      xcheck_steps (H_tbl tbl) (if zero then xblank else xfresh) xsteps
  end.

Definition mismatches := mismatches_by check.
