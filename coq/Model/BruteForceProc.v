(** Model of one PROCESS that uses pkg/bruteforcer: the package-level state the
    brute-forcer depends on, how the process gets it, and a sequence of
    BruteForce calls made by the process.  Definitions only; proofs live in
    Proofs/BruteForceProc.v.

    Model/BruteForce.v describes a single call as if nothing outside the call
    existed.  The real code has one piece of package-level state,

      var binomialCoefficientsLookupTable [1001][11]uint64    (indexes.go)

    which binomialCoefficientFast reads on behalf of getCombinationID, i.e. of
    SetCombinationID, i.e. of the seek EVERY worker goroutine of run() performs
    before its first candidate.  The table is written by
    initBinomialCoefficientsLookupTable, called from the package's init(); the Go
    runtime runs init() to completion before main.main starts and before any
    goroutine of the program can call into the package.  After that nothing
    writes the table: all workers of all calls only read it.

    Here this is written out:
      - [table], [table_zero] (the zero value the variable has before init()),
        [table_init] (initBinomialCoefficientsLookupTable), [proc_boot] (the state
        with which main starts);
      - [binom64_t t], [rank64_t t], [seek_t t]: binomialCoefficientFast,
        getCombinationID, setCombinationID reading the table [t] — the same code
        as [binom64]/[rank64]/[seek] of Model/Comb.v, where the table was idealised
        to the mathematical binomial coefficient;
      - [bf_run_t t]: the schedule relation of Model/BruteForce.v with every
        worker seeking through [t];
      - [proc_run t calls results t']: a process in state [t] makes the calls one
        after the other (any item types, windows, worker counts), each with one
        of the outcomes the relation allows for state [t]; no call changes the
        state.
    A call whose outcome is [Panic] (a panic in a worker goroutine) is the death
    of the process; what the relation says about calls after it is vacuous. *)
From CSS Require Import Lib.Base Model.Comb Model.BruteForce.

(** * The package-level state *)

Definition CACHE_MAX_N : Z := 1000.   (* binomialCoefficientCacheMaxN *)
Definition CACHE_MAX_K : Z := 10.     (* binomialCoefficientCacheMaxK *)

(** rows n = 0..1000, columns k = 0..10, entries uint64 *)
Definition table := list (list Z).

Definition table_zero : table :=
  repeat (repeat 0 (S (Z.to_nat CACHE_MAX_K))) (S (Z.to_nat CACHE_MAX_N)).

(** [t[n][k]]; only used for indexes inside the array (see [binom64_t]) *)
Definition tget (t : table) (n k : Z) : Z := nth (Z.to_nat k) (nth (Z.to_nat n) t []) 0.

(** initBinomialCoefficientsLookupTable: column 0 is 1, row 0 is 0 beyond column 0,
    and  t[n][k] = t[n-1][k-1] + t[n-1][k]  in uint64 for n, k >= 1.  Every entry
    is written, whatever the array held before. *)
Definition pascal_row (prev : list Z) : list Z :=
  1 :: map (fun ab => wrap64 (fst ab + snd ab)) (combine prev (tl prev)).

Fixpoint pascal_rows (n : nat) (row : list Z) : list (list Z) :=
  row :: match n with O => [] | S n' => pascal_rows n' (pascal_row row) end.

Definition table_init (_ : table) : table :=
  pascal_rows (Z.to_nat CACHE_MAX_N) (1 :: repeat 0 (Z.to_nat CACHE_MAX_K)).

(** the state main.main starts with: init() has run *)
Definition proc_boot : table := table_init table_zero.

(** * The code that reads it *)

(** binomialCoefficientFast(n, k uint64): the table inside the cached range, else
    big.Int.Binomial(...).Uint64() *)
Definition binom64_t (t : table) (n k : Z) : Z :=
  if (0 <=? n) && (n <=? CACHE_MAX_N) && (0 <=? k) && (k <=? CACHE_MAX_K)
  then tget t n k else binom64 n k.

(** getCombinationID ([rank64_aux] of Model/Comb.v with the table) *)
Fixpoint rank64_aux_t (t : table) (m prev : Z) (s : list Z) (acc : Z) : Z :=
  match s with
  | [] => acc
  | v :: rest =>
      let a := Z.of_nat (length s) in
      let sub := wrap64 (binom64_t t (wrap64 (m + 1 - prev - 1)) a
                         - binom64_t t (wrap64 (m + 1 - v)) a) in
      rank64_aux_t t m v rest (wrap64 (acc + sub))
  end.

Definition rank64_t (t : table) (m : Z) (s : list Z) : Z := rank64_aux_t t m (W64 - 1) s 0.

(** setCombinationID ([seek_loop]/[seek] of Model/Comb.v with the table) *)
Fixpoint seek_loop_t (t : table) (fuel : nat) (m id : Z) (idx : nat) (s : list Z) : outcome (list Z) :=
  match fuel with
  | O => OutOfFuel
  | S fuel' =>
      let cur := rank64_t t m s in
      if cur =? id then Ok s
      else
        match nth_error s idx with
        | None => Panic
        | Some x =>
            if id <? cur
            then bind (set_series m idx (x - 1) s) (fun s' => seek_loop_t t fuel' m id (S idx) s')
            else bind (set_series m idx (x + 1) s) (fun s' => seek_loop_t t fuel' m id idx s')
        end
  end.

Definition seek_t (t : table) (m : Z) (k : nat) (id : Z) : outcome (list Z) :=
  match k with
  | O => Ok []
  | _ => bind (set_series m 0 0 (repeat 0 k)) (fun s => seek_loop_t t (seek_fuel m k) m id 0 s)
  end.

(** * One call in a given state *)

Section CallInState.
  Context {A : Type}.
  Variable t : table.
  Variable flip : list Z -> list A -> outcome (list A).
  Variable P : list A -> bool.

  (** one goroutine: the only place where a worker touches package state is its seek *)
  Definition worker_scan_t (m : Z) (k : nat) (data : list A) (se : Z * Z)
    : outcome (list cand * option cand) :=
    bind (seek_t t m k (fst se)) (fun s0 => scan_loop flip P (tries (fst se) (snd se)) m s0 data).

  Variable ifail : Z -> Z -> bool.
  Variables (gomax maxconc : Z).

  Definition round_specs_t (data : list A) (total d : Z) : outcome (list wspec) :=
    let amount := amount_of total (Z.to_nat d) in
    let cf := cfactor gomax maxconc amount in
    let ps := pieces amount cf in
    bind (collect (map (worker_scan_t (total - 1) (Z.to_nat d) data) ps)) (fun fulls =>
      Ok (combine (map (ifail d) (seqZ 0 (length ps))) fulls)).

  (** [dist_rel] of Model/BruteForce.v; the workers of one distance all read [t],
      in any interleaving: reads do not interfere, so the relation is the same *)
  Fixpoint dist_rel_t (data : list A) (total : Z) (n : nat) (d : Z)
           (tr : trace) (res : outcome (option cand)) : Prop :=
    match n with
    | O => tr = [] /\ res = Ok None
    | S n' =>
        if total <? d then tr = [] /\ res = Ok None
        else if MAX_INT64 <=? amount_of total (Z.to_nat d) then tr = [] /\ res = Err 3
        else match round_specs_t data total d with
             | Ok specs =>
                 exists runs rres, round_rel specs runs rres /\
                   match rres with
                   | Ok None => exists rest, tr = map fst runs :: rest /\
                                             dist_rel_t data total n' (d + 1) rest res
                   | _ => tr = [map fst runs] /\ res = rres
                   end
             | Err c => tr = [] /\ res = Err c
             | Panic => tr = [] /\ res = Panic
             | OutOfFuel => tr = [] /\ res = OutOfFuel
             end
    end.

  Definition bf_run_t (data : list A) (item_size wmin wmax : Z)
             (tr : trace) (res : outcome (option cand)) : Prop :=
    if wmax <? wmin then tr = [] /\ res = Err 1
    else
      let total := total_bits data item_size in
      let maxd := Z.min wmax total in
      if wmin =? 0 then
        if ifail 0 0 then tr = [] /\ res = Err 2
        else if P data then tr = [[[[]]]] /\ res = Ok (Some [])
        else exists tr', tr = [[[]]] :: tr' /\
                         dist_rel_t data total (Z.to_nat (maxd - 1 + 1)) 1 tr' res
      else dist_rel_t data total (Z.to_nat (maxd - wmin + 1)) wmin tr res.

  Definition bf_outcome_t (data : list A) (item_size wmin wmax : Z)
             (res : outcome (option cand)) : Prop :=
    exists tr, bf_run_t data item_size wmin wmax tr res.
End CallInState.

(** * A process *)

(** one BruteForce call: item type, settings in force when it is made, arguments *)
Inductive pcall : Type :=
| PBools (gomax maxconc : Z) (data : list bool) (item_size wmin wmax : Z)
         (P : list bool -> bool) (ifail : Z -> Z -> bool)
| PBytes (gomax maxconc : Z) (data : list Z) (item_size wmin wmax : Z)
         (P : list Z -> bool) (ifail : Z -> Z -> bool).

(** what the call can return when the package state is [t] *)
Definition call_in (t : table) (c : pcall) (res : outcome (option cand)) : Prop :=
  match c with
  | PBools gomax maxconc data isz wmin wmax P ifail =>
      bf_outcome_t t flip_bools P ifail gomax maxconc data isz wmin wmax res
  | PBytes gomax maxconc data isz wmin wmax P ifail =>
      bf_outcome_t t flip_bytes P ifail gomax maxconc data isz wmin wmax res
  end.

(** ... and according to Model/BruteForce.v, which knows no state *)
Definition call_alone (c : pcall) (res : outcome (option cand)) : Prop :=
  match c with
  | PBools gomax maxconc data isz wmin wmax P ifail =>
      bf_outcome flip_bools P ifail gomax maxconc data isz wmin wmax res
  | PBytes gomax maxconc data isz wmin wmax P ifail =>
      bf_outcome flip_bytes P ifail gomax maxconc data isz wmin wmax res
  end.

(** [proc_run t calls results t']: from state [t] the process makes [calls] in
    this order and gets [results]; [t'] is the state afterwards.  BruteForce and
    everything below it only read the package state. *)
Inductive proc_run : table -> list pcall -> list (outcome (option cand)) -> table -> Prop :=
| PR_done : forall t, proc_run t [] [] t
| PR_call : forall t c r cs rs t',
    call_in t c r -> proc_run t cs rs t' -> proc_run t (c :: cs) (r :: rs) t'.

(** a whole process: boot, then the calls *)
Definition process (calls : list pcall) (results : list (outcome (option cand))) : Prop :=
  exists t', proc_run proc_boot calls results t'.
