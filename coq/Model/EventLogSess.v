(** Sessions on ONE parsed log object (property C12): a [*tpmeventlog.TPMEventLog]
    that is replayed / filtered several times and edited in place by its owner
    between the calls.  Executable definitions only; proofs live in
    Proofs/EventLogSess.v.

    Memory: [Events []*Event] is a slice of pointers, so the model keeps a heap
    of Event objects (address = index in [ls_heap]) and the log as the list of
    addresses [ls_evs].  The owner may
    - allocate an Event ([SNew]),
    - change an Event object through its pointer ([SSetEvent]: any assignment to
      PCRIndex / Type / Data / Digest, a new Digest object, a byte of the digest
      changed in the same backing array, Digest = nil ...),
    - change the slice [log.Events] ([SSetEvents]: two entries swapped, an entry
      replaced, events appended / removed, a whole new slice of the same length).
    The code under test ([Replay], [FilterEvents], [EventLogFromParsed]) only
    reads: [TPMEventLog] has the single field [Events], there is no other state,
    so a call leaves the state as it is and its result is a function of the log
    as it is at the moment of the call. *)
From CSS Require Import Lib.Base Model.EventLog.

Definition nil_event : event := mkEv 0 0 [] None.

Record lstate := mkLS { ls_heap : list event; ls_evs : list nat }.

Definition deref (h : list event) (ad : nat) : event := nth ad h nil_event.

(** the log as a caller reads it: [*log.Events[i]] for every i *)
Definition log_of (s : lstate) : list event := map (deref (ls_heap s)) (ls_evs s).

Fixpoint set_nth {A} (n : nat) (x : A) (l : list A) : list A :=
  match l, n with
  | [], _ => []
  | _ :: t, O => x :: t
  | y :: t, S n' => y :: set_nth n' x t
  end.

(** [FilterEvents] at pointer level: the scan of [filter_events], returning the
    addresses (the returned slice is a new one holding the log's own pointers). *)
Fixpoint filter_addrs (size p a : Z) (h : list event) (evs : list nat) : outcome (list nat) :=
  match evs with
  | [] => Ok []
  | ad :: t =>
      let e := deref h ad in
      if negb (ev_pcr e =? p) then filter_addrs size p a h t
      else
        match ev_digest e with
        | None => filter_addrs size p a h t
        | Some d =>
            if negb (d_alg d =? a) then filter_addrs size p a h t
            else if negb (Z.of_nat (length (d_bytes d)) =? size) then Err E_DIGLEN
            else bind (filter_addrs size p a h t) (fun r => Ok (ad :: r))
        end
  end.

Definition filterAddrs (s : lstate) (p a : Z) : outcome (list nat) :=
  match hash_size a with
  | None => Err E_ALG
  | Some size => filter_addrs size p a (ls_heap s) (ls_evs s)
  end.

(** * Operations of a session *)

Inductive sop :=
| SReplay (p a : Z)                 (* tpmeventlog.Replay(log, p, a, _) *)
| SFilter (p a : Z)                 (* log.FilterEvents(p, a) *)
| SFromParsed                       (* tpm.EventLogFromParsed(log) *)
| SNew (e : event)                  (* owner: a new Event object, address = length of the heap *)
| SSetEvent (ad : nat) (e : event)  (* owner: *ptr = e (any in-place edit of an Event object) *)
| SSetEvents (evs : list nat).      (* owner: log.Events = ... (any edit of the slice) *)

Inductive sres :=
| RReplay (o : outcome (list Z))
| RFilter (o : outcome (list nat))
| RParsed (o : outcome (list entry))
| RNone.

Definition is_edit (op : sop) : bool :=
  match op with
  | SNew _ | SSetEvent _ _ | SSetEvents _ => true
  | _ => false
  end.

(** what the owner's operation does to the memory; calls do nothing to it *)
Definition edit_step (s : lstate) (op : sop) : lstate :=
  match op with
  | SNew e => mkLS (ls_heap s ++ [e]) (ls_evs s)
  | SSetEvent ad e => mkLS (set_nth ad e (ls_heap s)) (ls_evs s)
  | SSetEvents evs => mkLS (ls_heap s) evs
  | _ => s
  end.

Definition log_after (s : lstate) (ops : list sop) : lstate := fold_left edit_step ops s.

Section WithHash.
Variable H : Z -> list Z -> list Z.

(** what a call returns in state [s] *)
Definition call_result (s : lstate) (op : sop) : sres :=
  match op with
  | SReplay p a => RReplay (replay H (log_of s) p a)
  | SFilter p a => RFilter (filterAddrs s p a)
  | SFromParsed => RParsed (from_parsed (log_of s))
  | _ => RNone
  end.

Definition sstep (s : lstate) (op : sop) : lstate * sres := (edit_step s op, call_result s op).

Fixpoint srun (s : lstate) (ops : list sop) : lstate * list sres :=
  match ops with
  | [] => (s, [])
  | op :: t =>
      let '(s1, r) := sstep s op in
      let '(s2, rs) := srun s1 t in
      (s2, r :: rs)
  end.

(** * A log object that remembers its selections (NOT the code: used by the
      witness theorem only, to show that the session theorems exclude it)

    FilterEvents keeps the selection it computed per (PCR, algorithm, number of
    events) and returns it again while the number of events is unchanged. *)

Definition memo := list (Z * Z * nat * list nat).

Fixpoint memo_find (m : memo) (p a : Z) (n : nat) : option (list nat) :=
  match m with
  | [] => None
  | (p', a', n', r) :: t =>
      if (p =? p') && (a =? a') && Nat.eqb n n' then Some r else memo_find t p a n
  end.

Definition filterAddrs_memo (m : memo) (s : lstate) (p a : Z) : memo * outcome (list nat) :=
  match hash_size a with
  | None => (m, Err E_ALG)
  | Some size =>
      match memo_find m p a (length (ls_evs s)) with
      | Some r => (m, Ok r)
      | None =>
          match filter_addrs size p a (ls_heap s) (ls_evs s) with
          | Ok r => ((p, a, length (ls_evs s), r) :: m, Ok r)
          | o => (m, o)
          end
      end
  end.

(** [Replay] after its call of FilterEvents *)
Definition replay_tail (size p a : Z) (evs : list event) : outcome (list Z) :=
  bind (if p =? 0 then Ok [] else if p =? 1 then Ok (zeros size) else Err E_INDEX) (fun res0 =>
  bind (replay_loop H size p a evs res0) (fun res =>
  if is_nil res && (p =? 0) then Ok (zeros size) else Ok res)).

Definition sstep_memo (ms : memo * lstate) (op : sop) : (memo * lstate) * sres :=
  let '(m, s) := ms in
  match op with
  | SFilter p a =>
      let '(m', o) := filterAddrs_memo m s p a in ((m', s), RFilter o)
  | SReplay p a =>
      match hash_size a with
      | None => ((m, s), RReplay (Err E_ALG))
      | Some size =>
          let '(m', o) := filterAddrs_memo m s p a in
          ((m', s), RReplay (bind o (fun ads => replay_tail size p a (map (deref (ls_heap s)) ads))))
      end
  | _ => ((m, edit_step s op), call_result s op)
  end.

Fixpoint srun_memo (ms : memo * lstate) (ops : list sop) : (memo * lstate) * list sres :=
  match ops with
  | [] => (ms, [])
  | op :: t =>
      let '(ms1, r) := sstep_memo ms op in
      let '(ms2, rs) := srun_memo ms1 t in
      (ms2, r :: rs)
  end.

End WithHash.

(** * Specification vocabulary *)

Definition res_no_panic (r : sres) : Prop :=
  match r with
  | RReplay o => o <> Panic /\ o <> OutOfFuel
  | RFilter o => o <> Panic /\ o <> OutOfFuel
  | _ => True   (* EventLogFromParsed dereferences Event.Digest: documented, not part of the property *)
  end.
