(** Accessors into the registry of Model/Marshal.v used by the constants tie
    (spec/consts.json): what the model says about the register with a given ID. *)
From Coq Require Import NArith List String.
From CSS Require Import Model.Marshal.
Open Scope N_scope.

Definition reg_known (id : string) : N := match lookup id registry with Some _ => 1 | None => 0 end.
Definition reg_addr (id : string) : N := match lookup id registry with Some r => r_addr r | None => 2 ^ 70 end.
Definition reg_bits (id : string) : N := match lookup id registry with Some r => r_bits r | None => 2 ^ 70 end.

(** the serialised width (bits of the Raw() accessor ValueBytes switches on; the key: its 32
    bytes) *)
Definition reg_ser_bits (id : string) : N :=
  match lookup id registry with Some r => 8 * N.of_nat (r_ser r) | None => 2 ^ 70 end.
