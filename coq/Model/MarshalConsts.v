(** Accessors into the registry of Model/Marshal.v used by the constants tie
    (spec/consts.json): what the model says about the register with a given ID. *)
From Coq Require Import NArith List String.
From CSS Require Import Model.Marshal.
Open Scope N_scope.

Definition reg_known (id : string) : N := match lookup id registry with Some _ => 1 | None => 0 end.
Definition reg_addr (id : string) : N := match lookup id registry with Some r => r_addr r | None => 2 ^ 70 end.
Definition reg_bits (id : string) : N := match lookup id registry with Some r => r_bits r | None => 2 ^ 70 end.

(** the serialised width (bits of the Raw() accessor ValueBytes switches on; the key: its 32
    bytes), and the membership of an ID in the parser tables of ValueFromBytes
    (Model/MarshalOps.v) *)
From CSS Require Import Model.MarshalOps.
Definition reg_ser_bits (id : string) : N :=
  match lookup id registry with Some r => 8 * N.of_nat (r_ser r) | None => 2 ^ 70 end.
Definition in_parser64 (id : string) : N := N.b2n (in_ids id parser64_ids).
Definition in_parser32 (id : string) : N := N.b2n (in_ids id parser32_ids).
Definition in_parser8 (id : string) : N := N.b2n (in_ids id parser8_ids).
Definition n_parser64 : N := N.of_nat (List.length parser64_ids).
Definition n_parser32 : N := N.of_nat (List.length parser32_ids).
Definition n_parser8 : N := N.of_nat (List.length parser8_ids).
