(** Model of pkg/registers serialisation, third part (on top of Model/Marshal.v):
    - [ValueFromBytes] AS WRITTEN: the special case of the key, then the three parser tables
      getRegister64Parser / getRegister32Parser / getRegister8Parser tried in this order, each
      with binary.Read of its integer followed by the bytes-left-over test; no look at the
      registry.  ([value_from_bytes] of Model/Marshal.v reads the width off the registry entry;
      Proofs/MarshalOps.v shows that the two are the same function.)
    - [Registers.Find];
    - one [registers.Registers] variable under a HISTORY of operations: Unmarshal (JSON / YAML,
      directly or through helpers.FlagRegisters.Set), Sort, MarshalJSON, MarshalYAML, Find,
      and the branches of FlagRegisters.Set that read no document. *)
From Coq Require Import NArith List String Ascii Bool.
From CSS Require Import Model.Marshal.
Import ListNotations.
Open Scope N_scope.

(** * ValueFromBytes: the parser tables of marshalling.go, in source order *)
Open Scope string_scope.
Definition parser64_ids : list string :=
  ["BOOT_GUARD_PBEC"; "BTG_SACM_INFO"; "IA32_DEBUG_INTERFACE"; "IA32_FEATURE_CONTROL";
   "IA32_MTRRCAP"; "IA32_PLATFORM_ID"; "IA32_SMRR_PHYSBASE"; "IA32_SMRR_PHYSMASK";
   "ACM_POLICY_STATUS"; "ACM_STATUS"; "TXT.SPAD"; "TXT.DIDVID"; "TXT.STS"].
Definition parser32_ids : list string :=
  ["TXT.VER.FSBIF"; "TXT.VER.EMIF"; "TXT.SINIT.BASE"; "TXT.SINIT.SIZE"; "TXT.MLE.JOIN";
   "TXT.HEAP.BASE"; "TXT.HEAP.SIZE"; "TXT.DPR"; "TXT.ERRORCODE"; "MP0_C2P_MSG_37"; "MP0_C2P_MSG_38"].
Definition parser8_ids : list string := ["TXT.ESTS"].
Close Scope string_scope.

Definition in_ids (id : string) (l : list string) : bool := existsb (String.eqb id) l.

(** width in bytes of the integer the first table listing [id] reads; 32 for the key *)
Definition parser_width (id : string) : option nat :=
  if String.eqb id key_id then Some 32%nat
  else if in_ids id parser64_ids then Some 8%nat
  else if in_ids id parser32_ids then Some 4%nat
  else if in_ids id parser8_ids then Some 1%nat
  else None.

(** binary.Read(buf, LittleEndian, &uiN) on a reader over [b], then [buf.Len() != 0]:
    too few bytes (io.EOF on none, io.ErrUnexpectedEOF on some) and bytes left over are errors *)
Definition read_uint (w : nat) (b : list N) : option N :=
  if Nat.ltb (List.length b) w then None
  else if negb (Nat.eqb (List.length b - w) 0) then None
  else Some (le_value (firstn w b)).

(** the conversion ParseXxx(uiN) performs: to the register's Go type *)
Definition type_bits (id : string) : N :=
  match lookup id registry with Some i => r_bits i | None => 0 end.

Definition parse_via (w : nat) (id : string) (b : list N) : res reg :=
  match read_uint w b with
  | Some v => ROk (id, v mod 2 ^ type_bits id)
  | None => RErr
  end.

Definition value_from_bytes_tables (id : string) (b : list N) : res reg :=
  if String.eqb id key_id then
    if Nat.eqb (List.length b) 32 then ROk (id, le_value b) else RErr
  else if in_ids id parser64_ids then parse_via 8 id b
  else if in_ids id parser32_ids then parse_via 4 id b
  else if in_ids id parser8_ids then parse_via 1 id b
  else RErr.

(** * Registers.Find: the first register carrying the ID *)
Fixpoint find (id : string) (l : list reg) : option reg :=
  match l with
  | [] => None
  | r :: t => if String.eqb (fst r) id then Some r else find id t
  end.

(** * one variable, a history of operations *)
Inductive op :=
| OUnmarshal (d : doc)    (* json/yaml.Unmarshal(&v), as a struct field, or FlagRegisters.Set(file) *)
| OSort                   (* v.Sort() *)
| OMarshalJSON            (* json.Marshal(v) *)
| OMarshalYAML            (* yaml.Marshal(v) *)
| OFind (id : string)     (* v.Find(id) *)
| OSetNoPath              (* FlagRegisters.Set(""): nothing to do, no error *)
| OSetMissing             (* FlagRegisters.Set(path that cannot be read): error *)
| OSetBlank.              (* FlagRegisters.Set(file without a document): no JSON; YAML has nothing
                             to decode and reports no error *)

(** what a call shows besides the variable itself *)
Inductive shown :=
| SCall (ok : bool)                                   (* Unmarshal / Set: no error? *)
| SNone                                               (* Sort *)
| SJson (e : res (list (string * list N)))            (* the entries json.Marshal wrote *)
| SYaml (e : res (list (string * (bool * string))))   (* the entries yaml.Marshal wrote *)
| SFound (r : option reg).                            (* Find *)

Definition step (st : list reg) (o : op) : option (list reg * shown) :=
  match o with
  | OUnmarshal d =>
      match unmarshal st d with
      | Some (st', ok) => Some (st', SCall ok)
      | None => None
      end
  | OSort => Some (sort_regs st, SNone)
  | OMarshalJSON => Some (st, SJson (json_marshal st))
  | OMarshalYAML => Some (st, SYaml (yaml_marshal st))
  | OFind id => Some (st, SFound (find id st))
  | OSetNoPath => Some (st, SCall true)
  | OSetMissing => Some (st, SCall false)
  | OSetBlank => Some (st, SCall true)
  end.

(** the variable and what was shown after each call *)
Fixpoint run (st : list reg) (ops : list op) : option (list (list reg * shown)) :=
  match ops with
  | [] => Some []
  | o :: t =>
      match step st o with
      | Some (st', s) =>
          match run st' t with
          | Some rest => Some ((st', s) :: rest)
          | None => None
          end
      | None => None
      end
  end.

(** the variable after the whole history *)
Fixpoint final (st : list reg) (ops : list op) : option (list reg) :=
  match ops with
  | [] => Some st
  | o :: t => match step st o with Some (st', _) => final st' t | None => None end
  end.
