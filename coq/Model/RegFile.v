(** Executable model of the REGISTER-FILE artifacts of the reference algebra and
    of byte extraction over every kind of artifact:

    - /repo/pkg/bootflow/systemartifacts/txtpublic/txt_public.go
      [TXTPublic.ReadAt] (pointer receiver; since /repo 9b9036f: starts at the
      address of a register and goes on through the registers that follow
      without a gap until the buffer is full) and [Size];
    - /repo/pkg/bootflow/systemartifacts/amdregisters/amd_registers.go
      [AMDRegisters.ReadAt] (registers laid out back to back in collection
      order; a read goes on with the following registers until the buffer is
      full) and [Size];
    - binary.Write(bytesextra.NewReadWriteSeeker(p), LittleEndian, r.Value()):
      one [Write] of the little-endian encoding of the value into what is left
      of [p] ([bwrite]);
    - [Reference.RawBytes] / [References.RawBytes] of data.go once more, this
      time over an arbitrary [ReadAt] ([rawbytes_g]); instantiated with
      [art_readat] it IS [Model.Refs.ref_rawbytes] (lemma in Proofs/RegFile.v),
      instantiated with the register files it gives the bytes of references to
      registers, and [grefs_rawbytes] the bytes of MIXED lists (registers,
      firmware image, in-line byte strings).

    A register is what the two ReadAt functions look at: the offset inside the
    register space ([int64(r.Address() - TxtPublicSpace)], may be negative for
    a register that does not belong there; unused by AMDRegisters), [BitSize()]
    (a uint8: 0 for the 256-bit TXT.PUBLIC.KEY, finding
    C04-TXTPublicKey-bitsize-wraps-to-0) and the bytes binary.Write produces
    for [Value()].  No proofs here. *)
From CSS Require Import Lib.Base Model.Ranges Model.Refs.

Record reg := mkReg { g_off : Z; g_bits : Z; g_val : list Z }.

(** error classes of a read: 0 nil, 1 io.EOF, 2 an error made with fmt.Errorf,
    3 io.ErrShortWrite *)

(** [w.Write(b)] of bytesextra.ReadWriteSeeker over storage [p] at position
    [pos]: storage afterwards, position afterwards, error class. *)
Definition bwrite (p : list Z) (pos : Z) (b : list Z) : list Z * Z * Z :=
  if zlen p <=? pos then (p, pos, 1)
  else
    let n := Z.min (zlen p - pos) (zlen b) in
    (firstn (Z.to_nat pos) p ++ firstn (Z.to_nat n) b ++ skipn (Z.to_nat (pos + n)) p,
     pos + n,
     if n <? zlen b then 3 else 0).

(** ** TXTPublic.ReadAt (as of /repo 9b9036f) *)

(** [binary.Size(r.Value())]: the width of the register is the width of the value
    as it is written out ([BitSize()] -- 0 for the 256-bit TXT.PUBLIC.KEY -- is
    only a fall-back for a value binary.Size cannot size, which does not occur
    here: a register value is a fixed-size integer or a byte string). *)
Definition txt_width (r : reg) : Z := zlen (g_val r).

(** [registerAt(off)]: the register that STARTS at [off]; [None]: one of the
    three errors ("a non TXT-register in the collection", "not aligned",
    "not found") *)
Fixpoint txt_register_at (regs : list reg) (off : Z) : option reg :=
  match regs with
  | [] => None
  | r :: t =>
      if g_off r <? 0 then None
      else if (off <? g_off r) || (g_off r + txt_width r <=? off) then txt_register_at t off
      else if off =? g_off r then Some r else None
  end.

(** the loop of ReadAt: [pos] = n = out.CurrentPosition.  Every round that goes
    on has written a whole register (at least one byte), so [S (length p)]
    rounds suffice (lemma [txt_readat_total] in Proofs/RegFile.v). *)
Fixpoint txt_loop (fuel : nat) (regs : list reg) (p : list Z) (pos off : Z) : outcome readres :=
  match fuel with
  | O => OutOfFuel
  | S k =>
      match txt_register_at regs (off + pos) with
      | None => Ok (mkRd pos p 2)
      | Some r =>
          let '(p', pos', e) := bwrite p pos (g_val r) in
          if negb (e =? 0) || (zlen p <=? pos') then Ok (mkRd pos' p' e)
          else txt_loop k regs p' pos' off
      end
  end.

Definition txt_readat (regs : list reg) (p : list Z) (off : Z) : outcome readres :=
  txt_loop (S (length p)) regs p 0 off.

Definition txt_size : Z := 65536.                        (* registers.TxtPublicSpaceSize *)

(** ** AMDRegisters.ReadAt *)

(** [(r.BitSize() + 7) / 8] in uint8 arithmetic *)
Definition amd_width (r : reg) : Z := wrap8 (g_bits r + 7) / 8.

(** the loop; [cur] = curOffset (it stops advancing at the first register it
    equals [off], so every later register is written as well), [pos] =
    out.CurrentPosition *)
Fixpoint amd_loop (regs : list reg) (p : list Z) (pos cur off : Z) : outcome readres :=
  match regs with
  | [] => Ok (mkRd 0 p 2)                               (* "register with offset ... was not found" *)
  | r :: t =>
      if negb (cur =? off) then amd_loop t p pos (cur + amd_width r) off
      else
        let '(p', pos', e) := bwrite p pos (g_val r) in
        if zlen p <=? pos' then Ok (mkRd pos' p' e) else amd_loop t p' pos' cur off
  end.

Definition amd_readat (regs : list reg) (p : list Z) (off : Z) : outcome readres :=
  amd_loop regs p 0 0 off.

Definition amd_size (regs : list reg) : Z :=
  fold_left (fun s r => wrap64 (s + amd_width r)) regs 0.

(** ** Artifacts of every kind *)

Inductive regfile := RTxt (regs : list reg) | RAmd (regs : list reg).

Definition rf_readat (f : regfile) : list Z -> Z -> outcome readres :=
  match f with RTxt regs => txt_readat regs | RAmd regs => amd_readat regs end.
Definition rf_size (f : regfile) : Z :=
  match f with RTxt _ => txt_size | RAmd regs => amd_size regs end.

(** [GBytes]: an artifact of Model/Refs.v (in-line bytes, firmware image, the
    harness' reader-backed artifacts); [GRegs id tname f]: a register file with
    identity class and type-name rank as in [art]. *)
Inductive gart := GBytes (a : art) | GRegs (id tn : Z) (f : regfile).

Definition gart_readat (a : gart) : list Z -> Z -> outcome readres :=
  match a with GBytes b => art_readat b | GRegs _ _ f => rf_readat f end.
Definition gart_size (a : gart) : Z :=
  match a with GBytes b => zlen (acontent b) | GRegs _ _ f => rf_size f end.

Record gref := mkGRef { gr_art : gart; gr_map : mapper; gr_ranges : list range }.

(** ** Reference.RawBytes over an arbitrary ReadAt *)

Section ReadGen.
  Variable rdat : list Z -> Z -> outcome readres.        (* ref.Artifact.ReadAt *)
  Variable size : Z.                                     (* ref.Artifact.Size() *)
  Variable m : mapper.

  Fixpoint read_mapped_g (total : Z) (mrs : list range) (cur : Z) (acc : list Z)
    : outcome (Z * list Z) :=
    match mrs with
    | [] => Ok (cur, acc)
    | mr :: t =>
        let hi := wrap64 (cur + rlen mr) in
        if (hi <? cur) || (total <? hi) then Panic
        else
          match rdat (repeat 0 (Z.to_nat (rlen mr))) (to_i64 (roff mr)) with
          | Ok rd =>
              if rd_n rd =? to_i64 (rlen mr)
              then read_mapped_g total t hi (acc ++ rd_p rd)
              else Panic
          | _ => Panic
          end
    end.

  Fixpoint read_ranges_g (total : Z) (rs : list range) (cur : Z) (acc : list Z)
    : outcome (list Z) :=
    match rs with
    | [] => Ok acc
    | x :: t =>
        match resolve1 m size x with
        | Ok mrs =>
            match read_mapped_g total mrs cur acc with
            | Ok (cur', acc') => read_ranges_g total t cur' acc'
            | _ => Panic
            end
        | _ => Panic
        end
    end.

  Definition rawbytes_g (rs : list range) : outcome (list Z) :=
    let rs' := ranges_sm rs in
    read_ranges_g (total_len rs') rs' 0 [].
End ReadGen.

Definition gref_rawbytes (r : gref) : outcome (list Z) :=
  rawbytes_g (gart_readat (gr_art r)) (gart_size (gr_art r)) (gr_map r) (gr_ranges r).

Fixpoint grefs_rawbytes (s : list gref) : outcome (list Z) :=
  match s with
  | [] => Ok []
  | r :: t => bind (gref_rawbytes r) (fun a => bind (grefs_rawbytes t) (fun b => Ok (a ++ b)))
  end.

(** ** What the register space holds (for the statements, not used by the code) *)

(** the first register of the collection whose address range contains [off] *)
Fixpoint txt_lookup (regs : list reg) (off : Z) : option reg :=
  match regs with
  | [] => None
  | r :: t =>
      if g_off r <? 0 then None
      else if (off <? g_off r) || (g_off r + txt_width r <=? off) then txt_lookup t off
      else Some r
  end.

(** the sparse byte space of a TXT register file: the byte at address [a] *)
Definition txt_space (regs : list reg) (a : Z) : option Z :=
  match txt_lookup regs a with
  | Some r => nth_error (g_val r) (Z.to_nat (a - g_off r))
  | None => None
  end.

(** the values of the registers from the one that starts at [off] on, back to back *)
Fixpoint amd_from (regs : list reg) (cur off : Z) : list Z :=
  match regs with
  | [] => []
  | r :: t =>
      if cur =? off then g_val r ++ amd_from t cur off
      else amd_from t (cur + amd_width r) off
  end.
