(** Model of the boot-flow interpreter: pkg/bootflow/bootengine/boot_process.go
    ([stateNextStep], [NextStep], [Finish], [safeWrapper]), types/state.go
    ([SetFlow], [AddMeasuredData]), the step constructors of
    steps/commonsteps ([If], [MergeSteps], [SetFlow], [SetFlowFromFunc],
    [SetActor], [Panic]),
    steps/tpmsteps ([InitTPM], [LogInit], [Measure]) and the actions behind
    them, of the condition constructors [commonconds.Not] ([CNot], one wrapper
    per negation) and [tpmconds.TPMIsInited] ([CTPMInited]), and of nil steps
    ([SNil]: a hole in [Flow.Steps] — [Actions] on it panics).
    Executable definitions only; proofs live in Proofs/Interp.v.

    Deep embedding: a family of flows is an association list from flow names
    to step lists.  A name that is not in the family stands for a
    [types.Flow] whose [Steps] is nil (Go flows are values; [SetFlow] of a
    flow value with nil steps is how such a name comes about).

    Two semantics are given:
    - the code-shaped machine ([state_next_step], [next_step], [run]) with
      the uint carriage [StepIndex] that [SetFlow] sets to MaxUint so that
      the increment wraps to 0, and the [StepIndex == MaxUint] break test;
    - the specification: [exec_step] (one step), [spec_run] (list of remaining
      steps, fuelled, any family) and the structurally recursive [exec_flow]
      (no fuel, stratified = acyclic families). *)
From CSS Require Import Lib.Base.

Definition MAXUINT : Z := W64 - 1.

(** * Syntax *)

(** what a harness-defined action / data source does at the end of Apply *)
Inductive ares := ROk | RErr | RPanic.

Inductive cond :=
| CConst (b : bool)
| CActorIs (a : option Z)          (* state.CurrentActor is actor a / nil *)
| CMeasuredLt (n : Z)              (* len(state.MeasuredData) < n *)
| CTPMInited                       (* TPM subsystem present and initialised *)
| CMeasuredHas (id : Z)            (* state.MeasuredData has an entry of data source id *)
| CNot (c : cond)
| CPanic.                          (* Check panics *)

(** the function handed to [SetFlowFunc] / [SetFlowFromFunc]: a decision tree
    over the State whose leaves name the flow returned (or panic) *)
Inductive ffun :=
| FFlow (g : Z)
| FIf (c : cond) (t e : ffun)
| FPanic.

Inductive action :=
| ASetFlow (g : Z)                 (* commonactions.SetFlow(flow named g) *)
| ASetActor (a : option Z)         (* commonactions.SetActor(actor a / nil) *)
| APanic                           (* commonactions.Panic *)
| ATPMInit                         (* tpmactions.TPMInit *)
| ATPMLogAdd                       (* tpmactions.TPMEventLogAdd (from tpmsteps.LogInit) *)
| ATPMMeasure (id : Z) (r : ares)  (* tpmactions.TPMEvent on PCR0/1; data source [id] returns data / error / panics *)
| ACustom (id : Z) (m : option Z) (g : option Z) (r : ares)
                                   (* harness action: AddMeasuredData m?, SetFlow g?, then nil / error / panic *)
| ASetFlowFunc (id : Z) (fn : ffun).
                                   (* commonactions.SetFlowFunc(fn): Apply does state.SetFlow(fn(state)) —
                                      the flow is chosen WHEN THE ACTION IS APPLIED, on the state
                                      left by the actions applied before it *)

Inductive step :=
| SStatic (acts : list action)              (* types.StaticStep *)
| SIf (c : cond) (t e : option step)        (* commonsteps.If; None = nil branch *)
| SMerge (ss : list (option step))          (* commonsteps.MergeSteps; None = nil element *)
| SSetFlow (g : Z)                          (* commonsteps.SetFlow *)
| SSetActor (a : option Z)                  (* commonsteps.SetActor *)
| SPanic                                    (* commonsteps.Panic *)
| SInitTPM (withLog : bool)                 (* tpmsteps.InitTPM *)
| SCustom (id : Z) (panics : bool) (acts : list action)
                                            (* harness step: Actions() returns acts or panics *)
| SSetFlowFunc (id : Z) (fn : ffun)         (* commonsteps.SetFlowFromFunc(fn) *)
| SLogInit                                  (* tpmsteps.LogInit used as a step of its own *)
| SNil.                                     (* a nil [types.Step]: a hole in [Flow.Steps] (or in a
                                               merged step), or a nil pointer of a step type whose
                                               [Actions] dereferences it; calling [Actions] panics *)

(** a top-level step of a flow with the identity the log is compared by *)
Definition tstep : Type := Z * step.
Definition family : Type := list (Z * list tstep).

(** * The part of [types.State] the flows can see *)

(** actor [a] : kind [a mod 4] — 0: ResponsibleCode() = nil, 1: returns data,
    2: ResponsibleCode() panics, 3: the data source returns an error *)
Record core := mkCore {
  c_actor : option Z;        (* CurrentActor *)
  c_measured : list Z;       (* MeasuredData (ids of the data sources) *)
  c_tpm : option bool        (* None: no TPM subsystem; Some b: IsInitialized = b *)
}.

Definition opt_eqb (a b : option Z) : bool :=
  match a, b with
  | None, None => true
  | Some x, Some y => x =? y
  | _, _ => false
  end.

Fixpoint eval_cond (cd : cond) (c : core) : outcome bool :=
  match cd with
  | CConst b => Ok b
  | CActorIs a => Ok (opt_eqb a (c_actor c))
  | CMeasuredLt n => Ok (Z.of_nat (length (c_measured c)) <? n)
  | CTPMInited => Ok (match c_tpm c with Some true => true | _ => false end)
  | CMeasuredHas id => Ok (existsb (Z.eqb id) (c_measured c))
  | CNot cd' => match eval_cond cd' c with Ok b => Ok (negb b) | o => o end
  | CPanic => Panic
  end.

(** [fn(state)]: the name of the flow returned, or [Panic] *)
Fixpoint eval_ffun (fn : ffun) (c : core) : outcome Z :=
  match fn with
  | FFlow g => Ok g
  | FIf cd t e =>
      match eval_cond cd c with
      | Ok true => eval_ffun t c
      | Ok false => eval_ffun e c
      | _ => Panic
      end
  | FPanic => Panic
  end.

(** [Step.Actions(ctx, state)]: [Ok acts] or [Panic].  (The interface has no
    error result, so a step cannot "return an error".) *)
Fixpoint actions_of (s : step) (c : core) : outcome (list action) :=
  match s with
  | SStatic acts => Ok acts
  | SIf cd t e =>
      match eval_cond cd c with
      | Ok true => match t with None => Ok [] | Some s' => actions_of s' c end
      | Ok false => match e with None => Ok [] | Some s' => actions_of s' c end
      | _ => Panic
      end
  | SMerge ss =>
      (fix go (l : list (option step)) : outcome (list action) :=
         match l with
         | [] => Ok []
         | None :: _ => Panic                      (* nil interface method call *)
         | Some s' :: t =>
             match actions_of s' c with
             | Ok a => match go t with Ok b => Ok (a ++ b) | o => o end
             | o => o
             end
         end) ss
  | SSetFlow g => Ok [ASetFlow g]
  | SSetActor a => Ok [ASetActor a]
  | SPanic => Ok [APanic]
  | SInitTPM wl =>
      Ok (ATPMInit ::
          (if wl then
             match c_tpm c with
             | None => [APanic]                      (* LogInit: "unable to access TPM" *)
             | Some _ => [ATPMLogAdd; ATPMLogAdd]    (* one per supported algorithm *)
             end
           else []))
  | SCustom _ p acts => if p then Panic else Ok acts
  | SSetFlowFunc id fn => Ok [ASetFlowFunc id fn]        (* [fn] is NOT called here *)
  | SLogInit =>
      Ok (match c_tpm c with
          | None => [APanic]                             (* "unable to access TPM" *)
          | Some _ => [ATPMLogAdd; ATPMLogAdd]           (* one per supported algorithm *)
          end)
  | SNil => Panic                                        (* method call on a nil step *)
  end.

Definition res_outcome (r : ares) : outcome unit :=
  match r with ROk => Ok tt | RErr => Err 1 | RPanic => Panic end.

Definition add_measured (c : core) (id : Z) : core :=
  mkCore (c_actor c) (c_measured c ++ [id]) (c_tpm c).

(** Effect of [Action.Apply] on everything but the carriage: new core, the ids
    appended to MeasuredData, and how Apply ended.  The mutation persists when
    Apply then fails. *)
Definition core_apply (a : action) (c : core) : core * list Z * outcome unit :=
  match a with
  | ASetFlow _ => (c, [], Ok tt)
  | ASetActor x => (mkCore x (c_measured c) (c_tpm c), [], Ok tt)
  | APanic => (c, [], Panic)
  | ATPMInit =>
      match c_tpm c with
      | Some false => (mkCore (c_actor c) (c_measured c) (Some true), [], Ok tt)
      | _ => (c, [], Err 1)                 (* no TPM / already initialised *)
      end
  | ATPMLogAdd =>
      match c_tpm c with
      | Some _ => (c, [], Ok tt)
      | None => (c, [], Err 1)
      end
  | ATPMMeasure id r =>
      match r with
      | RErr => (c, [], Err 1)              (* "unable to extract the data" *)
      | RPanic => (c, [], Panic)
      | ROk =>
          match c_tpm c with
          | Some true => (add_measured c id, [id], Ok tt)
          | _ => (c, [], Err 1)             (* no TPM / PCR bank missing *)
          end
      end
  | ACustom _ m _ r =>
      match m with
      | Some id => (add_measured c id, [id], res_outcome r)
      | None => (c, [], res_outcome r)
      end
  | ASetFlowFunc _ fn =>
      match eval_ffun fn c with
      | Ok _ => (c, [], Ok tt)
      | _ => (c, [], Panic)                 (* fn panicked before SetFlow was reached *)
      end
  end.

(** the flow an action applied to a state with core [c] hands to
    [State.SetFlow], if any.  Only [ASetFlowFunc] looks at [c]. *)
Definition sets_flow (a : action) (c : core) : option Z :=
  match a with
  | ASetFlow g => Some g
  | ACustom _ _ (Some g) _ => Some g
  | ASetFlowFunc _ fn => match eval_ffun fn c with Ok g => Some g | _ => None end
  | _ => None
  end.

(** * Log *)

Inductive icoord :=
| ICActions               (* StepIssueCoordsActions *)
| ICAction (i : Z)        (* StepIssueCoordsAction{ActionIndex: i} *)
| ICActor.                (* StepIssueCoordsActor *)

Record entry := mkEntry {
  e_sid : Z;                  (* StepResult.Step *)
  e_actions : list action;    (* StepResult.Actions *)
  e_issues : list icoord;     (* StepResult.Issues (coordinates) *)
  e_measured : list Z;        (* StepResult.MeasuredData *)
  e_actor : option Z;         (* StepResult.Actor *)
  e_code : option Z           (* StepResult.ActorCode: the actor whose code it is *)
}.

(** issues appended for one [safeWrapper(action.Apply)] *)
Definition apply_issues (idx : Z) (r : outcome unit) : list icoord :=
  match r with
  | Ok _ => []
  | _ => [ICAction idx]       (* returned error, or panic turned into an error *)
  end.

(** the actor block at the end of [stateNextStep]: ActorCode and issues *)
Definition actor_part (c : core) : option Z * list icoord :=
  match c_actor c with
  | None => (None, [])
  | Some a =>
      let k := a mod 4 in
      if k =? 0 then (None, [])
      else if k =? 1 then (Some a, [])
      else (None, [ICActor])
  end.

(** * The machine (boot_process.go) *)

Record mstate := mkM {
  ms_flow : Z;      (* CurrentActionCoordinates.Flow (by name) *)
  ms_step : Z;      (* .StepIndex, uint *)
  ms_act : Z;       (* .ActionIndex, uint *)
  ms_core : core
}.

(** [State.SetFlow] *)
Definition set_flow (g : Z) (st : mstate) : mstate :=
  mkM g MAXUINT MAXUINT (ms_core st).

Definition init_state (root : Z) (c : core) : mstate := mkM root MAXUINT MAXUINT c.

Fixpoint lookup (fam : family) (g : Z) : option (list tstep) :=
  match fam with
  | [] => None
  | (n, steps) :: rest => if n =? g then Some steps else lookup rest g
  end.

(** [action.Apply(ctx, state)] on the whole state *)
Definition apply_action (a : action) (st : mstate) : mstate * outcome unit :=
  let '(c', _, r) := core_apply a (ms_core st) in
  let st1 := mkM (ms_flow st) (ms_step st) (ms_act st) c' in
  (match sets_flow a (ms_core st) with Some g => set_flow g st1 | None => st1 end, r).

(** the [for idx, action := range actions] loop *)
Fixpoint loop_actions (acts : list action) (idx : Z) (st : mstate) (iss : list icoord)
  : mstate * list icoord :=
  match acts with
  | [] => (st, iss)
  | a :: rest =>
      let st1 := mkM (ms_flow st) (ms_step st) idx (ms_core st) in
      let '(st2, r) := apply_action a st1 in
      let iss2 := iss ++ apply_issues idx r in
      if ms_step st2 =? MAXUINT then (st2, iss2)          (* the flow changed: break *)
      else loop_actions rest (idx + 1) st2 iss2
  end.

(** [stateNextStep]: new state and, when a step was executed, its identity,
    actions, issues and actor code.  [Panic] is an index out of range. *)
Definition state_next_step (fam : family) (st : mstate)
  : outcome (mstate * option (Z * list action * list icoord * option Z)) :=
  match lookup fam (ms_flow st) with
  | None => Ok (st, None)                                  (* Flow.Steps == nil *)
  | Some steps =>
      let st1 := mkM (ms_flow st) (wrap64 (ms_step st + 1)) (ms_act st) (ms_core st) in
      if ms_step st1 >=? Z.of_nat (length steps) then Ok (st1, None)
      else
        match nth_error steps (Z.to_nat (ms_step st1)) with
        | None => Panic
        | Some (sid, body) =>
            let '(acts, iss0) :=
              match actions_of body (ms_core st1) with
              | Ok a => (a, [])
              | _ => ([], [ICActions])                     (* safeWrapper caught a panic *)
              end in
            let '(st2, iss1) := loop_actions acts 0 st1 iss0 in
            let '(code, iss2) := actor_part (ms_core st2) in
            Ok (st2, Some (sid, acts, iss1 ++ iss2, code))
        end
  end.

(** [BootProcess.NextStep] *)
Definition next_step (fam : family) (st : mstate) (log : list entry)
  : outcome (mstate * list entry * bool) :=
  let old := c_measured (ms_core st) in
  match state_next_step fam st with
  | Ok (st', None) => Ok (st', log, false)
  | Ok (st', Some (sid, acts, iss, code)) =>
      let new := c_measured (ms_core st') in
      let md := if Nat.ltb (length old) (length new) then skipn (length old) new else [] in
      Ok (st', log ++ [mkEntry sid acts iss md (c_actor (ms_core st')) code], true)
  | Err e => Err e
  | Panic => Panic
  | OutOfFuel => OutOfFuel
  end.

(** [fuel] calls of NextStep, stopping at the first [false] ([Finish] is the
    limit).  The flag says whether NextStep returned false. *)
Fixpoint run (fuel : nat) (fam : family) (st : mstate) (log : list entry)
  : outcome (mstate * list entry * bool) :=
  match fuel with
  | O => Ok (st, log, false)
  | S f =>
      match next_step fam st log with
      | Ok (st', log', true) => run f fam st' log'
      | Ok (st', log', false) => Ok (st', log', true)
      | o => o
      end
  end.

(** * Specification *)

(** Actions of one step: apply in order; the action that sets the flow is the
    last one applied.  Returns issues, appended measurement ids, the new core
    and the flow switched to. *)
Fixpoint spec_actions (acts : list action) (idx : Z) (c : core)
  : list icoord * list Z * core * option Z :=
  match acts with
  | [] => ([], [], c, None)
  | a :: rest =>
      let '(c1, m1, r) := core_apply a c in
      match sets_flow a c with
      | Some g => (apply_issues idx r, m1, c1, Some g)
      | None =>
          let '(iss, m2, c2, sw) := spec_actions rest (idx + 1) c1 in
          (apply_issues idx r ++ iss, m1 ++ m2, c2, sw)
      end
  end.

Definition exec_step (ts : tstep) (c : core) : entry * core * option Z :=
  let '(sid, body) := ts in
  match actions_of body c with
  | Ok acts =>
      let '(iss, ms, c', sw) := spec_actions acts 0 c in
      let '(code, aiss) := actor_part c' in
      (mkEntry sid acts (iss ++ aiss) ms (c_actor c') code, c', sw)
  | _ =>
      let '(code, aiss) := actor_part c in
      (mkEntry sid [] (ICActions :: aiss) [] (c_actor c) code, c, None)
  end.

Definition flow_steps (fam : family) (g : Z) : list tstep :=
  match lookup fam g with Some s => s | None => [] end.

(** remaining-steps semantics, any family: at most [n] steps *)
Fixpoint spec_run (n : nat) (fam : family) (rest : list tstep) (c : core)
  : list entry * core * bool :=
  match n with
  | O => ([], c, false)
  | S n' =>
      match rest with
      | [] => ([], c, true)
      | ts :: more =>
          let '(e, c', sw) := exec_step ts c in
          let '(l, c'', d) :=
            spec_run n' fam (match sw with Some g => flow_steps fam g | None => more end) c' in
          (e :: l, c'', d)
      end
  end.

(** run the steps in order; after a switch continue with [k] (the new flow) *)
Fixpoint exec_steps (k : Z -> core -> list entry * core) (steps : list tstep) (c : core)
  : list entry * core :=
  match steps with
  | [] => ([], c)
  | ts :: more =>
      let '(e, c', sw) := exec_step ts c in
      let '(l, c'') :=
        match sw with
        | Some g => k g c'
        | None => exec_steps k more c'
        end in
      (e :: l, c'')
  end.

(** big-step semantics of a stratified family: flows only switch to flows
    further down the list (or to names outside the family = nil flows) *)
Fixpoint exec_flow (fam : family) (g : Z) (c : core) : list entry * core :=
  match fam with
  | [] => ([], c)
  | (n, steps) :: rest =>
      if n =? g then exec_steps (exec_flow rest) steps c else exec_flow rest g c
  end.

(** * Stratified families and their fuel bound *)

Fixpoint ffun_targets (fn : ffun) : list Z :=
  match fn with
  | FFlow g => [g]
  | FIf _ t e => ffun_targets t ++ ffun_targets e
  | FPanic => []
  end.

(** every flow the action can switch to, whatever the state *)
Definition action_targets (a : action) : list Z :=
  match a with
  | ASetFlow g => [g]
  | ACustom _ _ (Some g) _ => [g]
  | ASetFlowFunc _ fn => ffun_targets fn
  | _ => []
  end.

Fixpoint step_targets (s : step) : list Z :=
  match s with
  | SStatic acts => flat_map action_targets acts
  | SIf _ t e =>
      (match t with Some s' => step_targets s' | None => [] end) ++
      (match e with Some s' => step_targets s' | None => [] end)
  | SMerge ss =>
      (fix go (l : list (option step)) : list Z :=
         match l with
         | [] => []
         | None :: t => go t
         | Some s' :: t => step_targets s' ++ go t
         end) ss
  | SSetFlow g => [g]
  | SCustom _ _ acts => flat_map action_targets acts
  | SSetFlowFunc _ fn => ffun_targets fn
  | _ => []
  end.

Definition flow_targets (steps : list tstep) : list Z :=
  flat_map (fun ts : tstep => step_targets (snd ts)) steps.

Fixpoint zmem (x : Z) (l : list Z) : bool :=
  match l with [] => false | y :: t => (x =? y) || zmem x t end.

Fixpoint stratified_from (seen : list Z) (fam : family) : bool :=
  match fam with
  | [] => true
  | (n, steps) :: rest =>
      forallb (fun g => negb (zmem g (n :: seen))) (flow_targets steps)
      && stratified_from (n :: seen) rest
  end.
Definition stratified (fam : family) : bool := stratified_from [] fam.

Fixpoint total_steps (fam : family) : nat :=
  match fam with [] => O | (_, steps) :: rest => (length steps + total_steps rest)%nat end.

(** NextStep calls needed by [Finish]: one per executed step plus the last *)
Definition fuel_bound (fam : family) : nat := S (total_steps fam).

(** Go slices have fewer than 2^63 elements *)
Definition sized (fam : family) : Prop :=
  forall g steps, lookup fam g = Some steps -> Z.of_nat (length steps) <= MAXUINT.
