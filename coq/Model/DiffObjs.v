(** Object-level model of pkg/diff: [Diff] and [Analyze] take
    [*biosimage.BIOSImage] OBJECTS, and an object is more than its bytes:

      type BIOSImage struct { Content []byte; CacheParsed *uefi.UEFI;
                              CacheParseError error; Accessors ... }

    [Parse] fills the cache on its first call ([Analyze] calls it on the good
    image, pcr0tool calls it before [Diff]), [NewFromParsed] builds an object
    that is parsed from the start, and the parsed buffer ([CacheParsed.Buf()])
    is SHORTER than [Content] when the file is a vendor container (an "HP
    signed file": everything before the HPIMAGE magic is stripped by
    [uefi.ParseUEFIFirmwareBytes]).  [PhysMemMapper.Resolve] asks the object
    for its [Size()].  Model/Diff.v works on the two byte lists; here the same
    code is modelled on objects with their state, calls are chained into
    sessions on a pool of objects, and the theorems (Proofs/DiffObjs.v) say
    that the state an object is in never shows in a result.

    [uefi.ParseUEFIFirmwareBytes] is taken by contract: whether it succeeds on
    the content and how long the parsed buffer is ([pfact]) is an input
    observed by the harness.

    The functions are parametric in [szf], the model of [BIOSImage.Size()]:
    the code is [size_content] (= [len(img.Content)]).  [size_parsed_buffer]
    is NOT the code; it is the variant "a parsed image reports the size of its
    parsed buffer", kept to show that the theorems have teeth
    ([C20_object_size_matters_witness]). *)
From CSS Require Import Lib.Base Model.Diff.

(** * Image objects *)

Inductive pcache : Type :=
| PNone                 (* CacheParsed == nil && CacheParseError == nil *)
| PParsed (buflen : Z)  (* CacheParsed != nil, len(CacheParsed.Buf()) *)
| PFailed.              (* CacheParseError != nil *)

Record image : Type := mkImg {
  content : list Z;     (* Content *)
  pfact : option Z;     (* contract of ParseUEFIFirmwareBytes(Content): Some (len Buf) | None = error *)
  cache : pcache
}.

(** [biosimage.New(content)] *)
Definition new_image (c : list Z) (pf : option Z) : image := mkImg c pf PNone.

(** [biosimage.NewFromParsed(parsed)]: Content is [parsed.Buf()] *)
Definition new_from_parsed (buf : list Z) : image :=
  mkImg buf (Some (zlen buf)) (PParsed (zlen buf)).

(** [BIOSImage.Parse]: parses once, then answers from the cache *)
Definition parse_img (im : image) : image :=
  match cache im with
  | PNone => mkImg (content im) (pfact im)
                   (match pfact im with Some n => PParsed n | None => PFailed end)
  | _ => im
  end.

(** does [Parse] return a nil error (after the call) *)
Definition parsed_ok (im : image) : bool :=
  match cache im with PParsed _ => true | _ => false end.

(** [BIOSImage.Size]: [uint64(len(img.Content))] *)
Definition size_content (im : image) : Z := zlen (content im).

(** not the code (see the header) *)
Definition size_parsed_buffer (im : image) : Z :=
  match cache im with PParsed n => n | _ => zlen (content im) end.

(** * Diff and Analyze on objects *)

Section Sized.
Variable szf : image -> Z.

(** [memMapper.Resolve(firmwareGood, ...)], [memMapper.Resolve(firmwareBad, ...)]
    and the two slice expressions on [firmwareGood.Content] / [firmwareBad.Content] *)
Definition slices_obj (mp : mapper) (g b : image) (m : range) : outcome (list (Z * Z)) :=
  let og := resolve mp (szf g) (off m) in
  let ob := resolve mp (szf b) (off m) in
  bind (slice (content g) og (wrap64 (og + len m))) (fun gs =>
  bind (slice (content b) ob (wrap64 (ob + len m))) (fun bs =>
  Ok (combine gs bs))).

Fixpoint diff_go_obj (ign : list Z) (mp : mapper) (g b : image) (ms : list range)
  : outcome (list range) :=
  match ms with
  | [] => Ok []
  | m :: t =>
      bind (slices_obj mp g b m) (fun ps =>
      bind (diff_go_obj ign mp g b t) (fun rest =>
      Ok (scan ign (off m) (len m) ps 0 true 0 ++ rest)))
  end.

(** [Diff(memRanges, memMapper, firmwareGood, firmwareBad, ignoreByteSet)]:
    reads the objects only *)
Definition diff_obj_with (srt : list range -> list range)
  (ranges : list range) (mp : mapper) (g b : image) (ign : list Z) : outcome (list range) :=
  diff_go_obj ign mp g b (sort_and_merge srt ranges).

Fixpoint entries_go_obj (mp : mapper) (ms : list measurement) (g b : image) (rs : list range)
  : outcome (list entry) :=
  match rs with
  | [] => Ok []
  | rM :: t =>
      bind (slices_obj mp g b rM) (fun ps =>
      bind (entries_go_obj mp ms g b t) (fun rest =>
      Ok (mk_entry ms rM ps :: rest)))
  end.

(** [Analyze(diffMemRanges, memMapper, measurements, goodFirmware, badFirmware)]:
    the ranges are resolved (both [Size()] calls) BEFORE [goodFirmware.Parse()],
    so the sizes are those of the objects as they came in; the good object
    leaves the call parsed (or with the parse error cached).  Returns the new
    state of the good object and the result. *)
Definition analyze_obj_with (srt : list range -> list range)
  (ranges : list range) (mp : mapper) (ms : list measurement) (g b : image)
  : image * outcome report :=
  let g' := parse_img g in
  (g',
   if negb (parsed_ok g') then Err 1
   else bind (entries_go_obj mp ms g b (analyze_ranges srt ranges)) (fun es => Ok (mk_report es))).

(** * Sessions: calls chained on a pool of objects *)

Inductive op : Type :=
| OpParse (i : nat)                       (* pool[i].Parse() *)
| OpSize (i : nat)                        (* pool[i].Size() *)
| OpDiff (ranges : list range) (mp : mapper) (g b : nat) (ign : list Z)
                                          (* Diff(ranges, mp, pool[g], pool[b], ign) *)
| OpAnalyze (ranges : list range) (mp : mapper) (ms : list measurement) (g b : nat).
                                          (* Analyze(ranges, mp, ms, pool[g], pool[b]) *)

Inductive res : Type :=
| RParse (ok : bool)
| RSize (n : Z)
| RDiff (o : outcome (list range))
| RAnalyze (o : outcome report)
| RNoObject.                              (* index outside the pool: not a call *)

Fixpoint set_nth {A} (n : nat) (x : A) (l : list A) : list A :=
  match l, n with
  | [], _ => []
  | _ :: t, O => x :: t
  | h :: t, S n' => h :: set_nth n' x t
  end.

Definition step_with (srt : list range -> list range) (pool : list image) (o : op)
  : list image * res :=
  match o with
  | OpParse i =>
      match nth_error pool i with
      | Some im => let im' := parse_img im in (set_nth i im' pool, RParse (parsed_ok im'))
      | None => (pool, RNoObject)
      end
  | OpSize i =>
      match nth_error pool i with
      | Some im => (pool, RSize (szf im))
      | None => (pool, RNoObject)
      end
  | OpDiff ranges mp g b ign =>
      match nth_error pool g, nth_error pool b with
      | Some ig, Some ib => (pool, RDiff (diff_obj_with srt ranges mp ig ib ign))
      | _, _ => (pool, RNoObject)
      end
  | OpAnalyze ranges mp ms g b =>
      match nth_error pool g, nth_error pool b with
      | Some ig, Some ib =>
          let r := analyze_obj_with srt ranges mp ms ig ib in
          (set_nth g (fst r) pool, RAnalyze (snd r))
      | _, _ => (pool, RNoObject)
      end
  end.

(** the pool after a history of calls *)
Fixpoint after_with (srt : list range -> list range) (pool : list image) (ops : list op)
  : list image :=
  match ops with
  | [] => pool
  | o :: t => after_with srt (fst (step_with srt pool o)) t
  end.

(** the results of a session, call by call *)
Fixpoint run_with (srt : list range -> list range) (pool : list image) (ops : list op)
  : list res :=
  match ops with
  | [] => []
  | o :: t => let s := step_with srt pool o in snd s :: run_with srt (fst s) t
  end.

End Sized.

(** the code: [Size()] is the length of [Content], [Ranges.Sort] by insertion *)
Definition diff_obj := diff_obj_with size_content isort.
Definition analyze_obj := analyze_obj_with size_content isort.
Definition step := step_with size_content isort.
Definition after := after_with size_content isort.
Definition run := run_with size_content isort.
