(** Model of the decision cores of the platform-validation predicates (C05):
    pkg/test/{fit.go,memory.go,tpm.go,cpu.go}, pkg/provisioning/bootguard/
    {me.go,hfsts.go,bootguard.go}.  Executable definitions only; proofs live in
    Proofs/Verdicts.v.

    Every predicate is modelled as a function of the VALUES IT READS (FIT
    entries, register words, NV-public blobs, manifest fields), with the code's
    fixed-width arithmetic written out ([wrap16/32/64]).  What the Go checks
    return is [(bool, error, error)] (result, test error, internal error) or
    [(bool, error)]; the model returns the projection [V ok e1 e2] (the two
    booleans say whether the errors are non-nil) or [VPanic]. *)
From CSS Require Import Lib.Base.

Inductive verd : Type :=
| V (ok : bool) (e1 e2 : bool)
| VPanic.

Definition pass : verd := V true false false.   (* true, nil, nil *)
Definition fail : verd := V false true false.   (* false, test error, nil *)
Definition ierr : verd := V false false true.   (* false, nil, internal error *)
Definition warn : verd := V true true false.    (* true with a test error (tpm.go WriteDefine cases) *)

Definition verd_eqb (a b : verd) : bool :=
  match a, b with
  | V o e f, V o' e' f' => Bool.eqb o o' && Bool.eqb e e' && Bool.eqb f f'
  | VPanic, VPanic => true
  | _, _ => false
  end.

Definition bit (w i : Z) : bool := Z.testbit w i.
Definition bits (w lo mask : Z) : Z := Z.land (Z.shiftr w lo) mask.
Definition MiB : Z := 1048576.

(** * 1. FIT (pkg/test/fit.go) *)

(** One FIT entry header as the checks see it: type (7 bits, [hdr.Type()]),
    Address (uint64), Size (24-bit field), Version (uint16). *)
Definition fent : Type := (Z * Z * Z * Z)%type.
Definition ft (e : fent) : Z := let '(t, _, _, _) := e in t.
Definition fa (e : fent) : Z := let '(_, a, _, _) := e in a.
Definition fs (e : fent) : Z := let '(_, _, s, _) := e in s.
Definition fv (e : fent) : Z := let '(_, _, _, v) := e in v.

Definition T_MICROCODE : Z := 1.
Definition T_SACM : Z := 2.
Definition T_IBB : Z := 7.
Definition T_BIOSPOLICY : Z := 9.
Definition T_TXTPOLICY : Z := 10.

Definition RESET_VECTOR : Z := 4294967280.   (* 0xFFFFFFF0 *)
Definition FIT_VECTOR : Z := 4294967232.     (* 0xFFFFFFC0 *)
Definition VALID_FIT_RANGE : Z := 4278190080. (* 0xFF000000 *)
Definition FOUR_GIB : Z := 4294967296.

(** Physical memory as the ACM size reader sees it: address of a 32-bit
    little-endian word -> the word; an address without entry cannot be read. *)
Definition physmem : Type := list (Z * Z).
Fixpoint mem_lookup (a : Z) (m : physmem) : option Z :=
  match m with
  | [] => None
  | (k, v) :: t => if k =? a then Some v else mem_lookup a t
  end.

Definition ACM_SIZE_OFF : Z := 24.            (* fit.EntrySACMDataCommon{}.SizeBinaryOffset() *)
Definition W63 : Z := 9223372036854775808.

(** Size of a startup ACM (type 2) as fiano's [EntrySACM.CustomGetDataSegmentSize]
    reads it through [txtAPIFirmwareReadSeeker]: [Seek(0, SeekEnd)] gives 4 GiB,
    so the data offset is the physical address; [EntrySACMParseSizeFrom] seeks to
    [int64(offset) + 24] (an error when that is negative or above 4 GiB), reads
    the uint32 size field there (an error when the memory cannot be read) and
    returns [size << 2] as uint32. *)
Definition acm_raw_size (mem : physmem) (e : fent) : outcome Z :=
  let r := if fa e <? W63 then fa e + ACM_SIZE_OFF else fa e + ACM_SIZE_OFF - W64 in
  if (r <? 0) || (r >? FOUR_GIB) then Err 1
  else match mem_lookup r mem with
       | None => Err 2
       | Some d => Ok (wrap32 (d * 4))
       end.

(** [getFITDataSize]: the data size of a BIOS startup module entry (type 7) is
    the header field times 16, that of a startup ACM entry is read from the
    module header in memory; an entry whose range [address + size] leaves the
    64-bit address space is rejected.  The error becomes the internal error of
    the check.  The checks query no other type. *)
Definition dsz (mem : physmem) (e : fent) : outcome Z :=
  bind (if ft e =? T_SACM then acm_raw_size mem e else Ok (fs e * 16)) (fun s =>
    if wrap64 (fa e + s) <? fa e then Err 3 else Ok s).

Section FIT.
Variable dsz : fent -> outcome Z.

(** [hdr.Address.Pointer() + size] in uint64 *)
Definition end64 (a s : Z) : Z := wrap64 (a + s).

(** the body of the inner loops of NoIBBOverlap / NoBIOSACMOverlap:
    [true] iff the code decides "overlap" ([!a && !b]); the size of [hdr1] is
    read first *)
Definition overlap_test (e1 e2 : fent) : outcome bool :=
  bind (dsz e1) (fun s1 =>
  bind (dsz e2) (fun s2 =>
    let a := fa e1 >=? end64 (fa e2) s2 in
    let b := fa e2 >=? end64 (fa e1) s1 in
    Ok (negb a && negb b))).

(** inner loop over the entries [tl] *)
Fixpoint inner (t2 : Z) (h : fent) (tl : list fent) : outcome bool :=
  match tl with
  | [] => Ok false
  | e :: tl' =>
      if ft e =? t2 then
        bind (overlap_test h e) (fun o => if o then Ok true else inner t2 h tl')
      else inner t2 h tl'
  end.

(** NoIBBOverlap: every BIOS startup module against the modules listed after it ([i < j]) *)
Fixpoint pairs_check (t2 : Z) (l : list fent) : outcome bool :=
  match l with
  | [] => Ok false
  | h :: tl =>
      if ft h =? T_IBB then
        bind (inner t2 h tl) (fun o => if o then Ok true else pairs_check t2 tl)
      else pairs_check t2 tl
  end.

(** NoBIOSACMOverlap: every BIOS startup module against every entry of type [t2] of the
    whole table [full] *)
Fixpoint pairs_all (t2 : Z) (full l : list fent) : outcome bool :=
  match l with
  | [] => Ok false
  | h :: tl =>
      if ft h =? T_IBB then
        bind (inner t2 h full) (fun o => if o then Ok true else pairs_all t2 full tl)
      else pairs_all t2 full tl
  end.

Definition verd_of_found (o : outcome bool) : verd :=
  match o with
  | Ok true => fail
  | Ok false => pass
  | Err _ => ierr
  | _ => VPanic
  end.

Definition no_ibb_overlap (l : list fent) : verd := verd_of_found (pairs_check T_IBB l).
Definition no_acm_overlap (l : list fent) : verd := verd_of_found (pairs_all T_SACM l l).

(** [size, err := getFITDataSize(hdr); addr <= lo && addr + size >= hi] for some BIOS
    startup module entry *)
Fixpoint covers (lo hi : Z) (l : list fent) : outcome bool :=
  match l with
  | [] => Ok false
  | e :: tl =>
      if ft e =? T_IBB then
        bind (dsz e) (fun s =>
          if (fa e <=? lo) && (end64 (fa e) s >=? hi) then Ok true else covers lo hi tl)
      else covers lo hi tl
  end.

Definition verd_of_covers (o : outcome bool) : verd :=
  match o with
  | Ok true => pass
  | Ok false => fail
  | Err _ => ierr
  | _ => VPanic
  end.

Definition ibb_covers_rv (l : list fent) : verd := verd_of_covers (covers RESET_VECTOR (RESET_VECTOR + 4) l).
Definition ibb_covers_fv (l : list fent) : verd := verd_of_covers (covers FIT_VECTOR (FIT_VECTOR + 4) l).
(** [uint64(fitPointer) + uint64(len(fitHeaders)*16)] *)
Definition fit_end (fitptr : Z) (l : list fent) : Z := fitptr + Z.of_nat (length l) * 16.
Definition ibb_covers_fit (fitptr : Z) (l : list fent) : verd :=
  verd_of_covers (covers fitptr (fit_end fitptr l) l).

Fixpoint acm_above_4g (l : list fent) : outcome bool :=
  match l with
  | [] => Ok false
  | e :: tl =>
      if ft e =? T_SACM then
        bind (dsz e) (fun s => if end64 (fa e) s >? FOUR_GIB then Ok true else acm_above_4g tl)
      else acm_above_4g tl
  end.
Definition acm_below_4g (l : list fent) : verd := verd_of_found (acm_above_4g l).
End FIT.

Definition count_type (t : Z) (l : list fent) : Z :=
  Z.of_nat (length (filter (fun e => ft e =? t) l)).

Definition has_type (t : Z) (l : list fent) : verd :=
  if 0 <? count_type t l then pass else fail.

(** HasBIOSPolicy: TXTMode 0 = AutoPromotion *)
Definition has_bios_policy (txtmode : Z) (l : list fent) : verd :=
  if txtmode =? 0 then pass
  else if count_type T_BIOSPOLICY l =? 1 then pass else fail.

(** PolicyAllowsTXT: the first TXT policy record decides; [rd] is the byte read
    at its address ([None]: the read fails) *)
Fixpoint policy_allows_txt (rd : option Z) (l : list fent) : verd :=
  match l with
  | [] => pass
  | e :: tl =>
      if ft e =? T_TXTPOLICY then
        if fv e =? 0 then ierr
        else if fv e =? 1 then
          match rd with
          | None => ierr
          | Some b => V (Z.odd b) false false
          end
        else fail
      else policy_allows_txt rd tl
  end.

(** FITVectorIsSet as a function of the pointer read at 0xFFFFFFC0
    ([None]: the read fails) *)
Definition fit_vector_is_set (p : option Z) : verd :=
  match p with
  | None => ierr
  | Some p =>
      if p <? VALID_FIT_RANGE then fail
      else if p >=? FIT_VECTOR then fail
      else pass
  end.

(** HasFIT bounds: [fitptr] (uint32), [n] = Size field of the first entry (24
    bits); [rd1]/[rd2]: whether the header / the whole table can be read *)
Definition has_fit (fitptr n : Z) (rd1 rd2 : bool) : verd :=
  if negb rd1 then ierr
  else if fitptr + n * 16 >? FOUR_GIB then fail
  else if fitptr + n * 16 >? FIT_VECTOR then fail
  else if negb rd2 then fail
  else if n =? 0 then fail   (* ParseTable of an empty blob gives a nil table *)
  else pass.

(** * 2. TXT memory (pkg/test/memory.go) — all inputs are uint32 register values *)

Definition LEGACY_MIN_HEAP : Z := 917504.   (* 0xE0000 *)
Definition MIN_SINIT : Z := 65536.          (* 0x10000 *)

Definition heap_valid (hb hs sb ss mj : Z) : verd :=
  if hb >=? FOUR_GIB then fail
  else if hb + hs >=? FOUR_GIB then fail               (* uint64(HeapBase)+uint64(HeapSize) *)
  else if hs <? LEGACY_MIN_HEAP then fail
  else if sb >=? FOUR_GIB then fail
  else if Z.land sb 4095 >? 0 then fail
  else if sb + ss >=? FOUR_GIB then fail
  else if ss <? MIN_SINIT then fail
  else if mj >=? FOUR_GIB then fail
  else if sb >=? hb then fail
  else if (sb >? 0) && negb (wrap32 (sb + ss) =? hb) then fail
  else pass.

(** TXTMemoryIsDPR: uint64 arithmetic; DPR size = bits 11:4 MiB, top = bits 31:20 (+1) MiB *)
Definition dpr_size (dpr : Z) : Z := bits dpr 4 255 * MiB.
Definition dpr_limit (dpr : Z) : Z := (bits dpr 20 4095 + 1) * MiB.
Definition dpr_base (dpr : Z) : Z := wrap64 (dpr_limit dpr - dpr_size dpr).

Definition memory_is_dpr (dpr hb hs sb ss : Z) : verd :=
  let size := dpr_size dpr in
  let limit := dpr_limit dpr in
  let base := dpr_base dpr in
  if size <? 3 * MiB then fail
  else if base >? hb then fail
  else if (sb >? 0) && (base >? sb) then fail
  else if limit <? hb + hs then fail
  else if (sb >? 0) && (limit <? sb + ss) then fail
  else if negb (limit =? hb + hs) then fail
  else if 2 * MiB + hs + ss >? size then fail
  else pass.

(** hwapi.ReadHostBridgeTseg as shipped (go-linux-lowlevel-hw): the limit is
    only assigned on Broadwell-DE ([bdw]); on every "Sandy Bridge compatible"
    host bridge it stays 0. *)
Definition tseg_limit (bdw : bool) (raw : Z) : Z :=
  if bdw then wrap32 (raw + MiB) else 0.

Definition U32MAX : Z := 4294967295.

Definition valid_smrr (physbase_msr physmask_msr tsegbase tseglimit : Z) : verd :=
  let pb := bits physbase_msr 12 1048575 in
  let pm := bits physmask_msr 12 1048575 in
  let m := wrap32 (pm * 4096) in
  let nm := U32MAX - m in
  let b := wrap32 (pb * 4096) in
  if pm =? 0 then fail
  else if pb =? 0 then fail
  else if (tsegbase =? 0) || (tsegbase =? U32MAX) then fail
  else if (tseglimit =? 0) || (tseglimit =? U32MAX) then fail
  else if negb (Z.land tsegbase nm =? 0) then fail
  else if negb (tsegbase =? b) then fail
  else if negb (Z.land tseglimit nm =? 0) then fail
  else if negb (Z.land (wrap32 (tseglimit - 1)) m =? b) then fail
  else pass.

(** * 3. TPM NV indices and LCP policies (pkg/test/tpm.go) *)

(** [checkTPM2NVAttr]: [mask|optional == want|optional] *)
Definition nvattr (mask want opt : Z) : bool :=
  Z.lor mask opt =? Z.lor want opt.

Definition ATTR_PPWRITE : Z := 1.
Definition ATTR_OWNERWRITE : Z := 2.
Definition ATTR_POLICYWRITE : Z := 8.
Definition ATTR_POLICYDELETE : Z := 1024.
Definition ATTR_WRITESTCLEAR : Z := 16384.
Definition ATTR_AUTHREAD : Z := 262144.
Definition ATTR_NODA : Z := 33554432.
Definition ATTR_WRITTEN : Z := 536870912.
Definition ATTR_PLATFORMCREATE : Z := 1073741824.

Definition PS20_ATTR : Z :=
  ATTR_POLICYWRITE + ATTR_POLICYDELETE + ATTR_AUTHREAD + ATTR_NODA + ATTR_PLATFORMCREATE + ATTR_WRITTEN.
Definition AUX20_ATTR : Z :=
  ATTR_POLICYWRITE + ATTR_POLICYDELETE + ATTR_WRITESTCLEAR + ATTR_AUTHREAD + ATTR_NODA + ATTR_PLATFORMCREATE.
Definition PO20_ATTR : Z := ATTR_OWNERWRITE + ATTR_POLICYWRITE + ATTR_AUTHREAD + ATTR_NODA.

(** [d2.NameAlg.Hash()] of go-tpm (legacy/tpm2, table hashInfo) followed by
    [crypto.Hash.Size()]: SHA1, SHA256, SHA384, SHA512.  SHA3-256/384/512 are in
    that table too, but their Go implementation is not linked into the binary
    ("not available"): an error like for every other id (SM3 included). *)
Definition tpm_hash_size (alg : Z) : option Z :=
  if alg =? 4 then Some 20 else if alg =? 11 then Some 32
  else if alg =? 12 then Some 48 else if alg =? 13 then Some 64 else None.

Fixpoint be (l : list Z) (acc : Z) : Z :=
  match l with
  | [] => acc
  | x :: t => be t (acc * 256 + x)
  end.

(** the TPM 2.0 NV-public blob as the checks read it: NVIndex(4) NameAlg(2)
    Attributes(4) hashSize(2) hash(hashSize) DataSize(2), big endian;
    [None] = one of the reads fails *)
Definition parse_nvpub (b : list Z) : option (Z * Z * list Z * Z) :=
  if (Z.of_nat (length b) <? 12) then None
  else
    let namealg := be (firstn 2 (skipn 4 b)) 0 in
    let attrs := be (firstn 4 (skipn 6 b)) 0 in
    let hsz := be (firstn 2 (skipn 10 b)) 0 in
    let rest := skipn 12 b in
    if Z.of_nat (length rest) <? hsz + 2 then None
    else
      let h := firstn (Z.to_nat hsz) rest in
      let ds := be (firstn 2 (skipn (Z.to_nat hsz) rest)) 0 in
      Some (namealg, attrs, h, ds).

(** PSIndexConfig / AUXIndexConfig / POIndexConfig, TPM 2.0 branch.
    [which]: 0 PS, 1 AUX, 2 PO *)
Definition idx_want (which : Z) : Z :=
  if which =? 0 then PS20_ATTR else if which =? 1 then AUX20_ATTR else PO20_ATTR.
Definition idx_size (which hsz : Z) : Z :=
  if which =? 1 then wrap16 (wrap16 (wrap16 hsz * 2) + 40) else wrap16 (wrap16 hsz + 38).

Definition nv_index_config20 (which : Z) (blob : list Z) : verd :=
  match parse_nvpub blob with
  | None => ierr
  | Some (namealg, attrs, _, ds) =>
      if negb (nvattr attrs (idx_want which) ATTR_WRITTEN) then fail
      else match tpm_hash_size namealg with
           | None => fail                      (* unsupported name algorithm: test error *)
           | Some hsz =>
               if negb (ds =? idx_size which hsz) then fail else pass
           end
  end.

(** TPM 1.2 branch: [p1]/[p2] the two PCR masks as integers, [size], permission
    [attrs], the three flags *)
Definition NVPER_WRITESTCLEAR : Z := 8192.
Definition nv_index_config12 (which : Z) (p1 p2 size attrs : Z) (rst wst wd : bool) : verd :=
  if which =? 0 then
    if negb (p1 =? 0) || negb (p2 =? 0) then fail
    else if negb (size =? 54) then fail
    else if negb (attrs =? NVPER_WRITESTCLEAR) then fail
    else if rst then fail
    else if wst then fail
    else if negb wd then warn
    else pass
  else if which =? 1 then
    if negb (p1 =? 0) || negb (p2 =? 0) then fail
    else if negb (attrs =? 0) then fail
    else if negb (size =? 64) then fail
    else if rst then fail
    else if wst then fail
    else if wd then warn
    else pass
  else
    (* PO: permissions and size only *)
    if negb (attrs =? 0) then fail
    else if negb (size =? 54) then fail
    else pass.

(** AUXTPM2IndexCheckHash *)
Definition AUX_HASH : list Z :=
  [239; 154; 38; 252; 34; 209; 174; 140; 236; 255; 89; 233; 72; 26; 193; 236;
   83; 61; 190; 34; 139; 236; 109; 23; 147; 15; 76; 178; 204; 91; 151; 36].
Definition aux_index_hash (blob : list Z) : verd :=
  match parse_nvpub blob with
  | None => ierr
  | Some (_, _, h, _) => if zlist_eqb h AUX_HASH then pass else fail
  end.

(** PSIndexHasValidLCP / POIndexHasValidLCP after [tools.ParsePolicy]:
    version <= 0x204 is parsed as LCP_POLICY, >= 0x300 as LCP_POLICY2, the gap
    is a parse error *)
Definition LCP_V2 : Z := 516.   (* 0x0204 *)
Definition LCP_V3 : Z := 768.   (* 0x0300 *)

Definition lcp_valid1 (version hashalg ptype sinitmin polctrl maxsinit : Z) (hashzero : bool) : verd :=
  if version >=? LCP_V2 then fail
  else if negb (hashalg =? 0) then fail
  else if negb (ptype =? 1) && negb (ptype =? 0) then fail
  else if sinitmin =? 0 then fail
  else if (ptype =? 0) && (polctrl =? 0) then fail
  else if negb (maxsinit =? 0) then fail
  else if hashzero then fail
  else pass.

(** LCP_POLICY2 *)
Definition lcp_valid2 (preset version hashalg ptype hmask smask : Z) : verd :=
  if version <? LCP_V3 then fail
  else if negb (hashalg =? preset) then fail
  else if negb (ptype =? 1) && negb (ptype =? 0) then fail
  else if hmask =? 0 then fail
  else if smask =? 0 then fail
  else pass.

(** SINITACMcomplyTPMSpec (fit.go).  [sinitACM] parses the SINIT region and
    returns the module found at its start.  [caps1]: TPM capabilities word of
    that SINIT ACM; [caps2]: those of a module stored behind it in the region, if
    any (not looked at); [tpm]: PreSet.TPM (1 = TPM 1.2, 2 = TPM 2.0);
    [present]: the "TPM is present" test has passed.
    [1 >> caps & x] parses as [(1 >> caps) & x]. *)
Definition FAM_DTPM12 : Z := 1.    (* tools.TPMFamilyDTPM12   0x0001 *)
Definition FAM_DTPM20 : Z := 16.   (* tools.TPMFamilyDTPM20   0x0010 *)
Definition FAM_BOTH : Z := 17.     (* tools.TPMFamilyDTPMBoth 0x0011 *)
Definition sinit_tpm_spec (caps1 : Z) (caps2 : option Z) (tpm : Z) (present : bool) : verd :=
  let one_shr := if caps1 =? 0 then 1 else 0 in
  let r12 := Z.land one_shr (Z.lor FAM_DTPM12 FAM_BOTH) in
  let r20 := Z.land one_shr (Z.lor FAM_DTPM20 FAM_BOTH) in
  if (r12 =? 0) && (tpm =? 1) && present then pass
  else if (r20 =? 0) && (tpm =? 2) && present then pass
  else fail.

(** * 4. Boot Guard / ME verdicts (pkg/provisioning/bootguard) — results are
      (bool, error): [V ok err false] *)

Record fws6 : Type := {
  f_protect_bios : bool;      (* bit 3 *)
  f_bypass : bool;            (* bit 4 *)
  f_invalid : bool;           (* bit 5 *)
  f_eep : Z;                  (* bits 7:6 *)
  f_bpmsvn : Z;               (* bits 21:18 *)
  f_kmsvn : Z;                (* bits 17:14 *)
  f_kmid : Z;                 (* bits 25:22 *)
  f_bg_disable : bool;        (* bit 28 *)
  f_fpf_lock : bool           (* bit 30 *)
}.

Definition decode_hfsts6 (w : Z) : fws6 := {|
  f_protect_bios := bit w 3;
  f_bypass := bit w 4;
  f_invalid := bit w 5;
  f_eep := bits w 6 3;
  f_bpmsvn := bits w 18 15;
  f_kmsvn := bits w 14 15;
  f_kmid := bits w 22 15;
  f_bg_disable := bit w 28;
  f_fpf_lock := bit w 30
|}.

Record bginfo : Type := {
  b_force_anchor : bool;      (* msr bit 4 *)
  b_verified : bool;          (* bit 6 *)
  b_revoked : bool;           (* bit 7 *)
  b_capability : bool         (* bit 32 *)
}.

Definition decode_bgmsr (w : Z) : bginfo := {|
  b_force_anchor := bit w 4;
  b_verified := bit w 6;
  b_revoked := bit w 7;
  b_capability := bit w 32
|}.

Definition bad : verd := V false true false.
Definition good : verd := V true false false.

(** [v]: bgheader.BootGuardVersion, 1 = Version10, 2 = Version20 *)
Definition sane_me (v : Z) (f : fws6) (b : bginfo) : verd :=
  if f_bypass f then bad
  else if f_invalid f then bad
  else if negb (f_fpf_lock f) then bad
  else if (f_eep f =? 0) || (f_eep f =? 2) then bad
  else if negb (f_protect_bios f) then bad
  else if (v =? 2) && negb (b_force_anchor b) then bad
  else if negb (b_verified b) then bad
  else if b_revoked b then bad
  else if f_bg_disable f then bad
  else if negb (b_capability b) then bad
  else good.

Definition strict_sane_me (v : Z) (f : fws6) (b : bginfo) : verd :=
  if negb (f_eep f =? 3) then bad else sane_me v f b.

Definition sane_me_raw (strict : bool) (v hfsts6 msr : Z) : verd :=
  (if strict then strict_sane_me else sane_me) v (decode_hfsts6 hfsts6) (decode_bgmsr msr).

(** the seven HFSTS6 bits the verdict reads *)
Definition ME_BITS : list Z := [3; 4; 5; 6; 7; 28; 30].
Fixpoint set_bits (base : Z) (pos : list Z) (k : Z) : Z :=
  match pos with
  | [] => base
  | p :: t =>
      let base' := if Z.odd k then Z.lor base (Z.shiftl 1 p) else Z.land base (Z.lnot (Z.shiftl 1 p)) in
      set_bits base' t (Z.div2 k)
  end.
Definition sane_me_all (strict : bool) (v msr base : Z) : list bool :=
  map (fun k => verd_eqb (sane_me_raw strict v (set_bits base ME_BITS k) msr) good) (seqZ 0 128).

(** ValidateMEAgainstManifests: manifest values are uint8 widened to uint32 *)
Definition validate_me (v : Z) (f : fws6) (bpmsvn kmsvn kmid : Z) : verd :=
  if v =? 1 then
    if negb (f_bpmsvn f =? bpmsvn) then bad
    else if negb (f_kmsvn f =? kmsvn) then bad
    else if negb (f_kmid f =? kmid) then bad
    else good
  else if v =? 2 then
    if f_bpmsvn f >? bpmsvn then bad
    else if negb (f_kmsvn f =? kmsvn) then bad
    else if negb (f_kmid f =? kmid) then bad
    else good
  else bad.   (* "can't identify bootguard header" *)

(** ** Where the ME status words come from (hfsts.go: readHFSTSFromPCIConfigSpace)

    The verdicts above take the decoded HFSTS word; the code obtains it by walking the
    visible PCI devices ([hw.PCIEnumerateVisibleDevices], in the order the platform hands
    them over) with a callback that reads the config dword at [hfstsOffset[n-1]] of a device
    whose device number is 16 (CSME) or 22 (SPS) and whose function is 0 - the bus number is
    not looked at - and asks the walk to stop.  A platform is the list of its visible devices
    in enumeration order; [p_cfg]: the six dwords at config offsets 0x40, 0x48, 0x60, 0x64,
    0x68, 0x6c (HFSTS1..6), [None] when the config space of the device cannot be read;
    [enum_err]: the enumeration itself reports an error after the last listed device (never
    reached when the callback stopped the walk before). *)
Record pcidev : Type := mkdev { p_bus : Z; p_dev : Z; p_fn : Z; p_cfg : option (list Z) }.

Definition ME_CSME_DEV : Z := 16.
Definition ME_SPS_DEV : Z := 22.
Definition is_me (d : pcidev) : bool :=
  ((p_dev d =? ME_CSME_DEV) && (p_fn d =? 0)) || ((p_dev d =? ME_SPS_DEV) && (p_fn d =? 0)).

(** what the closure has captured: [HWord w] = (4 bytes, nil error), [HErr] = a non-nil error *)
Inductive hres : Type := HErr | HWord (w : Z).

Definition hfsts_word (n : Z) (d : pcidev) : option Z :=
  match p_cfg d with
  | None => None
  | Some ws => nth_error ws (Z.to_nat (n - 1))
  end.
Definition read_dev (n : Z) (d : pcidev) : hres :=
  match hfsts_word n d with Some w => HWord w | None => HErr end.

(** the walk: captured state so far -> (captured state, walk was stopped by the callback);
    the callback returns true after the read of a matching device, failed or not *)
Fixpoint pci_walk (n : Z) (devs : list pcidev) (st : hres) : hres * bool :=
  match devs with
  | [] => (st, false)
  | d :: t => if is_me d then (read_dev n d, true) else pci_walk n t st
  end.

(** [hfsts := make([]byte, 4)]; [err = nil], [found = false] before the walk.  The walk is
    stopped exactly when a device matched ([found = true]); a walk that was not stopped ends in
    "couldn't enumerate PCI devices" (enumeration error) or "couldn't find Intel ME device"
    (repair f889c7f, former finding C05-HFSTS-no-ME-device: the made-up all-zero status) *)
Definition read_hfsts (n : Z) (devs : list pcidev) (enum_err : bool) : hres :=
  if (n <? 1) || (6 <? n) then HErr
  else
    let '(st, found) := pci_walk n devs (HWord 0) in
    if negb found && enum_err then HErr
    else if negb found then HErr
    else st.

(** the reader before f889c7f: without a match the zero-initialised buffer was handed out *)
Definition read_hfsts_legacy (n : Z) (devs : list pcidev) (enum_err : bool) : hres :=
  if (n <? 1) || (6 <? n) then HErr
  else
    let '(st, stopped) := pci_walk n devs (HWord 0) in
    if negb stopped && enum_err then HErr else st.

(** GetHFSTS6 / GetHFSTS1 as the harness observes them: the error, or the status word put
    together again from the decoded fields (HFSTS6: all 32 bits; HFSTS1: bits 27..0) *)
Definition get_hfsts6 (devs : list pcidev) (ee : bool) : option Z :=
  match read_hfsts 6 devs ee with HErr => None | HWord w => Some w end.
Definition get_hfsts1 (devs : list pcidev) (ee : bool) : option Z :=
  match read_hfsts 1 devs ee with HErr => None | HWord w => Some (Z.land w 268435455) end.

(** the verdicts on a platform, composed as pkg/test BootGuardSaneMEConfig /
    BootGuardValidateME compose them: no status, no success *)
Definition sane_me_plat (strict : bool) (v : Z) (devs : list pcidev) (ee : bool) (msr : Z) : verd :=
  match read_hfsts 6 devs ee with
  | HErr => bad
  | HWord w => sane_me_raw strict v w msr
  end.
Definition validate_me_plat (v : Z) (devs : list pcidev) (ee : bool) (bpmsvn kmsvn kmid : Z) : verd :=
  match read_hfsts 6 devs ee with
  | HErr => bad
  | HWord w => validate_me v (decode_hfsts6 w) bpmsvn kmsvn kmid
  end.

(** the pkg/test entry points BootGuardSaneMEConfig / BootGuardValidateME (after the
    manifests were read from the firmware image; [v]: their Boot Guard version): an
    unavailable status is the test error alone, a negative verdict comes with the verdict's
    own error as second error *)
Definition test_wrap (h : hres) (f : Z -> verd) : verd :=
  match h with
  | HErr => fail
  | HWord w => if verd_eqb (f w) good then pass else V false true true
  end.
Definition test_sane_me_plat (strict : bool) (v : Z) (devs : list pcidev) (ee : bool) (msr : Z) : verd :=
  test_wrap (read_hfsts 6 devs ee) (fun w => sane_me_raw strict v w msr).
Definition test_validate_me_plat (v : Z) (devs : list pcidev) (ee : bool) (bpmsvn kmsvn kmid : Z) : verd :=
  test_wrap (read_hfsts 6 devs ee) (fun w => validate_me v (decode_hfsts6 w) bpmsvn kmsvn kmid).

(** hash algorithm ids: SHA1 = 4, Null = 0x10, unset = 0 *)
Definition insecure_alg (a : Z) : bool := (a =? 4) || (a =? 16) || (a =? 0).

(** BPMCryptoSecure. [nse] number of SE elements (0: "bpm has no SE element");
    v1: [algs] = [IBB digest alg]; v2: [algs] = DigestList.List algs, a SHA1/Null
    digest is rejected when it is the only one ([len(List) < 2]);
    [lsize] = DigestList.Size (the byte size of the list; not consulted) *)
Definition bpm_crypto (v nse : Z) (algs : list Z) (lsize sigalg : Z) : verd :=
  if v =? 1 then
    if nse =? 0 then bad
    else if insecure_alg (hd 0 algs) then bad
    else if insecure_alg sigalg then bad
    else good
  else if v =? 2 then
    if nse =? 0 then bad
    else if existsb (fun a => insecure_alg a && (Z.of_nat (length algs) <? 2)) algs then bad
    else if insecure_alg sigalg then bad
    else good
  else bad.

(** KMCryptoSecure. v1: [a1] = KM signature hash alg, [algs] = [BPKey alg];
    v2: [a1] = PubKeyHashAlg, [algs] = algs of the KM hash entries *)
Definition km_crypto (v a1 : Z) (algs : list Z) : verd :=
  if v =? 1 then
    if insecure_alg a1 then bad
    else if insecure_alg (hd 0 algs) then bad
    else good
  else if v =? 2 then
    if insecure_alg a1 then bad
    else if existsb insecure_alg algs then bad
    else good
  else bad.

(** SaneBPMSecurityProps / StrictSaneBPMSecurityProps.
    [flags]: SE[0].Flags (bit0 DMA, bit2 authority measure, bit3 TPM failure
    leaves hierarchies enabled); [pbet] raw PBET byte; [base0], [vtdbar]: v2 DMA
    fallbacks; [txte]: TXT element control flags, [None] when the BPM has no
    TXT element ("bpm has no TXT element"); [nseg] number of IBB segments *)
Definition sane_bpm (v nse flags pbet base0 vtdbar : Z) (txte : option Z) (nseg : Z) : verd :=
  if v =? 1 then
    if nse =? 0 then bad
    else if negb (bit flags 0) then bad
    else if negb (bit flags 2) then bad
    else if Z.land pbet 15 =? 0 then bad
    else if nseg <? 1 then bad
    else good
  else if v =? 2 then
    if nse =? 0 then bad
    else match txte with
         | None => bad
         | Some cf =>
             if negb (bit flags 0) && (base0 =? 0) && (vtdbar =? 0) then bad
             else if negb (bit flags 2) then bad
             else if Z.land pbet 15 =? 0 then bad
             else if bit cf 9 then bad
             else if nseg <? 1 then bad
             else good
         end
  else bad.

Definition strict_sane_bpm (v nse flags pbet base0 vtdbar : Z) (txte : option Z) (nseg : Z) : verd :=
  if v =? 1 then
    if nse =? 0 then bad
    else if negb (bit flags 2) then bad
    else if negb (bit flags 3) then bad
    else sane_bpm v nse flags pbet base0 vtdbar txte nseg
  else if v =? 2 then
    if nse =? 0 then bad
    else match txte with
         | None => bad
         | Some cf =>
             if negb (bit flags 2) then bad
             else if negb (bit flags 3) then bad
             else if negb (bits cf 5 3 =? 2) then bad
             else sane_bpm v nse flags pbet base0 vtdbar txte nseg
         end
  else sane_bpm v nse flags pbet base0 vtdbar txte nseg.

(** * 5. Single-register verdicts (cpu.go, memory.go, me.go) *)

Definition ibb_measured (bootstatus : Z) : verd :=
  if negb (bit bootstatus 62) && bit bootstatus 63 then pass else fail.
Definition ibb_trusted (bootstatus : Z) : verd :=
  if bit bootstatus 59 && bit bootstatus 63 then pass else fail.

(** IA32DebugInterfaceLockedDisabled: [ecx] of CPUID.1, MSR 0xC80 *)
Definition debug_locked (ecx msr : Z) : verd :=
  if negb (bit ecx 11) then pass     (* no SDBG: the MSR does not exist, nothing to check *)
  else if negb (bit msr 31) then
    if bit msr 30 && negb (bit msr 0) then pass else fail
  else fail.

(** bootguard.ValidTXTRegister: ACM status, ACM policy status, boot status *)
Definition valid_txt_register (acmsts acmpol bootsts : Z) : verd :=
  if negb (bit acmsts 31) then bad
  else if negb (bit acmsts 15) then bad
  else if bit acmpol 6 then bad
  else if negb (bit bootsts 31) then bad
  else good.

Definition no_sinit_errors (errcode : Z) : verd :=
  if errcode =? 3221225473 then pass else fail.   (* 0xC0000001 *)
Definition dpr_locked (dpr : Z) : verd := if bit dpr 0 then pass else fail.
Definition biosdata_valid (ver size nproc : Z) : verd :=
  if ver <? 2 then fail else if size <? 8 then fail else if nproc =? 0 then fail else pass.
Definition weybridge_or_later (sig : Z) : verd :=
  if bits sig 8 15 =? 6 then pass else fail.
Definition txt_not_disabled (featctl : Z) : verd :=
  let t := bits featctl 8 511 in
  if (Z.land t 255 =? 255) || (Z.land t 256 =? 256) then pass else fail.
(** Ia32FeatureCtrl: hwapi.AllowsVMXInSMX tests the empty mask
    [(1<<1)&(1<<5)&(1<<6)] = 0, so only the lock bit decides *)
Definition ia32_feature_ctrl (featctl : Z) : verd :=
  if bit featctl 0 then pass else fail.
