(** The worker count of run() (pkg/bruteforcer/brute_forcer.go) with Go's integer
    conversions written out.

    Model/BruteForce.v computes [cfactor] over unbounded integers.  run() mixes three
    integer types on the way: runtime.GOMAXPROCS(0) and concurrencyFactor are [int]
    (signed, 64 bits), amountOfCombinations is [uint64], the maxConcurrency argument is
    [uint] (unsigned, 64 bits) and ANY value of that type is a legitimate setting - a
    caller without a limit of its own may pass the largest one.  The conversions

        uint64(concurrencyFactor) > amountOfCombinations/minIterationsPerCPU
        concurrencyFactor = int(amountOfCombinations / minIterationsPerCPU)
        uint(concurrencyFactor) > maxConcurrency          (an UNSIGNED comparison)
        concurrencyFactor = int(maxConcurrency)           (only under that comparison)

    are the identity only because of where they are placed; [cfactor_go] performs them
    (two's complement, 64 bits), Proofs/BruteForceConc.v proves that it is [cfactor] on the
    whole range of the three types, and [cfactor_signed_cap] is the same computation with
    the cap compared in [int]: it differs exactly on limits with the top bit set
    (Props/C07.v: C07_ex_cap_conversion_matters). *)
From CSS Require Import Lib.Base Model.Comb Model.BruteForce.

Definition TWO63 : Z := 9223372036854775808.

(** uint(x) / uint64(x) of an int, and of anything else: the low 64 bits *)
Definition to_uint (x : Z) : Z := wrap64 x.
(** int(x) of a uint / uint64: the low 64 bits read as two's complement *)
Definition to_int (x : Z) : Z := let w := wrap64 x in if w <? TWO63 then w else w - W64.

(** concurrencyFactor as computed by run(): [gomax] the int returned by GOMAXPROCS(0),
    [maxconc] the uint argument, [amount] the uint64 number of combinations *)
Definition cfactor_go (gomax maxconc amount : Z) : Z :=
  let q := amount / MIN_ITER in
  let cf := if q <? to_uint gomax
            then (let c := to_int q in if c <? 1 then 1 else c)
            else gomax in
  if (0 <? maxconc) && (maxconc <? to_uint cf) then to_int maxconc else cf.

(** the same with the cap compared after converting the LIMIT to int instead of the
    count to uint (both operands then have the type of the assignment that follows) *)
Definition cfactor_signed_cap (gomax maxconc amount : Z) : Z :=
  let q := amount / MIN_ITER in
  let cf := if q <? to_uint gomax
            then (let c := to_int q in if c <? 1 then 1 else c)
            else gomax in
  if (0 <? maxconc) && (to_int maxconc <? cf) then to_int maxconc else cf.

(** what run() does with the count next: combinationsPiece := amount / uint64(cf),
    make(chan error, cf) (panics on a negative size), for i := 0; i < cf; i++ *)
Definition piece_size_go (amount cf : Z) : outcome Z :=
  let u := to_uint cf in
  if u =? 0 then Panic                 (* integer divide by zero *)
  else if cf <? 0 then Panic           (* makechan: size out of range *)
  else Ok (amount / u).
