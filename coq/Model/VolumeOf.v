(** C14 — the enclosing-volume data source on a LIST of ranges.

    Faithful executable model of pkg/bootflow/datasources/volume_of.go, [VolumeOfType.Data]
    (the fixed code), for everything an inner data source may hand over:

    - the inner Data holds any number of references to the BIOS image; each reference holds
      any number of ranges, as physical addresses behind [biosimage.PhysMemMapper{}] (what
      MemRanges, UEFIFiles*, UEFIGUIDFirst, FITFirst/FITAll, IBB, ACMDate answer with) or as
      image offsets behind no mapper at all ([Reference.ResolvedRanges] returns them as they are);
    - per reference, per RESOLVED range, in the order given: [GetByRange] = one walk over the
      image that keeps the nodes whose reported range intersects the range, then the first
      of them that has a known offset and is a firmware volume ([volume_pick] of
      Model/AddrMap.v); no such node: the whole call fails;
    - the picked volume ranges of all references, in that order, then [Ranges.SortAndMerge]
      (Model/Ranges.v through [sort_merge] of Model/Delivered.v);
    - nothing picked (no reference / only references without ranges): the empty Data;
      otherwise ONE reference whose ranges are [UnresolveFullImageOffset] of the merged list.

    The ranges are looked up ONE BY ONE AS GIVEN: two ranges that touch each other at the
    border of two neighbour volumes are two look-ups, each inside one volume.  [volume_of_merge_first]
    is the variant that merges the given ranges before looking them up (fewer walks); it is
    NOT what the code does and is here only for the witness theorem that tells the two apart.

    No proofs here. *)
From CSS Require Import Lib.Base Model.AddrMap Model.Delivered.

(** one reference of the inner Data: [true] = AddressMapper is PhysMemMapper (the ranges are
    physical addresses), [false] = no AddressMapper (the ranges are image offsets) *)
Definition vref : Type := (bool * list range)%type.

(** [ref.ResolvedRanges()] on an image of [size] bytes *)
Definition vref_resolved (size : Z) (rf : vref) : list range :=
  if fst rf then map_ranges (pmm_resolve size) (snd rf) else snd rf.

(** all look-ups of the call, in order *)
Definition resolved_all (size : Z) (refs : list vref) : list range :=
  concat (map (vref_resolved size) refs).

(** one pick per range; [None] as soon as a range has no located volume *)
Fixpoint volume_picks (nodes : list (bool * range)) (rs : list range) : option (list range) :=
  match rs with
  | [] => Some []
  | r :: t =>
      match volume_pick nodes r with
      | None => None
      | Some v =>
          match volume_picks nodes t with
          | None => None
          | Some vs => Some (v :: vs)
          end
      end
  end.

(** the volumes as image offsets: picks, then SortAndMerge *)
Definition volume_of_offsets (nodes : list (bool * range)) (rs : list range) : outcome (list range) :=
  match volume_picks nodes rs with
  | None => Err 1
  | Some vs => Ok (sort_merge vs)
  end.

(** [VolumeOf(inner).Data]: what the ranges of the returned Data's references are
    ([[]] = the empty Data or, which does not happen, a reference without ranges) *)
Definition volume_of (size : Z) (nodes : list (bool * range)) (refs : list vref) : outcome (list range) :=
  match volume_of_offsets nodes (resolved_all size refs) with
  | Ok m => Ok (map_ranges (pmm_unresolve size) m)
  | Err c => Err c
  | Panic => Panic
  | OutOfFuel => OutOfFuel
  end.

(** NOT the code: every reference's resolved ranges are sorted and merged before they are
    looked up *)
Definition volume_of_merge_first (size : Z) (nodes : list (bool * range)) (refs : list vref) : outcome (list range) :=
  match volume_of_offsets nodes (concat (map (fun rf => sort_merge (vref_resolved size rf)) refs)) with
  | Ok m => Ok (map_ranges (pmm_unresolve size) m)
  | Err c => Err c
  | Panic => Panic
  | OutOfFuel => OutOfFuel
  end.

(** ** Specification side *)

(** offset [a] lies in [v] *)
Definition in_range (v : range) (a : Z) : Prop := fst v <= a < fst v + snd v.

(** the located volumes among the reported nodes *)
Definition located_volume (nodes : list (bool * range)) (v : range) : Prop :=
  In (true, v) nodes /\ fst v <> MAXU64.
