(** Model of pcrbruteforcer.ReproduceExpectedPCR0
    (pkg/bootflow/subsystems/trustchains/tpm/pcrbruteforcer/reproduce_expected_pcr0.go).
    Executable definitions only; proofs live in Proofs/PCR0Search.v.

    Hashing is abstract.  The whole model is parametrised by a domain [D] of
    digests / PCR values with
      - [pcr_init loc]        the value of PCR0 after TPMInit(loc),
      - [extend old d]        TPM2_PCR_Extend: H(old || d),
      - [pcr0data tail reg]   the digest of a PCR0_DATA structure whose first 8
                              bytes are the little-endian register [reg] and whose
                              remaining bytes are [tail] (an opaque identifier),
      - [deqb]                bytes.Equal.
    Theorems instantiate [D := list Z] with a hash function [H]; the
    correspondence check instantiates [D] with free terms (Model/PCR0SearchCases.v).

    Goroutines are modelled as in Model/BruteForce.v: the partition of the work
    is a deterministic function of GOMAXPROCS ([cf]); every worker scans its
    slice in order; the functions below compute the LIST OF ALL RESULTS the
    goroutines can jointly produce ([outcomes]); theorems quantify over every
    element of that list.

    Go types: GOMAXPROCS, the settings and decrements are [int]; combination IDs
    uint64; ACM_POLICY_STATUS uint64 ([wrap64] written out); list positions are
    [nat]. *)
From CSS Require Import Lib.Base Model.Comb.
From CSS Require Model.BruteForce.
From Coq Require Import Arith.

(** * List helpers *)

Fixpoint set_nth {A} (i : nat) (x : A) (l : list A) : list A :=
  match l, i with
  | [], _ => []
  | _ :: t, O => x :: t
  | y :: t, S i' => y :: set_nth i' x t
  end.

(** [s[a], s[b] = s[b], s[a]].  Out-of-range indices panic in Go; the model
    leaves the list unchanged and the theorems state that it does not happen. *)
Definition swap_nth {A} (a b : nat) (l : list A) : list A :=
  match nth_error l a, nth_error l b with
  | Some x, Some y => set_nth a y (set_nth b x l)
  | _, _ => l
  end.

Definition swaps := list (nat * nat).

(** [ApplyOrderSwaps]: the swaps are applied in list order. *)
Definition apply_swaps {A} (s : swaps) (l : list A) : list A :=
  fold_left (fun acc p => swap_nth (fst p) (snd p) acc) s l.

(** keep the elements whose flag is set *)
Fixpoint select {A} (fl : list bool) (l : list A) : list A :=
  match fl, l with
  | b :: fl', x :: l' => if b then x :: select fl' l' else select fl' l'
  | _, _ => []
  end.

Fixpoint first_some {A B} (f : A -> option B) (l : list A) : option B :=
  match l with
  | [] => None
  | x :: t => match f x with Some y => Some y | None => first_some f t end
  end.

Definition count_false (sw : list bool) : nat := length (filter negb sw).

Fixpoint mem_nat (x : nat) (l : list nat) : bool :=
  match l with [] => false | y :: t => if Nat.eqb x y then true else mem_nat x t end.

Fixpoint zmem (x : Z) (l : list Z) : bool :=
  match l with [] => false | y :: t => if x =? y then true else zmem x t end.

(** all pairs a < b < n in lexicographic order: what the 2-combination
    iterator with maxValue = n-1 visits (Proofs: [all_pairs_next]) *)
Definition all_pairs (n : nat) : list (nat * nat) :=
  flat_map (fun a => map (pair a) (seq (S a) (n - S a))) (seq 0 n).

(** little-endian uint64 <-> 8 bytes ([Z.land v 255] = v mod 256, [Z.shiftr v 8]
    = v / 256: Proofs [le_bytes_div_mod]; the bit operations evaluate fast, which
    matters for the 41664 three-bit candidates of one combinatorial search) *)
Fixpoint le_bytes (n : nat) (v : Z) : list Z :=
  match n with O => [] | S n' => Z.land v 255 :: le_bytes n' (Z.shiftr v 8) end.
Fixpoint of_le (l : list Z) : Z :=
  match l with [] => 0 | b :: t => b + 256 * of_le t end.

(** all strictly increasing [k]-tuples over lo, lo+1, .., lo+n-1 (lexicographic) *)
Fixpoint subsets (k : nat) (lo : Z) (n : nat) : list (list Z) :=
  match k with
  | O => [[]]
  | S k' =>
      match n with
      | O => []
      | S n' => map (cons lo) (subsets k' (lo + 1) n') ++ subsets k (lo + 1) n'
      end
  end.

(** * Inputs *)

Record settings : Type := mkSettings {
  max_disabled : Z;      (* MaxDisabledMeasurements *)
  max_reorders : Z;      (* MaxReorders *)
  comb_enabled : bool;   (* EnableACMPolicyCombinatorialStrategy *)
  comb_limit : Z;        (* MaxACMPolicyCombinatorialDistance *)
  lin_limit : Z          (* MaxACMPolicyLinearDistance *)
}.

(** What is reported: ReproducePCR0Result.  [r_disabled] are positions in the
    filtered measurement list (the Go value holds pointers to the entries),
    [r_swaps] are positions in the same list. *)
Record result : Type := mkResult {
  r_loc : Z;
  r_reg : option Z;
  r_disabled : list nat;
  r_swaps : swaps
}.

Section Search.
  Variable D : Type.
  Variable deqb : D -> D -> bool.
  Variable pcr_init : Z -> D.
  Variable extend : D -> D -> D.
  Variable pcr0data : Z -> Z -> D.

  (** One filtered measurement (a CommandExtend on PCR0 in the requested bank):
      the digest recorded in the command and, when the entry was caused by the
      MeasurePCR0DATA step, the PCR0_DATA source: (tail, ACM_POLICY_STATUS). *)
  Record meas : Type := mkMeas { m_dig : D; m_data : option (Z * Z) }.

  Variable st : settings.
  Variable log : list meas.       (* filteredMeasurements(measurements, hashAlgo) *)
  Variable target : D.            (* expectedPCR0 *)

  (** [replayTPMCommands]: init at the locality, then the extends in order *)
  Definition replay (loc : Z) (ds : list D) : D := fold_left extend ds (pcr_init loc).

  (** ** Order brute force ([bruteforceOrder] / [executeRecursive]) *)

  (** the index translation loop of executeRecursive: [a] is an index among the
      not-yet-swapped positions; every already swapped position at or before the
      running value pushes it one to the right *)
  Fixpoint shift_idx (sw : list bool) (idx a : nat) : nat :=
    match sw with
    | [] => a
    | s :: t => shift_idx t (S idx) (if s && (idx <=? a)%nat then S a else a)
    end.

  Definition hit (loc : Z) (ms : list D) : bool := deqb (replay loc ms) target.

  (** [limit] = swapsLimit, [sw] = alreadySwapped.  Returns the OrderSwaps:
      the innermost swap first (append on the way out of the recursion). *)
  Fixpoint order_rec (limit : nat) (loc : Z) (ms : list D) (sw : list bool) : option swaps :=
    match limit with
    | O => if hit loc ms then Some [] else None
    | S l' =>
        let avail := count_false sw in
        if (avail <? 2)%nat then (if hit loc ms then Some [] else None)
        else
          first_some
            (fun p =>
               let a := shift_idx sw 0 (fst p) in
               let b := shift_idx sw 0 (snd p) in
               match order_rec l' loc (swap_nth a b ms) (set_nth a true (set_nth b true sw)) with
               | Some s => Some (s ++ [(a, b)])
               | None => None
               end)
            (all_pairs avail)
    end.

  (** [for swapsLimit := 0; swapsLimit <= MaxReorders; swapsLimit++] *)
  Definition order_search (loc : Z) (ms : list D) : option swaps :=
    if max_reorders st <? 0 then None
    else first_some (fun l => order_rec l loc ms (repeat false (length ms)))
                    (seq 0 (S (Z.to_nat (max_reorders st)))).

  (** ** ACM_POLICY_STATUS strategies *)

  Definition with_head (d : D) (ms : list D) : list D :=
    match ms with [] => [] | _ :: t => d :: t end.

  (** [check]: re-hash PCR0_DATA with the register value [v], then order search *)
  Definition acm_try (loc tail : Z) (ms : list D) (v : Z) : option swaps :=
    order_search loc (with_head (pcr0data tail v) ms).

  (** linearSearch.Process: blockSize and the block of goroutine [i] (Go int
      division truncates towards zero).  [blockEnd] is the limit for the last
      goroutine and for every goroutine whose block would pass the limit
      ([if i == concurrencyFactor-1 || blockEnd > ls.limit]); a block that
      starts at or after its end is empty. *)
  Definition lin_bs (limit cf : Z) : Z :=
    let q := Z.quot limit cf in if q <? 1 then 1 else q.
  Definition lin_block (limit cf i : Z) : Z * Z :=
    let bs := lin_bs limit cf in
    (i * bs, if (i =? cf - 1) || (limit <? (i + 1) * bs) then limit else (i + 1) * bs).
  Definition lin_blocks (limit cf : Z) : list (Z * Z) :=
    map (lin_block limit cf) (seqZ 0 (Z.to_nat cf)).
  (** the decrements one goroutine tries, in order *)
  Definition block_decs (se : Z * Z) : list Z :=
    seqZ (fst se) (Z.to_nat (snd se - fst se)).
  (** every decrement some goroutine tries *)
  Definition lin_decs (limit cf : Z) : list Z := flat_map block_decs (lin_blocks limit cf).

  (** first hit of one block: (corrected register, swaps) *)
  Definition block_hit (loc tail reg : Z) (ms : list D) (se : Z * Z) : option (Z * swaps) :=
    first_some (fun d => let v := wrap64 (reg - d) in
                         match acm_try loc tail ms v with
                         | Some s => Some (v, s)
                         | None => None
                         end) (block_decs se).

  Fixpoint somes {A} (l : list (option A)) : list A :=
    match l with
    | [] => []
    | Some x :: t => x :: somes t
    | None :: t => somes t
    end.

  Definition lin_hits (cf loc tail reg : Z) (ms : list D) : list (Z * swaps) :=
    somes (map (block_hit loc tail reg ms) (lin_blocks (lin_limit st) cf)).

  (** result of one strategy *)
  Inductive sres : Type :=
  | SNone                              (* (nil, nil) *)
  | SFound (reg : Z) (s : swaps)       (* register, and the value of orderSwapsResult *)
  | SErr.                              (* "internal error: order swaps are already set" *)

  (** all (x, y) with x <> y taken by position *)
  Fixpoint cross_pairs {A} (l : list A) : list (A * A) :=
    match l with
    | [] => []
    | x :: t => flat_map (fun y => [(x, y); (y, x)]) t ++ cross_pairs t
    end.

  (** What linearSearch.Process + [check] can return when the goroutines whose
      block contains a hit are [hits].  [orderSwapsSetCount]: the first
      goroutine to succeed stores its swaps, the second one turns its success
      into an error, a third one reports its own register with the swaps of the
      first. *)
  Definition lin_outcomes (hits : list (Z * swaps)) : list sres :=
    match hits with
    | [] => [SNone]
    | [h] => [SFound (fst h) (snd h)]
    | _ => map (fun h => SFound (fst h) (snd h)) hits ++ [SErr]
           ++ (match hits with
               | _ :: _ :: _ :: _ => map (fun xy => SFound (fst (fst xy)) (snd (snd xy))) (cross_pairs hits)
               | _ => []
               end)
    end.

  (** combinatorialSearch.Process = bruteforcer.BruteForce over the 64 bits of
      the register (Model/BruteForce.v, property C07).  The candidates that can
      be returned are the hits of minimal Hamming distance; here: all of them.
      With two or more hits at that distance the swaps stored by [check] may
      belong to another hit than the returned one, hence all combinations. *)
  Definition flip_reg (reg : Z) (s : list Z) : Z :=
    match flip_bytes s (le_bytes 8 reg) with
    | Ok bs => of_le bs
    | _ => reg
    end.

  Definition comb_hits_at (loc tail reg : Z) (ms : list D) (d : nat) : list (Z * swaps) :=
    somes (map (fun s => let v := flip_reg reg s in
                         match acm_try loc tail ms v with
                         | Some sw => Some (v, sw)
                         | None => None
                         end) (subsets d 0 64)).

  Fixpoint comb_from (fuel : nat) (d : nat) (loc tail reg : Z) (ms : list D) : list (Z * swaps) :=
    match fuel with
    | O => []
    | S f => match comb_hits_at loc tail reg ms d with
             | [] => comb_from f (S d) loc tail reg ms
             | hs => hs
             end
    end.

  (** distances 0 .. min(limit, 64); [uint64(cs.limit)] of a negative limit is huge *)
  Definition comb_maxd : nat := Z.to_nat (Z.min (wrap64 (comb_limit st)) 64).

  Definition comb_outcomes (loc tail reg : Z) (ms : list D) : list sres :=
    match comb_from (S comb_maxd) 0 loc tail reg ms with
    | [] => [SNone]
    | hs => flat_map (fun x => map (fun y => SFound (fst x) (snd y)) hs) hs
    end.

  (** [measurementsVerifyWithBruteForceACMPolicyStatus]: strategies in series *)
  Definition acm_outcomes (cf loc tail reg : Z) (ms : list D) : list sres :=
    flat_map (fun o => match o with
                       | SNone => if comb_enabled st then comb_outcomes loc tail reg ms else [SNone]
                       | x => [x]
                       end)
             (lin_outcomes (lin_hits cf loc tail reg ms)).

  (** ** One combination of disabled measurements *)

  Definition nlog : nat := length log.

  (** [comb] holds values in 0..len: the iterator is created with maxValue =
      len(measurements), so the value len (no such measurement) occurs too *)
  Definition enabled_flags (comb : list Z) : list bool :=
    map (fun i => negb (zmem (Z.of_nat i) comb)) (seq 0 nlog).

  (** idxShifts: for every enabled measurement the number of disabled ones before it *)
  Fixpoint idx_shifts (fl : list bool) (dc : nat) : list nat :=
    match fl with
    | [] => []
    | true :: t => dc :: idx_shifts t dc
    | false :: t => idx_shifts t (S dc)
    end.

  Definition shift_swaps (sh : list nat) (s : swaps) : swaps :=
    map (fun p => ((fst p + nth (fst p) sh 0)%nat, (snd p + nth (snd p) sh 0)%nat)) s.

  (** the measurements of the combination that exist, as positions
      ([int(disabledMeasurementIdx) == idx] for some idx in range) *)
  Definition disabled_of (comb : list Z) : list nat :=
    map Z.to_nat (filter (fun i => (0 <=? i) && (i <? Z.of_nat nlog)) comb).

  (** result of tryDisabledMeasurementsCombination *)
  Inductive tres : Type :=
  | TNone
  | TFound (reg : option Z) (s : swaps)
  | TErr.

  Definition try_outcomes (cf loc : Z) (comb : list Z) : list tres :=
    let fl := enabled_flags comb in
    let en := select fl log in
    let ds := map m_dig en in
    let sh := idx_shifts fl 0 in
    let plain :=
      match order_search loc ds with
      | Some s => [TFound None (shift_swaps sh s)]
      | None => [TNone]
      end in
    match en with
    | m :: _ =>
        match m_data m with
        | Some (tail, reg) =>
            map (fun o => match o with
                          | SNone => TNone
                          | SFound v s => TFound (Some v) (shift_swaps sh s)
                          | SErr => TErr
                          end) (acm_outcomes cf loc tail reg ds)
        | None => plain
        end
    | [] => plain
    end.

  (** ** One number of disabled measurements: the goroutines of Job.Execute *)

  (** the worker loop: [s], Next(), ... at most [fuel] combinations, stops when
      Next() reports exhaustion *)
  Fixpoint scan_combs (fuel : nat) (m : Z) (s : list Z) : list (list Z) :=
    match fuel with
    | O => []
    | S f => s :: (let '(more, s') := next m s in if more then scan_combs f m s' else [])
    end.

  (** combination IDs [start, end) *)
  Definition worker_combs (m : Z) (k : nat) (se : Z * Z) : outcome (list (list Z)) :=
    let n := Z.to_nat (snd se - fst se) in
    if fst se =? 0 then Ok (scan_combs n m (first_comb k))
    else bind (seek m k (fst se)) (fun s => Ok (scan_combs n m s)).

  (** combinationsPerRoutine and the slices *)
  Definition comb_cpr (amount cf : Z) : Z :=
    let q := amount / cf in if q <? 1 then 1 else q.
  Definition comb_slices (amount cf : Z) : list (Z * Z) :=
    let cpr := comb_cpr amount cf in
    map (fun i => (i * cpr, Z.min ((i + 1) * cpr) amount))
        (seqZ 0 (Z.to_nat ((amount + cpr - 1) / cpr))).
  (** capacity of resultCh:
      [(maxCombinationID + combinationsPerRoutine) / combinationsPerRoutine],
      maxCombinationID = amount - 1 *)
  Definition res_cap (amount cf : Z) : Z :=
    let cpr := comb_cpr amount cf in (amount - 1 + cpr) / cpr.

  Fixpoint collect {X} (l : list (outcome X)) : outcome (list X) :=
    match l with
    | [] => Ok []
    | o :: t => bind o (fun x => bind (collect t) (fun r => Ok (x :: r)))
    end.

  Definition level_workers (cf : Z) (k : nat) : outcome (list (list (list Z))) :=
    let m := Z.of_nat nlog in
    collect (map (worker_combs m k) (comb_slices (amount64 m k) cf)).

  Definition is_event (o : tres) : bool := match o with TNone => false | _ => true end.
  Definition is_tnone (o : tres) : bool := match o with TNone => true | _ => false end.

  (** What one worker can send to resultCh: [Some (comb, what)] for the first
      combination of its slice whose try is a success or an error, [None] when
      it can reach the end of its slice without sending. *)
  Fixpoint worker_events (cf loc : Z) (combs : list (list Z)) : list (option (list Z * tres)) :=
    match combs with
    | [] => [None]
    | c :: t =>
        let os := try_outcomes cf loc c in
        map (fun o => Some (c, o)) (filter is_event os)
        ++ (if existsb is_tnone os then worker_events cf loc t else [])
    end.

  Inductive jres : Type :=
  | JNone              (* (nil, nil) *)
  | JFound (r : result)
  | JErr               (* (nil, err) *)
  | JNext              (* internal: go on with one more disabled measurement *)
  | JHang              (* more senders than resultCh has room for: wg.Wait() never returns *)
  | JPanic.

  Definition is_none {X} (o : option X) : bool := match o with None => true | _ => false end.
  Definition is_some {X} (o : option X) : bool := match o with None => false | _ => true end.

  Definition ev_results (loc : Z) (e : option (list Z * tres)) : list jres :=
    match e with
    | Some (c, TFound reg s) => [JFound (mkResult loc reg (disabled_of c) s)]
    | Some (_, TErr) => [JErr]
    | _ => []
    end.

  (** Any non-empty set of the workers that have an event can reach it before
      the first of them cancels the others; a success wins over errors; the
      first success in arrival order is kept.  resultCh has room for [cap]
      results and is read only after wg.Wait(): with more senders than that the
      call never returns (Proofs: [level_no_hang], it does not happen). *)
  Definition level_outcomes (cap cf loc : Z) (ws : list (list (list Z))) : list jres :=
    let evs := map (worker_events cf loc) ws in
    flat_map (ev_results loc) (concat evs)
    ++ (if forallb (existsb is_none) evs then [JNext] else [])
    ++ (if (Z.to_nat cap <? length (filter (existsb is_some) evs))%nat then [JHang] else []).

  (** [for disabledMeasurements := 0; disabledMeasurements < max; ...] *)
  Fixpoint job_levels (fuel : nat) (k : nat) (cf loc : Z) : list jres :=
    match fuel with
    | O => [JNone]
    | S f =>
        match level_workers cf k with
        | Ok ws =>
            flat_map (fun o => match o with
                               | JNext => job_levels f (S k) cf loc
                               | x => [x]
                               end)
                     (level_outcomes (res_cap (amount64 (Z.of_nat nlog) k) cf) cf loc ws)
        | _ => [JPanic]
        end
    end.

  Definition kmax : nat := Z.to_nat (Z.min (Z.of_nat nlog) (max_disabled st)).

  Definition job (cf loc : Z) : list jres := job_levels kmax 0 cf loc.

  (** ** Both localities ([reproduceExpectedPCR0Handler.execute]) *)

  Inductive fres : Type :=
  | FNone                (* (nil, nil) *)
  | FSome (r : result)   (* (result, nil) *)
  | FHang                (* the call never returns *)
  | FPanic.

  Definition j_founds (l : list jres) : list fres :=
    flat_map (fun o => match o with JFound r => [FSome r] | _ => [] end) l.
  Definition j_nores (l : list jres) : bool :=
    existsb (fun o => match o with JNone | JErr => true | _ => false end) l.
  Definition j_hang (l : list jres) : bool :=
    existsb (fun o => match o with JHang => true | _ => false end) l.
  Definition j_panic (l : list jres) : bool :=
    existsb (fun o => match o with JPanic => true | _ => false end) l.

  (** localities 0 and 3 concurrently; the first answer wins; an error of a
      job is logged and dropped; the error return value is always nil *)
  Definition outcomes (cf : Z) : list fres :=
    let o0 := job cf 0 in
    let o3 := job cf 3 in
    j_founds o0 ++ j_founds o3
    ++ (if j_nores o0 && j_nores o3 then [FNone] else [])
    ++ (if j_hang o0 || j_hang o3 then [FHang] else [])
    ++ (if j_panic o0 || j_panic o3 then [FPanic] else []).

  (** ** Applying a result to the command log *)

  Fixpoint first_true (fl : list bool) (i : nat) : option nat :=
    match fl with
    | [] => None
    | b :: t => if b then Some i else first_true t (S i)
    end.

  (** The sequence of digests to replay:
      - the PCR0_DATA digest (first measurement that is not disabled) is
        recomputed with the corrected register, if one is reported;
      - the swaps are applied to the full filtered list (index convention of
        tryDisabledMeasurementsCombination: "correcting the indexes");
      - the disabled entries are removed (by identity: entries carry their
        original position as a tag). *)
  Definition apply_result (r : result) : list D :=
    let fl := map (fun i => negb (mem_nat i (r_disabled r))) (seq 0 nlog) in
    let digs := map m_dig log in
    let digs1 :=
      match r_reg r with
      | None => digs
      | Some v =>
          match first_true fl 0 with
          | Some p =>
              match nth_error log p with
              | Some m => match m_data m with
                          | Some (tail, _) => set_nth p (pcr0data tail v) digs
                          | None => digs
                          end
              | None => digs
              end
          | None => digs
          end
      end in
    let tagged := combine (seq 0 nlog) digs1 in
    let swapped := apply_swaps (r_swaps r) tagged in
    map snd (filter (fun t => negb (mem_nat (fst t) (r_disabled r))) swapped).

  Definition replay_result (r : result) : D := replay (r_loc r) (apply_result r).

End Search.

(** * The workers of combinatorialSearch.Process (per-worker state)

    [init] hands out a pair (register buffer, context); [check ctx buf] re-hashes
    into and replays on objects owned by the context, so a pair must stay with
    ONE goroutine.  combinatorialSearch.Process calls init() once for the start
    value (that context is never handed to check); bruteforcer.run calls
    initFunc -- hence init() -- once for the distance-0 shortcut and once per
    worker goroutine of every distance 1..limit.  The workers of one distance
    are those of bruteforcer.run (Model/BruteForce.v, property C07):
    [cfactor GOMAXPROCS 0 C(64,d)] of them (at least 10000 combinations each,
    so several workers only from distance 3 on), worker [i] owning the
    combination IDs of [piece].  ID order is the lexicographic order of the
    sorted bit lists (C08), i.e. the order of [subsets d 0 64].

    [comb_offered cf reg maxd]: per init() call whose pair reaches check, in
    slice order, the registers offered to a check that rejects everything. *)
Definition comb_amount (d : nat) : Z := BruteForce.amount_of 64 d.

Definition comb_pieces (cf : Z) (d : nat) : list (Z * Z) :=
  let a := comb_amount d in BruteForce.pieces a (BruteForce.cfactor cf 0 a).

Definition slice {A} (l : list A) (se : Z * Z) : list A :=
  firstn (Z.to_nat (snd se - fst se)) (skipn (Z.to_nat (fst se)) l).

Definition comb_offered_at (cf reg : Z) (d : nat) : list (list Z) :=
  let cands := map (flip_reg reg) (subsets d 0 64) in
  map (slice cands) (comb_pieces cf d).

Definition comb_offered (cf reg : Z) (maxd : nat) : list (list Z) :=
  [reg] :: flat_map (comb_offered_at cf reg) (seq 1 maxd).

Arguments mkMeas {D} m_dig m_data.
Arguments m_dig {D} m.
Arguments m_data {D} m.
