(** Case language of the C12 correspondence check.  The Go harness
    (harness/cmd/c12) writes [coq/gen/Cases_C12_*.v] with values of [case]
    holding the inputs it gave to the implementation AND what the
    implementation returned; [check] re-runs the model.

    Hashes: every case that folds carries a [hash_table] computed by the harness
    with Go crypto ((alg, message) -> digest).  The model's [H] is the lookup in
    that table; a missing entry yields [[-1]], which is not a byte string, so
    the comparison with the implementation's bytes fails (a mismatch). *)
From CSS Require Import Lib.Base Lib.Cases Model.EventLog Model.EventLogSess.

(** observed result with the error class *)
Inductive robs (A : Type) : Type :=
| ROk (a : A)
| RErr (code : Z)
| RPanic.
Arguments ROk {A} a.
Arguments RErr {A} code.
Arguments RPanic {A}.

Definition robs_match {A} (eqb : A -> A -> bool) (o : robs A) (m : outcome A) : bool :=
  match o, m with
  | ROk a, Ok b => eqb a b
  | RErr c, Err c' => c =? c'
  | RPanic, Panic => true
  | _, _ => false
  end.

Definition hash_table := list (Z * list Z * list Z).

Fixpoint tbl_hash (t : hash_table) (a : Z) (m : list Z) : list Z :=
  match t with
  | [] => [-1]
  | (a', m', d) :: t' => if (a =? a') && zlist_eqb m m' then d else tbl_hash t' a m
  end.

Definition option_eqb {A} (eqb : A -> A -> bool) (a b : option A) : bool :=
  match a, b with
  | None, None => true
  | Some x, Some y => eqb x y
  | _, _ => false
  end.

Definition digest_eqb (a b : digest) : bool :=
  (d_alg a =? d_alg b) && zlist_eqb (d_bytes a) (d_bytes b).

Definition event_eqb (a b : event) : bool :=
  (ev_pcr a =? ev_pcr b) && (ev_type a =? ev_type b) && zlist_eqb (ev_data a) (ev_data b)
  && option_eqb digest_eqb (ev_digest a) (ev_digest b).

Definition entry_eqb (a b : entry) : bool :=
  (en_pcr a =? en_pcr b) && (en_alg a =? en_alg b) && zlist_eqb (en_digest a) (en_digest b)
  && (en_type a =? en_type b) && zlist_eqb (en_data a) (en_data b).

Definition pair_eqb (a b : Z * Z) : bool := (fst a =? fst b) && (snd a =? snd b).

Definition parsed_eqb (a b : parsed) : bool :=
  list_eqb pair_eqb (pr_ranges a) (pr_ranges b)
  && option_eqb Z.eqb (pr_locality a) (pr_locality b)
  && option_eqb zlist_eqb (pr_descr a) (pr_descr b)
  && list_eqb zlist_eqb (pr_guids a) (pr_guids b).

Definition cmd_eqb (a b : cmd) : bool :=
  match a, b with
  | CmdInit x, CmdInit y => x =? y
  | CmdExtend p a d, CmdExtend p' a' d' => (p =? p') && (a =? a') && zlist_eqb d d'
  | CmdLogAdd p a d ty da, CmdLogAdd p' a' d' ty' da' =>
      (p =? p') && (a =? a') && zlist_eqb d d' && (ty =? ty') && zlist_eqb da da'
  | _, _ => false
  end.

(** observation of one step of a session (Model/EventLogSess.v): what the call
    returned; FilterEvents results as the addresses of the returned pointers
    (a pointer that is not an Event object of the session is reported as an
    address beyond the heap) *)
Inductive sobs :=
| OReplay (r : robs (list Z))
| OFilter (r : robs (list nat))
| OParsed (r : robs (list entry))
| ONone.

Definition sobs_match (o : sobs) (m : sres) : bool :=
  match o, m with
  | OReplay r, RReplay x => robs_match zlist_eqb r x
  | OFilter r, RFilter x => robs_match (list_eqb Nat.eqb) r x
  | OParsed r, RParsed x => robs_match (list_eqb entry_eqb) r x
  | ONone, RNone => true
  | _, _ => false
  end.

Fixpoint list_match {A B} (f : A -> B -> bool) (l : list A) (m : list B) : bool :=
  match l, m with
  | [], [] => true
  | x :: l', y :: m' => f x y && list_match f l' m'
  | _, _ => false
  end.

Inductive case : Type :=
(* a session on ONE *TPMEventLog: the memory at the start, every step with what
   the call returned at that moment, the results the harness KEPT (read again
   at the end of the session) and the memory at the end *)
| CSession (tbl : hash_table) (heap0 : list event) (evs0 : list nat)
           (steps : list (sop * sobs)) (kept : list sobs)
           (heapF : list event) (evsF : list nat)
(* tpmeventlog.Replay(log, p, a) *)
| CReplay (tbl : hash_table) (log : list event) (p a : Z) (r : robs (list Z))
(* TPMEventLog.FilterEvents(p, a): the returned events *)
| CFilter (log : list event) (p a : Z) (r : robs (list event))
(* ParseLocality(data) *)
| CLocality (data : list Z) (r : robs Z)
(* ParseEventData(ev, imageSize) *)
| CParseData (ev : event) (isz : Z) (r : robs parsed)
(* tpm.EventLog.Replay(p, a, locality) *)
| CTpmReplay (tbl : hash_table) (log : list entry) (p a loc : Z) (r : robs (list Z))
(* tpm.EventLog.RestoreCommands() *)
| CRestore (log : list entry) (cmds : list cmd)
(* tpm.EventLogFromParsed *)
| CFromParsed (log : list event) (r : robs (list entry)).

Definition check (c : case) : bool :=
  match c with
  | CSession tbl heap0 evs0 steps kept heapF evsF =>
      let '(sF, rs) := srun (tbl_hash tbl) (mkLS heap0 evs0) (map fst steps) in
      list_match sobs_match (map snd steps) rs
      && list_match sobs_match kept rs
      && list_eqb event_eqb heapF (ls_heap sF)
      && list_eqb Nat.eqb evsF (ls_evs sF)
  | CReplay tbl log p a r => robs_match zlist_eqb r (replay (tbl_hash tbl) log p a)
  | CFilter log p a r => robs_match (list_eqb event_eqb) r (filterEvents log p a)
  | CLocality data r => robs_match Z.eqb r (parse_locality data)
  | CParseData ev isz r => robs_match parsed_eqb r (parse_event_data ev isz)
  | CTpmReplay tbl log p a loc r => robs_match zlist_eqb r (tpm_replay (tbl_hash tbl) log p a loc)
  | CRestore log cmds => list_eqb cmd_eqb cmds (restore_commands log)
  | CFromParsed log r => robs_match (list_eqb entry_eqb) r (from_parsed log)
  end.

Definition mismatches := mismatches_by check.
