(** Case language of the C20 correspondence check.  The Go harness
    (harness/cmd/c20) writes [coq/gen/Cases_C20_*.v] with values of [case]
    holding the inputs it gave to [diff.Diff] / [diff.Analyze] AND what the
    implementation returned; [check] re-runs the model.  A [CSession] case is
    a whole sequence of calls on one pool of image objects (Model/DiffObjs.v).

    Only the transport encoding uses primitive 63-bit integers (images of
    4 KiB as lists of [Z] literals take coqc a second each to parse): a byte
    string travels as a list of [int], 7 bytes per item, little endian, with a
    sentinel 1 above the last byte; a pair of small numbers (a range, the two
    Hamming distances) travels as [hi * 2^24 + lo].  The decoders below turn
    them into the [Z]/[list Z] values the model works on. *)
From Coq Require Import Uint63.
From CSS Require Import Lib.Base Lib.Cases Model.Diff Model.DiffObjs.

(** ** decoders *)

Fixpoint dec_bytes1 (n : nat) (x : int) : list Z :=
  match n with
  | O => []
  | S n' => if (x <=? 1)%uint63 then []
            else Uint63.to_Z (x land 255)%uint63 :: dec_bytes1 n' (x >> 8)%uint63
  end.

Definition dec_bytes (l : list int) : list Z := flat_map (dec_bytes1 7) l.

Definition dec_hi (x : int) : Z := Uint63.to_Z (x >> 24)%uint63.
Definition dec_lo (x : int) : Z := Uint63.to_Z (x land 16777215)%uint63.
Definition dec_range (x : int) : range := mkR (dec_hi x) (dec_lo x).

(** a list of ranges: packed (offset < 2^38, length < 2^24) or as written *)
Inductive rlist : Type :=
| RP (l : list int)
| RW (l : list (Z * Z)).

Definition dec_rlist (r : rlist) : list range :=
  match r with
  | RP l => map dec_range l
  | RW l => map (fun p => mkR (fst p) (snd p)) l
  end.

(** observed report entry: packed DiffRange, packed (HammingDistance,
    HammingDistanceNon00orFF), related measurements (index, chunk indices) *)
Inductive oentry : Type := OE (r h : int) (rel : list (Z * list Z)).

Definition dec_entry (e : oentry) : entry :=
  match e with OE r h rel => mkE (dec_range r) (dec_hi h) (dec_lo h) rel end.

(** observed report: entries, FirstProblemOffset, BytesChanged, HammingDistance,
    HammingDistanceNon00orFF *)
Inductive oreport : Type := ORep (es : list oentry) (f c h hf : Z).

Definition dec_report (o : oreport) : report :=
  match o with ORep es f c h hf => mkRep (map dec_entry es) f c h hf end.

(** ** equality tests *)

Definition rel_eqb (a b : list (Z * list Z)) : bool :=
  list_eqb (fun x y => (fst x =? fst y) && zlist_eqb (snd x) (snd y)) a b.

Definition entry_eqb (a b : entry) : bool :=
  range_eqb (e_range a) (e_range b) && (e_hd a =? e_hd b) && (e_hdf a =? e_hdf b)
  && rel_eqb (e_rel a) (e_rel b).

Definition report_eqb (a b : report) : bool :=
  list_eqb entry_eqb (r_entries a) (r_entries b) && (r_first a =? r_first b)
  && (r_changed a =? r_changed b) && (r_hd a =? r_hd b) && (r_hdf a =? r_hdf b).

Definition obs_map {A B} (f : A -> B) (o : obs A) : obs B :=
  match o with
  | OOk a => OOk (f a)
  | OErr => OErr
  | OPanic => OPanic
  end.

(** ** sessions on image objects *)

(** an object of the pool as the harness built it: [built = 0]
    biosimage.New(content) with the observed parse contract [pf] of the content
    ([Some (len Buf)] or [None] = error), [built = 1] biosimage.NewFromParsed
    ([content] is the object's Content, i.e. the parsed buffer) *)
Inductive oimg : Type := OImg (content : list int) (pf : option Z) (built : nat).

Definition dec_img (o : oimg) : image :=
  match o with
  | OImg c pf O => new_image (dec_bytes c) pf
  | OImg c _ _ => new_from_parsed (dec_bytes c)
  end.

(** one call of a session and what the implementation returned *)
Inductive sstep : Type :=
| SParse (i : nat) (ok : bool)
| SSize (i : nat) (n : Z)
| SDiff (ranges : rlist) (mp : mapper) (g b : nat) (ign : list Z) (r : obs rlist)
| SAnalyze (ranges : rlist) (mp : mapper) (ms : list rlist) (g b : nat) (r : obs oreport).

Definition op_of (s : sstep) : op :=
  match s with
  | SParse i _ => OpParse i
  | SSize i _ => OpSize i
  | SDiff ranges mp g b ign _ => OpDiff (dec_rlist ranges) mp g b ign
  | SAnalyze ranges mp ms g b _ => OpAnalyze (dec_rlist ranges) mp (map dec_rlist ms) g b
  end.

Definition step_match (s : sstep) (r : res) : bool :=
  match s, r with
  | SParse _ ok, RParse ok' => Bool.eqb ok ok'
  | SSize _ n, RSize n' => n =? n'
  | SDiff _ _ _ _ _ o, RDiff m => obs_match (list_eqb range_eqb) (obs_map dec_rlist o) m
  | SAnalyze _ _ _ _ _ o, RAnalyze m => obs_match report_eqb (obs_map dec_report o) m
  | _, _ => false
  end.

Fixpoint all_match (ss : list sstep) (rs : list res) : bool :=
  match ss, rs with
  | [], [] => true
  | s :: ss', r :: rs' => step_match s r && all_match ss' rs'
  | _, _ => false
  end.

(** ** cases *)

Inductive case : Type :=
(* Diff(ranges, mapper, New(good), New(bad), ign) *)
| CDiff (ranges : rlist) (mp : mapper) (good bad : list int) (ign : list Z) (r : obs rlist)
(* Analyze(ranges, mapper, measurements, New(good), New(bad)); parse_ok is the
   outcome of New(good).Parse() observed by the harness *)
| CAnalyze (ranges : rlist) (mp : mapper) (ms : list rlist) (good bad : list int)
           (parse_ok : bool) (r : obs oreport)
(* Range.Intersect on raw uint64 values *)
| CIntersect (a b : Z * Z) (r : bool)
(* a session: calls chained on ONE pool of image objects, with what each call
   returned (Model/DiffObjs.v) *)
| CSession (imgs : list oimg) (steps : list sstep).

(* number literals in these positions are primitive integers *)
Arguments RP l%uint63.
Arguments OE (r h)%uint63 rel%Z.
Arguments CDiff ranges mp (good bad)%uint63 ign%Z r.
Arguments CAnalyze ranges mp ms (good bad)%uint63 parse_ok r.
Arguments OImg content%uint63 pf%Z built%nat.

Definition check (c : case) : bool :=
  match c with
  | CDiff ranges mp good bad ign r =>
      obs_match (list_eqb range_eqb) (obs_map dec_rlist r)
                (diff (dec_rlist ranges) mp (dec_bytes good) (dec_bytes bad) ign)
  | CAnalyze ranges mp ms good bad parse_ok r =>
      obs_match report_eqb (obs_map dec_report r)
                (analyze (dec_rlist ranges) mp (map dec_rlist ms) (dec_bytes good) (dec_bytes bad) parse_ok)
  | CIntersect a b r =>
      Bool.eqb r (intersect (mkR (fst a) (snd a)) (mkR (fst b) (snd b)))
  | CSession imgs steps =>
      all_match steps (run (map dec_img imgs) (map op_of steps))
  end.

Definition mismatches := mismatches_by check.
